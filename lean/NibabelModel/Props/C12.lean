import NibabelModel.Model.C12
import NibabelModel.Generated.C12FileTypes
import NibabelModel.Lemmas.C12_Routes
import NibabelModel.Lemmas.C12_Hist
import NibabelModel.Lemmas.C12_Gen
import NibabelModel.Lemmas.C12_GenParse
import NibabelModel.Lemmas.C12_GenTypes
/-! Props/C12 — property theorems for C12 (all serialisation routes and accepted file names are
    equivalent).  Strings are lists of character codes; `stem` is ARBITRARY everywhere (any bytes:
    dots, spaces, `/`), `e'` is any case mix of a member's extension (`lower e' = lower e`), `z'` any
    case mix of one of the class's compression suffixes or empty (`SfxSpelling`).  The facts about the
    class table are proved by `decide` over the table REGENERATED from the working tree. -/
namespace Nb.C12
open Nb.C12.Gen

/-! ## facts about the regenerated table (finite, by `decide`) -/

/-- every class's extension/suffix table is well-formed (dotted, case-insensitively distinct) -/
theorem table_wf : ∀ r ∈ classTable, WF r.filesTypes r.suffixes := by decide

/-- only the base `filespec_to_file_map`, MGH's `.mgz` override, or (for read-only AFNI) another one -/
theorem table_rw_modelled : ∀ r ∈ classTable, r.rw = true → r.fmKind ≤ 1 := by decide

/-- `.mgz` is not a member extension or compression suffix of the class with the `.mgz` override -/
theorem table_mgz_fresh : ∀ r ∈ classTable, r.fmKind = 1 →
    (∀ t ∈ r.filesTypes, t.2.map lower ≠ some mgzExt) ∧ (∀ s ∈ r.suffixes, lower s ≠ mgzExt) := by decide

/-- member extensions are spelled in lower case in the table -/
theorem table_exts_lower : ∀ r ∈ classTable, ∀ t ∈ r.filesTypes, t.2.all (fun x => x = lower x) = true := by decide

/-- `valid_exts` entries are dotted, lower case and differ from every compression suffix -/
theorem table_valid_exts : ∀ r ∈ classTable, ∀ v ∈ r.validExts,
    dotted v = true ∧ v = lower v ∧ ∀ s ∈ r.suffixes, lower s ≠ lower v := by decide

/-- for a writable class every member extension except SPM's `.mat` side-car is in `valid_exts` -/
theorem table_members_loadable : ∀ r ∈ classTable, r.rw = true → ∀ t ∈ r.filesTypes,
    t.2 = some [46, 109, 97, 116] ∨ t.2.all (fun e => r.validExts.contains (lower e)) = true := by decide

/-- every compression suffix of a writable class has an opener (else `<name>.sfx` would be written
    uncompressed), no member extension has one, and opener keys are non-empty -/
theorem table_codecs : (∀ r ∈ classTable, r.rw = true →
      (∀ s ∈ r.suffixes, codecOfExt openerKeys s ≠ 0) ∧
      (∀ t ∈ r.filesTypes, t.2.all (fun e => codecOfExt openerKeys e = 0) = true)) ∧
    (∀ k ∈ openerKeys, k.1 ≠ []) ∧ compressExtIcase = true ∧ codecOfExt openerKeys mgzExt = 1 := by decide

/-- serialisable classes are single-file classes with an extension -/
theorem table_serial_single' : ∀ r ∈ classTable, r.serial = true →
    r.filesTypes.length = 1 ∧ r.filesTypes.all (·.2.isSome) = true := by decide

theorem table_serial_single : ∀ r ∈ classTable, r.serial = true → ∃ nm e, r.filesTypes = [(nm, some e)] := by
  intro r hr hs
  obtain ⟨h1, h2⟩ := table_serial_single' r hr hs
  match hft : r.filesTypes, h1, h2 with
  | [(nm, some e)], _, _ => exact ⟨nm, e, rfl⟩
  | [(nm, none)], _, h2 => simp at h2

/-! ## named_file_is_written -/

/-- Generic form: for a well-formed extension table and ANY stem, naming member `nm` by any case mix of
    its extension and of a compression suffix gives a file map whose entries are
    `stem ++ <member extension> ++ <suffix as given>`; the named member's extension is the given one. -/
theorem named_file_is_written_generic (r : ClassRow) (wf : WF r.filesTypes r.suffixes) (hk : r.fmKind ≤ 1)
    (hmgz : r.fmKind = 1 → (∀ t ∈ r.filesTypes, t.2.map lower ≠ some mgzExt) ∧ (∀ s ∈ r.suffixes, lower s ≠ mgzExt))
    {nm e : Str} (hm : (nm, some e) ∈ r.filesTypes) (stem e' z' : Str)
    (he : lower e' = lower e) (hz : SfxSpelling r.suffixes z') :
    ∃ m, filespecToFileMap r (stem ++ e' ++ z') = some (.ok m) ∧
      m = r.filesTypes.map (fun t => (t.1, stem ++ memberExt nm e' t ++ z')) ∧
      m.lookup nm = some (stem ++ e' ++ z') := by
  refine ⟨_, ?_, rfl, lookup_named r.filesTypes nm e stem e' z' hm⟩
  have hbase := typesFilenames_accepted wf hm stem e' z' he hz
  unfold filespecToFileMap
  by_cases h0 : r.fmKind = 0
  · rw [if_pos h0, hbase]
  · have h1 : r.fmKind = 1 := by omega
    obtain ⟨hme, hms⟩ := hmgz h1
    have hd' : dotted e' = true := dotted_of_lower_eq he (wf.extDotted hm)
    have hne : lower (splitext (stem ++ e' ++ z')).2 ≠ mgzExt := by
      by_cases hz0 : z' = []
      · subst hz0
        rw [List.append_nil]
        rcases splitext_dotted_snd stem e' hd' with h | h <;> rw [h]
        · rw [he]; intro h'; exact hme _ hm (by simp [h'])
        · decide
      · rcases hz with h | ⟨z, hzS, hzl⟩
        · exact absurd h hz0
        · rcases splitext_dotted_snd (stem ++ e') z' (dotted_of_lower_eq hzl (wf.sfxDotted hzS)) with h | h <;> rw [h]
          · rw [hzl]; exact hms z hzS
          · decide
    rw [if_neg h0, if_pos h1, if_neg hne, hbase]

/-- **named_file_is_written** — for every class of `all_image_classes` whose `filespec_to_file_map` is
    modelled (all writable ones), every member, every case mix of extension and compression suffix,
    every stem: the file map's entry for the named member is EXACTLY the given name; every other
    member's file is `stem ++ ext ++ suffix` with the same stem and the suffix exactly as given. -/
theorem named_file_is_written : ∀ r ∈ classTable, r.fmKind ≤ 1 →
    ∀ nm e, (nm, some e) ∈ r.filesTypes → ∀ stem e' z' : Str, lower e' = lower e → SfxSpelling r.suffixes z' →
    ∃ m, filespecToFileMap r (stem ++ e' ++ z') = some (.ok m) ∧
      m.lookup nm = some (stem ++ e' ++ z') ∧
      ∀ k f, (k, f) ∈ m → ∃ x, f = stem ++ x ++ z' ∧ ∃ t ∈ r.filesTypes, t.1 = k ∧ x = memberExt nm e' t := by
  intro r hr hk nm e hm stem e' z' he hz
  obtain ⟨m, h1, h2, h3⟩ := named_file_is_written_generic r (table_wf r hr) hk (table_mgz_fresh r hr) hm stem e' z' he hz
  refine ⟨m, h1, h3, ?_⟩
  intro k f hkf
  rw [h2, List.mem_map] at hkf
  obtain ⟨t, ht, heq⟩ := hkf
  simp only [Prod.mk.injEq] at heq
  exact ⟨memberExt nm e' t, heq.2.symm, t, ht, heq.1, rfl⟩

-- non-vacuity: Nifti1Pair named by its header as `a b/f.HdR.Gz`
example : filespecToFileMap rowNifti1Pair ([97, 32, 98, 47, 102] ++ [46, 72, 100, 82] ++ [46, 71, 122])
    = some (.ok [([105, 109, 97, 103, 101], [97, 32, 98, 47, 102] ++ [46, 105, 109, 103] ++ [46, 71, 122]),
                 ([104, 101, 97, 100, 101, 114], [97, 32, 98, 47, 102] ++ [46, 72, 100, 82] ++ [46, 71, 122])]) := by
  decide
example : rowNifti1Pair ∈ classTable ∧ rowNifti1Pair.fmKind ≤ 1 ∧
    ([104, 101, 97, 100, 101, 114], some [46, 104, 100, 114]) ∈ rowNifti1Pair.filesTypes ∧
    lower [46, 72, 100, 82] = lower [46, 104, 100, 114] ∧ SfxSpelling rowNifti1Pair.suffixes [46, 71, 122] := by
  refine ⟨by decide, by decide, by decide, by decide, Or.inr ⟨[46, 103, 122], by decide, by decide⟩⟩

/-- MGH's `.mgz` (any case): when the stem's last component is not empty/all dots, the file map is
    exactly `{image: given name}`.  (For a dot-file name such as `.mgz` `os.path.splitext` sees no
    extension and the name is treated as a bare root: `.mgz.mgh` — see the `example` below.) -/
theorem mgz_named_file_is_written : ∀ r ∈ classTable, r.fmKind = 1 → ∀ stem e' : Str,
    goodStem stem = true → lower e' = mgzExt →
    filespecToFileMap r (stem ++ e') = some (.ok [((r.filesTypes.head?.map (·.1)).getD [], stem ++ e')]) := by
  intro r _ hk stem e' hg he
  have hd' : dotted e' = true := dotted_of_lower_eq (b := mgzExt) (by rw [he]; decide) (by decide)
  simp [filespecToFileMap, hk, splitext_dotted stem e' hd', hg, he]

example : filespecToFileMap rowMGHImage [46, 109, 103, 122]
    = some (.ok [([105, 109, 97, 103, 101], [46, 109, 103, 122, 46, 109, 103, 104])]) := by decide
example : goodStem [100, 47, 113] = true ∧ lower [46, 77, 103, 90] = mgzExt := by decide

/-- The pinned (pre-fix) `types_filenames` rewrote a mixed-case name: `f.Nii.gz ↦ f.nii.gz`, so the
    file the user named was not written (and loading it failed). -/
theorem orig_mixed_case_counterexample :
    typesFilenamesOrig [102, 46, 78, 105, 105, 46, 103, 122] rowNifti1Image.filesTypes rowNifti1Image.suffixes
      = .ok [([105, 109, 97, 103, 101], [102, 46, 110, 105, 105, 46, 103, 122])] ∧
    typesFilenames [102, 46, 78, 105, 105, 46, 103, 122] rowNifti1Image.filesTypes rowNifti1Image.suffixes
      = .ok [([105, 109, 97, 103, 101], [102, 46, 78, 105, 105, 46, 103, 122])] := by decide

/-! ## sibling_case_rule -/

/-- the sibling's extension: all-upper given extension ⇒ upper-cased, otherwise lower case (the table's
    spelling), for every class in the table -/
theorem sibling_case_rule : ∀ r ∈ classTable, ∀ nm n2 e2 e', (n2, some e2) ∈ r.filesTypes → n2 ≠ nm → e' ≠ [] →
    memberExt nm e' (n2, some e2) = (if e' = upper e' then upper e2 else lower e2) ∧
    lower (memberExt nm e' (n2, some e2)) = lower e2 := by
  intro r hr nm n2 e2 e' h2 hne he'
  have hl : e2 = lower e2 := by simpa using table_exts_lower r hr _ h2
  have he'' : e'.isEmpty = false := by simpa using he'
  simp only [memberExt, if_neg hne, procExt, he'', Bool.false_eq_true, if_false]
  split
  · exact ⟨rfl, lower_upper e2⟩
  · split
    · exact ⟨rfl, lower_lower e2⟩
    · exact ⟨hl, rfl⟩

example : memberExt [104] [46, 72, 68, 82] ([105], some [46, 105, 109, 103]) = [46, 73, 77, 71] ∧
          memberExt [104] [46, 72, 100, 82] ([105], some [46, 105, 109, 103]) = [46, 105, 109, 103] := by decide

/-- member names are distinct; every member extension contains a letter -/
theorem table_names_letters : ∀ r ∈ classTable, (r.filesTypes.map (·.1)).Nodup ∧
    ∀ t ∈ r.filesTypes, t.2.all (fun x => decide (lower x ≠ upper x)) = true := by decide

/-- **sibling_name_same_files_partial** — when the given extension is all-upper or all-lower, naming ANY sibling
    the save produced yields the same file map: generic load through any written name finds all files.
    PARTIAL: the full statement (the same for EVERY case mix `e'`, without the hypothesis
    `e' = upper e' ∨ e' = lower e'`) is FALSE of the code — see `mixed_case_sibling_counterexample` below: the
    sibling case rule maps every Mixed-case extension to the lower-case sibling and is not invertible. -/
theorem sibling_name_same_files_partial : ∀ r ∈ classTable, ∀ nm e n2 e2, (nm, some e) ∈ r.filesTypes →
    (n2, some e2) ∈ r.filesTypes → n2 ≠ nm → ∀ stem e' z' : Str, lower e' = lower e →
    (e' = upper e' ∨ e' = lower e') → SfxSpelling r.suffixes z' →
    typesFilenames (stem ++ memberExt nm e' (n2, some e2) ++ z') r.filesTypes r.suffixes
      = typesFilenames (stem ++ e' ++ z') r.filesTypes r.suffixes := by
  intro r hr nm e n2 e2 hm h2 hne stem e' z' he hcase hz
  have wf := table_wf r hr
  obtain ⟨hnd, hlet⟩ := table_names_letters r hr
  have he'ne : e' ≠ [] := dotted_ne_nil (dotted_of_lower_eq he (wf.extDotted hm))
  obtain ⟨hs, hsl⟩ := sibling_case_rule r hr nm n2 e2 e' h2 hne he'ne
  rw [typesFilenames_accepted wf h2 stem _ z' hsl hz, typesFilenames_accepted wf hm stem e' z' he hz]
  congr 1
  apply List.map_congr_left
  intro t ht
  have hl2 : e2 = lower e2 := by simpa using table_exts_lower r hr _ h2
  have hl : e = lower e := by simpa using table_exts_lower r hr _ hm
  have hlet2 : lower e2 ≠ upper e2 := by simpa using hlet _ h2
  have hs2ne : e2 ≠ [] := dotted_ne_nil (wf.extDotted h2)
  -- the sibling's extension and what the case rule does when IT is the given extension
  have key : ∀ x : Str, procExt (memberExt nm e' (n2, some e2)) x = procExt e' x ∧
      procExt (memberExt nm e' (n2, some e2)) e = e' := by
    intro x
    rw [hs]
    by_cases hu : e' = upper e'
    · rw [if_pos hu]
      have hune : upper e2 ≠ [] := by simpa [upper] using hs2ne
      have huu : upper e2 = upper (upper e2) := (upper_upper e2).symm
      refine ⟨by rw [procExt_upper hune huu, procExt_upper he'ne hu], ?_⟩
      rw [procExt_upper hune huu, hu, ← upper_lower e', he, upper_lower]
    · rw [if_neg hu]
      have hlo : e' = lower e' := by rcases hcase with h | h; exact absurd h hu; exact h
      have hlne : lower e2 ≠ [] := by simpa [lower] using hs2ne
      have hnu : lower e2 ≠ upper (lower e2) := by rw [upper_lower]; exact hlet2
      have hll : lower e2 = lower (lower e2) := (lower_lower e2).symm
      refine ⟨by rw [procExt_lower hlne hnu hll, procExt_lower he'ne hu hlo], ?_⟩
      rw [procExt_lower hlne hnu hll, hlo, he]
  obtain ⟨tn, te⟩ := t
  simp only [Prod.mk.injEq, true_and]
  congr 2
  by_cases h1 : tn = n2
  · subst h1
    have : te = some e2 := snd_unique_of_nodup_fst hnd ht h2
    subst this
    simp [memberExt, hne]
  · by_cases h3 : tn = nm
    · subst h3
      have : te = some e := snd_unique_of_nodup_fst hnd ht hm
      subst this
      simp only [memberExt, if_neg h1, if_true]
      exact (key e).2
    · simp only [memberExt, if_neg h1, if_neg h3]
      cases te with
      | none => rfl
      | some x => exact (key x).1

example : memberExt [105, 109, 97, 103, 101] [46, 73, 77, 71] ([104, 101, 97, 100, 101, 114], some [46, 104, 100, 114])
    = [46, 72, 68, 82] ∧ ([46, 73, 77, 71] : Str) = upper [46, 73, 77, 71] := by decide

/-! ## load_finds_class -/

/-- The extension test of `path_maybe_image` of a class accepts every case mix of every one of its
    `valid_exts` followed by any case mix of one of its compression suffixes, for every stem. -/
theorem load_finds_class : ∀ r ∈ classTable, ∀ v ∈ r.validExts, ∀ stem e' z' : Str,
    lower e' = lower v → SfxSpelling r.suffixes z' → extOK r (stem ++ e' ++ z') = true := by
  intro r hr v hv stem e' z' he hz
  obtain ⟨hd, hl, hdis⟩ := table_valid_exts r hr v hv
  have := splitextAddext_accepted (table_wf r hr).2.1 hd hdis stem e' z' he hz
  simp only [extOK, this, he, ← hl]
  simpa using hv

/-- … in particular the class that wrote a name accepts it: every member extension of a writable class
    (except SPM's `.mat` side-car, which no class loads) is one of its `valid_exts`. -/
theorem load_finds_writer : ∀ r ∈ classTable, r.rw = true → ∀ nm e, (nm, some e) ∈ r.filesTypes →
    e ≠ [46, 109, 97, 116] → ∀ stem e' z' : Str, lower e' = lower e → SfxSpelling r.suffixes z' →
    extOK r (stem ++ e' ++ z') = true := by
  intro r hr hrw nm e hm hmat stem e' z' he hz
  have hv : lower e ∈ r.validExts := by
    rcases table_members_loadable r hr hrw _ hm with h | h
    · exact absurd (Option.some.inj h) hmat
    · simpa using h
  have hl : lower e = lower (lower e) := (lower_lower e).symm
  exact load_finds_class r hr (lower e) hv stem e' z' (he.trans hl) hz

example : extOK rowSpm2AnalyzeImage ([102, 32] ++ [46, 72, 68, 82] ++ [46, 66, 122, 50]) = true := by decide

/-- The whole `load()` class loop is case-insensitive in the name: two spellings of a name that differ
    only in case are given to the same class (for the same header-sniff answers). -/
theorem load_class_case_insensitive (sniffOK : Str → Bool) (n1 n2 : Str) (h : lower n1 = lower n2) :
    loadClass classTable sniffOK n1 = loadClass classTable sniffOK n2 := by
  rw [← loadClass_lower classTable sniffOK n1, ← loadClass_lower classTable sniffOK n2, h]

example : lower [102, 46, 78, 73, 105, 46, 71, 90] = lower [102, 46, 110, 105, 105, 46, 103, 122] := by decide

/-! ## codec_same_for_read_and_write -/

/-- Every file of the file map of an accepted name with a compression suffix is opened — for writing
    and for reading alike, `Opener` has one choice function — with the codec of that suffix, whatever
    the case; without a suffix every member of a writable class is opened uncompressed. -/
theorem codec_same_for_read_and_write : ∀ r ∈ classTable, r.rw = true →
    ∀ nm e, (nm, some e) ∈ r.filesTypes → ∀ stem e' z' : Str, lower e' = lower e →
    (∀ z ∈ r.suffixes, lower z' = lower z →
        openerCodec openerKeys compressExtIcase (stem ++ e' ++ z') = codecOfExt openerKeys z ∧
        codecOfExt openerKeys z ≠ 0) ∧
    openerCodec openerKeys compressExtIcase (stem ++ e') = 0 := by
  intro r hr hrw nm e hm stem e' z' he
  obtain ⟨hcod, hkeys, hic, _⟩ := table_codecs
  have wf := table_wf r hr
  have hd := wf.extDotted hm
  have hd' := dotted_of_lower_eq he hd
  rw [hic]
  constructor
  · intro z hz hzl
    exact ⟨openerCodec_suffix openerKeys stem e' z' z hd' (wf.sfxDotted hz) hzl, (hcod r hr hrw).1 z hz⟩
  · have h0 : codecOfExt openerKeys e = 0 := by simpa using (hcod r hr hrw).2 _ hm
    rcases openerCodec_nosuffix openerKeys stem e' e hd he with h | h
    · rw [h, h0]
    · rw [h, codecOfExt_nil_of openerKeys hkeys]

example : openerCodec openerKeys compressExtIcase ([102] ++ [46, 78, 105, 105] ++ [46, 66, 90, 50]) = 2 := by decide

/-- `.mgz` (any case, proper stem) is opened with gzip -/
theorem mgz_codec (stem e' : Str) (hg : goodStem stem = true) (he : lower e' = mgzExt) :
    openerCodec openerKeys compressExtIcase (stem ++ e') = 1 := by
  have hd' : dotted e' = true := dotted_of_lower_eq (b := mgzExt) (by rw [he]; decide) (by decide)
  obtain ⟨_, _, hic, hm⟩ := table_codecs
  rw [hic, openerCodec_icase, splitext_dotted stem e' hd', hg]
  simp only [if_true]
  rw [codecOfExt_congr openerKeys (b := mgzExt) (by rw [he]; decide), hm]

/-! ## routes_equal -/

/-- For every serialisable class, every accepted name and every payload (`to_file_map`'s bytes): under
    the codec contract `decomp c (comp c b) = b`,
    * `to_filename(name)` stores under EXACTLY `name` bytes that decompress (codec chosen from the name)
      to `to_bytes()`;
    * `to_bytes()` = the bytes `to_stream` wrote = the payload;
    * `from_filename(name)` after `to_filename(name)` hands the parser the same bytes as
      `from_bytes(to_bytes())`.
    NOTE (audit): here the payload is ONE abstract byte string shared by every route, so the conjuncts
    `toBytes … = .ok payload` and `fromBytes r payload = .ok payload` are definitional glue (true of any row by
    unfolding); the content of this theorem is the name / codec part.  The version in which the serialiser is a
    function of the holder kind (write program on a random-access vs. a sequential compressed object) is
    `routes_equal_holder` below, resting on `holders_agree`. -/
theorem routes_equal (cd : Codecs) (hcd : ∀ c b, cd.decomp c (cd.comp c b) = b) :
    ∀ r ∈ classTable, r.serial = true → r.fmKind ≤ 1 → ∀ nm e, (nm, some e) ∈ r.filesTypes →
    ∀ (stem e' z' : Str) (payload : Bytes) (w : World), lower e' = lower e → SfxSpelling r.suffixes z' →
    let name := stem ++ e' ++ z'
    let c := openerCodec openerKeys compressExtIcase name
    ∃ w', toFilename cd openerKeys compressExtIcase r payload w name = .ok w' ∧
      (fsRead w'.fs name).map (cd.decomp c) = some payload ∧
      toBytes cd openerKeys compressExtIcase r payload = .ok payload ∧
      fromFilename cd openerKeys compressExtIcase r w' name = some payload ∧
      fromBytes r payload = .ok payload := by
  intro r hr hser hk nm e hm stem e' z' payload w he hz
  obtain ⟨nm0, e0, hft⟩ := table_serial_single r hr hser
  obtain ⟨m, h1, h2, _⟩ := named_file_is_written_generic r (table_wf r hr) hk (table_mgz_fresh r hr) hm stem e' z' he hz
  have hnm : nm = nm0 := by rw [hft] at hm; simp at hm; exact hm.1
  have hm' : m = [(nm0, stem ++ e' ++ z')] := by
    rw [h2, hft]; simp [memberExt, hnm]
  subst hm'
  clear h2
  generalize stem ++ e' ++ z' = name at h1 ⊢
  refine ⟨writeHolder cd openerKeys compressExtIcase payload w (.file name),
    by simp only [toFilename, h1], ?_, ?_, ?_, ?_⟩
  · simp [writeHolder, fsRead, fsWrite, hcd]
  · simp [toBytes, filemapFromIobase, hft, writeHolder]
  · simp [fromFilename, h1, readHolder, writeHolder, fsRead, fsWrite, hcd]
  · simp [fromBytes, filemapFromIobase, hft, readHolder]

example : rowGiftiImage ∈ classTable ∧ rowGiftiImage.serial = true ∧ rowGiftiImage.fmKind ≤ 1 ∧
    ([105, 109, 97, 103, 101], some [46, 103, 105, 105]) ∈ rowGiftiImage.filesTypes := by decide

/-- multi-file classes have no byte-string form: `_filemap_from_iobase` refuses -/
theorem multi_file_not_serialisable (cd : Codecs) (r : ClassRow) (h : r.filesTypes.length > 1) (p : Bytes) :
    toBytes cd openerKeys compressExtIcase r p = .error .notImplemented := by
  simp [toBytes, filemapFromIobase, h]

example : rowNifti1Pair.filesTypes.length > 1 := by decide

/-! ## the two opener classes; the whole load loop; histories over one process -/

/-- `ImageOpener.compress_ext_map` is the base `Opener`'s plus `.mgz` (registered by mghformat.py), and no base key is `.mgz` in any case -/
theorem table_opener_keys : openerKeys = baseOpenerKeys ++ [(mgzExt, 1)] ∧
    (∀ q ∈ baseOpenerKeys, lower q.1 ≠ lower mgzExt) ∧ compressExtIcase = true := by decide

/-- **two call sites, one rule** — the base `Opener` (streamlines, freesurfer.io, user code) and `ImageOpener`
    (every image class) choose the SAME codec for every file name whatsoever, except names whose extension is
    `.mgz` in some case mix, which `ImageOpener` gzips and the base class opens plainly.  (Each call scans its
    OWN class's `compress_ext_map`; a table shared/cached across the two classes would break one of the two
    conjuncts.) -/
theorem opener_classes_agree_except_mgz (fn : Str) :
    (lower (splitext fn).2 ≠ mgzExt →
      openerCodec baseOpenerKeys compressExtIcase fn = openerCodec openerKeys compressExtIcase fn) ∧
    (lower (splitext fn).2 = mgzExt →
      openerCodec baseOpenerKeys compressExtIcase fn = 0 ∧ openerCodec openerKeys compressExtIcase fn = 1) := by
  obtain ⟨hk, hb, hic⟩ := table_opener_keys
  have hl : lower mgzExt = mgzExt := by decide
  rw [hic, openerCodec_icase, openerCodec_icase, hk]
  constructor
  · intro h
    rw [codecOfExt_append_ne _ _ _ _ (by rw [hl]; exact fun h' => h h'.symm)]
  · intro h
    have := codecOfExt_append_eq baseOpenerKeys mgzExt 1 (splitext fn).2 (by rw [hl, h]) hb
    exact ⟨this.2, this.1⟩

example : lower (splitext [118, 46, 77, 103, 90]).2 = mgzExt ∧ lower (splitext [118, 46, 71, 90]).2 ≠ mgzExt := by decide

/-- **load_returns_writer** — the whole `load()` class loop (not only the extension test): for a class `r` at
    ANY position of `all_image_classes`, every spelling of every one of its `valid_exts` is loaded AS `r`,
    provided `r`'s own header sniff accepts (when it sniffs) and every EARLIER class that passes the extension
    test sniffs and rejects the header.  The hypothesis on `sniffOK` is exactly the external fact the harness
    measures (`sniff_table`). -/
theorem load_returns_writer (sniffOK : Str → Bool) : ∀ pre r post, classTable = pre ++ r :: post →
    ∀ v ∈ r.validExts, ∀ stem e' z' : Str, lower e' = lower v → SfxSpelling r.suffixes z' →
    (r.sniffs = true → sniffOK r.name = true) →
    (∀ r' ∈ pre, extOK r' (stem ++ e' ++ z') = true → r'.sniffs = true ∧ sniffOK r'.name = false) →
    loadClass classTable sniffOK (stem ++ e' ++ z') = some r.name := by
  intro pre r post ht v hv stem e' z' he hz hown hpre
  have hr : r ∈ classTable := by rw [ht]; simp
  have hx := load_finds_class r hr v hv stem e' z' he hz
  unfold loadClass
  rw [ht, find?_pre _ pre post r]
  · rfl
  · intro r' hr'
    by_cases hxe : extOK r' (stem ++ e' ++ z') = true
    · obtain ⟨h1, h2⟩ := hpre r' hr' hxe
      simp only [h1, h2, Bool.not_true, Bool.or_false, Bool.and_false]
    · have hf : extOK r' (stem ++ e' ++ z') = false := by simpa using hxe
      simp only [hf, Bool.false_and]
  · rw [hx]
    by_cases hs : r.sniffs = true
    · simp [hs, hown hs]
    · simp [hs]

example : classTable = [rowNifti1Pair] ++ rowNifti1Image :: [rowNifti2Pair, rowCifti2Image, rowNifti2Image, rowSpm2AnalyzeImage, rowSpm99AnalyzeImage, rowAnalyzeImage, rowMinc1Image, rowMinc2Image, rowMGHImage, rowPARRECImage, rowGiftiImage, rowAFNIImage] ∧
   extOK rowNifti1Pair ([102] ++ [46, 78, 105, 105] ++ [46, 71, 122]) = false := by decide

/-- **sniffFile_is_written_header** — the file `_sniff_meta_for` reads for an accepted name is one of the files the
    save wrote: the `header` member's file (`stem ++ sibling-rule extension ++ suffix as given`) when the class has
    one, the named file itself otherwise. -/
theorem sniffFile_is_written_header : ∀ r ∈ classTable, ∀ nm e, (nm, some e) ∈ r.filesTypes →
    ∀ stem e' z' : Str, lower e' = lower e → SfxSpelling r.suffixes z' →
    ∃ m s, typesFilenames (stem ++ e' ++ z') r.filesTypes r.suffixes = .ok m ∧
      sniffFile headerKey r (stem ++ e' ++ z') = .ok s ∧ s ∈ m.map (·.2) ∧
      (∀ eh, (headerKey, some eh) ∈ r.filesTypes → s = stem ++ memberExt nm e' (headerKey, some eh) ++ z') ∧
      ((∀ t ∈ r.filesTypes, t.1 ≠ headerKey) → s = stem ++ e' ++ z') := by
  intro r hr nm e hm stem e' z' he hz
  have wf := table_wf r hr
  obtain ⟨hnd, _⟩ := table_names_letters r hr
  have hacc := typesFilenames_accepted wf hm stem e' z' he hz
  by_cases hh : ∃ t ∈ r.filesTypes, t.1 = headerKey
  · obtain ⟨⟨k, x⟩, ht, hk⟩ := hh
    simp only at hk; subst hk
    have hl := lookup_member r.filesTypes hnd (fun t => stem ++ memberExt nm e' t ++ z') headerKey x ht
    refine ⟨_, stem ++ memberExt nm e' (headerKey, x) ++ z', hacc, by simp only [sniffFile, hacc, hl]; rfl, ?_, ?_, ?_⟩
    · simp only [List.map_map, List.mem_map]
      exact ⟨(headerKey, x), ht, rfl⟩
    · intro eh heh
      have : x = some eh := snd_unique_of_nodup_fst hnd ht heh
      subst this; rfl
    · intro hno; exact absurd rfl (hno _ ht)
  · have hno : ∀ t ∈ r.filesTypes, t.1 ≠ headerKey := fun t ht h => hh ⟨t, ht, h⟩
    have hl := lookup_absent r.filesTypes (fun t => stem ++ memberExt nm e' t ++ z') headerKey hno
    refine ⟨_, stem ++ e' ++ z', hacc, by simp only [sniffFile, hacc, hl]; rfl, ?_, ?_, ?_⟩
    · simp only [List.map_map, List.mem_map]
      refine ⟨(nm, some e), hm, ?_⟩
      simp [memberExt]
    · intro eh heh; exact absurd rfl (hno _ heh)
    · intro _; rfl

example : sniffFile headerKey rowNifti1Pair ([102] ++ [46, 73, 77, 71] ++ [46, 71, 90]) = .ok ([102] ++ [46, 72, 68, 82] ++ [46, 71, 90]) := by rfl


/-- class names identify rows of the regenerated table -/
theorem table_findRow : ∀ r ∈ classTable, findRow classTable r.name = some r := by decide

/-- **save_then_load_returns_writer** — end to end on the history model, in a fresh directory: `nib.save(img_of r,
    name)` for any accepted spelling writes exactly `stem ++ member extension ++ suffix` for every member, each
    in the codec `ImageOpener` picks from its name, and `nib.load(name)` then finds every file it needs, reads
    each in the codec it was written in, and returns class `r` — under the same sniff hypothesis as
    `load_returns_writer` (stated on the measured table `sniffTab`: who accepts the header `r` writes). -/
theorem save_then_load_returns_writer (env : Env) (htab : env.table = classTable) (hhk : env.headerKey = headerKey) :
    ∀ pre r post, classTable = pre ++ r :: post → r.rw = true →
    ∀ nm e, (nm, some e) ∈ r.filesTypes → e ≠ [46, 109, 97, 116] →
    ∀ stem e' z' : Str, lower e' = lower e → SfxSpelling r.suffixes z' →
    (r.sniffs = true → ((env.sniffTab.lookup r.name).getD []).contains r.name = true) →
    (∀ r' ∈ pre, extOK r' (stem ++ e' ++ z') = true →
        r'.sniffs = true ∧ ((env.sniffTab.lookup r.name).getD []).contains r'.name = false) →
    (runHist env [] [.save r.name (stem ++ e' ++ z'), .load (stem ++ e' ++ z')]).2 =
      [.saved r.name (r.filesTypes.map fun t =>
          (stem ++ memberExt nm e' t ++ z', openerCodec env.imgKeys env.icase (stem ++ memberExt nm e' t ++ z'))),
       .loaded (.cls r.name)] := by
  intro pre r post ht hrw nm e hm hmat stem e' z' he hz hown hpre
  have hr : r ∈ classTable := by rw [ht]; simp
  have hk := table_rw_modelled r hr hrw
  obtain ⟨m, hfm, hm_eq, hlk⟩ := named_file_is_written_generic r (table_wf r hr) hk (table_mgz_fresh r hr) hm stem e' z' he hz
  obtain ⟨m', s, htf, hsf, hs_mem, _, _⟩ := sniffFile_is_written_header r hr nm e hm stem e' z' he hz
  have hm' : m' = m := by
    have := typesFilenames_accepted (table_wf r hr) hm stem e' z' he hz
    rw [this] at htf; rw [hm_eq]; exact (Except.ok.inj htf).symm
  subst hm'
  have hnameL : stem ++ e' ++ z' ∈ m'.map (·.2) := by
    rw [hm_eq, List.map_map, List.mem_map]
    exact ⟨(nm, some e), hm, by simp [memberExt]⟩
  have hobs : (r.filesTypes.map fun t =>
      (stem ++ memberExt nm e' t ++ z', openerCodec env.imgKeys env.icase (stem ++ memberExt nm e' t ++ z')))
      = m'.map fun kv => (kv.2, openerCodec env.imgKeys env.icase kv.2) := by
    rw [hm_eq, List.map_map]; rfl
  rw [hobs]
  have hx := load_finds_writer r hr hrw nm e hm hmat stem e' z' he hz
  clear hobs hm_eq hlk
  generalize stem ++ e' ++ z' = name at *
  -- the save step
  have hsave : histSave env r.name name = some (r.name, m'.map fun kv => (kv.2, openerCodec env.imgKeys env.icase kv.2)) := by
    simp only [histSave, htab, table_findRow r hr, saveClass, hfm]
  have hfiles : (m'.map fun kv => (kv.2, openerCodec env.imgKeys env.icase kv.2))
      = (m'.map (·.2)).map fun f => (f, openerCodec env.imgKeys env.icase f) := by
    rw [List.map_map]; rfl
  have hlook : ∀ x, ((m'.map fun kv => (kv.2, openerCodec env.imgKeys env.icase kv.2)).foldl
      (fun acc fc => pfsPut acc fc.1 ⟨r.name, fc.2⟩) ([] : PFS)).lookup x
        = if x ∈ m'.map (·.2) then some ⟨r.name, openerCodec env.imgKeys env.icase x⟩ else none := by
    intro x; rw [hfiles, foldl_put_lookup]; rfl
  generalize hfs : (m'.map fun kv => (kv.2, openerCodec env.imgKeys env.icase kv.2)).foldl
      (fun acc fc => pfsPut acc fc.1 ⟨r.name, fc.2⟩) ([] : PFS) = fs' at hlook
  -- the load step
  have hsn : ∀ r' : ClassRow, histSniff env fs' r' name = true →
      ((env.sniffTab.lookup r.name).getD []).contains r'.name = true := by
    intro r' h
    unfold histSniff at h
    cases hs' : sniffFile env.headerKey r' name with
    | error _ => rw [hs'] at h; simp at h
    | ok s' =>
      rw [hs'] at h
      simp only [hlook s'] at h
      by_cases hmem : s' ∈ m'.map (·.2)
      · simp only [hmem, if_true, Bool.and_eq_true] at h; exact h.2
      · simp [hmem] at h
  have hfind : env.table.find? (fun r' => extOK r' name && (!r'.sniffs || histSniff env fs' r' name)) = some r := by
    rw [htab, ht]
    apply find?_pre
    · intro r' hr'
      by_cases hxe : extOK r' name = true
      · obtain ⟨h1, h2⟩ := hpre r' hr' hxe
        have : histSniff env fs' r' name = false := by
          cases hh : histSniff env fs' r' name with
          | false => rfl
          | true => rw [hsn r' hh] at h2; cases h2
        simp only [h1, this, Bool.not_true, Bool.or_false, Bool.and_false]
      · have hf : extOK r' name = false := by simpa using hxe
        simp only [hf, Bool.false_and]
    · rw [hx]
      by_cases hs : r.sniffs = true
      · have : histSniff env fs' r name = true := by
          unfold histSniff
          rw [hhk, hsf]
          simp only [hlook s, if_pos hs_mem, decide_true, Bool.true_and]
          exact hown hs
        simp [hs, this]
      · simp [hs]
  have hload : histLoad env fs' name = .cls r.name := by
    unfold histLoad
    rw [hlook name, if_pos hnameL]
    simp only [Option.isNone_some, Bool.false_eq_true, if_false, hfind, hfm]
    have h1 : m'.all (fun kv => env.optional.contains kv.1 || (fs'.lookup kv.2).isSome) = true := by
      rw [List.all_eq_true]; intro kv hkv
      have : kv.2 ∈ m'.map (·.2) := List.mem_map.2 ⟨kv, hkv, rfl⟩
      simp [hlook kv.2, this]
    rw [if_pos h1]
    split
    · rfl
    · rename_i hneg
      exfalso; apply hneg
      rw [List.all_eq_true]; intro kv hkv
      have : kv.2 ∈ m'.map (·.2) := List.mem_map.2 ⟨kv, hkv, rfl⟩
      simp [hlook kv.2, this]
  simp only [runHist, step, hsave, hfs, hload]


/-- … and this is independent of any earlier use of `Opener` / `ImageOpener` on unrelated names in the same
    process, in any order: the last two observations are those of the fresh process. -/
theorem save_load_after_any_opener_calls (env : Env) (htab : env.table = classTable) (hhk : env.headerKey = headerKey)
    (h : List Op) (hall : ∀ o ∈ h, o.isOpener = true) :
    ∀ pre r post, classTable = pre ++ r :: post → r.rw = true →
    ∀ nm e, (nm, some e) ∈ r.filesTypes → e ≠ [46, 109, 97, 116] →
    ∀ stem e' z' : Str, lower e' = lower e → SfxSpelling r.suffixes z' →
    (r.sniffs = true → ((env.sniffTab.lookup r.name).getD []).contains r.name = true) →
    (∀ r' ∈ pre, extOK r' (stem ++ e' ++ z') = true →
        r'.sniffs = true ∧ ((env.sniffTab.lookup r.name).getD []).contains r'.name = false) →
    (runHist env [] (h ++ [.save r.name (stem ++ e' ++ z'), .load (stem ++ e' ++ z')])).2.drop h.length =
      [.saved r.name (r.filesTypes.map fun t =>
          (stem ++ memberExt nm e' t ++ z', openerCodec env.imgKeys env.icase (stem ++ memberExt nm e' t ++ z'))),
       .loaded (.cls r.name)] := by
  intro pre r post ht hrw nm e hm hmat stem e' z' he hz hown hpre
  rw [runHist_append, openers_keep_state env [] h hall]
  simp only
  rw [List.drop_append_of_le_length (by rw [runHist_length]; exact Nat.le_refl _)]
  rw [List.drop_eq_nil_of_le (by rw [runHist_length]; exact Nat.le_refl _), List.nil_append]
  exact save_then_load_returns_writer env htab hhk pre r post ht hrw nm e hm hmat stem e' z' he hz hown hpre

/-- the environment of the examples: the regenerated tables, Nifti2Image's header accepted by Nifti2Image and
    Nifti2Pair's sniff only (what `sniff_table` measures) -/
def exEnv : Env :=
  { table := classTable, baseKeys := baseOpenerKeys, imgKeys := openerKeys, icase := compressExtIcase,
    saveSfx := saveSuffixes, toPair := [], toSingle := [], imgHdr := [], nii := [], headerKey := headerKey,
    optional := [], sniffTab := [(rowNifti2Image.name, [rowNifti2Pair.name, rowNifti2Image.name])] }

-- non-vacuity: Nifti2Image saved as `f.NiI.gZ` after `Opener('notes.txt')`: three earlier classes pass the extension
-- test for `.nii` or not at all, sniff, and reject
example : classTable = [rowNifti1Pair, rowNifti1Image, rowNifti2Pair, rowCifti2Image] ++ rowNifti2Image ::
      [rowSpm2AnalyzeImage, rowSpm99AnalyzeImage, rowAnalyzeImage, rowMinc1Image, rowMinc2Image, rowMGHImage,
       rowPARRECImage, rowGiftiImage, rowAFNIImage] ∧ rowNifti2Image.rw = true ∧
    ([105, 109, 97, 103, 101], some [46, 110, 105, 105]) ∈ rowNifti2Image.filesTypes ∧
    lower [46, 78, 105, 73] = lower [46, 110, 105, 105] ∧
    (rowNifti2Image.sniffs = true → ((exEnv.sniffTab.lookup rowNifti2Image.name).getD []).contains rowNifti2Image.name = true) ∧
    (∀ r' ∈ [rowNifti1Pair, rowNifti1Image, rowNifti2Pair, rowCifti2Image],
        extOK r' ([102] ++ [46, 78, 105, 73] ++ [46, 103, 90]) = true →
        r'.sniffs = true ∧ ((exEnv.sniffTab.lookup rowNifti2Image.name).getD []).contains r'.name = false) ∧
    extOK rowNifti1Image ([102] ++ [46, 78, 105, 73] ++ [46, 103, 90]) = true := by decide
example : (runHist exEnv [] [.opener false [110, 46, 116, 120, 116],
      .save rowNifti2Image.name ([102] ++ [46, 78, 105, 73] ++ [46, 103, 90]),
      .load ([102] ++ [46, 78, 105, 73] ++ [46, 103, 90])]).2 =
    [.codec 0, .saved rowNifti2Image.name [([102] ++ [46, 78, 105, 73] ++ [46, 103, 90], 1)],
     .loaded (.cls rowNifti2Image.name)] := by decide

/-! ## no process-wide state -/

/-- **hist_independent_of_opener_calls** — deleting every plain `Opener` / `ImageOpener` use from a history (of
    saves, loads, renames and opener uses, in any order, from any file system) changes neither the final file
    system nor the observation of any remaining step.  In the model this holds because a history threads the
    FILE SYSTEM only — the statement is the model-level form of "the code keeps no class- or module-level state
    between calls"; its content is carried by the `hist` correspondence stream, which runs every history in a
    fresh interpreter and compares each step with this stateless model. -/
theorem hist_independent_of_opener_calls (env : Env) (fs : PFS) (h : List Op) :
    (runHist env fs (h.filter (fun o => !o.isOpener))).1 = (runHist env fs h).1 ∧
    (runHist env fs (h.filter (fun o => !o.isOpener))).2 =
      ((h.zip (runHist env fs h).2).filter (fun p => !p.1.isOpener)).map (·.2) :=
  hist_drop_openers env fs h

example : ([Op.opener false [110], .save [77] [102], .opener true [118]].filter (fun o => !o.isOpener)) = [.save [77] [102]] := by decide

/-- **save_obs_independent_of_history** — what a save reports (writing class, files, codecs) after ANY history from
    ANY file system equals what it reports as the first call of a fresh process; likewise for an opener use.
    (Glue over the model's definition of `step`: saves and opener uses do not read the state.) -/
theorem save_obs_independent_of_history (env : Env) (fs : PFS) (h : List Op) (c n : Str) (b : Bool) :
    (runHist env fs (h ++ [.save c n])).2.getLast? = some (step env [] (.save c n)).2 ∧
    (runHist env fs (h ++ [.opener b n])).2.getLast? = some (step env [] (.opener b n)).2 := by
  constructor
  · rw [runHist_append, save_obs_any_state env [] (runHist env fs h).1]
    simp [runHist]
  · rw [runHist_append]
    simp [runHist, step]

/-- a file written by one spelling and renamed to another case mix of the same extension is still read in the
    codec it was written in: the codec is a function of the lower-cased extension only -/
theorem codec_case_insensitive (keys : List (Str × Nat)) (n1 n2 : Str)
    (h : lower (splitext n1).2 = lower (splitext n2).2) :
    openerCodec keys true n1 = openerCodec keys true n2 := by
  rw [openerCodec_icase, openerCodec_icase]
  exact codecOfExt_congr keys h

example : lower (splitext [102, 46, 77, 103, 90]).2 = lower (splitext [103, 46, 109, 71, 122]).2 := by decide

/-- The sibling rule is NOT invertible for a Mixed-case extension (why `sibling_name_same_files_partial` needs its
    case hypothesis): saving a pair as `f.HdR` writes `f.HdR` + `f.img`; generic load of the written `f.img` then
    looks for the header `f.hdr`, which does not exist on a case-sensitive file system. -/
theorem mixed_case_sibling_counterexample :
    typesFilenames [102, 46, 72, 100, 82] rowNifti1Pair.filesTypes rowNifti1Pair.suffixes
      = .ok [([105, 109, 97, 103, 101], [102, 46, 105, 109, 103]), ([104, 101, 97, 100, 101, 114], [102, 46, 72, 100, 82])] ∧
    typesFilenames [102, 46, 105, 109, 103] rowNifti1Pair.filesTypes rowNifti1Pair.suffixes
      = .ok [([105, 109, 97, 103, 101], [102, 46, 105, 109, 103]), ([104, 101, 97, 100, 101, 114], [102, 46, 104, 100, 114])] ∧
    ([102, 46, 104, 100, 114] : Str) ≠ [102, 46, 72, 100, 82] := by decide


/-! ## the serialiser as a write program: the holder kinds agree -/

/-- **holders_agree** — a write program (`write` / `seek_tell(…, write0=True)`) whose seeks never go backwards and
    that does not end in a dangling forward seek leaves the SAME logical bytes on a sequential compressed writer
    (gzip / bz2 / zstd: zero-filling forward seeks) as on a random-access object (`BytesIO`, plain file) — for every
    program, by induction with the invariant `out = buf ++ zeros (pos - |buf|)`. -/
theorem holders_agree (p : List WOp) (hm : mono 0 p = true) (hc : complete p = true) :
    seqRun p = some (raRun p) ∧ ∀ c, holderBytes c p = some (raRun p) := by
  have h := holders_agree_lemma p hm hc
  refine ⟨h, fun c => ?_⟩
  unfold holderBytes
  split
  · rfl
  · exact h

example : mono 0 [.write [1, 2], .seekTo 5, .write [7]] = true ∧ complete [.write [1, 2], .seekTo 5, .write [7]] = true ∧
    raRun [.write [1, 2], .seekTo 5, .write [7]] = [1, 2, 0, 0, 0, 7] := by decide

/-- why both hypotheses are needed: after a BACKWARD seek the random-access holders overwrite while the compressed
    writers raise; after a DANGLING forward seek the compressed writers have written the zeros, `BytesIO` / a plain
    file have not. -/
theorem backward_and_dangling_seek_counterexamples :
    (raRun [.write [1, 2, 3], .seekTo 1, .write [9]] = [1, 9, 3] ∧ seqRun [.write [1, 2, 3], .seekTo 1, .write [9]] = none) ∧
    (raRun [.write [1], .seekTo 3] = [1] ∧ seqRun [.write [1], .seekTo 3] = some [1, 0, 0]) := by decide

/-- **routes_equal_holder** — `routes_equal` with the serialiser a FUNCTION OF THE HOLDER KIND: for every
    serialisable class, accepted name and monotone complete write program `p`, `to_filename(name)` runs `p` on the
    object `ImageOpener` opens for the name (random access if the codec is "plain", sequential otherwise), stores the
    result under EXACTLY `name`, and what is stored decompresses to `to_bytes()` (= `p` on a fresh `BytesIO`). -/
theorem routes_equal_holder (cd : Codecs) (hcd : ∀ c b, cd.decomp c (cd.comp c b) = b) :
    ∀ r ∈ classTable, r.serial = true → r.fmKind ≤ 1 → ∀ nm e, (nm, some e) ∈ r.filesTypes →
    ∀ (stem e' z' : Str) (p : List WOp) (w : World), lower e' = lower e → SfxSpelling r.suffixes z' →
    mono 0 p = true → complete p = true →
    let name := stem ++ e' ++ z'
    let c := openerCodec openerKeys compressExtIcase name
    ∃ w' b, toFilenameP cd openerKeys compressExtIcase r p w name = .ok w' ∧
      toBytesP r p = .ok b ∧ (fsRead w'.fs name).map (cd.decomp c) = some b := by
  intro r hr hser hk nm e hm stem e' z' p w he hz hmo hco
  obtain ⟨nm0, e0, hft⟩ := table_serial_single r hr hser
  obtain ⟨m, h1, h2, _⟩ := named_file_is_written_generic r (table_wf r hr) hk (table_mgz_fresh r hr) hm stem e' z' he hz
  have hnm : nm = nm0 := by rw [hft] at hm; simp at hm; exact hm.1
  have hm' : m = [(nm0, stem ++ e' ++ z')] := by
    rw [h2, hft]; simp [memberExt, hnm]
  subst hm'
  clear h2
  generalize stem ++ e' ++ z' = name at h1 ⊢
  have hb := (holders_agree p hmo hco).2 (openerCodec openerKeys compressExtIcase name)
  refine ⟨{ w with fs := fsWrite w.fs name (cd.comp (openerCodec openerKeys compressExtIcase name) (raRun p)) },
    raRun p, by simp only [toFilenameP, h1, hb], ?_, ?_⟩
  · simp [toBytesP, filemapFromIobase, hft]
  · simp [fsRead, fsWrite, hcd]



/-! ## Stage T — functions of `nibabel/filename_parser.py` TRANSLATED from the working tree on every run
    (`Generated/C12Funcs.lean`, namespace `Nb.Gen.C12F`) against the model.  A Python `str` is a Lean `String`; the
    model's `Str` is its list of code points (`PyS.codes`).  `str.lower()/upper()` are the ASCII folds of
    `Basic/PyStrC12.lean` (equal to Python's on strings whose cased characters are ASCII — trusted, `pyop` stream). -/
section StageT
open Nb.Py Nb.Py.V Nb.PyS

/-- **gen_endswith_eq** — the translated `_endswith` is the model's `endsWith` (on code points), for all strings. -/
theorem gen_endswith_eq (w e : String) :
    Gen.C12F.py_endswith (.str w) (.str e) = .ok (.bool (endsWith (codes w) (codes e))) :=
  GenT.gen_endswith_eq w e

example : Gen.C12F.py_endswith (.str "f.NII") (.str ".NII") = .ok (.bool true) := by
  rw [gen_endswith_eq]; congr 2

/-- **gen_iendswith_eq** — the translated `_iendswith` (`whole.lower().endswith(end.lower())`) is the model's
    `iendsWith`, for all strings. -/
theorem gen_iendswith_eq (w e : String) :
    Gen.C12F.py_iendswith (.str w) (.str e) = .ok (.bool (iendsWith (codes w) (codes e))) :=
  GenT.gen_iendswith_eq w e

example : Gen.C12F.py_iendswith (.str "f.Nii") (.str ".nII") = .ok (.bool true) := by
  rw [gen_iendswith_eq]; congr 2

/-- **gen_slice_is_cutEnd** — the two Python slices `filename[:extpos]`, `filename[extpos:]` with
    `extpos = -len(ext)` (including `-0 = 0`) are the model's `cutEnd`. -/
theorem gen_slice_is_cutEnd (fn : String) (n : Nat) :
    (codes (PyS.sliceTo fn (-(n : Int))), codes (PyS.sliceFrom fn (-(n : Int)))) = cutEnd (codes fn) n :=
  GenT.cut_codes fn n

example : (codes (PyS.sliceTo "f.gz" (-(0 : Nat) : Int)), codes (PyS.sliceFrom "f.gz" (-(0 : Nat) : Int))) =
    ([], [102, 46, 103, 122]) := by decide

/-- **gen_splitext_addext_loop** — the suffix-search loop of the translated `splitext_addext`
    (`for ext in addexts: if endswith(filename, ext): …; break` with `endswith` a function-valued local chosen by
    `match_case`), started in ANY state with `_brk1 = False`, `filename = fn`, ends in a state whose `filename` /
    `addext` / break flag are: cut at the FIRST suffix the model's `endsFn` accepts (`List.find?`), or unchanged and
    not broken.  (Lemma of `gen_splitext_addext_eq`; was `…_partial` while the tail was missing.) -/
theorem gen_splitext_addext_loop (mc : Bool) (fn : String) (A : List String)
    (s : Gen.C12F.splitext_addext_Locals)
    (hb : s._brk1 = .bool false) (hf : s.filename = .str fn) (he : s.endswith = GenT.tag mc) :
    ∃ s', Gen.C12F.splitext_addext_loop1 (ofList (A.map V.str)) s = .ok (.next s') ∧
      match A.find? (fun e => endsFn mc (codes fn) (codes e)) with
      | Option.some e => s'.filename = .str (PyS.sliceTo fn (-(e.toList.length : Int))) ∧
          s'.addext = .str (PyS.sliceFrom fn (-(e.toList.length : Int))) ∧ s'._brk1 = .bool true
      | Option.none => s'.filename = .str fn ∧ s'._brk1 = .bool false :=
  GenT.sae_loop mc fn A s hb hf he

example : ∃ s : Gen.C12F.splitext_addext_Locals, s._brk1 = .bool false ∧ s.filename = .str "f.nii.GZ" ∧
    s.endswith = GenT.tag false ∧ [".gz", ".bz2"].find? (fun e => endsFn false (codes "f.nii.GZ") (codes e)) = Option.some ".gz" :=
  ⟨⟨.str "f.nii.GZ", .nil, .bool false, .bool false, .none, .none, GenT.tag false, .none, .none, .none⟩, rfl, rfl, rfl,
    by decide⟩

/-- **gen_splitLast_is_rfind** — the model's `splitLast c` is Python's `s.rfind(c)` followed by the two slices. -/
theorem gen_splitLast_is_rfind (c : Nat) (l : List Nat) :
    splitLast c l = (rfindL c l).map (fun i => (l.take i, l.drop i)) :=
  GenT.splitLast_rfindL c l

example : splitLast 46 [102, 46, 97, 46, 98] = Option.some ([102, 46, 97], [46, 98]) := by decide

/-- **gen_strip_empty_is_all_dots** — `filename.strip(c) == ''` is the model's `all (· = c)` test. -/
theorem gen_strip_empty_is_all_dots (f : String) (c : Nat) : (PyS.strip f c == "") = (codes f).all (· = c) :=
  GenT.strip_empty f c

example : (PyS.strip "..." 46 == "") = true ∧ (PyS.strip ".a." 46 == "") = false := by decide

/-- **gen_splitext_addext_eq** — the WHOLE translated `splitext_addext` (suffix loop with break/else through the
    function-valued local, `rfind('.')`, `strip('.') == ''`, the four slices) equals the model's `splitextAddext`, for
    every file name, every `addexts` list and both `match_case` values: it returns a triple of strings whose code points
    are the model's triple.  (Case folding is the ASCII fold of `Basic/PyStrC12.lean`: equal to Python's for names whose
    cased characters are ASCII.) -/
theorem gen_splitext_addext_eq (fn : String) (A : List String) (mc : Bool) :
    ∃ a b c, Gen.C12F.splitext_addext (.str fn) (ofList (A.map V.str)) (.bool mc) =
        .ok (.tup3 (.str a) (.str b) (.str c)) ∧
      (codes a, codes b, codes c) = splitextAddext (codes fn) (A.map codes) mc :=
  GenT.gen_splitext_addext_eq fn A mc

example : splitextAddext (codes "d.x/f.Nii.GZ") ([".gz", ".bz2"].map codes) false =
    (codes "d.x/f", codes ".Nii", codes ".GZ") := by decide

/-- **gen_parse_filename_eq** — the WHOLE translated `parse_filename` equals the model's `parseFilename`, for every file
    name, every `types_exts` table (pairs `(name, ext | None)`, any order, empty / dot-less / duplicate extensions), every
    `trailing_suffixes` list and both `match_case` values: the returned 4-list `[root, ext, ignored | None, guessed | None]`
    has exactly the code points of the model's `Parsed` record — including the first-match `break`s of both loops, the
    `type_ext and …` guard, the `else:` branch of the second loop with the `os.path.splitext` primitive
    (`GenT.splitext_str`: its semantics in `Basic/PyStrC12.lean` equals the model's `splitext`). -/
theorem gen_parse_filename_eq (fn : String) (T : List (String × Option String)) (S : List String) (mc : Bool) :
    ∃ a b ig gn, Gen.C12F.parse_filename (.str fn) (ofList (T.map GenT.tvT)) (ofList (S.map V.str)) (.bool mc) =
        .ok (GenT.pfResult a b ig gn) ∧
      parseFilename (codes fn) (T.map GenT.codesT) (S.map codes) mc =
        ⟨codes a, codes b, ig.map codes, gn.map codes⟩ :=
  GenT.gen_parse_filename_eq fn T S mc

example : parseFilename (codes "d.x/f.HDR.gz") ([("image", Option.some ".img"), ("header", Option.some ".hdr")].map GenT.codesT)
    ([".gz", ".bz2"].map codes) false =
    ⟨codes "d.x/f", codes ".HDR", Option.some (codes ".gz"), Option.some (codes "header")⟩ := by decide

/-- **gen_osPathSplitext_eq** — the specified primitive `os.path.splitext` of the translated fragment is the model's
    `splitext` (posixpath rule: last dot after the last `/`, not a leading dot of the basename). -/
theorem gen_osPathSplitext_eq (p : String) :
    (codes (PyS.splitext p).1, codes (PyS.splitext p).2) = splitext (codes p) :=
  GenT.splitext_str p

example : splitext (codes "a.b/.hidden") = (codes "a.b/.hidden", []) ∧ splitext (codes "a/f.x.gz") = (codes "a/f.x", codes ".gz") := by
  decide

/-- **gen_types_filenames_loop_partial** — the final loop of the translated `types_filenames`
    (`for name, ext in types_exts:` with `continue`, the three `fname +=`, `proc_ext(ext)` called through the
    function-valued local, `tfns[name] = …`), started in ANY state whose inputs are
    `template_fname = tmpl`, `filename = root`, `found_ext = ext`, `ignored = ig | None`, `guessed_name = gn | None`,
    `direct_set_name = direct | None`, `proc_ext` = the function value lines 148-156 choose for `ext`, `tfns = dict es`:
    it ends with `tfns` = the dict obtained by assigning, in order, to every type name the string `memberS …`, and that
    string has exactly the code points of the model's `memberName` (repaired rule: the named member keeps `found_ext`)
    on the corresponding `Parsed` record.
    PARTIAL — missing for `gen_types_filenames_eq`: (1) the prefix: `removesuffix('.')` = `removeSuffixDot`, the call of
    `parse_filename` (available: `gen_parse_filename_eq`) with the four `_up[i]` reads, the two `TypesFilenamesError`
    branches, `direct_set_name = types_exts[0][0]` (the real code raises IndexError for an EMPTY table with
    `enforce_extensions=False` where the model returns `ok []`: the equality needs `T ≠ []`), the choice of `proc_ext`
    (= `GenT.procTag`); (2) fold of dict assignments = the model's `List.map` under pairwise distinct type names. -/
theorem gen_types_filenames_loop_partial (T : List (String × Option String)) (s : Gen.C12F.types_filenames_Locals)
    (tmpl root ext : String) (ig gn direct : Option String) (es : V)
    (h1 : s.template_fname = .str tmpl) (h2 : s.filename = .str root) (h3 : s.found_ext = .str ext)
    (h4 : s.ignored = GenT.optV ig) (h5 : s.guessed_name = GenT.optV gn) (h6 : s.direct_set_name = GenT.optV direct)
    (h7 : s.proc_ext = GenT.procTag ext) (h8 : s.tfns = .dict es) :
    (∃ s', Gen.C12F.types_filenames_loop1 (ofList (T.map GenT.tvT)) s = .ok (.next s') ∧
      s'.tfns = .dict (T.foldl (fun es t => dictSet es (.str t.1) (.str (GenT.memberS tmpl root ext ig gn direct t))) es)) ∧
    ∀ t, codes (GenT.memberS tmpl root ext ig gn direct t) =
      (memberName true (codes tmpl) ⟨codes root, codes ext, ig.map codes, gn.map codes⟩ (direct.map codes)
        (GenT.codesT t)).2 :=
  ⟨GenT.tf_loop T s tmpl root ext ig gn direct es h1 h2 h3 h4 h5 h6 h7 h8,
   fun t => GenT.memberS_codes tmpl root ext ig gn direct t⟩

example : GenT.memberS "f.HDR.gz" "f" ".HDR" (Option.some ".gz") (Option.some "header") Option.none ("image", Option.some ".img")
    = "f.IMG.gz" := by decide

end StageT

end Nb.C12
