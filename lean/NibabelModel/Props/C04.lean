import NibabelModel.Model.C04
import NibabelModel.Generated.C04
import NibabelModel.Lemmas.C04
import NibabelModel.Lemmas.C04_Err
import NibabelModel.Lemmas.C04_Sk
/-! Props/C04 — the voxel-to-world affine survives save/load to the format's precision.

  Exact-arithmetic theorems about the model of Model/C04.lean.  The algebra holds over every
  commutative ring / field (`Lean.Grind.CommRing` / `Lean.Grind.Field`; `Rat` is an instance); the
  flows are over `Rat` with NumPy's numeric routines as parameters (`Ext`) constrained only by the
  contracts named in the hypotheses.  IEEE rounding is NOT modelled bit for bit.  Two kinds of theorem:
  * EXACT-ARITHMETIC theorems (`qform_roundtrip`, `mgh_roundtrip`, `mgh_image_roundtrip`, `spm_*`): `rnd = id`,
    exact `sqrt`; they say the ALGEBRA of writer and reader is mutually inverse, nothing about float32 fields.
  * FORWARD-ERROR theorems (`mgh_forward_error`, `qform_forward_error`): an ABSTRACT rounding with relative error
    `u` (`L.RelRnd u rnd`: `|rnd x − x| ≤ u·|x|`; float32 round-to-nearest has `u = 2⁻²⁴`), explicit bounds.
  The float behaviour of NumPy itself (dot products, sqrt, SVD, eigh) is checked by the oracle of
  harness/props/c04.py against the same bounds (see DESIGN §5 C04).
  DEFINITIONAL theorems (they unfold a definition / an `if`; kept as the named interface the flow theorems
  use, marked "[definitional]"): `best_affine_priority`, `sform_roundtrip`, `fallback_affine`, the first four
  conjuncts of `check_fix_codes`.  The property-level content is in `nifti_roundtrip_*`, `sform_code_survives_load`,
  `qform_*`, `mgh_*`, `spm_*`, `analyze_roundtrip_zooms`. -/
namespace Nb.C04
open Lean.Grind

/-! ### sform / qform / fallback priority, sform storage -/

/-- [definitional: unfolds the `if`s of `NHdr.bestAffine`; the model is tied to `get_best_affine` by the
    correspondence run]  sform code ≠ 0 ⇒ sform; else qform code ≠ 0 ⇒ qform; else the shape/zoom fallback. -/
theorem best_affine_priority (E : Ext) (f : NFmt) (h : NHdr) :
    (h.sformCode ≠ 0 → h.bestAffine E f = .ok h.getSform) ∧
    (h.sformCode = 0 → h.qformCode ≠ 0 → h.bestAffine E f = h.getQform E f) ∧
    (h.sformCode = 0 → h.qformCode = 0 → h.bestAffine E f = .ok (shapeZoomAffine h.shape h.pixdim true)) := by
  refine ⟨?_, ?_, ?_⟩
  · intro h1; simp only [NHdr.bestAffine, h1, ne_eq, not_false_eq_true, if_true]
  · intro h1 h2; simp only [NHdr.bestAffine, h1, h2, ne_eq, not_true_eq_false, not_false_eq_true, if_true, if_false]
  · intro h1 h2; simp only [NHdr.bestAffine, NHdr.baseAffine, h1, h2, ne_eq, not_true_eq_false, if_false]

example : (({ defaultNHdr [2, 3, 4] with sformCode := 2, qformCode := 1 } : NHdr).sformCode ≠ 0) := by decide

/-- [definitional: `getSform := srow`, `setSform` stores `a.map rnd`; proved by `rfl`]  what `set_sform` stores
    is what `get_sform` returns: the affine rounded to the storage precision
    (the identity for NIfTI-2: see `nifti_roundtrip_exact_of_representable`), with the code; the qform fields are
    untouched. -/
theorem sform_roundtrip (E : Ext) (h : NHdr) (a : Aff Rat) (code : Nat) :
    (h.setSform E (some a) code).getSform = a.map E.rnd ∧
    (h.setSform E (some a) code).sformCode = code ∧
    (code ≠ 0 → (h.setSform E (some a) code).sformCoded = (some (a.map E.rnd), code)) ∧
    (h.setSform E (some a) code).qformCode = h.qformCode ∧
    (h.setSform E (some a) code).quat = h.quat ∧ (h.setSform E (some a) code).pixdim = h.pixdim := by
  refine ⟨rfl, rfl, ?_, rfl, rfl, rfl⟩
  intro hc
  simp only [NHdr.sformCoded, NHdr.setSform, NHdr.getSform, hc, if_false]

/-! ### quaternions -/

section
variable {α : Type} [Lean.Grind.Field α]

/-- `quat2mat q` is orthogonal for every quaternion of non-zero norm ("the algorithm here allows
    non-unit quaternions") -/
theorem quat2mat_orthogonal (q : Quat α) (h : q.norm2 ≠ 0) :
    (quat2mat q).mul (quat2mat q).transpose = M33.one ∧
    (quat2mat q).transpose.mul (quat2mat q) = M33.one :=
  ⟨L.quat2mat_orthogonal q h, L.quat2mat_orthogonal' q h⟩

/-- … and proper: determinant 1 -/
theorem quat2mat_det (q : Quat α) (h : q.norm2 ≠ 0) : (quat2mat q).det = 1 := L.quat2mat_det q h

/-- DESIGN `quat2mat_rotation`: `w² + x² + y² + z² = 1` ⇒ orthogonal with determinant 1
    (a field in which `1 ≠ 0`, e.g. `Rat`) -/
theorem quat2mat_rotation (q : Quat α) (h : q.w * q.w + q.x * q.x + q.y * q.y + q.z * q.z = 1)
    (h10 : (1 : α) ≠ 0) :
    (quat2mat q).mul (quat2mat q).transpose = M33.one ∧ (quat2mat q).det = 1 := by
  have hn : q.norm2 ≠ 0 := by simp only [Quat.norm2, h]; exact h10
  exact ⟨L.quat2mat_orthogonal q hn, L.quat2mat_det q hn⟩

example : (⟨1 / 2, 1 / 2, 1 / 2, 1 / 2⟩ : Quat Rat).norm2 = 1 := by decide +kernel
example : (⟨0, 2 / 11, 6 / 11, 9 / 11⟩ : Quat Rat).norm2 = 1 := by decide +kernel

/-- `q` and `-q` are the same rotation (why `mat2quat` may normalise the sign of `w`) -/
theorem quat2mat_neg (q : Quat α) : quat2mat q.neg = quat2mat q := L.quat2mat_neg q

variable [Lean.Grind.IsCharP α 0]

/-- DESIGN `mat2quat_K_identity`: `K(quat2mat q) = (4·q qᵀ − 1)/3` (index order x, y, z, w) -/
theorem mat2quat_K_identity (q : Quat α) (h : q.norm2 = 1) :
    kMatrix (quat2mat q) =
      ⟨(4 * q.x * q.x - 1) / 3,
       4 * q.y * q.x / 3, (4 * q.y * q.y - 1) / 3,
       4 * q.z * q.x / 3, 4 * q.z * q.y / 3, (4 * q.z * q.z - 1) / 3,
       4 * q.w * q.x / 3, 4 * q.w * q.y / 3, 4 * q.w * q.z / 3, (4 * q.w * q.w - 1) / 3⟩ :=
  L.K_identity q h

/-- hence `K q = q` (eigenvalue 1) — no assumption on `w`: rotations by 180° (`w = 0`) included -/
theorem mat2quat_K_eigen (q : Quat α) (h : q.norm2 = 1) :
    (kMatrix (quat2mat q)).mulVec q.toV4 = q.toV4 := L.K_eigen q h

/-- and `K v = −v/3` on the orthogonal complement of `q`: 1 is the largest eigenvalue and simple -/
theorem mat2quat_K_orthogonal_complement (q : Quat α) (h : q.norm2 = 1) (v : V4 α)
    (hv : q.x * v.v0 + q.y * v.v1 + q.z * v.v2 + q.w * v.v3 = 0) :
    (kMatrix (quat2mat q)).mulVec v = ⟨-v.v0 / 3, -v.v1 / 3, -v.v2 / 3, -v.v3 / 3⟩ :=
  L.K_orthogonal_complement q h v hv

/-- every unit eigenvector for the eigenvalue 1 is `c·q` with `c² = 1`, i.e. `±q` -/
theorem mat2quat_top_eigenvector_unique (q : Quat α) (h : q.norm2 = 1) (v : V4 α)
    (hv : (kMatrix (quat2mat q)).mulVec v = v)
    (hu : v.v0 * v.v0 + v.v1 * v.v1 + v.v2 * v.v2 + v.v3 * v.v3 = 1) :
    ∃ c : α, c * c = 1 ∧ v = ⟨c * q.x, c * q.y, c * q.z, c * q.w⟩ :=
  ⟨_, L.K_top_eigenvector_factor q h v hv hu, L.K_top_eigenvector q h v hv⟩

end

example : (kMatrix (quat2mat (⟨0, 1, 0, 0⟩ : Quat Rat))).mulVec ⟨1, 0, 0, 0⟩ = ⟨1, 0, 0, 0⟩ := by decide +kernel

/-- `mat2quat` inverts `quat2mat` up to the sign of the quaternion, for EVERY unit quaternion —
    including `w = 0` — whatever unit eigenvector for the eigenvalue 1 `eigh` returns. -/
theorem mat2quat_quat2mat (topEig : K4 Rat → V4 Rat) (q : Quat Rat) (h : q.norm2 = 1)
    (he : L.EigContract topEig q) :
    quat2mat (mat2quat topEig (quat2mat q)) = quat2mat q ∧
    (mat2quat topEig (quat2mat q)).norm2 = 1 ∧ 0 ≤ (mat2quat topEig (quat2mat q)).w :=
  let s := L.mat2quat_spec topEig q h he
  ⟨s.1, s.2.1, s.2.2.1⟩

example : L.EigContract topEigQ (⟨0, 1, 0, 0⟩ : Quat Rat) := by
  unfold L.EigContract; decide +kernel

/-! ### qform -/

/-- DESIGN `qform_decode`: whenever `get_qform` succeeds on a header whose stored quaternion is not
    (numerically) zero, the result is `R·diag(z₁, z₂, qfac·z₃) | offsets` with `R` a proper rotation;
    the handedness is carried by `qfac` alone: `det = qfac·z₁·z₂·z₃` for every (anisotropic) zoom. -/
theorem qform_decode (E : Ext) (f : NFmt) (h : NHdr) (q : Quat Rat)
    (hfill : fillpositive E.sqrt f.quatThr h.quat = .ok q) (hn : ¬ q.norm2 < f.floatEps)
    (heps : 0 < f.floatEps)
    (hpix : 0 ≤ h.pixdim.x ∧ 0 ≤ h.pixdim.y ∧ 0 ≤ h.pixdim.z) (hq : h.qfac = 1 ∨ h.qfac = -1) :
    h.getQform E f = .ok ⟨(quat2mat q).scaleCols ⟨h.pixdim.x, h.pixdim.y, h.pixdim.z * h.qfac⟩, h.qoff⟩ ∧
    (quat2mat q).mul (quat2mat q).transpose = M33.one ∧ (quat2mat q).det = 1 ∧
    ((quat2mat q).scaleCols ⟨h.pixdim.x, h.pixdim.y, h.pixdim.z * h.qfac⟩).det
      = h.qfac * h.pixdim.x * h.pixdim.y * h.pixdim.z := by
  have hn0 : q.norm2 ≠ 0 := by grind
  have hp : ¬ (h.pixdim.x < 0 ∨ h.pixdim.y < 0 ∨ h.pixdim.z < 0) := by grind
  have hqf : ¬ (h.qfac ≠ 1 ∧ h.qfac ≠ -1) := by grind
  refine ⟨?_, L.quat2mat_orthogonal q hn0, L.quat2mat_det q hn0, ?_⟩
  · simp only [NHdr.getQform, hfill, quat2matG, hn, if_false, hp, hqf]
  · have hd := L.quat2mat_det q hn0
    generalize quat2mat q = R at hd
    simp only [M33.det, M33.scaleCols] at hd ⊢
    grind

example : fillpositive sqrtQ Gen.n1QuatThr ⟨1, 0, 0⟩ = .ok ⟨0, 1, 0, 0⟩ ∧
    fillpositive sqrtQ Gen.n1QuatThr ⟨1 / 2, 1 / 2, 1 / 2⟩ = .ok ⟨1 / 2, 1 / 2, 1 / 2, 1 / 2⟩ := by decide +kernel

/-- [EXACT ARITHMETIC — `rnd = id`, exact `sqrt`: says nothing about float32 / float64 fields; for those see
    `qform_forward_error`]  Rotation + zoom (+ reflection) written to the qform reads back EXACTLY in exact arithmetic
    (`rnd = id`, exact `sqrt`, polar factor of an orthogonal matrix is itself, `eigh` returns a unit
    top eigenvector), for every unit quaternion with `w = 0` (rotation by exactly 180°) or `w²` not
    below the format's threshold, every positive zoom triple, with (`s = −1`) or without (`s = 1`)
    reflection, every translation and code.  Between `0 < w² < |thr|` the reader deliberately
    returns the neighbouring 180° rotation: that region is covered by the oracle's precision bound. -/
theorem qform_roundtrip (E : Ext) (hE : L.ExactExt E) (f : NFmt) (hf : f.floatEps ≤ 1)
    (q : Quat Rat) (hq : q.norm2 = 1) (he : L.EigContract E.topEig q)
    (hthr : q.w = 0 ∨ absR f.quatThr ≤ q.w * q.w)
    (z : V3 Rat) (hx : 0 < z.x) (hy : 0 < z.y) (hz : 0 < z.z) (s : Rat) (hs : s = 1 ∨ s = -1)
    (t : V3 Rat) (h : NHdr) (code : Nat) :
    (h.setQform E (some ⟨(quat2mat q).scaleCols ⟨z.x, z.y, s * z.z⟩, t⟩) code).getQform E f
      = .ok ⟨(quat2mat q).scaleCols ⟨z.x, z.y, s * z.z⟩, t⟩ ∧
    (h.setQform E (some ⟨(quat2mat q).scaleCols ⟨z.x, z.y, s * z.z⟩, t⟩) code).qfac = s :=
  ⟨L.qform_roundtrip E hE f hf q hq he hthr z hx hy hz s hs t h code, L.qform_qfac E hE q hq he z hx hy hz s hs t h code⟩

/-- the contracts `ExactExt` + `EigContract` are satisfiable (non-vacuity of `qform_roundtrip`): take
    the non-negative rational square root where it exists -/
example : ∃ E : Ext, L.ExactExt E ∧ L.EigContract E.topEig (⟨0, 1, 0, 0⟩ : Quat Rat) ∧
    L.EigContract E.topEig (⟨1 / 2, 1 / 2, 1 / 2, 1 / 2⟩ : Quat Rat) := by
  classical
  refine ⟨{ rnd := id, polar := id, topEig := topEigQ, allclose := fun _ _ => false,
            sqrt := fun y => if h : ∃ x : Rat, 0 ≤ x ∧ x * x = y then Classical.choose h else 0 },
          ⟨fun _ => rfl, ?_, fun _ _ => rfl⟩, ?_, ?_⟩
  · intro x hx
    have hex : ∃ x' : Rat, 0 ≤ x' ∧ x' * x' = x * x := ⟨x, hx, rfl⟩
    simp only [hex, dite_true]
    have hc := Classical.choose_spec hex
    generalize Classical.choose hex = y at hc
    obtain ⟨h1, h2⟩ := hc
    have h3 : (y - x) * (y + x) = 0 := by grind
    rcases Rat.mul_eq_zero.mp h3 with h | h <;> grind
  · unfold L.EigContract; decide +kernel
  · unfold L.EigContract; decide +kernel

/-- the exact instance of the external routines used by the driver on the exact stream -/
def exactExt : Ext :=
  { rnd := id, sqrt := sqrtQ, polar := id, topEig := topEigQ, allclose := allcloseQ Gen.rtol Gen.atol }

/-- non-vacuity of `qform_roundtrip`'s hypotheses is witnessed by running the statement on a 180°
    rotation (`w = 0`) with anisotropic zooms and a reflection -/
example :
    ((defaultNHdr [2, 3, 4]).setQform exactExt
        (some ⟨(quat2mat (⟨0, 1, 0, 0⟩ : Quat Rat)).scaleCols ⟨2, 3, (-1) * 5⟩, ⟨7, 8, 9⟩⟩) 1).getQform exactExt
        ⟨Gen.n2QuatThr, Gen.floatEps, Gen.xformCodes⟩
      = .ok ⟨(quat2mat (⟨0, 1, 0, 0⟩ : Quat Rat)).scaleCols ⟨2, 3, (-1) * 5⟩, ⟨7, 8, 9⟩⟩ := by
  decide +kernel

/-- The pinned `set_qform` stored the eigenvector as `eigh` returned it.  With a vector a little
    longer than 1 (here `(0, 1+2⁻⁵⁰, 0, 0)` for the 180° rotation about x) the NIfTI-2 reader refuses
    the header it has just written; the repaired `set_qform` (renormalisation) does not. -/
theorem qform_orig_counterexample :
    let E : Ext := { exactExt with topEig := fun _ => ⟨1 + 1 / 1125899906842624, 0, 0, 0⟩,
                                   sqrt := fun x => if x = (1 + 1 / 1125899906842624) * (1 + 1 / 1125899906842624)
                                                    then 1 + 1 / 1125899906842624 else sqrtQ x }
    let f : NFmt := ⟨Gen.n2QuatThr, Gen.floatEps, Gen.xformCodes⟩
    let a : Aff Rat := ⟨⟨1, 0, 0, 0, -1, 0, 0, 0, -1⟩, ⟨0, 0, 0⟩⟩
    ((defaultNHdr [2, 3, 4]).setQformOrig E a 1).getQform E f = .error .value ∧
    ((defaultNHdr [2, 3, 4]).setQform E (some a) 1).getQform E f = .ok a := by
  decide +kernel

/-- FORWARD ERROR, qform ("reads back within the header's float precision"): the reader's result is
    `quat2mat(q')·diag(z')`.  If the quaternion it reconstructs (`q'`, of norm 1 — `fillpositive` recomputes `w`
    from the stored `b, c, d`) is within `d` of the ideal unit quaternion `q` componentwise, and the stored zooms
    `z'` are within relative `u` of the ideal zooms `z`, then every entry of the decoded matrix is within
    `(4d(2+d)(1+u) + u)·|zⱼ|` of the ideal `quat2mat(q)·diag(z)` (column `j`); offsets are stored directly
    (`|rnd t − t| ≤ u|t|` is `RelRnd` itself).  For `b, c, d` the distance `d` is one storage rounding (`u`) plus
    `eigh`'s error; for `w = sqrt(1 − b² − c² − d²)` it is amplified by `1/(2w)` near 180° — the band the
    oracle bounds numerically (QTOL), and exactly `0` at `w = 0` by `qform_roundtrip`. -/
theorem qform_forward_error (q q' : Quat Rat) (hq : q.norm2 = 1) (hq' : q'.norm2 = 1) (d u : Rat) (hu : 0 ≤ u)
    (hw : absR (q'.w - q.w) ≤ d) (hx : absR (q'.x - q.x) ≤ d) (hy : absR (q'.y - q.y) ≤ d)
    (hz : absR (q'.z - q.z) ≤ d)
    (z z' : V3 Rat) (hzx : absR (z'.x - z.x) ≤ u * absR z.x) (hzy : absR (z'.y - z.y) ≤ u * absR z.y)
    (hzz : absR (z'.z - z.z) ≤ u * absR z.z) :
    let A := (quat2mat q).scaleCols z
    let A' := (quat2mat q').scaleCols z'
    let b := 4 * d * (2 + d) * (1 + u) + u
    absR (A'.a00 - A.a00) ≤ b * absR z.x ∧ absR (A'.a01 - A.a01) ≤ b * absR z.y ∧ absR (A'.a02 - A.a02) ≤ b * absR z.z ∧
    absR (A'.a10 - A.a10) ≤ b * absR z.x ∧ absR (A'.a11 - A.a11) ≤ b * absR z.y ∧ absR (A'.a12 - A.a12) ≤ b * absR z.z ∧
    absR (A'.a20 - A.a20) ≤ b * absR z.x ∧ absR (A'.a21 - A.a21) ≤ b * absR z.y ∧ absR (A'.a22 - A.a22) ≤ b * absR z.z :=
  L.qform_forward_error q q' hq hq' d u hu hw hx hy hz z z' hzx hzy hzz

/-- non-vacuity: two different unit quaternions (a 180° turn about x, and the turn about (3,4,0)/5 ) at
    componentwise distance ≤ 4/5, zooms 2⁻²⁴ apart -/
example : (⟨0, 1, 0, 0⟩ : Quat Rat).norm2 = 1 ∧ (⟨0, 3 / 5, 4 / 5, 0⟩ : Quat Rat).norm2 = 1 ∧
    absR ((3 / 5 : Rat) - 1) ≤ 4 / 5 ∧ absR ((2 + 2 / 16777216 : Rat) - 2) ≤ 1 / 16777216 * absR 2 := by
  decide +kernel

/-! ### MGH -/

/-- [EXACT ARITHMETIC — `rnd = id`; the float32 version with explicit bounds is `mgh_forward_error`]
    DESIGN `mgh_roundtrip`: for every affine, shape and voxel sizes `δ` with `δ ≠ 0` (nothing else
    about `δ` is used), `get_affine (affine2header A shape) = A` in exact arithmetic — over any field. -/
theorem mgh_roundtrip {α : Type} [Lean.Grind.Field α] (a : Aff α) (shape δ : V3 α)
    (hx : δ.x ≠ 0) (hy : δ.y ≠ 0) (hz : δ.z ≠ 0) :
    mghGetAffine id (mghAffine2Header id a shape δ) shape = a := L.mgh_roundtrip a shape δ hx hy hz

example : mghGetAffine id (mghAffine2Header id (⟨⟨0, 0, 2, 3, 0, 0, 0, -5, 0⟩, ⟨1, 2, 3⟩⟩ : Aff Rat) ⟨3, 4, 5⟩ ⟨3, 5, 2⟩)
    ⟨3, 4, 5⟩ = ⟨⟨0, 0, 2, 3, 0, 0, 0, -5, 0⟩, ⟨1, 2, 3⟩⟩ := by decide +kernel

/-- [EXACT ARITHMETIC — `rnd = id`]  image level: whenever the header is rewritten (affine not `allclose` to
    the header's), the reloaded MGH affine is the image affine, in exact arithmetic, provided no voxel size is 0 -/
theorem mgh_image_roundtrip (E : Ext) (hr : ∀ x, E.rnd x = x) (dims : V3 Rat) (a : Aff Rat) (hdr : Option MHdr)
    (hδ : (E.sqrt a.m.colNorm2.x ≠ 0) ∧ (E.sqrt a.m.colNorm2.y ≠ 0) ∧ (E.sqrt a.m.colNorm2.z ≠ 0))
    (hfar : ¬ E.allclose a ((match hdr with | none => defaultMHdr dims | some h => { h with dims := dims }).getAffine E)) :
    (mghRoundtrip E dims a hdr).1 = a := L.mgh_image_roundtrip E hr dims a hdr hδ hfar

example : (mghRoundtrip exactExt ⟨3, 4, 5⟩ ⟨⟨0, 0, 2, 4, 0, 0, 0, -8, 0⟩, ⟨1, 2, 3⟩⟩ none).1
    = ⟨⟨0, 0, 2, 4, 0, 0, 0, -8, 0⟩, ⟨1, 2, 3⟩⟩ :=
  mgh_image_roundtrip exactExt (fun _ => rfl) _ _ none (by decide +kernel) (by decide +kernel)

/-- FORWARD ERROR, MGH ("within single-precision relative error"): with ANY rounding of relative error `u` on
    every assignment into the float32 fields (`delta`, `Mdc`, `Pxyz_c`) and on the loader's float32 products, and
    ANY non-zero voxel sizes `δ` (the error of `sqrt` cancels between `Mdc = A/δ` and `Mdc·δ`), the reloaded
    matrix entries are within `((1+u)³ − 1)·|aᵢⱼ|` (≈ 3u, ENTRYWISE relative) and the reloaded translation within
    `mghTransBound u Bᵢ tᵢ = (1+u)·(u·(Bᵢ+|tᵢ|) + ((1+u)³−1)·Bᵢ) + u·|tᵢ|` (≈ 2u·|tᵢ| + 4u·Bᵢ) where
    `Bᵢ = Σⱼ |aᵢⱼ|·dimsⱼ / 2` is the size of the half-volume offset the format adds and subtracts.
    (The model's loader evaluates `MdcD · dims / 2` exactly; NumPy does it in float64: ~1e-16 relative, below
    the float32 terms — covered by the oracle's 4-ulp allowance.) -/
theorem mgh_forward_error (u : Rat) (hu : 0 ≤ u) (rnd : Rat → Rat) (hr : L.RelRnd u rnd) (a : Aff Rat)
    (shape δ : V3 Rat) (hx : δ.x ≠ 0) (hy : δ.y ≠ 0) (hz : δ.z ≠ 0)
    (hs : 0 ≤ shape.x ∧ 0 ≤ shape.y ∧ 0 ≤ shape.z) :
    let Lo := mghGetAffine rnd (mghAffine2Header rnd a shape δ) shape
    let g := (1 + u) * (1 + u) * (1 + u) - 1
    (absR (Lo.m.a00 - a.m.a00) ≤ g * absR a.m.a00 ∧ absR (Lo.m.a01 - a.m.a01) ≤ g * absR a.m.a01 ∧
     absR (Lo.m.a02 - a.m.a02) ≤ g * absR a.m.a02 ∧ absR (Lo.m.a10 - a.m.a10) ≤ g * absR a.m.a10 ∧
     absR (Lo.m.a11 - a.m.a11) ≤ g * absR a.m.a11 ∧ absR (Lo.m.a12 - a.m.a12) ≤ g * absR a.m.a12 ∧
     absR (Lo.m.a20 - a.m.a20) ≤ g * absR a.m.a20 ∧ absR (Lo.m.a21 - a.m.a21) ≤ g * absR a.m.a21 ∧
     absR (Lo.m.a22 - a.m.a22) ≤ g * absR a.m.a22) ∧
    absR (Lo.t.x - a.t.x) ≤ L.mghTransBound u (L.mghRowScale a.m.a00 a.m.a01 a.m.a02 shape) a.t.x ∧
    absR (Lo.t.y - a.t.y) ≤ L.mghTransBound u (L.mghRowScale a.m.a10 a.m.a11 a.m.a12 shape) a.t.y ∧
    absR (Lo.t.z - a.t.z) ≤ L.mghTransBound u (L.mghRowScale a.m.a20 a.m.a21 a.m.a22 shape) a.t.z :=
  L.mgh_forward_error u hu rnd hr a shape δ hx hy hz hs

/-- the contract `RelRnd u rnd` is satisfiable with `u = 2⁻²⁴ > 0` by a rounding that is not the identity
    (non-vacuity of the forward-error theorems) -/
example : L.RelRnd (1 / 16777216) (fun x => x * (1 + 1 / 16777216)) ∧ (fun x : Rat => x * (1 + 1 / 16777216)) 3 ≠ 3 := by
  refine ⟨?_, by decide +kernel⟩
  intro x
  have e : x * (1 + 1 / 16777216) - x = 1 / 16777216 * x := by ring
  rw [e, L.absR_eq_abs, L.absR_eq_abs, abs_mul, abs_of_nonneg (by norm_num : (0 : Rat) ≤ 1 / 16777216)]

/-! ### SPM `.mat` -/

/-- DESIGN `spm_mat_roundtrip` (1): the 1-based shift matrices are mutually inverse and the x flip is
    an involution — over any commutative ring -/
theorem spm_shift_inverse {α : Type} [Lean.Grind.CommRing α] (a : Aff α) :
    (a.mulShift from111).mulShift to111 = a ∧ (a.mulShift to111).mulShift from111 = a ∧ a.flipX.flipX = a :=
  L.spm_shift_inverse a

/-- DESIGN `spm_mat_roundtrip` (2): `read (write A) = A` through the `mat` variable and through the
    `M` variable (flip applied by writer and undone by reader), flipped convention or not — over
    any commutative ring -/
theorem spm_mat_roundtrip {α : Type} [Lean.Grind.CommRing α] (a hdrAff : Aff α) (xFlip : Bool) :
    spmReadMat xFlip .both (spmWriteMat xFlip a) hdrAff = a ∧
    spmReadMat xFlip .mOnly (spmWriteMat xFlip a) hdrAff = a := L.spm_mat_roundtrip a hdrAff xFlip

/-- the same with the writer's and the reader's `default_x_flip` independent (instance attribute set before
    saving, header subclass, other loading class): the 'mat' variable (alone, with 'M', or as a 4x4xN stack)
    never sees either flag; 'M' alone comes back unchanged when the flags agree and with the first ROW negated
    when they differ; an empty file leaves the header's affine -/
theorem spm_mat_roundtrip_flips {α : Type} [Lean.Grind.CommRing α] (a hdrAff : Aff α) (fw fr : Bool) :
    spmReadMat fr .both (spmWriteMat fw a) hdrAff = a ∧
    spmReadMat fr .matOnly (spmWriteMat fw a) hdrAff = a ∧
    spmReadMat fr .mat3d (spmWriteMat fw a) hdrAff = a ∧
    spmReadMat fr .mOnly (spmWriteMat fw a) hdrAff = (if fw = fr then a else a.flipX) ∧
    spmReadMat fr .none (spmWriteMat fw a) hdrAff = hdrAff := L.spm_mat_roundtrip_flips a hdrAff fw fr

example : spmReadMat true .mOnly (spmWriteMat false (⟨⟨0, 0, 2, 3, 0, 0, 0, -5, 0⟩, ⟨1, 2, 3⟩⟩ : Aff Rat))
    ⟨⟨1, 0, 0, 0, 1, 0, 0, 0, 1⟩, ⟨0, 0, 0⟩⟩ = ⟨⟨0, 0, -2, 3, 0, 0, 0, -5, 0⟩, ⟨-1, 2, 3⟩⟩ := by decide +kernel

/-- image level: an SPM image reloaded with its `.mat` file has exactly the affine it was saved
    with — for EVERY supplied header, every `allclose`, every rounding, EVERY `default_x_flip` configuration at
    construction / save / load (for a file holding 'M' only the saving and the loading flag must agree) (exact
    arithmetic in the `.mat` products; the float version is finding `spm-mat:translation-ulp`) -/
theorem spm_image_roundtrip (E : Ext) (fl : Flips) (shape : List Nat) (a : Aff Rat) (hdr : Option AHdr)
    (mode : MatMode) (hm : mode ≠ .none) (hf : mode = .mOnly → fl.save = fl.load) :
    (analyzeRoundtrip E .spm fl shape a hdr mode).affine = a :=
  L.spm_image_roundtrip E fl shape a hdr mode hm hf

example : (analyzeRoundtrip exactExt .spm ⟨true, false, true⟩ [3, 5, 7] ⟨⟨0, 0, 2, 4, 0, 0, 0, -8, 0⟩, ⟨1, 2, 3⟩⟩ none
    .both).affine = ⟨⟨0, 0, 2, 4, 0, 0, 0, -8, 0⟩, ⟨1, 2, 3⟩⟩ :=
  spm_image_roundtrip exactExt ⟨true, false, true⟩ _ _ none .both (by decide) (by decide)

/-- … and a file holding 'M' only, written under one convention and read under the other, comes back with
    the x row negated ('M' "does not include flips"): the one configuration where SPM + `.mat` does not
    return the saved affine -/
theorem spm_image_roundtrip_M_mismatch (E : Ext) (fl : Flips) (shape : List Nat) (a : Aff Rat) (hdr : Option AHdr)
    (hne : fl.save ≠ fl.load) :
    (analyzeRoundtrip E .spm fl shape a hdr .mOnly).affine = a.flipX :=
  L.spm_image_roundtrip_M_mismatch E fl shape a hdr hne

example : (⟨true, false, true⟩ : Flips).save ≠ (⟨true, false, true⟩ : Flips).load := by decide

/-- the literals of the `.mat` reader and writer, regenerated from the AST of `Spm99AnalyzeImage.from_file_map` /
    `to_file_map` on every run, are the model's: `to_111[:3, 3] = 1`, `from_111[:3, 3] = -1` (so the two shifts
    cancel: `spm_shift_inverse`), and both `np.diag` flips negate exactly the x row -/
theorem gen_spm_consts_ok :
    (⟨(Gen.spmFrom111 : Rat), (Gen.spmFrom111 : Rat), (Gen.spmFrom111 : Rat)⟩ : V3 Rat) = from111 ∧
    (⟨(Gen.spmTo111 : Rat), (Gen.spmTo111 : Rat), (Gen.spmTo111 : Rat)⟩ : V3 Rat) = to111 ∧
    Gen.spmFrom111 + Gen.spmTo111 = 0 ∧
    Gen.spmFlipRead = [-1, 1, 1, 1] ∧ Gen.spmFlipWrite = [-1, 1, 1, 1] := by
  decide +kernel

/-! ### a header of another class handed to the constructor -/

/-- `Klass(data, affine, other_image.header)`: a NIfTI-1 header converted for a NIfTI-2 image (cast `rnd = id`)
    keeps codes, sform rows, quaternion and offsets exactly — only zooms of axes the data lacks are reset —
    so its sform is still the affine the priority rule selects; the other direction rounds every field to
    float32; an Analyze / SPM / MGH header brings zooms only: both codes 0, the fallback affine -/
theorem foreign_header_conversion (rnd : Rat → Rat) (h : NHdr) (shape : List Nat) (z : V3 Rat) (E : Ext) (f : NFmt) :
    (h.convertN rnd).sformCode = h.sformCode ∧ (h.convertN rnd).qformCode = h.qformCode ∧
    (h.convertN rnd).getSform = h.srow.map rnd ∧
    ((∀ x, rnd x = x) → (h.convertN rnd).srow = h.srow ∧ (h.convertN rnd).quat = h.quat ∧
        (h.convertN rnd).qoff = h.qoff ∧ (h.convertN rnd).qfac = h.qfac ∧
        (h.sformCode ≠ 0 → (h.convertN rnd).bestAffine E f = h.bestAffine E f)) ∧
    (NHdr.ofZooms rnd shape z).bestAffine E f
      = .ok (shapeZoomAffine shape (clipZooms shape.length (z.map rnd)) true) := by
  refine ⟨rfl, rfl, rfl, ?_, ?_⟩
  · intro hid
    refine ⟨L.aff_map_id rnd hid _, L.v3_map_id rnd hid _, L.v3_map_id rnd hid _, hid _, ?_⟩
    intro hs
    have e : (h.convertN rnd).sformCode ≠ 0 := hs
    rw [(best_affine_priority E f _).1 e, (best_affine_priority E f _).1 hs]
    exact congrArg Except.ok (L.aff_map_id rnd hid _)
  · simp only [NHdr.bestAffine, NHdr.ofZooms, defaultNHdr, NHdr.baseAffine, ne_eq, not_true_eq_false, if_false]

example : (((defaultNHdr [2, 3, 4]).setSform exactExt (some ⟨⟨0, 0, 2, 4, 0, 0, 0, -8, 0⟩, ⟨1, 2, 3⟩⟩) 3).convertN roundF32).sformCoded
    = (some ⟨⟨0, 0, 2, 4, 0, 0, 0, -8, 0⟩, ⟨1, 2, 3⟩⟩, 3) := by decide +kernel

/-! ### fallback affine -/

/-- [definitional: the closed form of `shapeZoomAffine` on a list of ≥ 3 axes]  DESIGN `fallback_affine`: `shape_zoom_affine` on ≥ 3 axes is `diag(±z₁, z₂, z₃)` with translation
    `−zᵢ·(nᵢ−1)/2` (x negated when flipped) … -/
theorem fallback_affine (n1 n2 n3 : Nat) (rest : List Nat) (z : V3 Rat) (flip : Bool) :
    shapeZoomAffine (n1 :: n2 :: n3 :: rest) z flip =
      ⟨⟨(if flip then -z.x else z.x), 0, 0, 0, z.y, 0, 0, 0, z.z⟩,
       ⟨-(if flip then -z.x else z.x) * (((n1 : Rat) - 1) / 2), -z.y * (((n2 : Rat) - 1) / 2),
        -z.z * (((n3 : Rat) - 1) / 2)⟩⟩ := L.fallback_affine n1 n2 n3 rest z flip

/-- … i.e. the centre voxel `(n−1)/2` of the volume sits at the world origin, over any field -/
theorem fallback_affine_centre {α : Type} [Lean.Grind.Field α] (shape zooms : V3 α) (flip : Bool) :
    (shapeZoomAffine3 shape zooms flip).apply ⟨(shape.x - 1) / 2, (shape.y - 1) / 2, (shape.z - 1) / 2⟩
      = ⟨0, 0, 0⟩ := L.fallback_affine_centre shape zooms flip

example : shapeZoomAffine [3, 5, 7] ⟨3, 2, 1⟩ true = ⟨⟨-3, 0, 0, 0, 2, 0, 0, 0, 1⟩, ⟨3, -4, -3⟩⟩ := by
  decide +kernel

/-! ### whole save / load flows, NIfTI -/

/-- No header supplied: whatever the numeric routines and `allclose` do — and provided the loader's code
    check accepts code 2 ('aligned'; `gen_xform_codes_ok` re-checks this against the source) — the reloaded affine is the
    image affine rounded to the storage precision (exactly the affine for NIfTI-2 where `rnd = id`),
    carried by the sform with code 2 ('aligned'); the qform code is 0. -/
theorem nifti_roundtrip_no_header (E : Ext) (f : NFmt) (h2 : f.validCodes.contains 2 = true) (shape : List Nat)
    (a : Aff Rat) :
    niftiRoundtrip E f shape a none = .ok ⟨a.map E.rnd, (some (a.map E.rnd), 2), (none, 0)⟩ :=
  L.nifti_roundtrip_no_header E f h2 shape a

/-- A supplied header whose affine is NOT `allclose` to the image affine is overwritten: same
    result as without a header. -/
theorem nifti_roundtrip_header_not_close (E : Ext) (f : NFmt) (h2 : f.validCodes.contains 2 = true)
    (shape : List Nat) (a : Aff Rat) (h : NHdr)
    (b : Aff Rat) (hb : (({ h with shape := shape } : NHdr).checkFix f).bestAffine E f = .ok b)
    (hfar : E.allclose a b = false) :
    niftiRoundtrip E f shape a (some h) = .ok ⟨a.map E.rnd, (some (a.map E.rnd), 2), (none, 0)⟩ :=
  L.nifti_roundtrip_header_not_close E f h2 shape a h b hb hfar

example : niftiRoundtrip exactExt ⟨Gen.n1QuatThr, Gen.floatEps, Gen.xformCodes⟩ [2, 3, 4] ⟨⟨0, 0, 2, 4, 0, 0, 0, -8, 0⟩, ⟨1, 2, 3⟩⟩
      (some ((defaultNHdr [2, 3, 4]).setSform exactExt (some ⟨⟨0, 0, 4, 4, 0, 0, 0, -8, 0⟩, ⟨1, 2, 3⟩⟩) 1))
    = .ok ⟨⟨⟨0, 0, 2, 4, 0, 0, 0, -8, 0⟩, ⟨1, 2, 3⟩⟩, (some ⟨⟨0, 0, 2, 4, 0, 0, 0, -8, 0⟩, ⟨1, 2, 3⟩⟩, 2), (none, 0)⟩ :=
  nifti_roundtrip_header_not_close exactExt _ (by decide +kernel) _ _ _ ⟨⟨0, 0, 4, 4, 0, 0, 0, -8, 0⟩, ⟨1, 2, 3⟩⟩
    (by decide +kernel) (by decide +kernel)

/-- NIfTI-2 ("exactly for NIfTI-2"): whenever the storage rounding fixes every entry of the affine — EVERY float64
    affine under NIfTI-2's float64 fields (`rnd = id`), and the float32-representable affines under NIfTI-1 — the
    reloaded affine, and the sform read back with code 2, are exactly the affine given: without a header, and
    with any supplied header whose affine is not `allclose`. -/
theorem nifti_roundtrip_exact_of_representable (E : Ext) (f : NFmt) (h2 : f.validCodes.contains 2 = true)
    (shape : List Nat) (a : Aff Rat) (hrep : a.map E.rnd = a) :
    niftiRoundtrip E f shape a none = .ok ⟨a, (some a, 2), (none, 0)⟩ ∧
    (∀ (h : NHdr) (b : Aff Rat), (({ h with shape := shape } : NHdr).checkFix f).bestAffine E f = .ok b →
      E.allclose a b = false → niftiRoundtrip E f shape a (some h) = .ok ⟨a, (some a, 2), (none, 0)⟩) := by
  refine ⟨?_, ?_⟩
  · have := nifti_roundtrip_no_header E f h2 shape a; rwa [hrep] at this
  · intro h b hb hfar
    have := nifti_roundtrip_header_not_close E f h2 shape a h b hb hfar; rwa [hrep] at this

/-- … in particular for the NIfTI-2 instance of the rounding, `rnd = id`, for EVERY affine; and `set_sform` /
    `get_sform` alone is then the identity -/
theorem nifti2_roundtrip_identity (E : Ext) (hid : ∀ x, E.rnd x = x) (f : NFmt) (h2 : f.validCodes.contains 2 = true)
    (shape : List Nat) (a : Aff Rat) (h : NHdr) (code : Nat) :
    niftiRoundtrip E f shape a none = .ok ⟨a, (some a, 2), (none, 0)⟩ ∧
    (h.setSform E (some a) code).getSform = a :=
  ⟨(nifti_roundtrip_exact_of_representable E f h2 shape a (L.aff_map_id E.rnd hid a)).1,
   L.aff_map_id E.rnd hid a⟩

/-- an affine that float32 cannot hold (entries 1/3·2⁻ᵏ-like: 0.1 as a double) survives the NIfTI-2 model flow -/
example : niftiRoundtrip exactExt ⟨Gen.n2QuatThr, Gen.floatEps, Gen.xformCodes⟩ [2, 3, 4]
      ⟨⟨3602879701896397 / 36028797018963968, 0, 0, 0, 2, 0, 0, 0, 3⟩, ⟨1 / 3, 2, 3⟩⟩ none
    = .ok ⟨⟨⟨3602879701896397 / 36028797018963968, 0, 0, 0, 2, 0, 0, 0, 3⟩, ⟨1 / 3, 2, 3⟩⟩,
           (some ⟨⟨3602879701896397 / 36028797018963968, 0, 0, 0, 2, 0, 0, 0, 3⟩, ⟨1 / 3, 2, 3⟩⟩, 2), (none, 0)⟩ :=
  (nifti2_roundtrip_identity exactExt (fun _ => rfl) _ (by decide +kernel) _ _ (defaultNHdr [2, 3, 4]) 2).1

/-- KNOWN FINDING `update_header:allclose-keeps-header-affine`, as a theorem about the code's logic:
    a supplied header whose affine is `allclose` to the image affine is written unchanged, so the
    reloaded affine is the HEADER's affine `b`, not the image affine `a`. -/
theorem nifti_roundtrip_header_close_keeps_header (E : Ext) (f : NFmt) (shape : List Nat) (a : Aff Rat)
    (h : NHdr) (b : Aff Rat) (hb : (({ h with shape := shape } : NHdr).checkFix f).bestAffine E f = .ok b)
    (hclose : E.allclose a b = true) :
    niftiSavedHeader E f shape a (some h) = .ok (({ h with shape := shape } : NHdr).checkFix f) ∧
    (∀ o, niftiRoundtrip E f shape a (some h) = .ok o →
      o.affine = b ∧ o.sform.2 = (({ h with shape := shape } : NHdr).checkFix f).sformCode) :=
  L.nifti_roundtrip_header_close E f shape a h b hb hclose

/-- … and a concrete instance where that differs from the image affine (zoom 2.00001 against a header
    holding 2.0, NumPy's default `rtol`/`atol` regenerated from the source): reloaded 2.0. -/
theorem update_header_allclose_counterexample :
    let a : Aff Rat := ⟨⟨200001 / 100000, 0, 0, 0, 2, 0, 0, 0, 2⟩, ⟨0, 0, 0⟩⟩
    let b : Aff Rat := ⟨⟨2, 0, 0, 0, 2, 0, 0, 0, 2⟩, ⟨0, 0, 0⟩⟩
    let h := (defaultNHdr [2, 3, 4]).setSform exactExt (some b) 2
    (niftiRoundtrip exactExt ⟨Gen.n2QuatThr, Gen.floatEps, Gen.xformCodes⟩ [2, 3, 4] a (some h)).map NOut.affine = .ok b ∧ a ≠ b := by
  decide +kernel

/-! ### xform codes: the loader's validity check against the regenerated table -/

/-- [the first four conjuncts are definitional (they unfold the `if` of `checkFix`); idempotence is not]
    The loader (`check_fix` → `_chk_sform_code` / `_chk_qform_code`) keeps exactly the codes of the
    xform table and resets every other code to 0 … -/
theorem check_fix_codes (f : NFmt) (h : NHdr) :
    (f.validCodes.contains h.sformCode = true → (h.checkFix f).sformCode = h.sformCode) ∧
    (f.validCodes.contains h.sformCode = false → (h.checkFix f).sformCode = 0) ∧
    (f.validCodes.contains h.qformCode = true → (h.checkFix f).qformCode = h.qformCode) ∧
    (f.validCodes.contains h.qformCode = false → (h.checkFix f).qformCode = 0) ∧
    (h.checkFix f).srow = h.srow ∧ (h.checkFix f).quat = h.quat ∧ (h.checkFix f).pixdim = h.pixdim ∧
    (h.checkFix f).checkFix f = h.checkFix f := by
  refine ⟨?_, ?_, ?_, ?_, rfl, rfl, rfl, L.checkFix_idem f h⟩ <;> intro hc <;>
    simp only [NHdr.checkFix, hc, if_true, Bool.false_eq_true, if_false]

/-- … so an sform saved under ANY code of the table (1 … 5, 'template' included) is still the loaded
    affine, with that code, when the supplied header was kept: the priority rule sees the same code
    after the load-time check.  (The seeded change `0 <= code <= 4` breaks `5 ∈ validCodes`.) -/
theorem sform_code_survives_load (E : Ext) (f : NFmt) (shape : List Nat) (a : Aff Rat) (h : NHdr) (c : Nat)
    (hc : f.validCodes.contains c = true) (hc0 : c ≠ 0) (hs : h.sformCode = c)
    (hclose : E.allclose a h.srow = true) :
    ∀ o, niftiRoundtrip E f shape a (some h) = .ok o → o.affine = h.srow ∧ o.sform = (some h.srow, c) := by
  intro o ho
  have hcf : (({ h with shape := shape } : NHdr).checkFix f).sformCode = c := by
    simp only [NHdr.checkFix, hs, hc, if_true]
  have hb : (({ h with shape := shape } : NHdr).checkFix f).bestAffine E f = .ok h.srow := by
    simp only [NHdr.bestAffine, hcf, hc0, ne_eq, not_false_eq_true, if_true]; rfl
  have hk := (L.nifti_roundtrip_header_close E f shape a h h.srow hb hclose).1
  simp only [niftiRoundtrip, hk, bind, Except.bind, L.checkFix_idem, hb] at ho
  cases hq : (({ h with shape := shape } : NHdr).checkFix f).qformCoded E f with
  | error e => simp only [hq] at ho; cases ho
  | ok q =>
    simp only [hq, pure, Except.pure, Except.ok.injEq] at ho
    rw [← ho]
    refine ⟨rfl, ?_⟩
    simp only [NHdr.sformCoded, hcf, hc0, if_false]; rfl

example : (Gen.xformCodes.contains 5 = true) ∧ (5 : Nat) ≠ 0 := by decide

/-- the regenerated table is the NIfTI-1 standard's: exactly the codes 0 … 5, every one with its two
    names, no alias shared between codes (so a name resolves to one code) -/
theorem gen_xform_codes_ok :
    Gen.xformCodes = [0, 1, 2, 3, 4, 5] ∧
    (∀ e ∈ Gen.xformTable, e.2.length = 2) ∧
    ((Gen.xformTable.flatMap (·.2)).Nodup) ∧
    (Gen.xformTable.find? (fun e => e.2.contains "template")).map (·.1) = some 5 ∧
    (Gen.xformTable.find? (fun e => e.2.contains "aligned")).map (·.1) = some 2 := by
  decide +kernel

/-! ### Analyze: voxel sizes only -/

/-- plain Analyze — and SPM without a `.mat` file — keep the voxel sizes only: when the constructor rewrites
    the header (affine not `allclose` to the header's own affine under the `default_x_flip` in force at
    construction) the reloaded zooms are the rounded column norms of the affine, whatever the flag is when
    saving, and the reloaded affine is the loading header's fallback for those zooms (shape/zoom affine for
    Analyze, origin affine for SPM) under the LOADING flag -/
theorem analyze_roundtrip_zooms (E : Ext) (k : AKind) (fl : Flips) (n1 n2 n3 : Nat) (rest : List Nat) (a : Aff Rat)
    (hdr : Option AHdr) (mode : MatMode) (hk : k = .analyze ∨ mode = .none)
    (hfar : ¬ E.allclose a ((match hdr with
        | none => defaultAHdr (n1 :: n2 :: n3 :: rest)
        | some h => { h with shape := n1 :: n2 :: n3 :: rest }).bestAffine k fl.init)) :
    analyzeRoundtrip E k fl (n1 :: n2 :: n3 :: rest) a hdr mode
      = ⟨(⟨n1 :: n2 :: n3 :: rest, (a.m.colNorm2.map E.sqrt).map E.rnd,
            (match hdr with | none => ⟨0, 0, 0⟩ | some h => h.origin)⟩ : AHdr).bestAffine k fl.load,
         (a.m.colNorm2.map E.sqrt).map E.rnd⟩ :=
  L.analyze_roundtrip_zooms E k fl n1 n2 n3 rest a hdr mode hk hfar

example : analyzeRoundtrip exactExt .analyze Flips.dflt [3, 5, 7] ⟨⟨0, 0, 2, 4, 0, 0, 0, -8, 0⟩, ⟨1, 2, 3⟩⟩ none .both
    = ⟨shapeZoomAffine [3, 5, 7] ⟨4, 8, 2⟩ true, ⟨4, 8, 2⟩⟩ := by
  have h := analyze_roundtrip_zooms exactExt .analyze Flips.dflt 3 5 7 [] ⟨⟨0, 0, 2, 4, 0, 0, 0, -8, 0⟩, ⟨1, 2, 3⟩⟩ none .both
    (Or.inl rfl) (by decide +kernel)
  rw [h]; decide +kernel

example : analyzeRoundtrip exactExt .spm ⟨true, false, false⟩ [3, 5, 7] ⟨⟨0, 0, 2, 4, 0, 0, 0, -8, 0⟩, ⟨1, 2, 3⟩⟩
      (some ⟨[3, 5, 7], ⟨1, 1, 1⟩, ⟨2, 2, 2⟩⟩) .none
    = ⟨⟨⟨4, 0, 0, 0, 8, 0, 0, 0, 2⟩, ⟨-4, -8, -2⟩⟩, ⟨4, 8, 2⟩⟩ := by
  have h := analyze_roundtrip_zooms exactExt .spm ⟨true, false, false⟩ 3 5 7 [] ⟨⟨0, 0, 2, 4, 0, 0, 0, -8, 0⟩, ⟨1, 2, 3⟩⟩
    (some ⟨[3, 5, 7], ⟨1, 1, 1⟩, ⟨2, 2, 2⟩⟩) .none (Or.inr rfl) (by decide +kernel)
  rw [h]; decide +kernel

/-! ### decision skeletons regenerated from the AST of the working tree -/

/-- every regenerated skeleton consists of statements and conditions the models know, in exactly the arrangement
    the decision models are written for -/
theorem skeletons_agree :
    Gen.skBestAffine.toTk = some tkBestAffine ∧ Gen.skUpdateHeader.toTk = some tkUpdateHeader ∧
    Gen.skSpmWrite.toTk = some tkSpmWrite ∧ Gen.skSpmRead.toTk = some tkSpmRead := by decide +kernel

example : Gen.skBestAffine.toTk ≠ none ∧ atomOf "hdr['sform_code'] != 0" = some .sformCodeNe0 ∧
    atomOf "hdr['sform_code'] > 0" = none := by decide +kernel

/-- `Nifti1Header.get_best_affine` AS WRITTEN IN THE WORKING TREE (its regenerated skeleton, read through `atomTable`)
    computes `NHdr.bestAffine` for every header: sform if its code ≠ 0, else qform if its code ≠ 0, else the base
    affine.  (Seeded change C04_7 — an extra `np.isclose(det, 0)` test — leaves `toTk = none`: proof broken.) -/
theorem best_affine_skeleton (E : Ext) (f : NFmt) (h : NHdr) :
    Gen.skBestAffine.toTk.bind (evalBest E f h) = some (h.bestAffine E f) := by
  rw [skeletons_agree.1]
  simp only [Option.bind, tkBestAffine, evalBest, NHdr.bestAffine]
  by_cases h1 : h.sformCode = 0 <;> by_cases h2 : h.qformCode = 0 <;> simp [h1, h2]

def nhdrOps (E : Ext) (f : NFmt) (shape : List Nat) : HdrOps NHdr :=
  ⟨fun h => h.shape != shape, fun h => { h with shape := shape }, fun h => h.bestAffine E f,
   fun h a => h.affine2header E a⟩
def ahdrOps (E : Ext) (k : AKind) (xFlip : Bool) (shape : List Nat) : HdrOps AHdr :=
  ⟨fun h => h.shape != shape, fun h => { h with shape := shape }, fun h => .ok (h.bestAffine k xFlip),
   fun h a => h.affine2header E a⟩
def mhdrOps (E : Ext) (dims : V3 Rat) : HdrOps MHdr :=
  ⟨fun h => h.dims != dims, fun h => { h with dims := dims }, fun h => .ok (h.getAffine E),
   fun h a => { h with f := mghAffine2Header E.rnd a h.dims (a.m.colNorm2.map E.sqrt) }⟩

/-- `SpatialImage.update_header` as written in the working tree — shape fix-up, `self._affine is None` → nothing,
    `np.allclose(self._affine, hdr.get_best_affine())` → keep the header, else `_affine2header()` — is the model's
    `updateHeader` for the three header families (NIfTI, Analyze / SPM under any `default_x_flip`, MGH), on the header
    whose shape has been brought to the data shape (`norm`; the identity when it already is). -/
theorem update_header_skeleton (E : Ext) (f : NFmt) (k : AKind) (xFlip : Bool) (shape : List Nat) (dims : V3 Rat)
    (a : Aff Rat) :
    (∀ h : NHdr, Gen.skUpdateHeader.toTk.bind (fun t => evalUpdate (nhdrOps E f shape) E.allclose (some a) t h)
        = some (((nhdrOps E f shape).norm h).updateHeader E f a)) ∧
    (∀ h : AHdr, Gen.skUpdateHeader.toTk.bind (fun t => evalUpdate (ahdrOps E k xFlip shape) E.allclose (some a) t h)
        = some (.ok (((ahdrOps E k xFlip shape).norm h).updateHeader E k xFlip a))) ∧
    (∀ h : MHdr, Gen.skUpdateHeader.toTk.bind (fun t => evalUpdate (mhdrOps E dims) E.allclose (some a) t h)
        = some (.ok (((mhdrOps E dims).norm h).updateHeader E a))) ∧
    (∀ h : NHdr, Gen.skUpdateHeader.toTk.bind (fun t => evalUpdate (nhdrOps E f shape) E.allclose none t h)
        = some (.ok ((nhdrOps E f shape).norm h))) ∧
    (∀ h : NHdr, h.shape = shape → (nhdrOps E f shape).norm h = h) := by
  rw [skeletons_agree.2.1]
  refine ⟨?_, ?_, ?_, ?_, ?_⟩ <;> intro h
  · simp only [Option.bind, L.evalUpdate_tk]
    generalize (nhdrOps E f shape).norm h = h'
    simp only [nhdrOps, NHdr.updateHeader]
    cases hb : h'.bestAffine E f with
    | error e => rfl
    | ok b => by_cases hc : E.allclose a b = true <;> simp [hc]
  · simp only [Option.bind, L.evalUpdate_tk]
    generalize (ahdrOps E k xFlip shape).norm h = h'
    simp only [ahdrOps, AHdr.updateHeader]
    split <;> simp_all
  · simp only [Option.bind, L.evalUpdate_tk]
    generalize (mhdrOps E dims).norm h = h'
    simp only [mhdrOps, MHdr.updateHeader]
    split <;> simp_all
  · simp only [Option.bind, L.evalUpdate_tk]
  · intro hs
    simp [HdrOps.norm, nhdrOps, hs]

example : ((nhdrOps exactExt ⟨Gen.n1QuatThr, Gen.floatEps, Gen.xformCodes⟩ [2, 3, 4]).norm (defaultNHdr [2, 3])).shape = [2, 3, 4] := by
  decide +kernel

/-- `Spm99AnalyzeImage.to_file_map` as written in the working tree writes a `.mat` file WHENEVER the image has an
    affine (no other condition: seeded change C04_8 — skip the sidecar when the header "already says it" — breaks
    this), holding exactly the model's `(M, mat) = spmWriteMat`; called with or without a file map. -/
theorem spm_write_skeleton {α : Type} [Lean.Grind.CommRing α] (fmNone xFlip : Bool) (a : Aff α) (st : WSt α) :
    Gen.skSpmWrite.toTk.bind (fun t => evalWrite fmNone xFlip (some a) t st) = some (some (spmWriteMat xFlip a)) ∧
    Gen.skSpmWrite.toTk.bind (fun t => evalWrite fmNone xFlip (none : Option (Aff α)) t st) = some none := by
  rw [skeletons_agree.2.2.1]
  cases fmNone <;> cases xFlip <;>
    simp [tkSpmWrite, tkWriteBody, tkWriteTail, evalWrite, spmWriteMat, from111]

example : Gen.skSpmWrite.toTk.bind (fun t => evalWrite false true (some (⟨⟨0, 0, 2, 3, 0, 0, 0, -5, 0⟩, ⟨1, 2, 3⟩⟩ : Aff Int)) t
      ⟨default, default, default⟩)
    = some (some (⟨⟨0, 0, -2, 3, 0, 0, 0, -5, 0⟩, ⟨1, -1, 8⟩⟩, ⟨⟨0, 0, 2, 3, 0, 0, 0, -5, 0⟩, ⟨-1, -1, 8⟩⟩)) :=
  (spm_write_skeleton false true _ _).1.trans (by decide +kernel)

/-- `Spm99AnalyzeImage.from_file_map` as written in the working tree: which of 'mat' / 'M' wins, the first slice of
    a stack, the x flip applied to 'M' only under `default_x_flip`, the 1-based shift — equals the model's
    `spmReadMat` for every `.mat` content mode; a missing file leaves the header's affine; a file with neither
    variable is a `ValueError`. -/
theorem spm_read_skeleton {α : Type} [Lean.Grind.CommRing α] (xFlip : Bool) (stored : Aff α × Aff α) (hdrAff : Aff α)
    (st : RSt α) :
    (∀ mode : MatMode, Gen.skSpmRead.toTk.bind (fun t => evalRead xFlip (mode.file stored) hdrAff t st)
        = some (.ok (spmReadMat xFlip mode stored hdrAff))) ∧
    (∀ e m d M, Gen.skSpmRead.toTk.bind (fun t => evalRead xFlip ⟨true, e, m, d, M⟩ hdrAff t st) = some (.ok hdrAff)) ∧
    (∀ d, Gen.skSpmRead.toTk.bind (fun t => evalRead xFlip ⟨false, false, none, d, none⟩ hdrAff t st)
        = some (.error .value)) := by
  rw [skeletons_agree.2.2.2]
  refine ⟨?_, ?_, ?_⟩
  · intro mode
    cases mode <;> cases xFlip <;>
      simp [tkSpmRead, tkReadTail, evalRead, spmReadMat, MatMode.file, to111]
  · intro e m d M
    simp [tkSpmRead, evalRead]
  · intro d
    simp [tkSpmRead, evalRead]


/-! ### constants regenerated from the source (Generated/C04.lean) -/

/-- side conditions the theorems place on the format constants, re-checked against the current
    source on every run: thresholds are non-zero and far below single precision squared (so the
    "w = 0" shortcut of `fillpositive` stays inside the stored precision); `FLOAT_EPS ≤ 1` (unit
    quaternions pass the guard of `quat2mat`); `allclose` tolerances positive and small. -/
theorem gen_thresholds_ok :
    0 < absR Gen.n1QuatThr ∧ absR Gen.n1QuatThr ≤ 1 / 1000000 ∧
    0 < absR Gen.n2QuatThr ∧ absR Gen.n2QuatThr ≤ 1 / 100000000000000 ∧
    0 < Gen.floatEps ∧ Gen.floatEps ≤ 1 ∧
    0 < Gen.rtol ∧ Gen.rtol ≤ 1 / 10000 ∧ 0 < Gen.atol ∧ Gen.atol ≤ 1 / 1000000 := by
  decide +kernel

end Nb.C04
