import NibabelModel.Model.C04
/-! Props/C04 — the property theorems for C04 (statements + proofs; helper lemmas live in Lemmas/). -/
namespace Nb.C04

end Nb.C04
