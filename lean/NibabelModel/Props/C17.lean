import NibabelModel.Model.C17
import NibabelModel.Lemmas.C17
import NibabelModel.Generated.C17Codes
import NibabelModel.Lemmas.C17_Writer
import NibabelModel.Lemmas.C17_GenTables
import NibabelModel.Model.C17_Hist
import NibabelModel.Lemmas.C17_Hist
import NibabelModel.Lemmas.C17_GenFuncs
/-! Props/C17 — property theorems for C17 "GIFTI images round-trip through XML for every encoding".

    Proved for ALL lists / event streams / shapes / images (no bound):
      container   : substantive — orig_loop_characterisation, orig_correct_iff_no_adjacent (the pinned defect),
                    agg_code_zero_filters, agg_tuple_args, intent_forms_agree + intent_aliases_pinned (regenerated tables);
                    definitional (facts about List.filter/++/eraseIdx, labelled so): remove_by_intent_is_filter,
                    remove_by_intent_spec, select_is_filter, select_remove_partition, remove_by_position(+_error),
                    add_appends, agg_selects_filter, agg_tuple_order, intent_arg_methods;
                    witnesses: orig_remove_skips_adjacent, removeByIntentOrig_counterexample
      parser      : chunking_independent, rechunk_text_node
      data block  : elem_roundtrip, buffer_roundtrip, order_roundtrip, base64_block_roundtrip (Base64 encodings ONLY;
                    formerly data_block_roundtrip), codes_pinned, base64_block_roundtrip_gifti (regenerated tables),
                    base64_block_roundtrip_any_memory_order, writer_bytes_memory_order_independent (assumption-restating)
      whole image : image_xml_roundtrip (writer element tree → handler calls → parser = the image, any chunking, under
                    the explicit ElementTree/expat contract), image_xml_roundtrip_gifti + writer_names_parse_back
                    (regenerated tables), image_data_base64 (the data hypothesis is a theorem for Base64)

      histories   : serialise_depends_on_current_state_only (literal object-walking serialiser with its side effect =
                    pure function of the current image state, for every history of mutations / container ops /
                    re-loads / serialisations on ONE image object with shared objects), history_kth_output,
                    history_roundtrip (k-th output parses to the k-th state), inplace_edit_reaches_every_holder,
                    endian_attribute_invisible

      translated  : gen_get_arrays_from_intent, gen_remove_by_intent, gen_numDA — the methods' SOURCE TEXT, translated
                    statement by statement on every run (Generated/C17Funcs.lean), computes the container model

    PARTIAL (external, enter as hypotheses/parameters, checked only by the oracle on the real code):
      expat / ElementTree (escaping, which handler calls are made — contract in Model/C17 `imgEvents`), base64, zlib,
      ASCII number printing/parsing ('%10.6f', '%d', str(float), np.loadtxt): ASCII data blocks and the coordinate
      matrix come back as whatever the external parser makes of the printed text (hypotheses `WDArr.Ok.mt/.data`). -/
namespace Nb.C17

/-! ## container operations -/

/-- `remove_gifti_data_array_by_intent` (repaired logic): the result is THE list that keeps the order of the
    image (sublist), contains no array of the intent, and contains every other array with its full multiplicity —
    i.e. all and only the named arrays are removed. [DEFINITIONAL: the model definition is the Python one-liner; this is a fact about `List.filter` / `++` / `eraseIdx` spelling out what that one-liner means — the tie to the code is the `hist` correspondence stream] -/
theorem remove_by_intent_is_filter (l : List DA) (it : Nat) (r : List DA) :
    (r.Sublist l ∧ (∀ d ∈ r, d.intent ≠ it) ∧ (∀ d, d.intent ≠ it → r.count d = l.count d))
      ↔ r = removeByIntent l it := by
  constructor
  · rintro ⟨hs, hn, hc⟩
    exact sublist_eq_filter (fun d => d.intent != it) hs (fun d hd => by simpa using hn d hd)
      (fun d hd => hc d (by simpa using hd))
  · rintro rfl
    obtain ⟨h1, h2, h3⟩ := filter_spec (fun d : DA => d.intent != it) l
    exact ⟨h1, fun d hd => by simpa using h2 d hd, fun d hd => h3 d (by simpa using hd)⟩

example : removeByIntent [⟨0, 5⟩, ⟨1, 5⟩, ⟨2, 6⟩, ⟨3, 5⟩, ⟨4, 5⟩] 5 = [⟨2, 6⟩] := by decide

/-- membership form: an array is in the result iff it was in the image and has another intent; nothing is added;
    the number removed is the number of matches [DEFINITIONAL: the model definition is the Python one-liner; this is a fact about `List.filter` / `++` / `eraseIdx` spelling out what that one-liner means — the tie to the code is the `hist` correspondence stream] -/
theorem remove_by_intent_spec (l : List DA) (it : Nat) :
    (∀ d, d ∈ removeByIntent l it ↔ d ∈ l ∧ d.intent ≠ it) ∧
    (removeByIntent l it).length + (getArraysFromIntent l it).length = l.length := by
  refine ⟨fun d => by simp [removeByIntent, List.mem_filter], ?_⟩
  unfold removeByIntent getArraysFromIntent
  induction l with
  | nil => rfl
  | cons a l ih =>
    by_cases h : a.intent = it <;> simp [List.filter_cons, h] at ih ⊢ <;> omega

/-- the ORIGINAL loop on four adjacent arrays of the intent leaves two of them behind -/
theorem orig_remove_skips_adjacent :
    removeByIntentOrig [⟨0, 5⟩, ⟨1, 5⟩, ⟨2, 5⟩, ⟨3, 5⟩] 5 = [⟨1, 5⟩, ⟨3, 5⟩] := by decide

/-- … so the original logic violated the property (the repaired one does not) -/
theorem removeByIntentOrig_counterexample :
    removeByIntentOrig [⟨0, 5⟩, ⟨1, 5⟩, ⟨2, 5⟩, ⟨3, 5⟩] 5 ≠ removeByIntent [⟨0, 5⟩, ⟨1, 5⟩, ⟨2, 5⟩, ⟨3, 5⟩] 5 := by
  decide

/-- general characterisation of the original iterate-while-removing loop: on an image whose arrays are distinct
    objects it keeps, unexamined, the array that follows each removed one -/
theorem orig_loop_characterisation (l : List DA) (it : Nat) (h : l.Nodup) :
    removeByIntentOrig l it = skipAfterRemoval (fun d => d.intent == it) l := by
  have := origLoop_inv (fun d : DA => d.intent == it) (l.length + 1) [] l (by simpa using h) (by omega)
  simpa [removeByIntentOrig] using this

example : ([⟨0, 5⟩, ⟨1, 5⟩, ⟨2, 6⟩] : List DA).Nodup := by decide

/-- exactly when did the original code meet the property?  On distinct arrays: iff no two ADJACENT arrays carry
    the intent to remove. -/
theorem orig_correct_iff_no_adjacent (l : List DA) (it : Nat) (h : l.Nodup) :
    removeByIntentOrig l it = removeByIntent l it ↔ NoAdjacent (fun d => d.intent == it) l := by
  rw [orig_loop_characterisation l it h, ← skip_eq_filter_iff]
  have : removeByIntent l it = l.filter (fun x => !(fun d : DA => d.intent == it) x) := by
    simp [removeByIntent, bne]
  rw [this]

example : NoAdjacent (fun d : DA => d.intent == 5) [⟨0, 5⟩, ⟨1, 6⟩, ⟨2, 5⟩] := by simp [NoAdjacent]

/-- `get_arrays_from_intent`: the result is THE sublist (image order) of all and only the arrays of the intent [DEFINITIONAL: the model definition is the Python one-liner; this is a fact about `List.filter` / `++` / `eraseIdx` spelling out what that one-liner means — the tie to the code is the `hist` correspondence stream] -/
theorem select_is_filter (l : List DA) (it : Nat) (r : List DA) :
    (r.Sublist l ∧ (∀ d ∈ r, d.intent = it) ∧ (∀ d, d.intent = it → r.count d = l.count d))
      ↔ r = getArraysFromIntent l it := by
  constructor
  · rintro ⟨hs, hn, hc⟩
    exact sublist_eq_filter (fun d => d.intent == it) hs (fun d hd => by simpa using hn d hd)
      (fun d hd => hc d (by simpa using hd))
  · rintro rfl
    obtain ⟨h1, h2, h3⟩ := filter_spec (fun d : DA => d.intent == it) l
    exact ⟨h1, fun d hd => by simpa using h2 d hd, fun d hd => h3 d (by simpa using hd)⟩

example : getArraysFromIntent [⟨0, 5⟩, ⟨1, 6⟩, ⟨2, 5⟩] 5 = [⟨0, 5⟩, ⟨2, 5⟩] := by decide

/-- selecting and removing by the same intent split the image: every array is in exactly one of the two [DEFINITIONAL: the model definition is the Python one-liner; this is a fact about `List.filter` / `++` / `eraseIdx` spelling out what that one-liner means — the tie to the code is the `hist` correspondence stream] -/
theorem select_remove_partition (l : List DA) (it : Nat) (d : DA) :
    l.count d = (getArraysFromIntent l it).count d + (removeByIntent l it).count d := by
  unfold getArraysFromIntent removeByIntent
  induction l with
  | nil => rfl
  | cons a l ih =>
    by_cases h : a.intent = it <;> simp [List.filter_cons, h, List.count_cons] at ih ⊢ <;> omega

/-- `remove_gifti_data_array(ith)` with a valid Python index removes exactly position `ith mod n`:
    the arrays before it stay at their index, the arrays after it move up by one [DEFINITIONAL: the model definition is the Python one-liner; this is a fact about `List.filter` / `++` / `eraseIdx` spelling out what that one-liner means — the tie to the code is the `hist` correspondence stream] -/
theorem remove_by_position (l : List DA) (i : Int) (h : -(l.length : Int) ≤ i ∧ i < l.length) :
    ∃ r, removeAt l i = .ok r ∧ r.length + 1 = l.length ∧
      (∀ j, j < (i % (l.length : Int)).toNat → r[j]? = l[j]?) ∧
      (∀ j, (i % (l.length : Int)).toNat ≤ j → r[j]? = l[j + 1]?) := by
  obtain ⟨h1, h2⟩ := h
  have hk : (if i < 0 then i + (l.length : Int) else i) = i % (l.length : Int) := by
    split
    · rw [← Int.add_emod_right, Int.emod_eq_of_lt (by omega) (by omega)]
    · rw [Int.emod_eq_of_lt (by omega) (by omega)]
  have hk0 : 0 ≤ i % (l.length : Int) := by rw [← hk]; split <;> omega
  have hkn : i % (l.length : Int) < l.length := by rw [← hk]; split <;> omega
  refine ⟨l.eraseIdx (i % (l.length : Int)).toNat, ?_, ?_, ?_, ?_⟩
  · unfold removeAt
    simp only [hk]
    rw [if_neg (by omega)]
  · rw [List.length_eraseIdx, if_pos (by omega)]; omega
  · intro j hj; rw [List.getElem?_eraseIdx, if_pos hj]
  · intro j hj; rw [List.getElem?_eraseIdx, if_neg (by omega)]

example : removeAt [⟨0, 5⟩, ⟨1, 6⟩, ⟨2, 5⟩] (-1) = .ok [⟨0, 5⟩, ⟨1, 6⟩] := by rfl

/-- … and an index outside `[-n, n)` is refused (IndexError), the image is not touched [DEFINITIONAL: the model definition is the Python one-liner; this is a fact about `List.filter` / `++` / `eraseIdx` spelling out what that one-liner means — the tie to the code is the `hist` correspondence stream] -/
theorem remove_by_position_error (l : List DA) (i : Int) (h : i < -(l.length : Int) ∨ (l.length : Int) ≤ i) :
    removeAt l i = .error .index := by
  unfold removeAt
  simp only
  split <;> rw [if_pos (by omega)]

example : removeAt [⟨0, 5⟩] 1 = .error .index := by rfl

/-- `add_gifti_data_array`: every array keeps its position, the new one is last [DEFINITIONAL: the model definition is the Python one-liner; this is a fact about `List.filter` / `++` / `eraseIdx` spelling out what that one-liner means — the tie to the code is the `hist` correspondence stream] -/
theorem add_appends (l : List DA) (d : DA) :
    (addArray l d).length = l.length + 1 ∧ (∀ j, j < l.length → (addArray l d)[j]? = l[j]?) ∧
      (addArray l d)[l.length]? = some d := by
  refine ⟨by simp [addArray], fun j hj => ?_, by simp [addArray]⟩
  simp [addArray, List.getElem?_append_left hj]

/-- `agg_data(code)`: the arrays aggregated are exactly those `get_arrays_from_intent` names (all arrays when no
    code is given), in image order; they are column-stacked iff there is at least one and all are time series [DEFINITIONAL: the model definition is the Python one-liner; this is a fact about `List.filter` / `++` / `eraseIdx` spelling out what that one-liner means — the tie to the code is the `hist` correspondence stream] -/
theorem agg_selects_filter (ts : Nat) (l : List DA) (code : Option Nat) :
    (aggOne ts l code).ids = (aggSel l code).map (·.id) ∧
    ((∃ ids, aggOne ts l code = .stack ids) ↔ (aggSel l code ≠ [] ∧ ∀ d ∈ aggSel l code, d.intent = ts)) ∧
    (code = none → aggSel l code = l) ∧ (∀ c, code = some c → aggSel l code = getArraysFromIntent l c) := by
  refine ⟨?_, ?_, fun h => by subst h; rfl, fun c h => by subst h; rfl⟩
  · unfold aggOne aggOf
    generalize aggSel l code = sel
    split
    · rfl
    · match sel with
      | [] => rfl
      | [d] => rfl
      | _ :: _ :: _ => rfl
  · unfold aggOne aggOf
    generalize aggSel l code = sel
    by_cases hc : sel ≠ [] ∧ (sel.all fun d => d.intent == ts) = true
    · rw [if_pos hc]
      exact ⟨fun _ => ⟨hc.1, by simpa using hc.2⟩, fun _ => ⟨_, rfl⟩⟩
    · rw [if_neg hc]
      constructor
      · rintro ⟨ids, h⟩
        match sel, h with
        | [], h => simp at h
        | [d], h => simp at h
        | _ :: _ :: _, h => simp at h
      · rintro ⟨h1, h2⟩
        exact absurd ⟨h1, by simpa using h2⟩ hc

example : aggOne 7 [⟨0, 7⟩, ⟨1, 5⟩, ⟨2, 7⟩] (some 7) = .stack [0, 2] := by decide

/-- `agg_data((c₁,…,cₖ))`: one result per requested code, in the order requested [DEFINITIONAL: the model definition is the Python one-liner; this is a fact about `List.filter` / `++` / `eraseIdx` spelling out what that one-liner means — the tie to the code is the `hist` correspondence stream] -/
theorem agg_tuple_order (ts : Nat) (l : List DA) (codes : List Nat) :
    (aggTuple ts l codes).map Agg.ids = codes.map (fun c => (getArraysFromIntent l c).map (·.id)) := by
  simp only [aggTuple, List.map_map]
  apply List.map_congr_left
  intro c _
  exact (agg_selects_filter ts l (some c)).1

/-! ## parser: character-data collation -/

/-- `chunking_independent`: two handler-call sequences that differ only in how expat split the character data of
    the text nodes (same sequence after merging adjacent character-data calls) give the same parse result —
    the same image or the same error.  Holds for every code table and every behaviour of the external codecs. -/
theorem chunking_independent (K : Codes) (X : Ext) (es es' : List Event) (h : canon es = canon es') :
    run K X es = run K X es' := by
  rw [run_eq, run_eq, runFrom_canon K X es, runFrom_canon K X es', h]

example : canon [.start "Data" [], .chars ['Q'], .chars [], .chars ['U', 'E'], .stop "Data"]
    = canon [.start "Data" [], .chars ['Q', 'U'], .chars ['E'], .stop "Data"] := by
  simp [canon]

/-- explicit form: the text of one node may be delivered as ANY non-empty list of chunks (empty and one-character
    chunks included) — the result is that of delivering the joined text in one call -/
theorem rechunk_text_node (K : Codes) (X : Ext) (pre post : List Event) (cs : List Text) (h : cs ≠ []) :
    run K X (pre ++ cs.map .chars ++ post) = run K X (pre ++ [.chars cs.flatten] ++ post) := by
  rw [run_eq, run_eq, List.append_assoc, List.append_assoc, runFrom_append, runFrom_append]
  cases runFrom K X {} pre with
  | error e => rfl
  | ok st =>
    simp only
    rw [runFrom_append, runFrom_chars]
    simp only [List.singleton_append, runFrom, step]
    obtain ⟨c, cs', rfl⟩ := List.exists_cons_of_ne_nil h
    simp only [List.foldl_cons, List.flatten_cons]
    exact runFrom_sim K X post (foldl_onChars_sim cs' st c)

example : ([[], ['a'], [], ['b', 'c']] : List Text) ≠ [] := by decide

/-! ## data block -/

/-- every `w`-byte bit pattern survives encode/decode in either byte order -/
theorem elem_roundtrip (big : Bool) (w v : Nat) (h : v < 256 ^ w) : decElem big (encElem big w v) = v :=
  decElem_encElem big w v h

/-- `np.frombuffer(arr.tobytes())` on bit patterns, any itemsize > 0, either byte order, any length -/
theorem buffer_roundtrip (big : Bool) (w : Nat) (hw : 0 < w) (vals : List Nat) (hv : ∀ v ∈ vals, v < 256 ^ w) :
    fromBuffer big w (toBytes big w vals) = .ok vals :=
  fromBuffer_toBytes big w hw vals hv

/-- `tobytes(order)` followed by `reshape(shape, order=order)` is the identity for row- and column-major order
    and EVERY shape (any rank, any sizes, zero-length axes included) -/
theorem order_roundtrip (col : Bool) (shape elems : List Nat) (h : elems.length = prod shape) :
    fromOrder col shape (toOrder col shape elems) = elems :=
  fromOrder_toOrder col shape elems h

/-- the contract is satisfiable (bytes ↔ characters of the same code, identity "compression") -/
example : ∃ (X : Ext) (b64enc : List Nat → Text) (deflate : List Nat → List Nat), CodecContract X b64enc deflate := by
  refine ⟨⟨fun t => some (t.map Char.toNat), fun b => some b, fun _ _ _ => none⟩, fun b => b.map Char.ofNat, id,
    ⟨fun b hb => ?_, fun _ _ => rfl, fun _ hb => hb⟩⟩
  simp only [List.map_map, Option.some.injEq]
  conv => rhs; rw [← List.map_id b]
  apply List.map_congr_left
  intro x hx
  have hv : x.isValidChar := Or.inl (by have := hb x hx; omega)
  simp [Char.ofNat, hv, Char.toNat, Char.ofNatAux]

/-- `base64_block_roundtrip`: for B64BIN and B64GZ × {little, big endian} × {row, column major} × every data type of
    the table × every shape × all bit patterns: `read_data_block` applied to what `_data_tag_element` wrote (with
    the same declared attributes) returns the array — same data type, shape, and bits. -/
theorem base64_block_roundtrip (K : Codes) (hK : K.Distinct) (X : Ext) (b64enc : List Nat → Text)
    (deflate : List Nat → List Nat) (hX : CodecContract X b64enc deflate)
    (gz big col : Bool) (dt w : Nat) (kind : Char)
    (hdt : K.dtinfo.find? (fun r => r.1 == dt) = some (dt, w, kind)) (hw : 0 < w)
    (shape elems : List Nat) (hlen : elems.length = prod shape) (hr : ∀ v ∈ elems, v < 256 ^ w) :
    readDataBlock K X
      ⟨if gz then K.encGz else K.encB64, if big then K.endBig else K.endLittle, dt, shape,
       if col then K.ordCol else K.ordRow⟩
      (some (writeDataBlock b64enc deflate gz big w col shape elems)) = .ok ⟨dt, shape, elems⟩ := by
  have hpos : 0 < 256 ^ w := Nat.pow_pos (by decide)
  have hbytes : ∀ x ∈ toBytes big w (toOrder col shape elems), x < 256 := toBytes_lt big w _
  have hflat := fromBuffer_toBytes big w hw (toOrder col shape elems) (toOrder_mem_lt col shape elems _ hpos hr)
  have hendian : endianOf K (if big then K.endBig else K.endLittle) = some big := by
    cases big <;> simp [endianOf, Ne.symm hK.end_]
  have horder : orderOf K (if col then K.ordCol else K.ordRow) = some col := by
    cases col <;> simp [orderOf, Ne.symm hK.ord]
  have henc1 : ((if gz then K.encGz else K.encB64) == K.encAscii) = false := by
    cases gz <;> simp [Ne.symm hK.a_b, Ne.symm hK.a_g]
  have henc2 : ((if gz then K.encGz else K.encB64) == K.encExt) = false := by
    cases gz <;> simp [Ne.symm hK.e_b, Ne.symm hK.e_g]
  have henc3 : ((if gz then K.encGz else K.encB64) != K.encB64) = gz := by
    cases gz <;> simp [Ne.symm hK.b_g]
  have henc4 : ((if gz then K.encGz else K.encB64) == K.encB64 || (if gz then K.encGz else K.encB64) == K.encGz) = true := by
    cases gz <;> simp
  have hdec : decodeBinary X gz big w col shape dt
      (some (writeDataBlock b64enc deflate gz big w col shape elems)) = .ok ⟨dt, shape, elems⟩ := by
    unfold decodeBinary writeDataBlock
    cases gz with
    | false =>
      simp only [Bool.false_eq_true, if_false, hX.b64 _ hbytes, hflat]
      simp [toOrder_length col shape elems hlen, fromOrder_toOrder col shape elems hlen]
    | true =>
      simp only [if_true, hX.b64 _ (hX.zbytes _ hbytes), hX.zlib _ hbytes, hflat]
      simp [toOrder_length col shape elems hlen, fromOrder_toOrder col shape elems hlen]
  unfold readDataBlock
  simp only [hendian, horder, hdt, henc1, henc2, henc3]
  have : (K.encAscii == K.encAscii) = true := by simp
  rw [← hdec]
  cases gz <;> simp

/-- the round trip does not depend on the byte order the array has IN MEMORY when it is written (arrays loaded
    from a document that declared the other endianness, user-supplied non-native data): for every memory order
    `memBig`, writing the memory image of `elems` and reading it back (declared order = machine order `big`)
    returns `elems`. [ASSUMPTION-RESTATING: holds by construction of `writeDataBlockMem` / `writerBytes`, which MODEL `np.asanyarray(data, dtype)` as conversion by value; that this is what the code does is checked by the `wblock` correspondence stream and the oracle, not proved] -/
theorem base64_block_roundtrip_any_memory_order (K : Codes) (hK : K.Distinct) (X : Ext) (b64enc : List Nat → Text)
    (deflate : List Nat → List Nat) (hX : CodecContract X b64enc deflate)
    (gz big col memBig : Bool) (dt w : Nat) (kind : Char)
    (hdt : K.dtinfo.find? (fun r => r.1 == dt) = some (dt, w, kind)) (hw : 0 < w)
    (shape elems : List Nat) (hlen : elems.length = prod shape) (hr : ∀ v ∈ elems, v < 256 ^ w) :
    ∃ txt, writeDataBlockMem b64enc deflate gz big w col shape memBig (toBytes memBig w elems) = .ok txt ∧
      readDataBlock K X
        ⟨if gz then K.encGz else K.encB64, if big then K.endBig else K.endLittle, dt, shape,
         if col then K.ordCol else K.ordRow⟩ (some txt) = .ok ⟨dt, shape, elems⟩ := by
  refine ⟨writeDataBlock b64enc deflate gz big w col shape elems, ?_, ?_⟩
  · simp [writeDataBlockMem, fromBuffer_toBytes memBig w hw elems hr]
  · exact base64_block_roundtrip K hK X b64enc deflate hX gz big col dt w kind hdt hw shape elems hlen hr

/-- … and the bytes written are the same whatever the memory order (so a big-endian array in memory is NOT
    written raw under the machine's declared order) [ASSUMPTION-RESTATING: holds by construction of `writeDataBlockMem` / `writerBytes`, which MODEL `np.asanyarray(data, dtype)` as conversion by value; that this is what the code does is checked by the `wblock` correspondence stream and the oracle, not proved] -/
theorem writer_bytes_memory_order_independent (big col : Bool) (w : Nat) (hw : 0 < w) (shape elems : List Nat)
    (hr : ∀ v ∈ elems, v < 256 ^ w) (m1 m2 : Bool) :
    writerBytes big w col shape m1 (toBytes m1 w elems) = writerBytes big w col shape m2 (toBytes m2 w elems) := by
  simp [writerBytes, fromBuffer_toBytes _ w hw elems hr]

example : writerBytes false 4 false [2] true [0, 0, 2, 156, 255, 255, 255, 254] = .ok [156, 2, 0, 0, 254, 255, 255, 255] := by
  rfl

/-- the REGENERATED tables satisfy what the theorems assume: the three encodings, two byte orders and two index
    orders have distinct codes; the GIFTI data types are uint8 (1 byte, 'u'), int32 (4, 'i'), float32 (4, 'f');
    NIFTI_INTENT_TIME_SERIES is the code `agg_data` stacks on. -/
theorem codes_pinned :
    Gen.codes.Distinct ∧
    (Gen.giftiDtypes.map (fun c => Gen.codes.dtinfo.find? (fun r => r.1 == c))
      = [some (2, 1, 'u'), some (8, 4, 'i'), some (16, 4, 'f')]) ∧
    lookup Gen.codes.intent "NIFTI_INTENT_TIME_SERIES".toList = some Gen.codes.timeSeries ∧
    lookup Gen.codes.encoding "Base64Binary".toList = some Gen.codes.encB64 ∧
    lookup Gen.codes.encoding "GZipBase64Binary".toList = some Gen.codes.encGz ∧
    lookup Gen.codes.encoding "ASCII".toList = some Gen.codes.encAscii ∧
    lookup Gen.codes.endian "BigEndian".toList = some Gen.codes.endBig ∧
    lookup Gen.codes.endian "LittleEndian".toList = some Gen.codes.endLittle ∧
    lookup Gen.codes.order "RowMajorOrder".toList = some Gen.codes.ordRow ∧
    lookup Gen.codes.order "ColumnMajorOrder".toList = some Gen.codes.ordCol := by
  refine ⟨⟨?_, ?_, ?_, ?_, ?_, ?_, ?_⟩, ?_, ?_, ?_, ?_, ?_, ?_, ?_, ?_, ?_⟩ <;> decide

/-- `base64_block_roundtrip` instantiated for the REGENERATED code tables and the three data types the GIFTI
    standard allows (uint8, int32, float32): every hypothesis about the tables is discharged by computation
    on `Gen.codes`, so a change of a code or an item size in the source re-checks (or breaks) this theorem. -/
theorem base64_block_roundtrip_gifti (X : Ext) (b64enc : List Nat → Text) (deflate : List Nat → List Nat)
    (hX : CodecContract X b64enc deflate) (gz big col : Bool) (dt w : Nat) (kind : Char)
    (hdt : (dt, w, kind) ∈ [(2, 1, 'u'), (8, 4, 'i'), (16, 4, 'f')])
    (shape elems : List Nat) (hlen : elems.length = prod shape) (hr : ∀ v ∈ elems, v < 256 ^ w) :
    readDataBlock Gen.codes X
      ⟨if gz then Gen.codes.encGz else Gen.codes.encB64, if big then Gen.codes.endBig else Gen.codes.endLittle,
       dt, shape, if col then Gen.codes.ordCol else Gen.codes.ordRow⟩
      (some (writeDataBlock b64enc deflate gz big w col shape elems)) = .ok ⟨dt, shape, elems⟩ := by
  simp only [List.mem_cons, Prod.mk.injEq, List.not_mem_nil, or_false] at hdt
  rcases hdt with ⟨rfl, rfl, rfl⟩ | ⟨rfl, rfl, rfl⟩ | ⟨rfl, rfl, rfl⟩
  · exact base64_block_roundtrip Gen.codes codes_pinned.1 X b64enc deflate hX gz big col 2 1 'u' (by decide) (by decide)
      shape elems hlen hr
  · exact base64_block_roundtrip Gen.codes codes_pinned.1 X b64enc deflate hX gz big col 8 4 'i' (by decide) (by decide)
      shape elems hlen hr
  · exact base64_block_roundtrip Gen.codes codes_pinned.1 X b64enc deflate hX gz big col 16 4 'f' (by decide) (by decide)
      shape elems hlen hr

/-- non-vacuity of `base64_block_roundtrip`: the regenerated tables, a concrete codec pair satisfying the contract
    (bytes ↔ characters, identity "compression"), a 2×3 int32 array with extreme bit patterns, column-major,
    big-endian, gzip branch -/
example :
    let X : Ext := ⟨fun t => some (t.map Char.toNat), fun b => some b, fun _ _ _ => none⟩
    readDataBlock Gen.codes X ⟨Gen.codes.encGz, Gen.codes.endBig, 8, [2, 3], Gen.codes.ordCol⟩
      (some (writeDataBlock (fun b => b.map Char.ofNat) id true true 4 true [2, 3]
        [0, 1, 4294967295, 2147483648, 5, 6])) = .ok ⟨8, [2, 3], [0, 1, 4294967295, 2147483648, 5, 6]⟩ := by
  rfl


/-! ## intent ARGUMENTS of the container methods (`intent_codes.code[intent]`) -/

/-- REGENERATED tables: every integer intent code — 0 = NIFTI_INTENT_NONE, the default intent of `GiftiDataArray`,
    included — resolves to itself, and the name the writer emits for it resolves (as a string argument and as an
    XML attribute) back to the code.  Complete check of the generated table, not a sample. -/
theorem intent_forms_agree : ∀ c ∈ Gen.codes.intentCodes,
    lookup Gen.codes.intent (nameOf Gen.names.intent c) = some c ∧ resolveIntent Gen.codes (.code c) = some c ∧
    resolveIntent Gen.codes (.name (nameOf Gen.names.intent c)) = some c := fun c hc =>
  ⟨gen_intent_names c hc, resolveIntentIn_code _ _ c hc, (resolveIntent_name Gen.codes _).trans (gen_intent_names c hc)⟩

example : (0 : Nat) ∈ Gen.codes.intentCodes := by decide

/-- the standard names the harness passes (typed there independently of nibabel) are aliases of the standard codes
    in the regenerated table; 0 is an intent code; `GiftiDataArray()` defaults to it -/
theorem intent_aliases_pinned :
    ([("NIFTI_INTENT_NONE", 0), ("none", 0), ("NIFTI_INTENT_LABEL", 1002), ("label", 1002),
      ("NIFTI_INTENT_POINTSET", 1008), ("pointset", 1008), ("NIFTI_INTENT_TRIANGLE", 1009), ("triangle", 1009),
      ("NIFTI_INTENT_TIME_SERIES", 2001), ("time series", 2001), ("NIFTI_INTENT_SHAPE", 2005), ("shape", 2005)].all
        (fun p => resolveIntent Gen.codes (.name p.1.toList) == some p.2 && resolveIntent Gen.codes (.code p.2) == some p.2)) = true ∧
    Gen.codes.daDefaults.1 = 0 ∧ newArray Gen.codes 7 none = some ⟨7, 0⟩ := by
  decide +kernel

/-- (glue: unfolds the definitions once the lookup is known) the three intent-taking methods act on the arrays of
    the code the argument resolves to — whatever its form and whatever the code, 0 included — and only `None`
    makes `agg_data` take all arrays; an argument that does not resolve raises and leaves the image as it was. -/
theorem intent_arg_methods (K : Codes) (l : List DA) (a : IntentArg) :
    (∀ c, resolveIntent K a = some c →
      removeByIntentArg K l a = .ok (removeByIntent l c) ∧
      getArraysFromIntentArg K l a = .ok (getArraysFromIntent l c) ∧
      aggData K l (some a) = .ok (aggOf K.timeSeries (getArraysFromIntent l c))) ∧
    (resolveIntent K a = none →
      removeByIntentArg K l a = .error .other ∧ getArraysFromIntentArg K l a = .error .other ∧
      aggData K l (some a) = .error .other) ∧
    aggData K l none = .ok (aggOf K.timeSeries l) := by
  refine ⟨fun c h => ?_, fun h => ?_, rfl⟩ <;>
  simp_all [resolveIntent, removeByIntentArg, removeByIntentArgIn, getArraysFromIntentArg, getArraysFromIntentArgIn,
    aggData, aggDataIn, aggOne, aggSel]

/-- the seeded-bug clause: with the regenerated tables, `agg_data(0)` aggregates exactly the arrays of intent 0 —
    on an image that also holds another intent this is NOT what `agg_data()` returns -/
theorem agg_code_zero_filters (l : List DA) :
    aggData Gen.codes l (some (.code 0)) = .ok (aggOf Gen.codes.timeSeries (l.filter (fun d => d.intent == 0))) ∧
    ((∃ d ∈ l, d.intent ≠ 0) → ∀ r, aggData Gen.codes l (some (.code 0)) = .ok r → r.ids ≠ l.map (·.id)) := by
  have h0 : resolveIntent Gen.codes (.code 0) = some 0 := by decide +kernel
  have h1 := ((intent_arg_methods Gen.codes l (.code 0)).1 0 h0).2.2
  refine ⟨h1, ?_⟩
  rintro ⟨d, hd, hne⟩ r hr
  rw [h1] at hr
  cases hr
  have hids := (agg_selects_filter Gen.codes.timeSeries l (some 0)).1
  simp only [aggOne, aggSel] at hids
  rw [hids]
  intro e
  have hl := congrArg List.length e
  simp only [List.length_map] at hl
  have hlt : (getArraysFromIntent l 0).length < l.length := by
    have := (remove_by_intent_spec l 0).2
    have hm : d ∈ removeByIntent l 0 := ((remove_by_intent_spec l 0).1 d).2 ⟨hd, hne⟩
    have : 0 < (removeByIntent l 0).length := List.length_pos_of_mem hm
    omega
  omega

example : aggData Gen.codes [⟨0, 1008⟩, ⟨1, 0⟩] (some (.code 0)) = .ok (.single 1) := by rfl

/-- `agg_data((a₁,…,aₖ))`: one result per element in the order asked; a `None` element stands for all arrays, any
    other element is looked up like a single argument (so `0` selects intent 0) -/
theorem agg_tuple_args (K : Codes) (l : List DA) (as : List (Option IntentArg))
    (h : ∀ a ∈ as, ∀ x, a = some x → (resolveIntent K x).isSome) :
    aggDataTuple K l as = .ok (as.map (fun a => aggOne K.timeSeries l (a.bind (resolveIntent K)))) :=
  aggDataTupleIn_ok K.intent K.intentCodes K.timeSeries l as h

example : aggDataTuple Gen.codes [⟨0, 2005⟩, ⟨1, 0⟩, ⟨2, 0⟩] [some (.code 2005), none, some (.code 0)]
    = .ok [.single 0, .tuple [0, 1, 2], .tuple [1, 2]] := by rfl



/-! ## whole image: writer → handler calls → parser -/

/-- `image_xml_roundtrip`: parsing what the writer wrote gives back the image — version, global metadata, label
    table (keys, texts, colour attributes), and the data arrays IN ORDER, each with its intent, data type, index
    order, encoding, declared byte order, dims, external-file fields, metadata and coordinate system — for every
    image, every code table and every handler-call sequence `es` that differs from the writer's element tree
    `imgEvents N w` only in how character data is chunked (any parser buffer size).
    CONTRACT (external, stated in Model/C17 `imgEvents`): ElementTree serialisation followed by expat parsing
    delivers the element tree in document order (escaping and UTF-8 coding are inverse).
    Per-array EXTERNAL results enter through `ext`: `vals` = what `np.loadtxt` makes of the '%10.6f' matrix text and
    `arr` = what `read_data_block` makes of the data text (`WDArr.Ok.mt`, `.data`; the latter is a THEOREM for the
    Base64 encodings, see `image_data_base64`).  Hypotheses `WImg.Ok`: metadata are dicts of texts without leading /
    trailing white space (the parser strips by design), label texts likewise, codes are in the tables. -/
theorem image_xml_roundtrip (K : Codes) (X : Ext) (N : WNames) (w : WImg) (ext : List (List (List Nat) × Arr))
    (h : w.Ok K N X ext) (es : List Event) (hes : canon es = canon (imgEvents N w)) :
    run K X es = .ok (some (w.parsed ext)) := by
  rw [chunking_independent K X es (imgEvents N w) hes]
  exact run_imgEvents K X N w ext h

/-- the data hypothesis of `image_xml_roundtrip` is a theorem for the Base64 encodings (codec contract
    decode ∘ encode = id): an array written by `writeDataBlock` with a non-empty payload reads back bit-exactly.
    (Empty payload = zero-size array with Base64Binary: the open finding `b64bin:zero-size-none-data`.) -/
theorem image_data_base64 (X : Ext) (b64enc : List Nat → Text) (deflate : List Nat → List Nat)
    (hX : CodecContract X b64enc deflate) (gz big col : Bool) (dt w : Nat) (kind : Char)
    (hdt : (dt, w, kind) ∈ [(2, 1, 'u'), (8, 4, 'i'), (16, 4, 'f')])
    (elems : List Nat) (d : WDArr) (hlen : elems.length = prod d.dims) (hr : ∀ v ∈ elems, v < 256 ^ w)
    (he : d.encoding = if gz then Gen.codes.encGz else Gen.codes.encB64)
    (hen : d.endian = if big then Gen.codes.endBig else Gen.codes.endLittle) (hd : d.datatype = dt)
    (ho : d.indOrd = if col then Gen.codes.ordCol else Gen.codes.ordRow)
    (ht : d.dataText = writeDataBlock b64enc deflate gz big w col d.dims elems) (hne : d.dataText ≠ []) :
    readDataBlock Gen.codes X ⟨d.encoding, d.endian, d.datatype, d.dims, d.indOrd⟩
      (if d.dataText.isEmpty then none else some d.dataText) = .ok ⟨dt, d.dims, elems⟩ := by
  have : d.dataText.isEmpty = false := by simpa using hne
  rw [this, he, hen, hd, ho, ht]
  exact base64_block_roundtrip_gifti X b64enc deflate hX gz big col dt w kind hdt d.dims elems hlen hr

/-- REGENERATED tables: what the writer emits for the GIFTI data types, index orders, in-line encodings, byte
    orders and every xform code is an alias the parser maps back to the same code -/
theorem writer_names_parse_back :
    (∀ c ∈ Gen.giftiDtypes, lookup Gen.codes.dtype (nameOf Gen.names.dtype c) = some c) ∧
    (∀ c ∈ [Gen.codes.ordRow, Gen.codes.ordCol], lookup Gen.codes.order (nameOf Gen.names.order c) = some c) ∧
    (∀ c ∈ [Gen.codes.encAscii, Gen.codes.encB64, Gen.codes.encGz],
        lookup Gen.codes.encoding (nameOf Gen.names.encoding c) = some c) ∧
    (∀ c ∈ [Gen.codes.endBig, Gen.codes.endLittle], lookup Gen.codes.endian (nameOf Gen.names.endian c) = some c) ∧
    (∀ c ∈ Gen.names.xform.map (·.1), nameOf Gen.names.xform c ≠ [] ∧
        lookup Gen.codes.xform (strip (nameOf Gen.names.xform c)) = some c) :=
  gen_writer_names

/-- `image_xml_roundtrip` over the REGENERATED tables: the table hypotheses are discharged by computation
    (`intent_forms_agree`, `writer_names_parse_back`); what remains are conditions on the image itself and the two
    external per-array results. -/
theorem image_xml_roundtrip_gifti (X : Ext) (w : WImg) (ext : List (List (List Nat) × Arr))
    (hm : w.gmeta.Stripped) (hk : (w.gmeta.map (·.1)).Nodup) (hl : ∀ l ∈ w.labels, strip l.label = l.label)
    (hlen : ext.length = w.darrays.length)
    (ha : ∀ t ∈ w.darrays.zip ext,
      t.1.InTables Gen.codes Gen.names Gen.giftiDtypes ∧ t.1.dmeta.Stripped ∧ (t.1.dmeta.map (·.1)).Nodup ∧
      t.1.coordsys.matrixText ≠ [] ∧ parseMatrix X t.1.coordsys.matrixText = some t.2.1 ∧
      readDataBlock Gen.codes X ⟨t.1.encoding, t.1.endian, t.1.datatype, t.1.dims, t.1.indOrd⟩
        (if t.1.dataText.isEmpty then none else some t.1.dataText) = .ok t.2.2)
    (es : List Event) (hes : canon es = canon (imgEvents Gen.names w)) :
    run Gen.codes X es = .ok (some (w.parsed ext)) := by
  refine image_xml_roundtrip Gen.codes X Gen.names w ext ⟨hm, hk, hl, hlen, fun t ht => ?_⟩ es hes
  obtain ⟨hT, hs, hn, hne, hmt, hdata⟩ := ha t ht
  obtain ⟨n1, n2, n3, n4, n5⟩ := writer_names_parse_back
  exact ⟨⟨(intent_forms_agree _ hT.intent).1, n1 _ hT.dtype, n2 _ hT.order, n3 _ hT.encoding, n4 _ hT.endian⟩,
    hs, hn, (n5 _ hT.ds).1, (n5 _ hT.ds).2, (n5 _ hT.xs).1, (n5 _ hT.xs).2, hne, hmt, hdata⟩



/-- non-vacuity of `image_xml_roundtrip_gifti` / `image_xml_roundtrip` (`WImg.Ok` is satisfiable): the concrete image
    `exW` of Lemmas/C17_Writer over the regenerated tables — XML-special and non-ASCII metadata, a coloured label, one
    Base64Binary int32 array with extreme bit patterns, a Talairach coordinate system — with a concrete codec -/
example : run Gen.codes exX (imgEvents Gen.names exW)
      = .ok (some (exW.parsed [([[7, 7], [7, 7]], ⟨8, [2], [1, 4294967295]⟩)])) := by
  refine image_xml_roundtrip_gifti exX exW _ (by unfold MD.Stripped; decide +kernel) (by decide +kernel)
    (by decide +kernel) rfl ?_ _ rfl
  intro t ht
  have : t = (exD, ([[7, 7], [7, 7]], ⟨8, [2], [1, 4294967295]⟩)) := by simpa [exW] using ht
  subst this
  exact ⟨⟨by decide +kernel, by decide +kernel, by decide +kernel, by decide +kernel, by decide +kernel,
    by decide +kernel, by decide +kernel⟩, by unfold MD.Stripped; decide +kernel, by decide +kernel, by decide +kernel,
    by rfl, by rfl⟩

/-- non-vacuity of `image_data_base64`: the data hypothesis of the example image is an instance of the theorem -/
example : exD.dataText ≠ [] ∧ exD.dataText = writeDataBlock (fun b => b.map Char.ofNat) id false false 4 false exD.dims [1, 4294967295] :=
  ⟨by decide +kernel, rfl⟩

/-! ## histories on ONE image object: serialise → mutate → serialise … (Model/C17_Hist) -/

/-- `serialise_depends_on_current_state_only`: for every object state (sharing of data array objects and of ndarrays,
    stale `endian` attributes left by earlier serialisations included) and every history of mutations, container
    operations, re-loads and serialisations, the LITERAL serialiser — which walks the objects, writes `self.endian`
    and threads the state it leaves behind — produces, at the k-th serialisation, exactly `imgEvents` of the abstract
    value (`view`) the image has at that point: the outputs are a function of `serStates` alone.  Hence nothing a
    serialisation leaves behind (the model's writer leaves only `endian`; any cache a real writer keeps must likewise
    be invisible) and nothing about HOW the state was reached (in-place edit vs re-binding, which object holds what)
    can show in a later output, and two object states with the same attributes give the same outputs. -/
theorem serialise_depends_on_current_state_only (N : WNames) (native : Nat) (E : DataEnc) (col : Nat → Option Bool)
    (s : HSt) (ops : List Op) :
    runLit N native E col s ops
      = (serStates col s.core ops).bind (mapOpt (fun c => (view native E c).map (imgEvents N))) ∧
    (∀ s' : HSt, s'.core = s.core → runLit N native E col s' ops = runLit N native E col s ops) := by
  refine ⟨runLit_eq_runAbs N native E col ops s, fun s' h => ?_⟩
  rw [runLit_eq_runAbs, runLit_eq_runAbs, h]

/-- the k-th output of a history is the serialisation of the image AS IT IS at the k-th serialisation point -/
theorem history_kth_output (N : WNames) (native : Nat) (E : DataEnc) (col : Nat → Option Bool) (s : HSt)
    (ops : List Op) (outs : List (List Event)) (h : runLit N native E col s ops = some outs) :
    ∃ cs, serStates col s.core ops = some cs ∧ outs.length = cs.length ∧
      ∀ (k : Nat) c, cs[k]? = some c → ∃ w, view native E c = some w ∧ outs[k]? = some (imgEvents N w) := by
  rw [(serialise_depends_on_current_state_only N native E col s ops).1] at h
  cases hs : serStates col s.core ops with
  | none => simp [hs] at h
  | some cs =>
    simp only [hs, Option.bind_some] at h
    obtain ⟨h1, h2⟩ := mapOpt_getElem _ cs outs h
    refine ⟨cs, rfl, h1, fun k c hk => ?_⟩
    obtain ⟨b, hb, hf⟩ := h2 k c hk
    cases hv : view native E c with
    | none => simp [hv] at hf
    | some w =>
      simp only [hv, Option.map_some, Option.some.injEq] at hf
      exact ⟨w, rfl, by rw [hb, hf]⟩

/-- `history_roundtrip`: parsing the k-th output of ANY history (any parser buffer size / chunking) gives back the
    image state at the k-th serialisation — not an earlier one, not a later one — under the hypotheses of
    `image_xml_roundtrip` for that state. -/
theorem history_roundtrip (K : Codes) (X : Ext) (N : WNames) (native : Nat) (E : DataEnc) (col : Nat → Option Bool)
    (s : HSt) (ops : List Op) (outs : List (List Event)) (h : runLit N native E col s ops = some outs)
    (cs : List Core) (hcs : serStates col s.core ops = some cs) (k : Nat) (c : Core) (hk : cs[k]? = some c)
    (w : WImg) (hw : view native E c = some w) (ext : List (List (List Nat) × Arr)) (hok : w.Ok K N X ext)
    (out es : List Event) (ho : outs[k]? = some out) (hes : canon es = canon out) :
    run K X es = .ok (some (w.parsed ext)) := by
  obtain ⟨cs', h1, _, h3⟩ := history_kth_output N native E col s ops outs h
  rw [hcs] at h1
  cases h1
  obtain ⟨w', hw', ho'⟩ := h3 k c hk
  rw [hw] at hw'
  cases hw'
  rw [ho] at ho'
  cases ho'
  exact image_xml_roundtrip K X N w ext hok es hes

/-- an in-place edit (`img.darrays[pos].data[...] = v`) is in the next output, at every position of the image whose
    data array holds that ndarray (the same object added twice, two data arrays sharing one ndarray) -/
theorem inplace_edit_reaches_every_holder (native : Nat) (E : DataEnc) (c : Core) (pos id : Nat) (d : DObj) (a : NdArr)
    (elems : List Nat) (hp : c.darrays[pos]? = some id) (hd : c.das id = some d) (ha : c.nds d.data = some a)
    (hl : elems.length = a.elems.length) :
    ∃ c', applyCore c (.editNd pos elems) = some c' ∧ c'.darrays = c.darrays ∧
      ∀ id2 d2, c.das id2 = some d2 → d2.data = d.data →
        (viewDA native E c' id2).map (·.dataText) = some (E d2.encoding d2.datatype d2.indOrd { a with elems := elems }) := by
  obtain ⟨c', h1, h2, h3⟩ := viewDA_editNd native E c pos id d a elems hp hd ha hl
  exact ⟨c', h1, h2, fun id2 d2 hd2 he => by rw [h3 id2 d2 hd2, if_pos he]; rfl⟩

/-- the `endian` attribute of a data array never reaches an output (the writer overwrites it first) -/
theorem endian_attribute_invisible (N : WNames) (native : Nat) (E : DataEnc) (col : Nat → Option Bool) (c : Core)
    (e e' : Nat → Nat) (ops : List Op) :
    runLit N native E col ⟨c, e⟩ ops = runLit N native E col ⟨c, e'⟩ ops :=
  (serialise_depends_on_current_state_only N native E col ⟨c, e'⟩ ops).2 ⟨c, e⟩ rfl

/-- non-vacuity: one uint8 array held by the SAME data array object at two positions; write, edit in place, write —
    the two outputs carry the old and the new values respectively, at both positions -/
def exHist : List Op :=
  [.newNd 1 ⟨2, [2], [1, 7]⟩,
   .newDA 2 { data := 1, intent := 1008, datatype := 2, indOrd := 1, encoding := 1, dims := [2], extFname := [],
              extOffset := 0, dmeta := [], coordsys := ⟨0, 0, ['1']⟩ } 1,
   .add 2, .add 2, .ser, .editNd 0 [182, 223], .ser]

def exEnc : DataEnc := fun _ _ _ a => a.elems.map Char.ofNat

example : (serStates (fun _ => some false) {} exHist).map
      (·.map (fun c => (view 2 exEnc c).map (·.darrays.map (·.dataText))))
    = some [some [[Char.ofNat 1, Char.ofNat 7], [Char.ofNat 1, Char.ofNat 7]],
            some [[Char.ofNat 182, Char.ofNat 223], [Char.ofNat 182, Char.ofNat 223]]] := by
  rfl

example : ((runLit Gen.names 2 exEnc (fun _ => some false) {} exHist).map List.length) = some 2 := by rfl

/-! ## container methods TRANSLATED from the working tree on every run (Generated/C17Funcs.lean via
    harness/py2lean_c17.py): the source text itself, statement by statement, computes the container model -/

/-- `GiftiImage.get_arrays_from_intent` as TRANSLATED from the current source, run on any list of data array objects
    (as `(id, intent)` tuples) with any intent argument (int code or alias) and the Recoder lookup over ANY tables,
    returns exactly what the model's `getArraysFromIntentArg` returns; a failing lookup raises and nothing else
    happens. -/
theorem gen_get_arrays_from_intent (K : Codes) (l : List DA) (a : IntentArg) :
    Nb.Gen.C17F.get_arrays_from_intent (GenF.icOf K) (GenF.encL l) (GenF.encArg a) =
      match getArraysFromIntentArg K l a with
      | .ok r => .ok (GenF.encL r)
      | .error _ => .error .indexError := by
  have h := GenF.icOf_enc K a
  obtain ⟨h1, h2⟩ := GenF.get_arrays_from_intent_eq (GenF.icOf K) l (GenF.encArg a)
  unfold getArraysFromIntentArg getArraysFromIntentArgIn
  unfold resolveIntent at h
  cases hr : resolveIntentIn K.intent K.intentCodes a with
  | none => rw [hr] at h; simpa using h2 _ h
  | some c => rw [hr] at h; simpa using h1 c h

/-- `GiftiImage.remove_gifti_data_array_by_intent` as TRANSLATED from the current source leaves `self.darrays` equal to
    the model's `removeByIntentArg` (the filter); a failing lookup raises before anything is touched. -/
theorem gen_remove_by_intent (K : Codes) (l : List DA) (a : IntentArg) :
    Nb.Gen.C17F.remove_gifti_data_array_by_intent (GenF.icOf K) (GenF.encL l) (GenF.encArg a) =
      match removeByIntentArg K l a with
      | .ok r => .ok (GenF.encL r)
      | .error _ => .error .indexError := by
  have h := GenF.icOf_enc K a
  obtain ⟨h1, h2⟩ := GenF.remove_by_intent_eq (GenF.icOf K) l (GenF.encArg a)
  unfold removeByIntentArg removeByIntentArgIn
  unfold resolveIntent at h
  cases hr : resolveIntentIn K.intent K.intentCodes a with
  | none => rw [hr] at h; simpa using h2 _ h
  | some c => rw [hr] at h; simpa using h1 c h

/-- `GiftiImage.numDA` as TRANSLATED from the current source is the length of `darrays` -/
theorem gen_numDA (l : List DA) : Nb.Gen.C17F.numDA (GenF.encL l) = .ok (.int (l.length : Nat)) :=
  GenF.numDA_eq l

/-- non-vacuity over the regenerated tables: adjacent matches, argument given as alias / as code 0 / unknown -/
example : Nb.Gen.C17F.remove_gifti_data_array_by_intent (GenF.icOf Gen.codes)
      (GenF.encL [⟨0, 1008⟩, ⟨1, 1008⟩, ⟨2, 0⟩, ⟨3, 1008⟩]) (GenF.encArg (.name "pointset".toList))
    = .ok (GenF.encL [⟨2, 0⟩]) := by
  rw [gen_remove_by_intent]; rfl

example : Nb.Gen.C17F.get_arrays_from_intent (GenF.icOf Gen.codes) (GenF.encL [⟨0, 1008⟩, ⟨1, 0⟩]) (GenF.encArg (.code 0))
    = .ok (GenF.encL [⟨1, 0⟩]) := by
  rw [gen_get_arrays_from_intent]; rfl

example : Nb.Gen.C17F.get_arrays_from_intent (GenF.icOf Gen.codes) (GenF.encL [⟨0, 1008⟩]) (GenF.encArg (.code 999999))
    = .error .indexError := by
  rw [gen_get_arrays_from_intent]; rfl

end Nb.C17
