import NibabelModel.Model.C17
/-! Props/C17 — the property theorems for C17 (statements + proofs; helper lemmas live in Lemmas/). -/
namespace Nb.C17

end Nb.C17
