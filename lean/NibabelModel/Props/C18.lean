import NibabelModel.Model.C18
/-! Props/C18 — the property theorems for C18 (statements + proofs; helper lemmas live in Lemmas/). -/
namespace Nb.C18

end Nb.C18
