import NibabelModel.Model.C18
import NibabelModel.Lemmas.PySlice
import NibabelModel.Lemmas.C18
import NibabelModel.Lemmas.C18_Map
import NibabelModel.Lemmas.C18_Add
import NibabelModel.Lemmas.C18_Meta
import NibabelModel.Lemmas.C18_Gen
/-!
  Props/C18 — property theorems for C18 (CIFTI-2 axes, header XML and matrix data stay mutually
  consistent).  All statements are unbounded (any axis length, any index object, any slice).

  * SeriesAxis: slicing / int indexing / concatenation describe exactly the indexed / concatenated
    list of time points (`series_*`), and the pinned arithmetic did not (`series_orig_counterexample`).
  * list-backed axes (Scalar/Label/Parcels/BrainModel): indexing the parallel arrays one by one and
    re-running the constructor yields exactly the gather of the element descriptions at the NumPy
    positions (`*_index_is_gather`, `positions_lt`, `gather_getElem`, `slice_positions_length`,
    `int_index_is_element`); concatenation concatenates (`concat_lengths`, `bm_add_elements`).
  * BrainModelAxis runs: `iter_structures` tiles the axis by maximal runs whose expansion is the name
    list, and `from_index_mapping ∘ to_mapping` is the identity on element descriptions
    (`runs_*`, `scatter_runs`, `bm_mapping_roundtrip`).

  * to_mapping / from_index_mapping of the OTHER axes (phase-3 extension): `series_mapping_roundtrip`,
    `scalar_mapping_roundtrip`, `label_mapping_roundtrip` (explicit label tables = dicts with unique keys),
    `label_xml_roundtrip` + `label_colour_xml` (the colour text `'0' / '1' / str(val)` of `Cifti2Label`, under
    the contract float(str(v)) = v), `parcels_mapping_roundtrip` (EVERY `nvertices` entry survives, used or
    not; the refusal for a structure without `nvertices` entry is shown by an `example`);
    `dispatch_roundtrip` over the tables regenerated from the source; `parcels_add_ok_iff`.
  * metadata dicts through the XML text (wave-3 extension): `meta_xml_roundtrip` (every dict without outer
    whitespace — EMPTY values and the empty key included — comes back identical, entry order included),
    `meta_xml_spec` (ANY dict: the result is the dict of stripped entries, last one wins),
    `scalarm_xml_roundtrip` (a scalar axis with explicit per-map metadata), `meta_xml_empty_value_kept`.
  * the SeriesAxis methods TRANSLATED from the working tree each run (`Generated/C18Funcs.lean`, py2lean_c18):
    `gen_series_eq_model` (get_element / __getitem__ on slices, ints and anything else / __add__ equal the model
    for all inputs) and the property clauses restated on the translated code: `gen_series_getitem_spec`,
    `gen_series_int_spec`, `gen_series_add_spec`.
  * `positions_lt`, `slice_positions_length`, `gather_getElem`, `bm_valid_of_mk` are GLUE (helper facts /
    definitional bridges), kept because other statements are read through them.

  PARTIAL with respect to the property text: the XML text layer (expat / ElementTree, float repr, the 10-decimal
  affine text) and the NIfTI-2 container are not modelled (trusted/external contract; exercised by the
  round-trip oracle and the `xrt` correspondence streams only).
-/
namespace Nb.C18
open Nb

/-! ## SeriesAxis -/

/-- `axis[slice]` for EVERY start/step/size and every valid slice: the time points of the new axis are
    exactly `axis.time[slice]` (values and length), the unit is kept. -/
theorem series_getitem_spec (a : Series) (s : PySlice) (hv : s.Valid) :
    ∃ r, seriesGetSlice a s = .ok r ∧ r.elements = s.apply a.elements ∧
      r.size = s.len a.size ∧ r.unit = a.unit := by
  have hv' : ¬ s.stepVal = 0 := hv
  refine ⟨⟨(s.indices a.size).1 * a.step + a.start, a.step * (s.indices a.size).2.2,
    rangeLen (s.indices a.size).1 (s.indices a.size).2.1 (s.indices a.size).2.2, a.unit⟩,
    by simp only [seriesGetSlice, hv', if_false], ?_, rfl, rfl⟩
  simp only [Series.elements, PySlice.apply, PySlice.sel, rangeInts_length]
  simp only [rangeInts, List.filterMap_map, List.map_map]
  symm
  apply filterMap_range_eq_map
  intro k hk
  have hb := PySlice.rangeInts_mem_bounds s a.size hv k hk
  have hst : (s.indices a.size).2.2 = s.stepVal := rfl
  simp only [Function.comp]
  rw [hst]
  have hlt : ((s.indices a.size).1 + (k : Int) * s.stepVal).toNat < a.size := by omega
  have : (List.map (fun (k : Nat) => a.start + (k : Int) * a.step) (List.range a.size))[((s.indices a.size).1 + (k : Int) * s.stepVal).toNat]?
      = some (a.start + (((s.indices a.size).1 + (k : Int) * s.stepVal).toNat : Int) * a.step) := by
    simp [hlt]
  rw [this]
  have e : ((((s.indices a.size).1 + (k : Int) * s.stepVal).toNat : Nat) : Int) = (s.indices a.size).1 + (k : Int) * s.stepVal := by omega
  rw [e]
  congr 1
  grind


example : (⟨none, none, some 2⟩ : PySlice).Valid ∧
    (seriesGetSlice ⟨0, 1, 5, 0⟩ ⟨none, none, some 2⟩).map Series.elements = .ok [0, 2, 4] := by decide

/-- the length alone: `len(axis[slice]) = len(range(n)[slice])` -/
theorem series_getitem_length (a : Series) (s : PySlice) (hv : s.Valid) :
    ∃ r, seriesGetSlice a s = .ok r ∧ r.size = (s.sel a.size).length ∧
      r.elements.length = (s.apply a.elements).length := by
  obtain ⟨r, h1, h2, h3, _⟩ := series_getitem_spec a s hv
  exact ⟨r, h1, by rw [h3, PySlice.sel_length], by rw [h2]⟩

/-- a zero step is refused (ValueError, like `slice.indices`) -/
theorem series_getitem_step0 (a : Series) (s : PySlice) (h : ¬ s.Valid) :
    seriesGetSlice a s = .error .valueError := by
  have : s.stepVal = 0 := by unfold PySlice.Valid at h; omega
  simp [seriesGetSlice, this]

/-- `axis[i]` for every Python int `i` (negative and out-of-range included): the same element as
    `list(axis.time)[i]`, or IndexError exactly when the list raises IndexError. -/
theorem series_int_spec (a : Series) (i : Int) :
    seriesGetElement a i = npGet a.elements i := by
  unfold seriesGetElement npGet pyIntIndex
  simp only [Series.elements, rangeInts_length]
  by_cases h1 : 0 ≤ i ∧ i < (a.size : Int)
  · have hk : i.toNat < a.size := by omega
    have h2 : ¬ i < 0 := by omega
    have h3 : ¬ (i ≥ (a.size : Int) ∨ i < 0) := by omega
    simp only [h1, h2, and_self, if_true, if_false, rangeInts_getElem? _ _ _ _ hk]
    have e : ((i.toNat : Nat) : Int) = i := by omega
    rw [e]; congr 1; grind
  · by_cases h2 : i < 0 ∧ 0 ≤ i + (a.size : Int)
    · have hk : (i + (a.size : Int)).toNat < a.size := by omega
      have h3 : ¬ ((a.size : Int) + i ≥ (a.size : Int) ∨ (a.size : Int) + i < 0) := by omega
      simp only [h1, h2, h3, and_self, if_true, if_false, rangeInts_getElem? _ _ _ _ hk]
      have e : (((i + (a.size : Int)).toNat : Nat) : Int) = i + a.size := by omega
      rw [e]; congr 1; grind
    · simp only [h1, h2, if_false]
      by_cases h4 : i < 0
      · have h3 : (a.size : Int) + i < 0 := by omega
        simp only [h4, h3, if_true, or_true]
      · have h3 : i ≥ (a.size : Int) := by omega
        simp only [h4, h3, if_false, if_true, true_or]

example : seriesGetElement ⟨3, 2, 4, 0⟩ (-1) = .ok 9 ∧ seriesGetElement ⟨3, 2, 4, 0⟩ 4 = .error .indexError ∧
    seriesGetElement ⟨3, 2, 4, 0⟩ (-5) = .error .indexError := by decide

/-- `a + b`: refused unless step and unit agree; otherwise the result has `len a + len b` points that
    continue `a` with its own step (the start of `b` is ignored, as documented), and it is the
    concatenation of the two time lists exactly when `b` starts where `a` ends. -/
theorem series_add_spec (a b : Series) :
    (b.step = a.step ∧ b.unit = a.unit →
      ∃ r, seriesAdd a b = .ok r ∧ r.size = a.size + b.size ∧ r.unit = a.unit ∧
        r.elements = a.elements ++ rangeInts (a.start + (a.size : Int) * a.step) b.step b.size ∧
        (b.start = a.start + (a.size : Int) * a.step → r.elements = a.elements ++ b.elements)) ∧
    (¬ (b.step = a.step ∧ b.unit = a.unit) → seriesAdd a b = .error .valueError) := by
  constructor
  · rintro ⟨h1, h2⟩
    have hel : (⟨a.start, a.step, a.size + b.size, a.unit⟩ : Series).elements
        = a.elements ++ rangeInts (a.start + (a.size : Int) * a.step) b.step b.size := by
      simp only [Series.elements, rangeInts, List.range_add, List.map_append, List.map_map, h1]
      congr 1
      apply List.map_congr_left
      intro k _
      simp only [Function.comp]
      have : ((a.size + k : Nat) : Int) = (a.size : Int) + k := by omega
      rw [this]; grind
    refine ⟨⟨a.start, a.step, a.size + b.size, a.unit⟩, by simp [seriesAdd, h1, h2], rfl, rfl, hel, ?_⟩
    intro hs
    rw [hel, Series.elements, Series.elements, hs]
  · intro h
    unfold seriesAdd
    by_cases h1 : b.step = a.step
    · have h2 : b.unit ≠ a.unit := fun h2 => h ⟨h1, h2⟩
      simp [h1, h2]
    · simp [h1]

example : seriesAdd ⟨0, 2, 3, 1⟩ ⟨6, 2, 2, 1⟩ = .ok ⟨0, 2, 5, 1⟩ := by decide

/-- the pinned (pre-`fix:`) arithmetic: `SeriesAxis(0,1,5)[::2]` had 2 elements (3 are selected), and a
    start below `-size` was not clamped (`[-7:]`). -/
theorem series_orig_counterexample :
    (seriesGetSliceOrig ⟨0, 1, 5, 0⟩ ⟨none, none, some 2⟩).size = 2 ∧
    ((⟨none, none, some 2⟩ : PySlice).apply (⟨0, 1, 5, 0⟩ : Series).elements).length = 3 ∧
    (seriesGetSliceOrig ⟨0, 1, 5, 0⟩ ⟨some (-7), none, none⟩).elements ≠
      (⟨some (-7), none, none⟩ : PySlice).apply (⟨0, 1, 5, 0⟩ : Series).elements := by
  decide


/-! ## list-backed axes: indexing is a gather of the element descriptions -/

/-- GLUE (helper fact used by the `*_index_is_gather` theorems, not a property clause by itself):
    every position selected by a NumPy index on a length-`n` axis is `< n` -/
theorem positions_lt (n : Nat) (idx : Index) (ps : List Nat) (h : positions n idx = .ok ps) :
    ∀ p ∈ ps, p < n := positions_lt' n idx ps h

example : positions 5 (.slice ⟨some (-9), none, some 2⟩) = .ok [0, 2, 4] ∧
    positions 3 (.arr [-1, 0]) = .ok [2, 0] ∧ positions 3 (.mask [true, false, true]) = .ok [0, 2] ∧
    positions 3 (.arr [3]) = .error .indexError ∧ positions 3 (.mask [true]) = .error .indexError := by
  decide

/-- GLUE (helper fact): a slice selects `len(range(n)[s])` positions -/
theorem slice_positions_length (n : Nat) (s : PySlice) (ps : List Nat)
    (h : positions n (.slice s) = .ok ps) : ps.length = s.len n := by
  simp only [positions] at h
  split at h
  · cases h
  · injection h with h; subst h; exact PySlice.sel_length s n

/-- GLUE (helper fact about the specification function `gather`):
    the `k`-th element of a gather is the element at the `k`-th position (so, with the theorems
    below, element `k` of `axis[idx]` is element `positions[k]` of `axis`) -/
theorem gather_getElem {α} (l : List α) (ps : List Nat) (h : ∀ p ∈ ps, p < l.length)
    (k : Nat) (hk : k < ps.length) :
    (gather l ps).length = ps.length ∧ (gather l ps)[k]? = l[ps[k]]? :=
  ⟨gather_length l ps h, gather_getElem? l ps h k hk⟩

/-- ScalarAxis: for EVERY axis and index object, `axis[idx]` fails exactly when NumPy refuses the
    index, and otherwise its element descriptions are the gather of the original ones. -/
theorem scalar_index_is_gather (a : Scalar) (hv : a.mta.length = a.name.length) (idx : Index) :
    match positions a.size idx with
    | .ok ps => ∃ r, scalarGetitem a idx = .ok r ∧ r.elements = gather a.elements ps ∧
        r.size = ps.length ∧ r.mta.length = r.name.length
    | .error e => scalarGetitem a idx = .error e := by
  cases h : positions a.size idx with
  | error e =>
    simp only [scalarGetitem, npTake_error a.name idx e h]
    rfl
  | ok ps =>
    have hlt := positions_lt' _ _ _ h
    have h2 : positions a.mta.length idx = .ok ps := by rw [hv]; exact h
    have hl1 := gather_length a.name ps hlt
    have hl2 := gather_length a.mta ps (by rw [hv]; exact hlt)
    refine ⟨⟨gather a.name ps, gather a.mta ps⟩, ?_, ?_, hl1, by simp [hl1, hl2]⟩
    · simp only [scalarGetitem, npTake_ok a.name idx ps h, npTake_ok a.mta idx ps h2]
      simp [scalarMk, hl1, hl2, bind, Except.bind]
    · simp only [Scalar.elements]
      rw [gather_zip _ _ hv.symm]


example : (scalarGetitem ⟨[1, 2, 3], [4, 5, 6]⟩ (.arr [2, 0])).map Scalar.elements = .ok [(3, 6), (1, 4)] := by
  decide

/-- LabelAxis -/
theorem label_index_is_gather (a : Label) (h1 : a.label.length = a.name.length)
    (h2 : a.mta.length = a.name.length) (idx : Index) :
    match positions a.size idx with
    | .ok ps => ∃ r, labelGetitem a idx = .ok r ∧ r.elements = gather a.elements ps ∧
        r.size = ps.length ∧ r.label.length = r.name.length ∧ r.mta.length = r.name.length
    | .error e => labelGetitem a idx = .error e := by
  cases h : positions a.size idx with
  | error e =>
    simp only [labelGetitem, npTake_error a.name idx e h]
    rfl
  | ok ps =>
    have hlt := positions_lt' _ _ _ h
    have p2 : positions a.label.length idx = .ok ps := by rw [h1]; exact h
    have p3 : positions a.mta.length idx = .ok ps := by rw [h2]; exact h
    have hl1 := gather_length a.name ps hlt
    have hl2 := gather_length a.label ps (by rw [h1]; exact hlt)
    have hl3 := gather_length a.mta ps (by rw [h2]; exact hlt)
    refine ⟨⟨gather a.name ps, gather a.label ps, gather a.mta ps⟩, ?_, ?_, hl1, by simp [hl1, hl2],
      by simp [hl1, hl3]⟩
    · simp only [labelGetitem, npTake_ok a.name idx ps h, npTake_ok a.label idx ps p2,
        npTake_ok a.mta idx ps p3]
      simp [labelMk, hl1, hl2, hl3, bind, Except.bind]
    · simp only [Label.elements]
      rw [gather_zip3 _ _ _ h1 h2]

example : (labelGetitem ⟨[1, 2, 3], [7, 8, 9], [4, 5, 6]⟩ (.mask [true, false, true])).map Label.elements
    = .ok [(1, 7, 4), (3, 9, 6)] := by decide

/-- ParcelsAxis (affine, volume shape and nvertices are carried over unchanged) -/
theorem parcels_index_is_gather (a : Parcels) (h1 : a.voxels.length = a.name.length)
    (h2 : a.vertices.length = a.name.length) (idx : Index) :
    match positions a.size idx with
    | .ok ps => ∃ r, parcelsGetitem a idx = .ok r ∧ r.elements = gather a.elements ps ∧
        r.size = ps.length ∧ r.voxels.length = r.name.length ∧ r.vertices.length = r.name.length ∧
        r.affine = a.affine ∧ r.shape = a.shape ∧ r.nvertices = a.nvertices
    | .error e => parcelsGetitem a idx = .error e := by
  cases h : positions a.size idx with
  | error e =>
    simp only [parcelsGetitem, npTake_error a.name idx e h]
    rfl
  | ok ps =>
    have hlt := positions_lt' _ _ _ h
    have p2 : positions a.voxels.length idx = .ok ps := by rw [h1]; exact h
    have p3 : positions a.vertices.length idx = .ok ps := by rw [h2]; exact h
    have hl1 := gather_length a.name ps hlt
    have hl2 := gather_length a.voxels ps (by rw [h1]; exact hlt)
    have hl3 := gather_length a.vertices ps (by rw [h2]; exact hlt)
    refine ⟨⟨gather a.name ps, gather a.voxels ps, gather a.vertices ps, a.affine, a.shape, a.nvertices⟩,
      ?_, ?_, hl1, by simp [hl1, hl2], by simp [hl1, hl3], rfl, rfl, rfl⟩
    · simp only [parcelsGetitem, npTake_ok a.name idx ps h, npTake_ok a.voxels idx ps p2,
        npTake_ok a.vertices idx ps p3]
      simp [parcelsMk, hl1, hl2, hl3, bind, Except.bind]
    · simp only [Parcels.elements]
      rw [gather_zip3 _ _ _ h1 h2]


example : (parcelsGetitem ⟨[1, 2, 3], [7, 8, 9], [4, 5, 6], some 1, some (2, 2, 2), [(0, 4)]⟩
    (.slice ⟨none, none, some (-2)⟩)).map Parcels.elements = .ok [(3, 9, 6), (1, 7, 4)] := by decide

/-- BrainModelAxis: the three parallel arrays are gathered, `nvertices` is pruned to the structures
    still present, and the constructor checks are re-run.  For every VALID axis (`BM.Valid` is what the
    constructor establishes, `bm_valid_of_mk`) and every index: NumPy's refusal is passed on, an EMPTY
    selection is refused with ValueError (np.vectorize on a size-0 array — see known findings), and any
    non-empty selection succeeds, is valid again, and describes exactly the gathered elements
    (pruning never changes a surviving element from surface to voxel or back). -/
theorem bm_index_is_gather (a : BM) (hv : a.Valid) (idx : Index) :
    match positions a.size idx with
    | .ok ps =>
        if ps = [] then bmGetitem a idx = .error .valueError
        else ∃ r, bmGetitem a idx = .ok r ∧ r.elements = gather a.elements ps ∧
          r.size = ps.length ∧ r.Valid
    | .error e => bmGetitem a idx = .error e := by
  cases h : positions a.size idx with
  | error e =>
    simp only [bmGetitem, npTake_error a.name idx e h]
    rfl
  | ok ps =>
    have hlt := positions_lt' _ _ _ h
    have h2 : positions a.voxel.length idx = .ok ps := by rw [hv.lvox]; exact h
    have h3 : positions a.vertex.length idx = .ok ps := by rw [hv.lvert]; exact h
    have hl1 := gather_length a.name ps hlt
    have hl2 := gather_length a.voxel ps (by rw [hv.lvox]; exact hlt)
    have hl3 := gather_length a.vertex ps (by rw [hv.lvert]; exact hlt)
    have hget : bmGetitem a idx = bmMk (gather a.name ps) (gather a.voxel ps) (gather a.vertex ps)
        a.affine a.shape a.nvertices := by
      simp only [bmGetitem, npTake_ok a.name idx ps h, npTake_ok a.voxel idx ps h2,
        npTake_ok a.vertex idx ps h3]
      rfl
    by_cases hps : ps = []
    · simp only [hps, if_true]
      rw [hget, hps]
      simp [gather, bmMk]
    · simp only [hps, if_false]
      have hne : gather a.name ps ≠ [] := by
        intro hh; rw [hh] at hl1; simp at hl1; exact hps (List.eq_nil_of_length_eq_zero hl1.symm)
      have hflags : surfFlags a.nvertices (gather a.name ps)
          = gather (surfFlags a.nvertices a.name) ps := by
        simp only [surfFlags, gather_map]
      have hfl : (surfFlags a.nvertices a.name).length = a.name.length := by simp [surfFlags]
      have hvert : vertBad (surfFlags a.nvertices (gather a.name ps)) (gather a.vertex ps) = false := by
        rw [hflags]; unfold vertBad
        rw [← gather_zip _ _ (by rw [hfl, hv.lvert])]
        exact any_gather_false _ _ _ hv.vertOk
      have hvox : voxBad (surfFlags a.nvertices (gather a.name ps)) (gather a.voxel ps) = false := by
        rw [hflags]; unfold voxBad
        rw [← gather_zip _ _ (by rw [hfl, hv.lvox])]
        exact any_gather_false _ _ _ hv.voxOk
      have hvol : (surfFlags a.nvertices (gather a.name ps)).all id = false →
          a.affine.isSome ∧ a.shape.isSome := by
        intro hall
        apply hv.vol
        rw [hflags] at hall
        rw [List.all_eq_false] at hall ⊢
        obtain ⟨x, hx, hxf⟩ := hall
        exact ⟨x, gather_subset _ _ x hx, hxf⟩
      have hok := bmMk_ok (gather a.name ps) (gather a.voxel ps) (gather a.vertex ps) a.affine a.shape
        a.nvertices hne (by omega) (by omega) hvert hvox hvol
      refine ⟨_, by rw [hget]; exact hok, ?_, by simpa [BM.size] using hl1, bmMk_valid _ _ _ _ _ _ _ hok⟩
      simp only [BM.elements, elements_prune]
      rw [gather_map, gather_zip3 _ _ _ hv.lvox hv.lvert]


example : (bmGetitem ⟨[0, 1, 0], [(-1, -1, -1), (0, 1, 2), (-1, -1, -1)], [3, -1, 0], some 7, some (2, 3, 4), [(0, 4)]⟩
    (.arr [-1, 0])).map (fun r => (r.elements, r.nvertices, r.affine)) = .ok ([.surf 0 0, .surf 0 3], [(0, 4)], none) := by
  decide

/-- the hypothesis `BM.Valid` is exactly what a successful constructor call gives -/
theorem bm_valid_of_mk (name : List Nat) (voxel : List Vox) (vertex : List Int) (aff : Option Nat)
    (shp : Option Shape) (nv : Dict) (r : BM) (h : bmMk name voxel vertex aff shp nv = .ok r) :
    r.Valid := bmMk_valid name voxel vertex aff shp nv r h

example : (bmMk [0, 1, 0] [(-1, -1, -1), (0, 1, 2), (-1, -1, -1)] [3, -1, 0] (some 7) (some (2, 3, 4))
    [(0, 4), (5, 9)]).map (fun r => (r.nvertices, r.elements)) =
    .ok ([(0, 4)], [.surf 0 3, .vox 1 (0, 1, 2), .surf 0 0]) := by decide

/-- the empty selection is refused -/
theorem bm_index_empty_refused (a : BM) (hv : a.Valid) (idx : Index)
    (h : positions a.size idx = .ok []) : bmGetitem a idx = .error .valueError := by
  have := bm_index_is_gather a hv idx
  rw [h] at this
  simpa using this

/-- `axis[i]` for a Python int on each list-backed axis is element `i` of the description list
    (NumPy int indexing: negative wraps once, out of range raises IndexError) -/
theorem scalar_int (a : Scalar) (hv : a.mta.length = a.name.length) (i : Int) :
    scalarGetElement a i = npGet a.elements i := by
  rw [Scalar.elements, npGet_zip _ _ hv]; rfl

theorem label_int (a : Label) (h1 : a.label.length = a.name.length) (h2 : a.mta.length = a.name.length)
    (i : Int) : labelGetElement a i = npGet a.elements i := by
  rw [Label.elements, npGet_zip3 _ _ _ h1 h2]; rfl

theorem parcels_int (a : Parcels) (h1 : a.voxels.length = a.name.length)
    (h2 : a.vertices.length = a.name.length) (i : Int) :
    parcelsGetElement a i = npGet a.elements i := by
  rw [Parcels.elements, npGet_zip3 _ _ _ h1 h2]; rfl

theorem bm_int (a : BM) (hv : a.Valid) (i : Int) : bmGetElement a i = npGet a.elements i := by
  rw [BM.elements, npGet_map, npGet_zip3 _ _ _ hv.lvox hv.lvert]
  unfold bmGetElement
  cases h : pyIntIndex a.name.length i with
  | none =>
    rw [npGet_none _ _ h]; rfl
  | some k =>
    obtain ⟨k1, e1⟩ := npGet_some a.name i k h
    obtain ⟨k2, e2⟩ := npGet_some a.voxel i k (by rw [hv.lvox]; exact h)
    obtain ⟨k3, e3⟩ := npGet_some a.vertex i k (by rw [hv.lvert]; exact h)
    rw [e1, e2, e3]
    simp only [bind, Except.bind, pure, Except.pure, Except.map, bmElem]
    split <;> simp_all


theorem int_index_is_element :
    (∀ (a : Scalar) (i : Int), a.mta.length = a.name.length → scalarGetElement a i = npGet a.elements i) ∧
    (∀ (a : Label) (i : Int), a.label.length = a.name.length → a.mta.length = a.name.length →
      labelGetElement a i = npGet a.elements i) ∧
    (∀ (a : Parcels) (i : Int), a.voxels.length = a.name.length → a.vertices.length = a.name.length →
      parcelsGetElement a i = npGet a.elements i) ∧
    (∀ (a : BM) (i : Int), a.Valid → bmGetElement a i = npGet a.elements i) :=
  ⟨fun a i h => scalar_int a h i, fun a i h1 h2 => label_int a h1 h2 i,
   fun a i h1 h2 => parcels_int a h1 h2 i, fun a i h => bm_int a h i⟩

example : npGet [10, 20, 30] (-1) = .ok 30 ∧ npGet [10, 20, 30] 3 = (.error .indexError : Except Err Nat) := by
  decide

/-! ## concatenation -/

/-- concatenation of the id-list axes -/
theorem concat_lengths :
    (∀ a b : Scalar, a.mta.length = a.name.length → b.mta.length = b.name.length →
      ∃ r, scalarAdd a b = .ok r ∧ r.size = a.size + b.size ∧ r.elements = a.elements ++ b.elements) ∧
    (∀ a b : Label, a.label.length = a.name.length → a.mta.length = a.name.length →
      b.label.length = b.name.length → b.mta.length = b.name.length →
      ∃ r, labelAdd a b = .ok r ∧ r.size = a.size + b.size ∧ r.elements = a.elements ++ b.elements) ∧
    (∀ (a b : Parcels) (r : Parcels), a.voxels.length = a.name.length → a.vertices.length = a.name.length →
      parcelsAdd a b = .ok r → r.size = a.size + b.size ∧ r.elements = a.elements ++ b.elements) := by
  refine ⟨?_, ?_, ?_⟩
  · intro a b ha hb
    refine ⟨⟨a.name ++ b.name, a.mta ++ b.mta⟩, by simp [scalarAdd, scalarMk, ha, hb], by simp [Scalar.size], ?_⟩
    simp only [Scalar.elements]
    rw [List.zip_append ha.symm]
  · intro a b h1 h2 h3 h4
    refine ⟨⟨a.name ++ b.name, a.label ++ b.label, a.mta ++ b.mta⟩,
      by simp [labelAdd, labelMk, h1, h2, h3, h4], by simp [Label.size], ?_⟩
    simp only [Label.elements]
    rw [zip3_append _ _ _ _ _ _ h1 h2]
  · intro a b r h1 h2 h
    unfold parcelsAdd at h
    cases hm : mergeVolume a.affine a.shape b.affine b.shape with
    | error e => simp [hm, bind, Except.bind] at h
    | ok vs =>
      cases hn : mergeNv a.nvertices b.nvertices with
      | error e => simp [hm, hn, bind, Except.bind] at h
      | ok nv =>
        simp only [hm, hn, bind, Except.bind, parcelsMk] at h
        split at h
        · injection h with h; subst h
          refine ⟨by simp [Parcels.size], ?_⟩
          simp only [Parcels.elements]
          rw [zip3_append _ _ _ _ _ _ h1 h2]
        · cases h


/-- `a + b` on brain models: whenever it succeeds the length is the sum, and — provided no structure
    is a volume in one operand and a surface in the other — the element descriptions are concatenated. -/
theorem bm_add_elements (a b r : BM) (ha : a.Valid) (h : bmAdd a b = .ok r)
    (hab : ∀ x ∈ a.name, dictHas b.nvertices x = true → dictHas a.nvertices x = true)
    (hba : ∀ x ∈ b.name, dictHas a.nvertices x = true → dictHas b.nvertices x = true) :
    r.size = a.size + b.size ∧ r.elements = a.elements ++ b.elements ∧ r.Valid := by
  unfold bmAdd at h
  cases hm : mergeVolume a.affine a.shape b.affine b.shape with
  | error e => simp [hm, bind, Except.bind] at h
  | ok vs =>
    cases hn : mergeNv a.nvertices b.nvertices with
    | error e => simp [hm, hn, bind, Except.bind] at h
    | ok nv =>
      simp only [hm, hn, bind, Except.bind] at h
      obtain ⟨f1, f2, f3, f4⟩ := bmMk_fields _ _ _ _ _ _ _ h
      have hhas := mergeNv_has _ _ _ hn
      refine ⟨by simp [BM.size, f1], ?_, bmMk_valid _ _ _ _ _ _ _ h⟩
      simp only [BM.elements, f1, f2, f3, f4, elements_prune]
      rw [zip3_append _ _ _ _ _ _ ha.lvox ha.lvert, List.map_append]
      congr 1
      · apply List.map_congr_left
        intro e he
        have hx := mem_zip3_fst _ _ _ e he
        have : dictHas nv e.1 = dictHas a.nvertices e.1 := by
          rw [hhas]
          cases h1 : dictHas a.nvertices e.1 <;> cases h2 : dictHas b.nvertices e.1 <;> simp
          have := hab e.1 hx h2; rw [h1] at this; cases this
        simp only [bmElem, this]
      · apply List.map_congr_left
        intro e he
        have hx := mem_zip3_fst _ _ _ e he
        have : dictHas nv e.1 = dictHas b.nvertices e.1 := by
          rw [hhas]
          cases h1 : dictHas a.nvertices e.1 <;> cases h2 : dictHas b.nvertices e.1 <;> simp
          have := hba e.1 hx h1; rw [h2] at this; cases this
        simp only [bmElem, this]

example : (bmAdd ⟨[0], [(-1, -1, -1)], [2], none, none, [(0, 4)]⟩
      ⟨[1, 0], [(1, 1, 1), (-1, -1, -1)], [-1, 3], some 2, some (2, 2, 2), [(0, 4)]⟩).map BM.elements
    = .ok [.surf 0 2, .vox 1 (1, 1, 1), .surf 0 3] := by decide

example : (scalarAdd ⟨[1], [4]⟩ ⟨[2, 3], [5, 6]⟩).map Scalar.elements = .ok [(1, 4), (2, 5), (3, 6)] ∧
    (parcelsAdd ⟨[1], [7], [4], some 1, some (2, 2, 2), [(0, 4)]⟩ ⟨[2], [8], [5], none, none, [(0, 4), (1, 6)]⟩).map
      (fun r => (r.elements, r.nvertices)) = .ok ([(1, 7, 4), (2, 8, 5)], [(0, 4), (1, 6)]) ∧
    parcelsAdd ⟨[1], [7], [4], none, none, [(0, 4)]⟩ ⟨[2], [8], [5], none, none, [(0, 5)]⟩ = .error .valueError := by
  decide

/-! ## BrainModelAxis runs (iter_structures) -/

/-- expanding the runs of `iter_structures` (name repeated `stop - start` times, in order) gives back
    the name list — for every non-empty list, interleaved structures included -/
theorem runs_roundtrip (names : List Nat) (rs : List Run) (h : runs names = .ok rs) :
    expandRuns rs = names := by
  cases names with
  | nil => simp [runs] at h
  | cons x xs =>
    simp only [runs] at h
    injection h with h; subst h
    simpa using runsGo_expand (x :: xs) x 0 0 (Nat.le_refl 0)

example : runs [0, 0, 1, 0] = .ok [⟨0, 0, 2⟩, ⟨1, 2, 3⟩, ⟨0, 3, 4⟩] := by decide

/-- the run slices tile `[0, len)` with non-empty consecutive intervals -/
theorem runs_tile (names : List Nat) (rs : List Run) (h : runs names = .ok rs) :
    Tiles 0 rs names.length ∧ rs ≠ [] := by
  cases names with
  | nil => simp [runs] at h
  | cons x xs =>
    simp only [runs] at h
    injection h with h; subst h
    simp only [runsGo, ne_eq, not_true_eq_false, if_false]
    constructor
    · have := runsGo_tiles xs x 0 1 (by omega)
      simpa [Nat.add_comm] using this
    · obtain ⟨r, rs, hr, _⟩ := runsGo_head xs x 0 1
      simp [hr]

/-- runs are maximal: neighbouring runs have different structure names -/
theorem runs_maximal (names : List Nat) (rs : List Run) (h : runs names = .ok rs) : Maximal rs := by
  cases names with
  | nil => simp [runs] at h
  | cons x xs =>
    simp only [runs] at h
    injection h with h; subst h
    exact runsGo_maximal _ _ _ _


/-! ## to_mapping / from_index_mapping -/

/-- `to_mapping` on a valid axis emits one brain model per run: offset = run start, count = run length,
    surface/voxel type by membership of the structure in `nvertices`, carrying that run's slice of the
    vertex (resp. voxel) column. -/
theorem to_mapping_spec (a : BM) (hv : a.Valid) :
    ∃ rs, runs a.name = .ok rs ∧
      bmToMapping a = .ok ⟨rs.map (mkRec a),
        if (rs.map (mkRec a)).any (fun r => !r.surf) then some (a.shape, a.affine) else none⟩ := by
  obtain ⟨rs, hruns⟩ := runs_ok_of_ne a.name hv.ne
  have hT := (runs_tile a.name rs hruns).1
  have hbounds := (Tiles_bounds rs 0 _ hT).2
  have hrecs := recsOf_spec a hv rs (fun r hr => ⟨(hbounds r hr).2.1, (hbounds r hr).2.2⟩)
  exact ⟨rs, hruns, by simp only [bmToMapping, hruns, hrecs, bind, Except.bind, pure, Except.pure]⟩

/-- `from_index_mapping (to_mapping axis)` is `axis`: same names, same element descriptions, same
    `nvertices` (as a dict), same affine and volume shape — for every valid brain-model axis, with any
    interleaving of structures. -/
theorem bm_mapping_roundtrip (a : BM) (hv : a.Valid) :
    ∃ m r, bmToMapping a = .ok m ∧ bmFromMapping m = .ok r ∧
      r.name = a.name ∧ r.elements = a.elements ∧
      (∀ x, dictGet r.nvertices x = dictGet a.nvertices x) ∧
      r.affine = a.affine ∧ r.shape = a.shape ∧ r.Valid := by
  obtain ⟨rs, hruns⟩ := runs_ok_of_ne a.name hv.ne
  have hE := runs_roundtrip a.name rs hruns
  have hT := (runs_tile a.name rs hruns).1
  have hbounds := (Tiles_bounds rs 0 _ hT).2
  have hrecs := recsOf_spec a hv rs (fun r hr => ⟨(hbounds r hr).2.1, (hbounds r hr).2.2⟩)
  obtain ⟨hasVox, hV⟩ : ∃ b : Bool, b = (rs.map (mkRec a)).any (fun r => !r.surf) := ⟨_, rfl⟩
  obtain ⟨m, hm⟩ : ∃ m : BMMap, m = ⟨rs.map (mkRec a), if hasVox then some (a.shape, a.affine) else none⟩ :=
    ⟨_, rfl⟩
  have hto : bmToMapping a = .ok m := by
    simp only [bmToMapping, hruns, hrecs, bind, Except.bind, pure, Except.pure]
    rw [← hV, hm]
  obtain ⟨st', e1, e2, e3, e4, e5⟩ := fromLoop_spec a hv rs 0 hT
    ⟨List.replicate a.name.length (-1, -1, -1), List.replicate a.name.length (-1), [], []⟩ [] []
    (by simp) rfl (by simp) rfl
  simp only [List.nil_append] at e2 e3 e4
  rw [hE] at e2
  obtain ⟨c1, c2, c3, c4⟩ := pieces_checks a hv rs 0 hT (by simpa using hE)
  simp only [List.drop_zero, Nat.sub_zero] at c1 c2 c3 c4
  have hflags : surfFlags (nvAfter a [] rs) a.name = surfFlags a.nvertices a.name := by
    unfold surfFlags
    apply List.map_congr_left
    intro x _
    exact (nvFinal_spec a hv rs hE x).1
  -- the volume handed to the constructor
  have hvolarg : (surfFlags a.nvertices a.name).all id = false → hasVox = true := by
    intro hall
    rw [List.all_eq_false] at hall
    obtain ⟨f, hf, hff⟩ := hall
    simp only [surfFlags, List.mem_map] at hf
    obtain ⟨x, hx, hxf⟩ := hf
    rw [← hE] at hx
    obtain ⟨r, hr, hrx⟩ := mem_expandRuns rs x hx
    rw [hV, List.any_eq_true]
    refine ⟨mkRec a r, List.mem_map.mpr ⟨r, hr, rfl⟩, ?_⟩
    simp only [mkRec, hrx, hxf]
    simpa using hff
  obtain ⟨aff, haff⟩ : ∃ x : Option Nat, x = if hasVox then a.affine else none := ⟨_, rfl⟩
  obtain ⟨shp, hshp⟩ : ∃ x : Option Shape, x = if hasVox then a.shape else none := ⟨_, rfl⟩
  obtain ⟨res, hres⟩ : ∃ r : BM, r = ⟨a.name, rs.flatMap (voxPiece a), rs.flatMap (vertPiece a),
    if (surfFlags (nvAfter a [] rs) a.name).all id then none else aff,
    if (surfFlags (nvAfter a [] rs) a.name).all id then none else shp, pruneNv a.name (nvAfter a [] rs)⟩ :=
    ⟨_, rfl⟩
  have hmk : bmMk a.name (rs.flatMap (voxPiece a)) (rs.flatMap (vertPiece a)) aff shp (nvAfter a [] rs)
      = .ok res := by
    rw [hres]
    exact bmMk_ok a.name (rs.flatMap (voxPiece a)) (rs.flatMap (vertPiece a)) aff shp (nvAfter a [] rs)
      hv.ne c4 c3 (by rw [hflags]; exact c1) (by rw [hflags]; exact c2)
      (by
        rw [hflags]; intro hall
        have := hvolarg hall
        rw [haff, hshp]
        simp only [this, if_true]
        exact hv.vol hall)
  have hfrom : bmFromMapping m = .ok res := by
    rw [hm]
    simp only [bmFromMapping, sum_counts a rs 0 _ hT, Nat.sub_zero, e1, bind, Except.bind]
    rw [e2, e3, e4, e5, ← hV]
    cases hb : hasVox
    · have ha : aff = none := by rw [haff, hb]; rfl
      have hs : shp = none := by rw [hshp, hb]; rfl
      rw [ha, hs] at hmk
      simp only [Bool.false_eq_true, if_false]
      exact hmk
    · have ha : aff = a.affine := by rw [haff, hb]; rfl
      have hs : shp = a.shape := by rw [hshp, hb]; rfl
      rw [ha, hs] at hmk
      simp only [if_true]
      exact hmk
  refine ⟨m, res, hto, hfrom, by rw [hres], ?_, ?_, ?_, ?_, bmMk_valid _ _ _ _ _ _ _ hmk⟩
  · have := pieces_elements a hv rs 0 hT (by simpa using hE)
    simp only [List.drop_zero] at this
    rw [hres]
    simp only [BM.elements, elements_prune]
    have hcongr : ∀ (l : List (Nat × Vox × Int)), (∀ e ∈ l, e.1 ∈ a.name) →
        l.map (bmElem (nvAfter a [] rs)) = l.map (bmElem a.nvertices) := by
      intro l hl
      apply List.map_congr_left
      intro e he
      simp only [bmElem, (nvFinal_spec a hv rs hE e.1).1]
    rw [hcongr _ (fun e he => mem_zip3_fst _ _ _ e he), this]
  · intro x
    rw [hres]
    simp only [dictGet_prune]
    split
    · exact (nvFinal_spec a hv rs hE x).2
    · rename_i hx
      have : dictHas a.nvertices x = false := by
        cases h : dictHas a.nvertices x
        · rfl
        · obtain ⟨p, hp, hpx⟩ := (dictHas_iff _ _).mp h
          exact absurd (by rw [← hpx]; exact hv.keys p hp) hx
      rw [dictGet_of_not_has _ _ this]
  · rw [hres]
    simp only [hflags]
    cases hall : (surfFlags a.nvertices a.name).all id
    · simp [haff, hvolarg hall]
    · simp [(hv.volNone hall).1]
  · rw [hres]
    simp only [hflags]
    cases hall : (surfFlags a.nvertices a.name).all id
    · simp [hshp, hvolarg hall]
    · simp [(hv.volNone hall).2]


/-- a concrete valid axis with interleaved structures (surface 0, volume 1, surface 0 again) -/
def exampleBM : BM :=
  ⟨[0, 1, 1, 0], [(-1, -1, -1), (0, 1, 2), (1, 1, 1), (-1, -1, -1)], [3, -1, -1, 0], some 7, some (2, 3, 4), [(0, 4)]⟩

example : exampleBM.Valid :=
  bm_valid_of_mk [0, 1, 1, 0] [(-1, -1, -1), (0, 1, 2), (1, 1, 1), (-1, -1, -1)] [3, -1, -1, 0] (some 7)
    (some (2, 3, 4)) [(0, 4), (5, 9)] exampleBM (by decide)

example : (bmToMapping exampleBM >>= bmFromMapping).map BM.elements = .ok exampleBM.elements := by decide

/-! ## to_mapping / from_index_mapping of the Series, Scalar, Label and Parcels axes (phase-3 extension) -/

/-- SeriesAxis: `from_index_mapping (to_mapping a) = a` for every start/step/size/unit (the exponent written is
    0, and `x * 10 ** 0 = x`).  Small, but it is the whole logic of this pair of functions. -/
theorem series_mapping_roundtrip (a : Series) :
    seriesFromMapping (seriesToMapping a) = a ∧ (seriesToMapping a).npoints = a.size :=
  ⟨series_mapping_roundtrip' a, rfl⟩

example : seriesFromMapping (seriesToMapping ⟨-3, 7, 5, 2⟩) = ⟨-3, 7, 5, 2⟩ ∧
    seriesFromMapping ⟨2, 5, 3, 4, 0⟩ = ⟨500, 300, 4, 0⟩ := by decide

/-- ScalarAxis: one NamedMap per element, and reading them back gives the same axis -/
theorem scalar_mapping_roundtrip (a : Scalar) (hv : a.mta.length = a.name.length) :
    scalarFromMapping (scalarToMapping a) = .ok a ∧ (scalarToMapping a).length = a.size :=
  scalar_mapping_roundtrip' a hv

example : scalarFromMapping (scalarToMapping ⟨[1, 2, 1], [4, 0, 6]⟩) = .ok ⟨[1, 2, 1], [4, 0, 6]⟩ := by decide

/-- LabelAxis with explicit label tables (dicts: unique keys, any order, any Int keys): building the
    `Cifti2LabelTable`s entry by entry and reading them back with the dict comprehension of
    `from_index_mapping` gives back exactly the same axis — names, metadata, and every table with its
    entries in the same order. -/
theorem label_mapping_roundtrip (a : LabelR) (hv : a.Valid) :
    labelRFromMapping (labelRToMapping a) = .ok a := label_mapping_roundtrip' a hv

/-- … and through the XML text (header → XML → header): the same axis with every colour component passed
    through `colXml` — for tables of any size. -/
theorem label_xml_roundtrip (a : LabelR) (hv : a.Valid) :
    labelRXrt a = .ok { a with table := a.table.map (fun t => t.map LEntry.xml) } :=
  label_xml_roundtrip' a hv

/-- the colour text of `Cifti2Label._to_xml_element` loses nothing: under the contract `float(str(v)) = v` the
    component read back compares equal (`==` on floats) to the one written, and is bit-identical unless it
    was `-0.0` (written as `'0'`). -/
theorem label_colour_xml (c : Nat) : colEq (colXml c) c = true ∧ (c ≠ negZeroBits → colXml c = c) :=
  colXml_spec c

/-- 76/255 (0x3FD3131313131313) and a `-0.0` alpha, keys in non-sorted order -/
def exampleLabelR : LabelR :=
  ⟨[1, 2], [[⟨5, 0, 4599040617120731923, 0, 4607182418800017408, negZeroBits⟩, ⟨-1, 3, 1, 2, 3, 4⟩], [⟨0, 1, 0, 0, 0, 0⟩]],
   [0, 7]⟩

example : exampleLabelR.Valid := ⟨by decide, by decide, by decide⟩
example : labelRXrt exampleLabelR = .ok ⟨[1, 2],
    [[⟨5, 0, 4599040617120731923, 0, 4607182418800017408, 0⟩, ⟨-1, 3, 1, 2, 3, 4⟩], [⟨0, 1, 0, 0, 0, 0⟩]], [0, 7]⟩ := by
  decide
/-- the uniqueness hypothesis is needed: a "table" with a repeated key is not a dict -/
example : ltBuild [⟨1, 0, 0, 0, 0, 0⟩, ⟨1, 2, 0, 0, 0, 0⟩] = [⟨1, 2, 0, 0, 0, 0⟩] := by decide

/-- ParcelsAxis with explicit voxel lists and vertex dicts: `from_index_mapping (to_mapping a) = a` — names,
    voxels, vertex dicts, affine, volume shape and the WHOLE `nvertices` dict (also the surfaces that no parcel
    uses, e.g. after indexing or concatenation), in the same order. -/
theorem parcels_mapping_roundtrip (a : ParcelsR) (hv : a.Valid) :
    parcelsRFromMapping (parcelsRToMapping a) = .ok a := parcels_mapping_roundtrip' a hv

/-- parcel 0 on surface 0, parcel 1 voxels only; surface 4 is in `nvertices` but unused -/
def exampleParcelsR : ParcelsR :=
  ⟨[1, 2], [[], [(0, 1, 2), (1, 1, 1)]], [[(0, [3, 5])], []], some 1, some (2, 3, 4), [(4, 9), (0, 6)]⟩

example : exampleParcelsR.Valid := ⟨by decide, by decide, by decide, by decide, by decide⟩
example : parcelsRFromMapping (parcelsRToMapping exampleParcelsR) = .ok exampleParcelsR := by decide

/-- a parcel with vertices on a structure that has no `nvertices` entry cannot be read back (ValueError
    "Number of vertices for surface structure … not defined"): the hypothesis of the round trip is needed -/
example : parcelsRFromMapping (parcelsRToMapping ⟨[1], [[]], [[(0, [3])]], none, none, [(4, 9)]⟩)
    = .error .valueError := by decide


/-- `from_index_mapping` hands every MatrixIndicesMap back to the class whose `to_mapping` wrote it: the
    IndicesMapToDataType strings written by the five `to_mapping` methods and the `return_type` dict are both
    REGENERATED from the working tree (`Generated/C18.lean`); exhaustive over the five axis classes. -/
theorem dispatch_roundtrip (k : Nb.Gen.C18.Kind) :
    (Nb.Gen.C18.returnType.find? (fun p => p.1 == Nb.Gen.C18.toMappingType k)).map (·.2) = some k := by
  cases k <;> decide

example : Nb.Gen.C18.returnType.length = 5 := by decide

/-- ParcelsAxis `a + b` (audit: "characterise when `+` succeeds"): for well-formed operands it succeeds EXACTLY
    when (1) one operand has no affine, or both have the same affine and volume shape, and (2) no surface
    structure has two different vertex counts in the two `nvertices` dicts; with `concat_lengths` the result then
    describes the concatenation.  (ScalarAxis / LabelAxis `+` always succeed, SeriesAxis: `series_add_spec`;
    BrainModelAxis additionally re-runs its constructor checks — still covered by `bm_add_elements` under a
    success hypothesis only: PARTIAL.) -/
theorem parcels_add_ok_iff (a b : Parcels) (h1 : a.voxels.length = a.name.length)
    (h2 : a.vertices.length = a.name.length) (h3 : b.voxels.length = b.name.length)
    (h4 : b.vertices.length = b.name.length) (hb : (b.nvertices.map (·.1)).Nodup) :
    (∃ r, parcelsAdd a b = .ok r) ↔
      ((a.affine = none ∨ b.affine = none ∨ (b.affine = a.affine ∧ b.shape = a.shape)) ∧
        NvCompatible a.nvertices b.nvertices) := parcels_add_ok_iff' a b h1 h2 h3 h4 hb

example : NvCompatible [(0, 4)] [(0, 4), (1, 6)] ∧ ¬ NvCompatible [(0, 4)] [(0, 5)] := by
  constructor
  · intro p hp v' hv'
    simp only [List.mem_cons, List.mem_nil_iff, or_false] at hp
    rcases hp with rfl | rfl
    · simp [dictGet] at hv'; exact hv'.symm
    · simp [dictGet] at hv'
  · intro h
    have := h (0, 5) (by simp) 4 (by decide)
    cases this

/-! ## metadata dicts through the XML text (wave-3 extension) -/

/-- dict → `MetaData` element → parser → dict is the identity (entries AND their order) on every metadata dict
    whose keys and values carry no leading / trailing whitespace and whose keys are distinct: in particular every
    entry with an EMPTY value (or the empty key) survives; the empty dict, for which no element is written,
    comes back as the empty dict. -/
theorem meta_xml_roundtrip (d : MDict) (h : MDict.Safe d) : mdXrt d = d := md_xml_roundtrip' d h

example : MDict.Safe [(⟨3, 0, 0⟩, ⟨0, 0, 0⟩), (⟨0, 0, 0⟩, ⟨5, 0, 0⟩)] ∧ MDict.Safe [] :=
  ⟨⟨by decide, by decide⟩, ⟨by decide, by decide⟩⟩
example : mdXrt [(⟨3, 0, 0⟩, ⟨0, 0, 0⟩), (⟨0, 0, 0⟩, ⟨5, 0, 0⟩)] = [(⟨3, 0, 0⟩, ⟨0, 0, 0⟩), (⟨0, 0, 0⟩, ⟨5, 0, 0⟩)] := by
  decide

/-- ANY metadata dict (padding anywhere, keys that collide once stripped): the result is a dict (distinct keys)
    that maps `k` to the stripped value of the LAST entry whose stripped key is `k`, and to nothing if there is
    none — the parser's `data.strip()` is the only thing that happens to the entries (open finding
    `roundtrip:meta-whitespace`). -/
theorem meta_xml_spec (d : MDict) :
    ((mdXrt d).map (·.1)).Nodup ∧
    ∀ k, mdGet (mdXrt d) k = lastWith (d.map (fun e => (e.1.strip, e.2.strip))) k := md_xml_spec' d

example : mdXrt [(⟨3, 1, 0⟩, ⟨4, 0, 2⟩), (⟨3, 0, 0⟩, ⟨0, 1, 0⟩)] = [(⟨3, 0, 0⟩, ⟨0, 0, 0⟩)] := by decide

/-- the clause seeded change C18_8 broke, as a direct consequence: an entry whose value is the empty text
    (core `e`, no padding) is still there after the round trip, with the empty value -/
theorem meta_xml_empty_value_kept (d : MDict) (h : MDict.Safe d) (k e : Txt) (hk : (k, e) ∈ d) :
    (k, e) ∈ mdXrt d := by rw [meta_xml_roundtrip d h]; exact hk

example : ((⟨3, 0, 0⟩, ⟨0, 0, 0⟩) : MD) ∈ mdXrt [(⟨1, 0, 0⟩, ⟨2, 0, 0⟩), (⟨3, 0, 0⟩, ⟨0, 0, 0⟩)] := by decide

/-- header → XML → header for a ScalarAxis with explicit per-map metadata dicts: identical names and dicts
    (every map its own dict; maps without metadata get no `MetaData` element and read back `{}`) -/
theorem scalarm_xml_roundtrip (a : ScalarM) (hv : a.Valid) : scalarMXrt a = .ok a := scalarm_xml_roundtrip' a hv

example : (⟨[1, 2, 1], [[(⟨3, 0, 0⟩, ⟨0, 0, 0⟩)], [], [(⟨3, 0, 0⟩, ⟨7, 0, 0⟩), (⟨4, 0, 0⟩, ⟨0, 0, 0⟩)]]⟩ : ScalarM).Valid := by
  refine ⟨by decide, ?_⟩
  intro d hd
  simp only [List.mem_cons, List.mem_nil_iff, or_false] at hd
  rcases hd with rfl | rfl | rfl <;> exact ⟨by decide, by decide⟩

/-! ## SeriesAxis methods translated from the source (wave-3 extension, `Generated/C18Funcs.lean`) -/

open Nb.Py in
/-- the translated `get_element`, `__getitem__` (slice / int / any other index object) and `__add__` compute the
    model functions, for every axis and every argument -/
theorem gen_series_eq_model (a b : Series) (s : PySlice) (i : Int) :
    Gen.C18F.getElementW (.int a.start) (.int a.step) (.int (a.size : Int)) (.int (a.unit : Int)) (.int i) =
      asPy V.int (seriesGetElement a i) ∧
    Gen.C18F.getitemW (.int a.start) (.int a.step) (.int (a.size : Int)) (.int (a.unit : Int)) (V.ofPySlice s) =
      asPy encSeries (seriesGetSlice a s) ∧
    Gen.C18F.getitemW (.int a.start) (.int a.step) (.int (a.size : Int)) (.int (a.unit : Int)) (.int i) =
      asPy V.int (seriesGetElement a i) ∧
    (∀ x, V.isSlice x = false → V.isIntegral x = false →
      Gen.C18F.getitemW (.int a.start) (.int a.step) (.int (a.size : Int)) (.int (a.unit : Int)) x =
        .error .indexError) ∧
    Gen.C18F.addW (.int a.start) (.int a.step) (.int (a.size : Int)) (.int (a.unit : Int))
        (.int b.start) (.int b.step) (.int (b.size : Int)) (.int (b.unit : Int)) =
      asPy encSeries (seriesAdd a b) :=
  ⟨gen_getElement_eq a i, gen_getitem_slice_eq a s, gen_getitem_int_eq a i,
   fun x h1 h2 => gen_getitem_other a x h1 h2, gen_add_eq a b⟩

open Nb.Py in
example : Gen.C18F.getitemW (.int 0) (.int 1) (.int 5) (.int 0) (V.ofPySlice ⟨none, none, some 2⟩) =
    .ok (V.ofList [.int 0, .int 2, .int 3, .int 0]) := by decide

open Nb.Py in
/-- the property clause on the TRANSLATED `__getitem__`: for every axis and every valid slice the result is an
    axis whose time points are exactly `axis.time[slice]` (values and length), same unit; step 0 → ValueError -/
theorem gen_series_getitem_spec (a : Series) (s : PySlice) :
    (s.Valid → ∃ r, Gen.C18F.getitemW (.int a.start) (.int a.step) (.int (a.size : Int)) (.int (a.unit : Int))
        (V.ofPySlice s) = .ok (encSeries r) ∧
      r.elements = s.apply a.elements ∧ r.size = s.len a.size ∧ r.unit = a.unit) ∧
    (¬ s.Valid → Gen.C18F.getitemW (.int a.start) (.int a.step) (.int (a.size : Int)) (.int (a.unit : Int))
        (V.ofPySlice s) = .error .valueError) := by
  constructor
  · intro hv
    obtain ⟨r, h, h1, h2, h3⟩ := series_getitem_spec a s hv
    exact ⟨r, by rw [gen_getitem_slice_eq, h]; rfl, h1, h2, h3⟩
  · intro hv
    rw [gen_getitem_slice_eq, series_getitem_step0 a s hv]; rfl

example : (⟨none, none, some 2⟩ : PySlice).Valid ∧ ¬ (⟨none, none, some 0⟩ : PySlice).Valid := by
  constructor <;> decide

open Nb.Py in
/-- the translated `axis[i]` is `list(axis.time)[i]` for every Python int (IndexError exactly when the list raises) -/
theorem gen_series_int_spec (a : Series) (i : Int) :
    Gen.C18F.getitemW (.int a.start) (.int a.step) (.int (a.size : Int)) (.int (a.unit : Int)) (.int i) =
      asPy V.int (npGet a.elements i) := by
  rw [gen_getitem_int_eq, series_int_spec]

open Nb.Py in
example : Gen.C18F.getitemW (.int (-4)) (.int 3) (.int 3) (.int 0) (.int (-1)) = .ok (.int 2) ∧
    Gen.C18F.getitemW (.int (-4)) (.int 3) (.int 3) (.int 0) (.int 3) = .error .indexError := by
  constructor <;> decide

open Nb.Py in
/-- the translated `a + b`: refused (ValueError) unless step and unit agree; otherwise `len a + len b` points
    continuing `a`, the concatenation of the two time lists when `b` starts where `a` ends -/
theorem gen_series_add_spec (a b : Series) :
    (b.step = a.step ∧ b.unit = a.unit →
      ∃ r, Gen.C18F.addW (.int a.start) (.int a.step) (.int (a.size : Int)) (.int (a.unit : Int))
          (.int b.start) (.int b.step) (.int (b.size : Int)) (.int (b.unit : Int)) = .ok (encSeries r) ∧
        r.size = a.size + b.size ∧ r.unit = a.unit ∧
        (b.start = a.start + (a.size : Int) * a.step → r.elements = a.elements ++ b.elements)) ∧
    (¬ (b.step = a.step ∧ b.unit = a.unit) →
      Gen.C18F.addW (.int a.start) (.int a.step) (.int (a.size : Int)) (.int (a.unit : Int))
          (.int b.start) (.int b.step) (.int (b.size : Int)) (.int (b.unit : Int)) = .error .valueError) := by
  constructor
  · intro h
    obtain ⟨r, hr, h1, h2, _, h4⟩ := (series_add_spec a b).1 h
    exact ⟨r, by rw [gen_add_eq, hr]; rfl, h1, h2, h4⟩
  · intro h
    rw [gen_add_eq, (series_add_spec a b).2 h]; rfl

open Nb.Py in
example : Gen.C18F.addW (.int 0) (.int 2) (.int 3) (.int 1) (.int 6) (.int 2) (.int 2) (.int 1) =
    .ok (V.ofList [.int 0, .int 2, .int 5, .int 1]) := by decide


end Nb.C18
