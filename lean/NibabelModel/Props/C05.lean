import NibabelModel.Model.C05
/-! Props/C05 — the property theorems for C05 (statements + proofs; helper lemmas live in Lemmas/). -/
namespace Nb.C05

end Nb.C05
