import NibabelModel.Model.C05
import NibabelModel.Lemmas.C05
import NibabelModel.Lemmas.C05_pairs2
import NibabelModel.Lemmas.C05_inv
import NibabelModel.Lemmas.C05_canon
import NibabelModel.Lemmas.C05_io
import NibabelModel.Lemmas.C05_slicer
import NibabelModel.Lemmas.C05_hist
import NibabelModel.Generated.C05
/-! Props/C05 — property theorems for C05 (reorienting, canonicalising and slicing keep each voxel
    at its world position).  See DESIGN.md §5 C05.  All statements are about Model/C05.lean, which
    is compared with the real code on every generated case of every run. -/
namespace Nb.C05
open Nb Nb.C06

/-! ### slicer -/

/-- Per sliced axis: the `j`-th selected index is `start + step*j` with
    `(start, _, step) = s.indices(n)`, and it is inside the axis.  (All `n`, all slices with a
    non-zero step, all `j` below the result length.) -/
theorem slice_axis_src (s : PySlice) (n : Nat) (hv : s.Valid) (j : Nat) (hj : j < s.len n) :
    (((s.sel n).getD j 0 : Nat) : Int) = (s.indices n).1 + (s.indices n).2.2 * (j : Int) ∧
      (s.sel n).getD j 0 < n :=
  slice_axis_src' s n hv j hj

example : (⟨none, none, some (-2)⟩ : PySlice).Valid ∧ 1 < (⟨none, none, some (-2)⟩ : PySlice).len 5 := by decide

/-- The algebra of `slice_affine` over ANY commutative ring (so also for rational / real affines):
    `affine.dot(transform)` applied to `k` is `affine` applied to `start + step*k`. -/
theorem scaleShift_apply_ring {R : Type} [Lean.Grind.CommRing R] (A : Aff R)
    (p0 p1 p2 s0 s1 s2 x y z : R) :
    (A.comp (scaleShift p0 p1 p2 s0 s1 s2)).apply x y z =
      A.apply (s0 + p0 * x) (s1 + p1 * y) (s2 + p2 * z) :=
  scaleShift_apply_ring' A ..

/-- **slicer_world**: for every integer affine `A`, every image shape, every index expression
    accepted by `img.slicer[...]`, and every voxel `j` of the result: `j` has at least three
    coordinates, its source voxel `src(j)` (the gather that produces the new data) lies inside
    the image, and the new affine applied to `j` equals the old affine applied to `src(j)`. -/
theorem slicer_world (A : Aff Int) (shape : List Nat) (idx : List IdxItem) (o : SliceOut)
    (h : slicer A shape idx = .ok o) (j : List Nat) (hj : j ∈ allIdx o.shape) :
    ∃ j0 j1 j2 jr x y z xr n0 n1 n2 nr,
      j = j0 :: j1 :: j2 :: jr ∧ shape = n0 :: n1 :: n2 :: nr ∧
      srcIdx o.sels j = x :: y :: z :: xr ∧ x < n0 ∧ y < n1 ∧ z < n2 ∧
      o.affine.apply j0 j1 j2 = A.apply x y z := by
  unfold slicer at h
  split at h
  · cases h
  · rename_i can hcan
    split at h
    · rename_i s0 s1 s2 crest n0 n1 n2 nrest
      split at h
      · cases h
      · rename_i rsels hrs
        split at h
        · cases h
        · rename_i hz
          dsimp only at h
          split at h
          · cases h
          · rename_i he
            injection h with h
            subst h
            simp only [List.any_cons, Bool.or_eq_true, not_or, Bool.not_eq_true] at hz
            have hv0 := valid_of_not_zeroStep s0 hz.1
            have hv1 := valid_of_not_zeroStep s1 hz.2.1
            have hv2 := valid_of_not_zeroStep s2 hz.2.2.1
            simp only [outShape] at hj
            obtain ⟨j0, r0, hj0, hr0, rfl⟩ := mem_allIdx_cons.mp hj
            obtain ⟨j1, r1, hj1, hr1, rfl⟩ := mem_allIdx_cons.mp hr0
            obtain ⟨j2, r2, hj2, hr2, rfl⟩ := mem_allIdx_cons.mp hr1
            rw [PySlice.sel_length] at hj0 hj1 hj2
            have a0 := slice_axis_src s0 n0 hv0 j0 hj0
            have a1 := slice_axis_src s1 n1 hv1 j1 hj1
            have a2 := slice_axis_src s2 n2 hv2 j2 hj2
            refine ⟨j0, j1, j2, r2, _, _, _, _, n0, n1, n2, nrest, rfl, rfl, rfl, a0.2, a1.2, a2.2, ?_⟩
            simp only [sliceAffine]
            rw [scaleShift_apply_int, a0.1, a1.1, a2.1]
    · cases h

/-- non-vacuity: `img.slicer[::-1, -2:, 1::2, None, 0]` on a (2,3,4,2) image succeeds and the result
    has voxels -/
example : ∃ o, slicer ⟨⟨2, 1, 0, -3⟩, ⟨-1, 3, 1, 4⟩, ⟨0, 1, -2, 5⟩⟩ [2, 3, 4, 2]
    [.slice ⟨none, none, some (-1)⟩, .slice ⟨some (-2), none, none⟩, .slice ⟨some 1, none, some 2⟩,
     .newaxis, .int 0] = .ok o ∧ [1, 1, 1, 0] ∈ allIdx o.shape := by
  refine ⟨_, rfl, ?_⟩
  decide

/-- **slicer_triple_ok** (no false rejection, the property's whole slicer quantifier): every triple of
    spatial slices with non-zero steps that each select at least one voxel is ACCEPTED, for every
    affine and every image shape whose trailing axes are non-empty; the result has the NumPy shape and
    the affine of `slice_affine` (to which `slicer_world` applies). -/
theorem slicer_triple_ok (A : Aff Int) (n0 n1 n2 : Nat) (nr : List Nat) (s0 s1 s2 : PySlice)
    (hv0 : s0.Valid) (hv1 : s1.Valid) (hv2 : s2.Valid)
    (h0 : 0 < s0.len n0) (h1 : 0 < s1.len n1) (h2 : 0 < s2.len n2) (hnr : ∀ n ∈ nr, 0 < n) :
    ∃ o, slicer A (n0 :: n1 :: n2 :: nr) [.slice s0, .slice s1, .slice s2] = .ok o ∧
      o.shape = s0.len n0 :: s1.len n1 :: s2.len n2 :: nr ∧
      o.affine = sliceAffine A s0 s1 s2 n0 n1 n2 :=
  slicer_triple_ok' A n0 n1 n2 nr s0 s1 s2 hv0 hv1 hv2 h0 h1 h2 hnr

example : (⟨some 7, none, some (-2)⟩ : PySlice).Valid ∧ 0 < (⟨some 7, none, some (-2)⟩ : PySlice).len 4 ∧
    ∀ n ∈ [2, 1], 0 < n := by decide

/-- **slicer_rejects_spatial_scalar** (the documented error cases): an integer index or a new axis in
    one of the three spatial positions (after fewer than three slices) is refused with IndexError —
    for every image shape, every affine and whatever follows in the index expression. -/
theorem slicer_rejects_spatial_scalar (A : Aff Int) (shape : List Nat) (pre : List PySlice)
    (hpre : pre.length < 3) (x : IdxItem) (hx : (∃ i, x = .int i) ∨ x = .newaxis) (post : List IdxItem) :
    slicer A shape (pre.map IdxItem.slice ++ x :: post) = .error .index :=
  slicer_rejects_spatial_scalar' A shape pre hpre x hx post

example : ([⟨none, none, none⟩, ⟨some 1, none, none⟩] : List PySlice).length < 3 ∧
    ((∃ i, IdxItem.int 0 = .int i) ∨ IdxItem.int 0 = .newaxis) := ⟨by decide, Or.inl ⟨0, rfl⟩⟩

/-- The pinned (pre-fix) `slice_affine` used `slice.start or 0` and the raw step: for
    `img.slicer[::-1]` on an axis of length 2 with the identity affine, output voxel 0 (whose
    source is voxel 1) was placed at world x = 0 instead of 1. -/
theorem slicer_orig_counterexample :
    (sliceAffineOrig ⟨⟨1, 0, 0, 0⟩, ⟨0, 1, 0, 0⟩, ⟨0, 0, 1, 0⟩⟩ ⟨none, none, some (-1)⟩ ⟨none, none, none⟩
        ⟨none, none, none⟩).apply 0 0 0 ≠
      (⟨⟨1, 0, 0, 0⟩, ⟨0, 1, 0, 0⟩, ⟨0, 0, 1, 0⟩⟩ : Aff Int).apply
        (((⟨none, none, some (-1)⟩ : PySlice).sel 2).getD 0 0 : Nat) 0 0 := by
  decide

/-! ### as_reoriented -/

/-- **reorient_world**: for every integer affine, every image shape (≥ 3 axes), each of the 48
    signed permutations `o`, and every voxel `j` of `img.as_reoriented(o)`: the source voxel
    `src(j)` is inside the image, the non-spatial coordinates are unchanged, and the new affine
    (`affine.dot(inv_ornt_aff(o, shape))`) applied to `j` equals the old affine applied to `src(j)`. -/
theorem reorient_world (A : Aff Int) (n0 n1 n2 : Nat) (nr : List Nat) (d : DimInfo) (o : Ornt)
    (ho : o ∈ allOrnts3) (r : ReorOut)
    (h : asReoriented A (n0 :: n1 :: n2 :: nr) d (o.map some) = .ok r)
    (j : List Nat) (hj : j ∈ allIdx r.shape) :
    ∃ j0 j1 j2 jr x y z,
      j = j0 :: j1 :: j2 :: jr ∧ r.src (n0 :: n1 :: n2 :: nr) j = x :: y :: z :: jr ∧
      x < n0 ∧ y < n1 ∧ z < n2 ∧ jr ∈ allIdx nr ∧
      r.affine.apply j0 j1 j2 = A.apply x y z := by
  obtain ⟨a0, a1, a2, f0, f1, f2, rfl, hp, hf0, hf1, hf2⟩ := mem_allOrnts3_elim ho
  have hto : OrntN.toOrnt (List.map some [(a0, f0), (a1, f1), (a2, f2)]) = some [(a0, f0), (a1, f1), (a2, f2)] := rfl
  unfold asReoriented at h
  rw [hto] at h
  dsimp only at h
  split at h
  · -- identity orientation: `return self`
    rename_i hid
    injection h with h
    subst h
    obtain ⟨j0, r0, hj0, hr0, rfl⟩ := mem_allIdx_cons.mp hj
    obtain ⟨j1, r1, hj1, hr1, rfl⟩ := mem_allIdx_cons.mp hr0
    obtain ⟨j2, r2, hj2, hr2, rfl⟩ := mem_allIdx_cons.mp hr1
    exact ⟨j0, j1, j2, r2, j0, j1, j2, rfl, by simp [ReorOut.src], hj0, hj1, hj2, hr2, rfl⟩
  · rename_i hid
    split at h
    · cases h
    · obtain ⟨l0, l1, l2⟩ := perms3_lt hp
      split at h
      · cases h
      · rename_i inv hinv
        injection h with h
        subst h
        obtain ⟨j0, j1, j2, jr, rfl, hjr, b0, b1, b2, hsrc⟩ := applyOrnt_char a0 a1 a2 f0 f1 f2 hp n0 n1 n2 nr j hj
        obtain ⟨inv', hinv', happ⟩ := invOrntAff_apply a0 a1 a2 f0 f1 f2 l0 l1 l2 n0 n1 n2 nr j0 j1 j2
        rw [hinv] at hinv'
        injection hinv' with hinv'
        subst hinv'
        refine ⟨j0, j1, j2, jr, flipIdx n0 f0 ([j0, j1, j2].getD a0 0), flipIdx n1 f1 ([j0, j1, j2].getD a1 0),
          flipIdx n2 f2 ([j0, j1, j2].getD a2 0), rfl, ?_, ?_, ?_, ?_, hjr, ?_⟩
        · simp only [ReorOut.src, Bool.false_eq_true, if_false]; exact hsrc
        · unfold flipIdx; split <;> omega
        · unfold flipIdx; split <;> omega
        · unfold flipIdx; split <;> omega
        · show (A.comp inv).apply _ _ _ = _
          rw [comp_apply_ring, happ]
          simp only [getD_cast3 _ l0, getD_cast3 _ l1, getD_cast3 _ l2]
          rw [flipTrans_apply n0 f0 hf0 _ b0, flipTrans_apply n1 f1 hf1 _ b1, flipTrans_apply n2 f2 hf2 _ b2]

/-- non-vacuity: a genuine flip + axis swap of a (2,3,4,2) image -/
example : ∃ r, [(1, -1), (0, 1), (2, 1)] ∈ allOrnts3 ∧
    asReoriented ⟨⟨2, 1, 0, -3⟩, ⟨-1, 3, 1, 4⟩, ⟨0, 1, -2, 5⟩⟩ [2, 3, 4, 2] [some 0, some 1, some 2]
      ([(1, -1), (0, 1), (2, 1)].map some) = .ok r ∧ [2, 1, 3, 1] ∈ allIdx r.shape := by
  refine ⟨_, by decide, rfl, by decide⟩

/-- **reorient_bijective (injective part)**: two different voxels of the reoriented image never
    come from the same source voxel, for all 48 orientations and all shapes -/
theorem reorient_injective (n0 n1 n2 : Nat) (nr : List Nat) (o : Ornt) (ho : o ∈ allOrnts3)
    (j j' : List Nat) (hj : j ∈ allIdx (applyOrntShape (n0 :: n1 :: n2 :: nr) o))
    (hj' : j' ∈ allIdx (applyOrntShape (n0 :: n1 :: n2 :: nr) o))
    (h : applyOrntSrc (n0 :: n1 :: n2 :: nr) o j = applyOrntSrc (n0 :: n1 :: n2 :: nr) o j') : j = j' := by
  obtain ⟨a0, a1, a2, f0, f1, f2, rfl, hp, hf0, hf1, hf2⟩ := mem_allOrnts3_elim ho
  obtain ⟨j0, j1, j2, jr, rfl, _, b0, b1, b2, hs⟩ := applyOrnt_char a0 a1 a2 f0 f1 f2 hp n0 n1 n2 nr j hj
  obtain ⟨k0, k1, k2, kr, rfl, _, c0, c1, c2, hs'⟩ := applyOrnt_char a0 a1 a2 f0 f1 f2 hp n0 n1 n2 nr j' hj'
  rw [hs, hs'] at h
  simp only [List.cons.injEq] at h
  obtain ⟨e0, e1, e2, er⟩ := h
  have g0 := flipIdx_inj _ _ _ _ b0 c0 e0
  have g1 := flipIdx_inj _ _ _ _ b1 c1 e1
  have g2 := flipIdx_inj _ _ _ _ b2 c2 e2
  subst er
  simp only [perms3, List.mem_cons, List.cons.injEq, and_true, List.not_mem_nil, or_false] at hp
  rcases hp with ⟨rfl, rfl, rfl⟩ | ⟨rfl, rfl, rfl⟩ | ⟨rfl, rfl, rfl⟩ | ⟨rfl, rfl, rfl⟩ | ⟨rfl, rfl, rfl⟩ |
    ⟨rfl, rfl, rfl⟩ <;> simp at g0 g1 g2 <;> simp [g0, g1, g2]

example : [(2, -1), (0, 1), (1, -1)] ∈ allOrnts3 ∧ [2, 3, 1] ∈ allIdx (applyOrntShape [2, 3, 4] [(2, -1), (0, 1), (1, -1)]) := by
  decide

/-- the reoriented image has as many voxels as the input -/
theorem reorient_size (n0 n1 n2 : Nat) (nr : List Nat) (o : Ornt) (ho : o ∈ allOrnts3) :
    ∃ m0 m1 m2, applyOrntShape (n0 :: n1 :: n2 :: nr) o = m0 :: m1 :: m2 :: nr ∧ m0 * m1 * m2 = n0 * n1 * n2 := by
  obtain ⟨a0, a1, a2, f0, f1, f2, rfl, hp, -, -, -⟩ := mem_allOrnts3_elim ho
  obtain ⟨h0, h1, h2, h3, h4, h5⟩ := argsort_perms3
  simp only [perms3, List.mem_cons, List.cons.injEq, and_true, List.not_mem_nil, or_false] at hp
  rcases hp with ⟨rfl, rfl, rfl⟩ | ⟨rfl, rfl, rfl⟩ | ⟨rfl, rfl, rfl⟩ | ⟨rfl, rfl, rfl⟩ | ⟨rfl, rfl, rfl⟩ |
    ⟨rfl, rfl, rfl⟩ <;>
  · refine ⟨_, _, _, by simp [applyOrntShape, h0, h1, h2, h3, h4, h5]; exact ⟨rfl, rfl, rfl⟩, ?_⟩
    first | rfl | (simp only [Nat.mul_comm, Nat.mul_left_comm])

/-- **dim_info_follows**: a frequency / phase / slice label on voxel axis `lab` of the input is on
    voxel axis `lab'` of the reoriented image, where `lab'` is an axis of the same length whose
    coordinate alone determines (identically or reversed) the source coordinate along `lab`. -/
theorem dim_info_follows (A : Aff Int) (n0 n1 n2 : Nat) (nr : List Nat) (d : DimInfo) (o : Ornt)
    (ho : o ∈ allOrnts3) (r : ReorOut)
    (h : asReoriented A (n0 :: n1 :: n2 :: nr) d (o.map some) = .ok r)
    (k lab : Nat) (hk : d[k]? = some (some lab)) (hlab : lab < 3) :
    ∃ lab', r.dimInfo[k]? = some (some lab') ∧ lab' < 3 ∧
      r.shape.getD lab' 0 = (n0 :: n1 :: n2 :: nr).getD lab 0 ∧
      ∃ f : Int, ∀ j ∈ allIdx r.shape,
        (r.src (n0 :: n1 :: n2 :: nr) j).getD lab 0 =
          flipIdx ((n0 :: n1 :: n2 :: nr).getD lab 0) f (j.getD lab' 0) := by
  obtain ⟨a0, a1, a2, f0, f1, f2, rfl, hp, hf0, hf1, hf2⟩ := mem_allOrnts3_elim ho
  have hto : OrntN.toOrnt (List.map some [(a0, f0), (a1, f1), (a2, f2)]) = some [(a0, f0), (a1, f1), (a2, f2)] := rfl
  unfold asReoriented at h
  rw [hto] at h
  dsimp only at h
  split at h
  · injection h with h
    subst h
    refine ⟨lab, hk, hlab, rfl, 1, ?_⟩
    intro j _
    simp [ReorOut.src, flipIdx]
  · split at h
    · cases h
    · obtain ⟨l0, l1, l2⟩ := perms3_lt hp
      split at h
      · cases h
      · rename_i inv hinv
        injection h with h
        subst h
        obtain ⟨s0, s1, s2, _⟩ := applyOrntShape_getD a0 a1 a2 f0 f1 f2 hp n0 n1 n2 nr
        have hchar := applyOrnt_char a0 a1 a2 f0 f1 f2 hp n0 n1 n2 nr
        have hd : (dimInfoReorient [(a0, f0), (a1, f1), (a2, f2)] d)[k]? =
            some (some ([(a0, f0), (a1, f1), (a2, f2)].getD lab (0, 1)).1) := by
          simp [dimInfoReorient, hk]
        have : lab = 0 ∨ lab = 1 ∨ lab = 2 := by omega
        rcases this with rfl | rfl | rfl
        · refine ⟨a0, hd, l0, s0, f0, ?_⟩
          intro j hj
          obtain ⟨j0, j1, j2, jr, rfl, _, _, _, _, hsrc⟩ := hchar j hj
          simp only [ReorOut.src, Bool.false_eq_true, if_false, hsrc, getD_cons3 _ l0, List.getD_cons_zero]
        · refine ⟨a1, hd, l1, s1, f1, ?_⟩
          intro j hj
          obtain ⟨j0, j1, j2, jr, rfl, _, _, _, _, hsrc⟩ := hchar j hj
          simp only [ReorOut.src, Bool.false_eq_true, if_false, hsrc, getD_cons3 _ l1, List.getD_cons_zero,
            List.getD_cons_succ]
        · refine ⟨a2, hd, l2, s2, f2, ?_⟩
          intro j hj
          obtain ⟨j0, j1, j2, jr, rfl, _, _, _, _, hsrc⟩ := hchar j hj
          simp only [ReorOut.src, Bool.false_eq_true, if_false, hsrc, getD_cons3 _ l2, List.getD_cons_zero,
            List.getD_cons_succ]

example : ([some 2, none, some 0] : DimInfo)[0]? = some (some 2) ∧ 2 < 3 := by decide

/-! ### orientation arrays, axis codes, inverse affines: the 48 signed permutations -/

/-- every member of the table is a valid orientation in the sense of the driver, and the table has
    48 distinct entries -/
theorem allOrnts3_valid : allOrnts3.all (fun o => o.valid && o.length == 3) = true ∧
    allOrnts3.length = 48 ∧ allOrnts3.Nodup := by
  decide +kernel

/-- `axcodes2ornt (ornt2axcodes o) = o` for all 48, and `ornt2axcodes` is injective on them -/
theorem ornt_axcodes_roundtrip :
    (∀ o ∈ allOrnts3, (ornt2axcodes (o.map some)).bind axcodes2ornt = .ok (o.map some)) ∧
    (∀ o ∈ allOrnts3, ∀ o' ∈ allOrnts3, ornt2axcodes (o.map some) = ornt2axcodes (o'.map some) → o = o') := by
  decide +kernel

/-- **ornt_transform** over all 48 x 48 pairs: `ornt_transform a b` succeeds with the signed
    permutation `t = a ; b⁻¹`; following `t` and then `b` is `a` (an image in orientation `a`
    reoriented by `t` is in orientation `b`); `ornt_transform b a` is the inverse orientation of
    `t`, and `t` followed by it is the identity orientation. -/
theorem ornt_transform_inverse (a b : Ornt) (ha : a ∈ allOrnts3) (hb : b ∈ allOrnts3) :
    orntTransform a b = .ok ((orntCompose a (orntInverse b)).map some) ∧
    orntTransform b a = .ok ((orntInverse (orntCompose a (orntInverse b))).map some) ∧
    isOrnt3 (orntCompose a (orntInverse b)) = true ∧
    orntCompose (orntCompose a (orntInverse b)) b = a ∧
    orntCompose (orntCompose a (orntInverse b)) (orntInverse (orntCompose a (orntInverse b))) = identityOrnt := by
  have h := pairOk_all a b ha hb
  simp only [pairOk, Bool.and_eq_true, beq_iff_eq] at h
  obtain ⟨⟨⟨⟨⟨h1, h2⟩, h3⟩, h4⟩, h5⟩, h6⟩ := h
  refine ⟨eqOk_elim h1, ?_, h3, h4, ?_⟩
  · rw [← h6]; exact eqOk_elim h2
  · rw [← h6]; exact h5

example : [(1, -1), (0, 1), (2, 1)] ∈ allOrnts3 ∧ [(2, 1), (1, -1), (0, -1)] ∈ allOrnts3 := by decide

/-- **inv_ornt_aff** of the inverse orientation is the inverse affine, for all 48 orientations and
    every image shape; the inverse orientation also restores the shape. -/
theorem inv_ornt_aff_inverse (t : Ornt) (ht : t ∈ allOrnts3) (n0 n1 n2 : Nat) (nr : List Nat) :
    ∃ M N, invOrntAff t (n0 :: n1 :: n2 :: nr) = some M ∧
      invOrntAff (orntInverse t) (applyOrntShape (n0 :: n1 :: n2 :: nr) t) = some N ∧
      M.comp N = idAff ∧ N.comp M = idAff ∧
      applyOrntShape (applyOrntShape (n0 :: n1 :: n2 :: nr) t) (orntInverse t) = n0 :: n1 :: n2 :: nr :=
  inv_ornt_aff_inverse' t ht n0 n1 n2 nr

/-! ### io_orientation / as_closest_canonical

  `numpy.linalg.svd` is outside the model: `R` below is the polar factor computed at
  orientations.py:56-71, as an integer matrix (float entries times a power of two) and `tol` the
  scaled `allclose` tolerance.  Contract used for idempotence: the polar factor of `A·P` is `R·P`
  for a signed permutation matrix `P` (`mulLin R inv`), which holds for the exact polar
  decomposition because `P` is orthogonal and permutes/negates the column norms with the columns. -/

/-- **io_greedy_dominant**: if every column of the 3x3 matrix has a strictly dominant entry (above
    the tolerance) and the dominant rows are pairwise different (`σ` is a permutation), the greedy
    loop of `io_orientation` returns exactly that signed permutation. -/
theorem io_greedy_dominant (a b c d e f g h i : Int) (tol : Nat) (σ : List Nat)
    (hd : Dominant [[a, b, c], [d, e, f], [g, h, i]] tol σ) :
    ioOrientation [[a, b, c], [d, e, f], [g, h, i]] 3 tol =
      (orntOf [[a, b, c], [d, e, f], [g, h, i]] σ).map some :=
  io_greedy_dominant' a b c d e f g h i tol σ hd

/-- non-vacuity: an oblique matrix whose dominant entries sit at rows 1, 2, 0 -/
example : Dominant [[1, -2, 9], [-7, 3, 2], [2, 8, -1]] 0 [1, 2, 0] := by
  refine ⟨by decide, ?_⟩
  intro c hc
  have : c = 0 ∨ c = 1 ∨ c = 2 := by omega
  rcases this with rfl | rfl | rfl <;> refine ⟨by decide, ?_⟩ <;> intro r hr hne <;>
    (have : r = 0 ∨ r = 1 ∨ r = 2 := by omega) <;> rcases this with rfl | rfl | rfl <;>
    first | (simp at hne; done) | decide

/-- **canonical_idempotent**: under the same hypothesis the orientation found is one of the 48,
    `inv_ornt_aff` exists, the polar factor of the reoriented affine (`R·P`) has a positive,
    strictly dominant diagonal, and `io_orientation` of it is the identity orientation — so
    canonicalising a second time returns the image itself (`canonical_second_is_self`). -/
theorem canonical_idempotent (a b c d e f g h i : Int) (tol : Nat) (σ : List Nat)
    (hd : Dominant [[a, b, c], [d, e, f], [g, h, i]] tol σ) (n0 n1 n2 : Nat) (nr : List Nat) :
    ioOrientation [[a, b, c], [d, e, f], [g, h, i]] 3 tol =
        (orntOf [[a, b, c], [d, e, f], [g, h, i]] σ).map some ∧
      isOrnt3 (orntOf [[a, b, c], [d, e, f], [g, h, i]] σ) = true ∧
      ∃ inv, invOrntAff (orntOf [[a, b, c], [d, e, f], [g, h, i]] σ) (n0 :: n1 :: n2 :: nr) = some inv ∧
        ioOrientation (mulLin [[a, b, c], [d, e, f], [g, h, i]] inv) 3 tol = identityOrnt.map some ∧
        0 < entry (mulLin [[a, b, c], [d, e, f], [g, h, i]] inv) 0 0 ∧
        0 < entry (mulLin [[a, b, c], [d, e, f], [g, h, i]] inv) 1 1 ∧
        0 < entry (mulLin [[a, b, c], [d, e, f], [g, h, i]] inv) 2 2 :=
  canonical_idempotent' a b c d e f g h i tol σ hd n0 n1 n2 nr

/-- **io_orientation_injective** — for EVERY matrix `R` (any size, ties, zero columns, any tolerance,
    i.e. whatever `numpy.linalg.svd` returned): the greedy loop of `io_orientation` answers one row per
    input axis, never assigns two input axes to the same output axis, only names existing output axes,
    and every flip is +1 or -1. -/
theorem io_orientation_injective (R : List (List Int)) (p tol : Nat) :
    (ioOrientation R p tol).length = p ∧ (rowsOf (ioOrientation R p tol)).Nodup ∧
      (∀ r ∈ rowsOf (ioOrientation R p tol), r < R.length) ∧
      ∀ r f, some (r, f) ∈ ioOrientation R p tol → (f = 1 ∨ f = -1) := by
  have hv := ioGreedy_valid tol (List.range p) R [] (by simp)
  exact ⟨by simp [ioOrientation, ioGreedy_length], hv.1, fun r hr => (hv.2.1 r hr).2, hv.2.2⟩

example : rowsOf (ioOrientation [[1, 1, 0], [1, 1, 0], [0, 0, 0]] 3 0) = [0, 1] := by decide

/-- **io_orientation_valid** — for every 3-row `R`: if no axis is dropped, the answer is one of the 48
    signed permutations (so `as_reoriented` accepts it and `reorient_world` applies). -/
theorem io_orientation_valid (R : List (List Int)) (tol : Nat) (hR : R.length = 3) (oo : Ornt)
    (h : (ioOrientation R 3 tol).toOrnt = some oo) :
    ioOrientation R 3 tol = oo.map some ∧ oo ∈ allOrnts3 :=
  io_orientation_valid' R tol hR oo h

example : (ioOrientation [[1, -2, 9], [-7, 3, 2], [2, 8, -1]] 3 0).toOrnt = some [(1, -1), (2, 1), (0, 1)] := by decide

/-- **canonical_world** — `as_closest_canonical` keeps every voxel at its world position for EVERY
    polar factor `R` (3 rows; no assumption on what the SVD returned), every integer affine, every
    shape (non-spatial axes follow), with or without `enforce_diag`: whenever it returns an image, the
    orientation applied is one of the 48, every voxel `j` of the result has its source voxel inside
    the input, the trailing coordinates are unchanged and `new_affine . j = A . src(j)`. -/
theorem canonical_world (A : Aff Int) (n0 n1 n2 : Nat) (nr : List Nat) (d : DimInfo) (R : List (List Int))
    (tol : Nat) (enf : Bool) (hR : R.length = 3) (o : OrntN) (r : ReorOut)
    (h : asClosestCanonical A (n0 :: n1 :: n2 :: nr) d R tol enf = .ok (o, r))
    (j : List Nat) (hj : j ∈ allIdx r.shape) :
    (∃ oo ∈ allOrnts3, o = oo.map some) ∧
    ∃ j0 j1 j2 jr x y z,
      j = j0 :: j1 :: j2 :: jr ∧ r.src (n0 :: n1 :: n2 :: nr) j = x :: y :: z :: jr ∧
      x < n0 ∧ y < n1 ∧ z < n2 ∧ jr ∈ allIdx nr ∧
      r.affine.apply j0 j1 j2 = A.apply x y z := by
  unfold asClosestCanonical at h
  dsimp only at h
  split at h
  · cases h
  · rename_i r' hre
    have hor : o = ioOrientation R 3 tol ∧ r = r' := by
      split at h
      · cases h
      · injection h with h; injection h with h1 h2; exact ⟨h1.symm, h2.symm⟩
    obtain ⟨rfl, rfl⟩ := hor
    cases hto : (ioOrientation R 3 tol).toOrnt with
    | none => simp [asReoriented, hto] at hre
    | some oo =>
      obtain ⟨hm, hmem⟩ := io_orientation_valid' R tol hR oo hto
      rw [hm] at hre
      exact ⟨⟨oo, hmem, hm⟩, reorient_world A n0 n1 n2 nr d oo hmem r hre j hj⟩

/-- non-vacuity: an oblique polar factor with a TIE in column 0 (not `Dominant`) on a (2,3,4,2) image -/
example : ∃ o r, asClosestCanonical ⟨⟨2, 1, 0, -3⟩, ⟨-1, 3, 1, 4⟩, ⟨0, 1, -2, 5⟩⟩ [2, 3, 4, 2] [some 0, none, some 2]
    [[5, -2, 9], [-5, 3, 2], [2, 8, -1]] 0 false = .ok (o, r) ∧ r.same = false ∧ [1, 3, 2, 1] ∈ allIdx r.shape := by
  refine ⟨_, _, rfl, rfl, by decide⟩

/-- when `io_orientation` answers the identity orientation, `as_closest_canonical` returns the
    image itself: same data, same affine, same dim_info -/
theorem canonical_second_is_self (A : Aff Int) (shape : List Nat) (d : DimInfo) (R : List (List Int))
    (tol : Nat) (h : ioOrientation R 3 tol = identityOrnt.map some) :
    asClosestCanonical A shape d R tol false = .ok (identityOrnt.map some, ⟨true, shape, A, identityOrnt, d⟩) := by
  have hto : OrntN.toOrnt (List.map some identityOrnt) = some identityOrnt := rfl
  simp [asClosestCanonical, h, asReoriented, hto]

example : ioOrientation [[4, 0, 1], [0, 3, 0], [1, 0, 5]] 3 0 = identityOrnt.map some := by decide

/-! ### constants regenerated from the working tree (Generated/C05.lean, rewritten on every run) -/

/-- **gen_consts_ok**: the default axis labels of BOTH `ornt2axcodes` and `axcodes2ornt`, the
    identity-orientation literal of `as_reoriented`, the constants of
    `center_trans = -(shape - 1) / 2.0` in `inv_ornt_aff` and the `ornt` column used by the dim_info
    remap, as read from the source of this run, are the ones the model (and so every theorem above)
    uses. -/
theorem gen_consts_ok :
    Gen.labelsOrnt2ax = labels ∧ Gen.labelsAx2ornt = labels ∧ Gen.identityOrnt = identityOrnt ∧
    (∀ (n : Nat) (f : Int), flipTrans n f =
      (f * (-((n : Int) - Gen.centerSub)) - (-((n : Int) - Gen.centerSub))) / Gen.centerDiv) ∧
    Gen.dimInfoCol = 0 :=
  ⟨by decide, by decide, by decide, fun _ _ => rfl, by decide⟩

example : Gen.labelsOrnt2ax.length = 3 ∧ Gen.identityOrnt.length = 3 := by decide

/-! ### the value source of the operations: regenerated from the AST, `Src.dataobj` proved, `Src.cache` refuted -/

/-- where `SpatialImage.as_reoriented` takes its voxels from, according to the attribute names it touches
    in the source of THIS run (unknown → the worst case) -/
def reorientSrc : Src := (srcOfAttrs Gen.reorientSelfAttrs).getD .cache
/-- where `SpatialFirstSlicer.__getitem__` takes its voxels from, read the same way -/
def slicerSrc : Src := (srcOfAttrs Gen.slicerImgAttrs).getD .cache

/-- **gen_value_source_ok** — read from the source of THIS run: `SpatialImage.as_reoriented` and
    `SpatialFirstSlicer.__getitem__` read `dataobj` and touch no accessor of the `get_fdata` cache (so the
    model's `Src` parameter is `dataobj` for both), and `Nifti1Pair.as_reoriented` / `as_closest_canonical`
    (which delegate to `as_reoriented`) touch none either. -/
theorem gen_value_source_ok :
    srcOfAttrs Gen.reorientSelfAttrs = some .dataobj ∧ srcOfAttrs Gen.slicerImgAttrs = some .dataobj ∧
    reorientSrc = .dataobj ∧ slicerSrc = .dataobj ∧
    (Gen.niftiReorientSelfAttrs ++ Gen.canonicalImgAttrs).all (fun a => !cacheNames.contains a) = true ∧
    Gen.canonicalImgAttrs.contains "as_reoriented" = true := by decide

/-- non-vacuity: the lists are populated, and the classifier does tell the sources apart -/
example : "dataobj" ∈ Gen.reorientSelfAttrs ∧ "dataobj" ∈ Gen.slicerImgAttrs ∧
    srcOfAttrs ["affine", "_fdata_cache", "dataobj"] = some .cache ∧ srcOfAttrs ["affine"] = none := by decide

/-- **hist_wf** — the cache bookkeeping invariant (an `_fdata_cache` that IS the data object exists only on
    an array image whose array has that very dtype, and then has the data object's contents) holds for a
    fresh/loaded image and is kept by EVERY history of `get_fdata(dtype, caching)` / arbitrary in-place edit /
    `uncache`, for every value type and every cast. -/
theorem hist_wf (proxy : Bool) (arrFD : Option FD) (n : Nat) :
    (ImgSt.init proxy arrFD n).WF ∧
    ∀ {α : Type} (cast : FD → α → α) (s : ImgSt α), s.WF → ∀ h : List (HStep α), (s.run cast h).WF :=
  ⟨init_wf proxy arrFD n, fun cast s hw h => run_wf cast s hw h⟩

example : ((ImgSt.init false (some .f8) 3).run (fun _ k => k) [.getFdata .f8 true (some List.reverse)]).cache =
    some ⟨.f8, [2, 1, 0], true⟩ := by decide

/-- **hist_data_spec** — for EVERY image kind, value type, cast and history (with ARBITRARY edits of the
    arrays `get_fdata` returned): what the data object holds afterwards is `dataSpec`, a function of the
    image kind and the steps that never looks at the cache and never applies a cast (so `caching='fill'`
    vs `'unchanged'`, cache hits, `uncache` and the floating dtype asked for are irrelevant to it); the
    image kind does not change. -/
theorem hist_data_spec {α : Type} (cast : FD → α → α) (s : ImgSt α) (hw : s.WF) (h : List (HStep α)) :
    (s.run cast h).data = dataSpec s.proxy s.arrFD h s.data ∧ (s.run cast h).proxy = s.proxy ∧
      (s.run cast h).arrFD = s.arrFD :=
  run_data cast s hw h

example : (ImgSt.init false (some .f4) 4).WF ∧
    ((ImgSt.init false (some .f4) 4).run (fun _ k => k + 100)
      [.getFdata .f8 true (some List.reverse), .getFdata .f4 false (some (List.rotateLeft · 1)), .uncache]).data =
      [1, 2, 3, 0] :=
  ⟨init_wf _ _ _, by decide⟩

/-- **values_history_independent** — on a proxy image (loaded from disk) and on an array image whose
    array is not of a native floating dtype, an operation that reads its voxels where THE CODE OF THIS RUN
    reads them (`reorientSrc`, `slicerSrc`: regenerated, = the data object) and gathers voxels `srcs` returns
    exactly the same values after ANY history as on the untouched image, for every cast: every voxel keeps
    its value whatever was done with the image before (float32 caches, edited caches, uncache ...). -/
theorem values_history_independent {α : Type} [Inhabited α] (cast : FD → α → α) (s : ImgSt α) (hw : s.WF)
    (hk : s.proxy = true ∨ s.arrFD = none) (h : List (HStep α)) (srcs : List Nat) :
    (s.run cast h).values reorientSrc srcs = s.values .dataobj srcs ∧
    (s.run cast h).values slicerSrc srcs = s.values .dataobj srcs := by
  rw [gen_value_source_ok.2.2.1, gen_value_source_ok.2.2.2.1]
  unfold ImgSt.values
  simp only [ImgSt.source]
  rw [(run_data cast s hw h).1, dataSpec_inert _ _ hk]
  exact ⟨rfl, rfl⟩

example : (ImgSt.init true none 6).WF ∧ ((ImgSt.init true none 6).proxy = true ∨ (ImgSt.init true none 6).arrFD = none) ∧
    ((ImgSt.init true none 6).run (fun _ k => k) [.getFdata .f4 true (some List.reverse)]).cache =
      some ⟨.f4, [5, 4, 3, 2, 1, 0], false⟩ :=
  ⟨init_wf _ _ _, Or.inl rfl, by decide⟩

/-- **values_cache_counterexample** — the property FAILS for the other value of the model's `Src`
    parameter (an operation that takes the voxels from the `get_fdata` cache when it is filled — the seeded
    change C05_8): on a loaded int image holding 16777217 (= 2^24 + 1), after `get_fdata(dtype=float32)` the
    gathered values are the float32 roundings (16777216), not the voxel values; and even with an exact
    cast an in-place edit of the array `get_fdata` returned is followed.  (`castInt` = IEEE
    round-to-nearest-even of integers.) -/
theorem values_cache_counterexample :
    ((⟨true, none, [16777217, 5], none⟩ : ImgSt Int).run castInt [.getFdata .f4 true none]).values .cache [1, 0] =
      [5, 16777216] ∧
    ((⟨true, none, [16777217, 5], none⟩ : ImgSt Int).run castInt [.getFdata .f4 true none]).values .dataobj [1, 0] =
      [5, 16777217] ∧
    ((⟨true, none, [16777217, 5], none⟩ : ImgSt Int).run (fun _ v => v)
        [.getFdata .f8 true (some List.reverse)]).values .cache [0, 1] = [5, 16777217] ∧
    ((⟨true, none, [16777217, 5], none⟩ : ImgSt Int).run (fun _ v => v)
        [.getFdata .f8 true (some List.reverse)]).values .dataobj [0, 1] = [16777217, 5] := by
  decide +kernel

/-- **values_any_history** — for EVERY image kind: the values an operation reading the data object
    gathers after a history are a gather of `dataSpec` (no cast, no cache), and when the edits made
    through `get_fdata` results only rearrange values, every gathered value is a value the data object
    held originally (or the out-of-range default) — never a cache rendering. -/
theorem values_any_history {α : Type} [Inhabited α] (cast : FD → α → α) (s : ImgSt α) (hw : s.WF)
    (h : List (HStep α)) (srcs : List Nat) :
    (s.run cast h).values .dataobj srcs = srcs.map (fun k => (dataSpec s.proxy s.arrFD h s.data).getD k default) ∧
    ((∀ st ∈ h, st.Rearranges) → ∀ v ∈ (s.run cast h).values .dataobj srcs, v ∈ s.data ∨ v = default) := by
  have hv : (s.run cast h).values .dataobj srcs =
      srcs.map (fun k => (dataSpec s.proxy s.arrFD h s.data).getD k default) := by
    unfold ImgSt.values
    simp only [ImgSt.source]
    rw [(run_data cast s hw h).1]
  refine ⟨hv, ?_⟩
  intro hr v hvm
  rw [hv, List.mem_map] at hvm
  obtain ⟨k, -, rfl⟩ := hvm
  by_cases hk : k < (dataSpec s.proxy s.arrFD h s.data).length
  · left
    apply dataSpec_mem s.proxy s.arrFD h hr s.data
    simp [List.getD, hk]
  · right
    simp [List.getD, List.getElem?_eq_none (Nat.le_of_not_lt hk)]

example : (HStep.getFdata .f4 true (some (List.reverse : List Nat → List Nat))).Rearranges := by
  intro l x hx; simpa using hx

/-- **reorient_history_world** — `as_reoriented` on a loaded (proxy) image of shape `n0 x n1 x n2 x nr`
    whose data object holds the element numbers `range (n0*n1*n2*prod nr)`, after ANY history and for every
    cast, reading the voxels where the code of this run reads them: for each of the 48 orientations, every
    output voxel `j` has its source voxel inside the image at the same world position, the source's
    element number is in range, and THE WHOLE VOXEL LIST of the reoriented image is exactly the list of
    source voxels at the mapped positions. -/
theorem reorient_history_world (A : Aff Int) (n0 n1 n2 : Nat) (nr : List Nat) (d : DimInfo) (o : Ornt)
    (ho : o ∈ allOrnts3) (r : ReorOut)
    (hr : asReoriented A (n0 :: n1 :: n2 :: nr) d (o.map some) = .ok r)
    (cast : FD → Nat → Nat) (arrFD : Option FD) (h : List (HStep Nat)) :
    (∀ j ∈ allIdx r.shape,
      (∃ j0 j1 j2 jr x y z,
        j = j0 :: j1 :: j2 :: jr ∧ r.src (n0 :: n1 :: n2 :: nr) j = x :: y :: z :: jr ∧
        x < n0 ∧ y < n1 ∧ z < n2 ∧ jr ∈ allIdx nr ∧
        r.affine.apply j0 j1 j2 = A.apply x y z) ∧
      ravelC (n0 :: n1 :: n2 :: nr) (r.src (n0 :: n1 :: n2 :: nr) j) < prodN (n0 :: n1 :: n2 :: nr)) ∧
    ((ImgSt.init true arrFD (prodN (n0 :: n1 :: n2 :: nr))).run cast h).values reorientSrc
        ((allIdx r.shape).map (fun j => ravelC (n0 :: n1 :: n2 :: nr) (r.src (n0 :: n1 :: n2 :: nr) j))) =
      (allIdx r.shape).map (fun j => ravelC (n0 :: n1 :: n2 :: nr) (r.src (n0 :: n1 :: n2 :: nr) j)) := by
  have hw : ∀ j ∈ allIdx r.shape, _ := fun j hj => reorient_world A n0 n1 n2 nr d o ho r hr j hj
  have hlt : ∀ j ∈ allIdx r.shape,
      ravelC (n0 :: n1 :: n2 :: nr) (r.src (n0 :: n1 :: n2 :: nr) j) < prodN (n0 :: n1 :: n2 :: nr) := by
    intro j hj
    obtain ⟨j0, j1, j2, jr, x, y, z, -, hs, hx, hy, hz, hjr, -⟩ := hw j hj
    rw [hs]
    exact ravelC_lt _ _ (mem_allIdx_cons.mpr ⟨x, _, hx, mem_allIdx_cons.mpr ⟨y, _, hy,
      mem_allIdx_cons.mpr ⟨z, _, hz, hjr, rfl⟩, rfl⟩, rfl⟩)
  refine ⟨fun j hj => ⟨hw j hj, hlt j hj⟩, ?_⟩
  rw [gen_value_source_ok.2.2.1]
  apply hist_gather_range
  intro k hk
  obtain ⟨j, hj, rfl⟩ := List.mem_map.mp hk
  exact hlt j hj

example : ∃ r, [(1, -1), (0, 1), (2, 1)] ∈ allOrnts3 ∧
    asReoriented ⟨⟨2, 1, 0, -3⟩, ⟨-1, 3, 1, 4⟩, ⟨0, 1, -2, 5⟩⟩ [2, 3, 4, 2] [some 0, some 1, some 2]
      ([(1, -1), (0, 1), (2, 1)].map some) = .ok r ∧ (allIdx r.shape).length = 48 ∧ prodN [2, 3, 4, 2] = 48 := by
  refine ⟨_, by decide, rfl, by decide, by decide⟩

/-- **canonical_history_world** — the same for `as_closest_canonical` (which reorients by
    `io_orientation(img.affine)`), for EVERY polar factor `R`: world position, range, and the whole voxel
    list after any history on a proxy image. -/
theorem canonical_history_world (A : Aff Int) (n0 n1 n2 : Nat) (nr : List Nat) (d : DimInfo) (R : List (List Int))
    (tol : Nat) (enf : Bool) (hR : R.length = 3) (o : OrntN) (r : ReorOut)
    (hc : asClosestCanonical A (n0 :: n1 :: n2 :: nr) d R tol enf = .ok (o, r))
    (cast : FD → Nat → Nat) (arrFD : Option FD) (h : List (HStep Nat)) :
    (∀ j ∈ allIdx r.shape,
      ravelC (n0 :: n1 :: n2 :: nr) (r.src (n0 :: n1 :: n2 :: nr) j) < prodN (n0 :: n1 :: n2 :: nr)) ∧
    ((ImgSt.init true arrFD (prodN (n0 :: n1 :: n2 :: nr))).run cast h).values reorientSrc
        ((allIdx r.shape).map (fun j => ravelC (n0 :: n1 :: n2 :: nr) (r.src (n0 :: n1 :: n2 :: nr) j))) =
      (allIdx r.shape).map (fun j => ravelC (n0 :: n1 :: n2 :: nr) (r.src (n0 :: n1 :: n2 :: nr) j)) := by
  have hlt : ∀ j ∈ allIdx r.shape,
      ravelC (n0 :: n1 :: n2 :: nr) (r.src (n0 :: n1 :: n2 :: nr) j) < prodN (n0 :: n1 :: n2 :: nr) := by
    intro j hj
    obtain ⟨-, j0, j1, j2, jr, x, y, z, -, hs, hx, hy, hz, hjr, -⟩ := canonical_world A n0 n1 n2 nr d R tol enf hR o r hc j hj
    rw [hs]
    exact ravelC_lt _ _ (mem_allIdx_cons.mpr ⟨x, _, hx, mem_allIdx_cons.mpr ⟨y, _, hy,
      mem_allIdx_cons.mpr ⟨z, _, hz, hjr, rfl⟩, rfl⟩, rfl⟩)
  refine ⟨hlt, ?_⟩
  rw [gen_value_source_ok.2.2.1]
  apply hist_gather_range
  intro k hk
  obtain ⟨j, hj, rfl⟩ := List.mem_map.mp hk
  exact hlt j hj

example : ∃ o r, asClosestCanonical ⟨⟨2, 1, 0, -3⟩, ⟨-1, 3, 1, 4⟩, ⟨0, 1, -2, 5⟩⟩ [2, 3, 4, 2] [some 0, none, some 2]
    [[5, -2, 9], [-5, 3, 2], [2, 8, -1]] 0 false = .ok (o, r) ∧ (allIdx r.shape).length = 48 := by
  refine ⟨_, _, rfl, by decide⟩

end Nb.C05
