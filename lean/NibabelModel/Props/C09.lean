import NibabelModel.Model.C09
/-! Props/C09 — the property theorems for C09 (statements + proofs; helper lemmas live in Lemmas/). -/
namespace Nb.C09

end Nb.C09
