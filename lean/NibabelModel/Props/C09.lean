import NibabelModel.Model.C09
import NibabelModel.Lemmas.C09
import NibabelModel.Generated.C09
/-! Props/C09 — any load / modify / save history leaves correct files and a live process.

  Vocabulary (definitions in Lemmas/C09.lean):
  * `WF s`        : no file of the abstract file system is left truncated, and the live image (if any) is usable:
                    its proxy's source file is intact, has the layout the proxy was built with and holds the data
                    the image had when it was loaded (`ImgOk`); an owning fdata cache holds the same data;
  * `StepSpec`    : the op did not crash (`≠ .bad`); a `save q` wrote EXACTLY the image state — data and affine the
                    image has at that step — to `q`, changed no other path, and left the image's state alone; every
                    other op leaves the file system untouched;
  * `Usable s`    : the end-of-history probe (`get_fdata()`, then `np.asanyarray(img.dataobj)`) succeeds and returns
                    the data the image was loaded with;
  * `allowed` / `allowedRun` : THE GUARD — a save onto the live image's OWN source path keeps the on-disk layout
                    (dtype, byte order, scaling) the proxy was built with.  Every other op and save is allowed.

  ONE live image per history (a `load` replaces it); fresh verification loads are `load` on the resulting file system.

  FULL STATEMENT (not provable for the code as it is — see `current_stale_source_counterexample`):
      theorem history_safe (s : St) (hw : WF s) (ops : List Op) : Safe s ops
  The guard `allowedRun s ops` is what is missing: after `set_data_dtype` + save onto the image's own source file the
  live image keeps an ArrayProxy (and possibly a float memmap fdata cache) built for the OLD layout of that file
  (open findings `stale-proxy-…` / `stale-fdata-memmap-…`).  The FILES written are correct without the guard
  (`save_writes_image_state`).
-/
namespace Nb.C09

/-- the initial file system of the harness: eleven files, file i holds data i / affine i, given dtypes; `s.img` is an
    SPM2 Analyze pair, `n.nii` a NIfTI-2 file (`initCls`) -/
def fs0 (dts : Path → DT) : FS := fun p => some (.intact (initContent p (dts p) false false))

theorem fs0_wf (dts : Path → DT) : WF ⟨fs0 dts, none⟩ :=
  ⟨fun p => by simp [fs0], fun im h => by simp at h⟩

/-- ONE STEP, any op, any well-formed state: no crash, the save wrote the image state and nothing else, the
    invariant is re-established and the image is usable afterwards. -/
theorem step_safe (s : St) (op : Op) (hw : WF s) (ha : allowed s op = true) :
    StepSpec s op (step .owners s op) ∧ WF (step .owners s op).2 ∧ Usable (step .owners s op).2 :=
  let h := step_safe_aux s op hw ha
  ⟨h.1, h.2, usable_of_WF h.2⟩

example : ∃ s op, WF s ∧ allowed s op = true ∧ s.img.isSome ∧ op = .save .aNii :=
  ⟨(step .owners ⟨fs0 fun _ => .i16, none⟩ (.load .aNii true)).2, .save .aNii,
   (step_safe _ _ (fs0_wf _) rfl).2.1, by decide, by decide, rfl⟩

/-- HISTORIES of any length (induction over the op list): from a well-formed state, under the guard, no step
    crashes, every save writes exactly the image state at that step to its target and touches no other path, and
    the image is usable after every step and at the end.  `_partial`: the guard `allowedRun` (see file header). -/
theorem history_safe_partial (s : St) (hw : WF s) (ops : List Op) (ha : allowedRun s ops = true) : Safe s ops :=
  safe_of_WF ops s hw ha

/-- non-vacuity: a 9-step history with self-overwrites of a memory-mapped source, saves to several destinations,
    class conversions NIfTI→MGH→pair and a dtype change that is saved elsewhere satisfies the guard -/
example : allowedRun ⟨fs0 fun _ => .i16, none⟩
    [.load .aNii true, .fdata false, .save .aNii, .save .aMgz, .setDt .f32, .save .bNii, .save .aImg, .load .aMgz true,
     .save .aMgz] = true := by decide

/-- … and one through the SPM2 pair, the NIfTI-2 file and the compressed names, with a float32 `get_fdata` -/
example : allowedRun ⟨fs0 fun _ => .f32, none⟩
    [.load .sImg true, .fdata true, .save .sImg, .save .cImgGz, .hdrEdit 6, .save .aNiiBz2, .load .nNii true, .fdata false,
     .save .nNii, .save .aImg, .setAff 7, .save .bNiiZst, .save .nNii] = true := by decide

/-- the executable history runner (the function the driver prints) agrees: under the guard it never emits `bad`,
    produces one outcome per op, and ends in a well-formed state -/
theorem run_never_bad (s : St) (hw : WF s) (ops : List Op) (ha : allowedRun s ops = true) :
    (∀ o ∈ (run .owners s ops).1, o ≠ .bad) ∧ (run .owners s ops).1.length = ops.length ∧
      ∃ f, (run .owners s ops).2 = some f ∧ WF f :=
  run_ok ops s hw ha

/-- WITHOUT the guard: every save (also a layout-changing save onto the image's own memory-mapped source) writes
    a file that a fresh load decodes to the data and the affine the image had at that save, as an image of the
    class `save()` converts to, which accepts the extension.
    NOTE on content: data are ids, so `im2.data = im.data` says "the data written are the ones the proxy of a
    well-formed image resolves to" — the work is done by the invariant `WF` (`step_safe` re-establishes it), without
    which `writeTo` yields `bad`;  `im2.aff = im.aff` is the `update_header` decision (`outAff_eq`,
    `update_header_affine_close`): the file's affine is the best affine of the reconciled header (SPM2: `.mat`). -/
theorem save_writes_image_state (s : St) (hw : WF s) (im : Img) (hi : s.img = some im) (q : Path) (mm : Bool) :
    (step .owners s (.save q)).1 = .saved (savedContent im q) ∧
    ∃ im2, load (step .owners s (.save q)).2.fs q mm = some im2 ∧ im2.data = im.data ∧ im2.aff = im.aff ∧
      im2.cls = outCls im.cls q.ext ∧ im2.cls.validExt q.ext = true ∧
      (im2.cls ≠ .spm2 → im2.xf.best = im.aff) ∧
      ∀ p, p ≠ q → (step .owners s (.save q)).2.fs p = s.fs p := by
  obtain ⟨fs, img⟩ := s
  simp only at hi
  subst hi
  have hok : ImgOk fs im := hw.2 im rfl
  simp only [step, withImg, save_cur hok]
  refine ⟨trivial, ?_⟩
  simp only [load, FS.set_same]
  refine ⟨_, rfl, rfl, rfl, rfl, ?_, ?_, fun p hp => FS.set_other _ _ hp⟩
  · simp only [savedContent]; cases im.cls <;> cases q.ext <;> rfl
  · intro hc
    have h1 := outAff_eq im q
    simp only [savedContent] at hc
    simp only [outAff, if_neg hc] at h1
    exact h1

example : ∃ s im, WF s ∧ s.img = some im ∧ im.mapped = true :=
  ⟨(step .owners ⟨fs0 fun _ => .f32, none⟩ (.load .aImg true)).2, _, (step_safe _ _ (fs0_wf _) rfl).2.1, rfl, by decide⟩

/-- for the three classes of the original alphabet the class written is the class by extension alone (finite case
    check over the conversion table `outCls`; the table itself is tied to the source by `generated_outCls_agree`) -/
theorem save_class_by_extension (c : Cls) (hc : c = .nifti1 ∨ c = .pair ∨ c = .mgh) (q : Path) :
    outCls c q.ext = q.cls := by
  rcases hc with h | h | h <;> subst h <;> cases q <;> rfl

/-! ### `update_header`: which affine reaches the file -/

/-- THE DECISION RULE of `update_header()` for ANY closeness predicate that is reflexive (`np.allclose`): whatever the
    header's affine fields held (edited directly, copied by a conversion, or fresh), after `update_header` the
    header's best affine is close to `img.affine` — kept when it already was, overwritten (`_affine2header`) when not. -/
theorem update_header_affine_close (close : Nat → Nat → Bool) (hrefl : ∀ a, close a a = true) (c : Cls)
    (hc : c ≠ .spm2) (a : Nat) (x : XF) :
    close a (reconcile close c a x).best = true ∧
    (close a x.best = true → reconcile close c a x = x) ∧
    (close a x.best = false → reconcile close c a x = affine2header c a x) := by
  refine ⟨reconcile_best_close close hrefl hc a x, ?_, ?_⟩
  · intro h; simp [reconcile, hc, h]
  · intro h; simp [reconcile, hc, h]

example : ∃ (close : Nat → Nat → Bool) (x : XF), (∀ a, close a a = true) ∧ close 5 x.best = false ∧
    (reconcile close .nifti1 5 x).sc = 2 :=
  ⟨closeId, ⟨3, 7, 2, 7⟩, fun a => by simp [closeId], by decide, by decide⟩

/-- NIfTI `get_best_affine` precedence: a set sform masks the qform; the qform counts only with `sform_code = 0`.
    (Definitional glue: restates `XF.best` case by case so that the precedence the other theorems rely on is visible
    and audited; the correspondence streams `hdraffine`/`exh3x` compare it with `Nifti1Header.get_best_affine`.) -/
theorem best_affine_precedence (x : XF) :
    (x.sc ≠ 0 → x.best = x.sa) ∧ (x.sc = 0 → x.qc ≠ 0 → x.best = x.qa) ∧ (x.sc = 0 → x.qc = 0 → x.best = baseAff) := by
  refine ⟨fun h => by simp [XF.best, h], fun h1 h2 => by simp [XF.best, h1, h2], fun h1 h2 => by simp [XF.best, h1, h2]⟩

/-- the affine a fresh load of the written file decodes, with `update_header` deciding by an arbitrary closeness
    predicate (the executable model is the instance `closeId`) -/
def outAffC (close : Nat → Nat → Bool) (im : Img) (q : Path) : Nat :=
  if outCls im.cls q.ext = .spm2 then im.aff
  else (reconcile close (outCls im.cls q.ext) im.aff (outHeader im q).2.2.2).best

/-- EVERY save, converting or not, whatever the header's affine fields hold, for ANY reflexive closeness predicate:
    the affine of the written file is close to the affine the image has at that save (SPM2: equal — `.mat` file) -/
theorem saved_affine_close (close : Nat → Nat → Bool) (hrefl : ∀ a, close a a = true) (im : Img) (q : Path) :
    close im.aff (outAffC close im q) = true ∧ outAffC closeId im q = outAff im q := by
  refine ⟨?_, rfl⟩
  unfold outAffC
  by_cases hc : outCls im.cls q.ext = .spm2
  · rw [if_pos hc]; exact hrefl _
  · rw [if_neg hc]; exact reconcile_best_close close hrefl hc _ _

example : ∃ (close : Nat → Nat → Bool) (im : Img) (q : Path), (∀ a, close a a = true) ∧ outAffC close im q ≠ im.aff :=
  ⟨fun a b => a / 10 == b / 10, { (default : Img) with cls := .nifti1, aff := 10, xf := ⟨2, 11, 0, 11⟩ }, .aNii,
   fun a => by simp, by decide⟩

/-- any number of direct header edits -/
def hdrEdits (s : St) : List Nat → St
  | [] => s
  | k :: ks => hdrEdits (step .owners s (.hdrEdit k)).2 ks

theorem hdrEdits_spec (fs : FS) (im : Img) : ∀ ks : List Nat, ∃ x, hdrEdits ⟨fs, some im⟩ ks = ⟨fs, some { im with xf := x }⟩
  | [] => ⟨im.xf, rfl⟩
  | k :: ks => by
      obtain ⟨x, hx⟩ := hdrEdits_spec fs { im with xf := hdrEditXF im.cls k im.xf } ks
      exact ⟨x, by simpa [hdrEdits, step, withImg] using hx⟩

/-- header affine fields edited directly (`img.header.set_sform(B, 3)`, `set_sform(None, 0); set_qform(B, 2)`, MGH
    `Mdc/Pxyz_c`, … — ANY number of edits) do not reach the file: the save after the edits writes a file that decodes
    to the image's own affine, with the same data, dtype, byte order, scaling, tag and class as the save without the
    edits, and the same other files.  (The transform CODES of the file may differ: a header whose best affine was
    edited away from `img.affine` is rewritten with sform 'aligned' / qform 'unknown' — `update_header_affine_close`.)
    This is the `update_header()` decision on the image itself, or on the `from_image` copy for a converting save. -/
theorem save_ignores_header_affine_edits (s : St) (hw : WF s) (im : Img) (hi : s.img = some im) (q : Path)
    (ks : List Nat) :
    ∃ c c', (step .owners s (.save q)).1 = .saved c ∧ (step .owners (hdrEdits s ks) (.save q)).1 = .saved c' ∧
      c.aff = im.aff ∧ c'.aff = im.aff ∧ c'.data = c.data ∧ c'.dt = c.dt ∧ c'.be = c.be ∧ c'.scaled = c.scaled ∧
      c'.tag = c.tag ∧ c'.cls = c.cls ∧
      ∀ p, p ≠ q → (step .owners (hdrEdits s ks) (.save q)).2.fs p = (step .owners s (.save q)).2.fs p := by
  obtain ⟨fs, img⟩ := s
  simp only at hi
  subst hi
  obtain ⟨x, hx⟩ := hdrEdits_spec fs im ks
  have hok : ImgOk fs im := hw.2 im rfl
  have hok' : ImgOk fs { im with xf := x } := ⟨hok.1, hok.2.1, hok.2.2.1, hok.2.2.2⟩
  rw [hx]
  simp only [step, withImg, save_cur hok, save_cur hok']
  refine ⟨_, _, rfl, rfl, rfl, rfl, rfl, ?_, ?_, ?_, ?_, rfl, ?_⟩
  · simp only [savedContent, outHeader]; split <;> (try split) <;> (try split) <;> rfl
  · simp only [savedContent, outHeader]; split <;> (try split) <;> (try split) <;> rfl
  · simp only [savedContent, outScaled, outHeader, Img.arrFloat]
    split <;> (try split) <;> (try split) <;> rfl
  · simp only [savedContent, outHeader]; split <;> (try split) <;> (try split) <;> rfl
  · intro p hp
    rw [FS.set_other _ _ hp, FS.set_other _ _ hp]

/-- the single-edit form of the above, with the observation that an edit AWAY from the image affine onto a header
    that agreed with the image leaves even the transform codes of the file as `_affine2header` sets them -/
theorem save_ignores_header_affine_edit (s : St) (hw : WF s) (im : Img) (hi : s.img = some im) (q : Path) (k : Nat) :
    ∃ c c', (step .owners s (.save q)).1 = .saved c ∧ (step .owners (step .owners s (.hdrEdit k)).2 (.save q)).1 = .saved c' ∧
      c.aff = im.aff ∧ c'.aff = im.aff ∧ c'.data = c.data ∧ c'.dt = c.dt ∧ c'.be = c.be ∧ c'.scaled = c.scaled ∧
      c'.tag = c.tag ∧ c'.cls = c.cls ∧
      ∀ p, p ≠ q → (step .owners (step .owners s (.hdrEdit k)).2 (.save q)).2.fs p = (step .owners s (.save q)).2.fs p :=
  save_ignores_header_affine_edits s hw im hi q [k]

example : ∃ s im, WF s ∧ s.img = some im ∧ im.hdrAff ≠ im.aff :=
  ⟨(step .owners (step .owners ⟨fs0 fun _ => .i16, none⟩ (.load .aNii true)).2 (.hdrEdit 7)).2, _,
   (step_safe _ _ (step_safe _ _ (fs0_wf _) rfl).2.1 rfl).2.1, rfl, by decide⟩

/-- an edit that leaves the header's best affine EQUAL to the image affine is kept, transform codes included (the
    `allclose` branch): `load a.nii; img.header.set_sform(img.affine, code=3); save b.nii` writes sform_code 3 -/
theorem header_edit_kept_when_affine_agrees :
    (run .owners ⟨fs0 fun _ => .i16, none⟩ [.load .aNii true, .hdrEdit 0, .save .bNii, .hdrEdit 7, .save .aImg]).1 =
      [.loadOk, .unit,
       .saved { cls := .nifti1, data := 0, aff := 0, dt := .i16, be := false, scaled := false, tag := 0, xf := ⟨3, 0, 0, 0⟩ },
       .unit,
       .saved { cls := .pair, data := 0, aff := 0, dt := .i16, be := false, scaled := false, tag := 0, xf := ⟨2, 0, 0, 0⟩ }] := by
  decide

/-! ### class bookkeeping of `save()` -/

/-- the class `save()` writes always accepts the extension (so `converted.to_filename` cannot raise
    `ImageFileError`), converting once is enough, and an accepted extension never converts -/
theorem outCls_valid (c : Cls) (e : Ext) :
    (outCls c e).validExt e = true ∧ outCls (outCls c e) e = outCls c e ∧ (c.validExt e = true → outCls c e = c) := by
  cases c <;> cases e <;> decide

/-- class invariant: every file holds an image of a class that accepts the file's extension, and the live image
    is of a class that accepts its source's extension -/
def ClsWF (s : St) : Prop :=
  (∀ p c, s.fs p = some (.intact c) → c.cls.validExt p.ext = true) ∧
  (∀ im, s.img = some im → im.cls.validExt im.src.ext = true)

theorem fs0_clsWF (dts : Path → DT) : ClsWF ⟨fs0 dts, none⟩ := by
  refine ⟨fun p c h => ?_, fun im h => by simp at h⟩
  simp only [fs0, Option.some.injEq, File.intact.injEq] at h
  subst h
  cases p <;> rfl

/-- every op preserves the class invariant (no guard needed) -/
theorem step_clsWF (s : St) (op : Op) (hw : WF s) (hc : ClsWF s) : ClsWF (step .owners s op).2 := by
  obtain ⟨fs, img⟩ := s
  obtain ⟨hf, hi⟩ := hc
  simp only at hf hi
  cases img with
  | none =>
      cases op with
      | load p mm =>
          simp only [step]
          cases hl : load fs p mm with
          | none => exact ⟨hf, hi⟩
          | some im =>
              refine ⟨hf, fun im' h' => ?_⟩
              simp only [Option.some.injEq] at h'
              subst h'
              unfold load at hl
              split at hl
              · rename_i c hc'
                simp only [Option.some.injEq] at hl
                subst hl
                exact hf p c hc'
              · simp at hl
      | _ => exact ⟨hf, hi⟩
  | some im =>
      have hok : ImgOk fs im := hw.2 im rfl
      have hv : im.cls.validExt im.src.ext = true := hi im rfl
      have keep : ∀ im1 : Img, im1.cls = im.cls → im1.src = im.src → ClsWF ⟨fs, some im1⟩ := fun im1 h1 h2 =>
        ⟨hf, fun im' h' => by simp only [Option.some.injEq] at h'; subst h'; rw [h1, h2]; exact hv⟩
      cases op with
      | load p mm =>
          simp only [step]
          cases hl : load fs p mm with
          | none => exact ⟨hf, hi⟩
          | some im2 =>
              refine ⟨hf, fun im' h' => ?_⟩
              simp only [Option.some.injEq] at h'
              subst h'
              unfold load at hl
              split at hl
              · rename_i c hc'
                simp only [Option.some.injEq] at hl
                subst hl
                exact hf p c hc'
              · simp at hl
      | fdata w =>
          obtain ⟨ca, hg, _⟩ := getFdata_ok hok w
          simp only [step, withImg, hg]
          exact keep _ rfl rfl
      | uncache => exact keep _ rfl rfl
      | edit k => exact keep _ rfl rfl
      | setAff k =>
          simp only [step, withImg]
          cases im.cls.isNifti <;> exact keep _ rfl rfl
      | hdrEdit k => exact keep _ rfl rfl
      | setDt dt =>
          simp only [step, withImg]
          by_cases h : im.cls = .mgh ∧ mghOk dt = false
          · simp only [h, and_self, if_true]; exact ⟨hf, hi⟩
          · simp only [h, if_false]; exact keep _ rfl rfl
      | toBytes =>
          simp only [step, withImg]
          unfold toBytes
          cases im.cls.hasToBytes
          · simp only [if_true]; exact ⟨hf, hi⟩
          · simp only [Bool.true_eq_false, if_false, materialise_deref hok]; exact keep _ rfl rfl
      | wrap k =>
          obtain ⟨a, hwr, _⟩ := wrapImg_ok hok k
          simp only [step, withImg, hwr]
          exact keep _ rfl rfl
      | save q =>
          simp only [step, withImg, save_cur hok]
          refine ⟨fun p c h => ?_, fun im' h' => ?_⟩
          · by_cases e : p = q
            · subst e
              simp only [FS.set_same, Option.some.injEq, File.intact.injEq] at h
              subst h
              exact (outCls_valid im.cls p.ext).1
            · simp only [FS.set_other _ _ e] at h; exact hf p c h
          · simp only [Option.some.injEq] at h'
            subst h'
            by_cases hc : outCls im.cls q.ext = im.cls
            · simp only [hc, if_true]; exact hv
            · simp only [hc, if_false]; exact hv

/-- a save onto the image's own source never converts the class (so it rebinds `file_map` and reconciles the
    image's OWN header), in every state a history can reach -/
theorem self_save_keeps_class (s : St) (hc : ClsWF s) (im : Img) (hi : s.img = some im) :
    outCls im.cls im.src.ext = im.cls :=
  (outCls_valid im.cls im.src.ext).2.2 (hc.2 im hi)

/-- … along whole histories: the class invariant holds after any allowed history from the harness' file system -/
theorem run_clsWF : ∀ (ops : List Op) (s : St), WF s → ClsWF s → allowedRun s ops = true →
    ∃ f, (run .owners s ops).2 = some f ∧ ClsWF f
  | [], s, _, hc, _ => ⟨s, rfl, hc⟩
  | op :: rest, s, hw, hc, ha => by
      simp only [allowedRun, Bool.and_eq_true] at ha
      obtain ⟨hspec, hw'⟩ := step_safe_aux s op hw ha.1
      obtain ⟨f, h3, h4⟩ := run_clsWF rest _ hw' (step_clsWF s op hw hc) ha.2
      have hne : (step .owners s op).1 ≠ .bad := hspec.1
      have hrun : (run .owners s (op :: rest)).2 = (run .owners (step .owners s op).2 rest).2 := by
        rw [run]
        generalize step .owners s op = r at hne
        obtain ⟨o, s'⟩ := r
        cases o <;> first | rfl | exact absurd rfl hne
      exact ⟨f, by rw [hrun]; exact h3, h4⟩

example : ∃ s im, WF s ∧ ClsWF s ∧ s.img = some im ∧ im.cls = .spm2 ∧ im.src = .sImg :=
  ⟨(step .owners ⟨fs0 fun _ => .i16, none⟩ (.load .sImg true)).2, _, (step_safe _ _ (fs0_wf _) rfl).2.1,
   step_clsWF _ _ (fs0_wf _) (fs0_clsWF _), rfl, rfl, rfl⟩

/-! ### the repaired defect -/

/-- ORIGINAL logic (no copy of the memmap before the target is opened 'wb'): `nib.save(nib.load('a.nii'), 'a.nii')`
    reads its data through the truncated file. -/
theorem orig_self_overwrite_crashes :
    (run .none ⟨fs0 fun _ => .i16, none⟩ [.load .aNii true, .save .aNii]).1 = [.loadOk, .bad] := by decide

/-- … and so does EVERY self-overwrite of a memory-mapped source in any well-formed state (all of `.nii`, `.img`
    incl. the SPM2 pair and NIfTI-2, `.mgh`; compressed names and `mmap=False` are not `mapped`).  `fileMapped` = the
    image's array reads the source file: a loaded image that is `mapped`, or a re-wrapped view of its memmap. -/
theorem orig_self_overwrite_crashes_all_plain (s : St) (hw : WF s) (im : Img) (hi : s.img = some im)
    (hm : im.fileMapped = true) : (step .none s (.save im.src)).1 = .bad := by
  obtain ⟨fs, img⟩ := s
  simp only at hi
  subst hi
  have hb := writeTo_orig_self (hw.2 im rfl) hm
  simp only [step, withImg, save]
  revert hb
  generalize writeTo .none fs im im.src = r
  obtain ⟨o, fs'⟩ := r
  intro hb
  simp only at hb
  subst hb
  rfl

example : ∃ s im, WF s ∧ s.img = some im ∧ im.fileMapped = true ∧ im.src = .aMgh :=
  ⟨(step .owners ⟨fs0 fun _ => .i16, none⟩ (.load .aMgh true)).2, _, (step_safe _ _ (fs0_wf _) rfl).2.1, rfl,
   by decide, rfl⟩

example : ∃ s im, WF s ∧ s.img = some im ∧ im.fileMapped = true ∧ im.src = .sImg ∧ im.cls = .spm2 :=
  ⟨(step .owners ⟨fs0 fun _ => .i16, none⟩ (.load .sImg true)).2, _, (step_safe _ _ (fs0_wf _) rfl).2.1, rfl,
   by decide, rfl, rfl⟩

/-- CURRENT logic on the same histories: the self-overwrite succeeds and writes the image state.
    (Corollary of `save_writes_image_state` at `q = im.src`, kept as the positive twin of the theorem above.) -/
theorem current_self_overwrite_ok (s : St) (hw : WF s) (im : Img) (hi : s.img = some im) :
    (step .owners s (.save im.src)).1 = .saved (savedContent im im.src) :=
  (save_writes_image_state s hw im hi im.src true).1

/-- the original logic was wrong ONLY there: off the image's own source it coincides with the current logic -/
theorem orig_safe_off_source (s : St) (hw : WF s) (im : Img) (hi : s.img = some im) (q : Path) (hq : q ≠ im.src) :
    (step .none s (.save q)).1 = (step .owners s (.save q)).1 ∧
    (step .none s (.save q)).2.fs = (step .owners s (.save q)).2.fs := by
  obtain ⟨fs, img⟩ := s
  simp only at hi
  subst hi
  simp only [step, withImg, save, writeTo_orig_off_source (hw.2 im rfl) hq]
  exact ⟨trivial, trivial⟩

example : ∃ s im q, WF s ∧ s.img = some im ∧ q ≠ im.src :=
  ⟨(step .owners ⟨fs0 fun _ => .i16, none⟩ (.load .aNii true)).2, _, .bNii, (step_safe _ _ (fs0_wf _) rfl).2.1, rfl,
   by decide⟩

/-! ### the second and third repair (ae98171b, 8d96c629): re-wrapped arrays that read the memory map -/

/-- the kind of array each re-wrap op of the alphabet builds from a memory-mapped LOADED image
    (`none`: an array that owns its memory, or — `fdata` — either an np.memmap instance or an owning array) -/
def Wrap.kindOfMapped : Wrap → Option VKind
  | .plainView => some .plain
  | .mapInst => some .inst
  | .proxy => some .inst
  | .hiddenView => some .hidden
  | .rawMap => some .hidden
  | .copy => none
  | .fdata => none

/-- what the re-wrap op builds from a memory-mapped LOADED image, for each of the seven array kinds of the op
    alphabet: a base-class view reachable through ndarray `.base` links (`np.asarray(img.dataobj)`, `[::1]`, `.T.T`,
    `.view(np.ndarray)`, `np.asfortranarray`), an np.memmap instance (`np.asanyarray`, `[..., :]`), the proxy, an owning
    copy, a view that reaches the map only through a memoryview / array-interface holder (`as_strided`,
    `np.asarray(memoryview(m))`, `sliding_window_view`, `np.frombuffer(mmap.mmap(file))`); `get_fdata()` yields the
    memmap itself or an owning array -/
theorem wrap_of_mapped_proxy {fs : FS} {im : Img} (h : ImgOk fs im) (hp : im.arr = .proxy) (hm : im.mapped = true) :
    wrapImg fs im .plainView = some (rewrapped im (.view .plain)) ∧
    wrapImg fs im .mapInst = some (rewrapped im (.view .inst)) ∧
    wrapImg fs im .copy = some (rewrapped im (.owned im.data im.arrFloat)) ∧
    wrapImg fs im .proxy = some (rewrapped im .proxy) ∧
    (wrapImg fs im .fdata = some (rewrapped im (.view .inst)) ∨
     wrapImg fs im .fdata = some (rewrapped im (.owned im.data true))) ∧
    wrapImg fs im .hiddenView = some (rewrapped im (.view .hidden)) ∧
    wrapImg fs im .rawMap = some (rewrapped im (.view .hidden)) := by
  have hb : im.backed = true := by simp [Img.backed, Arr.backed, hp]
  have hmat : materialise fs im = some (.ref im.src im.srcDt im.srcBe im.srcScaled .inst) := by
    rw [materialise_ok h]; simp [Img.matOf, hp, hm]
  -- the constructor step (`wrapArr`) …
  have a1 : wrapArr fs im .plainView = some (rewrapped im (.view .plain)) := by simp [wrapArr, hmat]
  have a2 : wrapArr fs im .mapInst = some (rewrapped im (.view .inst)) := by simp [wrapArr, hmat]
  have a3 : wrapArr fs im .copy = some (rewrapped im (.owned im.data im.arrFloat)) := by simp [wrapArr, hmat, h.1 hb]
  have a4 : wrapArr fs im .proxy = some (rewrapped im .proxy) := by simp [wrapArr, hp]
  have a5 : wrapArr fs im .fdata = some (rewrapped im (.view .inst)) ∨
      wrapArr fs im .fdata = some (rewrapped im (.owned im.data true)) := by
    obtain ⟨ca, hg, _⟩ := getFdata_ok h false
    unfold wrapArr
    rw [hg]
    simp only [hp]
    cases ca with
    | alias w => cases w <;> simp
    | owned d w => simp
    | none => simp
  have a6 : wrapArr fs im .hiddenView = some (rewrapped im (.view .hidden)) := by simp [wrapArr, hmat]
  have a7 : wrapArr fs im .rawMap = some (rewrapped im (.view .hidden)) := by
    unfold wrapArr
    split <;> simp_all
  -- … and the touch of the new image's data (`wrapImg`): every result is usable
  have lift : ∀ k a, wrapArr fs im k = some (rewrapped im a) → wrapImg fs im k = some (rewrapped im a) := by
    intro k a hk
    obtain ⟨a', h1', h2'⟩ := wrapArr_ok h k
    rw [h1'] at hk
    simp only [Option.some.injEq] at hk
    rw [← hk]
    exact wrapImg_of_wrapArr h1' h2'
  exact ⟨lift _ _ a1, lift _ _ a2, lift _ _ a3, lift _ _ a4,
    a5.elim (fun e => Or.inl (lift _ _ e)) (fun e => Or.inr (lift _ _ e)), lift _ _ a6, lift _ _ a7⟩

/-- ANY guard that copies np.memmap instances (`inst`, `baseNd`, `owners`): after re-wrapping a memory-mapped loaded
    image with array kind `k` (the seven kinds of the op alphabet), saving the new image onto the source file reads
    through the truncated file iff the array built is a view of a kind the guard does not copy. -/
theorem guard_view_overwrite_crashes (g : Guard) (hgi : g.copies .inst = true) (s : St) (hw : WF s) (im : Img)
    (hi : s.img = some im) (hp : im.arr = .proxy) (hm : im.mapped = true) (k : Wrap) :
    (step g (step g s (.wrap k)).2 (.save im.src)).1 = .bad ↔
      ∃ vk, k.kindOfMapped = some vk ∧ g.copies vk = false := by
  obtain ⟨fs, img⟩ := s
  simp only at hi
  subst hi
  have hok : ImgOk fs im := hw.2 im rfl
  obtain ⟨h1, h2, h3, h4, h5, h6, h7⟩ := wrap_of_mapped_proxy hok hp hm
  -- outcome of the save for each array the op can have produced
  have bad_view : ∀ vk, g.copies vk = false → ImgOk fs (rewrapped im (.view vk)) →
      (step g ⟨fs, some (rewrapped im (.view vk))⟩ (.save im.src)).1 = .bad := by
    intro vk hc hoka
    have := writeTo_guard_self (g := g) hoka vk (by simp [Img.matOf, rewrapped]) hc
    simp only [rewrapped] at this
    simp only [step, withImg, save, rewrapped]
    revert this
    generalize writeTo g fs _ im.src = r
    obtain ⟨o, fs'⟩ := r
    intro hbad
    simp only at hbad
    subst hbad
    rfl
  have ok_other : ∀ a, (∀ vk, a = Arr.view vk → g.copies vk = true) → ImgOk fs (rewrapped im a) →
      (step g ⟨fs, some (rewrapped im a)⟩ (.save im.src)).1 ≠ .bad := by
    intro a ha hoka
    have heq : writeTo g fs (rewrapped im a) im.src = writeTo .owners fs (rewrapped im a) im.src := by
      apply writeTo_guard_eq hoka
      cases a with
      | owned d fl => left; rfl
      | proxy =>
          right; right
          exact ⟨.inst, by simp [Img.matOf, rewrapped, Img.mapped] at hm ⊢; simp [hm], hgi⟩
      | view v => right; right; exact ⟨v, by simp [Img.matOf, rewrapped], ha v rfl⟩
    simp only [step, withImg, save]
    rw [heq, writeTo_cur hoka]
    simp
  have okOf : ∀ a, wrapImg fs im k = some (rewrapped im a) → ImgOk fs (rewrapped im a) := by
    intro a ha
    obtain ⟨a', h1', h2'⟩ := wrapImg_ok hok k
    rw [h1'] at ha
    simp only [Option.some.injEq] at ha
    rw [← ha]; exact h2'
  -- a view of kind vk: crashes iff the guard does not copy vk
  have view_case : ∀ vk, wrapImg fs im k = some (rewrapped im (.view vk)) →
      ((step g (step g ⟨fs, some im⟩ (.wrap k)).2 (.save im.src)).1 = .bad ↔ g.copies vk = false) := by
    intro vk hwk
    have hoka := okOf _ hwk
    simp only [step, withImg, hwk]
    cases hc : g.copies vk
    · have hbad := bad_view vk hc hoka
      simp only [step, withImg] at hbad
      exact ⟨fun _ => rfl, fun _ => hbad⟩
    · have hne := ok_other _ (fun v e => by simp at e; rw [← e]; exact hc) hoka
      simp only [step, withImg] at hne
      exact ⟨fun hbad => absurd hbad hne, fun h => nomatch h⟩
  have never : ∀ a, (∀ vk, a = Arr.view vk → g.copies vk = true) → wrapImg fs im k = some (rewrapped im a) →
      (step g (step g ⟨fs, some im⟩ (.wrap k)).2 (.save im.src)).1 ≠ .bad := by
    intro a ha hwk
    have hne := ok_other a ha (okOf _ hwk)
    simp only [step, withImg, hwk]
    simp only [step, withImg] at hne
    exact hne
  cases k with
  | plainView =>
      rw [view_case _ h1]
      exact ⟨fun h => ⟨.plain, rfl, h⟩, fun ⟨vk, e, h⟩ => by simp [Wrap.kindOfMapped] at e; rw [e]; exact h⟩
  | mapInst =>
      rw [view_case _ h2]
      exact ⟨fun h => ⟨.inst, rfl, h⟩, fun ⟨vk, e, h⟩ => by simp [Wrap.kindOfMapped] at e; rw [e]; exact h⟩
  | hiddenView =>
      rw [view_case _ h6]
      exact ⟨fun h => ⟨.hidden, rfl, h⟩, fun ⟨vk, e, h⟩ => by simp [Wrap.kindOfMapped] at e; rw [e]; exact h⟩
  | rawMap =>
      rw [view_case _ h7]
      exact ⟨fun h => ⟨.hidden, rfl, h⟩, fun ⟨vk, e, h⟩ => by simp [Wrap.kindOfMapped] at e; rw [e]; exact h⟩
  | copy =>
      refine ⟨fun hbad => absurd hbad (never _ (fun vk e => by simp at e) h3), fun ⟨vk, e, _⟩ => by simp [Wrap.kindOfMapped] at e⟩
  | proxy =>
      refine ⟨fun hbad => absurd hbad (never _ (fun vk e => by simp at e) h4), fun ⟨vk, e, h⟩ => ?_⟩
      simp [Wrap.kindOfMapped] at e
      rw [← e, hgi] at h
      exact absurd h (by simp)
  | fdata =>
      refine ⟨fun hbad => ?_, fun ⟨vk, e, _⟩ => by simp [Wrap.kindOfMapped] at e⟩
      rcases h5 with h5 | h5
      · exact absurd hbad (never _ (fun vk e => by simp at e; rw [← e]; exact hgi) h5)
      · exact absurd hbad (never _ (fun vk e => by simp at e) h5)

/-- THE INSTANCE-CHECK GUARD (`isinstance(data, np.memmap)`, fae418e9 … ae98171b^): over the seven array kinds of the
    re-wrap op, the self-save crashes exactly for the views that are not np.memmap instances -/
theorem orig_view_overwrite_crashes (s : St) (hw : WF s) (im : Img) (hi : s.img = some im) (hp : im.arr = .proxy)
    (hm : im.mapped = true) (k : Wrap) :
    (step .inst (step .inst s (.wrap k)).2 (.save im.src)).1 = .bad ↔
      (k = .plainView ∨ k = .hiddenView ∨ k = .rawMap) := by
  rw [guard_view_overwrite_crashes .inst rfl s hw im hi hp hm k]
  cases k <;> simp [Wrap.kindOfMapped, Guard.copies]

/-- THE NDARRAY-BASE-CHAIN GUARD (`maps_file` of ae98171b … 8d96c629^): over the seven array kinds of the re-wrap op,
    the self-save crashes exactly for the views whose owner chain passes through a memoryview / array-interface
    holder (`as_strided`, `memoryview`, `sliding_window_view`, `np.frombuffer(mmap.mmap)`) -/
theorem baseNd_view_overwrite_crashes (s : St) (hw : WF s) (im : Img) (hi : s.img = some im) (hp : im.arr = .proxy)
    (hm : im.mapped = true) (k : Wrap) :
    (step .baseNd (step .baseNd s (.wrap k)).2 (.save im.src)).1 = .bad ↔ (k = .hiddenView ∨ k = .rawMap) := by
  rw [guard_view_overwrite_crashes .baseNd rfl s hw im hi hp hm k]
  cases k <;> simp [Wrap.kindOfMapped, Guard.copies]

example : ∃ s im, WF s ∧ s.img = some im ∧ im.arr = .proxy ∧ im.mapped = true :=
  ⟨(step .owners ⟨fs0 fun _ => .i16, none⟩ (.load .aImg true)).2, _, (step_safe _ _ (fs0_wf _) rfl).2.1, rfl, rfl, by decide⟩

/-- the concrete histories of the two defects, under the guard of the time and under the current guard:
    `img = load('a.nii'); new = Nifti1Image(np.asarray(img.dataobj), img.affine, img.header); save(new, 'a.nii')`, and the
    same with `as_strided(np.asanyarray(img.dataobj))` / `np.frombuffer(mmap.mmap(...))` of a `mmap=False` load -/
theorem orig_view_overwrite_crashes_witness :
    (run .inst ⟨fs0 fun _ => .i16, none⟩ [.load .aNii true, .wrap .plainView, .save .aNii]).1 = [.loadOk, .unit, .bad] ∧
    (run .owners ⟨fs0 fun _ => .i16, none⟩ [.load .aNii true, .wrap .plainView, .save .aNii]).1 =
      [.loadOk, .unit, .saved (initContent .aNii .i16 false false)] ∧
    (run .baseNd ⟨fs0 fun _ => .i16, none⟩ [.load .aNii true, .wrap .plainView, .save .aNii]).1 =
      [.loadOk, .unit, .saved (initContent .aNii .i16 false false)] ∧
    (run .baseNd ⟨fs0 fun _ => .i16, none⟩ [.load .aNii true, .wrap .hiddenView, .save .aNii]).1 = [.loadOk, .unit, .bad] ∧
    (run .baseNd ⟨fs0 fun _ => .i16, none⟩ [.load .aMgh false, .wrap .rawMap, .save .aMgh]).1 = [.loadOk, .unit, .bad] ∧
    (run .owners ⟨fs0 fun _ => .i16, none⟩ [.load .aNii true, .wrap .hiddenView, .save .aNii]).1 =
      [.loadOk, .unit, .saved (initContent .aNii .i16 false false)] ∧
    (run .owners ⟨fs0 fun _ => .i16, none⟩ [.load .aMgh false, .wrap .rawMap, .save .aMgh]).1 =
      [.loadOk, .unit, .saved (initContent .aMgh .i16 false false)] := by decide

/-- CURRENT guard (`maps_file` of 8d96c629: follows `memoryview.obj` and any `.base`): for each of the seven array
    kinds of the re-wrap op — in particular all THREE kinds of view (np.memmap instance, ndarray-base view, view
    through a memoryview / array-interface holder) — and in ANY well-formed state (also a live image that is already
    a view), the re-wrapped image saved onto the source file (or anywhere) writes the image state, the new image has
    no filename until then, and the state stays well formed.  (Arrays that reach a map in a way outside this alphabet
    are not covered: the generated probe table `generated_guard_agrees` is what ties `maps_file` to the three kinds.) -/
theorem current_view_overwrite_ok (s : St) (hw : WF s) (im : Img) (hi : s.img = some im) (k : Wrap) (q : Path) :
    ∃ im', (step .owners s (.wrap k)) = (.unit, ⟨s.fs, some im'⟩) ∧ WF ⟨s.fs, some im'⟩ ∧
      im'.data = im.data ∧ im'.aff = im.aff ∧ im'.dt = im.dt ∧ im'.tag = im.tag ∧ im'.cls = im.cls ∧ im'.fname = none ∧
      (step .owners ⟨s.fs, some im'⟩ (.save q)).1 = .saved (savedContent im' q) ∧
      (savedContent im' q).data = im.data ∧ (savedContent im' q).aff = im.aff := by
  obtain ⟨fs, img⟩ := s
  simp only at hi
  subst hi
  have hok : ImgOk fs im := hw.2 im rfl
  obtain ⟨a, hwr, hok'⟩ := wrapImg_ok hok k
  refine ⟨rewrapped im a, by simp [step, withImg, hwr], ⟨hw.1, fun im' h' => ?_⟩, rfl, rfl, rfl, rfl, rfl, rfl, ?_, rfl, rfl⟩
  · simp only [Option.some.injEq] at h'; subst h'; exact hok'
  · simp only [step, withImg, save_cur hok']

/-- the current guard copies every kind of view: a view image of ANY of the three kinds, saved onto the file it maps,
    writes its state (the statement `current_self_overwrite_ok` instantiated at the three view kinds) -/
theorem current_view_kinds_ok (s : St) (hw : WF s) (im : Img) (hi : s.img = some im) (vk : VKind)
    (_hv : im.arr = .view vk) :
    (step .owners s (.save im.src)).1 = .saved (savedContent im im.src) ∧ Guard.copies .owners vk = true :=
  ⟨current_self_overwrite_ok s hw im hi, rfl⟩

example : ∀ vk : VKind, ∃ s im, WF s ∧ s.img = some im ∧ im.arr = .view vk := by
  intro vk
  cases vk
  · exact ⟨(step .owners (step .owners ⟨fs0 fun _ => .i16, none⟩ (.load .aNii true)).2 (.wrap .mapInst)).2, _,
      (step_safe _ _ (step_safe _ _ (fs0_wf _) rfl).2.1 rfl).2.1, rfl, rfl⟩
  · exact ⟨(step .owners (step .owners ⟨fs0 fun _ => .i16, none⟩ (.load .aNii true)).2 (.wrap .plainView)).2, _,
      (step_safe _ _ (step_safe _ _ (fs0_wf _) rfl).2.1 rfl).2.1, rfl, rfl⟩
  · exact ⟨(step .owners (step .owners ⟨fs0 fun _ => .i16, none⟩ (.load .aNii false)).2 (.wrap .rawMap)).2, _,
      (step_safe _ _ (step_safe _ _ (fs0_wf _) rfl).2.1 rfl).2.1, rfl, rfl⟩

/-- a guard that copies np.memmap instances is wrong ONLY for the view kinds it does not copy, saved onto the file
    they map: in every other case it coincides with the current guard -/
theorem guard_safe_off_uncopied_views (g : Guard) (hgi : g.copies .inst = true) (s : St) (hw : WF s) (im : Img)
    (hi : s.img = some im) (q : Path) (h : q ≠ im.src ∨ ∀ vk, im.arr = .view vk → g.copies vk = true) :
    (step g s (.save q)).1 = (step .owners s (.save q)).1 ∧
    (step g s (.save q)).2.fs = (step .owners s (.save q)).2.fs := by
  obtain ⟨fs, img⟩ := s
  simp only at hi
  subst hi
  have hok : ImgOk fs im := hw.2 im rfl
  have heq : writeTo g fs im q = writeTo .owners fs im q := by
    apply writeTo_guard_eq hok
    rcases h with h | h
    · exact Or.inr (Or.inl h)
    · cases ha : im.arr with
      | owned d fl => left; simp [Img.fileMapped, ha]
      | proxy =>
          by_cases hm : im.mapped = true
          · right; right; exact ⟨.inst, by simp [Img.matOf, ha, hm], hgi⟩
          · left; simp [Img.fileMapped, ha, hm]
      | view v => right; right; exact ⟨v, by simp [Img.matOf, ha], h v ha⟩
  simp only [step, withImg, save, heq]
  exact ⟨trivial, trivial⟩

/-- the instance-check guard was wrong ONLY for views that are not np.memmap instances, saved onto the file they map -/
theorem inst_guard_safe_off_views (s : St) (hw : WF s) (im : Img) (hi : s.img = some im) (q : Path)
    (h : q ≠ im.src ∨ ∀ vk, im.arr = .view vk → vk = .inst) :
    (step .inst s (.save q)).1 = (step .owners s (.save q)).1 ∧
    (step .inst s (.save q)).2.fs = (step .owners s (.save q)).2.fs :=
  guard_safe_off_uncopied_views .inst rfl s hw im hi q
    (h.imp id (fun h vk e => by rw [h vk e]; rfl))

/-- the ndarray-base-chain guard was wrong ONLY for hidden views saved onto the file they map -/
theorem baseNd_guard_safe_off_hidden (s : St) (hw : WF s) (im : Img) (hi : s.img = some im) (q : Path)
    (h : q ≠ im.src ∨ im.arr ≠ .view .hidden) :
    (step .baseNd s (.save q)).1 = (step .owners s (.save q)).1 ∧
    (step .baseNd s (.save q)).2.fs = (step .owners s (.save q)).2.fs :=
  guard_safe_off_uncopied_views .baseNd rfl s hw im hi q
    (h.imp id (fun h vk e => by cases vk <;> first | rfl | exact absurd e h))

example : ∃ s im, WF s ∧ s.img = some im ∧ im.arr = .view .plain ∧ im.fname = none :=
  ⟨(step .owners (step .owners ⟨fs0 fun _ => .i16, none⟩ (.load .aNii true)).2 (.wrap .plainView)).2, _,
   (step_safe _ _ (step_safe _ _ (fs0_wf _) rfl).2.1 rfl).2.1, rfl, rfl, rfl⟩

/-! ### what the current code still does wrong (open findings; why the guard is needed) -/

/-- `img = load('a.nii')  # int16;  img.set_data_dtype(int32);  save(img, 'a.nii');  img.get_fdata()` — the file
    written is right, the live image reads it through its stale proxy. -/
theorem current_stale_source_counterexample :
    (run .owners ⟨fs0 fun _ => .i16, none⟩ [.load .aNii false, .setDt .i32, .save .aNii, .fdata false]).1 =
      [.loadOk, .dtOk, .saved { cls := .nifti1, data := 0, aff := 0, dt := .i32, be := false, scaled := false, tag := 0,
                                xf := ⟨2, 0, 0, 0⟩ }, .bad] ∧
    allowedRun ⟨fs0 fun _ => .i16, none⟩ [.load .aNii false, .setDt .i32, .save .aNii, .fdata false] = false := by
  decide

/-- float64 + mmap: the cached `get_fdata()` array IS the memmap of the source; after a dtype-changing self-save
    it maps a shorter, re-laid-out file (SIGBUS in the real process). -/
theorem current_stale_fdata_alias_counterexample :
    (run .owners ⟨fs0 fun _ => .f64, none⟩ [.load .aNii true, .fdata false, .setDt .i16, .save .aNii, .fdata false]).1 =
      [.loadOk, .fdata 0, .dtOk, .saved { cls := .nifti1, data := 0, aff := 0, dt := .i16, be := false, scaled := true,
                                           tag := 0, xf := ⟨2, 0, 0, 0⟩ }, .bad] := by
  decide

/-- the same through `get_fdata(dtype=np.float32)` on a float32 SPM2 pair -/
theorem current_stale_fdata_alias_f32_counterexample :
    (run .owners ⟨fs0 fun _ => .f32, none⟩ [.load .sImg true, .fdata true, .setDt .i16, .save .sImg, .fdata true]).1 =
      [.loadOk, .fdata 6, .dtOk, .saved { cls := .spm2, data := 6, aff := 6, dt := .i16, be := false, scaled := true,
                                           tag := 0, xf := ⟨0, 0, 0, 0⟩ }, .bad] := by
  decide

/-- the guard is TIGHT: a save onto the image's own source that changes the layout always leaves the live image
    unusable (whatever its cache state) — this is exactly the open finding, nothing else is excluded. -/
theorem guard_is_tight (s : St) (hw : WF s) (im : Img) (hi : s.img = some im) (hk : layoutKept im im.src = false) :
    probe (step .owners s (.save im.src)).2 = none := by
  obtain ⟨fs, img⟩ := s
  simp only at hi
  subst hi
  have hok : ImgOk fs im := hw.2 im rfl
  have hbk : im.backed = true := by
    cases hb : im.backed
    · simp [layoutKept, hb] at hk
    · rfl
  have hne : ¬ ((outHeader im im.src).1 = im.srcDt ∧ (outHeader im im.src).2.2.1 = im.srcBe ∧
      outScaled im im.src = im.srcScaled) := by
    intro h
    simp [layoutKept, h.1, h.2.1, h.2.2] at hk
  have hrl : ∀ im' : Img, im'.src = im.src → im'.srcDt = im.srcDt → im'.srcBe = im.srcBe → im'.srcScaled = im.srcScaled →
      readLayout (fs.set im.src (some (.intact (savedContent im im.src)))) im'.src im'.srcDt im'.srcBe im'.srcScaled = none := by
    intro im' h1 h2 h3 h4
    rw [h1, h2, h3, h4]
    simp only [readLayout, FS.set_same, savedContent]
    rw [if_neg hne]
  simp only [step, withImg, save_cur hok]
  have key : ∀ im' : Img, im'.arr = im.arr → im'.src = im.src → im'.srcDt = im.srcDt → im'.srcBe = im.srcBe →
      im'.srcScaled = im.srcScaled →
      probe ⟨fs.set im.src (some (.intact (savedContent im im.src))), some im'⟩ = none := by
    intro im' h0 h1 h2 h3 h4
    have hr := hrl im' h1 h2 h3 h4
    have hmd : (materialise (fs.set im.src (some (.intact (savedContent im im.src)))) im').bind
        (deref (fs.set im.src (some (.intact (savedContent im im.src))))) = none := by
      unfold materialise
      rw [h0]
      cases ha : im.arr with
      | owned d fl => simp [Img.backed, Arr.backed, ha] at hbk
      | view v => simp [deref, hr]
      | proxy => simp [hr]
    unfold probe
    simp only [hmd]
    cases getFdata (fs.set im.src (some (.intact (savedContent im im.src)))) im' false with
    | none => rfl
    | some r => rfl
  by_cases hc : outCls im.cls im.src.ext = im.cls
  · simp only [hc, if_true]; exact key _ rfl rfl rfl rfl rfl
  · simp only [hc, if_false]; exact key _ rfl rfl rfl rfl rfl

example : ∃ s im, WF s ∧ s.img = some im ∧ layoutKept im im.src = false :=
  ⟨(step .owners (step .owners ⟨fs0 fun _ => .i16, none⟩ (.load .aNii true)).2 (.setDt .i32)).2, _,
   (step_safe _ _ (step_safe _ _ (fs0_wf _) rfl).2.1 rfl).2.1, rfl, by decide⟩

/-! ### tables regenerated from the working tree -/

def clsCode : Cls → Nat
  | .nifti1 => 0 | .pair => 1 | .mgh => 2 | .spm2 => 3 | .nifti2 => 4 | .pair2 => 5

def extCode : Ext → Nat
  | .nii => 0 | .img => 1 | .mgh => 2

def allDT : List DT := [.u8, .i16, .i32, .f32, .f64]

def allCls : List Cls := [.nifti1, .pair, .mgh, .spm2, .nifti2, .pair2]

/-- the model's class-by-extension table, its "compressed, never mapped" predicate and the MGH dtype set are the
    ones extracted from the source on this run; both `to_file_map` bodies copy a memmap BEFORE the first 'wb' open
    (the order `writeTo false` models). -/
theorem generated_tables_agree :
    Gen.pathTable = Path.all.map (fun p => (clsCode p.cls, p.compressed)) ∧
    Gen.mghDtypes = (List.range 5).filter (fun i => (allDT[i]?.map mghOk) == some true) ∧
    Gen.analyzeCopiesBeforeOpen = true ∧ Gen.mghCopiesBeforeOpen = true := by decide

def guardCode : Guard → Nat
  | .none => 0 | .inst => 1 | .baseNd => 2 | .owners => 3

/-- what the model says the current guard answers for a probe array: kind code 0 np.memmap instance / 1 ndarray-base
    view / 2 view through a memoryview or array-interface holder (all copied), 3 array that owns its memory (not) -/
def modelMapsFile (kind : Nat) : Option Bool :=
  match kind with
  | 0 => some (Guard.copies .owners .inst)
  | 1 => some (Guard.copies .owners .plain)
  | 2 => some (Guard.copies .owners .hidden)
  | 3 => some false
  | _ => none

/-- the copy guard of BOTH `to_file_map` bodies is the one every `step .owners` theorem is about: `maps_file(data)` with
    `volumeutils.maps_file` (AST) the loop over owners — np.memmap / mmap.mmap instance test, `memoryview` → `.obj`,
    else `getattr(arr, 'base', None)` — (0 no guard / 1 `isinstance(data, np.memmap)` / 2 ndarray `.base` chain /
    3 owner chain);  and the PROBE TABLE of the real `maps_file` — one array of each kind: memmap, `np.asarray(m)`,
    `m[::1]` view, `np.frombuffer(mmap.mmap)`, `np.asarray(memoryview(m))`, `as_strided(m)`, `sliding_window_view(m)`, an
    owning copy, a fresh array — agrees row by row with the memory-sharing ground truth and with `Guard.copies .owners`,
    and covers all four kinds -/
theorem generated_guard_agrees :
    guardCode .owners = Gen.analyzeGuard ∧ guardCode .owners = Gen.mghGuard ∧
    Gen.mapsFileProbe.all (fun r => r.2.2 == r.2.1 && modelMapsFile r.1 == some r.2.1) = true ∧
    [0, 1, 2, 3].all (fun k => Gen.mapsFileProbe.any (fun r => r.1 == k)) = true := by decide

/-- `klass.valid_exts` looked up in the generated `all_image_classes` table -/
def genValid (c e : Nat) : Bool := (Gen.classTable.find? (fun r => r.1 == c)).any (fun r => r.2.contains e)

/-- `nibabel.save`'s choice of class, interpreted over the GENERATED tables: own class if the extension is valid,
    else the special cases (read from the AST of `save`), else the first class of `all_image_classes` with that
    extension -/
def genOutCls (c e : Nat) : Nat :=
  if genValid c e then c
  else match Gen.saveSpecial.find? (fun t => t.1 == c && t.2.1 == e) with
    | some t => t.2.2
    | none => match Gen.classTable.find? (fun r => r.2.contains e) with
      | some r => r.1
      | none => 9

/-- the model's conversion rule `outCls`, its `valid_exts` and its `to_bytes` set are the ones of the source -/
theorem generated_outCls_agree (c : Cls) (e : Ext) :
    clsCode (outCls c e) = genOutCls (clsCode c) (extCode e) ∧ c.validExt e = genValid (clsCode c) (extCode e) ∧
    c.hasToBytes = Gen.hasToBytes.contains (clsCode c) := by
  cases c <;> cases e <;> decide

/-- `get_best_affine` interpreted over the GENERATED source order of its tests -/
def genBest (x : XF) : Nat :=
  let code := fun (f : Nat) => if f = 0 then x.sc else if f = 1 then x.qc else 0
  let aff := fun (g : Nat) => if g = 0 then x.sa else if g = 1 then x.qa else baseAff
  match Gen.bestAffineOrder.find? (fun r => code r.1 != 0) with
  | some r => aff r.2
  | none => aff Gen.bestAffineFallback

/-- the model's `get_best_affine` precedence and the transform codes `_affine2header` writes are the ones of the
    source (AST of `Nifti1Header.get_best_affine` / `Nifti1Pair._affine2header`) -/
theorem generated_transform_rules_agree (x : XF) (a : Nat) (c : Cls) (hc : c.isNifti = true) :
    x.best = genBest x ∧ affine2header c a x = ⟨Gen.affine2headerCodes.1, a, Gen.affine2headerCodes.2, a⟩ := by
  constructor
  · obtain ⟨sc, sa, qc, qa⟩ := x
    rcases sc with _ | sc <;> rcases qc with _ | qc <;>
      simp [XF.best, genBest, Gen.bestAffineOrder, Gen.bestAffineFallback, List.find?]
  · cases c <;> first | rfl | simp [Cls.isNifti] at hc

example : ∃ x : XF, x.sc ≠ 0 ∧ x.qc ≠ 0 ∧ x.sa ≠ x.qa ∧ genBest x = x.sa := ⟨⟨3, 12, 2, 13⟩, by decide⟩

end Nb.C09
