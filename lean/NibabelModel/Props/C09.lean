import NibabelModel.Model.C09
import NibabelModel.Lemmas.C09
import NibabelModel.Generated.C09
/-! Props/C09 — any load / modify / save history leaves correct files and a live process.

  Vocabulary (definitions in Lemmas/C09.lean):
  * `WF s`        : no file of the abstract file system is left truncated, and the live image (if any) is usable:
                    its proxy's source file is intact, has the layout the proxy was built with and holds the data
                    the image had when it was loaded (`ImgOk`); an owning fdata cache holds the same data;
  * `StepSpec`    : the op did not crash (`≠ .bad`); a `save q` wrote EXACTLY the image state — data and affine the
                    image has at that step — to `q`, changed no other path, and left the image's state alone; every
                    other op leaves the file system untouched;
  * `Usable s`    : the end-of-history probe (`get_fdata()`, then `np.asanyarray(img.dataobj)`) succeeds and returns
                    the data the image was loaded with;
  * `allowed` / `allowedRun` : THE GUARD — a save onto the live image's OWN source path keeps the on-disk layout
                    (dtype, byte order, scaling) the proxy was built with.  Every other op and save is allowed.

  ONE live image per history (a `load` replaces it); fresh verification loads are `load` on the resulting file system.

  FULL STATEMENT (not provable for the code as it is — see `current_stale_source_counterexample`):
      theorem history_safe (s : St) (hw : WF s) (ops : List Op) : Safe s ops
  The guard `allowedRun s ops` is what is missing: after `set_data_dtype` + save onto the image's own source file the
  live image keeps an ArrayProxy (and possibly a float memmap fdata cache) built for the OLD layout of that file
  (open findings `stale-proxy-…` / `stale-fdata-memmap-…`).  The FILES written are correct without the guard
  (`save_writes_image_state`).
-/
namespace Nb.C09

/-- the initial file system of the harness: eleven files, file i holds data i / affine i, given dtypes; `s.img` is an
    SPM2 Analyze pair, `n.nii` a NIfTI-2 file (`initCls`) -/
def fs0 (dts : Path → DT) : FS := fun p => some (.intact (initContent p (dts p) false false))

theorem fs0_wf (dts : Path → DT) : WF ⟨fs0 dts, none⟩ :=
  ⟨fun p => by simp [fs0], fun im h => by simp at h⟩

/-- ONE STEP, any op, any well-formed state: no crash, the save wrote the image state and nothing else, the
    invariant is re-established and the image is usable afterwards. -/
theorem step_safe (s : St) (op : Op) (hw : WF s) (ha : allowed s op = true) :
    StepSpec s op (step .base s op) ∧ WF (step .base s op).2 ∧ Usable (step .base s op).2 :=
  let h := step_safe_aux s op hw ha
  ⟨h.1, h.2, usable_of_WF h.2⟩

example : ∃ s op, WF s ∧ allowed s op = true ∧ s.img.isSome ∧ op = .save .aNii :=
  ⟨(step .base ⟨fs0 fun _ => .i16, none⟩ (.load .aNii true)).2, .save .aNii,
   (step_safe _ _ (fs0_wf _) rfl).2.1, by decide, by decide, rfl⟩

/-- HISTORIES of any length (induction over the op list): from a well-formed state, under the guard, no step
    crashes, every save writes exactly the image state at that step to its target and touches no other path, and
    the image is usable after every step and at the end.  `_partial`: the guard `allowedRun` (see file header). -/
theorem history_safe_partial (s : St) (hw : WF s) (ops : List Op) (ha : allowedRun s ops = true) : Safe s ops :=
  safe_of_WF ops s hw ha

/-- non-vacuity: a 9-step history with self-overwrites of a memory-mapped source, saves to several destinations,
    class conversions NIfTI→MGH→pair and a dtype change that is saved elsewhere satisfies the guard -/
example : allowedRun ⟨fs0 fun _ => .i16, none⟩
    [.load .aNii true, .fdata false, .save .aNii, .save .aMgz, .setDt .f32, .save .bNii, .save .aImg, .load .aMgz true,
     .save .aMgz] = true := by decide

/-- … and one through the SPM2 pair, the NIfTI-2 file and the compressed names, with a float32 `get_fdata` -/
example : allowedRun ⟨fs0 fun _ => .f32, none⟩
    [.load .sImg true, .fdata true, .save .sImg, .save .cImgGz, .hdrEdit 6, .save .aNiiBz2, .load .nNii true, .fdata false,
     .save .nNii, .save .aImg, .setAff 7, .save .bNiiZst, .save .nNii] = true := by decide

/-- the executable history runner (the function the driver prints) agrees: under the guard it never emits `bad`,
    produces one outcome per op, and ends in a well-formed state -/
theorem run_never_bad (s : St) (hw : WF s) (ops : List Op) (ha : allowedRun s ops = true) :
    (∀ o ∈ (run .base s ops).1, o ≠ .bad) ∧ (run .base s ops).1.length = ops.length ∧
      ∃ f, (run .base s ops).2 = some f ∧ WF f :=
  run_ok ops s hw ha

/-- WITHOUT the guard: every save (also a layout-changing save onto the image's own memory-mapped source) writes
    a file that a fresh load decodes to the data and the affine the image had at that save, as an image of the
    class `save()` converts to, which accepts the extension.
    NOTE on content: data are ids, so `im2.data = im.data` says "the data written are the ones the proxy of a
    well-formed image resolves to" — the work is done by the invariant `WF` (`step_safe` re-establishes it), without
    which `writeTo` yields `bad`;  `im2.aff = im.aff` is the `update_header` decision (`outAff_eq`,
    `update_header_affine_close`): the file's affine is the best affine of the reconciled header (SPM2: `.mat`). -/
theorem save_writes_image_state (s : St) (hw : WF s) (im : Img) (hi : s.img = some im) (q : Path) (mm : Bool) :
    (step .base s (.save q)).1 = .saved (savedContent im q) ∧
    ∃ im2, load (step .base s (.save q)).2.fs q mm = some im2 ∧ im2.data = im.data ∧ im2.aff = im.aff ∧
      im2.cls = outCls im.cls q.ext ∧ im2.cls.validExt q.ext = true ∧
      (im2.cls ≠ .spm2 → im2.xf.best = im.aff) ∧
      ∀ p, p ≠ q → (step .base s (.save q)).2.fs p = s.fs p := by
  obtain ⟨fs, img⟩ := s
  simp only at hi
  subst hi
  have hok : ImgOk fs im := hw.2 im rfl
  simp only [step, withImg, save_cur hok]
  refine ⟨trivial, ?_⟩
  simp only [load, FS.set_same]
  refine ⟨_, rfl, rfl, rfl, rfl, ?_, ?_, fun p hp => FS.set_other _ _ hp⟩
  · simp only [savedContent]; cases im.cls <;> cases q.ext <;> rfl
  · intro hc
    have h1 := outAff_eq im q
    simp only [savedContent] at hc
    simp only [outAff, if_neg hc] at h1
    exact h1

example : ∃ s im, WF s ∧ s.img = some im ∧ im.mapped = true :=
  ⟨(step .base ⟨fs0 fun _ => .f32, none⟩ (.load .aImg true)).2, _, (step_safe _ _ (fs0_wf _) rfl).2.1, rfl, by decide⟩

/-- for the three classes of the original alphabet the class written is the class by extension alone (finite case
    check over the conversion table `outCls`; the table itself is tied to the source by `generated_outCls_agree`) -/
theorem save_class_by_extension (c : Cls) (hc : c = .nifti1 ∨ c = .pair ∨ c = .mgh) (q : Path) :
    outCls c q.ext = q.cls := by
  rcases hc with h | h | h <;> subst h <;> cases q <;> rfl

/-! ### `update_header`: which affine reaches the file -/

/-- THE DECISION RULE of `update_header()` for ANY closeness predicate that is reflexive (`np.allclose`): whatever the
    header's affine fields held (edited directly, copied by a conversion, or fresh), after `update_header` the
    header's best affine is close to `img.affine` — kept when it already was, overwritten (`_affine2header`) when not. -/
theorem update_header_affine_close (close : Nat → Nat → Bool) (hrefl : ∀ a, close a a = true) (c : Cls)
    (hc : c ≠ .spm2) (a : Nat) (x : XF) :
    close a (reconcile close c a x).best = true ∧
    (close a x.best = true → reconcile close c a x = x) ∧
    (close a x.best = false → reconcile close c a x = affine2header c a x) := by
  refine ⟨reconcile_best_close close hrefl hc a x, ?_, ?_⟩
  · intro h; simp [reconcile, hc, h]
  · intro h; simp [reconcile, hc, h]

example : ∃ (close : Nat → Nat → Bool) (x : XF), (∀ a, close a a = true) ∧ close 5 x.best = false ∧
    (reconcile close .nifti1 5 x).sc = 2 :=
  ⟨closeId, ⟨3, 7, 2, 7⟩, fun a => by simp [closeId], by decide, by decide⟩

/-- NIfTI `get_best_affine` precedence: a set sform masks the qform; the qform counts only with `sform_code = 0`.
    (Definitional glue: restates `XF.best` case by case so that the precedence the other theorems rely on is visible
    and audited; the correspondence streams `hdraffine`/`exh3x` compare it with `Nifti1Header.get_best_affine`.) -/
theorem best_affine_precedence (x : XF) :
    (x.sc ≠ 0 → x.best = x.sa) ∧ (x.sc = 0 → x.qc ≠ 0 → x.best = x.qa) ∧ (x.sc = 0 → x.qc = 0 → x.best = baseAff) := by
  refine ⟨fun h => by simp [XF.best, h], fun h1 h2 => by simp [XF.best, h1, h2], fun h1 h2 => by simp [XF.best, h1, h2]⟩

/-- the affine a fresh load of the written file decodes, with `update_header` deciding by an arbitrary closeness
    predicate (the executable model is the instance `closeId`) -/
def outAffC (close : Nat → Nat → Bool) (im : Img) (q : Path) : Nat :=
  if outCls im.cls q.ext = .spm2 then im.aff
  else (reconcile close (outCls im.cls q.ext) im.aff (outHeader im q).2.2.2).best

/-- EVERY save, converting or not, whatever the header's affine fields hold, for ANY reflexive closeness predicate:
    the affine of the written file is close to the affine the image has at that save (SPM2: equal — `.mat` file) -/
theorem saved_affine_close (close : Nat → Nat → Bool) (hrefl : ∀ a, close a a = true) (im : Img) (q : Path) :
    close im.aff (outAffC close im q) = true ∧ outAffC closeId im q = outAff im q := by
  refine ⟨?_, rfl⟩
  unfold outAffC
  by_cases hc : outCls im.cls q.ext = .spm2
  · rw [if_pos hc]; exact hrefl _
  · rw [if_neg hc]; exact reconcile_best_close close hrefl hc _ _

example : ∃ (close : Nat → Nat → Bool) (im : Img) (q : Path), (∀ a, close a a = true) ∧ outAffC close im q ≠ im.aff :=
  ⟨fun a b => a / 10 == b / 10, { (default : Img) with cls := .nifti1, aff := 10, xf := ⟨2, 11, 0, 11⟩ }, .aNii,
   fun a => by simp, by decide⟩

/-- any number of direct header edits -/
def hdrEdits (s : St) : List Nat → St
  | [] => s
  | k :: ks => hdrEdits (step .base s (.hdrEdit k)).2 ks

theorem hdrEdits_spec (fs : FS) (im : Img) : ∀ ks : List Nat, ∃ x, hdrEdits ⟨fs, some im⟩ ks = ⟨fs, some { im with xf := x }⟩
  | [] => ⟨im.xf, rfl⟩
  | k :: ks => by
      obtain ⟨x, hx⟩ := hdrEdits_spec fs { im with xf := hdrEditXF im.cls k im.xf } ks
      exact ⟨x, by simpa [hdrEdits, step, withImg] using hx⟩

/-- header affine fields edited directly (`img.header.set_sform(B, 3)`, `set_sform(None, 0); set_qform(B, 2)`, MGH
    `Mdc/Pxyz_c`, … — ANY number of edits) do not reach the file: the save after the edits writes a file that decodes
    to the image's own affine, with the same data, dtype, byte order, scaling, tag and class as the save without the
    edits, and the same other files.  (The transform CODES of the file may differ: a header whose best affine was
    edited away from `img.affine` is rewritten with sform 'aligned' / qform 'unknown' — `update_header_affine_close`.)
    This is the `update_header()` decision on the image itself, or on the `from_image` copy for a converting save. -/
theorem save_ignores_header_affine_edits (s : St) (hw : WF s) (im : Img) (hi : s.img = some im) (q : Path)
    (ks : List Nat) :
    ∃ c c', (step .base s (.save q)).1 = .saved c ∧ (step .base (hdrEdits s ks) (.save q)).1 = .saved c' ∧
      c.aff = im.aff ∧ c'.aff = im.aff ∧ c'.data = c.data ∧ c'.dt = c.dt ∧ c'.be = c.be ∧ c'.scaled = c.scaled ∧
      c'.tag = c.tag ∧ c'.cls = c.cls ∧
      ∀ p, p ≠ q → (step .base (hdrEdits s ks) (.save q)).2.fs p = (step .base s (.save q)).2.fs p := by
  obtain ⟨fs, img⟩ := s
  simp only at hi
  subst hi
  obtain ⟨x, hx⟩ := hdrEdits_spec fs im ks
  have hok : ImgOk fs im := hw.2 im rfl
  have hok' : ImgOk fs { im with xf := x } := ⟨hok.1, hok.2.1, hok.2.2.1, hok.2.2.2⟩
  rw [hx]
  simp only [step, withImg, save_cur hok, save_cur hok']
  refine ⟨_, _, rfl, rfl, rfl, rfl, rfl, ?_, ?_, ?_, ?_, rfl, ?_⟩
  · simp only [savedContent, outHeader]; split <;> (try split) <;> (try split) <;> rfl
  · simp only [savedContent, outHeader]; split <;> (try split) <;> (try split) <;> rfl
  · simp only [savedContent, outScaled, outHeader, Img.arrFloat]
    split <;> (try split) <;> (try split) <;> rfl
  · simp only [savedContent, outHeader]; split <;> (try split) <;> (try split) <;> rfl
  · intro p hp
    rw [FS.set_other _ _ hp, FS.set_other _ _ hp]

/-- the single-edit form of the above, with the observation that an edit AWAY from the image affine onto a header
    that agreed with the image leaves even the transform codes of the file as `_affine2header` sets them -/
theorem save_ignores_header_affine_edit (s : St) (hw : WF s) (im : Img) (hi : s.img = some im) (q : Path) (k : Nat) :
    ∃ c c', (step .base s (.save q)).1 = .saved c ∧ (step .base (step .base s (.hdrEdit k)).2 (.save q)).1 = .saved c' ∧
      c.aff = im.aff ∧ c'.aff = im.aff ∧ c'.data = c.data ∧ c'.dt = c.dt ∧ c'.be = c.be ∧ c'.scaled = c.scaled ∧
      c'.tag = c.tag ∧ c'.cls = c.cls ∧
      ∀ p, p ≠ q → (step .base (step .base s (.hdrEdit k)).2 (.save q)).2.fs p = (step .base s (.save q)).2.fs p :=
  save_ignores_header_affine_edits s hw im hi q [k]

example : ∃ s im, WF s ∧ s.img = some im ∧ im.hdrAff ≠ im.aff :=
  ⟨(step .base (step .base ⟨fs0 fun _ => .i16, none⟩ (.load .aNii true)).2 (.hdrEdit 7)).2, _,
   (step_safe _ _ (step_safe _ _ (fs0_wf _) rfl).2.1 rfl).2.1, rfl, by decide⟩

/-- an edit that leaves the header's best affine EQUAL to the image affine is kept, transform codes included (the
    `allclose` branch): `load a.nii; img.header.set_sform(img.affine, code=3); save b.nii` writes sform_code 3 -/
theorem header_edit_kept_when_affine_agrees :
    (run .base ⟨fs0 fun _ => .i16, none⟩ [.load .aNii true, .hdrEdit 0, .save .bNii, .hdrEdit 7, .save .aImg]).1 =
      [.loadOk, .unit,
       .saved { cls := .nifti1, data := 0, aff := 0, dt := .i16, be := false, scaled := false, tag := 0, xf := ⟨3, 0, 0, 0⟩ },
       .unit,
       .saved { cls := .pair, data := 0, aff := 0, dt := .i16, be := false, scaled := false, tag := 0, xf := ⟨2, 0, 0, 0⟩ }] := by
  decide

/-! ### class bookkeeping of `save()` -/

/-- the class `save()` writes always accepts the extension (so `converted.to_filename` cannot raise
    `ImageFileError`), converting once is enough, and an accepted extension never converts -/
theorem outCls_valid (c : Cls) (e : Ext) :
    (outCls c e).validExt e = true ∧ outCls (outCls c e) e = outCls c e ∧ (c.validExt e = true → outCls c e = c) := by
  cases c <;> cases e <;> decide

/-- class invariant: every file holds an image of a class that accepts the file's extension, and the live image
    is of a class that accepts its source's extension -/
def ClsWF (s : St) : Prop :=
  (∀ p c, s.fs p = some (.intact c) → c.cls.validExt p.ext = true) ∧
  (∀ im, s.img = some im → im.cls.validExt im.src.ext = true)

theorem fs0_clsWF (dts : Path → DT) : ClsWF ⟨fs0 dts, none⟩ := by
  refine ⟨fun p c h => ?_, fun im h => by simp at h⟩
  simp only [fs0, Option.some.injEq, File.intact.injEq] at h
  subst h
  cases p <;> rfl

/-- every op preserves the class invariant (no guard needed) -/
theorem step_clsWF (s : St) (op : Op) (hw : WF s) (hc : ClsWF s) : ClsWF (step .base s op).2 := by
  obtain ⟨fs, img⟩ := s
  obtain ⟨hf, hi⟩ := hc
  simp only at hf hi
  cases img with
  | none =>
      cases op with
      | load p mm =>
          simp only [step]
          cases hl : load fs p mm with
          | none => exact ⟨hf, hi⟩
          | some im =>
              refine ⟨hf, fun im' h' => ?_⟩
              simp only [Option.some.injEq] at h'
              subst h'
              unfold load at hl
              split at hl
              · rename_i c hc'
                simp only [Option.some.injEq] at hl
                subst hl
                exact hf p c hc'
              · simp at hl
      | _ => exact ⟨hf, hi⟩
  | some im =>
      have hok : ImgOk fs im := hw.2 im rfl
      have hv : im.cls.validExt im.src.ext = true := hi im rfl
      have keep : ∀ im1 : Img, im1.cls = im.cls → im1.src = im.src → ClsWF ⟨fs, some im1⟩ := fun im1 h1 h2 =>
        ⟨hf, fun im' h' => by simp only [Option.some.injEq] at h'; subst h'; rw [h1, h2]; exact hv⟩
      cases op with
      | load p mm =>
          simp only [step]
          cases hl : load fs p mm with
          | none => exact ⟨hf, hi⟩
          | some im2 =>
              refine ⟨hf, fun im' h' => ?_⟩
              simp only [Option.some.injEq] at h'
              subst h'
              unfold load at hl
              split at hl
              · rename_i c hc'
                simp only [Option.some.injEq] at hl
                subst hl
                exact hf p c hc'
              · simp at hl
      | fdata w =>
          obtain ⟨ca, hg, _⟩ := getFdata_ok hok w
          simp only [step, withImg, hg]
          exact keep _ rfl rfl
      | uncache => exact keep _ rfl rfl
      | edit k => exact keep _ rfl rfl
      | setAff k =>
          simp only [step, withImg]
          cases im.cls.isNifti <;> exact keep _ rfl rfl
      | hdrEdit k => exact keep _ rfl rfl
      | setDt dt =>
          simp only [step, withImg]
          by_cases h : im.cls = .mgh ∧ mghOk dt = false
          · simp only [h, and_self, if_true]; exact ⟨hf, hi⟩
          · simp only [h, if_false]; exact keep _ rfl rfl
      | toBytes =>
          simp only [step, withImg]
          unfold toBytes
          cases im.cls.hasToBytes
          · simp only [if_true]; exact ⟨hf, hi⟩
          · simp only [Bool.true_eq_false, if_false, materialise_deref hok]; exact keep _ rfl rfl
      | wrap k =>
          obtain ⟨a, hwr, _⟩ := wrapImg_ok hok k
          simp only [step, withImg, hwr]
          exact keep _ rfl rfl
      | save q =>
          simp only [step, withImg, save_cur hok]
          refine ⟨fun p c h => ?_, fun im' h' => ?_⟩
          · by_cases e : p = q
            · subst e
              simp only [FS.set_same, Option.some.injEq, File.intact.injEq] at h
              subst h
              exact (outCls_valid im.cls p.ext).1
            · simp only [FS.set_other _ _ e] at h; exact hf p c h
          · simp only [Option.some.injEq] at h'
            subst h'
            by_cases hc : outCls im.cls q.ext = im.cls
            · simp only [hc, if_true]; exact hv
            · simp only [hc, if_false]; exact hv

/-- a save onto the image's own source never converts the class (so it rebinds `file_map` and reconciles the
    image's OWN header), in every state a history can reach -/
theorem self_save_keeps_class (s : St) (hc : ClsWF s) (im : Img) (hi : s.img = some im) :
    outCls im.cls im.src.ext = im.cls :=
  (outCls_valid im.cls im.src.ext).2.2 (hc.2 im hi)

/-- … along whole histories: the class invariant holds after any allowed history from the harness' file system -/
theorem run_clsWF : ∀ (ops : List Op) (s : St), WF s → ClsWF s → allowedRun s ops = true →
    ∃ f, (run .base s ops).2 = some f ∧ ClsWF f
  | [], s, _, hc, _ => ⟨s, rfl, hc⟩
  | op :: rest, s, hw, hc, ha => by
      simp only [allowedRun, Bool.and_eq_true] at ha
      obtain ⟨hspec, hw'⟩ := step_safe_aux s op hw ha.1
      obtain ⟨f, h3, h4⟩ := run_clsWF rest _ hw' (step_clsWF s op hw hc) ha.2
      have hne : (step .base s op).1 ≠ .bad := hspec.1
      have hrun : (run .base s (op :: rest)).2 = (run .base (step .base s op).2 rest).2 := by
        rw [run]
        generalize step .base s op = r at hne
        obtain ⟨o, s'⟩ := r
        cases o <;> first | rfl | exact absurd rfl hne
      exact ⟨f, by rw [hrun]; exact h3, h4⟩

example : ∃ s im, WF s ∧ ClsWF s ∧ s.img = some im ∧ im.cls = .spm2 ∧ im.src = .sImg :=
  ⟨(step .base ⟨fs0 fun _ => .i16, none⟩ (.load .sImg true)).2, _, (step_safe _ _ (fs0_wf _) rfl).2.1,
   step_clsWF _ _ (fs0_wf _) (fs0_clsWF _), rfl, rfl, rfl⟩

/-! ### the repaired defect -/

/-- ORIGINAL logic (no copy of the memmap before the target is opened 'wb'): `nib.save(nib.load('a.nii'), 'a.nii')`
    reads its data through the truncated file. -/
theorem orig_self_overwrite_crashes :
    (run .none ⟨fs0 fun _ => .i16, none⟩ [.load .aNii true, .save .aNii]).1 = [.loadOk, .bad] := by decide

/-- … and so does EVERY self-overwrite of a memory-mapped source in any well-formed state (all of `.nii`, `.img`
    incl. the SPM2 pair and NIfTI-2, `.mgh`; compressed names and `mmap=False` are not `mapped`).  `fileMapped` = the
    image's array reads the source file: a loaded image that is `mapped`, or a re-wrapped view of its memmap. -/
theorem orig_self_overwrite_crashes_all_plain (s : St) (hw : WF s) (im : Img) (hi : s.img = some im)
    (hm : im.fileMapped = true) : (step .none s (.save im.src)).1 = .bad := by
  obtain ⟨fs, img⟩ := s
  simp only at hi
  subst hi
  have hb := writeTo_orig_self (hw.2 im rfl) hm
  simp only [step, withImg, save]
  revert hb
  generalize writeTo .none fs im im.src = r
  obtain ⟨o, fs'⟩ := r
  intro hb
  simp only at hb
  subst hb
  rfl

example : ∃ s im, WF s ∧ s.img = some im ∧ im.fileMapped = true ∧ im.src = .aMgh :=
  ⟨(step .base ⟨fs0 fun _ => .i16, none⟩ (.load .aMgh true)).2, _, (step_safe _ _ (fs0_wf _) rfl).2.1, rfl,
   by decide, rfl⟩

example : ∃ s im, WF s ∧ s.img = some im ∧ im.fileMapped = true ∧ im.src = .sImg ∧ im.cls = .spm2 :=
  ⟨(step .base ⟨fs0 fun _ => .i16, none⟩ (.load .sImg true)).2, _, (step_safe _ _ (fs0_wf _) rfl).2.1, rfl,
   by decide, rfl, rfl⟩

/-- CURRENT logic on the same histories: the self-overwrite succeeds and writes the image state.
    (Corollary of `save_writes_image_state` at `q = im.src`, kept as the positive twin of the theorem above.) -/
theorem current_self_overwrite_ok (s : St) (hw : WF s) (im : Img) (hi : s.img = some im) :
    (step .base s (.save im.src)).1 = .saved (savedContent im im.src) :=
  (save_writes_image_state s hw im hi im.src true).1

/-- the original logic was wrong ONLY there: off the image's own source it coincides with the current logic -/
theorem orig_safe_off_source (s : St) (hw : WF s) (im : Img) (hi : s.img = some im) (q : Path) (hq : q ≠ im.src) :
    (step .none s (.save q)).1 = (step .base s (.save q)).1 ∧
    (step .none s (.save q)).2.fs = (step .base s (.save q)).2.fs := by
  obtain ⟨fs, img⟩ := s
  simp only at hi
  subst hi
  simp only [step, withImg, save, writeTo_orig_off_source (hw.2 im rfl) hq]
  exact ⟨trivial, trivial⟩

example : ∃ s im q, WF s ∧ s.img = some im ∧ q ≠ im.src :=
  ⟨(step .base ⟨fs0 fun _ => .i16, none⟩ (.load .aNii true)).2, _, .bNii, (step_safe _ _ (fs0_wf _) rfl).2.1, rfl,
   by decide⟩

/-! ### the second repair (ae98171b): re-wrapped views of the memory map -/

/-- what the re-wrap op builds from a memory-mapped LOADED image: a base-class view (`np.asarray(img.dataobj)`, `[::1]`,
    `.T.T`, `.view(np.ndarray)`, `np.asfortranarray`), an np.memmap instance (`np.asanyarray`, `[..., :]`), the proxy, or an
    owning copy; `get_fdata()` yields the memmap itself or an owning array -/
theorem wrap_of_mapped_proxy {fs : FS} {im : Img} (h : ImgOk fs im) (hp : im.arr = .proxy) (hm : im.mapped = true) :
    wrapImg fs im .plainView = some (rewrapped im (.view false)) ∧
    wrapImg fs im .mapInst = some (rewrapped im (.view true)) ∧
    wrapImg fs im .copy = some (rewrapped im (.owned im.data im.arrFloat)) ∧
    wrapImg fs im .proxy = some (rewrapped im .proxy) ∧
    (wrapImg fs im .fdata = some (rewrapped im (.view true)) ∨
     wrapImg fs im .fdata = some (rewrapped im (.owned im.data true))) := by
  have hb : im.backed = true := by simp [Img.backed, Arr.backed, hp]
  have hmat : materialise fs im = some (.ref im.src im.srcDt im.srcBe im.srcScaled true) := by
    rw [materialise_ok h]; simp [Img.matOf, hp, hm]
  -- the constructor step (`wrapArr`) …
  have a1 : wrapArr fs im .plainView = some (rewrapped im (.view false)) := by simp [wrapArr, hmat]; rfl
  have a2 : wrapArr fs im .mapInst = some (rewrapped im (.view true)) := by simp [wrapArr, hmat]
  have a3 : wrapArr fs im .copy = some (rewrapped im (.owned im.data im.arrFloat)) := by simp [wrapArr, hmat, h.1 hb]
  have a4 : wrapArr fs im .proxy = some (rewrapped im .proxy) := by simp [wrapArr, hp]
  have a5 : wrapArr fs im .fdata = some (rewrapped im (.view true)) ∨
      wrapArr fs im .fdata = some (rewrapped im (.owned im.data true)) := by
    obtain ⟨ca, hg, _⟩ := getFdata_ok h false
    unfold wrapArr
    rw [hg]
    simp only
    cases ca with
    | alias w => cases w <;> simp
    | owned d w => simp
    | none => simp
  -- … and the touch of the new image's data (`wrapImg`): every result is usable
  have lift : ∀ k a, wrapArr fs im k = some (rewrapped im a) → wrapImg fs im k = some (rewrapped im a) := by
    intro k a hk
    obtain ⟨a', h1', h2'⟩ := wrapArr_ok h k
    rw [h1'] at hk
    simp only [Option.some.injEq] at hk
    rw [← hk]
    exact wrapImg_of_wrapArr h1' h2'
  exact ⟨lift _ _ a1, lift _ _ a2, lift _ _ a3, lift _ _ a4, a5.elim (fun e => Or.inl (lift _ _ e)) (fun e => Or.inr (lift _ _ e))⟩

/-- THE INSTANCE-CHECK GUARD (`isinstance(data, np.memmap)`, fae418e9 … ae98171b^) crashes EXACTLY for the base-class
    view variants: after re-wrapping a memory-mapped loaded image with array kind `k`, saving the new image onto the
    source file reads through the truncated file iff `k` is a plain view. -/
theorem orig_view_overwrite_crashes (s : St) (hw : WF s) (im : Img) (hi : s.img = some im) (hp : im.arr = .proxy)
    (hm : im.mapped = true) (k : Wrap) :
    (step .inst (step .inst s (.wrap k)).2 (.save im.src)).1 = .bad ↔ k = .plainView := by
  obtain ⟨fs, img⟩ := s
  simp only at hi
  subst hi
  have hok : ImgOk fs im := hw.2 im rfl
  obtain ⟨h1, h2, h3, h4, h5⟩ := wrap_of_mapped_proxy hok hp hm
  have hb : im.backed = true := by simp [Img.backed, Arr.backed, hp]
  -- outcome of the save for each array the op can have produced
  have bad_view : ∀ a, a = Arr.view false → ImgOk fs (rewrapped im a) →
      (step .inst ⟨fs, some (rewrapped im a)⟩ (.save im.src)).1 = .bad := by
    intro a ha hoka
    subst ha
    have := writeTo_guard_self (g := .inst) hoka false (by simp [Img.matOf, rewrapped]) rfl
    simp only [rewrapped] at this
    simp only [step, withImg, save, rewrapped]
    revert this
    generalize writeTo Guard.inst fs _ im.src = r
    obtain ⟨o, fs'⟩ := r
    intro hbad
    simp only at hbad
    subst hbad
    rfl
  have ok_other : ∀ a, a ≠ Arr.view false → ImgOk fs (rewrapped im a) →
      (step .inst ⟨fs, some (rewrapped im a)⟩ (.save im.src)).1 ≠ .bad := by
    intro a ha hoka
    have heq : writeTo .inst fs (rewrapped im a) im.src = writeTo .base fs (rewrapped im a) im.src := by
      apply writeTo_guard_eq hoka
      cases a with
      | owned d fl => left; rfl
      | proxy =>
          right; right
          exact ⟨true, by simp [Img.matOf, rewrapped, Img.mapped] at hm ⊢; simp [hm], rfl⟩
      | view inst =>
          cases inst
          · exact absurd rfl ha
          · right; right; exact ⟨true, by simp [Img.matOf, rewrapped], rfl⟩
    simp only [step, withImg, save]
    rw [heq, writeTo_cur hoka]
    simp
  have okOf : ∀ a, wrapImg fs im k = some (rewrapped im a) → ImgOk fs (rewrapped im a) := by
    intro a ha
    obtain ⟨a', h1', h2'⟩ := wrapImg_ok hok k
    rw [h1'] at ha
    simp only [Option.some.injEq] at ha
    rw [← ha]; exact h2'
  cases k with
  | plainView =>
      refine ⟨fun _ => rfl, fun _ => ?_⟩
      have hbad := bad_view _ rfl (okOf _ h1)
      simp only [step, withImg] at hbad
      simp only [step, withImg, h1]
      exact hbad
  | mapInst =>
      refine ⟨fun hbad => ?_, fun h => nomatch h⟩
      have hne := ok_other _ (by simp) (okOf _ h2)
      simp only [step, withImg, h2] at hbad
      simp only [step, withImg] at hne
      exact absurd hbad hne
  | copy =>
      refine ⟨fun hbad => ?_, fun h => nomatch h⟩
      have hne := ok_other _ (by simp) (okOf _ h3)
      simp only [step, withImg, h3] at hbad
      simp only [step, withImg] at hne
      exact absurd hbad hne
  | proxy =>
      refine ⟨fun hbad => ?_, fun h => nomatch h⟩
      have hne := ok_other _ (by simp) (okOf _ h4)
      simp only [step, withImg, h4] at hbad
      simp only [step, withImg] at hne
      exact absurd hbad hne
  | fdata =>
      refine ⟨fun hbad => ?_, fun h => nomatch h⟩
      rcases h5 with h5 | h5
      · have hne := ok_other _ (by simp) (okOf _ h5)
        simp only [step, withImg, h5] at hbad
        simp only [step, withImg] at hne
        exact absurd hbad hne
      · have hne := ok_other _ (by simp) (okOf _ h5)
        simp only [step, withImg, h5] at hbad
        simp only [step, withImg] at hne
        exact absurd hbad hne

example : ∃ s im, WF s ∧ s.img = some im ∧ im.arr = .proxy ∧ im.mapped = true :=
  ⟨(step .base ⟨fs0 fun _ => .i16, none⟩ (.load .aImg true)).2, _, (step_safe _ _ (fs0_wf _) rfl).2.1, rfl, rfl, by decide⟩

/-- the concrete history of the defect: `img = load('a.nii'); new = Nifti1Image(np.asarray(img.dataobj), img.affine,
    img.header); save(new, 'a.nii')` under the instance-check guard — and under the current guard -/
theorem orig_view_overwrite_crashes_witness :
    (run .inst ⟨fs0 fun _ => .i16, none⟩ [.load .aNii true, .wrap .plainView, .save .aNii]).1 = [.loadOk, .unit, .bad] ∧
    (run .base ⟨fs0 fun _ => .i16, none⟩ [.load .aNii true, .wrap .plainView, .save .aNii]).1 =
      [.loadOk, .unit, .saved (initContent .aNii .i16 false false)] := by decide

/-- CURRENT guard (`maps_file`: follows `.base`): for EVERY array kind the re-wrapped image saved onto the source file
    (or anywhere) writes the image state, the new image has no filename until then, and the state stays well formed -/
theorem current_view_overwrite_ok (s : St) (hw : WF s) (im : Img) (hi : s.img = some im) (k : Wrap) (q : Path) :
    ∃ im', (step .base s (.wrap k)) = (.unit, ⟨s.fs, some im'⟩) ∧ WF ⟨s.fs, some im'⟩ ∧
      im'.data = im.data ∧ im'.aff = im.aff ∧ im'.dt = im.dt ∧ im'.tag = im.tag ∧ im'.cls = im.cls ∧ im'.fname = none ∧
      (step .base ⟨s.fs, some im'⟩ (.save q)).1 = .saved (savedContent im' q) ∧
      (savedContent im' q).data = im.data ∧ (savedContent im' q).aff = im.aff := by
  obtain ⟨fs, img⟩ := s
  simp only at hi
  subst hi
  have hok : ImgOk fs im := hw.2 im rfl
  obtain ⟨a, hwr, hok'⟩ := wrapImg_ok hok k
  refine ⟨rewrapped im a, by simp [step, withImg, hwr], ⟨hw.1, fun im' h' => ?_⟩, rfl, rfl, rfl, rfl, rfl, rfl, ?_, rfl, rfl⟩
  · simp only [Option.some.injEq] at h'; subst h'; exact hok'
  · simp only [step, withImg, save_cur hok']

/-- the instance-check guard was wrong ONLY for plain views saved onto the file they map: for every other array kind,
    and for every other target, it coincides with the current guard -/
theorem inst_guard_safe_off_views (s : St) (hw : WF s) (im : Img) (hi : s.img = some im) (q : Path)
    (h : q ≠ im.src ∨ im.arr ≠ .view false) :
    (step .inst s (.save q)).1 = (step .base s (.save q)).1 ∧
    (step .inst s (.save q)).2.fs = (step .base s (.save q)).2.fs := by
  obtain ⟨fs, img⟩ := s
  simp only at hi
  subst hi
  have hok : ImgOk fs im := hw.2 im rfl
  have heq : writeTo .inst fs im q = writeTo .base fs im q := by
    apply writeTo_guard_eq hok
    rcases h with h | h
    · exact Or.inr (Or.inl h)
    · cases ha : im.arr with
      | owned d fl => left; simp [Img.fileMapped, ha]
      | proxy =>
          by_cases hm : im.mapped = true
          · right; right; exact ⟨true, by simp [Img.matOf, ha, hm], rfl⟩
          · left; simp [Img.fileMapped, ha, hm]
      | view inst =>
          cases inst
          · exact absurd ha h
          · right; right; exact ⟨true, by simp [Img.matOf, ha], rfl⟩
  simp only [step, withImg, save, heq]
  exact ⟨trivial, trivial⟩

example : ∃ s im, WF s ∧ s.img = some im ∧ im.arr = .view false ∧ im.fname = none :=
  ⟨(step .base (step .base ⟨fs0 fun _ => .i16, none⟩ (.load .aNii true)).2 (.wrap .plainView)).2, _,
   (step_safe _ _ (step_safe _ _ (fs0_wf _) rfl).2.1 rfl).2.1, rfl, rfl, rfl⟩

/-! ### what the current code still does wrong (open findings; why the guard is needed) -/

/-- `img = load('a.nii')  # int16;  img.set_data_dtype(int32);  save(img, 'a.nii');  img.get_fdata()` — the file
    written is right, the live image reads it through its stale proxy. -/
theorem current_stale_source_counterexample :
    (run .base ⟨fs0 fun _ => .i16, none⟩ [.load .aNii false, .setDt .i32, .save .aNii, .fdata false]).1 =
      [.loadOk, .dtOk, .saved { cls := .nifti1, data := 0, aff := 0, dt := .i32, be := false, scaled := false, tag := 0,
                                xf := ⟨2, 0, 0, 0⟩ }, .bad] ∧
    allowedRun ⟨fs0 fun _ => .i16, none⟩ [.load .aNii false, .setDt .i32, .save .aNii, .fdata false] = false := by
  decide

/-- float64 + mmap: the cached `get_fdata()` array IS the memmap of the source; after a dtype-changing self-save
    it maps a shorter, re-laid-out file (SIGBUS in the real process). -/
theorem current_stale_fdata_alias_counterexample :
    (run .base ⟨fs0 fun _ => .f64, none⟩ [.load .aNii true, .fdata false, .setDt .i16, .save .aNii, .fdata false]).1 =
      [.loadOk, .fdata 0, .dtOk, .saved { cls := .nifti1, data := 0, aff := 0, dt := .i16, be := false, scaled := true,
                                           tag := 0, xf := ⟨2, 0, 0, 0⟩ }, .bad] := by
  decide

/-- the same through `get_fdata(dtype=np.float32)` on a float32 SPM2 pair -/
theorem current_stale_fdata_alias_f32_counterexample :
    (run .base ⟨fs0 fun _ => .f32, none⟩ [.load .sImg true, .fdata true, .setDt .i16, .save .sImg, .fdata true]).1 =
      [.loadOk, .fdata 6, .dtOk, .saved { cls := .spm2, data := 6, aff := 6, dt := .i16, be := false, scaled := true,
                                           tag := 0, xf := ⟨0, 0, 0, 0⟩ }, .bad] := by
  decide

/-- the guard is TIGHT: a save onto the image's own source that changes the layout always leaves the live image
    unusable (whatever its cache state) — this is exactly the open finding, nothing else is excluded. -/
theorem guard_is_tight (s : St) (hw : WF s) (im : Img) (hi : s.img = some im) (hk : layoutKept im im.src = false) :
    probe (step .base s (.save im.src)).2 = none := by
  obtain ⟨fs, img⟩ := s
  simp only at hi
  subst hi
  have hok : ImgOk fs im := hw.2 im rfl
  have hbk : im.backed = true := by
    cases hb : im.backed
    · simp [layoutKept, hb] at hk
    · rfl
  have hne : ¬ ((outHeader im im.src).1 = im.srcDt ∧ (outHeader im im.src).2.2.1 = im.srcBe ∧
      outScaled im im.src = im.srcScaled) := by
    intro h
    simp [layoutKept, h.1, h.2.1, h.2.2] at hk
  have hrl : ∀ im' : Img, im'.src = im.src → im'.srcDt = im.srcDt → im'.srcBe = im.srcBe → im'.srcScaled = im.srcScaled →
      readLayout (fs.set im.src (some (.intact (savedContent im im.src)))) im'.src im'.srcDt im'.srcBe im'.srcScaled = none := by
    intro im' h1 h2 h3 h4
    rw [h1, h2, h3, h4]
    simp only [readLayout, FS.set_same, savedContent]
    rw [if_neg hne]
  simp only [step, withImg, save_cur hok]
  have key : ∀ im' : Img, im'.arr = im.arr → im'.src = im.src → im'.srcDt = im.srcDt → im'.srcBe = im.srcBe →
      im'.srcScaled = im.srcScaled →
      probe ⟨fs.set im.src (some (.intact (savedContent im im.src))), some im'⟩ = none := by
    intro im' h0 h1 h2 h3 h4
    have hr := hrl im' h1 h2 h3 h4
    have hmd : (materialise (fs.set im.src (some (.intact (savedContent im im.src)))) im').bind
        (deref (fs.set im.src (some (.intact (savedContent im im.src))))) = none := by
      unfold materialise
      rw [h0]
      cases ha : im.arr with
      | owned d fl => simp [Img.backed, Arr.backed, ha] at hbk
      | view inst => simp [deref, hr]
      | proxy => simp [hr]
    unfold probe
    simp only [hmd]
    cases getFdata (fs.set im.src (some (.intact (savedContent im im.src)))) im' false with
    | none => rfl
    | some r => rfl
  by_cases hc : outCls im.cls im.src.ext = im.cls
  · simp only [hc, if_true]; exact key _ rfl rfl rfl rfl rfl
  · simp only [hc, if_false]; exact key _ rfl rfl rfl rfl rfl

example : ∃ s im, WF s ∧ s.img = some im ∧ layoutKept im im.src = false :=
  ⟨(step .base (step .base ⟨fs0 fun _ => .i16, none⟩ (.load .aNii true)).2 (.setDt .i32)).2, _,
   (step_safe _ _ (step_safe _ _ (fs0_wf _) rfl).2.1 rfl).2.1, rfl, by decide⟩

/-! ### tables regenerated from the working tree -/

def clsCode : Cls → Nat
  | .nifti1 => 0 | .pair => 1 | .mgh => 2 | .spm2 => 3 | .nifti2 => 4 | .pair2 => 5

def extCode : Ext → Nat
  | .nii => 0 | .img => 1 | .mgh => 2

def allDT : List DT := [.u8, .i16, .i32, .f32, .f64]

def allCls : List Cls := [.nifti1, .pair, .mgh, .spm2, .nifti2, .pair2]

/-- the model's class-by-extension table, its "compressed, never mapped" predicate and the MGH dtype set are the
    ones extracted from the source on this run; both `to_file_map` bodies copy a memmap BEFORE the first 'wb' open
    (the order `writeTo false` models). -/
theorem generated_tables_agree :
    Gen.pathTable = Path.all.map (fun p => (clsCode p.cls, p.compressed)) ∧
    Gen.mghDtypes = (List.range 5).filter (fun i => (allDT[i]?.map mghOk) == some true) ∧
    Gen.analyzeCopiesBeforeOpen = true ∧ Gen.mghCopiesBeforeOpen = true := by decide

def guardCode : Guard → Nat
  | .none => 0 | .inst => 1 | .base => 2

/-- the copy guard of BOTH `to_file_map` bodies is the one every `step .base` theorem is about: `maps_file(data)`, and
    `volumeutils.maps_file` (AST) is a loop over `.base` with an `np.memmap` instance test that ends in an `mmap.mmap`
    test (0 no guard / 1 `isinstance(data, np.memmap)` / 2 follows `.base`) -/
theorem generated_guard_agrees :
    guardCode .base = Gen.analyzeGuard ∧ guardCode .base = Gen.mghGuard ∧ Gen.mapsFileFollowsBase = true := by decide

/-- `klass.valid_exts` looked up in the generated `all_image_classes` table -/
def genValid (c e : Nat) : Bool := (Gen.classTable.find? (fun r => r.1 == c)).any (fun r => r.2.contains e)

/-- `nibabel.save`'s choice of class, interpreted over the GENERATED tables: own class if the extension is valid,
    else the special cases (read from the AST of `save`), else the first class of `all_image_classes` with that
    extension -/
def genOutCls (c e : Nat) : Nat :=
  if genValid c e then c
  else match Gen.saveSpecial.find? (fun t => t.1 == c && t.2.1 == e) with
    | some t => t.2.2
    | none => match Gen.classTable.find? (fun r => r.2.contains e) with
      | some r => r.1
      | none => 9

/-- the model's conversion rule `outCls`, its `valid_exts` and its `to_bytes` set are the ones of the source -/
theorem generated_outCls_agree (c : Cls) (e : Ext) :
    clsCode (outCls c e) = genOutCls (clsCode c) (extCode e) ∧ c.validExt e = genValid (clsCode c) (extCode e) ∧
    c.hasToBytes = Gen.hasToBytes.contains (clsCode c) := by
  cases c <;> cases e <;> decide

/-- `get_best_affine` interpreted over the GENERATED source order of its tests -/
def genBest (x : XF) : Nat :=
  let code := fun (f : Nat) => if f = 0 then x.sc else if f = 1 then x.qc else 0
  let aff := fun (g : Nat) => if g = 0 then x.sa else if g = 1 then x.qa else baseAff
  match Gen.bestAffineOrder.find? (fun r => code r.1 != 0) with
  | some r => aff r.2
  | none => aff Gen.bestAffineFallback

/-- the model's `get_best_affine` precedence and the transform codes `_affine2header` writes are the ones of the
    source (AST of `Nifti1Header.get_best_affine` / `Nifti1Pair._affine2header`) -/
theorem generated_transform_rules_agree (x : XF) (a : Nat) (c : Cls) (hc : c.isNifti = true) :
    x.best = genBest x ∧ affine2header c a x = ⟨Gen.affine2headerCodes.1, a, Gen.affine2headerCodes.2, a⟩ := by
  constructor
  · obtain ⟨sc, sa, qc, qa⟩ := x
    rcases sc with _ | sc <;> rcases qc with _ | qc <;>
      simp [XF.best, genBest, Gen.bestAffineOrder, Gen.bestAffineFallback, List.find?]
  · cases c <;> first | rfl | simp [Cls.isNifti] at hc

example : ∃ x : XF, x.sc ≠ 0 ∧ x.qc ≠ 0 ∧ x.sa ≠ x.qa ∧ genBest x = x.sa := ⟨⟨3, 12, 2, 13⟩, by decide⟩

end Nb.C09
