import NibabelModel.Model.C09
import NibabelModel.Lemmas.C09
import NibabelModel.Generated.C09
/-! Props/C09 — any load / modify / save history leaves correct files and a live process.

  Vocabulary (definitions in Lemmas/C09.lean):
  * `WF s`        : no file of the abstract file system is left truncated, and the live image (if any) is usable:
                    its proxy's source file is intact, has the layout the proxy was built with and holds the data
                    the image had when it was loaded (`ImgOk`); an owning fdata cache holds the same data;
  * `StepSpec`    : the op did not crash (`≠ .bad`); a `save q` wrote EXACTLY the image state — data and affine the
                    image has at that step — to `q`, changed no other path, and left the image's state alone; every
                    other op leaves the file system untouched;
  * `Usable s`    : the end-of-history probe (`get_fdata()`, then `np.asanyarray(img.dataobj)`) succeeds and returns
                    the data the image was loaded with;
  * `allowed` / `allowedRun` : THE GUARD — a save onto the live image's OWN source path keeps the on-disk layout
                    (dtype, scaling) the proxy was built with.  Every other op and every other save is allowed.

  ONE live image per history (a `load` replaces it); fresh verification loads are `load` on the resulting file system.

  FULL STATEMENT (not provable for the code as it is — see `current_stale_source_counterexample`):
      theorem history_safe (s : St) (hw : WF s) (ops : List Op) : Safe s ops
  The guard `allowedRun s ops` is what is missing: after `set_data_dtype` + save onto the image's own source file the
  live image keeps an ArrayProxy (and possibly a float64 memmap fdata cache) built for the OLD layout of that file
  (open findings `stale-proxy-…` / `stale-fdata-memmap-…`).  The FILES written are correct without the guard
  (`save_writes_image_state`).
-/
namespace Nb.C09

/-- the initial file system of the harness: six files, file i holds data i / affine i, given dtypes -/
def fs0 (dts : Path → DT) : FS := fun p =>
  some (.intact { data := (Path.all.idxOf p), aff := (Path.all.idxOf p), dt := dts p, scaled := false, tag := 0 })

theorem fs0_wf (dts : Path → DT) : WF ⟨fs0 dts, none⟩ :=
  ⟨fun p => by simp [fs0], fun im h => by simp at h⟩

/-- ONE STEP, any op, any well-formed state: no crash, the save wrote the image state and nothing else, the
    invariant is re-established and the image is usable afterwards. -/
theorem step_safe (s : St) (op : Op) (hw : WF s) (ha : allowed s op = true) :
    StepSpec s op (step false s op) ∧ WF (step false s op).2 ∧ Usable (step false s op).2 :=
  let h := step_safe_aux s op hw ha
  ⟨h.1, h.2, usable_of_WF h.2⟩

example : ∃ s op, WF s ∧ allowed s op = true ∧ s.img.isSome ∧ op = .save .aNii :=
  ⟨(step false ⟨fs0 fun _ => .i16, none⟩ (.load .aNii true)).2, .save .aNii,
   (step_safe _ _ (fs0_wf _) rfl).2.1, by decide, by decide, rfl⟩

/-- HISTORIES of any length (induction over the op list): from a well-formed state, under the guard, no step
    crashes, every save writes exactly the image state at that step to its target and touches no other path, and
    the image is usable after every step and at the end.  `_partial`: the guard `allowedRun` (see file header). -/
theorem history_safe_partial (s : St) (hw : WF s) (ops : List Op) (ha : allowedRun s ops = true) : Safe s ops :=
  safe_of_WF ops s hw ha

/-- non-vacuity: a 9-step history with self-overwrites of a memory-mapped source, saves to several destinations,
    class conversions NIfTI→MGH→pair and a dtype change that is saved elsewhere satisfies the guard -/
example : allowedRun ⟨fs0 fun _ => .i16, none⟩
    [.load .aNii true, .fdata, .save .aNii, .save .aMgz, .setDt .f32, .save .bNii, .save .aImg, .load .aMgz true,
     .save .aMgz] = true := by decide

/-- the executable history runner (the function the driver prints) agrees: under the guard it never emits `bad`,
    produces one outcome per op, and ends in a well-formed state -/
theorem run_never_bad (s : St) (hw : WF s) (ops : List Op) (ha : allowedRun s ops = true) :
    (∀ o ∈ (run false s ops).1, o ≠ .bad) ∧ (run false s ops).1.length = ops.length ∧
      ∃ f, (run false s ops).2 = some f ∧ WF f :=
  run_ok ops s hw ha

/-- WITHOUT the guard: every save (also a layout-changing save onto the image's own memory-mapped source) writes
    a file that a fresh load decodes to the data and the affine the image had at that save. -/
theorem save_writes_image_state (s : St) (hw : WF s) (im : Img) (hi : s.img = some im) (q : Path) (mm : Bool) :
    (step false s (.save q)).1 = .saved (savedContent im q) ∧
    ∃ im2, load (step false s (.save q)).2.fs q mm = some im2 ∧ im2.data = im.data ∧ im2.aff = im.aff ∧
      im2.cls = q.cls ∧ ∀ p, p ≠ q → (step false s (.save q)).2.fs p = s.fs p := by
  obtain ⟨fs, img⟩ := s
  simp only at hi
  subst hi
  have hok : ImgOk fs im := hw.2 im rfl
  simp only [step, withImg, save_cur hok]
  refine ⟨trivial, ?_⟩
  simp only [load, FS.set_same]
  exact ⟨_, rfl, rfl, rfl, rfl, fun p hp => FS.set_other _ _ hp⟩

example : ∃ s im, WF s ∧ s.img = some im ∧ im.mapped = true :=
  ⟨(step false ⟨fs0 fun _ => .f32, none⟩ (.load .aImg true)).2, _, (step_safe _ _ (fs0_wf _) rfl).2.1, rfl, by decide⟩

/-- header affine fields edited directly (`img.header.set_sform(B)` …) do not reach the file: the save after the
    edit writes exactly what the save without the edit writes — the image's own affine (`update_header()` on the
    image, or on the `from_image` copy for a converting save). -/
theorem save_ignores_header_affine_edit (s : St) (hw : WF s) (im : Img) (hi : s.img = some im) (q : Path) (k : Nat) :
    (step false (step false s (.hdrEdit k)).2 (.save q)).1 = (step false s (.save q)).1 ∧
    (step false (step false s (.hdrEdit k)).2 (.save q)).2.fs = (step false s (.save q)).2.fs ∧
    ∃ c, (step false s (.save q)).1 = .saved c ∧ c.aff = im.aff := by
  obtain ⟨fs, img⟩ := s
  simp only at hi
  subst hi
  have hok : ImgOk fs im := hw.2 im rfl
  have hok' : ImgOk fs { im with hdrAff := k } := ⟨hok.1, hok.2⟩
  simp only [step, withImg, save_cur hok, save_cur hok']
  exact ⟨rfl, rfl, _, rfl, rfl⟩

example : ∃ s im, WF s ∧ s.img = some im ∧ im.hdrAff ≠ im.aff :=
  ⟨(step false (step false ⟨fs0 fun _ => .i16, none⟩ (.load .aNii true)).2 (.hdrEdit 7)).2, _,
   (step_safe _ _ (step_safe _ _ (fs0_wf _) rfl).2.1 rfl).2.1, rfl, by decide⟩

/-! ### the repaired defect -/

/-- ORIGINAL logic (no copy of the memmap before the target is opened 'wb'): `nib.save(nib.load('a.nii'), 'a.nii')`
    reads its data through the truncated file. -/
theorem orig_self_overwrite_crashes :
    (run true ⟨fs0 fun _ => .i16, none⟩ [.load .aNii true, .save .aNii]).1 = [.loadOk, .bad] := by decide

/-- … and so does EVERY self-overwrite of a memory-mapped source in any well-formed state (all of `.nii`, `.img`,
    `.mgh`; compressed names and `mmap=False` are not `mapped`). -/
theorem orig_self_overwrite_crashes_all_plain (s : St) (hw : WF s) (im : Img) (hi : s.img = some im)
    (hm : im.mapped = true) : (step true s (.save im.src)).1 = .bad := by
  obtain ⟨fs, img⟩ := s
  simp only at hi
  subst hi
  have hb := writeTo_orig_self (hw.2 im rfl) hm
  simp only [step, withImg, save]
  revert hb
  generalize writeTo true fs im im.src = r
  obtain ⟨o, fs'⟩ := r
  intro hb
  simp only at hb
  subst hb
  rfl

example : ∃ s im, WF s ∧ s.img = some im ∧ im.mapped = true ∧ im.src = .aMgh :=
  ⟨(step false ⟨fs0 fun _ => .i16, none⟩ (.load .aMgh true)).2, _, (step_safe _ _ (fs0_wf _) rfl).2.1, rfl,
   by decide, rfl⟩

/-- CURRENT logic on the same histories: the self-overwrite succeeds and writes the image state. -/
theorem current_self_overwrite_ok (s : St) (hw : WF s) (im : Img) (hi : s.img = some im) :
    (step false s (.save im.src)).1 = .saved (savedContent im im.src) :=
  (save_writes_image_state s hw im hi im.src true).1

/-- the original logic was wrong ONLY there: off the image's own source it coincides with the current logic -/
theorem orig_safe_off_source (s : St) (hw : WF s) (im : Img) (hi : s.img = some im) (q : Path) (hq : q ≠ im.src) :
    (step true s (.save q)).1 = (step false s (.save q)).1 ∧
    (step true s (.save q)).2.fs = (step false s (.save q)).2.fs := by
  obtain ⟨fs, img⟩ := s
  simp only at hi
  subst hi
  simp only [step, withImg, save, writeTo_orig_off_source (hw.2 im rfl) hq]
  exact ⟨trivial, trivial⟩

example : ∃ s im q, WF s ∧ s.img = some im ∧ q ≠ im.src :=
  ⟨(step false ⟨fs0 fun _ => .i16, none⟩ (.load .aNii true)).2, _, .bNii, (step_safe _ _ (fs0_wf _) rfl).2.1, rfl,
   by decide⟩

/-! ### what the current code still does wrong (open findings; why the guard is needed) -/

/-- `img = load('a.nii')  # int16;  img.set_data_dtype(int32);  save(img, 'a.nii');  img.get_fdata()` — the file
    written is right, the live image reads it through its stale proxy. -/
theorem current_stale_source_counterexample :
    (run false ⟨fs0 fun _ => .i16, none⟩ [.load .aNii false, .setDt .i32, .save .aNii, .fdata]).1 =
      [.loadOk, .dtOk, .saved { data := 0, aff := 0, dt := .i32, scaled := false, tag := 0 }, .bad] ∧
    allowedRun ⟨fs0 fun _ => .i16, none⟩ [.load .aNii false, .setDt .i32, .save .aNii, .fdata] = false := by
  decide

/-- float64 + mmap: the cached `get_fdata()` array IS the memmap of the source; after a dtype-changing self-save
    it maps a shorter, re-laid-out file (SIGBUS in the real process). -/
theorem current_stale_fdata_alias_counterexample :
    (run false ⟨fs0 fun _ => .f64, none⟩ [.load .aNii true, .fdata, .setDt .i16, .save .aNii, .fdata]).1 =
      [.loadOk, .fdata 0, .dtOk, .saved { data := 0, aff := 0, dt := .i16, scaled := true, tag := 0 }, .bad] := by
  decide

/-- the guard is TIGHT: a save onto the image's own source that changes the layout always leaves the live image
    unusable (whatever its cache state) — this is exactly the open finding, nothing else is excluded. -/
theorem guard_is_tight (s : St) (hw : WF s) (im : Img) (hi : s.img = some im) (hk : layoutKept im im.src = false) :
    probe (step false s (.save im.src)).2 = none := by
  obtain ⟨fs, img⟩ := s
  simp only at hi
  subst hi
  have hok : ImgOk fs im := hw.2 im rfl
  have hne : ¬ ((outHeader im im.src).1 = im.srcDt ∧ outScaled im im.src = im.srcScaled) := by
    intro h
    simp [layoutKept, h.1, h.2] at hk
  have hrl : ∀ im' : Img, im'.src = im.src → im'.srcDt = im.srcDt → im'.srcScaled = im.srcScaled →
      readLayout (fs.set im.src (some (.intact (savedContent im im.src)))) im'.src im'.srcDt im'.srcScaled = none := by
    intro im' h1 h2 h3
    rw [h1, h2, h3]
    simp only [readLayout, FS.set_same, savedContent]
    rw [if_neg hne]
  simp only [step, withImg, save_cur hok]
  have key : ∀ im' : Img, im'.src = im.src → im'.srcDt = im.srcDt → im'.srcScaled = im.srcScaled →
      probe ⟨fs.set im.src (some (.intact (savedContent im im.src))), some im'⟩ = none := by
    intro im' h1 h2 h3
    have hr := hrl im' h1 h2 h3
    have hmat : materialise (fs.set im.src (some (.intact (savedContent im im.src)))) im' = none := by
      simp [materialise, hr]
    unfold probe getFdata
    cases hc : im'.cache <;> simp [hc, hmat, hr]
  by_cases hc : im.src.cls = im.cls
  · simp only [hc, if_true]; exact key _ rfl rfl rfl
  · simp only [hc, if_false]; exact key _ rfl rfl rfl

example : ∃ s im, WF s ∧ s.img = some im ∧ layoutKept im im.src = false :=
  ⟨(step false (step false ⟨fs0 fun _ => .i16, none⟩ (.load .aNii true)).2 (.setDt .i32)).2, _,
   (step_safe _ _ (step_safe _ _ (fs0_wf _) rfl).2.1 rfl).2.1, rfl, by decide⟩

/-! ### tables regenerated from the working tree -/

def clsCode : Cls → Nat
  | .nifti1 => 0 | .pair => 1 | .mgh => 2

def allDT : List DT := [.u8, .i16, .i32, .f32, .f64]

/-- the model's class-by-extension table, its "compressed, never mapped" predicate and the MGH dtype set are the
    ones extracted from the source on this run; both `to_file_map` bodies copy a memmap BEFORE the first 'wb' open
    (the order `writeTo false` models). -/
theorem generated_tables_agree :
    Gen.pathTable = Path.all.map (fun p => (clsCode p.cls, p.compressed)) ∧
    Gen.mghDtypes = (List.range 5).filter (fun i => (allDT[i]?.map mghOk) == some true) ∧
    Gen.analyzeCopiesBeforeOpen = true ∧ Gen.mghCopiesBeforeOpen = true := by decide

end Nb.C09
