import NibabelModel.Model.C16
import NibabelModel.Model.C16_Save
import NibabelModel.Generated.C16
import NibabelModel.Lemmas.C16_Digits
import NibabelModel.Lemmas.C16_Tck
import NibabelModel.Lemmas.C16_Names
import NibabelModel.Lemmas.C16_Trk
import NibabelModel.Lemmas.C16_Table
import NibabelModel.Lemmas.C16_Items
import NibabelModel.Lemmas.C16_File
import NibabelModel.Lemmas.C16_Lazy
import NibabelModel.Lemmas.C16_Aff
import NibabelModel.Lemmas.C16_ByteOrder
import NibabelModel.Lemmas.C16_Pending
import NibabelModel.Lemmas.C16_HdrParse
import NibabelModel.Lemmas.C16_Save
/-! Props/C16 — property theorems for C16 (tractograms round-trip through TRK and TCK in RAS+ mm).
    Statements about the TCK header arithmetic are about the definitions REGENERATED from the source
    (`Gen.*`, Generated/C16.lean). -/
namespace Nb.C16

/-! ### TCK header: the number written after `file: .` is the byte offset of the data -/

/-- For EVERY header text length, the value `_write_header` writes after `file: . ` equals the
    length of everything it writes (`out`, the `\nfile: . ` text, the digits of the value itself,
    `\nEND\n`) — i.e. the real offset of the first data byte.  (Digit-boundary argument: adding the
    digit count can add at most one digit, and the second `len(str(..))` accounts for it.) -/
theorem tck_offset_fixpoint (lenOut : Nat) :
    Gen.tckHdrOffset lenOut =
      lenOut + Gen.tckFilePrefixLen + decDigits (Gen.tckHdrOffset lenOut) + Gen.tckFileSuffixLen := by
  have h := offset_digits_fixpoint (lenOut + 8 + 3 + 3)
  simp only [Gen.tckHdrOffset, Gen.tckFilePrefixLen, Gen.tckFileSuffixLen]
  omega

example : Gen.tckHdrOffset 83 = 99 ∧ Gen.tckHdrOffset 84 = 101 := by
  simp [Gen.tckHdrOffset, decDigits]

/-- the reader's buffer is a positive multiple of one coordinate triple, whatever was requested -/
theorem tck_buffer_multiple (req : Nat) :
    0 < Gen.tckBufferBytes req ∧ Gen.tckBufferBytes req % Gen.coordinate_size = 0 ∧
      req < Gen.tckBufferBytes req := by
  simp only [Gen.tckBufferBytes, Gen.coordinate_size]
  omega

/-! ### TCK reader: independence of the buffer size -/

/-- For every buffer size (in whole triples, positive) and every data section made of whole
    triples, the chunked reader with its leftover carry yields exactly the streamlines of the
    whole-stream parse, in order, and ends the same way (clean end / DataError). -/
theorem tck_chunk_independent (c : Nat) (_hc : 0 < c) (off : Nat) (data : List Triple) :
    (tckRead c 0 off data).items.map (·.1) = (tckParseWhole data).1 ∧
    (tckRead c 0 off data).err = (tckParseWhole data).2 := by
  have h := tckLoop_eq_scan c data [] off
  exact ⟨h.1, h.2.1⟩

example : (tckRead 1 0 67 (tckData [[(1, 2, 3), (4, 5, 6)], [(7, 8, 9)]])).items.map (·.1)
    = [[(1, 2, 3), (4, 5, 6)], [(7, 8, 9)]] := by
  rw [(tck_chunk_independent 1 (by decide) 67 _).1]; decide

/-- a file whose data section does not consist of whole triples is always refused (ValueError from
    `np.frombuffer`/`reshape` on the last, short read) — never read as different data -/
theorem tck_ragged_refused (c ragged : Nat) (hr : ragged ≠ 0) (off : Nat) (data : List Triple) :
    (tckRead c ragged off data).err = some Err.value :=
  tckLoop_ragged c ragged hr data [] off

/-- TCK round trip, exact on bit patterns, for every buffer size: what `save` writes is read back as
    the same streamlines in the same order.  Hypothesis: no point is an all-NaN triple (in
    particular: finite coordinates).  Streamlines with no points are written as a bare delimiter
    and silently dropped by the reader (in the real code `ArraySequence` already drops them when
    the `Tractogram` is built, so they only reach the writer through a `LazyTractogram`). -/
theorem tck_roundtrip (c : Nat) (hc : 0 < c) (off : Nat) (sls : List (List Triple))
    (h : ∀ s ∈ sls, ∀ t ∈ s, isDelim t = false) :
    (tckRead c 0 off (tckData sls)).items.map (·.1) = sls.filter (fun s => !s.isEmpty) ∧
    (tckRead c 0 off (tckData sls)).err = none := by
  have hi := tck_chunk_independent c hc off (tckData sls)
  have hs := tckScan_tckData sls h
  refine ⟨?_, ?_⟩
  · rw [hi.1]; simp [tckParseWhole, hs]
  · rw [hi.2]
    have : tckEofOk [infTriple] = true := by decide
    simp [tckParseWhole, hs, this]

example : ∀ s ∈ [[((1 : Nat), (2 : Nat), (3 : Nat))], [(0x7FC00000, 5, 6)]], ∀ t ∈ s, isDelim t = false := by decide

/-- **TCK round trip at file level**, for every header text `out` (any bytes, any length — in
    particular every length at which the offset gains a digit), every buffer size and every
    tractogram with 32-bit words and no all-NaN point: in the bytes `save` writes
    (`out ++ "\nfile: . N\nEND\n" ++ little-endian triples`)
    * the digits after `file: . ` parse back (`int`) to the regenerated `Gen.tckHdrOffset`,
    * the header occupies exactly that many bytes, so the reader, seeking to the announced
      offset, starts exactly at the first data byte (it finds whole triples, no ragged tail), and
    * it yields exactly the non-empty streamlines that were saved, in order, bit for bit, and
      ends without error.
    SCOPE (audit): "announced" here is `tckAnnounced` = the digits at the position where `save` put them;
    it is NOT the real header parser, which reads lines and can be redirected by an `END` line or an
    earlier `file:` entry inside `out` (`tck_header_text_counterexample`).  The statement through the
    modelled line parser, with the hypothesis on the header text, is `tck_file_roundtrip_parsed`. -/
theorem tck_file_roundtrip (out : List Nat) (c : Nat) (hc : 0 < c) (sls : List (List Triple))
    (h32 : ∀ s ∈ sls, ∀ t ∈ s, Is32 t) (hnan : ∀ s ∈ sls, ∀ t ∈ s, isDelim t = false) :
    tckAnnounced out.length (tckWriteFile out sls) = some (Gen.tckHdrOffset out.length) ∧
    (tckWriteFile out sls).drop (Gen.tckHdrOffset out.length) = encTriples (tckData sls) ∧
    (tckReadFile c (Gen.tckHdrOffset out.length) (tckWriteFile out sls)).items.map (·.1) =
      sls.filter (fun s => !s.isEmpty) ∧
    (tckReadFile c (Gen.tckHdrOffset out.length) (tckWriteFile out sls)).err = none := by
  rw [Gen.tckHdrOffset_eq_model]
  have hfix := tckHdrOffset_fix out.length
  have hhdr : (out ++ tckFilePrefix ++ decRepr (tckHdrOffset out.length) ++ tckFileSuffix).length =
      tckHdrOffset out.length := by
    simp only [List.length_append, decRepr_length]
    omega
  have hdrop : (tckWriteFile out sls).drop (tckHdrOffset out.length) = encTriples (tckData sls) := by
    unfold tckWriteFile
    exact drop_append_len _ _ _ hhdr
  refine ⟨?_, hdrop, ?_⟩
  · -- the announced offset
    unfold tckAnnounced tckWriteFile
    have : (out ++ tckFilePrefix ++ decRepr (tckHdrOffset out.length) ++ tckFileSuffix ++ encTriples (tckData sls)).drop
        (out.length + tckFilePrefix.length) =
        decRepr (tckHdrOffset out.length) ++ 10 :: ([69, 78, 68, 10] ++ encTriples (tckData sls)) := by
      have h1 : (out ++ tckFilePrefix).length = out.length + tckFilePrefix.length := by simp
      have : out ++ tckFilePrefix ++ decRepr (tckHdrOffset out.length) ++ tckFileSuffix ++ encTriples (tckData sls) =
          (out ++ tckFilePrefix) ++ (decRepr (tckHdrOffset out.length) ++ 10 :: ([69, 78, 68, 10] ++ encTriples (tckData sls))) := by
        simp [tckFileSuffix]
      rw [this, drop_append_len _ _ _ h1]
    rw [this, takeWhile_append_stop isDigit _ 10 _ (decRepr_all_digit _) (by decide), parseDec_decRepr]
  · -- reading from there
    unfold tckReadFile
    rw [hdrop, decTriples_encTriples _ (tckData_is32 sls h32)]
    exact tck_roundtrip c hc _ sls hnan

example : (∀ s ∈ [[((1 : Nat), (2 : Nat), (3 : Nat))]], ∀ t ∈ s, Is32 t) := by
  intro s hs t ht
  simp at hs; subst hs
  simp at ht; subst ht
  exact ⟨by decide, by decide, by decide⟩

/-! ### TCK: the file round trip through the REAL (line-oriented) header parser -/

/-- **TCK round trip at file level with the header parser of `_read_header` modelled** (audit item: the
    earlier `tck_file_roundtrip` quantifies over every header text but finds the offset by looking at
    the digits after the `file: . ` that `save` wrote; the real reader parses LINES).  For every header
    text of the writer's shape — magic, one separator byte, then lines without newline each of which is
    blank or a `key: value` line that is not `END` and whose key is not `file` (`KVLine`) — of ANY
    length, every buffer size and every tractogram of 32-bit words without all-NaN point: the line
    parser (`tckHeaderOffset`: split at `\n`, strip, skip blanks, stop at `END`, `split(':', 1)`, values of a
    repeated key joined, `int(hdr['file'].split()[1])`) returns exactly the regenerated
    `Gen.tckHdrOffset`, and the reader started there yields the saved non-empty streamlines, in order,
    bit for bit, without error. -/
theorem tck_file_roundtrip_parsed (lines : List (List Nat)) (hne : lines ≠ []) (hl : ∀ l ∈ lines, KVLine l)
    (sep c : Nat) (hc : 0 < c) (sls : List (List Triple))
    (h32 : ∀ s ∈ sls, ∀ t ∈ s, Is32 t) (hnan : ∀ s ∈ sls, ∀ t ∈ s, isDelim t = false) :
    ∃ off, tckHeaderOffset (tckWriteFile (tckMagic ++ sep :: joinNl lines) sls) = .ok off ∧
      off = Gen.tckHdrOffset (tckMagic ++ sep :: joinNl lines).length ∧
      (tckReadFile c off (tckWriteFile (tckMagic ++ sep :: joinNl lines) sls)).items.map (·.1) =
        sls.filter (fun s => !s.isEmpty) ∧
      (tckReadFile c off (tckWriteFile (tckMagic ++ sep :: joinNl lines) sls)).err = none := by
  have hp := tckHeaderOffset_written lines hne hl sep sls
  have hr := tck_file_roundtrip (tckMagic ++ sep :: joinNl lines) c hc sls h32 hnan
  refine ⟨Gen.tckHdrOffset (tckMagic ++ sep :: joinNl lines).length, ?_, rfl, hr.2.2.1, hr.2.2.2⟩
  rw [Gen.tckHdrOffset_eq_model]
  exact hp

/-- non-vacuity: the two lines every TCK header has -/
example : KVLine [99, 111, 117, 110, 116, 58, 32, 48] ∧ KVLine [] := by
  refine ⟨⟨by decide, Or.inr ⟨by decide +kernel, [99, 111, 117, 110, 116], [32, 48], by decide +kernel, by decide +kernel⟩⟩,
    ⟨by simp, Or.inl (by decide)⟩⟩

/-- why the hypothesis on the header text is needed (the over-quantification the audit found): a header
    text containing the line `END`, or an earlier `file: . 7` entry, makes the real parser return 18 resp. 7
    while `_write_header` announces 33 resp. 39 — `tck_file_roundtrip`'s "digits after the written
    `file: . `" would not see this. -/
theorem tck_header_text_counterexample :
    (tckHeaderOffset (tckWriteFile (tckMagic ++ [10, 69, 78, 68]) [])).toOption = some 18 ∧
    Gen.tckHdrOffset (tckMagic ++ [10, 69, 78, 68]).length = 33 ∧
    (tckHeaderOffset (tckWriteFile (tckMagic ++ [10, 102, 105, 108, 101, 58, 32, 46, 32, 55]) [])).toOption = some 7 ∧
    Gen.tckHdrOffset (tckMagic ++ [10, 102, 105, 108, 101, 58, 32, 46, 32, 55]).length = 39 := by
  refine ⟨by decide +kernel, by decide +kernel, by decide +kernel, by decide +kernel⟩


/-! ### TRK names -/

/-- `decode_value_from_name(encode_value_in_name(k, name))` (through the `S20` header field, which
    strips trailing NULs) gives back `(name, k)` for every pair the encoder accepts with `k ≥ 1`,
    a NUL-free name, and not (`name = ''` and `k = 1`) — that pair encodes to twenty NULs, which
    reads as "unused field" (name '', value 0). -/
theorem name_codec_roundtrip (name : Name) (k : Nat) (enc : List Nat)
    (hnul : ∀ c ∈ name, c ≠ 0) (hk : 1 ≤ k) (hne : name ≠ [] ∨ 2 ≤ k)
    (henc : encodeName k name = .ok enc) :
    decodeName (s20 enc) = .ok (name, k) := by
  by_cases h1 : name.length > 20
  · simp [encodeName, h1] at henc
  · by_cases hk1 : k ≤ 1
    · -- k = 1: the name alone
      simp [encodeName, h1, hk1] at henc
      subst henc
      have hk' : k = 1 := by omega
      have hn : name ≠ [] := by
        rcases hne with h | h
        · exact h
        · omega
      unfold s20
      rw [rstripNul_append_zeros]
      have hr : rstripNul name = name :=
        rstripNul_of_last name hn (getLast_ne_zero_of_all name hn hnul)
      unfold decodeName
      rw [hr, hr]
      have : name.isEmpty = false := by cases name <;> simp_all
      simp [this, splitNul_nulfree name hnul, hk']
    · by_cases h2 : (name ++ [0] ++ decRepr k).length > 20
      · simp only [encodeName, h1, hk1, h2, if_true, if_false] at henc
        cases henc
      · have henc' : name ++ [0] ++ decRepr k ++ List.replicate (20 - (name ++ [0] ++ decRepr k).length) 0 = enc := by
          simp only [encodeName, h1, hk1, h2, if_false] at henc
          injection henc
        subst henc'
        have hd : ∀ c ∈ decRepr k, c ≠ 0 := fun c hc => isDigit_ne_zero (decRepr_all_digit k c hc)
        have hne2 : name ++ [0] ++ decRepr k ≠ [] := by simp
        have hlast : (name ++ [0] ++ decRepr k).getLast hne2 ≠ 0 := by
          rw [List.getLast_append_of_ne_nil hne2 (decRepr_ne_nil k)]
          exact getLast_ne_zero_of_all _ _ hd
        have hr : rstripNul (name ++ [0] ++ decRepr k) = name ++ [0] ++ decRepr k :=
          rstripNul_of_last _ hne2 hlast
        unfold s20
        rw [rstripNul_append_zeros]
        unfold decodeName
        rw [hr, hr]
        have he : (name ++ [0] ++ decRepr k).isEmpty = false := by simp
        simp [splitNul_one_nul name (decRepr k) hnul hd, parseDec_decRepr]

example : encodeName 3 [102, 97] = .ok ([102, 97, 0, 51] ++ List.replicate 16 0) := by
  simp [encodeName, decRepr]

/-! ### File position (reader generators) -/

/-- Invariant of the reader generators of the CURRENT code, for every run (any items, any way of
    ending), every start position and EVERY history of consumer actions (`next`/`close` in any
    order, including abandoning the generator after the first record, iterating to the end, and an
    exception raised by the reader): whenever the generator is not suspended at a `yield`, the file
    position is the one found at the start.
    (AUDIT NOTE: `Gen.advance`/`Gen.step` SET `pos := start` in the `fixed` branch, so on its own this
    is an invariant of a hand-written state machine.  It is no longer the foundation:
    `gen_refines_finally_semantics` proves `Gen` equal to the generator-with-finally semantics `FGen`
    instantiated with the seek placement, `finally_restores_iff` derives the restore property from that
    semantics, and `position_restored_src` states it about the placement read off the source AST.) -/
theorem position_invariant {α} (run : GenRun α) (start : Nat) (acts : List Act) :
    ((Gen.init run true start).runActs acts).st.isSuspended = false →
      ((Gen.init run true start).runActs acts).pos = start := by
  suffices H : ∀ (g : Gen α), g.fixed = true → g.start = start → (g.st.isSuspended = false → g.pos = start) →
      (g.runActs acts).fixed = true ∧ (g.runActs acts).start = start ∧
      ((g.runActs acts).st.isSuspended = false → (g.runActs acts).pos = start) by
    exact (H _ rfl rfl (fun _ => rfl)).2.2
  induction acts with
  | nil => intro g h1 h2 h3; exact ⟨h1, h2, h3⟩
  | cons a as ih =>
    intro g h1 h2 h3
    have hstep : (g.step a).fixed = true ∧ (g.step a).start = start ∧
        ((g.step a).st.isSuspended = false → (g.step a).pos = start) := by
      cases a with
      | next =>
        simp only [Gen.step]
        cases hst : g.st with
        | fresh =>
          simp only [Gen.advance]
          split
          · refine ⟨h1, h2, ?_⟩; intro hk; simp [GState.isSuspended] at hk
          · simp [h1, h2]
        | suspended j =>
          simp only [Gen.advance]
          split
          · refine ⟨h1, h2, ?_⟩; intro hk; simp [GState.isSuspended] at hk
          · simp [h1, h2]
        | finished =>
          refine ⟨h1, h2, ?_⟩
          intro _
          exact h3 (by rw [hst]; rfl)
      | close =>
        simp only [Gen.step]
        cases hst : g.st with
        | fresh =>
          refine ⟨h1, h2, ?_⟩
          intro _
          exact h3 (by rw [hst]; rfl)
        | suspended j => simp [h1, h2]
        | finished =>
          refine ⟨h1, h2, ?_⟩
          intro _
          exact h3 (by rw [hst]; rfl)
    exact ih (g.step a) hstep.1 hstep.2.1 hstep.2.2

/-- `position_restored`: for both readers, every data section, buffer size, start position and
    consumer history, once the generator is finished (ran to the end, raised, or was closed /
    garbage-collected after any number of items) or was never started, `tell()` is where it was.
    (GLUE: instance of `position_invariant` for the two reader runs; the source-tied statement is
    `position_restored_src`.) -/
theorem position_restored (start : Nat) (acts : List Act) :
    (∀ (c ragged off : Nat) (data : List Triple),
      ((Gen.init (tckRead c ragged off data) true start).runActs acts).st.isSuspended = false →
      ((Gen.init (tckRead c ragged off data) true start).runActs acts).pos = start) ∧
    (∀ (ns np announced off : Nat) (words : List Nat),
      ((Gen.init (trkRead ns np announced off words) true start).runActs acts).st.isSuspended = false →
      ((Gen.init (trkRead ns np announced off words) true start).runActs acts).pos = start) :=
  ⟨fun c ragged off data => position_invariant (tckRead c ragged off data) start acts,
   fun ns np announced off words => position_invariant (trkRead ns np announced off words) start acts⟩

/-- eager load = iterate to the end; lazy load = peek one record and drop the generator -/
example : ((Gen.init (⟨[((1 : Nat), 40), (2, 52)], none, 64⟩ : GenRun Nat) true 7).runActs
    [.next, .next, .next]).pos = 7 ∧
    ((Gen.init (⟨[((1 : Nat), 40), (2, 52)], none, 64⟩ : GenRun Nat) true 7).runActs [.next, .close]).pos = 7 := by
  decide

/-- The ORIGINAL readers (`f.seek(start_position, os.SEEK_CUR)` as the last statement, no
    try/finally): a complete iteration from position 0 leaves the handle at the end of the data,
    from position 7 even beyond it, and a generator abandoned after the first record (the lazy
    load's peek) leaves it after that record. -/
theorem position_orig_counterexample :
    ((Gen.init (⟨[((1 : Nat), 1016), (2, 1032)], none, 1032⟩ : GenRun Nat) false 0).runActs
      [.next, .next, .next]).pos = 1032 ∧
    ((Gen.init (⟨[((1 : Nat), 1016), (2, 1032)], none, 1032⟩ : GenRun Nat) false 7).runActs
      [.next, .next, .next]).pos = 1039 ∧
    ((Gen.init (⟨[((1 : Nat), 1016), (2, 1032)], none, 1032⟩ : GenRun Nat) false 0).runActs
      [.next, .close]).pos = 1016 := by
  decide

/-! ### TRK records -/

/-- TRK record round trip: for every list of records that agree with the header counts (`ns`
    scalars per point, `np` properties per streamline; fewer than 2^31 points each), the reader,
    given the count `save` writes (the number of records) or 0 ("not provided": read to end of
    file), yields exactly the written records — same number, same order, same points with their
    scalar columns, same properties — and ends without error. -/
theorem trk_records_roundtrip (ns np off : Nat) (recs : List TrkRec) (hw : ∀ r ∈ recs, r.WF ns np)
    (announced : Nat) (hann : announced = 0 ∨ announced = recs.length) :
    (trkRead ns np announced off (trkDataWords recs)).items.map (·.1) = recs ∧
    (trkRead ns np announced off (trkDataWords recs)).err = none :=
  trkLoop_records ns np announced recs hw 0 off (by simpa using hann)

example : (⟨[[1, 2, 3, 9], [4, 5, 6, 8]], [7, 7]⟩ : TrkRec).WF 1 2 := by
  refine ⟨?_, rfl, by decide⟩
  intro row h; simp at h; rcases h with h | h <;> subst h <;> rfl

/-- Names survive: for every list of at most ten (name, number of columns) pairs with distinct
    names that the codec accepts (`ColOk`: NUL-free, at least one column, not the empty name with
    one column), the name table `save` writes (`scalar_name` / `property_name`, unused fields zero)
    is decoded by `load` — with the header count `save` writes, the total number of columns — into
    exactly the cumulative column slices under the same names, in the same order; no column is left
    over for the default name. -/
theorem trk_name_table_roundtrip (cols : List (Name × Nat)) (dflt : Name) (fields : List (List Nat))
    (hok : ∀ c ∈ cols, ColOk c) (hnd : (cols.map (·.1)).Nodup) (ht : nameTable cols = .ok fields) :
    nameSlices (colsTotal cols) fields dflt = .ok (cumSlices cols 0) := by
  unfold nameTable at ht
  split at ht
  · cases ht
  · cases hes : cols.mapM (fun c => encodeName c.2 c.1) with
    | error e => simp [hes, bind, Except.bind] at ht
    | ok encs =>
      simp only [hes, bind, Except.bind, pure, Except.pure] at ht
      injection ht with ht
      subst ht
      cases cols with
      | nil => simp [colsTotal, nameSlices, cumSlices]
      | cons c cs =>
        have hpos : (colsTotal (c :: cs) == 0) = false := by
          have := (hok c (by simp)).2.1
          simp [colsTotal]; omega
        have hloop := nameSlicesLoop_encoded
          (fun c hc enc he => name_codec_roundtrip c.1 c.2 enc hc.1 hc.2.1 hc.2.2 he)
          (c :: cs) encs (List.replicate (10 - (c :: cs).length) (List.replicate 20 0)) 0 [] hes hok hnd
          (by intro _ _ e he; cases he)
        unfold nameSlices
        simp only [hpos, Bool.false_eq_true, if_false]
        rw [hloop, nameSlicesLoop_zeros]
        simp

example : ColOk ([102, 97], 1) ∧ ColOk ([], 3) := by
  refine ⟨⟨?_, by decide, Or.inl (by decide)⟩, ⟨?_, by decide, Or.inr (by decide)⟩⟩ <;> intro x hx <;> simp at hx
  rcases hx with h | h <;> subst h <;> decide

/-- Values survive under their names: the per-streamline values of one item, concatenated in key
    order by `save` (`np.concatenate(properties)`), are cut by `load` at the cumulative slices of
    the name table into exactly the original (name, values) pairs.  (The same cut is applied to the
    scalar part of every point row for `data_per_point`.) -/
theorem trk_columns_roundtrip (dps : List (Name × List Nat)) :
    (cumSlices (dps.map (fun c => (c.1, c.2.length))) 0).map
      (fun s => (s.1, pySlice (dps.map (·.2)).flatten s.2.1 s.2.2)) = dps := by
  have := slices_recover dps []
  simpa using this

/-- a schema the TRK name table can carry: every (name, number of columns) pair is `ColOk` and the
    names are distinct -/
def SchemaOk (cols : List (Name × Nat)) : Prop := (∀ c ∈ cols, ColOk c) ∧ (cols.map (·.1)).Nodup

/-- **TRK round trip at the level of the tractogram.**  For every list of items (streamlines with
    their points, per-point data under names, per-streamline data under names; dicts in sorted key
    order) that the writer accepts — the per-point names `pcols` and per-streamline names `scols`
    with their numbers of columns fit the header name tables (`nameTable … = ok`: at most ten
    names of at most 20 bytes incl. the encoded count) and are `SchemaOk`, every item has at least
    one point and one row of the right width per point under every name (`Item.WF`) — `save`
    succeeds, the header announces the number of streamlines, and `load` of what was written
    returns exactly the same items: the same number of streamlines in the same order, the same
    points, and the same data_per_point / data_per_streamline values under the same names.
    (Coordinates here are the words handed to the record loop; the affine pair around it is
    `trackvis_affine_invertible`.  What the real code does outside the hypotheses: a tractogram
    whose only streamlines are empty raises ZeroDivisionError; the name '' with one column is read
    back under the default name; names containing NUL are refused by `load`.) -/
theorem trk_roundtrip (pcols scols : List (Name × Nat)) (items : List Item) (sf pf : List (List Nat))
    (hp : SchemaOk pcols) (hs : SchemaOk scols)
    (hsf : nameTable pcols = .ok sf) (hpf : nameTable scols = .ok pf)
    (hw : ∀ it ∈ items, it.WF pcols scols) :
    ∃ h words, trkSaveItems items = .ok (h, words) ∧ h.nStreams = items.length ∧
      trkLoadItems h words = .ok items := by
  cases items with
  | nil =>
    refine ⟨⟨0, 0, 0, zeroFields, zeroFields⟩, [], rfl, rfl, ?_⟩
    have hr := trk_records_roundtrip 0 0 0 [] (by simp) 0 (Or.inl rfl)
    simp only [trkDataWords, List.map_nil, List.flatten_nil] at hr
    have hi : (trkRead 0 0 0 0 []).items = [] := List.map_eq_nil_iff.mp hr.1
    simp [trkLoadItems, nameSlices, hr.2, hi]
  | cons first rest =>
    have hfirst := hw first (by simp)
    obtain ⟨hn, _, hm, hsd⟩ := hfirst
    let recs := (first :: rest).map itemRecOf
    have hWF : ∀ r ∈ recs, r.WF (colsTotal pcols) (colsTotal scols) := by
      intro r hr
      obtain ⟨it, hit, rfl⟩ := List.mem_map.mp hr
      exact itemRecOf_WF (hw it hit)
    have hmapM : (first :: rest).mapM (itemRec (pcols.map (·.1)) (scols.map (·.1))) = .ok recs :=
      mapM_ok_of_forall _ itemRecOf _ (fun it hit => itemRec_eq (hw it hit) hp.2 hs.2)
    have hlen : recs.length = (first :: rest).length := by simp [recs]
    have hpts : 0 < (recs.map (·.rows.length)).sum := by
      simp only [recs, List.map_cons, List.sum_cons, itemRecOf_rows_length]
      omega
    have hcounts := trkHeaderCounts_eq (colsTotal pcols) (colsTotal scols) recs hWF hpts
      (by rw [hlen]; simp) sf pf
    rw [hlen] at hcounts
    refine ⟨⟨(first :: rest).length, colsTotal pcols, colsTotal scols, sf, pf⟩, trkDataWords recs, ?_, rfl, ?_⟩
    · -- save
      have hnames_p : first.dpp.map (·.1) = pcols.map (·.1) := hm.names
      have hnames_s : first.dps.map (·.1) = scols.map (·.1) := by rw [← hsd]; simp
      simp only [trkSaveItems, hsd, hpf, hm.head hn, hsf, hnames_p, hnames_s, hmapM, hcounts]
    · -- load
      have hr := trk_records_roundtrip (colsTotal pcols) (colsTotal scols) 0 recs hWF (first :: rest).length
        (Or.inr hlen.symm)
      simp only [trkLoadItems, trk_name_table_roundtrip pcols scalarsName sf hp.1 hp.2 hsf,
        trk_name_table_roundtrip scols propertiesName pf hs.1 hs.2 hpf, hr.2]
      congr 1
      have : (trkRead (colsTotal pcols) (colsTotal scols) (first :: rest).length 0 (trkDataWords recs)).items.map
          (fun x => recItem (cumSlices pcols 0) (cumSlices scols 0) x.1) =
          ((trkRead (colsTotal pcols) (colsTotal scols) (first :: rest).length 0 (trkDataWords recs)).items.map (·.1)).map
            (recItem (cumSlices pcols 0) (cumSlices scols 0)) := by
        rw [List.map_map]; rfl
      rw [this, hr.1]
      simp only [recs, List.map_map]
      have : ∀ it ∈ (first :: rest), (recItem (cumSlices pcols 0) (cumSlices scols 0) ∘ itemRecOf) it = id it :=
        fun it hit => recItem_itemRecOf (hw it hit)
      rw [List.map_congr_left this, List.map_id]

/-- non-vacuity: one streamline of two points with a 2-column per-point field 'fa' and a
    1-value per-streamline field 'm' -/
example : (⟨[(1, 2, 3), (4, 5, 6)], [([102, 97], [[7, 8], [9, 10]])], [([109], [11])]⟩ : Item).WF
    [([102, 97], 2)] [([109], 1)] := by
  refine ⟨by decide, by decide, ?_, rfl⟩
  simp [DppMatches]

example : SchemaOk [([102, 97], 2)] ∧ ∃ sf, nameTable [([102, 97], 2)] = .ok sf := by
  refine ⟨⟨?_, by simp⟩, ?_⟩
  · intro c hc
    simp at hc; subst hc
    refine ⟨?_, by decide, Or.inl (by decide)⟩
    intro x hx; simp at hx
    rcases hx with h | h <;> subst h <;> decide
  · have he : encodeName 2 [102, 97] = .ok ([102, 97, 0, 50] ++ List.replicate 16 0) := by
      simp [encodeName, decRepr]
    refine ⟨([102, 97, 0, 50] ++ List.replicate 16 0) :: List.replicate 9 (List.replicate 20 0), ?_⟩
    unfold nameTable
    rw [if_neg (by decide)]
    simp only [List.mapM_cons, List.mapM_nil, he, bind, Except.bind, pure, Except.pure]
    rfl

/-! ### The trackvis ⇄ RAS+mm affine -/

/-- For each of the 48 voxel orders of the header, each of the 48 orientations the voxel-to-RAS
    affine can have, all volume dimensions, all non-zero voxel sizes and every invertible
    voxel-to-RAS matrix: `get_affine_trackvis_to_rasmm` succeeds, its result `T` is invertible, and
    with `toTrackvis = T.inv` (the exact inverse `save` uses) `toRas (toTrackvis p) = p` and
    `toTrackvis (toRas p) = p` for every point, exactly over `Rat`.
    (Float32 rounding of `T`, of `np.linalg.inv` and of the products is outside the model.)
    EXACT ARITHMETIC: this is a statement about the composed rational affine, not about float32
    storage; see `trackvis_affine_invertible_exact` (same statement under the honest name). -/
theorem trackvis_affine_invertible (g : TrkGeom) (affOrnt : Ornt)
    (horder : g.order ∈ voxelOrders) (haff : affOrnt ∈ allOrnts)
    (hvs : g.vs.1 ≠ 0 ∧ g.vs.2.1 ≠ 0 ∧ g.vs.2.2 ≠ 0) (hdet : g.v2r.det ≠ 0) :
    ∃ T, trackvisToRas g affOrnt = .ok T ∧ rasToTrackvis g affOrnt = .ok T.inv ∧ T.det ≠ 0 ∧
      ∀ p, T.apply (T.inv.apply p) = p ∧ T.inv.apply (T.apply p) = p := by
  obtain ⟨ho, hoMem, hoEq⟩ := axcodes_closed g.order horder
  have hrt := axcodes_roundtrip affOrnt haff
  obtain ⟨o, oMem, oEq⟩ := orntTransform_closed ho affOrnt hoMem haff
  let T := g.v2r.comp ((invOrntAff o g.dims).comp (shiftHalf.comp (scaleInv g.vs)))
  have hT : trackvisToRas g affOrnt = .ok T := by
    simp only [trackvisToRas, hoEq, hrt, oEq, bind, Except.bind, pure, Except.pure]
    rfl
  have hdetT : T.det ≠ 0 := by
    show (g.v2r.comp ((invOrntAff o g.dims).comp (shiftHalf.comp (scaleInv g.vs)))).det ≠ 0
    rw [Aff.det_comp, Aff.det_comp, Aff.det_comp, det_shiftHalf]
    have h1 := det_invOrntAff o oMem g.dims
    have h2 := det_scaleInv g.vs hvs.1 hvs.2.1 hvs.2.2
    intro h
    rcases Rat.mul_eq_zero.mp h with h | h
    · exact hdet h
    · rcases Rat.mul_eq_zero.mp h with h | h
      · exact h1 h
      · rw [Rat.one_mul] at h; exact h2 h
  refine ⟨T, hT, ?_, hdetT, fun p => ⟨Aff.apply_inv T hdetT p, Aff.inv_apply T hdetT p⟩⟩
  simp [rasToTrackvis, hT, Except.map]

example : (['L', 'P', 'S'] : List Char) ∈ voxelOrders ∧ ([(1, -1), (0, 1), (2, 1)] : Ornt) ∈ allOrnts := by
  decide +kernel

/-- `trackvis_affine_invertible` under the name that says what it is: exact rational arithmetic. -/
theorem trackvis_affine_invertible_exact (g : TrkGeom) (affOrnt : Ornt)
    (horder : g.order ∈ voxelOrders) (haff : affOrnt ∈ allOrnts)
    (hvs : g.vs.1 ≠ 0 ∧ g.vs.2.1 ≠ 0 ∧ g.vs.2.2 ≠ 0) (hdet : g.v2r.det ≠ 0) :
    ∃ T, trackvisToRas g affOrnt = .ok T ∧ rasToTrackvis g affOrnt = .ok T.inv ∧ T.det ≠ 0 ∧
      ∀ p, T.apply (T.inv.apply p) = p ∧ T.inv.apply (T.apply p) = p :=
  trackvis_affine_invertible g affOrnt horder haff hvs hdet

/-! ### Lazily loaded tractograms deliver RAS+mm items -/

/-- what iterating a lazily loaded tractogram yields (`LazyTractogram.data`, used by `save`) has
    the same points as its `.streamlines` property, and the per-point / per-streamline data of the
    reader's items unchanged.
    (GLUE / definitional: `lazyItems` and `lazyStreamlines` are two folds of the same `applyAffBits A`
    over the same raw items — the two real code paths, `LazyTractogram.data` and `.streamlines`, are
    separate functions that both apply `_affine_to_apply`; that they do is checked by the `trk` and
    `lzaff` correspondence streams, and the algebra of what is pending is `lazy_world_invariant` /
    `lazy_resave_roundtrip`.  The theorem records that the item iteration carries the dicts through
    untouched and fails on exactly the same inputs.) -/
theorem lazy_items_agree (A : Aff) (raw : List Item) (its : List Item) (h : lazyItems A raw = some its) :
    lazyStreamlines A raw = some (its.map (·.pts)) ∧
    its.map (·.dpp) = raw.map (·.dpp) ∧ its.map (·.dps) = raw.map (·.dps) := by
  induction raw generalizing its with
  | nil =>
    simp [lazyItems] at h
    subst h
    simp [lazyStreamlines]
  | cons r rs ih =>
    simp only [lazyItems, List.mapM_cons, Option.bind_eq_bind, Option.pure_def] at h
    cases hp : r.pts.mapM (applyAffBits A) with
    | none => simp [hp] at h
    | some p =>
      cases hrest : lazyItems A rs with
      | none => simp [lazyItems] at hrest; simp [hp, hrest] at h
      | some its' =>
        have := ih its' hrest
        simp only [lazyItems] at hrest
        simp [hp, hrest] at h
        subst h
        simp only [lazyStreamlines, List.mapM_cons] at this ⊢
        simp [hp, this.1, this.2.1, this.2.2]

/-- the ORIGINAL `LazyTractogram.data` returned the reader's raw items: with the half-voxel shift
    of an identity TRK header a lazily loaded point (0.5,0.5,0.5 in voxmm) was yielded as is
    instead of as (0,0,0) RAS+mm -/
theorem lazyItems_orig_counterexample :
    lazyItemsOrig shiftHalf [⟨[(0x3F000000, 0x3F000000, 0x3F000000)], [], []⟩] ≠
      lazyItems shiftHalf [⟨[(0x3F000000, 0x3F000000, 0x3F000000)], [], []⟩] := by
  decide +kernel

/-! ### Lazy and eager loading agree -/

/-- TCK: the eager tractogram (the reader consumed into an `ArraySequence`: one concatenated buffer
    cut again by the stored lengths) has exactly the streamlines the lazy generator yields, and
    both fail on the same files with the same error.
    (GLUE: both sides consume the SAME reader run; the content is `ArraySequence` concatenate-then-cut
    = identity (`ofLists_toLists`).  The two real call sites share `TckFile._read`.) -/
theorem lazy_eq_eager_tck (run : GenRun (List Triple)) : tckEager run = tckLazy run := by
  unfold tckEager tckLazy
  cases run.err with
  | some e => rfl
  | none => simp [ofLists_toLists]

/-- TRK: for every non-empty sequence of records the reader yields, every pair of name-table
    slice lists with distinct names and every affine, the eager tractogram (points, scalars and
    properties collected into concatenated buffers; column slices and the affine applied to the
    whole buffer; streamlines cut out by length) equals what the lazy tractogram delivers through
    `.streamlines` (affine per item), `.data_per_point[k]` and `.data_per_streamline[k]` (one
    generator per key of the first item, looking the key up in every item): same streamlines,
    same names in the same order, same values.  (With no records the eager dicts keep the header's
    names with empty sequences while the lazy ones have no keys — `save` never writes such a file.) -/
theorem lazy_eq_eager_trk (A : Aff) (dppS dpsS : List (Name × Nat × Nat)) (recs : List TrkRec)
    (hne : recs ≠ []) (hp : (dppS.map (·.1)).Nodup) (hs : (dpsS.map (·.1)).Nodup) :
    trkEager A dppS dpsS recs = trkLazy A dppS dpsS recs := by
  cases recs with
  | nil => exact absurd rfl hne
  | cons r0 rest =>
    unfold trkEager trkLazy
    simp only
    -- streamlines
    have hsl : ((ArrSeq.ofLists ((r0 :: rest).map (fun r => r.rows.map rowTriple))).mapRowsM (applyAffBits A)).map
        ArrSeq.toLists =
        ((r0 :: rest).map (recItem dppS dpsS)).mapM (fun (it : Item) => it.pts.mapM (applyAffBits A)) := by
      rw [ofLists_mapRowsM_toLists, List.mapM_map, List.mapM_map]
      rfl
    -- per-point data
    have hD : dppS.map (fun s => (s.1, ((ArrSeq.ofLists ((r0 :: rest).map (fun r => r.rows.map (fun row => row.drop 3)))).mapRows
          (fun row => pySlice row s.2.1 s.2.2)).toLists)) =
        ((recItem dppS dpsS r0).dpp.map (fun d => d.1)).map (fun k => (k, ((r0 :: rest).map (recItem dppS dpsS)).map
          (fun (it : Item) => (it.dpp.lookup k).getD []))) := by
      simp only [recItem, List.map_map]
      apply List.map_congr_left
      intro s hsmem
      simp only [Function.comp]
      congr 1
      rw [ofLists_mapRows_toLists, List.map_map]
      apply List.map_congr_left
      intro r _
      simp only [Function.comp]
      have hrec : (recItem dppS dpsS r).dpp =
          dppS.map (fun s => (s.1, r.rows.map (fun row => pySlice (row.drop 3) s.2.1 s.2.2))) := rfl
      rw [hrec, lookup_map_of_mem (fun s => r.rows.map (fun row => pySlice (row.drop 3) s.2.1 s.2.2)) dppS hp s hsmem]
      simp [List.map_map, Function.comp_def]
    -- per-streamline data
    have hS : dpsS.map (fun s => (s.1, ((r0 :: rest).map (·.props)).map (fun pr => pySlice pr s.2.1 s.2.2))) =
        ((recItem dppS dpsS r0).dps.map (fun d => d.1)).map (fun k => (k, ((r0 :: rest).map (recItem dppS dpsS)).map
          (fun (it : Item) => (it.dps.lookup k).getD []))) := by
      simp only [recItem, List.map_map]
      apply List.map_congr_left
      intro s hsmem
      simp only [Function.comp]
      congr 1
      apply List.map_congr_left
      intro r _
      simp only [Function.comp]
      have hrec : (recItem dppS dpsS r).dps = dpsS.map (fun s => (s.1, pySlice r.props s.2.1 s.2.2)) := rfl
      rw [hrec, lookup_map_of_mem (fun s => pySlice r.props s.2.1 s.2.2) dpsS hs s hsmem]
      rfl
    rw [← hsl, hD, hS]
    simp only [List.map_cons, Option.map_map]
    rfl

/-- … and the slice lists `load` derives from ANY header name tables have distinct names (they are
    the keys of a Python dict), so lazy ≡ eager holds for every TRK header and every data section
    from which the reader yields at least one record. -/
theorem lazy_eq_eager_trk_load (A : Aff) (h : TrkCounts) (words : List Nat) (dppS dpsS : List (Name × Nat × Nat))
    (h1 : nameSlices h.ns h.scalarFields scalarsName = .ok dppS)
    (h2 : nameSlices h.np h.propFields propertiesName = .ok dpsS)
    (hne : (trkRead h.ns h.np h.nStreams 0 words).items.map (·.1) ≠ []) :
    trkEager A dppS dpsS ((trkRead h.ns h.np h.nStreams 0 words).items.map (·.1)) =
      trkLazy A dppS dpsS ((trkRead h.ns h.np h.nStreams 0 words).items.map (·.1)) :=
  lazy_eq_eager_trk A dppS dpsS _ hne (nameSlices_nodup _ _ _ _ h1) (nameSlices_nodup _ _ _ _ h2)

example : ([([102, 97], 0, 2), ([109], 2, 3)] : List (Name × Nat × Nat)).map (·.1) |>.Nodup := by decide

/-! ### TRK byte order (`_read_header` endianness swap; `_read` decodes in the detected order) -/

/-- no four bytes read as 1000 in both byte orders: the `hdr_size` test is unambiguous -/
theorem trk_hdr_size_unambiguous (a b c d : Nat) (ha : a < 256) (hb : b < 256) (hc : c < 256) (_hd : d < 256) :
    ¬ (dec32 .little a b c d = 1000 ∧ dec32 .big a b c d = 1000) := by
  simp only [dec32, decWord]; omega

/-- **A TRK file written in EITHER byte order reads back.**  For every header the structured array
    can hold (`TrkHdr.WF`: the opaque blocks have their sizes, ten 20-byte names each, counts in
    range) with `hdr_size = HEADER_SIZE` (regenerated) and version 1, 2 or 3, written in byte order
    `e` and followed by records encoded in the same order (32-bit words; each record agreeing with
    the header's `ns`/`np`; `n_count` 0 or the number of records): `_read_header` detects exactly
    `e` from the `hdr_size` field alone, returns every modelled field unchanged, and `_read`
    (decoding with the detected order) yields exactly the records, in order, without error. -/
theorem trk_byteorder_roundtrip (e : Endian) (h : TrkHdr) (hw : h.WF) (hs : h.hdrSize = Gen.trkHeaderSize)
    (hv : h.version = 1 ∨ h.version = 2 ∨ h.version = 3)
    (recs : List TrkRec) (hrec : ∀ r ∈ recs, r.WF h.ns h.np) (h32 : ∀ w ∈ trkDataWords recs, w < 4294967296)
    (hann : h.n = 0 ∨ h.n = recs.length) :
    ∃ run, trkReadBytes (trkHdrBytes e h ++ encWords e (trkDataWords recs)) = .ok (e, h, run) ∧
      run.items.map (·.1) = recs ∧ run.err = none := by
  have hs' : h.hdrSize = 1000 := hs
  refine ⟨trkRead h.ns h.np h.n trkHeaderSize (trkDataWords recs), ?_, ?_⟩
  · unfold trkReadBytes
    rw [trkParseHeader_written e h hw hs' hv]
    simp only
    have : (trkHdrBytes e h ++ encWords e (trkDataWords recs)).drop trkHeaderSize = encWords e (trkDataWords recs) :=
      drop_append_len _ _ _ (trkHdrBytes_length e h hw)
    rw [this, decWords_encWords e _ h32]
  · exact trk_records_roundtrip h.ns h.np trkHeaderSize recs hrec h.n hann

/-- a header whose `hdr_size` bytes read as `HEADER_SIZE` in neither order is refused (HeaderError),
    whatever else the file holds -/
theorem trk_bad_hdr_size_refused (bytes : List Nat)
    (h1 : get32 .little (trkHdrBuf bytes) Gen.trkOffHdrSize ≠ Gen.trkHeaderSize)
    (h2 : get32 .big (trkHdrBuf bytes) Gen.trkOffHdrSize ≠ Gen.trkHeaderSize) :
    trkReadBytes bytes = .error .header := by
  have h1' : get32 .little (trkHdrBuf bytes) trkOffHdrSize ≠ trkHeaderSize := h1
  have h2' : get32 .big (trkHdrBuf bytes) trkOffHdrSize ≠ trkHeaderSize := h2
  simp [trkReadBytes, trkParseHeader, trkDetectEndian, h1', h2']

/-- non-vacuity: the default header (`RAS`, 1×1×1, identity) in big-endian order with one record -/
example : ∃ h : TrkHdr, h.WF ∧ h.hdrSize = Gen.trkHeaderSize ∧ h.version = 2 ∧ h.ns = 1 ∧ h.n = 1 :=
  ⟨⟨List.replicate 36 0, 1, List.replicate 10 (List.replicate 20 0), 0, List.replicate 10 (List.replicate 20 0),
    List.replicate 548 0, 1, 2, 1000⟩,
   ⟨List.length_replicate, by decide, List.length_replicate, by intro f hf; simp at hf; simp [hf],
    by decide, List.length_replicate, by intro f hf; simp at hf; simp [hf], List.length_replicate, by decide, by decide⟩,
   rfl, rfl, rfl, rfl⟩

example : get32 .little [0, 0, 3, 232] 0 = 3892510720 ∧ get32 .big [0, 0, 3, 232] 0 = 1000 ∧
    get32 .little [232, 3, 0, 0] 0 = 1000 := by decide

/-! ### Pending affines: `LazyTractogram.apply_affine` / `to_world` and the save pipelines -/

/-- **World coordinates are invariant under every history** of `apply_affine(A)` (invertible `A`) and
    `to_world()` calls on a (Lazy)Tractogram whose `affine_to_rasmm` is invertible: for the final
    object, `affine_to_rasmm ∘ _affine_to_apply` maps every raw point to the same RAS+mm point as at
    the start (and `affine_to_rasmm` stays invertible).  Exact arithmetic over `Rat`;
    `np.linalg.inv` = exact inverse. -/
theorem lazy_world_invariant (ops : List AffOp) (hok : ∀ o ∈ ops, o.Ok) (t t' : LazyT) (hr : t.RasOk)
    (h : t.run ops = .ok t') : (∀ p, t'.world p = t.world p) ∧ t'.RasOk :=
  lazy_run_world ops hok t t' hr h

/-- **Re-saving a tractogram with pending affines under any TRK header.**  Start from any
    bookkeeping state `t0` with an invertible `affine_to_rasmm`, run any history of invertible
    `apply_affine` / `to_world` calls (a lazily loaded TRK file is the history `[apply T₁]` from
    `affine_to_rasmm = T₁`… followed by `to_world`), then `TrkFile.save` under a header whose
    trackvis→RAS+mm affine `T` is invertible (any other voxel order / sizes / vox_to_ras — `T` need
    not commute with what is pending): the save pipeline succeeds and the point it writes for the
    raw point `p`, mapped by the loader's `T`, is exactly the RAS+mm point of `p` in `t0`.
    (`TckFile.save` is the case `T = identity`.) -/
theorem lazy_resave_roundtrip (ops : List AffOp) (hok : ∀ o ∈ ops, o.Ok) (t0 t : LazyT) (hr : t0.RasOk)
    (hR0 : t0.toRas ≠ none) (h : t0.run ops = .ok t) (T : Aff) (hT : T.det ≠ 0) :
    ∃ s, trkSavePipeline t T = .ok s ∧ ∀ p, some (T.apply (s.see p)) = t0.world p := by
  have hw := lazy_run_world ops hok t0 t hr h
  cases hR : t.toRas with
  | none =>
    -- impossible: the space stays known
    exfalso
    cases hR0' : t0.toRas with
    | none => exact hR0 hR0'
    | some R0 =>
      have := hw.1 (0, 0, 0)
      simp [LazyT.world, hR, hR0'] at this
  | some R =>
    obtain ⟨s, hs, hp⟩ := lazy_resave t R hR T hT
    refine ⟨s, hs, fun p => ?_⟩
    rw [hp p, ← hw.1 p]
    simp [LazyT.world, hR]

/-- non-vacuity: a lazily loaded TRK tractogram (pending = shift by half a voxel) -/
example : (⟨shiftHalf, some Aff.one⟩ : LazyT).RasOk ∧ (AffOp.apply shiftHalf).Ok := by
  refine ⟨?_, ?_⟩
  · intro R hR; simp at hR; subst hR; decide +kernel
  · show shiftHalf.det ≠ 0; rw [det_shiftHalf]; decide

/-- the seeded order bug (`dot(_affine_to_apply, affine)` instead of `dot(affine, _affine_to_apply)`):
    with a pending scaling by 2, applying the half-voxel shift moves the world coordinates -/
theorem lazy_compose_order_counterexample :
    ((⟨scaleInv (1/2, 1/2, 1/2), some Aff.one⟩ : LazyT).applyAffineSwapped shiftHalf).see (1, 1, 1) ≠
    ((⟨scaleInv (1/2, 1/2, 1/2), some Aff.one⟩ : LazyT).applyAffine shiftHalf).see (1, 1, 1) := by
  decide +kernel

/-! ### File position: from the generator-with-finally semantics -/

/-- **Derived, not postulated**: in the CPython semantics of generators (`FGen`: `close()` /
    garbage collection raise GeneratorExit at the suspended `yield`; a `finally:` clause runs on
    every way of leaving its `try`; a trailing statement only on normal completion), a reader whose
    `f.seek(start, whence)` is described by `s` restores the position for EVERY run, start position
    and consumer history **iff** `s` is (`SEEK_SET`, in the `finally` enclosing every `yield`). -/
theorem finally_restores_iff (s : SeekSpec) :
    (∀ (run : GenRun Nat) (start : Nat) (acts : List Act),
      ((FGen.init run s start).runActs acts).st.isSuspended = false →
      ((FGen.init run s start).runActs acts).pos = start) ↔ s = seekFixed := by
  constructor
  · intro H
    obtain ⟨w, f⟩ := s
    cases w <;> cases f
    · -- SEEK_SET as trailing statement: abandon after the first item
      have := H ⟨[(1, 5)], none, 9⟩ 0 [.next, .close] (by decide)
      exact absurd this (by decide)
    · rfl
    · have := H ⟨[], none, 5⟩ 1 [.next] (by decide)
      exact absurd this (by decide)
    · have := H ⟨[], none, 5⟩ 1 [.next] (by decide)
      exact absurd this (by decide)
  · intro hs run start acts
    subst hs
    exact fgen_fixed_invariant start acts (FGen.init run seekFixed start) rfl rfl (fun _ => rfl)

/-- `Gen` (the state machine of `position_invariant` / `position_restored`, and of the driver) IS
    the generator-with-finally semantics instantiated with (`SEEK_SET`, finally) for the current code
    and with (`SEEK_CUR`, trailing statement) for the original code: same state and same file
    position after every history. -/
theorem gen_refines_finally_semantics {α} (run : GenRun α) (start : Nat) (acts : List Act) :
    (((FGen.init run seekFixed start).runActs acts).st = ((Gen.init run true start).runActs acts).st ∧
     ((FGen.init run seekFixed start).runActs acts).pos = ((Gen.init run true start).runActs acts).pos) ∧
    (((FGen.init run seekOrig start).runActs acts).st = ((Gen.init run false start).runActs acts).st ∧
     ((FGen.init run seekOrig start).runActs acts).pos = ((Gen.init run false start).runActs acts).pos) :=
  ⟨fgen_run_rel true acts _ _ rfl rfl rfl rfl rfl rfl, fgen_run_rel false acts _ _ rfl rfl rfl rfl rfl rfl⟩

/-- `position_restored` about the seek placement READ OFF THE SOURCE (`Gen.tckReadSeek`,
    `Gen.trkReadSeek`, regenerated from the AST of the two `_read` functions on every run): for both
    readers, every data section, buffer size, start position and consumer history, when the
    generator is not suspended at a `yield` the file position is the one found at the start. -/
theorem position_restored_src (start : Nat) (acts : List Act) :
    (∀ (c ragged off : Nat) (data : List Triple),
      ((FGen.init (tckRead c ragged off data) Gen.tckReadSeek start).runActs acts).st.isSuspended = false →
      ((FGen.init (tckRead c ragged off data) Gen.tckReadSeek start).runActs acts).pos = start) ∧
    (∀ (ns np announced off : Nat) (words : List Nat),
      ((FGen.init (trkRead ns np announced off words) Gen.trkReadSeek start).runActs acts).st.isSuspended = false →
      ((FGen.init (trkRead ns np announced off words) Gen.trkReadSeek start).runActs acts).pos = start) := by
  rw [Gen.readSeek_eq_model.1, Gen.readSeek_eq_model.2]
  exact ⟨fun c ragged off data => fgen_fixed_invariant start acts _ rfl rfl (fun _ => rfl),
         fun ns np announced off words => fgen_fixed_invariant start acts _ rfl rfl (fun _ => rfl)⟩

example : ((FGen.init (⟨[((1 : Nat), 40), (2, 52)], none, 64⟩ : GenRun Nat) seekFixed 7).runActs [.next, .close]).pos = 7 ∧
    ((FGen.init (⟨[((1 : Nat), 40), (2, 52)], none, 64⟩ : GenRun Nat) seekOrig 7).runActs [.next, .close]).pos = 40 := by
  decide

/-! ### The header handed to `save` -/

/-- **The fields `save` writes are a function of the tractogram only.**  For every two supplied headers
    `sup`, `sup'` (whatever counts `nb_streamlines` / `nb_scalars_per_point` /
    `nb_properties_per_streamline` and whatever ten-slot `scalar_name` / `property_name` tables they carry —
    a fresh dict, the header of a previously LOADED file with more, fewer or other names, stale counts) and
    every non-empty tractogram, `TrkFile.save` produces the same counts, the same two name tables and the
    same data words; the tables are exactly `nameTable` of the first item's (sorted) names — ALL ten slots,
    trailing ones zero — and the streamline count is the number of items. -/
theorem saved_names_from_tractogram (sup sup' : TrkCounts) (first : Item) (rest : List Item) :
    trkSaveItemsH sup (first :: rest) = trkSaveItemsH sup' (first :: rest) ∧
    ∀ h words, trkSaveItemsH sup (first :: rest) = .ok (h, words) →
      nameTable (first.dpp.map (fun d => (d.1, (d.2.headD []).length))) = .ok h.scalarFields ∧
      nameTable (first.dps.map (fun d => (d.1, d.2.length))) = .ok h.propFields ∧
      h.nStreams = (first :: rest).length := by
  refine ⟨by rw [trkSaveItemsH_cons, trkSaveItemsH_cons], ?_⟩
  intro h words hs
  rw [trkSaveItemsH_cons] at hs
  unfold trkSaveItems at hs
  simp only at hs
  split at hs
  · cases hs
  · rename_i pf hpf
    split at hs
    · cases hs
    · rename_i sf hsf
      split at hs
      · cases hs
      · rename_i recs _
        split at hs
        · cases hs
        · rename_i hc hhc
          injection hs with hs
          injection hs with h1 _
          subst h1
          unfold trkHeaderCounts at hhc
          simp only at hhc
          split at hhc
          · cases hhc
          · split at hhc
            · cases hhc
            · split at hhc
              · cases hhc
              · injection hhc with hhc
                subst hhc
                exact ⟨hsf, hpf, rfl⟩

/-- **TRK round trip under EVERY supplied header** (strengthens `trk_roundtrip`, which is the case of a
    header without name tables): under the hypotheses of `trk_roundtrip`, for every supplied header `sup`,
    `save` succeeds and `load` of what was written returns exactly the saved items — same data under the same
    names and NO other names; for a non-empty tractogram the written tables are those of the tractogram.
    (Empty tractogram: the stale tables stay in the file but both counts are zero, so `load` — which consults
    a table only when its count is positive — returns no names.) -/
theorem trk_roundtrip_any_header (sup : TrkCounts) (pcols scols : List (Name × Nat)) (items : List Item)
    (sf pf : List (List Nat)) (hp : SchemaOk pcols) (hs : SchemaOk scols)
    (hsf : nameTable pcols = .ok sf) (hpf : nameTable scols = .ok pf)
    (hw : ∀ it ∈ items, it.WF pcols scols) :
    ∃ h words, trkSaveItemsH sup items = .ok (h, words) ∧ h.nStreams = items.length ∧
      trkLoadItems h words = .ok items ∧
      (items ≠ [] → h.scalarFields = sf ∧ h.propFields = pf) := by
  cases items with
  | nil =>
    refine ⟨⟨0, 0, 0, sup.scalarFields, sup.propFields⟩, [], rfl, rfl, ?_, by simp⟩
    have hr := trk_records_roundtrip 0 0 0 [] (by simp) 0 (Or.inl rfl)
    simp only [trkDataWords, List.map_nil, List.flatten_nil] at hr
    have hi : (trkRead 0 0 0 0 []).items = [] := List.map_eq_nil_iff.mp hr.1
    simp [trkLoadItems, nameSlices, hr.2, hi]
  | cons first rest =>
    obtain ⟨h, words, h1, h2, h3⟩ := trk_roundtrip pcols scols (first :: rest) sf pf hp hs hsf hpf hw
    refine ⟨h, words, by rw [trkSaveItemsH_cons]; exact h1, h2, h3, fun _ => ?_⟩
    have hn := (saved_names_from_tractogram sup sup first rest).2 h words (by rw [trkSaveItemsH_cons]; exact h1)
    obtain ⟨hn', _, hm, hsd⟩ := hw first (by simp)
    have e1 : first.dpp.map (fun d => (d.1, (d.2.headD []).length)) = pcols := hm.head hn'
    have e2 : first.dps.map (fun d => (d.1, d.2.length)) = scols := hsd
    rw [e1, hsf] at hn
    rw [e2, hpf] at hn
    exact ⟨(Except.ok.inj hn.1).symm, (Except.ok.inj hn.2.1).symm⟩

/-- 'fa', 'md' -/
def faName : Name := [102, 97]
def mdName : Name := [109, 100]

/-- why the loop must fill a ZERO table (`np.zeros(10, 'S20')`) and replace the whole field: writing the
    names of a tractogram with the single per-point array 'fa' straight into the table inherited from a
    header that named 'fa' and 'md' leaves 'md' in slot 1, and `load` (count 1) then reports the extra name
    'md' with an out-of-range column slice; through the zero table only 'fa' comes back. -/
theorem name_table_inplace_counterexample :
    ∃ stale t, nameTable [(faName, 1), (mdName, 1)] = .ok stale ∧
      nameTableInto stale [(faName, 1)] = .ok t ∧
      nameSlices 1 t scalarsName = .ok [(faName, 0, 1), (mdName, 1, 2)] ∧
      (∃ t0, nameTableInto zeroFields [(faName, 1)] = .ok t0 ∧ nameSlices 1 t0 scalarsName = .ok [(faName, 0, 1)]) := by
  exact ⟨_, _, rfl, rfl, rfl, _, rfl, rfl⟩

/-! ### Views -/

/-- **ArraySequence views.**  For every history of indexing steps (slice / list / integer array / boolean
    mask, each resolved to in-range positions — reversed, permuted, repeated, strided, masked, views of
    views) and `copy()` calls applied to a valid sequence, the result is a valid view whose elements are
    exactly what the same history gives on the plain list of elements: indexing picks offsets and lengths,
    `copy()` gathers the chunks in ELEMENT order. -/
theorem view_history_items {α} (steps : List ViewStep) : ∀ (v : SeqView α), v.Valid → stepsOk v.lengths.length steps →
    (v.run steps).Valid ∧ (v.run steps).items = listRun v.items steps := by
  induction steps with
  | nil => intro v hv _; exact ⟨hv, rfl⟩
  | cons s ss ih =>
    intro v hv hok
    cases s with
    | index idxs =>
      obtain ⟨hi, hrest⟩ := hok
      have hv' := seqview_index_valid v hv idxs hi
      have := ih (v.index idxs) hv' (by simpa [SeqView.index] using hrest)
      simp only [SeqView.run, listRun, List.foldl_cons, SeqView.step, listStep] at this ⊢
      rw [seqview_index_items v hv.1 idxs hi] at this
      exact this
    | copy =>
      have hc : v.copy.Valid := by rw [seqview_copy_eq v hv]; exact seqview_ofLists_valid _
      have := ih v.copy hc (by simpa [SeqView.copy, stepsOk] using hok)
      simp only [SeqView.run, listRun, List.foldl_cons, SeqView.step, listStep] at this ⊢
      rw [seqview_copy_items v hv] at this
      exact this

/-- what both `save` methods iterate over (`to_world(lazy=True)` → `from_tractogram` →
    `streamlines.copy()`) for a tractogram BUILT by any such history from freshly constructed streamlines `l`
    is the list the history denotes — same number, same order, same points. -/
theorem save_view_roundtrip {α} (l : List (List α)) (steps : List ViewStep) (hok : stepsOk l.length steps) :
    savedStreamlines ((SeqView.ofLists l).run steps) = listRun l steps := by
  have h := view_history_items steps (SeqView.ofLists l) (seqview_ofLists_valid l) (by simpa [SeqView.ofLists] using hok)
  rw [savedStreamlines, seqview_copy_items _ h.1, h.2, seqview_ofLists_items]

/-- TCK round trip of a tractogram that is a VIEW (any history of in-range indexing / copy steps over
    non-empty streamlines without all-NaN points): for every buffer size the reader yields exactly the
    selected streamlines in the selected order, bit for bit. -/
theorem tck_view_roundtrip (c : Nat) (hc : 0 < c) (off : Nat) (l : List (List Triple)) (steps : List ViewStep)
    (hok : stepsOk l.length steps) (hne : ∀ s ∈ l, s ≠ []) (h : ∀ s ∈ l, ∀ t ∈ s, isDelim t = false)
    (hsel : ∀ s ∈ listRun l steps, s ∈ l) :
    (tckRead c 0 off (tckData (savedStreamlines ((SeqView.ofLists l).run steps)))).items.map (·.1) = listRun l steps ∧
    (tckRead c 0 off (tckData (savedStreamlines ((SeqView.ofLists l).run steps)))).err = none := by
  rw [save_view_roundtrip l steps hok]
  have := tck_roundtrip c hc off (listRun l steps) (fun s hs => h s (hsel s hs))
  refine ⟨?_, this.2⟩
  rw [this.1, List.filter_eq_self]
  intro s hs
  have := hne s (hsel s hs)
  cases s <;> simp_all


/-- non-vacuity: a supplied header with stale counts and a stale name in every slot; a reversing view of
    three streamlines of unequal lengths followed by a copy and a second selection -/
example : (⟨5, 2, 1, List.replicate 10 (faName ++ List.replicate 18 0), zeroFields⟩ : TrkCounts).scalarFields ≠ zeroFields := by
  decide

example : stepsOk 3 [.index [2, 0, 1], .copy, .index [1, 1]] := by simp [stepsOk]

example : ((SeqView.ofLists [[1], [2, 3], [4, 5, 6]]).run [.index [2, 0, 1]]).offsets = [3, 0, 1] ∧
    savedStreamlines ((SeqView.ofLists [[1], [2, 3], [4, 5, 6]]).run [.index [2, 0, 1]]) = [[4, 5, 6], [1], [2, 3]] := by
  decide

/-- **TRK round trip of a VIEW of a tractogram, under every supplied header.**  A tractogram is built fresh from
    `items` (uniform schema, hypotheses of `trk_roundtrip`), then indexed by any in-range positions `idxs` (slice /
    list / integer array / mask: reversed, permuted, repeated, strided) — every array of the result is a view that
    shares the original buffers.  What `save` iterates over (`from_tractogram`: `streamlines.copy()` zipped with
    the data views) is exactly the selected items in the selected order, and saving it under ANY supplied header and
    loading returns those items: same count, order, points, data under the same names and no other names. -/
theorem trk_view_roundtrip (sup : TrkCounts) (pcols scols : List (Name × Nat)) (items : List Item)
    (sf pf : List (List Nat)) (hp : SchemaOk pcols) (hs : SchemaOk scols)
    (hsf : nameTable pcols = .ok sf) (hpf : nameTable scols = .ok pf)
    (hw : ∀ it ∈ items, it.WF pcols scols) (idxs : List Nat) (hi : ∀ i ∈ idxs, i < items.length) :
    let t := (TractoView.ofItems (pcols.map (·.1)) (scols.map (·.1)) items).index idxs
    t.savedItems = idxs.map (fun i => items.getD i default) ∧
    ∃ h words, trkSaveItemsH sup t.savedItems = .ok (h, words) ∧ h.nStreams = idxs.length ∧
      trkLoadItems h words = .ok (idxs.map (fun i => items.getD i default)) := by
  intro t
  have hnp : ∀ it ∈ items, it.dpp.map (·.1) = pcols.map (·.1) := fun it h => (hw it h).2.2.1.names
  have hns : ∀ it ∈ items, it.dps.map (·.1) = scols.map (·.1) := by
    intro it h
    have := (hw it h).2.2.2
    rw [← this]; simp
  have hv := tractoview_ofItems_valid (pcols.map (·.1)) (scols.map (·.1)) items
  have hlen : (TractoView.ofItems (pcols.map (·.1)) (scols.map (·.1)) items).length = items.length := by
    simp [TractoView.length, TractoView.ofItems, SeqView.ofLists]
  have hsaved := (tractoview_index_saved _ hv idxs (by intro i h; rw [hlen]; exact hi i h)).2
  have hitems := tractoview_ofItems_items _ _ items hnp hns hp.2 hs.2
  have hsel : t.savedItems = idxs.map (fun i => items.getD i default) := by
    show ((TractoView.ofItems _ _ items).index idxs).savedItems = _
    rw [hsaved]
    apply List.map_congr_left
    intro i hmem
    have h2 := hi i hmem
    have : (TractoView.ofItems (pcols.map (·.1)) (scols.map (·.1)) items).items.getD i default = items.getD i default := by
      rw [hitems]
    rw [← this]
    simp [TractoView.items, List.getD_eq_getElem?_getD, hlen, h2]
  refine ⟨hsel, ?_⟩
  rw [hsel]
  have hw' : ∀ it ∈ idxs.map (fun i => items.getD i default), it.WF pcols scols := by
    intro it hit
    obtain ⟨i, hmem, rfl⟩ := List.mem_map.mp hit
    have h2 := hi i hmem
    have : items.getD i default = items[i] := by simp [List.getD_eq_getElem?_getD, h2]
    rw [this]; exact hw _ (List.getElem_mem h2)
  obtain ⟨h, words, h1, h2, h3, _⟩ := trk_roundtrip_any_header sup pcols scols _ sf pf hp hs hsf hpf hw'
  exact ⟨h, words, h1, by simpa using h2, h3⟩


/-- non-vacuity of the view hypotheses: three items, reversed -/
example : ((TractoView.ofItems [] [] [⟨[(1, 2, 3)], [], []⟩, ⟨[(4, 5, 6), (7, 8, 9)], [], []⟩]).index [1, 0]).savedItems =
    [⟨[(4, 5, 6), (7, 8, 9)], [], []⟩, ⟨[(1, 2, 3)], [], []⟩] := by decide

end Nb.C16
