import NibabelModel.Model.C16
/-! Props/C16 — the property theorems for C16 (statements + proofs; helper lemmas live in Lemmas/). -/
namespace Nb.C16

end Nb.C16
