import NibabelModel.Lemmas.C19
import NibabelModel.Lemmas.C19_Annot
import NibabelModel.Lemmas.C19_Mgh
import NibabelModel.Lemmas.C19_Resave
import NibabelModel.Lemmas.C19_Gen
/-! Props/C19 — the property theorems for C19 (statements + proofs; helper lemmas live in Lemmas/). -/
namespace Nb.C19
open Nb.Gen.C19

/-- **Geometry round trip.**  For every mesh (any number of vertices/faces below the int32 count limit of
    the reader, coordinates as arbitrary float32 patterns, faces as arbitrary int32 values), every create
    stamp without a newline and every volume-info dictionary of the property's domain (`VolOk`), reading
    back what `write_geometry` wrote returns exactly the stamp, counts, coordinates, faces and (when
    `read_metadata`) the volume info. -/
theorem geometry_roundtrip (rm : Bool) (stamp : Bytes) (nv nf : Nat) (coords : List Nat) (faces : List Int)
    (vol : Option VolInfo)
    (hs : 10 ∉ stamp) (hc : coords.length = 3 * nv) (hf : faces.length = 3 * nf)
    (hnv : 3 * nv < 2147483648) (hnf : 3 * nf < 2147483648)
    (hcb : ∀ x ∈ coords, x < 4294967296) (hfb : ∀ x ∈ faces, inI32 x = true)
    (hvol : ∀ vi, vol = some vi → VolOk vi) :
    (writeGeometry stamp nv nf coords faces vol).bind (readGeometry rm)
      = .ok ⟨stamp, nv, nf, coords, faces, if rm then vol else none⟩ := by
  have hfb' : ∀ x ∈ faces, -2147483648 ≤ x ∧ x < 2147483648 := fun x hx => (inI32_iff x).1 (hfb x hx)
  have g : ¬ (nv ≥ 2147483648 ∨ nf ≥ 2147483648) := by omega
  cases vol with
  | none =>
    have := readGeometry_body rm stamp nv nf coords faces [] hs hc hf hnv hnf hcb hfb'
    rw [List.append_nil] at this
    simp only [writeGeometry, g, if_false, Except.bind, this]
    cases rm <;> rfl
  | some vi =>
    obtain ⟨f, h1, h2⟩ := rdVolInfo_serialize vi (hvol vi rfl)
    have := readGeometry_body rm stamp nv nf coords faces f hs hc hf hnv hnf hcb hfb'
    simp only [writeGeometry, g, if_false, h1, Except.bind, List.append_assoc, List.cons_append, this, h2]
    cases rm <;> rfl

private def exVol : VolInfo :=
  ⟨[2, 0, 20], [49], [97, 46, 109, 103, 122], [[50, 53, 54], [50, 53, 54], [49]],
    [[49], [48, 46, 53], [49]], [[45, 49], [48], [48]], [[48], [48], [45, 49]], [[48], [49], [48]],
    [[49, 101, 45, 49, 48], [50], [51]]⟩

private theorem exVol_ok : VolOk exVol :=
  ⟨Or.inr rfl, by decide, by decide,
   ⟨_, _, _, rfl, by decide, by decide, by decide⟩, ⟨_, _, _, rfl, by decide, by decide, by decide⟩,
   ⟨_, _, _, rfl, by decide, by decide, by decide⟩, ⟨_, _, _, rfl, by decide, by decide, by decide⟩,
   ⟨_, _, _, rfl, by decide, by decide, by decide⟩, ⟨_, _, _, rfl, by decide, by decide, by decide⟩⟩

/-- non-vacuity: a one-triangle mesh with stamp "hi", ±1/0 coordinates, extreme face values and a full
    volume-info dictionary satisfies every hypothesis -/
example : (writeGeometry [104, 105] 1 1 [1065353216, 0, 3212836864] [0, -1, 2147483647] (some exVol)).bind
      (readGeometry true)
    = .ok ⟨[104, 105], 1, 1, [1065353216, 0, 3212836864], [0, -1, 2147483647], some exVol⟩ :=
  geometry_roundtrip true [104, 105] 1 1 [1065353216, 0, 3212836864] [0, -1, 2147483647] (some exVol)
    (by decide) rfl rfl (by decide) (by decide) (by decide) (by decide)
    (fun vi h => by cases h; exact exVol_ok)

/-- **Integer tokens.**  `int(str(v)) = v` for every integer, and the token `str(v)` is a value token of the
    footer text (non-empty, no whitespace, no `=`) -/
theorem int_token_roundtrip (v : Int) : intParse (intRepr v) = .ok v ∧ TokOk (intRepr v) :=
  ⟨intParse_intRepr v, intRepr_tokOk v⟩

example : intParse (intRepr (-2560)) = .ok (-2560) ∧ TokOk (intRepr (-2560)) := int_token_roundtrip _

/-- **Geometry round trip with the `volume` entry as integers.**  Whatever three integers the caller stores
    in `volume_info['volume']`, the footer `write_geometry` writes (their `str()` tokens) is read back and
    `int()` of the tokens returns the same three integers; all other entries as in `geometry_roundtrip`. -/
theorem geometry_roundtrip_int_volume (stamp : Bytes) (nv nf : Nat) (coords : List Nat) (faces : List Int)
    (vi : VolInfo) (a b c : Int)
    (hs : 10 ∉ stamp) (hc : coords.length = 3 * nv) (hf : faces.length = 3 * nf)
    (hnv : 3 * nv < 2147483648) (hnf : 3 * nf < 2147483648)
    (hcb : ∀ x ∈ coords, x < 4294967296) (hfb : ∀ x ∈ faces, inI32 x = true)
    (hrest : ∀ t, Vec3Ok t → VolOk { vi with volume := t }) :
    ∃ g, (writeGeometry stamp nv nf coords faces (some { vi with volume := [a, b, c].map intRepr })).bind
        (readGeometry true) = .ok g ∧
      g.vol = some { vi with volume := [a, b, c].map intRepr } ∧
      g.vol.map (fun v => intsParse v.volume) = some (.ok [a, b, c]) := by
  have hv : Vec3Ok ([a, b, c].map intRepr) :=
    ⟨_, _, _, rfl, intRepr_tokOk a, intRepr_tokOk b, intRepr_tokOk c⟩
  refine ⟨_, geometry_roundtrip true stamp nv nf coords faces _ hs hc hf hnv hnf hcb hfb
    (fun v h => by cases h; exact hrest _ hv), rfl, ?_⟩
  simp only [if_true, Option.map_some, intsParse_map]

/-- non-vacuity: the example dictionary with any `volume` vector satisfies `hrest`; negative, zero and large
    extents -/
example : ∃ g, (writeGeometry [104, 105] 0 0 [] [] (some { exVol with volume := [-3, 0, 4294967296].map intRepr })).bind
        (readGeometry true) = .ok g ∧
      g.vol = some { exVol with volume := [-3, 0, 4294967296].map intRepr } ∧
      g.vol.map (fun v => intsParse v.volume) = some (.ok [-3, 0, 4294967296]) :=
  geometry_roundtrip_int_volume [104, 105] 0 0 [] [] exVol (-3) 0 4294967296 (by decide) rfl rfl (by decide) (by decide)
    (by decide) (by decide)
    (fun _ ht => ⟨exVol_ok.head, exVol_ok.valid, exVol_ok.filename, ht, exVol_ok.voxelsize, exVol_ok.xras,
      exVol_ok.yras, exVol_ok.zras, exVol_ok.cras⟩)

/-- **Morphometry round trip.**  Every accepted shape ((n,), (n,1), (1,n), (n,1,1) for every n < 2^31)
    with any face count in int32 range reads back the flat vector of the same float32 patterns. -/
theorem morph_roundtrip (shape : List Nat) (vals : List Nat) (fnum : Int)
    (hacc : morphAccepts shape = true) (hlen : vals.length = prod shape)
    (hn : prod shape ≤ 2147483647) (hf : inI32 fnum = true) (hv : ∀ x ∈ vals, x < 4294967296) :
    (writeMorph shape vals fnum).bind readMorph = .ok vals := by
  have hf' := (inI32_iff fnum).1 hf
  have hn' : ¬ (prod shape > 2147483647) := by omega
  simp only [writeMorph, hacc, hf, hn', Bool.not_true, Bool.false_eq_true, Except.bind, ↓reduceIte]
  simp only [readMorph, morphMagicBytes, morphMagic, List.cons_append, List.nil_append, rdMagic3]
  have h3 : rdI32s 3 (encI32 (prod shape : Int) ++ (encI32 fnum ++ (encI32 1 ++ encU32s vals)))
      = .ok ([(prod shape : Int), fnum, 1], encU32s vals) := by
    have := rdI32s_enc [(prod shape : Int), fnum, 1] (encU32s vals) (by
      intro x hx
      simp only [List.mem_cons, List.not_mem_nil, or_false] at hx
      rcases hx with rfl | rfl | rfl <;> omega)
    simpa [encI32s, List.append_assoc] using this
  simp only [show (255 * 65536 + 255 * 256 + 255 : Nat) = 16777215 from rfl, ne_eq, not_true_eq_false, if_false, h3]
  have hnn : ¬ ((prod shape : Int) < 0) := by omega
  simp only [hnn, if_false, Int.toNat_natCast]
  have := rdU32s_enc vals [] hv
  rw [List.append_nil, hlen] at this
  simp only [this]

example : (writeMorph [3, 1, 1] [1065353216, 2147483648, 8388607] 7).bind readMorph
    = .ok [1065353216, 2147483648, 8388607] :=
  morph_roundtrip [3, 1, 1] [1065353216, 2147483648, 8388607] 7 (by decide) rfl (by decide) (by decide) (by decide)

/-- the accepted shapes are exactly the four documented vector layouts, for every length -/
theorem morph_accepts_iff (shape : List Nat) :
    morphAccepts shape = true ↔ ∃ n, shape = [n] ∨ shape = [n, 1] ∨ shape = [1, n] ∨ shape = [n, 1, 1] := by
  constructor
  · intro h
    refine ⟨prod shape, ?_⟩
    simpa [morphAccepts, or_assoc] using h
  · rintro ⟨n, rfl | rfl | rfl | rfl⟩ <;> simp [morphAccepts, prod]

/-! ## annotations -/

/-- **Annotation round trip, exact characterisation.**  For every annotation `write_annot` accepts without
    warning (`AnnotDom`: one name per row, byte-valued R,G,B, T in int32, pairwise distinct packed RGB values,
    labels in {-1} ∪ [0, n), names without trailing NUL), `read_annot` returns the colour table (with the
    packed values in column 5), the names, and every label — except that a label referring to a row whose
    packed value is 0 comes back as -1 (`limitLabel`; the format uses 0 for "unlabeled"). -/
theorem annot_roundtrip_general (labels : List Int) (ctab : List Row) (has5 : Bool) (names : List Bytes)
    (fill : Bool) (ok : AnnotDom labels ctab has5 names fill) :
    (writeAnnot labels ctab has5 names fill).bind (readAnnot false)
      = .ok ⟨labels.map (limitLabel (packs ctab)), withPacked ctab, names⟩ := by
  obtain ⟨file, h1, h2⟩ := annot_general_aux labels ctab has5 names fill ok
  rw [h1]; exact h2

/-- **Annotation round trip.**  When no vertex refers to a row packed to 0, labels, table and names read
    back exactly. -/
theorem annot_roundtrip (labels : List Int) (ctab : List Row) (has5 : Bool) (names : List Bytes)
    (fill : Bool) (ok : AnnotDom labels ctab has5 names fill)
    (hnz : ∀ l ∈ labels, 0 ≤ l → (packs ctab)[l.toNat]? ≠ some 0) :
    (writeAnnot labels ctab has5 names fill).bind (readAnnot false)
      = .ok ⟨labels, withPacked ctab, names⟩ := by
  rw [annot_roundtrip_general labels ctab has5 names fill ok]
  have : labels.map (limitLabel (packs ctab)) = labels := by
    conv => rhs; rw [← List.map_id labels]
    apply List.map_congr_left
    intro l hl
    have := hnz l hl
    simp only [limitLabel, id]
    split
    · rename_i h; exact absurd h.2 (this h.1)
    · rfl
  rw [this]

private def exCtab : List Row := [⟨10, 20, 30, 0, 7⟩, ⟨0, 0, 0, 255, 7⟩, ⟨255, 255, 255, 1, 7⟩]
private def exNames : List Bytes := [[97], [], [98, 0, 99]]

private theorem exAnnot_dom : AnnotDom [2, -1, 0, 0] exCtab false exNames true :=
  ⟨by decide, by decide, by decide, by decide, by decide, by decide, by decide, by decide⟩

/-- non-vacuity: three rows (one packed to 0 but not referenced), an unlabeled vertex, an empty name and a
    name with an inner NUL -/
example : (writeAnnot [2, -1, 0, 0] exCtab false exNames true).bind (readAnnot false)
    = .ok ⟨[2, -1, 0, 0], withPacked exCtab, exNames⟩ :=
  annot_roundtrip _ _ _ _ _ exAnnot_dom (by decide)

/-- format limit, exactly characterised: whenever some vertex refers to a row packed to 0 the labels do
    NOT read back (finding `annot:zero-packed-rgb-referenced`) -/
theorem annot_zero_rgb_general (labels : List Int) (ctab : List Row) (has5 : Bool) (names : List Bytes)
    (fill : Bool) (ok : AnnotDom labels ctab has5 names fill)
    (l : Int) (hl : l ∈ labels) (h0 : 0 ≤ l) (hz : (packs ctab)[l.toNat]? = some 0) :
    ∃ a, (writeAnnot labels ctab has5 names fill).bind (readAnnot false) = .ok a ∧ a.labels ≠ labels := by
  refine ⟨_, annot_roundtrip_general labels ctab has5 names fill ok, ?_⟩
  intro h
  have key : ∀ (ls : List Int), ls.map (limitLabel (packs ctab)) = ls → ∀ x ∈ ls, limitLabel (packs ctab) x = x := by
    intro ls
    induction ls with
    | nil => intro _ x hx; cases hx
    | cons a t ih =>
      intro e x hx
      simp only [List.map_cons, List.cons.injEq] at e
      rcases List.mem_cons.1 hx with rfl | hx
      · exact e.1
      · exact ih e.2 x hx
  have := key labels h l hl
  simp only [limitLabel, h0, hz, and_self, if_true] at this
  omega

/-- the minimal instance of the limit: one black entry, one vertex labelled with it, reads back -1 -/
theorem annot_zero_rgb_witness :
    (writeAnnot [0] [⟨0, 0, 0, 0, 0⟩] false [[97]] true).bind (readAnnot false)
      = .ok ⟨[-1], [⟨0, 0, 0, 0, 0⟩], [[97]]⟩ := by decide

/-- the ORIGINAL `write_annot` (`np.max(labels)` without `initial`) raised ValueError for an annotation
    with zero vertices; the repaired one writes it and it reads back -/
theorem annot_zero_vertices_orig_counterexample :
    writeAnnotOrig [] [⟨10, 20, 30, 0, 0⟩] false [[97]] true = .error .value ∧
    (writeAnnot [] [⟨10, 20, 30, 0, 0⟩] false [[97]] true).bind (readAnnot false)
      = .ok ⟨[], [⟨10, 20, 30, 0, 1971210⟩], [[97]]⟩ := by decide

/-- the ORIGINAL `_pack_rgb` on a uint8 colour table: white packs to 255 (not 16777215) and (10,200,30) to
    10, so the annotation value written for label 1 is 255, which `read_annot` — whose table holds the true
    packed values — maps back to row 0; the repaired packing (unbounded, as in the model) round-trips. -/
theorem annot_narrow_ctab_orig_counterexample :
    packRgbOrig 256 255 255 255 = 255 ∧ packRgbOrig 256 10 200 30 = 10 ∧
    backMap (packs [⟨10, 200, 30, 0, 0⟩, ⟨255, 255, 255, 7, 0⟩]) 255 = .ok 0 ∧
    (writeAnnot [1] [⟨10, 200, 30, 0, 0⟩, ⟨255, 255, 255, 7, 0⟩] false [[97], [98]] true).bind (readAnnot false)
      = .ok ⟨[1], [⟨10, 200, 30, 0, 2017290⟩, ⟨255, 255, 255, 7, 16777215⟩], [[97], [98]]⟩ := by
  refine ⟨by decide, by decide, ?_, ?_⟩
  · simp [backMap, packs, packRgb, sortedPairs, searchsortedLeft, List.zipIdx, List.mergeSort, List.MergeSort.Internal.splitInTwo]
  · exact annot_roundtrip _ _ _ _ _ ⟨by decide, by decide, by decide, by decide, by decide, by decide, by decide, by decide⟩ (by decide)

/-- **`annot:empty-ctab-unlabeled-vertices` (repaired by cb244bc8).**  BEFORE the fix (`writeAnnotLookupOrig`:
    `ctab[:, -1][labels]`) a zero-entry colour table made the writer raise IndexError for every non-empty label
    vector; the repaired writer accepts any number of unlabeled vertices with the empty table, and they read back as
    all -1 with an empty table and no names. -/
theorem annot_empty_ctab_unlabeled_orig_counterexample (labels : List Int) (has5 : Bool) (names : List Bytes)
    (h : labels ≠ []) (n : Nat) (hn : n < 2147483648) :
    writeAnnotLookupOrig labels [] has5 names true = .error .index ∧
    (writeAnnot (List.replicate n (-1)) [] has5 [] true).bind (readAnnot false)
      = .ok ⟨List.replicate n (-1), [], []⟩ := by
  constructor
  · cases labels with
    | nil => exact absurd rfl h
    | cons l ls =>
      have : clutLabel [] l = .error .index := by
        simp only [clutLabel, indexPy, List.length_nil]
        split <;> simp_all
      simp only [writeAnnotLookupOrig, writeAnnotWith, fillCtab, if_true, List.map_nil, clutLabels, this]
  · have ok : AnnotDom (List.replicate n (-1)) [] has5 [] true :=
      ⟨rfl, by simp, fun hf => Bool.noConfusion hf, by simp [packs],
        fun l hl => Or.inl (List.mem_replicate.mp hl).2, by simp, by simpa using hn, by simp⟩
    have := annot_roundtrip_general _ _ _ _ _ ok
    rw [this]
    have hm : (List.replicate n (-1 : Int)).map (limitLabel (packs [])) = List.replicate n (-1) := by
      rw [List.map_replicate]; rfl
    rw [hm]; rfl

example : writeAnnotLookupOrig [-1] [] false [] true = .error .index ∧
    (writeAnnot [-1, -1] [] false [] true).bind (readAnnot false) = .ok ⟨[-1, -1], [], []⟩ :=
  ⟨(annot_empty_ctab_unlabeled_orig_counterexample [-1] false [] (by decide) 0 (by decide)).1,
   (annot_empty_ctab_unlabeled_orig_counterexample [-1] false [] (by decide) 2 (by decide)).2⟩

/-- **`fill_ctab=True` ignores the last column.**  Two colour tables that agree in R, G, B, T produce the
    same file bytes under `fill_ctab=True`, whatever their 5th columns hold (stale, zero, garbage) and
    whether or not they have one — the docstring's "(n_labels, 5) - if the latter, the final column is
    ignored".  Unconditional (no domain hypothesis; errors are equal too). -/
theorem annot_fill_ignores_last_column (labels : List Int) (c1 c2 : List Row) (h51 h52 : Bool) (names : List Bytes)
    (h : c1.map zeroA = c2.map zeroA) :
    writeAnnot labels c1 h51 names true = writeAnnot labels c2 h52 names true :=
  writeAnnot_fill_congr labels c1 c2 h51 h52 names h

/-- non-vacuity: a 5-column table with a garbage last column and the 4-column table give the same file -/
example : writeAnnot [1, -1, 0] [⟨10, 20, 30, 0, 999⟩, ⟨1, 2, 3, 255, -5⟩] true [[97], [98]] true
    = writeAnnot [1, -1, 0] [⟨10, 20, 30, 0, 0⟩, ⟨1, 2, 3, 255, 0⟩] false [[97], [98]] true :=
  annot_fill_ignores_last_column _ _ _ _ _ _ rfl

/-- **Two-step history: read → recolour → write → read.**  Take any annotation of the domain, write and
    read it, overwrite the colours `ctab[:, :3]` of the table that came back (its 5th column, still holding
    the OLD packed values, is now stale) with any byte-valued, pairwise distinctly packed colours, write it
    with `fill_ctab=True` and read again: the first read is as in `annot_roundtrip_general`, the second
    returns the recoloured table with fresh packed values, the same names, and the labels (up to the
    packed-to-0 format limit, now with respect to the NEW colours). -/
theorem annot_recolour_chain (labels : List Int) (ctab : List Row) (has5 : Bool) (names : List Bytes) (fill : Bool)
    (ok : AnnotDom labels ctab has5 names fill) (rgb : List (Int × Int × Int))
    (hlen : rgb.length = ctab.length)
    (hr : ∀ p ∈ rgb, 0 ≤ p.1 ∧ p.1 < 256 ∧ 0 ≤ p.2.1 ∧ p.2.1 < 256 ∧ 0 ≤ p.2.2 ∧ p.2.2 < 256)
    (hd : (rgb.map fun p => packRgb p.1 p.2.1 p.2.2).Nodup) :
    ∃ f2, annotChain labels ctab has5 names fill rgb true = .ok
      (⟨labels.map (limitLabel (packs ctab)), withPacked ctab, names⟩, f2,
       ⟨(labels.map (limitLabel (packs ctab))).map (limitLabel (packs (recolour (withPacked ctab) rgb))),
         withPacked (recolour (withPacked ctab) rgb), names⟩) :=
  annot_recolour_chain_aux labels ctab has5 names fill ok rgb hlen hr hd

/-- non-vacuity: the example annotation, recoloured (one new colour equals an OLD colour of another row) -/
example : ∃ f2, annotChain [2, -1, 0, 0] exCtab false exNames true [(255, 255, 255), (1, 0, 0), (10, 20, 30)] true = .ok
      (⟨[2, -1, 0, 0], withPacked exCtab, exNames⟩, f2,
       ⟨[2, -1, 0, 0], [⟨255, 255, 255, 0, 16777215⟩, ⟨1, 0, 0, 255, 1⟩, ⟨10, 20, 30, 1, 1971210⟩], exNames⟩) :=
  annot_recolour_chain _ _ _ _ _ exAnnot_dom _ rfl (by decide) (by decide)

/-! ## MGH: shape, zooms, footer offset, file round trip -/

/-- **dims ↔ shape.**  For 1- to 4-D inputs (a 4th axis, when present, of length ≥ 2) the header's
    `get_data_shape` returns the image shape (1-D/2-D inputs padded to 3-D by `MGHImage`) and `_ndims` is
    its length: 3-D stays 3-D, 4-D with ≥ 2 frames stays 4-D. -/
theorem mgh_shape_roundtrip (s : List Nat) (hl : 1 ≤ s.length ∧ s.length ≤ 4)
    (h4 : ∀ a b c d, s = [a, b, c, d] → 2 ≤ d) :
    ∃ d, setDataShape (imgShape s) = .ok d ∧ getDataShape d = imgShape s ∧ ndims d = (imgShape s).length := by
  rcases s with _ | ⟨a, _ | ⟨b, _ | ⟨c, _ | ⟨d, _ | ⟨e, t⟩⟩⟩⟩⟩
  · simp at hl
  · exact ⟨⟨a, 1, 1, 1⟩, rfl, rfl, rfl⟩
  · exact ⟨⟨a, b, 1, 1⟩, rfl, rfl, rfl⟩
  · exact ⟨⟨a, b, c, 1⟩, rfl, rfl, rfl⟩
  · have hd := h4 a b c d rfl
    refine ⟨⟨a, b, c, d⟩, rfl, ?_, ?_⟩
    · have : d ≠ 1 := by omega
      simp [getDataShape, imgShape, this]
    · have : d > 1 := by omega
      simp [ndims, imgShape, this]
  · simp at hl

example : ∃ d, setDataShape (imgShape [3, 2]) = .ok d ∧ getDataShape d = [3, 2, 1] ∧ ndims d = 3 :=
  mgh_shape_roundtrip [3, 2] (by decide) (by intro a b c d h; cases h)
example : ∃ d, setDataShape (imgShape [3, 2, 4, 5]) = .ok d ∧ getDataShape d = [3, 2, 4, 5] ∧ ndims d = 4 :=
  mgh_shape_roundtrip [3, 2, 4, 5] (by decide) (by intro a b c d h; cases h; decide)

/-- **format limit (finding `mgh:single-frame-4d-shape`), for every such input.**  A 4-D shape whose last
    axis is 1 is stored with dims (a, b, c, 1), which `get_data_shape` reports as 3-D; saving such an image
    never succeeds, whatever the dtype, data, zooms or footer assignments. -/
theorem mgh_single_frame_4d_limit (a b c : Nat) :
    (setDataShape [a, b, c, 1]).map getDataShape = .ok [a, b, c] ∧
    ∀ dt data aff ras setZ sets o, mghSaveLoad [a, b, c, 1] dt data aff ras setZ sets ≠ .ok o := by
  refine ⟨rfl, ?_⟩
  intro dt data aff ras setZ sets o
  have hs : getDataShape ⟨a, b, c, 1⟩ ≠ [a, b, c, 1] := by simp [getDataShape]
  have tail : ∀ code (h1 : MghHdr), h1.dims = ⟨a, b, c, 1⟩ →
      mghSaveLoadFrom [a, b, c, 1] code h1 data aff ras sets = .error .hdrData := by
    intro code h1 hd
    simp [mghSaveLoadFrom, setFtr_dims, hd, hs]
  unfold mghSaveLoad
  simp only [List.length_cons, List.length_nil, show ¬ ((0 + 1 + 1 + 1 + 1 : Nat) < 3) from by decide, if_false]
  cases codeOfDtype dt with
  | none => simp
  | some code =>
    simp only [setDataShape]
    cases setZ with
    | none => simp [tail]
    | some zs =>
      simp only []
      cases hz : setZooms ⟨⟨a, b, c, 1⟩, code, aff, [0, 0, 0, 0, 0]⟩ zs with
      | error e => simp
      | ok h1 =>
        have := (setZooms_dims _ _ _ hz).1
        simp [tail code h1 this]

/-- **zooms and TR.**  Setting as many zooms as the header has dimensions (positive spatial zooms, a
    non-negative TR for 4-D) is accepted and `get_zooms` returns exactly them — three voxel sizes for a 3-D
    header, voxel sizes + TR for a 4-D one; shape and dtype are untouched. -/
theorem mgh_zooms_roundtrip (h : MghHdr) (zs : List Nat) (hn : zs.length = ndims h.dims)
    (hpos : (zs.take 3).any f32LeZero = false) (htr : ∀ t, zs[3]? = some t → f32LtZero t = false) :
    ∃ h', setZooms h zs = .ok h' ∧ getZooms h' = zs ∧ h'.dims = h.dims ∧ h'.code = h.code := by
  have hnd : ndims h.dims = 3 ∨ ndims h.dims = 4 := by unfold ndims; split <;> simp
  rcases hnd with h3 | h4'
  · match zs, hn with
    | [x, y, z], _ =>
      refine ⟨{ h with delta := [x, y, z] }, ?_, ?_, rfl, rfl⟩
      · simp only [setZooms, List.length_cons, List.length_nil, h3, hpos]; simp
      · simp [getZooms, h3]
    | [], hn => simp [h3] at hn
    | [_], hn => simp [h3] at hn
    | [_, _], hn => simp [h3] at hn
    | _ :: _ :: _ :: _ :: _, hn => simp [h3] at hn
  · match zs, hn with
    | [x, y, z, t], _ =>
      have ht := htr t rfl
      refine ⟨{ h with delta := [x, y, z], ftr := t :: h.ftr.drop 1 }, ?_, ?_, rfl, rfl⟩
      · simp only [setZooms, List.length_cons, List.length_nil, h4', hpos, ht]; simp
      · simp [getZooms, h4', ftrTr]
    | [], hn => simp [h4'] at hn
    | [_], hn => simp [h4'] at hn
    | [_, _], hn => simp [h4'] at hn
    | [_, _, _], hn => simp [h4'] at hn
    | _ :: _ :: _ :: _ :: _ :: _, hn => simp [h4'] at hn

example : ∃ h', setZooms ⟨⟨3, 2, 4, 5⟩, 3, [1, 1, 1], [0, 0, 0, 0, 0]⟩ [1065353216, 1073741824, 1056964608, 1075838976]
      = .ok h' ∧ getZooms h' = [1065353216, 1073741824, 1056964608, 1075838976] ∧ h'.dims = ⟨3, 2, 4, 5⟩ ∧ h'.code = 3 :=
  mgh_zooms_roundtrip _ _ (by decide) (by decide) (by intro t h; cases h; decide)

/-- **MGH file round trip.**  For every header with positive dims, a supported type code, three voxel
    sizes and five footer values (any float32 patterns) and data of `prod dims` elements fitting the type,
    the file `to_file_map` writes is read back to the same dims (hence shape and 3-D/4-D), type, voxel sizes,
    footer (TR, flip angle, TE, TI, FoV) and data; the footer sits exactly at
    `DATA_OFFSET + bytes-per-voxel * prod dims` and the file ends after it. -/
theorem mgh_file_roundtrip (h : MghHdr) (ras : Bytes) (bpv : Nat) (data : List Nat)
    (hb : bytesPerVox h.code = some bpv)
    (hnz : ¬ (h.dims.x = 0 ∨ h.dims.y = 0 ∨ h.dims.z = 0 ∨ h.dims.f = 0))
    (hdims : ∀ n ∈ h.dims.toList, n < 4294967296) (hcode : h.code < 4294967296)
    (hdl : h.delta.length = 3) (hdv : ∀ v ∈ h.delta, v < 4294967296)
    (hfl : h.ftr.length = 5) (hfv : ∀ v ∈ h.ftr, v < 4294967296)
    (hras : ras.length = 48)
    (hdata : data.length = h.dims.prod) (hdat : ∀ v ∈ data, v < 256 ^ bpv) :
    readMgh (writeMgh h ras bpv data) = .ok (h, ras, data)
    ∧ (writeMgh h ras bpv data).length = footerOffset bpv h.dims + ftrItemsize := by
  obtain ⟨⟨x, y, z, f⟩, code, delta, ftr⟩ := h
  simp only [Dims.toList, List.mem_cons, List.not_mem_nil, or_false, forall_eq_or_imp, forall_eq] at hdims
  exact mgh_file_roundtrip_aux x y z f code delta ftr ras bpv data hb hnz hdims.1 hdims.2.1 hdims.2.2.1
    hdims.2.2.2 hcode hdl hdv hfl hfv hras hdata hdat

example : readMgh (writeMgh ⟨⟨2, 1, 1, 2⟩, 4, [1065353216, 1073741824, 1056964608], [1075838976, 0, 1, 2, 3]⟩
      (zeros 48) 2 [1, 65535, 32768, 7]) = .ok (⟨⟨2, 1, 1, 2⟩, 4, [1065353216, 1073741824, 1056964608], [1075838976, 0, 1, 2, 3]⟩, zeros 48, [1, 65535, 32768, 7])
    ∧ (writeMgh ⟨⟨2, 1, 1, 2⟩, 4, [1065353216, 1073741824, 1056964608], [1075838976, 0, 1, 2, 3]⟩
      (zeros 48) 2 [1, 65535, 32768, 7]).length = footerOffset 2 ⟨2, 1, 1, 2⟩ + ftrItemsize :=
  mgh_file_roundtrip _ _ _ _ (by decide) (by decide) (by decide) (by decide) (by decide) (by decide) (by decide)
    (by decide) (by decide) (by decide) (by decide)

/-- **MGH save → load, end to end.**  For every 1- to 4-D shape with positive extents (a 4th axis, when
    present, of length ≥ 2), each of the four MGH dtypes, data fitting the type, any voxel sizes derived from
    the affine, any 48 `Mdc`/`Pxyz_c` bytes, an optional `set_zooms` call with as many zooms as dimensions
    (positive voxel sizes, non-negative TR) and any sequence of footer assignments, the whole pipeline
    `MGHImage(...)` → `set_zooms` → footer assignments → `save` → `load` succeeds and the loaded image has:
    the image shape (1-D/2-D padded to 3-D; 3-D stays 3-D, 4-D stays 4-D), the type code, the data, the
    `Mdc`/`Pxyz_c` bytes, the footer = TR followed by the assignments in order (`ftrSpec`), and `get_zooms`
    = voxel sizes (+ TR exactly for 4-D); the file written is `writeMgh` of those fields. -/
theorem mgh_save_load_roundtrip (s : List Nat) (dt : String) (code bpv : Nat) (data aff : List Nat) (ras : Bytes)
    (setZ : Option (List Nat)) (sets : List (Nat × Nat))
    (hl : 1 ≤ s.length ∧ s.length ≤ 4) (h4 : ∀ a b c d, s = [a, b, c, d] → 2 ≤ d)
    (hpos : ∀ n ∈ s, 0 < n ∧ n < 2147483648)
    (hc : codeOfDtype dt = some code) (hb : bytesPerVox code = some bpv)
    (haff : aff.length = 3) (haffv : ∀ v ∈ aff, v < 4294967296)
    (hras : ras.length = 48)
    (hdata : data.length = prod s) (hdat : ∀ v ∈ data, v < 256 ^ bpv)
    (hz : ∀ zs, setZ = some zs → zs.length = (imgShape s).length ∧ (zs.take 3).any f32LeZero = false ∧
            (∀ t, zs[3]? = some t → f32LtZero t = false) ∧ ∀ v ∈ zs, v < 4294967296)
    (hsets : ∀ p ∈ sets, p.2 < 4294967296) :
    ∃ d, setDataShape (imgShape s) = .ok d ∧
    mghSaveLoad s dt data aff ras setZ sets = .ok
      { hz := hzSpec setZ aff (imgShape s).length,
        file := writeMgh ⟨d, code, aff, ftrSpec (trOf setZ) sets⟩ ras bpv data,
        shape := imgShape s, code := code,
        zooms := zoomsSpec aff (imgShape s).length ((ftrSpec (trOf setZ) sets).headD 0),
        ftr := ftrSpec (trOf setZ) sets, data := data, ras := ras } := by
  obtain ⟨d, hsd, hgs, hnd⟩ := mgh_shape_roundtrip s hl h4
  exact ⟨d, hsd, mgh_save_load_aux s dt code bpv data aff ras setZ sets d hsd hgs hnd hpos hc hb haff haffv hras
    hdata hdat hz hsets⟩

/-- non-vacuity: a 2-D int16 image (padded to 3-D, so no TR in `get_zooms`) whose footer nevertheless gets
    TR / TE assigned and keeps them, and a 4-D uint8 image with `set_zooms` incl. TR and a later `tr` assignment -/
example : ∃ d, setDataShape (imgShape [2, 1]) = .ok d ∧
    mghSaveLoad [2, 1] "i2" [1, 65535] [1065353216, 1073741824, 1056964608] (zeros 48) none [(0, 1075838976), (2, 7)] = .ok
      { hz := [1065353216, 1073741824, 1056964608],
        file := writeMgh ⟨d, 4, [1065353216, 1073741824, 1056964608], [1075838976, 0, 7, 0, 0]⟩ (zeros 48) 2 [1, 65535],
        shape := [2, 1, 1], code := 4, zooms := [1065353216, 1073741824, 1056964608],
        ftr := [1075838976, 0, 7, 0, 0], data := [1, 65535], ras := zeros 48 } :=
  mgh_save_load_roundtrip [2, 1] "i2" 4 2 [1, 65535] [1065353216, 1073741824, 1056964608] (zeros 48) none
    [(0, 1075838976), (2, 7)] (by decide) (by intro a b c d h; cases h) (by decide) (by decide) (by decide) rfl
    (by decide) (by decide) rfl (by decide) (by intro zs h; cases h) (by decide)

example : ∃ d, setDataShape (imgShape [1, 1, 1, 2]) = .ok d ∧
    mghSaveLoad [1, 1, 1, 2] "u1" [9, 255] [1065353216, 1065353216, 1065353216] (zeros 48)
      (some [1065353216, 1065353216, 1065353216, 1157234688]) [(0, 1075838976)] = .ok
      { hz := [1065353216, 1065353216, 1065353216, 1157234688],
        file := writeMgh ⟨d, 0, [1065353216, 1065353216, 1065353216], [1075838976, 0, 0, 0, 0]⟩ (zeros 48) 1 [9, 255],
        shape := [1, 1, 1, 2], code := 0, zooms := [1065353216, 1065353216, 1065353216, 1075838976],
        ftr := [1075838976, 0, 0, 0, 0], data := [9, 255], ras := zeros 48 } :=
  mgh_save_load_roundtrip [1, 1, 1, 2] "u1" 0 1 [9, 255] [1065353216, 1065353216, 1065353216] (zeros 48)
    (some [1065353216, 1065353216, 1065353216, 1157234688]) [(0, 1075838976)] (by decide)
    (by intro a b c d h; cases h; decide) (by decide) (by decide) (by decide) rfl
    (by decide) (by decide) rfl (by decide)
    (by intro zs h; cases h; exact ⟨rfl, by decide, by intro t ht; cases ht; decide, by decide⟩) (by decide)

/-! ## MGH: load → edit → save → load -/

/-- **A loaded MGH file survives being saved again.**  For EVERY byte string `file` that `load` accepts (whatever
    wrote it: `goodRASFlag` 0 or any other value, any `dof`, a partial or absent footer, FreeSurfer tags after the
    footer, any `Mdc`/`Pxyz_c`/`delta` patterns), with `L` the header state and `data` the voxels it loads to: after
    an optional `set_zooms` that keeps the voxel sizes (as many zooms as dimensions, non-negative TR) and any
    sequence of footer assignments, `save` → `load` yields the same dims (so shape and 3-D/4-D), type code, `dof`,
    `goodRASFlag`, voxel sizes, `Mdc`/`Pxyz_c` bytes and data, and the footer is the loaded footer with the TR
    replaced when `set_zooms` got one and the assignments applied in order (`ftrAfter`) — in particular all five
    footer fields (TR, flip angle, TE, TI, FoV) of the loaded file are kept when nothing is assigned; the file
    written is `writeMghX` of exactly those fields and ends right after the 20 footer bytes. -/
theorem mgh_resave_roundtrip (file : Bytes) (L : MghFull) (data : List Nat) (setZ : Option (List Nat))
    (sets : List (Nat × Nat)) (hb : BytesOk file) (hr : readMghX file = .ok (L, data))
    (hz : ∀ zs, setZ = some zs → zs.length = ndims L.h.dims ∧ zs.take 3 = L.h.delta ∧
            L.h.delta.any f32LeZero = false ∧ ∀ t, zs[3]? = some t → f32LtZero t = false ∧ t < 4294967296)
    (hsets : ∀ p ∈ sets, p.2 < 4294967296) :
    ∃ bpv, bytesPerVox L.h.code = some bpv ∧
      mghResave file setZ sets = .ok (L, data,
        writeMghX { L with h := { L.h with ftr := ftrAfter L.h.ftr setZ sets } } bpv data,
        { L with h := { L.h with ftr := ftrAfter L.h.ftr setZ sets } }, data) ∧
      (writeMghX { L with h := { L.h with ftr := ftrAfter L.h.ftr setZ sets } } bpv data).length
        = footerOffset bpv L.h.dims + ftrItemsize :=
  mgh_resave_aux file L data setZ sets hb hr hz hsets

/-- `readMghX` refines `readMgh`: same acceptance, same C19 fields -/
theorem readMghX_refines (bs : Bytes) :
    (readMghX bs).map (fun r => (r.1.h, r.1.ras, r.2)) = readMgh bs := by
  unfold readMghX
  cases readMgh bs with
  | error e => rfl
  | ok r => rfl

/-- non-vacuity: a 4-D uint8 file with `goodRASFlag` 0, `dof` 7, all five footer fields non-zero and three tag
    bytes after the footer; `set_zooms` with a TR and an assignment to `fov` -/
def exFile : Bytes :=
  encU32 1 ++ encU32s [2, 1, 1, 2] ++ encU32 0 ++ encU32 7 ++ [0, 0] ++ zeros 254 ++ [9, 255, 3, 4] ++
    encU32s [5, 6, 7, 8, 9] ++ [1, 2, 3]

example : ∃ bpv, bytesPerVox 0 = some bpv ∧
    mghResave exFile (some [1065353216, 1065353216, 1065353216, 1157234688]) [(4, 77)] = .ok
      (⟨⟨⟨2, 1, 1, 2⟩, 0, defDeltaNoRas, [5, 6, 7, 8, 9]⟩, 7, 1, defRasBytes⟩, [9, 255, 3, 4],
       writeMghX ⟨⟨⟨2, 1, 1, 2⟩, 0, defDeltaNoRas, [1157234688, 6, 7, 8, 77]⟩, 7, 1, defRasBytes⟩ bpv [9, 255, 3, 4],
       ⟨⟨⟨2, 1, 1, 2⟩, 0, defDeltaNoRas, [1157234688, 6, 7, 8, 77]⟩, 7, 1, defRasBytes⟩, [9, 255, 3, 4]) ∧
    (writeMghX ⟨⟨⟨2, 1, 1, 2⟩, 0, defDeltaNoRas, [1157234688, 6, 7, 8, 77]⟩, 7, 1, defRasBytes⟩ bpv [9, 255, 3, 4]).length
      = footerOffset bpv ⟨2, 1, 1, 2⟩ + ftrItemsize :=
  mgh_resave_roundtrip exFile ⟨⟨⟨2, 1, 1, 2⟩, 0, defDeltaNoRas, [5, 6, 7, 8, 9]⟩, 7, 1, defRasBytes⟩ [9, 255, 3, 4]
    (some [1065353216, 1065353216, 1065353216, 1157234688]) [(4, 77)] (by unfold BytesOk; decide +kernel)
    (by decide +kernel)
    (by intro zs h; cases h; exact ⟨rfl, rfl, by decide, by intro t ht; cases ht; decide⟩) (by decide)

/-- **`_pack_rgb` over the regenerated shifts.**  The model's annotation value `R + G·2^8 + B·2^16` is the dot product
    of the row with `2 ** shifts` for the shift list extracted from `_pack_rgb` on this run (so every annotation
    theorem speaks about the shifts the source has now). -/
theorem pack_rgb_generated (r g b : Int) : packRgb r g b = dotShifts [r, g, b] packShifts :=
  pack_rgb_generated_aux r g b

example : packRgb 10 20 30 = dotShifts [10, 20, 30] packShifts ∧ packRgb 10 20 30 = 1971210 :=
  ⟨pack_rgb_generated _ _ _, by decide⟩

/-- **`write_morph_data` accepts exactly** the vector shapes with at most `np.iinfo(<literal>).max` values and a face
    count within `np.iinfo(<literal>)` — limits regenerated from the source. -/
theorem morph_writer_limits_generated (shape : List Nat) (vals : List Nat) (fnum : Int) :
    (∃ f, writeMorph shape vals fnum = .ok f) ↔
      (morphAccepts shape = true ∧ (prod shape : Int) ≤ morphCountMax ∧ morphFnumMin ≤ fnum ∧ fnum ≤ morphFnumMax) :=
  morph_writer_limits_generated_aux shape vals fnum

example : ∃ f, writeMorph [2, 1] [1, 2] (-2147483648) = .ok f :=
  (morph_writer_limits_generated [2, 1] [1, 2] (-2147483648)).mpr (by decide)
example : ¬ ∃ f, writeMorph [2, 1] [1, 2] 2147483648 = .ok f :=
  fun h => absurd ((morph_writer_limits_generated [2, 1] [1, 2] 2147483648).mp h) (by decide)

/-- **`annot:unsigned-labels-overflow` (repaired by f0d22687).**  BEFORE the fix (`writeAnnotUnsignedOrig`), with a
    label array of an unsigned dtype the writer failed with OverflowError for EVERY valid annotation (table with its
    fifth column or `fill_ctab`, labels inside the table): `np.max(labels, initial=-1)` cannot represent -1.  The
    repaired writer has no dtype-dependent step (the example shows the same input round-tripping). -/
theorem annot_unsigned_labels_orig_counterexample (labels : List Int) (ctab : List Row) (has5 : Bool) (names : List Bytes)
    (fill : Bool) (hf : fill = true ∨ has5 = true) (hl : ∀ l ∈ labels, 0 ≤ l ∧ l < ctab.length) :
    writeAnnotUnsignedOrig labels ctab has5 names fill = .error .overflow := by
  have hfc : ∃ c', fillCtab fill has5 ctab = .ok c' ∧ c'.length = ctab.length := by
    unfold fillCtab
    rcases hf with rfl | rfl
    · exact ⟨_, rfl, by simp⟩
    · cases fill
      · exact ⟨_, rfl, rfl⟩
      · exact ⟨_, rfl, by simp⟩
  obtain ⟨c', hc, hlen⟩ := hfc
  have hcl : ∀ ls : List Int, (∀ l ∈ ls, 0 ≤ l ∧ l < ctab.length) → ∃ cs, clutLabels (c'.map (·.a)) ls = .ok cs := by
    intro ls
    induction ls with
    | nil => exact fun _ => ⟨[], rfl⟩
    | cons l t ih =>
      intro h
      obtain ⟨cs, hcs⟩ := ih (fun x hx => h x (List.mem_cons_of_mem _ hx))
      have hl' := h l (List.mem_cons_self ..)
      have hidx : ∃ a, indexPy (c'.map (·.a)) l = .ok a := by
        unfold indexPy
        have h1 : ¬ l < 0 := by omega
        have h2 : l.toNat < (c'.map (·.a)).length := by rw [List.length_map, hlen]; omega
        simp only [h1, if_false]
        rw [List.getElem?_eq_getElem h2]
        exact ⟨_, rfl⟩
      obtain ⟨a, ha⟩ := hidx
      exact ⟨(if l = -1 then 0 else a) :: cs, by simp only [clutLabels, clutLabel, ha, hcs]⟩
  obtain ⟨cs, hcs⟩ := hcl labels hl
  simp only [writeAnnotUnsignedOrig, writeAnnotWith, hc, hcs]

example : writeAnnotUnsignedOrig [0] [⟨1, 0, 0, 0, 0⟩] false [[97]] true = .error .overflow ∧
    (writeAnnot [0] [⟨1, 0, 0, 0, 0⟩] false [[97]] true).bind (readAnnot false) = .ok ⟨[0], [⟨1, 0, 0, 0, 1⟩], [[97]]⟩ :=
  ⟨annot_unsigned_labels_orig_counterexample _ _ _ _ _ (Or.inl rfl) (by decide),
   annot_roundtrip _ _ _ _ _ ⟨by decide, by decide, by decide, by decide, by decide, by decide, by decide, by decide⟩
     (by decide)⟩

/-- **The repair cb244bc8 of `write_annot` is conservative (bridge between the old and the new lookup).**  Looking up
    only the labelled vertices (`clutLabelsFixed`, the working tree) gives the SAME annotation values whenever the old
    lookup `clutLabels` succeeded (so every file the old writer wrote is written byte-identically), and succeeds with
    all-zero values for any number of unlabeled vertices whatever the table — including the empty one, where the
    old code raised IndexError. -/
theorem annot_fix_proposal_conservative (avals : List Int) :
    (∀ ls cs, clutLabels avals ls = .ok cs → clutLabelsFixed avals ls = .ok cs) ∧
    (∀ n, clutLabelsFixed avals (List.replicate n (-1)) = .ok (List.replicate n 0)) :=
  ⟨clutLabelsFixed_conservative avals, clutLabelsFixed_unlabeled avals⟩

example : clutLabels [] [-1] = .error .index ∧ clutLabelsFixed [] [-1] = .ok [0] ∧
    clutLabels [7, 9] [1, -1, 0] = .ok [9, 0, 7] ∧ clutLabelsFixed [7, 9] [1, -1, 0] = .ok [9, 0, 7] := by decide

/-! ## generated constants (re-checked against the source on every run) -/

/-- the constants the model relies on, as extracted from the working tree: header/footer layouts tile
    their blocks with the offsets the model hard-codes, the data offset lies behind the header, the type
    table has widths 1/2/4 and distinct codes, the magic bytes the writers emit decode to the magic numbers
    the readers test, the reader's volume-info keys are the writer's keys after `head`, in order; the
    `Mdc`/`Pxyz_c` defaults of a header without RAS information fill bytes 42..90. -/
theorem gen_constants_consistent :
    tiles 0 hdrLayout hdrItemsize = true ∧ tiles 0 ftrLayout ftrItemsize = true ∧ hdrItemsize ≤ dataOffset ∧
    hdrLayout.map (fun e => (e.1, e.2.1)) =
      [("version", 0), ("dims", 4), ("type", 20), ("dof", 24), ("goodRASFlag", 28), ("delta", 30), ("Mdc", 42),
       ("Pxyz_c", 78)] ∧
    ftrLayout.map (·.1) = ["tr", "flip_angle", "te", "ti", "fov"] ∧ ftrItemsize = 20 ∧
    (∀ e ∈ typeCodes, e.2.2 = 1 ∨ e.2.2 = 2 ∨ e.2.2 = 4) ∧ (typeCodes.map (·.2.1)).Nodup ∧
    (typeCodes.map (·.1)).Nodup ∧ defVersion = 1 ∧ defGoodRAS ≠ 0 ∧ defGoodRAS < 256 ∧
    rdMagic3 geomMagicBytes = .ok (triangleMagic, []) ∧ rdMagic3 morphMagicBytes = .ok (morphMagic, []) ∧
    triangleMagic ≠ quadMagic ∧ triangleMagic ≠ newQuadMagic ∧
    volKeysW = [kHead, kValid, kFilename, kVolume, kVoxelsize, kXras, kYras, kZras, kCras] ∧
    volKeysR = volKeysW.tail ∧ noFile.length + 1 < 2147483648 ∧
    defRasBytes.length + 42 = hdrItemsize ∧ defDeltaNoRas.length = 3 ∧ (∀ b ∈ defRasBytes, b < 256) := by decide

/-- the constants added in the third wave: the version `chk_version` accepts is the default one the writer emits, the
    `goodRASFlag` a header without RAS information ends up with is a non-zero 16-bit value, the shift list of
    `_pack_rgb` and the limits of `write_morph_data` are the int32 ones the codecs use. -/
theorem gen_constants_consistent_wave3 :
    versionOk = defVersion ∧ versionOk = 1 ∧ 0 < defGoodNoRas ∧ defGoodNoRas < 65536 ∧ defGoodNoRas = defGoodRAS ∧
    packShifts = [0, 8, 16] ∧ morphCountMax = 2147483647 ∧ morphFnumMin = -2147483648 ∧ morphFnumMax = 2147483647 ∧
    (∀ v ∈ defDeltaNoRas, v < 4294967296) := by decide

end Nb.C19
