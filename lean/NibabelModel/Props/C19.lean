import NibabelModel.Lemmas.C19
/-! Props/C19 — the property theorems for C19 (statements + proofs; helper lemmas live in Lemmas/). -/
namespace Nb.C19
open Nb.Gen.C19

/-- **Geometry round trip.**  For every mesh (any number of vertices/faces below the int32 count limit of
    the reader, coordinates as arbitrary float32 patterns, faces as arbitrary int32 values), every create
    stamp without a newline and every volume-info dictionary of the property's domain (`VolOk`), reading
    back what `write_geometry` wrote returns exactly the stamp, counts, coordinates, faces and (when
    `read_metadata`) the volume info. -/
theorem geometry_roundtrip (rm : Bool) (stamp : Bytes) (nv nf : Nat) (coords : List Nat) (faces : List Int)
    (vol : Option VolInfo)
    (hs : 10 ∉ stamp) (hc : coords.length = 3 * nv) (hf : faces.length = 3 * nf)
    (hnv : 3 * nv < 2147483648) (hnf : 3 * nf < 2147483648)
    (hcb : ∀ x ∈ coords, x < 4294967296) (hfb : ∀ x ∈ faces, inI32 x = true)
    (hvol : ∀ vi, vol = some vi → VolOk vi) :
    (writeGeometry stamp nv nf coords faces vol).bind (readGeometry rm)
      = .ok ⟨stamp, nv, nf, coords, faces, if rm then vol else none⟩ := by
  have hfb' : ∀ x ∈ faces, -2147483648 ≤ x ∧ x < 2147483648 := fun x hx => (inI32_iff x).1 (hfb x hx)
  have g : ¬ (nv ≥ 2147483648 ∨ nf ≥ 2147483648) := by omega
  cases vol with
  | none =>
    have := readGeometry_body rm stamp nv nf coords faces [] hs hc hf hnv hnf hcb hfb'
    rw [List.append_nil] at this
    simp only [writeGeometry, g, if_false, Except.bind, this]
    cases rm <;> rfl
  | some vi =>
    obtain ⟨f, h1, h2⟩ := rdVolInfo_serialize vi (hvol vi rfl)
    have := readGeometry_body rm stamp nv nf coords faces f hs hc hf hnv hnf hcb hfb'
    simp only [writeGeometry, g, if_false, h1, Except.bind, List.append_assoc, List.cons_append, this, h2]
    cases rm <;> rfl

private def exVol : VolInfo :=
  ⟨[2, 0, 20], [49], [97, 46, 109, 103, 122], [[50, 53, 54], [50, 53, 54], [49]],
    [[49], [48, 46, 53], [49]], [[45, 49], [48], [48]], [[48], [48], [45, 49]], [[48], [49], [48]],
    [[49, 101, 45, 49, 48], [50], [51]]⟩

private theorem exVol_ok : VolOk exVol :=
  ⟨Or.inr rfl, by decide, by decide,
   ⟨_, _, _, rfl, by decide, by decide, by decide⟩, ⟨_, _, _, rfl, by decide, by decide, by decide⟩,
   ⟨_, _, _, rfl, by decide, by decide, by decide⟩, ⟨_, _, _, rfl, by decide, by decide, by decide⟩,
   ⟨_, _, _, rfl, by decide, by decide, by decide⟩, ⟨_, _, _, rfl, by decide, by decide, by decide⟩⟩

/-- non-vacuity: a one-triangle mesh with stamp "hi", ±1/0 coordinates, extreme face values and a full
    volume-info dictionary satisfies every hypothesis -/
example : (writeGeometry [104, 105] 1 1 [1065353216, 0, 3212836864] [0, -1, 2147483647] (some exVol)).bind
      (readGeometry true)
    = .ok ⟨[104, 105], 1, 1, [1065353216, 0, 3212836864], [0, -1, 2147483647], some exVol⟩ :=
  geometry_roundtrip true [104, 105] 1 1 [1065353216, 0, 3212836864] [0, -1, 2147483647] (some exVol)
    (by decide) rfl rfl (by decide) (by decide) (by decide) (by decide)
    (fun vi h => by cases h; exact exVol_ok)

/-- **Morphometry round trip.**  Every accepted shape ((n,), (n,1), (1,n), (n,1,1) for every n < 2^31)
    with any face count in int32 range reads back the flat vector of the same float32 patterns. -/
theorem morph_roundtrip (shape : List Nat) (vals : List Nat) (fnum : Int)
    (hacc : morphAccepts shape = true) (hlen : vals.length = prod shape)
    (hn : prod shape ≤ 2147483647) (hf : inI32 fnum = true) (hv : ∀ x ∈ vals, x < 4294967296) :
    (writeMorph shape vals fnum).bind readMorph = .ok vals := by
  have hf' := (inI32_iff fnum).1 hf
  have hn' : ¬ (prod shape > 2147483647) := by omega
  simp only [writeMorph, hacc, hf, hn', Bool.not_true, Bool.false_eq_true, Except.bind, ↓reduceIte]
  simp only [readMorph, morphMagicBytes, morphMagic, List.cons_append, List.nil_append, rdMagic3]
  have h3 : rdI32s 3 (encI32 (prod shape : Int) ++ (encI32 fnum ++ (encI32 1 ++ encU32s vals)))
      = .ok ([(prod shape : Int), fnum, 1], encU32s vals) := by
    have := rdI32s_enc [(prod shape : Int), fnum, 1] (encU32s vals) (by
      intro x hx
      simp only [List.mem_cons, List.not_mem_nil, or_false] at hx
      rcases hx with rfl | rfl | rfl <;> omega)
    simpa [encI32s, List.append_assoc] using this
  simp only [show (255 * 65536 + 255 * 256 + 255 : Nat) = 16777215 from rfl, ne_eq, not_true_eq_false, if_false, h3]
  have hnn : ¬ ((prod shape : Int) < 0) := by omega
  simp only [hnn, if_false, Int.toNat_natCast]
  have := rdU32s_enc vals [] hv
  rw [List.append_nil, hlen] at this
  simp only [this]

example : (writeMorph [3, 1, 1] [1065353216, 2147483648, 8388607] 7).bind readMorph
    = .ok [1065353216, 2147483648, 8388607] :=
  morph_roundtrip [3, 1, 1] [1065353216, 2147483648, 8388607] 7 (by decide) rfl (by decide) (by decide) (by decide)

/-- the accepted shapes are exactly the four documented vector layouts, for every length -/
theorem morph_accepts_iff (shape : List Nat) :
    morphAccepts shape = true ↔ ∃ n, shape = [n] ∨ shape = [n, 1] ∨ shape = [1, n] ∨ shape = [n, 1, 1] := by
  constructor
  · intro h
    refine ⟨prod shape, ?_⟩
    simpa [morphAccepts, or_assoc] using h
  · rintro ⟨n, rfl | rfl | rfl | rfl⟩ <;> simp [morphAccepts, prod]

end Nb.C19
