import NibabelModel.Model.C19
/-! Props/C19 — the property theorems for C19 (statements + proofs; helper lemmas live in Lemmas/). -/
namespace Nb.C19

end Nb.C19
