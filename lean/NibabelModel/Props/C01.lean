import NibabelModel.Model.C01
import NibabelModel.Lemmas.C01
import NibabelModel.Lemmas.C01_Donor
import NibabelModel.Generated.C01FileTypes
/-! Props/C01 — lossless voxel round-trip through every writable volume format (DESIGN.md §5 C01).

  All statements are unbounded: any rank (≥ 1; the property speaks of 1–7 dims), any axis lengths
  including 0 and 1, any component width and count, either byte order, any data offset not inside the
  header, arbitrary header / footer bytes, arbitrary element bit patterns (NaN payloads, ±inf, −0.0 are
  ordinary patterns).  Casts between different float widths and the codecs are parameters (see the
  model header); the integer → integer cast is proved exact. -/
namespace Nb.C01
open Nb

/-! ### byte codec -/

/-- decode ∘ encode = id for every width, both byte orders, every in-range pattern -/
theorem dec_enc (e : Endian) (w v : Nat) (h : v < 256 ^ w) : dec e (enc e w v) = v := by
  rw [dec_enc_mod, Nat.mod_eq_of_lt h]

example : dec .big (enc .big 2 0xBEEF) = 0xBEEF := dec_enc .big 2 0xBEEF (by decide)

/-- an element of `k` components (`k = 2` complex, `3` RGB …) survives encode/decode in either order -/
theorem decElem_encElem (e : Endian) (cw k : Nat) (x : Elem) (hx : ElemOK cw k x) :
    decElem e cw k (encElem e cw x) = x := by
  simpa using decElem_encElem_tail e cw k x [] hx

example : ElemOK 4 2 [0x7fc00001, 0xff800000] := ⟨rfl, by decide⟩

/-! ### what is stored -/

/-- `stored_is_cast`: the bytes of the data region `[offset, offset + n·itemsize)` are exactly the
    Fortran-order concatenation of the encodings of the elements — whatever `np.squeeze`, the
    transposition and the slab loop of `_write_data` do. -/
theorem stored_is_cast (h : List Nat) (offset : Nat) (e : Endian) (cw k : Nat) (shape : List Nat)
    (A : List Nat → Elem) (hh : h.length ≤ offset) (hA : ∀ i ∈ enumF shape, ElemOK cw k (A i)) :
    ((writeFile h offset e cw shape A).drop offset).take (shape.prod * (cw * k))
      = (enumF shape).flatMap (fun i => encElem e cw (A i)) := by
  unfold writeFile
  rw [List.drop_left' (padTo_length offset h hh), ← writeData_eq]
  exact List.take_of_length_le (by rw [writeData_length e cw k shape A hA]; exact Nat.le_refl _)

example : ((writeFile [9, 9] 4 .big 2 [2, 1, 2] (fun i => [i.getD 0 0 + 16 * i.getD 2 0])).drop 4).take 8
    = [0, 0, 0, 1, 0, 16, 0, 17] := by decide

/-! ### round trip -/

/-- `roundtrip_bytes`: for every shape of rank ≥ 1 (axes of length 0 and 1 included), every element
    layout, byte order, offset ≥ header length and header bytes, reading the written file back gives the
    same shape and the same elements (Fortran order), bit for bit. -/
theorem roundtrip_bytes (h : List Nat) (offset : Nat) (e : Endian) (cw k : Nat) (shape : List Nat)
    (A : List Nat → Elem) (hh : h.length ≤ offset) (hrank : shape ≠ []) (hcw : 0 < cw) (hk : 0 < k)
    (hA : ∀ i ∈ enumF shape, ElemOK cw k (A i)) :
    readData (writeFile h offset e cw shape A) offset e cw k shape = .ok (shape, (enumF shape).map A) := by
  have := readData_block (padTo offset h) [] offset e cw k shape A (padTo_length offset h hh) hrank hcw hk hA
  simpa [writeFile] using this

example : readData (writeFile [1, 2, 3] 5 .little 1 [2, 0, 3] (fun _ => [7])) 5 .little 1 1 [2, 0, 3]
    = .ok ([2, 0, 3], []) :=
  roundtrip_bytes [1, 2, 3] 5 .little 1 1 [2, 0, 3] _ (by decide) (by decide) (by decide) (by decide)
    (by intro i hi; exact ⟨rfl, by decide⟩)

-- non-empty: rank 3 with a length-1 axis, 2-byte big-endian elements behind a 3-byte header padded to 5
example : readData (writeFile [1, 2, 3] 5 .big 2 [2, 1, 3] (fun i => [0x7f00 + 16 * i.getD 0 0 + i.getD 2 0])) 5 .big 2 1
      [2, 1, 3]
    = .ok ([2, 1, 3], [[0x7f00], [0x7f10], [0x7f01], [0x7f11], [0x7f02], [0x7f12]]) :=
  roundtrip_bytes [1, 2, 3] 5 .big 2 1 [2, 1, 3] _ (by decide) (by decide) (by decide) (by decide) (by decide)

/-- the codecs enter only through their contract: any `compress`/`decompress` pair with
    `decompress (compress b) = b` (gzip, bz2, zstd, identity) leaves the round trip intact — filename,
    file-map, stream and bytes routes differ only in the sink the same bytes go to. -/
theorem roundtrip_through_codec (compress decompress : List Nat → List Nat)
    (hcodec : ∀ b, decompress (compress b) = b)
    (h : List Nat) (offset : Nat) (e : Endian) (cw k : Nat) (shape : List Nat)
    (A : List Nat → Elem) (hh : h.length ≤ offset) (hrank : shape ≠ []) (hcw : 0 < cw) (hk : 0 < k)
    (hA : ∀ i ∈ enumF shape, ElemOK cw k (A i)) :
    readData (decompress (compress (writeFile h offset e cw shape A))) offset e cw k shape
      = .ok (shape, (enumF shape).map A) := by
  rw [hcodec]; exact roundtrip_bytes h offset e cw k shape A hh hrank hcw hk hA

example : readData (id (id (writeFile [] 0 .big 4 [1, 2] (fun i => [i.getD 1 0, 0x7fc00001])))) 0 .big 4 2 [1, 2]
    = .ok ([1, 2], [[0, 0x7fc00001], [1, 0x7fc00001]]) :=
  roundtrip_through_codec id id (fun _ => rfl) [] 0 .big 4 2 [1, 2] _ (by decide) (by decide) (by decide)
    (by decide) (by decide)

/-- element-wise form: the loaded array `np.ndarray(shape, dtype, buffer, order='F')` indexed at any
    in-bounds multi-index `i` holds exactly the element that was saved at `i` -/
theorem roundtrip_bytes_elementwise (h : List Nat) (offset : Nat) (e : Endian) (cw k : Nat) (shape : List Nat)
    (A : List Nat → Elem) (hh : h.length ≤ offset) (hrank : shape ≠ []) (hcw : 0 < cw) (hk : 0 < k)
    (hA : ∀ i ∈ enumF shape, ElemOK cw k (A i)) :
    ∃ els, readData (writeFile h offset e cw shape A) offset e cw k shape = .ok (shape, els) ∧
      ∀ i, InBounds shape i → loadedAt shape els i = A i := by
  refine ⟨(enumF shape).map A, roundtrip_bytes h offset e cw k shape A hh hrank hcw hk hA, ?_⟩
  intro i hi
  unfold loadedAt
  rw [List.getD_eq_getElem?_getD, List.getElem?_map, enumF_getElem?_ravelF shape i hi]
  rfl

example : InBounds [2, 1, 3] [1, 0, 2] := by decide

/-- a file shorter than `offset + n·itemsize` is refused, never read back as different data -/
theorem short_file_refused (file : List Nat) (offset : Nat) (e : Endian) (cw k : Nat) (shape : List Nat)
    (hrank : shape ≠ []) (hn : shape.prod * (cw * k) ≠ 0)
    (hshort : file.length < offset + shape.prod * (cw * k)) :
    readData file offset e cw k shape = .error .short :=
  readData_short file offset e cw k shape hrank hn hshort

example : readData [1, 2, 3] 2 .little 1 1 [2] = .error .short :=
  short_file_refused _ _ _ _ _ _ (by decide) (by decide) (by decide)

/-- the ORIGINAL `array_from_file` (before `fix: array_from_file returns an empty array of the requested
    shape`) collapsed every zero-size shape to `(0,)` -/
theorem zero_size_orig_counterexample :
    readDataOrig (writeFile [] 0 .little 2 [2, 0, 3] (fun _ => [0])) 0 .little 2 1 [2, 0, 3]
      = .ok ([0], []) ∧
    readData (writeFile [] 0 .little 2 [2, 0, 3] (fun _ => [0])) 0 .little 2 1 [2, 0, 3]
      = .ok ([2, 0, 3], []) := by
  constructor <;> rfl

/-! ### integer → integer casts -/

/-- `int_cast_exact`: when `scaling_needed()` answers False for an integer input and an integer
    on-disk type, every value lies in the on-disk range and encode/decode returns it exactly
    (unbounded `Int`: covers the uint64 / int64 comparisons Python must do with `int()`). -/
theorem int_cast_exact (aS oS : Bool) (aw ow : Nat) (vals : List Int) (e : Endian) (how : 0 < ow)
    (hin : ∀ v ∈ vals, InRange aS aw v)
    (hsn : scalingNeededInt aS aw oS ow vals = .ok false) :
    ∀ v ∈ vals, InRange oS ow v ∧ ofBits oS ow (dec e (enc e ow (toBits ow v))) = v := by
  intro v hv
  have hr : InRange oS ow v := by
    rcases scalingNeededInt_false aS oS aw ow vals hsn with hc | hnil | hz | hrng
    · exact canCast_int_range aS oS aw ow v hc (hin v hv)
    · subst hnil; simp at hv
    · have h1 := listMin_le vals v hv
      have h2 := le_listMax vals v hv
      have hv0 : v = 0 := by omega
      subst hv0
      have hp := pow256_pos (ow - 1)
      have hM : 256 ^ ow = 256 ^ (ow - 1) * 256 := by
        rw [← Nat.pow_succ]; congr 1; omega
      have h2 : 2 ≤ 256 ^ ow := by rw [hM]; omega
      unfold InRange intMin intMax
      generalize 256 ^ ow = M at h2 ⊢
      cases oS <;> simp only [if_true, if_false, Bool.false_eq_true] <;> omega
    · have h1 := listMin_le vals v hv
      have h2 := le_listMax vals v hv
      exact ⟨Int.le_trans hrng.1 h1, Int.le_trans h2 hrng.2⟩
  obtain ⟨hlt, hof⟩ := ofBits_toBits oS ow how v hr
  exact ⟨hr, by rw [dec_enc e ow _ hlt, hof]⟩

-- non-vacuity: int64 input holding the uint8 extremes, on-disk uint8
example : ∀ v ∈ [255, 0, 17], InRange false 1 v ∧ ofBits false 1 (dec .big (enc .big 1 (toBits 1 v))) = v :=
  int_cast_exact true false 8 1 [255, 0, 17] .big (by decide) (by decide) (by rfl)

-- uint64 -> int64 with the extreme that fits, int64 -> uint8 in range
example : scalingNeededInt false 8 true 8 [0, 9223372036854775807] = .ok false := by rfl
example : scalingNeededInt true 8 false 1 [255, 0, 17] = .ok false := by rfl
example : scalingNeededInt false 8 true 8 [9223372036854775808] = .ok true := by rfl

/-! ### MGH -/

/-- an MGH image (after the constructor's padding to 3-D) can be saved iff it is 3-D, or 4-D with more
    than one frame -/
theorem mgh_shape_accepted_iff (hdr ftr : List Nat) (cw : Nat) (shape : List Nat) (A : List Nat → Elem) :
    (∃ f, mghWrite hdr ftr cw (mghImageShape shape) A = .ok f) ↔
      (shape.length ≤ 3 ∨ (shape.length = 4 ∧ shape.getD 3 0 ≠ 1)) := by
  match shape with
  | [] => simp [mghWrite, mghHeaderShape, mghImageShape]
  | [a] => simp [mghWrite, mghHeaderShape, mghImageShape]
  | [a, b] => simp [mghWrite, mghHeaderShape, mghImageShape]
  | [a, b, c] => simp [mghWrite, mghHeaderShape, mghImageShape]
  | [a, b, c, d] =>
      by_cases hd : d = 1
      · simp [mghWrite, mghHeaderShape, mghImageShape, hd]
      · simp [mghWrite, mghHeaderShape, mghImageShape, hd]
  | a :: b :: c :: d :: x :: rest =>
      simp [mghWrite, mghHeaderShape, mghImageShape]

/-- KNOWN FINDING `mgh:single-frame-4d-shape`: a 4-D image whose last axis has length 1 is refused by
    `MGHImage._write_data` ("Data should be shape (x, y, z)"), because the header forgets the axis -/
theorem mgh_single_frame_4d_counterexample (hdr ftr : List Nat) (cw x y z : Nat) (A : List Nat → Elem) :
    mghHeaderShape [x, y, z, 1] = .ok [x, y, z] ∧
    mghWrite hdr ftr cw (mghImageShape [x, y, z, 1]) A = .error .headerData := by
  simp [mghWrite, mghHeaderShape, mghImageShape]

/-- `mgh_layout`: for every accepted shape the file is header (zero-filled to 284) ‖ big-endian data ‖
    footer: the data reads back exactly from offset 284, the footer starts at
    `get_footer_offset() = 284 + itemsize·n` and is intact, the header bytes are intact. -/
theorem mgh_layout (hdr ftr : List Nat) (cw k : Nat) (shape : List Nat) (A : List Nat → Elem) (file : List Nat)
    (hhdr : hdr.length ≤ mghDataOffset) (hcw : 0 < cw) (hk : 0 < k)
    (hA : ∀ i ∈ enumF shape, ElemOK cw k (A i))
    (hw : mghWrite hdr ftr cw shape A = .ok file) :
    readData file mghDataOffset .big cw k shape = .ok (shape, (enumF shape).map A) ∧
    file.drop (mghFooterOffset cw k shape) = ftr ∧
    file.take hdr.length = hdr ∧
    file.length = mghDataOffset + (cw * k) * shape.prod + ftr.length := by
  unfold mghWrite at hw
  split at hw
  · simp at hw
  · next hs hhs =>
    split at hw
    · simp at hw
    · next hne =>
      have hrank : shape ≠ [] := by
        intro h0; subst h0; simp [mghHeaderShape] at hhs; subst hhs; simp at hne
      have hfile : file = padTo mghDataOffset hdr ++ writeData .big cw shape A ++ ftr := by
        simpa using hw.symm
      have hpl := padTo_length mghDataOffset hdr hhdr
      have hdl := writeData_length .big cw k shape A hA
      subst hfile
      refine ⟨readData_block _ ftr mghDataOffset .big cw k shape A hpl hrank hcw hk hA, ?_, ?_, ?_⟩
      · have : (padTo mghDataOffset hdr ++ writeData .big cw shape A).length = mghFooterOffset cw k shape := by
          simp [hpl, hdl, mghFooterOffset, Nat.mul_comm]
        exact List.drop_left' this
      · simp [padTo, List.append_assoc, List.take_left']
      · simp [hpl, hdl, Nat.mul_comm, Nat.add_assoc]

example : ∃ f, mghWrite [1] [2, 2] 2 [2, 1, 3] (fun i => [i.getD 2 0]) = .ok f := ⟨_, rfl⟩
example : ∀ i ∈ enumF [2, 1, 3], ElemOK 2 1 ((fun i => [i.getD 2 0]) i) := by decide
example : (∃ f, mghWrite [] [] 1 (mghImageShape [5, 4]) (fun _ => [0]) = .ok f) :=
  (mgh_shape_accepted_iff [] [] 1 [5, 4] _).mpr (Or.inl (by decide))


/-! ### the `dtype=` save argument -/

/-- GLUE (holds by construction of `Hdr.setDType` / `saveDType`, which identify the byte orders; the statement
    with independent byte orders and an independent reader is `dtype_override_roundtrip_iff` below).
    `dtype_override_plan`: in `to_file_map(dtype=X)` the byte order the data are written in is the
    HEADER's, whatever dtype `X` is, in whatever byte order it is spelled (`np.dtype('>i2')`, `'<i2'`,
    `np.int16`, …); the written header announces exactly the dtype the writer was given; without an
    override that is the header's own dtype; and the image's header is left as it was before the call. -/
theorem dtype_override_plan (h : Hdr) (ovr : Option (DType × OrderSpell)) :
    (saveDType h ovr).1.2 = h.endian ∧
    (saveDType h ovr).2.1.endian = h.endian ∧
    (saveDType h ovr).1.1 = (saveDType h ovr).2.1.dtype ∧
    (saveDType h ovr).1.1 = (match ovr with | some (t, _) => t | none => h.dtype) ∧
    (saveDType h ovr).2.2 = h := by
  cases ovr with
  | none => simp [saveDType, Hdr.setDType, Hdr.getDType]
  | some p => obtain ⟨t, sp⟩ := p; simp [saveDType, Hdr.setDType, Hdr.getDType]

example : (saveDType ⟨.big, ⟨.float, 4, 1⟩⟩ (some (⟨.sint, 2, 1⟩, .little))).1 = (⟨.sint, 2, 1⟩, .big) := rfl

/-- GLUE (writer and reader both project the same `saveDType h ovr`; superseded by
    `dtype_override_uses_header_order` / `dtype_override_roundtrip_iff`, whose reader sees the disk only).
    `dtype_override_roundtrip`: a save with ANY `dtype=` override (or none) on a header of EITHER byte
    order, loaded back through the written header, returns the shape and the elements bit for bit. -/
theorem dtype_override_roundtrip (hb : List Nat) (offset : Nat) (h : Hdr) (ovr : Option (DType × OrderSpell))
    (shape : List Nat) (A : List Nat → Elem) (hh : hb.length ≤ offset) (hrank : shape ≠ [])
    (hcw : 0 < (saveDType h ovr).1.1.cw) (hk : 0 < (saveDType h ovr).1.1.k)
    (hA : ∀ i ∈ enumF shape, ElemOK (saveDType h ovr).1.1.cw (saveDType h ovr).1.1.k (A i)) :
    readFileDT (writeFileDT hb offset h ovr shape A) offset h ovr shape = .ok (shape, (enumF shape).map A) := by
  obtain ⟨h1, h2, h3, _, _⟩ := dtype_override_plan h ovr
  unfold readFileDT writeFileDT
  simp only []
  rw [← h3, h2, h1]
  exact roundtrip_bytes hb offset h.endian _ _ shape A hh hrank hcw hk hA

example : readFileDT (writeFileDT [9] 4 ⟨.big, ⟨.float, 4, 1⟩⟩ (some (⟨.sint, 2, 1⟩, .native)) [2, 1]
      (fun i => [i.getD 0 0 + 1])) 4 ⟨.big, ⟨.float, 4, 1⟩⟩ (some (⟨.sint, 2, 1⟩, .native)) [2, 1]
    = .ok ([2, 1], [[1], [2]]) :=
  dtype_override_roundtrip [9] 4 _ _ [2, 1] _ (by decide) (by decide) (by decide) (by decide) (by decide)

/-- the variant `out_dtype = np.dtype(dtype)` (the override's own, native, byte order reaches the writer)
    on a big-endian header of a little-endian machine: int16 1, 2 are read back as 256, 512 — while the
    modelled code returns 1, 2 -/
theorem dtype_override_native_order_counterexample :
    let h : Hdr := ⟨.big, ⟨.float, 4, 1⟩⟩
    let ovr := some ((⟨.sint, 2, 1⟩ : DType), OrderSpell.native)
    let p := saveDTypeNativeMutant .little h ovr
    readData (writeFile [] 0 p.1.2 p.1.1.cw [2] (fun i => [i.getD 0 0 + 1])) 0
        p.2.1.endian p.2.1.dtype.cw p.2.1.dtype.k [2] = .ok ([2], [[256], [512]]) ∧
    readFileDT (writeFileDT [] 0 h ovr [2] (fun i => [i.getD 0 0 + 1])) 0 h ovr [2] = .ok ([2], [[1], [2]]) := by
  intro h ovr p
  constructor <;> rfl

/-! ### the `dtype=` save argument with independent byte orders (audit item A) -/

/-- the tables of the working tree: per class, (dtype, code) of every dtype name the model knows -/
def genCodeTable (cls : String) : CodeTable :=
  match Gen.dtypeCodes.find? (fun c => c.1 = cls) with
  | some (_, l) => codeTableOfNames l
  | none => []

/-- `dtype_override_uses_header_order` ("if"): dtype OBJECTS carry their own byte order, the header a code and
    ITS byte order, and the reader is defined from what is on disk only (`readFileC`: written byte order + code).
    For every code table without clashes, whenever the writer is handed the header's order (the real policy, or an
    override that happens to be spelled in the header's order), ANY `dtype=` override on a header of EITHER order
    round-trips for every shape and every element; the written header announces (header order, code of the
    override); the image's header is left as it was. -/
theorem dtype_override_uses_header_order (tb : CodeTable) (hok : tb.okB = true) (pol : OrderPolicy) (h : HdrC)
    (d : NpDType) (c : Nat) (hc : codeOf tb d.t = some c) (hpol : pol = .header ∨ d.order = h.endian)
    (hb : List Nat) (offset : Nat) (shape : List Nat) (A : List Nat → Elem)
    (hh : hb.length ≤ offset) (hrank : shape ≠ []) (hcw : 0 < d.t.cw) (hk : 0 < d.t.k)
    (hA : ∀ i ∈ enumF shape, ElemOK d.t.cw d.t.k (A i)) :
    ∃ f wh hafter, saveDT tb pol h (some d) = .ok (⟨d.t, h.endian⟩, wh, hafter) ∧ hafter = h ∧
      wh = ⟨h.endian, c⟩ ∧
      writeFileC tb pol hb offset h (some d) shape A = .ok (f, wh) ∧
      readFileC tb f offset wh shape = .ok (shape, (enumF shape).map A) := by
  have hdc := codeTable_ok tb hok d.t c hc
  have hsave : saveDT tb pol h (some d) = .ok (⟨d.t, h.endian⟩, ⟨h.endian, c⟩, h) := by
    unfold saveDT HdrC.setDType HdrC.getDType
    simp only [hc, hdc]
    rcases hpol with hp | hp
    · subst hp; rfl
    · cases pol with
      | header => rfl
      | override =>
        have : d = ⟨d.t, h.endian⟩ := by cases d; simp_all
        simp only []
        rw [← this]
  refine ⟨writeFile hb offset h.endian d.t.cw shape A, ⟨h.endian, c⟩, h, hsave, rfl, rfl, ?_, ?_⟩
  · unfold writeFileC; rw [hsave]
  · unfold readFileC
    simp only [hdc]
    exact roundtrip_bytes hb offset h.endian d.t.cw d.t.k shape A hh hrank hcw hk hA

/-- one failing input per dtype: the single element (1, …, 1), written by the `override` policy -/
def overrideWitnessFails (tb : CodeTable) (t : DType) (c0 : Nat) (e e' : Endian) : Bool :=
  match writeFileC tb .override [] 0 ⟨e, c0⟩ (some ⟨t, e'⟩) [1] (fun _ => List.replicate t.k 1) with
  | .error _ => false
  | .ok (f, wh) =>
    match readFileC tb f 0 wh [1] with
    | .ok (sh, els) => !(sh == [1] && els == [List.replicate t.k 1])
    | .error _ => true

/-- "only if", witnesses: for EVERY class table of the working tree and EVERY dtype wider than one byte, the
    `override` policy with a dtype object of the other byte order than the header's stores (1, …, 1) so that it is
    read back as something else (finite domain: classes × dtypes × 2 orders; the witness is existential) -/
theorem dtype_override_other_order_fails :
    ∀ cls ∈ Gen.dtypeCodes.map (·.1), ∀ p ∈ genCodeTable cls, 2 ≤ p.1.cw →
      overrideWitnessFails (genCodeTable cls) p.1 p.2 .little .big = true ∧
      overrideWitnessFails (genCodeTable cls) p.1 p.2 .big .little = true := by
  decide

/-- the regenerated `_data_type_codes` tables: no two dtypes of a class share a code (codeOf / dtypeOfCode are
    mutually inverse on the table), every dtype name is one the model knows, every writable class has a table -/
theorem code_tables_generated :
    (∀ cls ∈ Gen.dtypeCodes.map (·.1), (genCodeTable cls).okB = true ∧
      (genCodeTable cls).length = ((Gen.dtypeCodes.find? (fun c => c.1 = cls)).map (·.2.length)).getD 0) ∧
    (∀ c ∈ Gen.classes, c.1 ∈ Gen.dtypeCodes.map (·.1)) := by
  decide

/-- `dtype_override_roundtrip_iff`: over the tables of the working tree, for a dtype wider than one byte:
    `to_file_map(dtype=X)` round-trips for ALL headers, offsets, shapes and data IF AND ONLY IF the writer uses the
    header's byte order (policy `header`) or X is spelled in that order anyway.  A writer / reader pair that agree
    "by construction" cannot prove this: the reader here never sees `saveDT`. -/
theorem dtype_override_roundtrip_iff (cls : String) (hcls : cls ∈ Gen.dtypeCodes.map (·.1)) (p : DType × Nat)
    (hp : p ∈ genCodeTable cls) (hcw : 2 ≤ p.1.cw) (hk : 0 < p.1.k) (pol : OrderPolicy) (e e' : Endian) :
    (∀ (c0 : Nat) (hb : List Nat) (offset : Nat) (shape : List Nat) (A : List Nat → Elem),
        hb.length ≤ offset → shape ≠ [] → (∀ i ∈ enumF shape, ElemOK p.1.cw p.1.k (A i)) →
        ∃ f wh, writeFileC (genCodeTable cls) pol hb offset ⟨e, c0⟩ (some ⟨p.1, e'⟩) shape A = .ok (f, wh) ∧
          readFileC (genCodeTable cls) f offset wh shape = .ok (shape, (enumF shape).map A))
    ↔ (pol = .header ∨ e' = e) := by
  have hok := ((code_tables_generated).1 cls hcls).1
  constructor
  · intro H
    cases pol with
    | header => exact Or.inl rfl
    | override =>
      right
      have hw := dtype_override_other_order_fails cls hcls p hp hcw
      have hel : ∀ i ∈ enumF [1], ElemOK p.1.cw p.1.k ((fun _ => List.replicate p.1.k 1) i) := by
        intro i _
        refine ⟨by simp, ?_⟩
        intro c hc
        have : c = 1 := by simpa using (List.eq_of_mem_replicate hc)
        subst this
        exact Nat.one_lt_pow (by omega) (by decide)
      obtain ⟨f, wh, hwr, hrd⟩ := H p.2 [] 0 [1] (fun _ => List.replicate p.1.k 1) (by simp) (by simp) hel
      cases e <;> cases e'
      · rfl
      · have h1 := hw.1
        unfold overrideWitnessFails at h1
        rw [hwr] at h1
        simp only [] at h1
        rw [hrd] at h1
        simp [enumF] at h1
      · have h1 := hw.2
        unfold overrideWitnessFails at h1
        rw [hwr] at h1
        simp only [] at h1
        rw [hrd] at h1
        simp [enumF] at h1
      · rfl
  · intro hpol c0 hb offset shape A hh hrank hA
    have hc : codeOf (genCodeTable cls) p.1 = some p.2 := by
      have := hok
      unfold CodeTable.okB at this
      rw [List.all_eq_true] at this
      have h2 := this p hp
      simp only [Bool.and_eq_true, beq_iff_eq] at h2
      exact h2.2
    have hpol' : pol = .header ∨ (⟨p.1, e'⟩ : NpDType).order = (⟨e, c0⟩ : HdrC).endian := hpol
    obtain ⟨f, wh, _, _, _, _, hwr, hrd⟩ :=
      dtype_override_uses_header_order (genCodeTable cls) hok pol ⟨e, c0⟩ ⟨p.1, e'⟩ p.2 hc hpol' hb offset shape A hh hrank
        (by simp only []; omega) hk hA
    exact ⟨f, wh, hwr, hrd⟩


example : (⟨.sint, 2, 1⟩, 4) ∈ genCodeTable "Nifti1Pair" := by decide
example : writeFileC (genCodeTable "Nifti1Pair") .header [] 0 ⟨.big, 16⟩ (some ⟨⟨.sint, 2, 1⟩, .little⟩) [2]
      (fun i => [i.getD 0 0 + 1]) = .ok ([0, 1, 0, 2], ⟨.big, 4⟩) := rfl
example : readFileC (genCodeTable "Nifti1Pair") [0, 1, 0, 2] 0 ⟨.big, 4⟩ [2] = .ok ([2], [[1], [2]]) := rfl
example : writeFileC (genCodeTable "Nifti1Pair") .override [] 0 ⟨.big, 16⟩ (some ⟨⟨.sint, 2, 1⟩, .little⟩) [2]
      (fun i => [i.getD 0 0 + 1]) = .ok ([1, 0, 2, 0], ⟨.big, 4⟩) := rfl

/-! ### a loaded image saved over its own file -/

/-- `resave_in_place` (COROLLARY of `roundtrip_bytes`: write ∘ read ∘ write = write, with `copyFirst` a free
    Boolean fixed to true): IF the voxel data are materialised before the target is opened for writing, the file
    written is byte for byte the file that was loaded, and it reads back to the elements originally saved.
    The DECISION to materialise is `maps_file`; the theorem that imports it is `resave_view_in_place` (a
    weakened guard breaks that one).  File names do not occur in the model: that every spelling of the path
    behaves alike is checked by the `resave` stream only. -/
theorem resave_in_place (hb : List Nat) (offset : Nat) (e : Endian) (cw k : Nat) (shape : List Nat)
    (A : List Nat → Elem) (hh : hb.length ≤ offset) (hrank : shape ≠ []) (hcw : 0 < cw) (hk : 0 < k)
    (hA : ∀ i ∈ enumF shape, ElemOK cw k (A i)) :
    resave hb offset e cw k shape A true = .ok (writeFile hb offset e cw shape A) ∧
    ∀ f, resave hb offset e cw k shape A true = .ok f →
      readData f offset e cw k shape = .ok (shape, (enumF shape).map A) := by
  have hrt := roundtrip_bytes hb offset e cw k shape A hh hrank hcw hk hA
  have h1 : resave hb offset e cw k shape A true = .ok (writeFile hb offset e cw shape A) := by
    unfold resave
    simp only [if_true, hrt]
    unfold writeFile
    rw [writeData_loaded]
  refine ⟨h1, ?_⟩
  intro f hf
  rw [h1] at hf
  cases hf
  exact hrt

example : resave [7] 2 .little 2 1 [2, 2] (fun i => [i.getD 0 0 + 2 * i.getD 1 0]) true
    = .ok [7, 0, 0, 0, 1, 0, 2, 0, 3, 0] :=
  (resave_in_place [7] 2 .little 2 1 [2, 2] (fun i => [i.getD 0 0 + 2 * i.getD 1 0]) (by decide)
    (by decide) (by decide) (by decide) (by decide)).1.trans rfl

/-- were the data taken from the file only AFTER `open(name, 'wb')` truncated it (a memory map that is
    not copied first), nothing of a non-empty image is left to write: the model refuses; the real
    process writes zeros/garbage or dies with SIGBUS -/
theorem resave_lazy_counterexample (hb : List Nat) (offset : Nat) (e : Endian) (cw k : Nat) (shape : List Nat)
    (A : List Nat → Elem) (hrank : shape ≠ []) (hn : shape.prod * (cw * k) ≠ 0) :
    resave hb offset e cw k shape A false = .error .short := by
  unfold resave
  simp only [Bool.false_eq_true, if_false]
  rw [readData_short [] offset e cw k shape hrank hn (by simp; omega)]

example : resave [] 0 .big 1 1 [3] (fun _ => [5]) false = .error .short :=
  resave_lazy_counterexample [] 0 .big 1 1 [3] _ (by decide) (by decide)

/-- the same for MGH (header ‖ data ‖ footer): re-saving a loaded `.mgh` over itself rewrites the same file -/
theorem mgh_resave_in_place (hdr ftr : List Nat) (cw k : Nat) (shape : List Nat) (A : List Nat → Elem)
    (file : List Nat) (hhdr : hdr.length ≤ mghDataOffset) (hcw : 0 < cw) (hk : 0 < k)
    (hA : ∀ i ∈ enumF shape, ElemOK cw k (A i))
    (hw : mghWrite hdr ftr cw shape A = .ok file) :
    mghResave hdr ftr cw k shape A true = .ok file := by
  have hrd := (mgh_layout hdr ftr cw k shape A file hhdr hcw hk hA hw).1
  have hcongr : mghWrite hdr ftr cw shape (loadedAt shape ((enumF shape).map A)) = mghWrite hdr ftr cw shape A := by
    unfold mghWrite
    rw [writeData_loaded]
  unfold mghResave
  simp only [hw, if_true, hrd, hcongr]

example : ∃ f, mghWrite [1] [2] 1 [2, 1, 2] (fun i => [i.getD 0 0]) = .ok f ∧
    mghResave [1] [2] 1 1 [2, 1, 2] (fun i => [i.getD 0 0]) true = .ok f :=
  ⟨_, rfl, mgh_resave_in_place [1] [2] 1 1 [2, 1, 2] _ _ (by decide) (by decide) (by decide) (by decide) rfl⟩

/-! ### views of memory maps -/

/-- `maps_file_iff`: the guard `maps_file` answers True exactly for the arrays that still read from a mapped
    file: those with an `np.memmap` or an `mmap.mmap` ANYWHERE in the chain of owners of their memory — however
    long the chain and whatever it passes through (`np.asarray`, `.view(np.ndarray)`, slices, transposes,
    `ascontiguousarray`, the memoryview of `np.frombuffer(mmap)`, the array-interface holder of `as_strided` …) -/
theorem maps_file_iff (chain : List BaseNode) : mapsFile chain = true ↔ ReachesMap chain := by
  unfold ReachesMap
  induction chain with
  | nil => simp [mapsFile]
  | cons n rest ih =>
    cases n <;> simp [mapsFile, ih]

example : ReachesMap [.ndarray, .memview, .mmapBuf] := ⟨.mmapBuf, by simp, Or.inr rfl⟩
example : mapsFile [.ndarray, .other, .ndarray, .memmap, .mmapBuf] = true := rfl

/-- the guard of ae98171b (chain followed through ndarrays only) answered True exactly for maps reached through
    plain arrays; those are still guarded (`ReachesMapThroughArrays → ReachesMap`), and the repaired guard covers
    strictly more: `np.frombuffer(mmap)` (array → memoryview → mmap) is the witness -/
theorem maps_file_arrays_only_counterexample :
    (∀ chain, mapsFileArraysOnly chain = true ↔ ReachesMapThroughArrays chain) ∧
    (∀ chain, ReachesMapThroughArrays chain → mapsFile chain = true) ∧
    ReachesMap [.ndarray, .memview, .mmapBuf] ∧ mapsFileArraysOnly [.ndarray, .memview, .mmapBuf] = false ∧
    mapsFile [.ndarray, .memview, .mmapBuf] = true :=
  ⟨maps_file_arrays_only_iff,
   fun chain h => (maps_file_iff chain).mpr (reachesMap_of_throughArrays chain h),
   ⟨.mmapBuf, by simp, Or.inr rfl⟩, rfl, rfl⟩

/-- `resave_view_in_place`: an image wrapping ANY chain of views of the data of a loaded image, saved over the
    file the data map (`mapped`): the copy-before-truncate decision is `maps_file` (imported, not assumed), and
    the file written is byte for byte the file loaded.  Data not mapped need no copy.  A weaker guard breaks it:
    `maps_file_orig_counterexample`, `resave_arrays_only_counterexample`. -/
theorem resave_view_in_place (hb : List Nat) (offset : Nat) (e : Endian) (cw k : Nat) (shape : List Nat)
    (A : List Nat → Elem) (mapped : Bool) (chain : List BaseNode)
    (hh : hb.length ≤ offset) (hrank : shape ≠ []) (hcw : 0 < cw) (hk : 0 < k)
    (hA : ∀ i ∈ enumF shape, ElemOK cw k (A i))
    (hmap : mapped = true → ReachesMap chain) :
    resaveVia mapsFile hb offset e cw k shape A mapped chain = .ok (writeFile hb offset e cw shape A) ∧
    ∀ f, resaveVia mapsFile hb offset e cw k shape A mapped chain = .ok f →
      readData f offset e cw k shape = .ok (shape, (enumF shape).map A) := by
  have hc : (!mapped || mapsFile chain) = true := by
    cases mapped with
    | false => rfl
    | true => simpa using (maps_file_iff chain).mpr (hmap rfl)
  unfold resaveVia
  rw [hc]
  exact resave_in_place hb offset e cw k shape A hh hrank hcw hk hA

example : resaveVia mapsFile [7] 2 .little 1 1 [2] (fun i => [i.getD 0 0 + 3]) true [.ndarray, .memmap, .mmapBuf]
    = .ok [7, 0, 3, 4] := rfl
example : resaveVia mapsFile [7] 2 .little 1 1 [2] (fun i => [i.getD 0 0 + 3]) false [.ndarray]
    = .ok [7, 0, 3, 4] := rfl

/-- the same for MGH -/
theorem mgh_resave_view_in_place (hdr ftr : List Nat) (cw k : Nat) (shape : List Nat) (A : List Nat → Elem)
    (file : List Nat) (mapped : Bool) (chain : List BaseNode)
    (hhdr : hdr.length ≤ mghDataOffset) (hcw : 0 < cw) (hk : 0 < k)
    (hA : ∀ i ∈ enumF shape, ElemOK cw k (A i))
    (hw : mghWrite hdr ftr cw shape A = .ok file)
    (hmap : mapped = true → ReachesMap chain) :
    mghResave hdr ftr cw k shape A (!mapped || mapsFile chain) = .ok file := by
  have hc : (!mapped || mapsFile chain) = true := by
    cases mapped with
    | false => rfl
    | true => simpa using (maps_file_iff chain).mpr (hmap rfl)
  rw [hc]
  exact mgh_resave_in_place hdr ftr cw k shape A file hhdr hcw hk hA hw

example : mghResave [1] [2] 1 1 [2, 1, 2] (fun i => [i.getD 0 0]) (!true || mapsFile [.ndarray, .memmap]) =
    mghWrite [1] [2] 1 [2, 1, 2] (fun i => [i.getD 0 0]) := rfl

/-- the guard before `fix: copy data viewed from a memory map …` tested `isinstance(data, np.memmap)` only:
    `np.asarray(img.dataobj)` (chain ndarray → memmap → mmap) slipped through and the file was truncated under
    the mapping (model: refusal; real process: SIGBUS / destroyed file) -/
theorem maps_file_orig_counterexample (hb : List Nat) (offset : Nat) (e : Endian) (cw k : Nat) (shape : List Nat)
    (A : List Nat → Elem) (hrank : shape ≠ []) (hn : shape.prod * (cw * k) ≠ 0) :
    ReachesMap [.ndarray, .memmap, .mmapBuf] ∧
    resaveVia mapsFileOrig hb offset e cw k shape A true [.ndarray, .memmap, .mmapBuf] = .error .short :=
  ⟨⟨.memmap, by simp, Or.inl rfl⟩, resave_lazy_counterexample hb offset e cw k shape A hrank hn⟩

/-- the guard between the two fixes let `np.frombuffer(mmap)` through (finding repaired by
    `fix: maps_file follows memoryview and array-interface owners to the memory map`) -/
theorem resave_arrays_only_counterexample (hb : List Nat) (offset : Nat) (e : Endian) (cw k : Nat) (shape : List Nat)
    (A : List Nat → Elem) (hrank : shape ≠ []) (hn : shape.prod * (cw * k) ≠ 0) :
    resaveVia mapsFileArraysOnly hb offset e cw k shape A true [.ndarray, .memview, .mmapBuf] = .error .short :=
  resave_lazy_counterexample hb offset e cw k shape A hrank hn

/-! ### float / complex on-disk types, and no cast at all -/

/-- `float_out_never_scaled`: for a float or complex on-disk type the writers never ask for scaling
    (complex input needs a complex output; structured RGB dtypes are excluded) — whatever the values,
    NaN and ±inf included: the direct `astype` path is taken -/
theorem float_out_never_scaled (a o : DType) (size : Nat) (r : Range)
    (ha : a.kind ≠ .void) (ho : o.kind = .float ∨ o.kind = .complex)
    (hc : a.kind = .complex → o.kind = .complex) :
    scalingNeededBase a o size r = .ok false ∧ scalingNeededSlope a o size r = .ok false := by
  have hb : scalingNeededBase a o size r = .ok false := by
    unfold scalingNeededBase
    have hov : o.kind ≠ .void := by rcases ho with h | h <;> rw [h] <;> decide
    rw [if_neg (by intro h; rcases h with h | h <;> contradiction)]
    by_cases hcc : canCast a o = true
    · rw [if_pos hcc]
    · rw [if_neg hcc]
      by_cases hoc : o.kind = .complex
      · rw [if_pos hoc]
      · rw [if_neg hoc]
        have hof : o.kind = .float := by rcases ho with h | h; exact h; contradiction
        have hac : a.kind ≠ .complex := fun h => hoc (hc h)
        rw [if_neg hac, if_pos hof]
  exact ⟨hb, by unfold scalingNeededSlope; rw [hb]⟩

example : scalingNeededBase ⟨.sint, 8, 1⟩ ⟨.float, 4, 1⟩ 3 (.ints (-9223372036854775808) 9223372036854775807)
    = .ok false :=
  (float_out_never_scaled _ _ _ _ (by decide) (Or.inl rfl) (by decide)).1

/-- `same_dtype_exact`: with the on-disk dtype equal to the input dtype (any kind: integer, float,
    complex, RGB/RGBA) no scaling is asked for, and every element — as a tuple of raw bit patterns, so NaN
    payloads, ±inf, −0.0 are ordinary values — survives encode/decode in either byte order -/
theorem same_dtype_exact (t : DType) (size : Nat) (r : Range) (e : Endian) (x : Elem)
    (hx : ElemOK t.cw t.k x) :
    scalingNeededBase t t size r = .ok false ∧ scalingNeededSlope t t size r = .ok false ∧
    decElem e t.cw t.k (encElem e t.cw x) = x := by
  have hb : scalingNeededBase t t size r = .ok false := by
    unfold scalingNeededBase
    by_cases hv : t.kind = .void
    · simp [hv]
    · have hcc : canCast t t = true := by
        unfold canCast
        cases hk : t.kind <;> simp_all
      simp [hv, hcc]
  exact ⟨hb, by unfold scalingNeededSlope; rw [hb], decElem_encElem e t.cw t.k x hx⟩

example : ElemOK (⟨.complex, 4, 2⟩ : DType).cw (⟨.complex, 4, 2⟩ : DType).k [0x7fc00001, 0xff800000] :=
  ⟨rfl, by decide⟩


/-! ### the shape fields of the header -/

/-- `shape_roundtrip`: whatever shape `set_data_shape` accepts, `get_data_shape` gives back — except,
    for NIfTI-1, a shape that begins (27307, 1, 6), which is the stored form of the ico7 convention -/
theorem shape_roundtrip (r : ShapeRule) (dimMax glminMax : Nat) (shape : List Nat) (f : ShapeFields)
    (halias : r = .nifti1 → shape.take 3 ≠ [27307, 1, 6])
    (hset : setShape r dimMax glminMax shape = .ok f) :
    getShape r f = .ok (natsToInts shape) := by
  cases r with
  | analyze => simp only [setShape] at hset; rw [storeDims_ok _ _ _ _ hset]; rfl
  | nifti2 => simp only [setShape] at hset; rw [storeDims_ok _ _ _ _ hset]; rfl
  | nifti1 =>
    have hal := halias rfl
    simp only [setShape] at hset
    split at hset
    · next h1 =>
      rw [storeDims_ok _ _ _ _ hset]
      have : shape = [163842, 1, 1] ++ shape.drop 3 := by
        conv => lhs; rw [← List.take_append_drop 3 shape, h1]
      rw [this]
      simp [getShape, natsToInts]
    · next h1 =>
      split at hset
      · next h2 =>
        obtain ⟨hlen, h11, hbig⟩ := h2
        split at hset
        · cases hset
        · rw [storeDims_ok _ _ _ _ hset]
          match shape, hlen, h11, hbig with
          | a :: b :: c :: rest, _, h11, hbig =>
            simp at h11
            obtain ⟨hb, hc⟩ := h11
            subst hb; subst hc
            simp at hbig
            have ha : a ≠ 0 := by omega
            simp [getShape, natsToInts, ha]
      · next h2 =>
        rw [storeDims_ok _ _ _ _ hset]
        unfold getShape
        simp only []
        have hneg : (natsToInts shape).take 3 ≠ [-1, 1, 1] := by
          rw [natsToInts_take]
          intro h
          match hs : shape.take 3, h with
          | [], h => simp [natsToInts] at h
          | x :: _, h => simp [natsToInts] at h
        have hico : (natsToInts shape).take 3 ≠ [27307, 1, 6] := by
          rw [natsToInts_take]
          intro h
          exact hal (natsToInts_inj _ [27307, 1, 6] h)
        rw [if_neg hneg, if_neg hico]

-- non-vacuity: an ordinary shape, the ico7 convention, the long-vector convention (N > 32767 in `glmin`)
example : setShape .nifti1 32767 2147483647 [2, 1, 3] = .ok ⟨[2, 1, 3], 0⟩ := rfl
example : setShape .nifti1 32767 2147483647 [163842, 1, 1, 2] = .ok ⟨[27307, 1, 6, 2], 0⟩ := rfl
example : setShape .nifti1 32767 2147483647 [131072, 1, 1] = .ok ⟨[-1, 1, 1], 131072⟩ := rfl
example : getShape .nifti1 ⟨[-1, 1, 1], 131072⟩ = .ok (natsToInts [131072, 1, 1]) :=
  shape_roundtrip .nifti1 32767 2147483647 [131072, 1, 1] _ (by decide) rfl
example : setShape .analyze 32767 2147483647 [32768, 1, 1] = .error .headerData := rfl

/-- FINDING `nifti1:ico7-shape-alias`: a NIfTI-1 image whose shape begins (27307, 1, 6) is stored like the
    FreeSurfer ico7 convention stores (163842, 1, 1) and is therefore loaded with THAT shape (same number of
    elements, different shape); NIfTI-2 keeps it -/
theorem nifti1_ico7_alias_counterexample :
    setShape .nifti1 32767 2147483647 [27307, 1, 6] = .ok ⟨[27307, 1, 6], 0⟩ ∧
    getShape .nifti1 ⟨[27307, 1, 6], 0⟩ = .ok [163842, 1, 1] ∧
    getShape .nifti2 ⟨[27307, 1, 6], 0⟩ = .ok [27307, 1, 6] := by
  refine ⟨rfl, rfl, rfl⟩

/-- the regenerated limits of the `dim` / `glmin` fields are the ones the examples above use, and every
    writable Analyze-family class has a shape rule the model knows -/
theorem shape_rules_generated :
    (∀ en ∈ Gen.shapeRules, (en.2.1 = "analyze" ∨ en.2.1 = "nifti1" ∨ en.2.1 = "nifti2") ∧
      (en.2.1 ≠ "nifti2" → en.2.2.1 = 32767) ∧ (en.2.1 = "nifti1" → en.2.2.2 = 2147483647)) ∧
    (∀ c ∈ Gen.classes, c.2.1 ≠ "mgh" → ∃ en ∈ Gen.shapeRules, en.1 = c.1) := by
  decide

/-- the hand-typed MGH constants of the model are the regenerated ones: `MGHImage` is the only class of
    layout "mgh"; its data offset (`DATA_OFFSET` of mghformat.py) is `mghDataOffset` and the header bytes
    `writehdr_to` really writes fit before it (hypothesis `hhdr` of `mgh_layout`), so `mgh_layout` speaks
    about the offsets of the working tree -/
theorem mgh_constants_generated :
    (∀ c ∈ Gen.classes, c.2.1 = "mgh" → c.1 = "MGHImage" ∧ c.2.2.1 ≤ mghDataOffset ∧ c.2.2.2.1 = mghDataOffset) ∧
    (∃ c ∈ Gen.classes, c.2.1 = "mgh") := by
  decide

/-! ### a header REUSED from another image -/

/-- `header_shape_follows_data`: whatever state the header was in when the image got it — fresh, copied from
    an image of ANY other shape (trailing or leading length-1 axes more or fewer, another rank, other lengths, the
    same number of elements), carrying a stale `glmin` or one of the FreeSurfer conventions — after
    `update_header` (run by the constructor and again by every `to_file_map`) the header reports exactly the
    shape of the DATA (rank ≥ 1; NIfTI-1 shapes beginning (27307, 1, 6) are the open ico7 alias finding). -/
theorem header_shape_follows_data (r : ShapeRule) (dimMax glminMax : Nat) (f0 f : ShapeFields) (shape : List Nat)
    (hrank : shape ≠ [])
    (halias : r = .nifti1 → shape.take 3 ≠ [27307, 1, 6])
    (hup : updateHeaderShape r dimMax glminMax f0 shape = .ok f) :
    hdrGetShape r f = .ok (natsToInts shape) := by
  unfold updateHeaderShape at hup
  split at hup
  · cases hup
  · next hs hget =>
    split at hup
    · next heq =>
      cases hup
      rw [hget, heq]
    · obtain ⟨hg, hl⟩ := setShapeOn_get r dimMax glminMax f0 shape f halias hup
      unfold hdrGetShape
      have : f.dims ≠ [] := by
        intro h0
        rw [h0] at hl
        cases shape with
        | nil => exact hrank rfl
        | cons a t => simp at hl
      rw [if_neg this, hg]

-- non-vacuity: the header of a single-volume 4-D image reused for its 3-D volume; a header that is already right;
-- a long-vector NIfTI-1 header (dim[1] = -1, glmin = N) reused for an ordinary volume
example : updateHeaderShape .nifti1 32767 2147483647 ⟨[2, 3, 4, 1], 0⟩ [2, 3, 4] = .ok ⟨[2, 3, 4], 0⟩ := rfl
example : updateHeaderShape .analyze 32767 2147483647 ⟨[2, 3, 4], 0⟩ [2, 3, 4] = .ok ⟨[2, 3, 4], 0⟩ := rfl
example : updateHeaderShape .nifti1 32767 2147483647 ⟨[-1, 1, 1], 70000⟩ [2, 3] = .ok ⟨[2, 3], 70000⟩ := rfl
example : hdrGetShape .nifti1 ⟨[2, 3, 4], 0⟩ = .ok (natsToInts [2, 3, 4]) :=
  header_shape_follows_data .nifti1 32767 2147483647 ⟨[2, 3, 4, 1], 0⟩ _ [2, 3, 4] (by decide) (by decide) rfl

/-- `reused_header_roundtrip`: the round trip with a reused header: the reader takes the shape from the header
    `update_header` produced from ANY prior header state, and gets back the shape and the elements of the data -/
theorem reused_header_roundtrip (r : ShapeRule) (dimMax glminMax : Nat) (f0 f : ShapeFields)
    (h : List Nat) (offset : Nat) (e : Endian) (cw k : Nat) (shape : List Nat) (A : List Nat → Elem)
    (hh : h.length ≤ offset) (hrank : shape ≠ []) (hcw : 0 < cw) (hk : 0 < k)
    (hA : ∀ i ∈ enumF shape, ElemOK cw k (A i))
    (halias : r = .nifti1 → shape.take 3 ≠ [27307, 1, 6])
    (hup : updateHeaderShape r dimMax glminMax f0 shape = .ok f) :
    ∃ hs, hdrGetShape r f = .ok hs ∧
      readData (writeFile h offset e cw shape A) offset e cw k (hs.map Int.toNat)
        = .ok (shape, (enumF shape).map A) := by
  refine ⟨natsToInts shape, header_shape_follows_data r dimMax glminMax f0 f shape hrank halias hup, ?_⟩
  rw [natsToInts_toNat]
  exact roundtrip_bytes h offset e cw k shape A hh hrank hcw hk hA

example : ∃ hs, hdrGetShape .nifti2 ⟨[2, 1], 0⟩ = .ok hs ∧
    readData (writeFile [9] 2 .big 1 [2, 1] (fun i => [i.getD 0 0 + 5])) 2 .big 1 1 (hs.map Int.toNat)
      = .ok ([2, 1], [[5], [6]]) :=
  reused_header_roundtrip .nifti2 32767 0 ⟨[2, 1, 1, 1], 0⟩ _ [9] 2 .big 1 1 [2, 1] _ (by decide) (by decide)
    (by decide) (by decide) (by decide) (by decide) rfl

/-- the seeded "tolerant" `update_header` (header left alone when it only has extra trailing length-1 axes):
    the header of a (2,3,4,1) image reused for (2,3,4) data keeps announcing (2,3,4,1) — under every shape rule —
    while the modelled code rewrites it to (2,3,4) -/
theorem update_header_tolerant_counterexample (r : ShapeRule) :
    updateHeaderShapeTolerant r 32767 2147483647 ⟨[2, 3, 4, 1], 0⟩ [2, 3, 4] = .ok ⟨[2, 3, 4, 1], 0⟩ ∧
    hdrGetShape r ⟨[2, 3, 4, 1], 0⟩ = .ok [2, 3, 4, 1] ∧
    updateHeaderShape r 32767 2147483647 ⟨[2, 3, 4, 1], 0⟩ [2, 3, 4] = .ok ⟨[2, 3, 4], 0⟩ := by
  cases r <;> exact ⟨rfl, rfl, rfl⟩

/-- `from_header_state`: what `header_class.from_header(donor)` hands to the image.  Same header class: the
    donor itself (byte order, dtype, every field).  Another class: REFUSED (HeaderDataError) when the target class
    has no code for the donor's dtype (`supports`, regenerated `Gen.dtypeCodes`) or cannot hold the donor's shape;
    otherwise a NATIVE-order header with the donor's dtype — which the target supports — reporting the donor's
    shape. -/
theorem from_header_state (same : Bool) (native : Endian) (r : ShapeRule) (dimMax glminMax : Nat)
    (supports : DType → Bool) (dg : Bool) (donor : HdrState) (donorShape : List Nat)
    (halias : r = .nifti1 → donorShape.take 3 ≠ [27307, 1, 6]) :
    (same = true → fromHeader same native r dimMax glminMax supports dg donor donorShape = .ok donor) ∧
    (same = false → supports donor.dtype = false →
      fromHeader same native r dimMax glminMax supports dg donor donorShape = .error .headerData) ∧
    (∀ h', fromHeader same native r dimMax glminMax supports dg donor donorShape = .ok h' →
      h'.dtype = donor.dtype ∧
      (same = false → supports h'.dtype = true ∧ h'.endian = native ∧
        getShape r h'.fields = .ok (natsToInts donorShape))) := by
  refine ⟨?_, ?_, ?_⟩
  · intro hs; subst hs; rfl
  · intro hs hsup; subst hs; simp [fromHeader, hsup]
  · intro h' hconv
    unfold fromHeader at hconv
    cases same with
    | true => simp at hconv; subst hconv; simp
    | false =>
      simp only [Bool.false_eq_true, if_false] at hconv
      split at hconv
      · cases hconv
      · next hsup =>
        split at hconv
        · cases hconv
        · next f hf =>
          cases hconv
          refine ⟨rfl, fun _ => ⟨by simpa using hsup, rfl, ?_⟩⟩
          exact (setShapeOn_get r dimMax glminMax _ donorShape f halias hf).1

example : fromHeader false .little .nifti1 32767 2147483647 (fun _ => true) true
      ⟨.big, ⟨.sint, 2, 1⟩, ⟨[70000, 1, 1], 0⟩⟩ [70000, 1, 1]
    = .ok ⟨.little, ⟨.sint, 2, 1⟩, ⟨[-1, 1, 1], 70000⟩⟩ := rfl
example : fromHeader false .little .analyze 32767 2147483647 (fun _ => true) true
      ⟨.big, ⟨.sint, 2, 1⟩, ⟨[-1, 1, 1], 70000⟩⟩ [70000, 1, 1]
    = .error .headerData := rfl
-- a NIfTI int8 header handed to an Analyze image: no code for int8 in the Analyze table
example : fromHeader false .little .analyze 32767 2147483647
      (fun t => (codeOf (genCodeTable "AnalyzeImage") t).isSome) true ⟨.big, ⟨.sint, 1, 1⟩, ⟨[2, 3], 0⟩⟩ [2, 3]
    = .error .headerData := rfl
example : (codeOf (genCodeTable "AnalyzeImage") ⟨.sint, 2, 1⟩).isSome = true := by decide

/-- MGH: the header shape after `update_header` and the file written do not depend on what the (4-number)
    `dims` field held before — `mgh_layout` / `mgh_shape_accepted_iff` speak about reused headers too -/
theorem mgh_donor_irrelevant (dims0 hdr ftr : List Nat) (cw : Nat) (s : List Nat) (A : List Nat → Elem)
    (h4 : dims0.length = 4) :
    (mghUpdate dims0 s).map mghGetShape = mghHeaderShape s ∧
    (mghWriteOn dims0 hdr ftr cw s A).map (·.2) = mghWrite hdr ftr cw s A :=
  ⟨mghUpdate_get dims0 s h4, mghWriteOn_eq dims0 hdr ftr cw s A h4⟩

example : mghWriteOn [2, 3, 4, 1] [1] [2] 1 [1, 1, 2, 2] (fun i => [i.getD 2 0]) 
    = .ok ([1, 1, 2, 2], padTo mghDataOffset [1] ++ [0, 1, 0, 1] ++ [2]) := rfl

/-- the regenerated tables the reused-header model consults: the header classes of the writable image classes
    are pairwise different (so "same header class" — the `type(header) == klass` test of `from_header` — is "same
    image class"), every class has one, and a fresh `MGHHeader` holds the `dims` the model starts from -/
theorem donor_tables_generated :
    (Gen.headerClasses.map (·.2)).Nodup ∧
    (∀ c ∈ Gen.classes, ∃ h ∈ Gen.headerClasses, h.1 = c.1) ∧
    Gen.mghFreshDims = mghFreshDims ∧ mghFreshDims.length = 4 := by
  decide

/-- one regenerated sample agrees with the model: data offset, and footer offset of the `dims` that
    `set_data_shape` stores -/
def mghFooterSampleOK (sm : Nat × Nat × List Nat × Nat × Nat) : Bool :=
  match mghSetDims sm.2.2.1 with
  | .ok dims => sm.2.2.2.1 == mghDataOffset && mghFooterOffset sm.1 sm.2.1 dims == sm.2.2.2.2
  | .error _ => false

/-- the hand-typed `mghFooterOffset` / `mghDataOffset` agree with `MGHHeader.get_footer_offset()` /
    `get_data_offset()` of the working tree on the regenerated samples (every MGH dtype × 3-D, 4-D, long and
    short shapes) — a sample tie; the general statement about the model is `mgh_layout` -/
theorem mgh_footer_offset_generated :
    (∀ sm ∈ Gen.mghFooterSamples, mghFooterSampleOK sm = true) ∧ Gen.mghFooterSamples.length ≥ 8 := by
  decide

/-! ### codec choice by file name (over the regenerated tables) -/

/-- `ImageOpener.compress_ext_map` as regenerated from the source -/
def genTable : List (String × Codec) := codecTableOf Gen.compressExtMap

/-- what a suffix is supposed to mean (hand-written, NOT derived from the source) -/
def canonicalCodec (ext suf : String) : Codec :=
  if suf = ".gz" then .gz else if suf = ".bz2" then .bz2 else if suf = ".zst" then .zst
  else if suf = "" ∧ ext = ".mgz" then .gz else .raw

/-- per-entry check evaluated on the generated table: the name tail `ext ++ suffix` has no slash, has a
    dot, and its last extension looks up (through `compress_ext_map`, case rule included) the canonical
    codec of the suffix -/
def entryCheck (en : String × String × String × String) : Bool :=
  let t := en.2.1.toList ++ en.2.2.1.toList
  (rfind '/' t == none) &&
    (match rfind '.' t with
     | some d => codecOfExt genTable Gen.compressExtIcase (t.drop d) == canonicalCodec en.2.1 en.2.2.1
     | none => false)

/-- `codec_by_suffix`: for EVERY root path whose last component has a character other than '.', and
    every (class, extension, compressed suffix) the image classes accept (regenerated table), the opener
    chosen for `root ++ ext ++ suffix` is the canonical codec of the suffix: `.gz`/`.mgz` gzip, `.bz2`
    bzip2, `.zst` zstd, anything else a plain file. -/
theorem codec_by_suffix (root : List Char) (hroot : ∃ c ∈ baseName root, c ≠ '.') :
    ∀ en ∈ Gen.dataFileNames,
      codecFor genTable Gen.compressExtIcase (root ++ (en.2.1.toList ++ en.2.2.1.toList))
        = canonicalCodec en.2.1 en.2.2.1 := by
  intro en hen
  have hall : ∀ en ∈ Gen.dataFileNames, entryCheck en = true := by decide
  have hc := hall en hen
  unfold entryCheck at hc
  simp only [Bool.and_eq_true, beq_iff_eq] at hc
  obtain ⟨hs, hm⟩ := hc
  split at hm
  · next d hd =>
    unfold codecFor
    rw [splitExt_append root _ d hroot hs hd]
    simpa using hm
  · simp at hm

example : ∃ c ∈ baseName "/data/sub-01.anat/T1w".toList, c ≠ '.' := ⟨'T', by decide, by decide⟩
example : ("MGHImage", ".mgz", "", "gz") ∈ Gen.dataFileNames := by decide
example : ("Nifti1Pair", ".img", ".bz2", "bz2") ∈ Gen.dataFileNames := by decide

/-- `codec_same_for_read_and_write`: the file object opened for writing (`'wb'`) and the one opened for
    reading (`'rb'`) use the same codec — the canonical one — for every name of the table family.
    GLUE: `Opener.__init__` takes the opener from `_get_opener_argnames(fileish)`, which never sees the
    mode (`openerInit` passes it on untouched), so this is `codec_by_suffix` stated twice; the content of
    the clause is `codec_by_suffix` plus the `opener` correspondence stream (the file objects really
    opened for 'wb' and 'rb'). -/
theorem codec_same_for_read_and_write (root : List Char) (hroot : ∃ c ∈ baseName root, c ≠ '.') :
    ∀ en ∈ Gen.dataFileNames,
      let name := root ++ (en.2.1.toList ++ en.2.2.1.toList)
      (openerInit genTable Gen.compressExtIcase .wb name).1 = canonicalCodec en.2.1 en.2.2.1 ∧
      (openerInit genTable Gen.compressExtIcase .rb name).1 = canonicalCodec en.2.1 en.2.2.1 := by
  intro en hen
  exact ⟨codec_by_suffix root hroot en hen, codec_by_suffix root hroot en hen⟩

/-- the codec column of the regenerated name table (`compress_ext_map[suffix or extension]`) is the
    canonical codec, and every codec name of `compress_ext_map` is one the model knows -/
theorem table_codecs_canonical :
    (∀ en ∈ Gen.dataFileNames, codecOfName en.2.2.2 = some (canonicalCodec en.2.1 en.2.2.1)) ∧
    (∀ kv ∈ Gen.compressExtMap, (codecOfName kv.2).isSome = true) := by
  decide

end Nb.C01
