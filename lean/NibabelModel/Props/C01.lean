import NibabelModel.Model.C01
/-! Props/C01 — the property theorems for C01 (statements + proofs; helper lemmas live in Lemmas/). -/
namespace Nb.C01

end Nb.C01
