import NibabelModel.Model.C13
import NibabelModel.Lemmas.C13
import NibabelModel.Lemmas.C13_Cor
import NibabelModel.Lemmas.C13_Ref
import NibabelModel.Lemmas.C13_Gen
import NibabelModel.Lemmas.C13_GenProxy
/-!
Props/C13 — the image data cache and its aliases follow the documented model.

`State`/`step` (Model/C13.lean) model `DataobjImage.get_fdata / get_data / in_memory / uncache` over a
heap of array identities, for array images and proxy images; `Spec`/`Spec.step` is the documented model
(doc/source/images_and_memory.rst): the image's data source plus at most one cached array per cache, no
heap.  All theorems quantify over arbitrary (unbounded) op sequences and arbitrary well-formed states;
`State.WF` (ids in use are below the heap size) holds initially and is preserved (`step_wf`, `run_wf`).
-/
namespace Nb.C13
open Nb Nb.Py Nb.C13.PyEnc

/-! ## Invariant -/

theorem step_wf {s : State} (h : s.WF) (op : Op) : (step s op).1.WF := step_wf' h op

theorem run_wf {s : State} (h : s.WF) (ops : List Op) : (run s ops).WF := run_wf' h ops

example : (initArray ⟨.i2, [3, 4, 5], false⟩ ⟨some (2, 1), 3, .i2⟩).WF := initArray_wf _ _
example : (initProxy [3, 4, 5] ⟨some (2, 1), 3, .i2⟩).WF := initProxy_wf _ _

/-! ## Refinement of the documented model -/

/-- One step: the implementation model produces exactly the documented model's output, and the
    abstraction map (forget all arrays the image does not refer to) commutes with the step.
    NOTE on what this buys: `Spec.step` lives in the same file as `step` and has the same case structure
    (it is `step` with the heap replaced by "source + at most one array per cache"); the content of the
    refinement is that the unbounded heap of arrays ever handed out is irrelevant — only the own array and
    the cached arrays matter — not an independent re-derivation of the caching rules.  The caching rules
    themselves are checked against doc/source/images_and_memory.rst by the Python `DocModel` oracle. -/
theorem refines_doc_model_step {s : State} (h : s.WF) (op : Op) :
    (step s op).2 = (Spec.step (abs s) op).2 ∧ abs (step s op).1 = (Spec.step (abs s) op).1 :=
  ⟨(sim_step h op).2, (sim_step h op).1⟩

/-- Any history: the whole output trace is the documented model's trace, and the final states
    correspond. -/
theorem refines_doc_model {s : State} (h : s.WF) (ops : List Op) :
    trace s ops = Spec.trace (abs s) ops ∧ abs (run s ops) = Spec.run (abs s) ops :=
  sim_run h ops

-- the documented model's initial states are the abstractions of the constructors' states
example : abs (initProxy [3, 4, 5] ⟨some (2, 1), 3, .i2⟩) =
    { img := .proxy [3, 4, 5] ⟨.i2, 2, 1, {}⟩, fcache := none, dcache := none, next := 0, last := none,
      imgHdr := ⟨none, 3, .i2⟩, origHdr := ⟨some (2, 1), 3, .i2⟩ } := by decide
example : abs (initArray ⟨.f8, [3, 4], false⟩ ⟨none, 2, .f8⟩) =
    { img := .array (0, ⟨.f8, [3, 4], false⟩), fcache := none, dcache := none, next := 1, last := none,
      imgHdr := ⟨none, 2, .f8⟩, origHdr := ⟨none, 2, .f8⟩ } := by decide
-- a non-trivial trace on which both sides are evaluated
example : trace (initProxy [3, 4] ⟨some (2, 1), 2, .i2⟩)
      [.getFdata .fill .f4, .editLast, .getFdata .unchanged .f4, .uncache, .getFdata .unchanged .f4]
    = [⟨.arr 0 ⟨.f4, [7, 9], false⟩, true⟩, ⟨.unit, true⟩, ⟨.arr 0 ⟨.f4, [8, 10], false⟩, true⟩,
       ⟨.unit, false⟩, ⟨.arr 1 ⟨.f4, [7, 9], false⟩, false⟩] := by decide

/-! ## Cache identity -/

/-- After a filling `get_fdata(dtype=d)`, every later `get_fdata(dtype=d)` (either caching mode) returns
    the *same array* (same identity), whatever happens in between — reads of any kind, edits, header
    edits — as long as there is no `uncache` and no filling read of another float dtype.  The array
    returned is the cache content at that time (so edits made through it are seen). -/
theorem cache_identity {s : State} (h : s.WF) (d : DT) (hd : d ≠ .i2) (ops : List Op)
    (hk : ∀ op ∈ ops, keepsCache d op = true) (c' : Caching) (hc' : c' ≠ .other) :
    ∃ id a a',
      (step s (.getFdata .fill d)).2.res = .arr id a ∧ a.dt = d ∧
      (step (run (step s (.getFdata .fill d)).1 ops) (.getFdata c' d)).2.res = .arr id a' ∧ a'.dt = d ∧
      (run (step s (.getFdata .fill d)).1 ops).fcache = some id ∧
      a' = (run (step s (.getFdata .fill d)).1 ops).get id := by
  have h1 := step_wf' h (.getFdata .fill d)
  have s1 := sim_step h (.getFdata .fill d)
  obtain ⟨id, a, hres, hdt, hholds⟩ := Spec.fill_holds (abs s) d hd
  rw [← s1.1] at hholds
  have hrun := Spec.holds_run hholds ops hk
  rw [← (sim_run h1 ops).2] at hrun
  obtain ⟨a', hres', hdt', hfc⟩ := Spec.holds_get hrun c' hc' hd
  have h2 := run_wf' h1 ops
  rw [← (sim_step h2 (.getFdata c' d)).2] at hres'
  refine ⟨id, a, a', by rw [s1.2]; exact hres, hdt, hres', hdt', ?_, ?_⟩
  · simp only [abs] at hfc
    cases hf : (run (step s (.getFdata .fill d)).1 ops).fcache with
    | none => rw [hf] at hfc; cases hfc
    | some i => rw [hf] at hfc; simp only [Option.map_some] at hfc; cases hfc; rfl
  · simp only [abs] at hfc
    cases hf : (run (step s (.getFdata .fill d)).1 ops).fcache with
    | none => rw [hf] at hfc; cases hfc
    | some i => rw [hf] at hfc; simp only [Option.map_some] at hfc; cases hfc; rfl

example : (initProxy [3, 4, 5] ⟨some (2, 1), 3, .i2⟩).WF ∧ DT.f4 ≠ .i2 ∧
    (∀ op ∈ [Op.editLast, .getFdata .unchanged .f8, .asarray, .getFdata .fill .f4, .getData .fill,
             .hdr .img (.scale 3 5), .edit 0], keepsCache .f4 op = true) ∧ Caching.unchanged ≠ .other :=
  ⟨initProxy_wf _ _, by decide, by decide, by decide⟩

/-- Every array identity handed out during a history is smaller than the heap size at its end; an
    array created afterwards gets that heap size as identity, so it is different from all of them. -/
theorem fresh_identity_is_new {s : State} (h : s.WF) (ops : List Op) :
    ∀ o ∈ trace s ops, ∀ id a, o.res = .arr id a → id < (run s ops).heap.length :=
  trace_ids_lt h ops

example : (⟨.arr 1 ⟨.f4, [3], false⟩, false⟩ : Out) ∈
    trace (initProxy [3] ⟨none, 1, .f4⟩) [.getFdata .unchanged .f8, .asarray] := by decide

/-! ## Uncached reads reflect the file -/

/-- The image's data source (the own array's identity, or the file values and the proxy parameters
    copied at construction) is never changed by any history. -/
theorem source_never_changes (s : State) (ops : List Op) : (run s ops).img = s.img := run_img s ops

/-- Proxy image built from header `h` over file values `raw`, after ANY history: a `get_fdata` that does
    not hit the cache (cache empty, or holding another dtype), `np.asarray(dataobj)`, a proxy slice and
    a `get_data` with empty legacy cache each return a NEW array (identity = current heap size, see
    `fresh_identity_is_new`) holding exactly the file's values scaled with the parameters the header
    had at construction — no earlier edit of any returned array is visible.  `io` = the proxy's `mmap`
    argument, kind of file and storage byte order: they only decide whether the new array is a read-only
    memory map (`Par.readRO`, `Par.sliceRO`), never its identity or values. -/
theorem uncached_reflects_file (raw : List Int) (h : Hdr) (io : IOp) (ops : List Op) (c : Caching) (d : DT)
    (hc : c ≠ .other) (hd : d ≠ .i2) (sl : PySlice) (hz : sl.stepVal ≠ 0) :
    let s := run (initProxy raw h io) ops
    let p := Par.ofHdr h io
    ((s.fcache = none ∨ ∃ i, s.fcache = some i ∧ (s.get i).dt ≠ d) →
        (step s (.getFdata c d)).2.res = .arr s.heap.length ⟨d, p.scaled raw, p.readRO (some d)⟩) ∧
    (step s .asarray).2.res = .arr s.heap.length ⟨p.outDt, p.scaled raw, p.readRO none⟩ ∧
    (step s (.slice sl)).2.res = .arr s.heap.length ⟨p.outDt, sl.apply (p.scaled raw), p.sliceRO sl raw.length⟩ ∧
    (s.dcache = none → (step s (.getData c)).2.res = .arr s.heap.length ⟨p.outDt, p.scaled raw, p.readRO none⟩) := by
  intro s p
  have hi : s.img = .proxy raw p := run_img _ ops
  exact ⟨fun hm => miss_proxy hi c d hc hd ((fhit_none_iff s d).mpr hm), asarray_proxy hi,
    slice_proxy hi sl hz, fun hdc => getData_proxy hi c hc hdc⟩

example : Caching.unchanged ≠ .other ∧ DT.f8 ≠ .i2 ∧ (⟨none, some 1, some 2⟩ : PySlice).stepVal ≠ 0 ∧
    (run (initProxy [3, 4, 5] ⟨some (2, 1), 3, .i2⟩) [.getFdata .fill .f4, .editLast]).fcache = some 0 ∧
    ((run (initProxy [3, 4, 5] ⟨some (2, 1), 3, .i2⟩) [.getFdata .fill .f4, .editLast]).get 0).dt ≠ .f8 := by
  decide

/-- Array image (its array is heap object 0, of dtype `a.dt`), after ANY history: a `get_fdata` that
    does not hit the cache returns the image's own array itself when the dtype matches, otherwise a new
    array holding the own array's CURRENT values (edits made through any alias of the own array are
    visible); `np.asarray(dataobj)` is always the own array. -/
theorem uncached_reflects_own_array (a : Arr) (h : Hdr) (ops : List Op) (c : Caching) (d : DT)
    (hc : c ≠ .other) (hd : d ≠ .i2) :
    let s := run (initArray a h) ops
    ((s.fcache = none ∨ ∃ i, s.fcache = some i ∧ (s.get i).dt ≠ d) →
        (step s (.getFdata c d)).2.res =
          if a.dt = d then .arr 0 (s.get 0) else .arr s.heap.length ⟨d, (s.get 0).vals, false⟩) ∧
    (step s .asarray).2.res = .arr 0 (s.get 0) ∧ (s.get 0).dt = a.dt := by
  intro s
  have hi : s.img = .array 0 := run_img _ ops
  have hdt : (s.get 0).dt = a.dt := (run_get_dt (initArray a h) ops (i := 0) (by simp [initArray])).1
  refine ⟨fun hm => ?_, asarray_array hi, hdt⟩
  rw [miss_array hi c d hc hd ((fhit_none_iff s d).mpr hm), hdt]

example : (run (initArray ⟨.f8, [3, 4], false⟩ ⟨none, 2, .f8⟩) [.getFdata .fill .f4, .edit 0]).fcache = some 1 ∧
    ((run (initArray ⟨.f8, [3, 4], false⟩ ⟨none, 2, .f8⟩) [.getFdata .fill .f4, .edit 0]).get 1).dt ≠ .f8 := by
  decide

/-! ## Edits are visible only through the cache or the image's own array -/

/-- An array that is neither the image's own array nor in a cache stays so forever. -/
theorem garbage_stays_garbage {s : State} {k : Nat} (hg : s.Garbage k) (hk : k < s.heap.length)
    (ops : List Op) : (run s ops).Garbage k ∧ k < (run s ops).heap.length := by
  induction ops generalizing s with
  | nil => exact ⟨hg, hk⟩
  | cons op ops ih =>
    exact ih (step_garbage hg hk op) (Nat.lt_of_lt_of_le hk (step_len_le s op))

example : (run (initProxy [3] ⟨none, 1, .f4⟩) [.asarray]).Garbage 0 ∧
    0 < (run (initProxy [3] ⟨none, 1, .f4⟩) [.asarray]).heap.length := by
  refine ⟨⟨?_, ?_, ?_⟩, ?_⟩ <;> decide

/-- An in-place edit, at any point of any history, of an array that at that moment is neither the
    image's own array nor held by a cache changes NOTHING that is observed afterwards: all later
    outputs (identities, dtypes, values, writeability, in_memory) are those of the history without the
    edit, and the image ends in the same abstract state. -/
theorem edits_visible_only_via_cache_or_own_array {s : State} (h : s.WF) (pre post : List Op) (k : Nat)
    (hg : (run s pre).Garbage k) :
    trace s (pre ++ .edit k :: post)
      = trace s pre ++ (step (run s pre) (.edit k)).2 :: trace (run s pre) post ∧
    trace s (pre ++ post) = trace s pre ++ trace (run s pre) post ∧
    abs (run s (pre ++ .edit k :: post)) = abs (run s (pre ++ post)) := by
  have hw := run_wf' h pre
  have he : abs (step (run s pre) (.edit k)).1 = abs (run s pre) := abs_edit_garbage hg
  have hwe : (step (run s pre) (.edit k)).1.WF := step_wf' hw _
  have ht : trace (step (run s pre) (.edit k)).1 post = trace (run s pre) post := by
    rw [(sim_run hwe post).1, (sim_run hw post).1, he]
  refine ⟨?_, trace_append s pre post, ?_⟩
  · rw [trace_append]; simp only [trace, ht]
  · rw [run_append, run_append]
    simp only [run]
    rw [(sim_run hwe post).2, (sim_run hw post).2, he]

example : (run (initProxy [3, 4] ⟨none, 2, .f4⟩) [.getFdata .unchanged .f8, .getFdata .fill .f8]).Garbage 0 := by
  refine ⟨?_, ?_, ?_⟩ <;> decide

/-- Conversely, an edit of the cached array IS seen by the next `get_fdata` of that dtype: same
    identity, values + 1. -/
theorem edit_of_cache_is_visible {s : State} {id : Nat} {d : DT} (h : s.WF) (hf : s.fcache = some id)
    (hdt : (s.get id).dt = d) (hro : (s.get id).ro = false)
    (c : Caching) (hc : c ≠ .other) (hd : d ≠ .i2) :
    (step (step s (.edit id)).1 (.getFdata c d)).2.res
      = .arr id ⟨d, (s.get id).vals.map (· + 1), false⟩ :=
  edit_cache_visible h hf hdt hro c hc hd

example : let s := run (initProxy [3, 4] ⟨none, 2, .f4⟩) [.getFdata .fill .f8]
    s.WF ∧ s.fcache = some 0 ∧ (s.get 0).dt = .f8 ∧ (s.get 0).ro = false :=
  ⟨run_wf' (initProxy_wf _ _) _, by decide, by decide, by decide⟩

/-- And an edit of an array image's own array is seen by the next `get_fdata` that does not hit the
    cache (the own array is the image's "file"). -/
theorem edit_of_own_array_is_visible {s : State} {own : Nat} (h : s.WF) (hi : s.img = .array own)
    (hro : (s.get own).ro = false) (c : Caching) (d : DT) (hc : c ≠ .other) (hd : d ≠ .i2)
    (hm : s.fcache = none ∨ ∃ i, s.fcache = some i ∧ (s.get i).dt ≠ d) :
    (step (step s (.edit own)).1 (.getFdata c d)).2.res =
      if (s.get own).dt = d then .arr own ⟨d, (s.get own).vals.map (· + 1), false⟩
      else .arr s.heap.length ⟨d, (s.get own).vals.map (· + 1), false⟩ :=
  edit_own_visible h hi hro c d hc hd ((fhit_none_iff s d).mpr hm)

example : let s := initArray ⟨.i2, [3, 4], false⟩ ⟨none, 2, .i2⟩
    s.WF ∧ s.img = .array 0 ∧ (s.get 0).ro = false ∧ s.fcache = none :=
  ⟨initArray_wf _ _, rfl, rfl, rfl⟩

/-! ## in_memory -/

/-- The `in_memory` value reported after any history `pre ++ [op]`: always true for an array image; for
    a proxy image true exactly when the last cache event of the history (a valid filling `get_fdata` /
    `get_data`, or `uncache`) is a filling read (`filled`, starting from the initial value). -/
theorem in_memory_iff (s : State) (pre : List Op) (op : Op) :
    (step (run s pre) op).2.inMem = (s.img.isArray || filled s.inMemory (pre ++ [op])) := by
  rw [step_out_inMem]
  have := run_inMemory (pre ++ [op]) s
  rw [run_append] at this
  exact this

/-- The same for the states themselves (proxy image from its constructor: not in memory initially). -/
theorem in_memory_history (raw : List Int) (h : Hdr) (io : IOp) (ops : List Op) :
    (run (initProxy raw h io) ops).inMemory = filled false ops := by
  rw [run_inMemory]; rfl

example : filled false [.getFdata .fill .f4, .uncache, .getFdata .unchanged .f8] = false ∧
    filled false [.uncache, .getData .fill, .getFdata .fill .i2] = true := by decide

/-! ## Header edits -/

/-- What the image returns (all outputs of the non-header ops: identities, dtypes, values,
    in_memory) is the same as if the header edits — on `img.header` or on the header object the image
    was built from — had not happened at all.
    (Glue at this level: in the flat `State` the proxy's `Par` and the two headers are separate values and
    `step` never reads the headers, so this holds by construction.  The statement with content is
    `proxy_owns_its_parameters` below, over the object-level model in which the proxy MAY alias a header
    object; this lemma is what it reduces to.) -/
theorem proxy_ignores_header_edits (s : State) (ops : List Op) :
    dataTrace s ops = trace s (ops.filter (fun o => !o.isHdr)) :=
  dataTrace_eq_filter s ops

/-- … and does not depend on the current contents of either header object: after construction the
    proxy uses only the parameters it copied (`Par.ofHdr`, frozen by `source_never_changes`).
    (Glue, true by construction of the flat `State`; see `frozen_ignores_header_cells` for the
    object-level statement.) -/
theorem proxy_ignores_header_values (s : State) (a b : Hdr) (ops : List Op) :
    dataTrace (s.withHdrs a b) ops = dataTrace s ops :=
  dataTrace_withHdrs s a b ops

example : (initProxy [3] ⟨some (2, 1), 1, .i2⟩).withHdrs ⟨none, 7, .f8⟩ ⟨some (3, 5), 2, .f4⟩
    ≠ initProxy [3] ⟨some (2, 1), 1, .i2⟩ := by decide

example : dataTrace (initProxy [3, 4] ⟨some (2, 1), 2, .i2⟩)
      [.hdr .orig (.scale 3 5), .getFdata .fill .f8, .hdr .img (.dtype .f4), .hdr .orig (.shape 1), .asarray]
    = [⟨.arr 0 ⟨.f8, [7, 9], false⟩, true⟩, ⟨.arr 1 ⟨.f8, [7, 9], false⟩, true⟩] := by decide

/-! ## Header OBJECTS: who aliases whom (object-level model `RState` / `rstep`)

In `State` the proxy's parameters and the two headers are separate *values*, so the two theorems above hold
by construction.  `RState` has a heap of header objects; the proxy's parameters are either a copy
(`PSrc.copy`) or a reference to a header cell read on every access (`PSrc.ref`); `img.header` and the
caller's header are cell indices that may coincide.  `Copies` says which of the three defensive copies the
construction code makes (`Copies.code`: all three — `ArrayProxy.__init__`, `from_file_map`'s
`header.copy()`, `FileBasedImage.__init__`'s `from_header`).  The driver runs THIS model, built by
`rinitFileMap / rinitCtor / rinitArray Copies.code`. -/

/-- (Glue — unfolds the constructors.)  With all three copies made, the object-level constructors yield
    exactly the flat initial states, with `img.header` and the caller's header two distinct objects. -/
theorem code_constructors_flat (raw : List Int) (a : Arr) (h : Hdr) (io : IOp) :
    ((rinitFileMap .code raw h io).view = initProxy raw h io ∧ (rinitFileMap .code raw h io).Sep ∧
      (rinitFileMap .code raw h io).Frozen) ∧
    ((rinitCtor .code raw h io).view = initProxy raw h io ∧ (rinitCtor .code raw h io).Sep ∧
      (rinitCtor .code raw h io).Frozen) ∧
    ((rinitArray .code a h).view = initArray a h ∧ (rinitArray .code a h).Sep ∧
      (rinitArray .code a h).Frozen) :=
  ⟨⟨(rinitFileMap_code raw h io).1, (rinitFileMap_code raw h io).2, rinitFileMap_frozen _ rfl raw h io⟩,
   ⟨(rinitCtor_code raw h io).1, (rinitCtor_code raw h io).2, rinitCtor_frozen _ rfl raw h io⟩,
   ⟨(rinitArray_code a h).1, (rinitArray_code a h).2, rinitArray_frozen _ a h⟩⟩

/-- Whenever the proxy owns a copy of its parameters and `img.header` is not the caller's header object,
    the object-level model is step for step the flat model (outputs and states), for every history
    including header edits: every theorem of this file about `step/run/trace` holds of `rstep/rrun/rtrace`. -/
theorem ref_model_refines_flat {r : RState} (hf : r.Frozen) (hs : r.Sep) (ops : List Op) :
    rtrace r ops = trace r.view ops ∧ (rrun r ops).view = run r.view ops ∧
    (rrun r ops).Frozen ∧ (rrun r ops).img = r.img :=
  ⟨(rrun_flat hf hs ops).1, (rrun_flat hf hs ops).2, rrun_frozen hf ops, rrun_img r ops⟩

example : (rinitCtor .code [3, 4] ⟨some (2, 1), 2, .i2⟩).Frozen ∧ (rinitCtor .code [3, 4] ⟨some (2, 1), 2, .i2⟩).Sep :=
  ⟨rinitCtor_frozen _ rfl _ _ _, (rinitCtor_code _ _ _).2⟩

/-- What the code's constructors give, for every history: the documented model's trace. -/
theorem code_images_follow_doc_model (raw : List Int) (a : Arr) (h : Hdr) (io : IOp) (ops : List Op) :
    rtrace (rinitFileMap .code raw h io) ops = Spec.trace (abs (initProxy raw h io)) ops ∧
    rtrace (rinitCtor .code raw h io) ops = Spec.trace (abs (initProxy raw h io)) ops ∧
    rtrace (rinitArray .code a h) ops = Spec.trace (abs (initArray a h)) ops := by
  have c := code_constructors_flat raw a h io
  refine ⟨?_, ?_, ?_⟩
  · rw [(rrun_flat c.1.2.2 c.1.2.1 ops).1, c.1.1, (sim_run (initProxy_wf raw h io) ops).1]
  · rw [(rrun_flat c.2.1.2.2 c.2.1.2.1 ops).1, c.2.1.1, (sim_run (initProxy_wf raw h io) ops).1]
  · rw [(rrun_flat c.2.2.2.2 c.2.2.2.1 ops).1, c.2.2.1, (sim_run (initArray_wf a h) ops).1]

/-- THE independence statement at object level.  If `ArrayProxy.__init__` copies its parameters
    (`k.proxy`), then — whether or not `from_file_map` copies the header first and whether or not the image
    keeps its own header copy, i.e. even when `img.header`, the caller's header and the header the proxy
    was built from are ONE object — everything the image returns (identities, dtypes, values,
    writeability, in_memory of all non-header ops) under any history with arbitrary edits of
    `img.header` / the caller's header equals what the flat model returns for the history with the header
    edits deleted. -/
theorem proxy_owns_its_parameters (k : Copies) (hk : k.proxy = true) (raw : List Int) (h : Hdr) (io : IOp)
    (ops : List Op) :
    rdataTrace (rinitFileMap k raw h io) ops = trace (initProxy raw h io) (ops.filter (fun o => !o.isHdr)) ∧
    rdataTrace (rinitCtor k raw h io) ops = trace (initProxy raw h io) (ops.filter (fun o => !o.isHdr)) := by
  obtain ⟨a1, b1, h1⟩ := rinitFileMap_view k hk raw h io
  obtain ⟨a2, b2, h2⟩ := rinitCtor_view k hk raw h io
  exact ⟨by rw [rdataTrace_flat (rinitFileMap_frozen k hk raw h io) _ a1 b1 h1 ops, dataTrace_eq_filter],
         by rw [rdataTrace_flat (rinitCtor_frozen k hk raw h io) _ a2 b2 h2 ops, dataTrace_eq_filter]⟩

example : (⟨true, false, false⟩ : Copies).proxy = true ∧
    (rinitFileMap ⟨true, false, false⟩ [3] ⟨some (2, 1), 1, .i2⟩).imgCell
      = (rinitFileMap ⟨true, false, false⟩ [3] ⟨some (2, 1), 1, .i2⟩).origCell := by decide

/-- An array image never looks at any header object. -/
theorem array_image_ignores_header_objects (k : Copies) (a : Arr) (h : Hdr) (ops : List Op) :
    rdataTrace (rinitArray k a h) ops = trace (initArray a h) (ops.filter (fun o => !o.isHdr)) := by
  obtain ⟨x, y, h1⟩ := rinitArray_view k a h
  rw [rdataTrace_flat (rinitArray_frozen k a h) _ x y h1 ops, dataTrace_eq_filter]

/-- … and for ANY object-level state whose proxy owns its parameters, replacing the contents of ALL header
    objects by anything else changes nothing the image returns. -/
theorem frozen_ignores_header_cells {r : RState} (hf : r.Frozen) (cells' : List Hdr) (ops : List Op) :
    rdataTrace { r with cells := cells' } ops = rdataTrace r ops := by
  have hf' : ({ r with cells := cells' } : RState).Frozen := fun raw c => hf raw c
  rw [rdataTrace_flat hf' r.view _ _ (view_cells_frozen hf cells') ops,
      rdataTrace_flat hf r.view r.view.imgHdr r.view.origHdr (withHdrs_self _).symm ops]

example : ({ rinitCtor .code [3] ⟨some (2, 1), 1, .i2⟩ with cells := [⟨some (5, 5), 4, .f4⟩] } : RState)
    ≠ rinitCtor .code [3] ⟨some (2, 1), 1, .i2⟩ := by decide

/-- The aliasing variants are NOT independent (so the statements above say something): if
    `ArrayProxy.__init__` kept a reference to its `spec` header instead of copying,
    (1) `ArrayProxy(f, hdr); Nifti1Image(proxy, None, hdr)` followed by `hdr.set_slope_inter(3, 5)` changes
        the next read ([11, 14] → [14, 17] for raw [3, 4] · 2 + 1);
    (2) the same through `from_file_map` and `img._load_cache['header']`;
    (3) if moreover the image kept the caller's header object instead of a copy, constructing the image
        (which resets slope/inter on its header, analyze.py:915) already strips the scaling from the data
        ([7, 9] becomes [3, 4]) without any edit. -/
theorem aliasing_proxy_counterexample :
    rdataTrace (rinitCtor ⟨false, true, true⟩ [3, 4] ⟨some (2, 1), 2, .i2⟩) [.hdr .orig (.scale 3 5), .asarray]
      ≠ rdataTrace (rinitCtor ⟨false, true, true⟩ [3, 4] ⟨some (2, 1), 2, .i2⟩) [.asarray] ∧
    rdataTrace (rinitFileMap ⟨false, true, true⟩ [3, 4] ⟨some (2, 1), 2, .i2⟩) [.hdr .orig (.scale 3 5), .asarray]
      ≠ rdataTrace (rinitFileMap ⟨false, true, true⟩ [3, 4] ⟨some (2, 1), 2, .i2⟩) [.asarray] ∧
    rdataTrace (rinitCtor ⟨false, true, false⟩ [3, 4] ⟨some (2, 1), 2, .i2⟩) [.asarray]
      ≠ rdataTrace (rinitCtor .code [3, 4] ⟨some (2, 1), 2, .i2⟩) [.asarray] := by decide

/-- `img.header` is a copy: as long as it and the caller's header are different objects, an edit of one
    is not seen through the other (and the reported pair is the flat model's). -/
theorem image_header_is_a_copy {r : RState} (hs : r.Sep) (e : HEdit) :
    cellGet (rstep r (.hdr .orig e)).1.cells r.imgCell = cellGet r.cells r.imgCell ∧
    cellGet (rstep r (.hdr .orig e)).1.cells r.origCell = e.apply (cellGet r.cells r.origCell) ∧
    cellGet (rstep r (.hdr .img e)).1.cells r.origCell = cellGet r.cells r.origCell ∧
    cellGet (rstep r (.hdr .img e)).1.cells r.imgCell = e.apply (cellGet r.cells r.imgCell) :=
  ⟨cellGet_modify_ne _ _ _ _ (Ne.symm hs.2.2), cellGet_modify_same _ _ _ hs.2.1,
   cellGet_modify_ne _ _ _ _ hs.2.2, cellGet_modify_same _ _ _ hs.1⟩

/-- Without `from_header`'s copy (filebasedimages.py:188) the caller's header loses its scaling when the
    image is constructed and later edits of it show up in `img.header`. -/
theorem shared_image_header_counterexample :
    cellGet (rinitCtor ⟨true, true, false⟩ [3] ⟨some (2, 1), 1, .i2⟩).cells 0 = ⟨none, 1, .i2⟩ ∧
    (rstep (rinitCtor ⟨true, true, false⟩ [3] ⟨some (2, 1), 1, .i2⟩) (.hdr .orig (.scale 3 5))).2.res
      = .hdrs ⟨some (3, 5), 1, .i2⟩ ⟨some (3, 5), 1, .i2⟩ ∧
    (rstep (rinitCtor .code [3] ⟨some (2, 1), 1, .i2⟩) (.hdr .orig (.scale 3 5))).2.res
      = .hdrs ⟨none, 1, .i2⟩ ⟨some (3, 5), 1, .i2⟩ := by decide

/-! ## Read-only memory maps (`mmap='r'`) -/

/-- The decision rule for "a whole-array read hands out a read-only array", spelled out: the proxy was
    given `mmap='r'` AND its file is an uncompressed file on disk AND the header scaling is (1, 0) (or
    absent) AND the read converts nothing (no dtype asked, or the storage dtype in the machine's byte
    order).  `mmap=True` means `'c'` (copy-on-write) — read from the current source on every run
    (`Gen.C13.mmapTrueMode`) — hence never read-only. -/
theorem readonly_read_iff (p : Par) (d : Option DT) :
    p.readRO d = true ↔
      (p.io.mmap = .r ∧ p.io.file = .path ∧ p.slope = 1 ∧ p.inter = 0 ∧
        (d = none ∨ (d = some p.dt ∧ p.io.swapped = false))) := by
  have h1 : MMap.modeRO "c" = some false := by decide
  have h2 : MMap.modeRO "r" = some true := by decide
  -- `True` means `'c'` in the CURRENT source (Generated/C13Consts.lean): this line fails if that changes
  have h3 : MMap.modeRO Gen.C13.mmapTrueMode = some false := by decide
  rcases p with ⟨dt, sl, it, ⟨mm, fk, sw⟩⟩
  cases mm <;> cases fk <;> cases sw <;> cases d <;>
    simp [Par.readRO, IOp.roMap, IOp.mapMode, and_assoc, h1, h2, h3]

example : (Par.ofHdr ⟨none, 2, .f4⟩ ⟨.r, .path, false⟩).readRO (some .f4) = true ∧
    (Par.ofHdr ⟨none, 2, .f4⟩ ⟨.r, .path, true⟩).readRO (some .f4) = false ∧
    (Par.ofHdr ⟨none, 2, .f4⟩ ⟨.on, .path, false⟩).readRO none = false ∧
    (Par.ofHdr ⟨some (2, 1), 2, .f4⟩ ⟨.r, .path, false⟩).readRO none = false ∧
    (Par.ofHdr ⟨none, 2, .f4⟩ ⟨.r, .pathGz, false⟩).readRO none = false := by decide

/-- An attempted in-place edit of a read-only array (NumPy refuses it) leaves the WHOLE state unchanged —
    in particular a read-only memory map that `get_fdata` cached keeps showing the file. -/
theorem readonly_edit_is_noop (s : State) (k : Nat) (hro : (s.get k).ro = true) :
    (step s (.edit k)).1 = s := by
  simp only [step, editAt]
  split
  · rename_i hk
    simp only [retRes]
    have hb : s.heap.modify k bump = s.heap := by
      apply List.ext_getElem?
      intro j
      rw [List.getElem?_modify]
      by_cases hkj : k = j
      · subst hkj
        have hget : s.get k = s.heap[k] := by simp [State.get, hk]
        rw [hget] at hro
        simp [hk, bump, hro]
      · simp [hkj]
    rw [hb]
  · rfl

example : let s := run (initProxy [3, 4] ⟨none, 2, .f4⟩ ⟨.r, .path, false⟩) [.getFdata .fill .f4]
    (s.get 0).ro = true ∧ s.fcache = some 0 ∧
    (step (step s (.edit 0)).1 (.getFdata .unchanged .f4)).2.res = .arr 0 ⟨.f4, [3, 4], true⟩ := by decide

/-! ## Constants of the current source (Generated/C13Consts.lean, rewritten by `regen()` on every run) -/

/-- What the model and the `spell` stream take for granted, checked against the constants extracted from
    the working tree: `get_fdata()` is `get_fdata(caching='fill', dtype=np.float64)` and `get_data()` is
    `get_data(caching='fill')`; the accepted `caching` strings are exactly the two non-`other` values of
    `Caching`; `ArrayProxy` substitutes (1, 0) for a missing slope / intercept both for a header spec
    (`Par.ofHdr`) and for a short tuple spec, with offset 0; the accepted `mmap` values are the four of
    `MMap`, and `True` selects a copy-on-write map. -/
theorem source_constants :
    Caching.ofStr Gen.C13.getFdataDefaultCaching = .fill ∧
    DT.ofNp Gen.C13.getFdataDefaultDtype = some .f8 ∧
    Caching.ofStr Gen.C13.getDataDefaultCaching = .fill ∧
    Gen.C13.getFdataCachingValues.map Caching.ofStr = [.fill, .unchanged] ∧
    Gen.C13.getDataCachingValues.map Caching.ofStr = [.fill, .unchanged] ∧
    (∀ h : Hdr, ∀ io : IOp, h.scale = none →
      Par.ofHdr h io = ⟨h.dt, Gen.C13.proxyTupleSlope, Gen.C13.proxyTupleInter, io⟩ ∧
      (Par.ofHdr h io).outDt = h.dt ∧ ∀ raw, (Par.ofHdr h io).scaled raw = raw) ∧
    Gen.C13.proxyTupleOffset = 0 ∧
    Gen.C13.proxyMmapValues = ["True", "False", "c", "r"] ∧
    MMap.modeRO Gen.C13.mmapTrueMode = some false := by
  refine ⟨by decide, by decide, by decide, by decide, by decide, ?_, by decide, by decide, by decide⟩
  intro h io hs
  have hp : Par.ofHdr h io = ⟨h.dt, 1, 0, io⟩ := by simp [Par.ofHdr, hs]; decide
  have e1 : Gen.C13.proxyTupleSlope = 1 := by decide
  have e2 : Gen.C13.proxyTupleInter = 0 := by decide
  refine ⟨by rw [hp, e1, e2], by rw [hp]; simp [Par.outDt], ?_⟩
  intro raw
  rw [hp]
  simp [Par.scaled]

example : (⟨none, 2, .f4⟩ : Hdr).scale = none := rfl

/-! ## Stage T: the method bodies of the CURRENT source (Generated/C13Funcs.lean)

`harness/py2lean_c13.py` re-translates `DataobjImage.get_fdata / get_data / uncache / in_memory / dataobj` from the
working tree on every run (`self` = dict of the attributes `_dataobj`, `_fdata_cache`, `_data_cache`; NumPy calls =
the primitives `prims t` of Model/C13_Py.lean, whose behaviour is stated there and validated by the `gen` / `genst`
streams).  The theorems below say that each translated body, run on the attribute dict of ANY well-formed abstract
image state `t` with ANY `caching` string and dtype, returns exactly the documented model's result and new state;
`gfinish` only decodes `(result, self)` / `ValueError` back into `Spec × Out` (the `in_memory` flag of the output
being computed by the translated `in_memory`).  `Spec.Ok t`: the arrays the image refers to were handed out
before (`abs s` of every well-formed `s`). -/

/-- `get_fdata`: argument checks (both orders of failure), cache hit on the dtype's scalar type, otherwise
    `np.asanyarray(self._dataobj, dtype)`, stored iff `caching == 'fill'`.  `Caching.ofStr` is thereby tied to
    the strings the source compares with. -/
theorem source_get_fdata (t : Spec) (h : t.Ok) (c : String) (d : DT) :
    gfinish t (Gen.C13F.get_fdata (prims t) (encSelf t) (.str c) (scalarType d))
      = some (Spec.step t (.getFdata (Caching.ofStr c) d)) :=
  gen_get_fdata_eq t h c d

example : (abs (run (initProxy [3, 4] ⟨some (2, 1), 2, .i2⟩) [.getFdata .fill .f4, .editLast])).Ok :=
  abs_ok (run_wf' (initProxy_wf _ _) _)

/-- `get_data` (legacy cache `_data_cache`, no dtype). -/
theorem source_get_data (t : Spec) (h : t.Ok) (c : String) :
    gfinish t (Gen.C13F.get_data (prims t) (encSelf t) (.str c))
      = some (Spec.step t (.getData (Caching.ofStr c))) :=
  gen_get_data_eq t h c

example : (abs (initArray ⟨.f4, [3, 4], false⟩ ⟨none, 2, .f4⟩)).Ok := abs_ok (initArray_wf _ _)

/-- `uncache` clears BOTH caches and nothing else (any state, well-formed or not). -/
theorem source_uncache (t : Spec) :
    gfinish t (Gen.C13F.uncache (prims t) (encSelf t)) = some (Spec.step t .uncache) :=
  gen_uncache_eq t

/-- `in_memory` returns the documented flag and leaves the object unchanged. -/
theorem source_in_memory (t : Spec) :
    Gen.C13F.in_memory (prims t) (encSelf t) = .ok (.tup2 (.bool t.inMemory) (encSelf t)) := by
  have := gInMem_eq t
  unfold gInMem at this
  split at this
  · rename_i b self' heq
    split at this
    · rename_i hs
      cases this
      rw [heq, hs]
    · cases this
  · cases this

/-- `dataobj` hands out `self._dataobj` itself (so `np.asanyarray(img.dataobj)` is the model's `asarray`). -/
theorem source_dataobj (t : Spec) (h : t.Ok) :
    Gen.C13F.dataobj (prims t) (encSelf t) = .ok (.tup2 (encObj t.img) (encSelf t)) ∧
    gfinish t (gAsarray t) = some (Spec.step t .asarray) :=
  ⟨by simp [Gen.C13F.dataobj], gen_asarray_eq t h⟩

example : (abs (run (initProxy [3] ⟨none, 1, .f8⟩) [.getData .fill, .asarray])).Ok :=
  abs_ok (run_wf' (initProxy_wf _ _) _)

/-- The defaults of the translated signatures: `get_fdata()` = `get_fdata('fill', np.float64)` (the default dtype
    expression, pushed through the `np.dtype` primitive, is float64), `get_data()` = `get_data('fill')`. -/
theorem source_defaults :
    Gen.C13F.get_fdata_default_caching = .str "fill" ∧
    npDtype Gen.C13F.get_fdata_default_dtype = .ok (encDtype .f8) ∧
    Gen.C13F.get_data_default_caching = .str "fill" := by
  refine ⟨rfl, ?_, rfl⟩
  simp [Gen.C13F.get_fdata_default_dtype, npDtype, decDtype?, decScalar?, DT.ofNp, encDtype, encDT]

/-- Whole histories: the outputs computed step by step by the TRANSLATED methods (ops that are not
    `DataobjImage` methods — edits of returned arrays, proxy slicing, header edits — being `Spec.step`) from the
    abstraction of any well-formed implementation-model state are that model's trace and the documented model's
    trace, for every op sequence and every `caching` spelling.  So every theorem of this file about
    `step / run / trace` (cache identity, uncached reads, visibility of edits, in_memory, header independence) holds
    of the method bodies as they are in the working tree now. -/
theorem source_methods_follow_model {s : State} (h : s.WF) (gs : List GOp) :
    gtrace (abs s) gs = some (trace s (gs.map GOp.toOp)) ∧
    gtrace (abs s) gs = some (Spec.trace (abs s) (gs.map GOp.toOp)) :=
  ⟨gtrace_eq h gs, by rw [gtrace_eq h gs, (sim_run h _).1]⟩

example : (initProxy [3, 4] ⟨some (2, 1), 2, .i2⟩).WF := initProxy_wf _ _

/-- `cache_identity` carried over to the translated methods: a filling `get_fdata(dtype=d)`, then ANY ops other
    than `uncache` / a filling read of another float dtype, then `get_fdata(dtype=d)` with either caching string —
    executed by the translated bodies — return the same array identity `id` first and last. -/
theorem source_cache_identity {s : State} (h : s.WF) (d : DT) (hd : d ≠ .i2) (gs : List GOp)
    (hk : ∀ g ∈ gs, keepsCache d g.toOp = true) (c' : String) (hc' : c' = "fill" ∨ c' = "unchanged") :
    ∃ id a a' b b' mid,
      gtrace (abs s) (.getFdata "fill" d :: gs ++ [.getFdata c' d])
        = some (⟨.arr id a, b⟩ :: mid ++ [⟨.arr id a', b'⟩]) ∧
      a.dt = d ∧ a'.dt = d ∧ mid.length = gs.length := by
  have hc'' : Caching.ofStr c' ≠ .other := by
    rcases hc' with h | h <;> subst h <;> decide
  have hk' : ∀ op ∈ gs.map GOp.toOp, keepsCache d op = true := by
    intro op hop
    obtain ⟨g, hg, rfl⟩ := List.mem_map.mp hop
    exact hk g hg
  obtain ⟨id, a, a', h1, h2, h3, h4, _, _⟩ := cache_identity h d hd (gs.map GOp.toOp) hk' (Caching.ofStr c') hc''
  refine ⟨id, a, a', (step s (.getFdata .fill d)).2.inMem,
    (step (run (step s (.getFdata .fill d)).1 (gs.map GOp.toOp)) (.getFdata (Caching.ofStr c') d)).2.inMem,
    trace (step s (.getFdata .fill d)).1 (gs.map GOp.toOp), ?_, h2, h4, by simp [trace_length]⟩
  rw [gtrace_eq h]
  have e1 : Caching.ofStr "fill" = .fill := by decide
  simp only [List.map_cons, List.map_append, List.map_nil, GOp.toOp, e1, trace, trace_append, ← h1, ← h3, run]

example : (initArray ⟨.i2, [3, 4, 5], false⟩ ⟨none, 3, .i2⟩).WF ∧ DT.f8 ≠ .i2 ∧
    (∀ g ∈ [GOp.other .editLast, .getFdata "unchanged" .f4, .asarray, .getData "fill", .getFdata "fill" .f8,
            .other (.hdr .img (.scale 3 5))], keepsCache .f8 g.toOp = true) :=
  ⟨initArray_wf _ _, by decide, by decide⟩

/-- `ArrayProxy.__init__`'s `spec` handling, translated from the current `arrayproxy.py` (the statements that mention
    `spec` / `par`), computes the hand-written `ProxySpec.par` for EVERY spec: a header object (slope / intercept
    independently `None`), a tuple `((n,1,1), dtype) + rest` of any length, `()` and `((n,1,1),)`. -/
theorem source_proxy_spec (sp : ProxySpec) : gProxySpec sp = some sp.par := gen_proxy_spec_eq sp

example : gProxySpec (.header (some 2) none 3 .i2 352) = some (.ok ⟨3, .i2, 352, 2, 0⟩) := by
  rw [source_proxy_spec]; rfl

/-- … so the parameters the model's proxy is built with (`Par.ofHdr`, used by `initProxy` and every theorem above)
    are the ones the current code copies out of a header object, and a tuple spec gets offset 0, slope 1, intercept
    0 for the members it lacks, any other length being a `TypeError`. -/
theorem source_proxy_spec_header (h : Hdr) (io : IOp) (off : Int) (n : Nat) (dt : DT) (rest : List Int) :
    gProxySpec (.header (h.scale.map (·.1)) (h.scale.map (·.2)) h.n h.dt off)
      = some (.ok ⟨h.n, (Par.ofHdr h io).dt, off, (Par.ofHdr h io).slope, (Par.ofHdr h io).inter⟩) ∧
    gProxySpec (.tuple n dt rest) =
      some (if rest.length ≤ 3 then .ok ⟨n, dt, rest[0]?.getD 0, rest[1]?.getD 1, rest[2]?.getD 0⟩
            else .error .typeError) ∧
    ∀ w, gProxySpec (.short w n) = some (.error .typeError) :=
  ⟨gen_proxy_spec_header h io off, (gen_proxy_spec_tuple n dt rest).1, (gen_proxy_spec_tuple n dt rest).2⟩

example : (Par.ofHdr ⟨some (2, 1), 3, .i2⟩ {}).slope = 2 ∧ (Par.ofHdr ⟨none, 3, .f4⟩ {}).slope = 1 := by decide

end Nb.C13
