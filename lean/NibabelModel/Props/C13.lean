import NibabelModel.Model.C13
/-! Props/C13 — the property theorems for C13 (statements + proofs; helper lemmas live in Lemmas/). -/
namespace Nb.C13

end Nb.C13
