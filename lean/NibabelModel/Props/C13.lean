import NibabelModel.Model.C13
import NibabelModel.Lemmas.C13
import NibabelModel.Lemmas.C13_Cor
/-!
Props/C13 — the image data cache and its aliases follow the documented model.

`State`/`step` (Model/C13.lean) model `DataobjImage.get_fdata / get_data / in_memory / uncache` over a
heap of array identities, for array images and proxy images; `Spec`/`Spec.step` is the documented model
(doc/source/images_and_memory.rst): the image's data source plus at most one cached array per cache, no
heap.  All theorems quantify over arbitrary (unbounded) op sequences and arbitrary well-formed states;
`State.WF` (ids in use are below the heap size) holds initially and is preserved (`step_wf`, `run_wf`).
-/
namespace Nb.C13
open Nb

/-! ## Invariant -/

theorem step_wf {s : State} (h : s.WF) (op : Op) : (step s op).1.WF := step_wf' h op

theorem run_wf {s : State} (h : s.WF) (ops : List Op) : (run s ops).WF := run_wf' h ops

example : (initArray ⟨.i2, [3, 4, 5], false⟩ ⟨some (2, 1), 3, .i2⟩).WF := initArray_wf _ _
example : (initProxy [3, 4, 5] ⟨some (2, 1), 3, .i2⟩).WF := initProxy_wf _ _

/-! ## Refinement of the documented model -/

/-- One step: the implementation model produces exactly the documented model's output, and the
    abstraction map (forget all arrays the image does not refer to) commutes with the step. -/
theorem refines_doc_model_step {s : State} (h : s.WF) (op : Op) :
    (step s op).2 = (Spec.step (abs s) op).2 ∧ abs (step s op).1 = (Spec.step (abs s) op).1 :=
  ⟨(sim_step h op).2, (sim_step h op).1⟩

/-- Any history: the whole output trace is the documented model's trace, and the final states
    correspond. -/
theorem refines_doc_model {s : State} (h : s.WF) (ops : List Op) :
    trace s ops = Spec.trace (abs s) ops ∧ abs (run s ops) = Spec.run (abs s) ops :=
  sim_run h ops

-- the documented model's initial states are the abstractions of the constructors' states
example : abs (initProxy [3, 4, 5] ⟨some (2, 1), 3, .i2⟩) =
    { img := .proxy [3, 4, 5] ⟨.i2, 2, 1⟩, fcache := none, dcache := none, next := 0, last := none,
      imgHdr := ⟨none, 3, .i2⟩, origHdr := ⟨some (2, 1), 3, .i2⟩ } := by decide
example : abs (initArray ⟨.f8, [3, 4], false⟩ ⟨none, 2, .f8⟩) =
    { img := .array (0, ⟨.f8, [3, 4], false⟩), fcache := none, dcache := none, next := 1, last := none,
      imgHdr := ⟨none, 2, .f8⟩, origHdr := ⟨none, 2, .f8⟩ } := by decide
-- a non-trivial trace on which both sides are evaluated
example : trace (initProxy [3, 4] ⟨some (2, 1), 2, .i2⟩)
      [.getFdata .fill .f4, .editLast, .getFdata .unchanged .f4, .uncache, .getFdata .unchanged .f4]
    = [⟨.arr 0 ⟨.f4, [7, 9], false⟩, true⟩, ⟨.unit, true⟩, ⟨.arr 0 ⟨.f4, [8, 10], false⟩, true⟩,
       ⟨.unit, false⟩, ⟨.arr 1 ⟨.f4, [7, 9], false⟩, false⟩] := by decide

/-! ## Cache identity -/

/-- After a filling `get_fdata(dtype=d)`, every later `get_fdata(dtype=d)` (either caching mode) returns
    the *same array* (same identity), whatever happens in between — reads of any kind, edits, header
    edits — as long as there is no `uncache` and no filling read of another float dtype.  The array
    returned is the cache content at that time (so edits made through it are seen). -/
theorem cache_identity {s : State} (h : s.WF) (d : DT) (hd : d ≠ .i2) (ops : List Op)
    (hk : ∀ op ∈ ops, keepsCache d op = true) (c' : Caching) (hc' : c' ≠ .other) :
    ∃ id a a',
      (step s (.getFdata .fill d)).2.res = .arr id a ∧ a.dt = d ∧
      (step (run (step s (.getFdata .fill d)).1 ops) (.getFdata c' d)).2.res = .arr id a' ∧ a'.dt = d ∧
      (run (step s (.getFdata .fill d)).1 ops).fcache = some id ∧
      a' = (run (step s (.getFdata .fill d)).1 ops).get id := by
  have h1 := step_wf' h (.getFdata .fill d)
  have s1 := sim_step h (.getFdata .fill d)
  obtain ⟨id, a, hres, hdt, hholds⟩ := Spec.fill_holds (abs s) d hd
  rw [← s1.1] at hholds
  have hrun := Spec.holds_run hholds ops hk
  rw [← (sim_run h1 ops).2] at hrun
  obtain ⟨a', hres', hdt', hfc⟩ := Spec.holds_get hrun c' hc' hd
  have h2 := run_wf' h1 ops
  rw [← (sim_step h2 (.getFdata c' d)).2] at hres'
  refine ⟨id, a, a', by rw [s1.2]; exact hres, hdt, hres', hdt', ?_, ?_⟩
  · simp only [abs] at hfc
    cases hf : (run (step s (.getFdata .fill d)).1 ops).fcache with
    | none => rw [hf] at hfc; cases hfc
    | some i => rw [hf] at hfc; simp only [Option.map_some] at hfc; cases hfc; rfl
  · simp only [abs] at hfc
    cases hf : (run (step s (.getFdata .fill d)).1 ops).fcache with
    | none => rw [hf] at hfc; cases hfc
    | some i => rw [hf] at hfc; simp only [Option.map_some] at hfc; cases hfc; rfl

example : (initProxy [3, 4, 5] ⟨some (2, 1), 3, .i2⟩).WF ∧ DT.f4 ≠ .i2 ∧
    (∀ op ∈ [Op.editLast, .getFdata .unchanged .f8, .asarray, .getFdata .fill .f4, .getData .fill,
             .hdr .img (.scale 3 5), .edit 0], keepsCache .f4 op = true) ∧ Caching.unchanged ≠ .other :=
  ⟨initProxy_wf _ _, by decide, by decide, by decide⟩

/-- Every array identity handed out during a history is smaller than the heap size at its end; an
    array created afterwards gets that heap size as identity, so it is different from all of them. -/
theorem fresh_identity_is_new {s : State} (h : s.WF) (ops : List Op) :
    ∀ o ∈ trace s ops, ∀ id a, o.res = .arr id a → id < (run s ops).heap.length :=
  trace_ids_lt h ops

example : (⟨.arr 1 ⟨.f4, [3], false⟩, false⟩ : Out) ∈
    trace (initProxy [3] ⟨none, 1, .f4⟩) [.getFdata .unchanged .f8, .asarray] := by decide

/-! ## Uncached reads reflect the file -/

/-- The image's data source (the own array's identity, or the file values and the proxy parameters
    copied at construction) is never changed by any history. -/
theorem source_never_changes (s : State) (ops : List Op) : (run s ops).img = s.img := run_img s ops

/-- Proxy image built from header `h` over file values `raw`, after ANY history: a `get_fdata` that does
    not hit the cache (cache empty, or holding another dtype), `np.asarray(dataobj)`, a proxy slice and
    a `get_data` with empty legacy cache each return a NEW array (identity = current heap size, see
    `fresh_identity_is_new`) holding exactly the file's values scaled with the parameters the header
    had at construction — no earlier edit of any returned array is visible. -/
theorem uncached_reflects_file (raw : List Int) (h : Hdr) (ops : List Op) (c : Caching) (d : DT)
    (hc : c ≠ .other) (hd : d ≠ .i2) (sl : PySlice) (hz : sl.stepVal ≠ 0) :
    let s := run (initProxy raw h) ops
    let p := Par.ofHdr h
    ((s.fcache = none ∨ ∃ i, s.fcache = some i ∧ (s.get i).dt ≠ d) →
        (step s (.getFdata c d)).2.res = .arr s.heap.length ⟨d, p.scaled raw, false⟩) ∧
    (step s .asarray).2.res = .arr s.heap.length ⟨p.outDt, p.scaled raw, false⟩ ∧
    (step s (.slice sl)).2.res = .arr s.heap.length ⟨p.outDt, sl.apply (p.scaled raw), p.sliceRO sl raw.length⟩ ∧
    (s.dcache = none → (step s (.getData c)).2.res = .arr s.heap.length ⟨p.outDt, p.scaled raw, false⟩) := by
  intro s p
  have hi : s.img = .proxy raw p := run_img _ ops
  exact ⟨fun hm => miss_proxy hi c d hc hd ((fhit_none_iff s d).mpr hm), asarray_proxy hi,
    slice_proxy hi sl hz, fun hdc => getData_proxy hi c hc hdc⟩

example : Caching.unchanged ≠ .other ∧ DT.f8 ≠ .i2 ∧ (⟨none, some 1, some 2⟩ : PySlice).stepVal ≠ 0 ∧
    (run (initProxy [3, 4, 5] ⟨some (2, 1), 3, .i2⟩) [.getFdata .fill .f4, .editLast]).fcache = some 0 ∧
    ((run (initProxy [3, 4, 5] ⟨some (2, 1), 3, .i2⟩) [.getFdata .fill .f4, .editLast]).get 0).dt ≠ .f8 := by
  decide

/-- Array image (its array is heap object 0, of dtype `a.dt`), after ANY history: a `get_fdata` that
    does not hit the cache returns the image's own array itself when the dtype matches, otherwise a new
    array holding the own array's CURRENT values (edits made through any alias of the own array are
    visible); `np.asarray(dataobj)` is always the own array. -/
theorem uncached_reflects_own_array (a : Arr) (h : Hdr) (ops : List Op) (c : Caching) (d : DT)
    (hc : c ≠ .other) (hd : d ≠ .i2) :
    let s := run (initArray a h) ops
    ((s.fcache = none ∨ ∃ i, s.fcache = some i ∧ (s.get i).dt ≠ d) →
        (step s (.getFdata c d)).2.res =
          if a.dt = d then .arr 0 (s.get 0) else .arr s.heap.length ⟨d, (s.get 0).vals, false⟩) ∧
    (step s .asarray).2.res = .arr 0 (s.get 0) ∧ (s.get 0).dt = a.dt := by
  intro s
  have hi : s.img = .array 0 := run_img _ ops
  have hdt : (s.get 0).dt = a.dt := (run_get_dt (initArray a h) ops (i := 0) (by simp [initArray])).1
  refine ⟨fun hm => ?_, asarray_array hi, hdt⟩
  rw [miss_array hi c d hc hd ((fhit_none_iff s d).mpr hm), hdt]

example : (run (initArray ⟨.f8, [3, 4], false⟩ ⟨none, 2, .f8⟩) [.getFdata .fill .f4, .edit 0]).fcache = some 1 ∧
    ((run (initArray ⟨.f8, [3, 4], false⟩ ⟨none, 2, .f8⟩) [.getFdata .fill .f4, .edit 0]).get 1).dt ≠ .f8 := by
  decide

/-! ## Edits are visible only through the cache or the image's own array -/

/-- An array that is neither the image's own array nor in a cache stays so forever. -/
theorem garbage_stays_garbage {s : State} {k : Nat} (hg : s.Garbage k) (hk : k < s.heap.length)
    (ops : List Op) : (run s ops).Garbage k ∧ k < (run s ops).heap.length := by
  induction ops generalizing s with
  | nil => exact ⟨hg, hk⟩
  | cons op ops ih =>
    exact ih (step_garbage hg hk op) (Nat.lt_of_lt_of_le hk (step_len_le s op))

example : (run (initProxy [3] ⟨none, 1, .f4⟩) [.asarray]).Garbage 0 ∧
    0 < (run (initProxy [3] ⟨none, 1, .f4⟩) [.asarray]).heap.length := by
  refine ⟨⟨?_, ?_, ?_⟩, ?_⟩ <;> decide

/-- An in-place edit, at any point of any history, of an array that at that moment is neither the
    image's own array nor held by a cache changes NOTHING that is observed afterwards: all later
    outputs (identities, dtypes, values, writeability, in_memory) are those of the history without the
    edit, and the image ends in the same abstract state. -/
theorem edits_visible_only_via_cache_or_own_array {s : State} (h : s.WF) (pre post : List Op) (k : Nat)
    (hg : (run s pre).Garbage k) :
    trace s (pre ++ .edit k :: post)
      = trace s pre ++ (step (run s pre) (.edit k)).2 :: trace (run s pre) post ∧
    trace s (pre ++ post) = trace s pre ++ trace (run s pre) post ∧
    abs (run s (pre ++ .edit k :: post)) = abs (run s (pre ++ post)) := by
  have hw := run_wf' h pre
  have he : abs (step (run s pre) (.edit k)).1 = abs (run s pre) := abs_edit_garbage hg
  have hwe : (step (run s pre) (.edit k)).1.WF := step_wf' hw _
  have ht : trace (step (run s pre) (.edit k)).1 post = trace (run s pre) post := by
    rw [(sim_run hwe post).1, (sim_run hw post).1, he]
  refine ⟨?_, trace_append s pre post, ?_⟩
  · rw [trace_append]; simp only [trace, ht]
  · rw [run_append, run_append]
    simp only [run]
    rw [(sim_run hwe post).2, (sim_run hw post).2, he]

example : (run (initProxy [3, 4] ⟨none, 2, .f4⟩) [.getFdata .unchanged .f8, .getFdata .fill .f8]).Garbage 0 := by
  refine ⟨?_, ?_, ?_⟩ <;> decide

/-- Conversely, an edit of the cached array IS seen by the next `get_fdata` of that dtype: same
    identity, values + 1. -/
theorem edit_of_cache_is_visible {s : State} {id : Nat} {d : DT} (h : s.WF) (hf : s.fcache = some id)
    (hdt : (s.get id).dt = d) (hro : (s.get id).ro = false)
    (c : Caching) (hc : c ≠ .other) (hd : d ≠ .i2) :
    (step (step s (.edit id)).1 (.getFdata c d)).2.res
      = .arr id ⟨d, (s.get id).vals.map (· + 1), false⟩ :=
  edit_cache_visible h hf hdt hro c hc hd

example : let s := run (initProxy [3, 4] ⟨none, 2, .f4⟩) [.getFdata .fill .f8]
    s.WF ∧ s.fcache = some 0 ∧ (s.get 0).dt = .f8 ∧ (s.get 0).ro = false :=
  ⟨run_wf' (initProxy_wf _ _) _, by decide, by decide, by decide⟩

/-- And an edit of an array image's own array is seen by the next `get_fdata` that does not hit the
    cache (the own array is the image's "file"). -/
theorem edit_of_own_array_is_visible {s : State} {own : Nat} (h : s.WF) (hi : s.img = .array own)
    (hro : (s.get own).ro = false) (c : Caching) (d : DT) (hc : c ≠ .other) (hd : d ≠ .i2)
    (hm : s.fcache = none ∨ ∃ i, s.fcache = some i ∧ (s.get i).dt ≠ d) :
    (step (step s (.edit own)).1 (.getFdata c d)).2.res =
      if (s.get own).dt = d then .arr own ⟨d, (s.get own).vals.map (· + 1), false⟩
      else .arr s.heap.length ⟨d, (s.get own).vals.map (· + 1), false⟩ :=
  edit_own_visible h hi hro c d hc hd ((fhit_none_iff s d).mpr hm)

example : let s := initArray ⟨.i2, [3, 4], false⟩ ⟨none, 2, .i2⟩
    s.WF ∧ s.img = .array 0 ∧ (s.get 0).ro = false ∧ s.fcache = none :=
  ⟨initArray_wf _ _, rfl, rfl, rfl⟩

/-! ## in_memory -/

/-- The `in_memory` value reported after any history `pre ++ [op]`: always true for an array image; for
    a proxy image true exactly when the last cache event of the history (a valid filling `get_fdata` /
    `get_data`, or `uncache`) is a filling read (`filled`, starting from the initial value). -/
theorem in_memory_iff (s : State) (pre : List Op) (op : Op) :
    (step (run s pre) op).2.inMem = (s.img.isArray || filled s.inMemory (pre ++ [op])) := by
  rw [step_out_inMem]
  have := run_inMemory (pre ++ [op]) s
  rw [run_append] at this
  exact this

/-- The same for the states themselves (proxy image from its constructor: not in memory initially). -/
theorem in_memory_history (raw : List Int) (h : Hdr) (ops : List Op) :
    (run (initProxy raw h) ops).inMemory = filled false ops := by
  rw [run_inMemory]; rfl

example : filled false [.getFdata .fill .f4, .uncache, .getFdata .unchanged .f8] = false ∧
    filled false [.uncache, .getData .fill, .getFdata .fill .i2] = true := by decide

/-! ## Header edits -/

/-- What the image returns (all outputs of the non-header ops: identities, dtypes, values,
    in_memory) is the same as if the header edits — on `img.header` or on the header object the image
    was built from — had not happened at all. -/
theorem proxy_ignores_header_edits (s : State) (ops : List Op) :
    dataTrace s ops = trace s (ops.filter (fun o => !o.isHdr)) :=
  dataTrace_eq_filter s ops

/-- … and does not depend on the current contents of either header object: after construction the
    proxy uses only the parameters it copied (`Par.ofHdr`, frozen by `source_never_changes`). -/
theorem proxy_ignores_header_values (s : State) (a b : Hdr) (ops : List Op) :
    dataTrace (s.withHdrs a b) ops = dataTrace s ops :=
  dataTrace_withHdrs s a b ops

example : (initProxy [3] ⟨some (2, 1), 1, .i2⟩).withHdrs ⟨none, 7, .f8⟩ ⟨some (3, 5), 2, .f4⟩
    ≠ initProxy [3] ⟨some (2, 1), 1, .i2⟩ := by decide

example : dataTrace (initProxy [3, 4] ⟨some (2, 1), 2, .i2⟩)
      [.hdr .orig (.scale 3 5), .getFdata .fill .f8, .hdr .img (.dtype .f4), .hdr .orig (.shape 1), .asarray]
    = [⟨.arr 0 ⟨.f8, [7, 9], false⟩, true⟩, ⟨.arr 1 ⟨.f8, [7, 9], false⟩, true⟩] := by decide

end Nb.C13
