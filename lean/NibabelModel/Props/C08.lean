import NibabelModel.Model.C08
/-! Props/C08 — the property theorems for C08 (statements + proofs; helper lemmas live in Lemmas/). -/
namespace Nb.C08

end Nb.C08
