import NibabelModel.Model.C08
import NibabelModel.Lemmas.C08_Vol
import NibabelModel.Lemmas.C08_Trk
import NibabelModel.Lemmas.C08_Tck
import NibabelModel.Lemmas.C08_Ext
import NibabelModel.Lemmas.C08_TckHdr
import NibabelModel.Lemmas.C08_TckChunk
import NibabelModel.Lemmas.C08_PerRead
import NibabelModel.Lemmas.C08_Xml
import NibabelModel.Lemmas.C08_Any
import NibabelModel.Generated.C08
/-! Props/C08 — the property theorems for C08 (a truncated file is never read back as different data). -/
namespace Nb.C08

/-- the header block of the image has the size the format prescribes, its two fields fit their width,
    and a format with a fixed data offset (MGH) is padded up to exactly that offset -/
structure Img.WF (fmt : VolFmt) (img : Img) : Prop where
  hdr : fmt.hdrSize = 16 + img.fill.length
  dlen : img.data.length < 2 ^ 64
  off : singleOff fmt img < 2 ^ 64
  fixed : ∀ o, fmt.fixedOff = some o → o = singleOff fmt img

/-- what a reader may return for a damaged file: an error, or exactly the data written -/
def Safe {α} (r : Except Err α) (want : α) : Prop := r = .ok want ∨ ∃ e, r = .error e

/-- **volume_prefix.**  Single-file volumes (NIfTI-1/2 `.nii`, MGH, and with `exts = false` any
    header‖data layout): whatever prefix of the written file a source delivers (`m` bytes, followed
    by EOF or by an error — i.e. a plain truncated file or a truncated compressed stream), with or
    without `mmap`, loading and reading the data raises or returns exactly the written data; it can
    return them only if the prefix contains all of the data (what is lost is the MGH footer or
    nothing). -/
theorem volume_prefix (fmt : VolFmt) (img : Img) (wf : img.WF fmt) (um : Bool) (m : Nat) (st : Bool) :
    let r := readSingle fmt um ⟨(writeSingle fmt img).take m, st⟩
    Safe r img.data ∧ (r = .ok img.data → img.data = [] ∨ singleOff fmt img + img.data.length ≤ m) := by
  intro r
  simp only [r, readSingle]
  split
  · rename_i e _
    exact ⟨Or.inr ⟨e, rfl⟩, fun h => by cases h⟩
  · rename_i n off hh
    obtain ⟨hb, hrd, hlen, hn, hoff⟩ := readHeader_ok hh
    -- the complete header block was read from the prefix
    have hblk : (hdrBlock img (singleOff fmt img)).length = fmt.hdrSize := by
      simp [hdrBlock, leN_length, wf.hdr]; omega
    have hfile : writeSingle fmt img =
        hdrBlock img (singleOff fmt img) ++ (midBytes fmt img ++ img.data ++ img.footer) := by
      simp [writeSingle, List.append_assoc]
    rw [hfile, ← hblk] at hrd
    have hb' : hb = hdrBlock img (singleOff fmt img) := by
      rcases hdr_of_prefix _ _ _ _ _ hrd (by rw [hlen, hblk]) with h | h
      · exact h
      · rw [h] at hblk; have := wf.hdr; simp at hblk; omega
    have hn' : n = img.data.length := by
      rw [hn, hb', hdrBlock, rdLE_hdr0 _ _ _ wf.dlen]
    have hoff' : off = singleOff fmt img := by
      rw [hoff, hb', hdrBlock, rdLE_hdr8 _ _ _ wf.off]
      cases hfo : fmt.fixedOff with
      | none => rfl
      | some o => simpa using wf.fixed o hfo
    -- the data read
    have hpre : (hdrBlock img (singleOff fmt img) ++ midBytes fmt img).length = singleOff fmt img := by
      simp [hdrBlock, leN_length, singleOff]; omega
    have := readData_prefix um (hdrBlock img (singleOff fmt img) ++ midBytes fmt img) img.data
      img.footer m st
    rw [hpre] at this
    have hfile2 : writeSingle fmt img =
        hdrBlock img (singleOff fmt img) ++ midBytes fmt img ++ img.data ++ img.footer := rfl
    rw [hn', hoff', hfile2]
    exact this

example : Img.WF ⟨348, 348, true, none, 0⟩
    { fill := List.replicate 332 7, extender := [1, 0, 0, 0], exts := [(6, [65, 66, 67, 0, 0, 0, 0, 0])],
      pad := [], data := [1, 2, 3, 4], footer := [] } := by
  refine ⟨by decide +kernel, by decide +kernel, by decide +kernel, fun o h => by cases h⟩

/-- the complete file of that example does load (the reader is not trivially failing) -/
example : readSingle ⟨348, 348, true, none, 0⟩ true (Src.plain (writeSingle ⟨348, 348, true, none, 0⟩
    { fill := List.replicate 332 7, extender := [1, 0, 0, 0], exts := [(6, [65, 66, 67, 0, 0, 0, 0, 0])],
      pad := [], data := [1, 2, 3, 4], footer := [] })) = .ok [1, 2, 3, 4] := by decide +kernel

/-- **volume_prefix_plain.**  The property as stated for a plain file cut at `k < length`. -/
theorem volume_prefix_plain (fmt : VolFmt) (img : Img) (wf : img.WF fmt) (um : Bool) (k : Nat)
    (_hk : k < (writeSingle fmt img).length) :
    let r := readSingle fmt um (Src.plain ((writeSingle fmt img).take k))
    Safe r img.data ∧ (r = .ok img.data → img.data = [] ∨ singleOff fmt img + img.data.length ≤ k) :=
  volume_prefix fmt img wf um k false

/-- **volume_tail_prefix.**  A partial read through the array proxy (`img.dataobj[..., -1]`: the data
    bytes from `a` on, fetched by `fileslice`/`read_segments` as one segment) from any prefix source
    raises or returns exactly that part of the written data. -/
theorem volume_tail_prefix (fmt : VolFmt) (img : Img) (wf : img.WF fmt) (a : Nat) (ha : a ≤ img.data.length)
    (m : Nat) (st : Bool) :
    Safe (readTailSingle fmt ⟨(writeSingle fmt img).take m, st⟩ a) (img.data.drop a) := by
  simp only [readTailSingle]
  split
  · rename_i e _; exact Or.inr ⟨e, rfl⟩
  · rename_i n off hh
    have hfile : writeSingle fmt img =
        hdrBlock img (singleOff fmt img) ++ (midBytes fmt img ++ img.data ++ img.footer) := by
      simp [writeSingle, List.append_assoc]
    have hh' := hh
    rw [hfile] at hh'
    obtain ⟨hn, hoff, _⟩ := header_fields fmt img _ _ true m st n off wf.hdr wf.dlen wf.off hh'
    have hoff' : off = singleOff fmt img := by
      rw [hoff]
      cases hfo : fmt.fixedOff with
      | none => rfl
      | some o => simpa using wf.fixed o hfo
    have hpre : (hdrBlock img (singleOff fmt img) ++ midBytes fmt img ++ img.data.take a).length
        = singleOff fmt img + a := by
      simp [hdrBlock, leN_length, singleOff]; omega
    have hfile2 : writeSingle fmt img =
        (hdrBlock img (singleOff fmt img) ++ midBytes fmt img ++ img.data.take a) ++ img.data.drop a
          ++ img.footer := by
      simp [writeSingle, List.append_assoc]
    have := segRead_prefix (hdrBlock img (singleOff fmt img) ++ midBytes fmt img ++ img.data.take a)
      (img.data.drop a) img.footer m st
    rw [hpre, List.length_drop, ← hfile2] at this
    rw [hn, hoff']
    exact this

/-- **segments_prefix.**  `read_segments` (any number of segments — `fileslice` splits a partial read
    `dataobj[idx]` into several when the gaps exceed `SKIP_THRESH`) against ANY prefix source of a file:
    it raises, or it returns exactly the bytes the complete file holds at these segments; the latter
    only if every non-empty segment — in particular the last one — lies completely inside the prefix. -/
theorem segments_prefix (file : Bytes) (m : Nat) (st : Bool) (segs : List (Nat × Nat)) :
    let r := readSegments ⟨file.take m, st⟩ segs (segsTotal segs)
    Safe r (sliceBytes file segs) ∧
    (r = .ok (sliceBytes file segs) → ∀ sg ∈ segs, 0 < sg.2 → sg.1 + sg.2 ≤ m) :=
  readSegments_prefix file m st segs

example : readSegments (Src.plain [1, 2, 3, 4, 5, 6, 7, 8]) [(1, 2), (5, 3)] (segsTotal [(1, 2), (5, 3)])
    = .ok [2, 3, 6, 7, 8] ∧
    readSegments (Src.plain ([1, 2, 3, 4, 5, 6, 7, 8].take 7)) [(1, 2), (5, 3)] (segsTotal [(1, 2), (5, 3)])
    = .error .trunc := by decide

/-- **volume_slice_prefix.**  A partial read `img.dataobj[idx]` of a single-file volume (segments
    computed by the C06 model of `calc_slicedefs` with the default threshold heuristic, for whatever
    shape / item size the caller states) from any prefix source raises or fetches exactly the bytes the
    complete file holds at the computed segments, all of which then lie inside the prefix. -/
theorem volume_slice_prefix (fmt : VolFmt) (img : Img) (wf : img.WF fmt) (idx : List C06.IdxItem)
    (shape : List Nat) (isz : Nat) (m : Nat) (st : Bool) :
    let file := writeSingle fmt img
    ∀ b, readSliceSingle fmt ⟨file.take m, st⟩ idx shape isz = .ok b →
      ∃ d segs, C06.calcSlicedefs (C06.thresholdHeuristic skipThresh) idx shape isz (singleOff fmt img) .F = .ok d ∧
        natSegs d.segments = some segs ∧ b = sliceBytes file segs ∧
        ∀ sg ∈ segs, 0 < sg.2 → sg.1 + sg.2 ≤ m := by
  intro file b h
  simp only [readSliceSingle] at h
  split at h
  · cases h
  · rename_i n off hh
    have hfile : file =
        hdrBlock img (singleOff fmt img) ++ (midBytes fmt img ++ img.data ++ img.footer) := by
      simp [file, writeSingle, List.append_assoc]
    have hh' := hh
    rw [hfile] at hh'
    obtain ⟨_, hoff, _⟩ := header_fields fmt img _ _ true m st n off wf.hdr wf.dlen wf.off hh'
    have hoff' : off = singleOff fmt img := by
      rw [hoff]
      cases hfo : fmt.fixedOff with
      | none => rfl
      | some o => simpa using wf.fixed o hfo
    subst hoff'
    simp only [readSliceAt] at h
    split at h
    · cases h
    · rename_i d hd
      split at h
      · cases h
      · rename_i segs hs
        have hp := readSegments_prefix file m st segs
        rcases hp.1 with h1 | ⟨e, he⟩
        · refine ⟨d, segs, hd, hs, ?_, hp.2 h1⟩
          rw [h1] at h; cases h; rfl
        · rw [he] at h; cases h

/-- **single_strict_prefix.**  A single-file volume without trailing metadata (NIfTI-1/2 `.nii`: the data
    are the last bytes of the file) holding at least one voxel: EVERY strict prefix raises. -/
theorem single_strict_prefix (fmt : VolFmt) (img : Img) (wf : img.WF fmt) (hf : img.footer = [])
    (hd : img.data ≠ []) (um : Bool) (m : Nat) (st : Bool) (hm : m < (writeSingle fmt img).length) :
    ∃ e, readSingle fmt um ⟨(writeSingle fmt img).take m, st⟩ = .error e := by
  have hv := volume_prefix fmt img wf um m st
  have hlen : (writeSingle fmt img).length = singleOff fmt img + img.data.length := by
    simp [writeSingle, hdrBlock, leN_length, singleOff, hf]; omega
  rcases hv.1 with h1 | he
  · rcases hv.2 h1 with h0 | h0
    · exact absurd h0 hd
    · omega
  · exact he

/-- **cifti_prefix.**  CIFTI-2 (`.dscalar.nii` …: NIfTI-2 single file, XML header in the first
    extension, parsed by expat under the contract of `xmlRead`, matrix = NIfTI data at the end of the
    file): every strict prefix raises — a cut inside the XML extension is refused by the NIfTI
    extension reader before expat sees it, a cut behind it by the data length check.
    NOTE: the proof uses only `single_strict_prefix` (the NIfTI-2 container); the XML inside the extension is
    never reached by a truncated file, so nothing about expat is needed or claimed here. -/
theorem cifti_prefix (fmt : VolFmt) (img : Img) (wf : img.WF fmt) (hf : img.footer = [])
    (hd : img.data ≠ []) (um : Bool) (xmlLen : Nat) (m : Nat) (st : Bool)
    (hm : m < (writeSingle fmt img).length) :
    ∃ e, ciftiRead fmt um xmlLen ⟨(writeSingle fmt img).take m, st⟩ = .error e := by
  obtain ⟨e, he⟩ := single_strict_prefix fmt img wf hf hd um m st hm
  exact ⟨e, by simp [ciftiRead, he]⟩

/-- a CIFTI-like layout: NIfTI-2 header (540), one extension of ecode 32 with an 8-byte XML text, data;
    the complete file loads -/
example : ciftiRead ⟨540, 0, true, none, 0⟩ true 8 (Src.plain (writeSingle ⟨540, 0, true, none, 0⟩
    { fill := List.replicate 524 0, extender := [1, 0, 0, 0], exts := [(32, [60, 67, 73, 70, 84, 73, 47, 62])],
      pad := [], data := [1, 2, 3, 4], footer := [] })) = .ok [1, 2, 3, 4] := by decide +kernel

/-! ### pairs (NIfTI-1/2 `.hdr/.img`, Analyze, SPM99, SPM2) -/

/-- **pair_prefix (header member).**  Header file cut anywhere (image file intact): the load raises
    or returns exactly the written data (what can be lost are the extender / trailing extensions). -/
theorem pair_prefix_header (fmt : VolFmt) (img : Img) (hH : fmt.hdrSize = 16 + img.fill.length)
    (hd : img.data.length < 2 ^ 64) (hf : fmt.fixedOff = none) (um : Bool) (m : Nat) (st : Bool) :
    Safe (readPair fmt um ⟨(writeHdrFile fmt img).take m, st⟩ (Src.plain (writeImgFile img))) img.data := by
  simp only [readPair]
  split
  · rename_i e _; exact Or.inr ⟨e, rfl⟩
  · rename_i n off hh
    have hfile : writeHdrFile fmt img =
        hdrBlock img 0 ++ (if fmt.exts then img.extender ++ extBytes img else []) := rfl
    rw [hfile] at hh
    obtain ⟨hn, hoff, _⟩ := header_fields fmt img 0 _ false m st n off hH hd (by decide) hh
    rw [hf] at hoff
    have := readData_ok um [] img.data [] img.data.length (by simp)
    simp at this
    simp only [hn, hoff, Option.getD_none, writeImgFile, Src.plain]
    exact Or.inl this

/-- **pair_prefix (image member).**  Image file cut before its end (header file intact): always an
    error. -/
theorem pair_prefix_image (fmt : VolFmt) (img : Img) (hH : fmt.hdrSize = 16 + img.fill.length)
    (hd : img.data.length < 2 ^ 64) (hf : fmt.fixedOff = none) (um : Bool) (m : Nat) (st : Bool)
    (hm : m < img.data.length) :
    ∃ e, readPair fmt um (Src.plain (writeHdrFile fmt img)) ⟨(writeImgFile img).take m, st⟩ = .error e := by
  simp only [readPair]
  split
  · rename_i e _; exact ⟨e, rfl⟩
  · rename_i n off hh
    have hfile : Src.plain (writeHdrFile fmt img) =
        ⟨(writeHdrFile fmt img).take (writeHdrFile fmt img).length, false⟩ := by
      rw [List.take_length]; rfl
    rw [hfile] at hh
    obtain ⟨hn, hoff, _⟩ := header_fields fmt img 0
      (if fmt.exts then img.extender ++ extBytes img else []) false _ false n off hH hd (by decide) hh
    rw [hf] at hoff
    have := readData_prefix um [] img.data [] m st
    simp only [List.nil_append, List.append_nil, List.length_nil, Nat.zero_add] at this
    simp only [hn, hoff, Option.getD_none, writeImgFile]
    rcases this.1 with h1 | ⟨e, he⟩
    · rcases this.2 h1 with h0 | h0
      · rw [h0] at hm; simp at hm
      · omega
    · exact ⟨e, he⟩

example : (⟨20, 0, false, none, 0⟩ : VolFmt).hdrSize = 16 + [1, 2, 3, 4].length ∧ 3 < [1, 2, 3, 4].length := by decide

/-- **pair_ext_prefix.**  NIfTI pair WITH extensions, exact characterisation for a plain header file cut
    `j` bytes into the extension section (behind header block and extender; image file intact): the load
    succeeds — returning exactly the written data, having lost only trailing extensions — iff the cut
    falls on an extension-record boundary (`atBoundary`); a cut inside a record (its 8-byte size/code
    head or its content) raises 'failed to read extension header/content'.  Any number of extensions of
    any sizes (`esize < 2^31`). -/
theorem pair_ext_prefix (fmt : VolFmt) (img : Img) (hH : fmt.hdrSize = 16 + img.fill.length)
    (hd : img.data.length < 2 ^ 64) (hf : fmt.fixedOff = none) (hx : fmt.exts = true)
    (hs : fmt.sniffLen ≤ fmt.hdrSize) (hft : fmt.footer = 0) (e0 : Nat) (he : img.extender = [e0, 0, 0, 0])
    (he0 : e0 ≠ 0) (hexts : ∀ e ∈ img.exts, 8 + e.2.length < 2 ^ 31) (um : Bool) (j : Nat)
    (hj : j ≤ (extBytes img).length) :
    readPair fmt um ⟨(writeHdrFile fmt img).take (fmt.hdrSize + 4 + j), false⟩ (Src.plain (writeImgFile img))
      = if atBoundary img.exts j then .ok img.data else .error .trunc :=
  readPair_ext fmt img hH hd hf hx hs hft e0 he he0 hexts um j hj

/-- two extensions of 16 and 32 bytes: boundaries at 0, 16, 48 — nothing in between -/
example : (List.range 49).filter (atBoundary [(6, List.replicate 8 65), (4, List.replicate 24 66)]) = [0, 16, 48] := by
  decide +kernel

/-! ### MGH (footer optional) and every extension-less single file: exact characterisation -/

/-- **mgh_prefix.**  For a single-file format without extension section and without sniffing (MGH:
    header 90 bytes, data at 284, optional 20-byte footer) a plain file cut at `k` loads — with exactly
    the written data — iff `k` reaches the end of the data; every shorter prefix raises.  So the only
    thing a successful load of a truncated MGH file can have lost is (part of) the footer. -/
theorem mgh_prefix (fmt : VolFmt) (img : Img) (wf : img.WF fmt) (hx : fmt.exts = false)
    (hs : fmt.sniffLen = 0) (hd : img.data ≠ []) (um : Bool) (k : Nat) :
    let r := readSingle fmt um (Src.plain ((writeSingle fmt img).take k))
    (singleOff fmt img + img.data.length ≤ k → r = .ok img.data) ∧
    (k < singleOff fmt img + img.data.length → ∃ e, r = .error e) := by
  intro r
  have hv := volume_prefix fmt img wf um k false
  constructor
  · intro hk
    have hhs : fmt.hdrSize ≤ k := by
      have := wf.hdr; simp only [singleOff] at hk; omega
    have hblk : (hdrBlock img (singleOff fmt img)).length = fmt.hdrSize := by
      simp [hdrBlock, leN_length, wf.hdr]; omega
    -- the header phase succeeds
    have hh : ∃ n off, readHeader fmt true ⟨(writeSingle fmt img).take k, false⟩ = .ok (n, off) := by
      have hlen : (writeSingle fmt img).length = singleOff fmt img + img.data.length + img.footer.length := by
        simp [writeSingle, hdrBlock, leN_length, singleOff]; omega
      have hso : fmt.hdrSize ≤ singleOff fmt img := by
        have := wf.hdr; simp only [singleOff]; omega
      unfold readHeader
      simp only [sniffOk, hs, if_true, Bool.false_eq_true, if_false, hx, Src.read,
        Bool.false_and, List.drop_zero, List.length_take]
      rw [if_neg (by simp), if_neg (by omega)]
      split
      · exact ⟨_, _, rfl⟩
      · exact ⟨_, _, rfl⟩
    obtain ⟨n, off, hh⟩ := hh
    have hfile : writeSingle fmt img =
        hdrBlock img (singleOff fmt img) ++ (midBytes fmt img ++ img.data ++ img.footer) := by
      simp [writeSingle, List.append_assoc]
    have hh' := hh
    rw [hfile] at hh'
    obtain ⟨hn, hoff, _⟩ := header_fields fmt img _ _ true k false n off wf.hdr wf.dlen wf.off hh'
    have hoff' : off = singleOff fmt img := by
      rw [hoff]
      cases hfo : fmt.fixedOff with
      | none => rfl
      | some o => simpa using wf.fixed o hfo
    have hpre : (hdrBlock img (singleOff fmt img) ++ midBytes fmt img).length = singleOff fmt img := by
      simp [hdrBlock, leN_length, singleOff]; omega
    have := readData_ok um (hdrBlock img (singleOff fmt img) ++ midBytes fmt img) img.data img.footer k
      (by rw [hpre]; exact hk)
    rw [hpre] at this
    simp only [r, readSingle, Src.plain, hh, hn, hoff']
    exact this
  · intro hk
    rcases hv.1 with h1 | he
    · rcases hv.2 h1 with h0 | h0
      · exact absurd h0 hd
      · omega
    · exact he

/-- the MGH layout satisfies the hypotheses (2×2×2 int16 volume, complete footer) -/
example : Img.WF ⟨90, 0, false, some 284, 20⟩
    { fill := List.replicate 74 0, extender := [], exts := [], pad := List.replicate 194 0,
      data := List.replicate 16 5, footer := List.replicate 20 1 } := by
  refine ⟨by decide +kernel, by decide +kernel, by decide +kernel, fun o h => ?_⟩
  cases h; decide +kernel

/-! ### mmap path = read path -/

/-- **mmap_eq_read.**  On an uncompressed file (`strict = false`) `array_from_file` returns the same
    result through `np.memmap` as through `readinto` — for a file of sufficient length the mapped
    bytes are the bytes read, for a shorter file numpy refuses the map and the read path reports the
    shortage. -/
theorem mmap_eq_read (s : Src) (off n : Nat) (hs : s.strict = false) :
    dataMmap s off n = dataRead s off n := by
  unfold dataMmap
  split
  · rename_i hc
    unfold dataRead
    rw [if_neg (by omega)]
    simp only [Src.read, hs, Bool.false_and, Bool.false_eq_true, if_false]
    rw [if_neg]
    simp only [List.length_take, List.length_drop]; omega
  · rfl

/-! ### TRK -/

/-- **trk_prefix.**  A TRK file as `TrkFile.save` writes it (the header stores the true number `n` of
    streamlines), with `n ≥ 1`: EVERY strict prefix — cut in the header, at a record boundary, or inside a
    record; plain or behind a decompressor — makes the (repaired) reader raise.  (`Trk.WF`: the three
    opaque header regions have their sizes, counts fit their fields, each record holds
    `npts*(3+n_scalars)` + `n_properties` float32 values.) -/
theorem trk_prefix (t : Trk) (wf : t.WF) (h1 : 1 ≤ t.recs.length) (m : Nat) (st : Bool)
    (hm : m < (trkWrite t).length) : ∃ e, trkRead ⟨(trkWrite t).take m, st⟩ = .error e :=
  trkRead_prefix t wf h1 m st hm

/-- two streamlines of one point each, no scalars / properties -/
def trkEx : Trk :=
  { nsc := 0, npr := 0, fillA := List.replicate 36 0, fillB := List.replicate 200 0,
    fillC := List.replicate 748 0,
    recs := [⟨1, List.replicate 12 1, []⟩, ⟨1, List.replicate 12 2, []⟩] }

example : trkEx.WF ∧ 1 ≤ trkEx.recs.length ∧ 1016 < (trkWrite trkEx).length := by
  refine ⟨⟨by decide +kernel, by decide +kernel, by decide +kernel, by decide, by decide, by decide, ?_⟩,
    by decide, by decide +kernel⟩
  intro r hr
  simp only [trkEx, List.mem_cons, List.not_mem_nil, or_false] at hr
  rcases hr with h | h <;> subst h <;> exact ⟨by decide, by decide, by decide⟩

/-- the complete example file reads back as its two streamlines (the reader is not trivially failing) -/
example : trkRead (Src.plain (trkWrite trkEx)) = .ok (trkData trkEx) := by decide +kernel

/-- **trk_prefix_orig_counterexample.**  The pinned reader (no count check, before fix 5204b8c7): the
    example file cut at the boundary after its first record (byte 1016) loads without error as ONE
    streamline although the header announces two — different data; the repaired reader raises. -/
theorem trk_prefix_orig_counterexample :
    trkReadOrig (Src.plain ((trkWrite trkEx).take 1016)) = .ok [(List.replicate 12 1, [])] ∧
    trkReadOrig (Src.plain ((trkWrite trkEx).take 1016)) ≠ .ok (trkData trkEx) ∧
    trkRead (Src.plain ((trkWrite trkEx).take 1016)) = .error .trunc := by
  decide +kernel

/-- **trk_zero_count_header_cut** (observation (a) of the fix).  `_read_header` does not check how many
    bytes `readinto` delivered: for the file of an EMPTY tractogram a 998- or 999-byte prefix (only
    trailing zero bytes of `hdr_size` missing) parses as a valid header and loads as the same empty
    tractogram — the complete, correct data, which the property allows; a 997-byte prefix raises. -/
theorem trk_zero_count_header_cut :
    let t : Trk := { trkEx with recs := [] }
    trkRead (Src.plain ((trkWrite t).take 998)) = .ok (trkData t) ∧
    trkRead (Src.plain ((trkWrite t).take 999)) = .ok (trkData t) ∧
    trkRead (Src.plain ((trkWrite t).take 997)) = .error .bad := by
  decide +kernel

/-! ### TCK -/

/-- **tck_prefix.**  A TCK file as the model of `TckFile.save` writes it — any header lines the line
    scan passes over (`GoodLine`: no newline inside, not read as `END`; e.g. every line whose first byte
    is neither whitespace nor `E`, `goodLine_of_head`), the self-referential `file: . <offset>` line, `END`,
    then streamlines made of 12-byte triples none of which is all-`inf` (finite coordinates in
    particular), each followed by a NaN triple, and the final `inf` triple: EVERY strict prefix makes the
    reader raise, plain or behind a decompressor.  A cut inside the header loses `END` (or the magic); a
    prefix that contains `END` has the complete `file:` line, whose decimal offset parses back to the true
    header length (`tckHeader_length`: the offset computation of `_write_header` reaches its fixed point);
    the data part then lacks the closing `inf` triple or cuts a float / a triple. -/
theorem tck_prefix (t : Tck) (hlines : ∀ l ∈ t.lines, GoodLine l) (hl : StreamsWF t.streams) (m : Nat)
    (st : Bool) (hm : m < (tckWrite t).length) :
    ∃ e, tckRead ⟨(tckWrite t).take m, st⟩ = .error e :=
  tckRead_prefix_of_scan t hl m st hm (scanOk_all t hlines m)

/-- **tck_header_scan_sound.**  For every written header and EVERY cut `m`: if the line scan of the
    truncated file finds an `END` line and a `file:` offset at all, that offset is the true header
    length. -/
theorem tck_header_scan_sound (t : Tck) (hlines : ∀ l ∈ t.lines, GoodLine l) (m : Nat) : ScanOk t m :=
  scanOk_all t hlines m

/-- **tck_data_prefix.**  The data part alone, no side condition: after ANY bytes `pre`, a strict
    prefix of the body read from offset `|pre|` raises. -/
theorem tck_data_prefix (l : List (List Bytes)) (hl : StreamsWF l) (pre : Bytes) (j : Nat)
    (hj : j < (tckBody l).length) (st : Bool) :
    ∃ e, tckData ⟨pre ++ (tckBody l).take j, st⟩ pre.length = .error e :=
  tckData_prefix l hl pre j hj st

/-- "count: 0000000002", "datatype: Float32LE"; two streamlines of 2 and 1 points -/
def tckEx : Tck :=
  { lines := [[99, 111, 117, 110, 116, 58, 32, 48, 48, 48, 48, 48, 48, 48, 48, 48, 50],
              [100, 97, 116, 97, 116, 121, 112, 101, 58, 32, 70, 108, 111, 97, 116, 51, 50, 76, 69]],
    streams := [[[0, 0, 128, 63, 0, 0, 0, 64, 0, 0, 64, 64], [0, 0, 128, 64, 0, 0, 160, 64, 0, 0, 192, 64]],
                [[0, 0, 0, 0, 0, 0, 128, 191, 0, 0, 0, 63]]] }

/-- the hypotheses hold for the example, for EVERY cut; its complete file reads back; and (the whole
    property on the example) every strict prefix raises -/
example : StreamsWF tckEx.streams := by
  intro s hs t ht
  simp only [tckEx, List.mem_cons, List.not_mem_nil, or_false] at hs
  rcases hs with h | h <;> subst h <;> simp only [List.mem_cons, List.not_mem_nil, or_false] at ht
  · rcases ht with h | h <;> subst h <;> decide
  · subst ht; decide

example : ∀ l ∈ tckEx.lines, GoodLine l := by
  intro l hl
  simp only [tckEx, List.mem_cons, List.not_mem_nil, or_false] at hl
  rcases hl with h | h <;> subst h <;>
    exact goodLine_of_head _ _ (by decide) (by decide) (by decide)

example : 100 < (tckWrite tckEx).length := by decide +kernel

example : tckRead (Src.plain (tckWrite tckEx)) = .ok tckEx.streams := by decide +kernel

/-! ### pairs whose image file holds the data at a non-zero `vox_offset`; partial reads of pairs -/

/-- **pair_prefix_header_at.**  `pair_prefix_header` for a pair written with any data offset
    (`hdr.set_data_offset(o)`: the `.img` file is `o` zero bytes ‖ data, the header stores `o`), header
    member cut anywhere, plain or behind a decompressor: raises or returns exactly the written data. -/
theorem pair_prefix_header_at (fmt : VolFmt) (img : Img) (hH : fmt.hdrSize = 16 + img.fill.length)
    (hd : img.data.length < 2 ^ 64) (hp : img.pad.length < 2 ^ 64) (hf : fmt.fixedOff = none) (um : Bool)
    (m : Nat) (st : Bool) :
    Safe (readPair fmt um ⟨(writeHdrFileAt fmt img).take m, st⟩ (Src.plain (writeImgFileAt img))) img.data := by
  simp only [readPair]
  split
  · rename_i e _; exact Or.inr ⟨e, rfl⟩
  · rename_i n off hh
    have hfile : writeHdrFileAt fmt img =
        hdrBlock img img.pad.length ++ (if fmt.exts then img.extender ++ extBytes img else []) := rfl
    rw [hfile] at hh
    obtain ⟨hn, hoff, _⟩ := header_fields fmt img img.pad.length _ false m st n off hH hd hp hh
    rw [hf] at hoff
    have := readData_ok um img.pad img.data [] (img.pad.length + img.data.length) (by simp)
    rw [List.take_of_length_le (by simp)] at this
    simp only [hn, hoff, Option.getD_none, writeImgFileAt, Src.plain]
    exact Or.inl (by simpa using this)

/-- **pair_prefix_image_at.**  The image member (`pad ‖ data`, at least one voxel) cut anywhere before its
    end, header file intact: always an error — with `mmap` (numpy refuses the map) and without. -/
theorem pair_prefix_image_at (fmt : VolFmt) (img : Img) (hH : fmt.hdrSize = 16 + img.fill.length)
    (hd : img.data.length < 2 ^ 64) (hp : img.pad.length < 2 ^ 64) (hf : fmt.fixedOff = none)
    (hne : img.data ≠ []) (um : Bool) (m : Nat) (st : Bool) (hm : m < (writeImgFileAt img).length) :
    ∃ e, readPair fmt um (Src.plain (writeHdrFileAt fmt img)) ⟨(writeImgFileAt img).take m, st⟩ = .error e := by
  simp only [readPair]
  split
  · rename_i e _; exact ⟨e, rfl⟩
  · rename_i n off hh
    have hfile : Src.plain (writeHdrFileAt fmt img) =
        ⟨(writeHdrFileAt fmt img).take (writeHdrFileAt fmt img).length, false⟩ := by
      rw [List.take_length]; rfl
    rw [hfile] at hh
    obtain ⟨hn, hoff, _⟩ := header_fields fmt img img.pad.length
      (if fmt.exts then img.extender ++ extBytes img else []) false _ false n off hH hd hp hh
    rw [hf] at hoff
    have := readData_prefix um img.pad img.data [] m st
    simp only [List.append_nil] at this
    simp only [hn, hoff, Option.getD_none, writeImgFileAt]
    simp only [writeImgFileAt, List.length_append] at hm
    rcases this.1 with h1 | ⟨e, he⟩
    · rcases this.2 h1 with h0 | h0
      · exact absurd h0 hne
      · omega
    · exact ⟨e, he⟩

/-- **pair_slice_prefix.**  A partial read `img.dataobj[idx]` of a PAIR, header file and image file each
    replaced by any prefix source (`mh`/`mi` bytes, EOF or error at the end; `mh`, `mi` beyond the length =
    intact): if it returns at all, the header yielded the written offset and the bytes are exactly those
    the complete image file holds at the segments the C06 model of `calc_slicedefs` computes for that
    offset, every non-empty segment lying inside the image-file prefix. -/
theorem pair_slice_prefix (fmt : VolFmt) (img : Img) (hH : fmt.hdrSize = 16 + img.fill.length)
    (hd : img.data.length < 2 ^ 64) (hp : img.pad.length < 2 ^ 64) (hf : fmt.fixedOff = none)
    (idx : List C06.IdxItem) (shape : List Nat) (isz : Nat) (mh mi : Nat) (sth sti : Bool) :
    let file := writeImgFileAt img
    ∀ b, readSlicePair fmt ⟨(writeHdrFileAt fmt img).take mh, sth⟩ ⟨file.take mi, sti⟩ idx shape isz = .ok b →
      ∃ d segs, C06.calcSlicedefs (C06.thresholdHeuristic skipThresh) idx shape isz img.pad.length .F = .ok d ∧
        natSegs d.segments = some segs ∧ b = sliceBytes file segs ∧
        ∀ sg ∈ segs, 0 < sg.2 → sg.1 + sg.2 ≤ mi := by
  intro file b h
  simp only [readSlicePair] at h
  split at h
  · cases h
  · rename_i n off hh
    have hfile : writeHdrFileAt fmt img =
        hdrBlock img img.pad.length ++ (if fmt.exts then img.extender ++ extBytes img else []) := rfl
    rw [hfile] at hh
    obtain ⟨_, hoff, _⟩ := header_fields fmt img img.pad.length _ false mh sth n off hH hd hp hh
    rw [hf] at hoff
    simp only [Option.getD_none] at hoff
    subst hoff
    simp only [readSliceAt] at h
    split at h
    · cases h
    · rename_i d hd'
      split at h
      · cases h
      · rename_i segs hs
        have hpfx := readSegments_prefix file mi sti segs
        rcases hpfx.1 with h1 | ⟨e, he⟩
        · refine ⟨d, segs, hd', hs, ?_, hpfx.2 h1⟩
          rw [h1] at h; cases h; rfl
        · rw [he] at h; cases h

/-- **pair_tail_prefix.**  The one-segment partial read (`dataobj[..., -1]`: data bytes from `a` on) of a pair
    with either member cut: raises or returns exactly that part of the written data. -/
theorem pair_tail_prefix (fmt : VolFmt) (img : Img) (hH : fmt.hdrSize = 16 + img.fill.length)
    (hd : img.data.length < 2 ^ 64) (hp : img.pad.length < 2 ^ 64) (hf : fmt.fixedOff = none)
    (a : Nat) (ha : a ≤ img.data.length) (mh mi : Nat) (sth sti : Bool) :
    Safe (readTailPair fmt ⟨(writeHdrFileAt fmt img).take mh, sth⟩ ⟨(writeImgFileAt img).take mi, sti⟩ a)
      (img.data.drop a) := by
  simp only [readTailPair]
  split
  · rename_i e _; exact Or.inr ⟨e, rfl⟩
  · rename_i n off hh
    have hfile : writeHdrFileAt fmt img =
        hdrBlock img img.pad.length ++ (if fmt.exts then img.extender ++ extBytes img else []) := rfl
    rw [hfile] at hh
    obtain ⟨hn, hoff, _⟩ := header_fields fmt img img.pad.length _ false mh sth n off hH hd hp hh
    rw [hf] at hoff
    simp only [Option.getD_none] at hoff
    have hpre : (img.pad ++ img.data.take a).length = img.pad.length + a := by
      simp; omega
    have hfile2 : writeImgFileAt img = (img.pad ++ img.data.take a) ++ img.data.drop a ++ [] := by
      simp [writeImgFileAt, List.append_assoc]
    have := segRead_prefix (img.pad ++ img.data.take a) (img.data.drop a) [] mi sti
    rw [hpre, List.length_drop, ← hfile2] at this
    rw [hn, hoff]
    exact this


/-- an Analyze-like pair with the data at offset 3 of the image file: hypotheses hold, the complete pair
    loads, and the image file cut inside the data raises -/
example : let fmt : VolFmt := ⟨20, 0, false, none, 0⟩
    let img : Img := { fill := [1, 2, 3, 4], extender := [], exts := [], pad := [0, 0, 0], data := [5, 6, 7, 8], footer := [] }
    fmt.hdrSize = 16 + img.fill.length ∧ img.data ≠ [] ∧ 5 < (writeImgFileAt img).length ∧
    readPair fmt true (Src.plain (writeHdrFileAt fmt img)) (Src.plain (writeImgFileAt img)) = .ok [5, 6, 7, 8] ∧
    readPair fmt true (Src.plain (writeHdrFileAt fmt img)) (Src.plain ((writeImgFileAt img).take 5)) = .error .trunc ∧
    readTailPair fmt (Src.plain (writeHdrFileAt fmt img)) (Src.plain (writeImgFileAt img)) 2 = .ok [7, 8] := by
  decide +kernel

/-! ### TCK: the chunked loop -/

/-- **tck_chunked_eq.**  `TckFile._read` fetches the data in chunks of `buffer_size` bytes (a positive
    multiple of 12), carries the leftover triples into the next chunk, and stops at the first short chunk.
    For EVERY source (any bytes at all, EOF or error at the end), every data offset and every such buffer
    size the chunked loop returns exactly what the whole-buffer model `tckData` returns — same streamlines
    or same error; hence the complete reader `tckReadB B` equals `tckRead`. -/
theorem tck_chunked_eq (B : Nat) (hB0 : 0 < B) (hB : B % 12 = 0) (s : Src) :
    (∀ off, tckDataChunked B s off = tckData s off) ∧ tckReadB B s = tckRead s :=
  ⟨tckDataChunked_eq B hB0 hB s, tckReadB_eq B hB0 hB s⟩

/-- **tck_prefix_chunked.**  `tck_prefix` for the reader as it really loops, for every buffer size — in
    particular the one the working tree uses (`Gen.tckBufferBytes`, measured by `regen()`), and for the
    12/24/36…-byte buffers the correspondence runs the real code with. -/
theorem tck_prefix_chunked (B : Nat) (hB0 : 0 < B) (hB : B % 12 = 0) (t : Tck)
    (hlines : ∀ l ∈ t.lines, GoodLine l) (hl : StreamsWF t.streams) (m : Nat) (st : Bool)
    (hm : m < (tckWrite t).length) :
    ∃ e, tckReadB B ⟨(tckWrite t).take m, st⟩ = .error e := by
  rw [tckReadB_eq B hB0 hB]; exact tck_prefix t hlines hl m st hm

/-- the example file read in 24-byte chunks (a streamline spans two chunks) reads back completely; cut
    before the final `inf` triple it raises -/
example : tckReadB 24 (Src.plain (tckWrite tckEx)) = .ok tckEx.streams ∧
    tckReadB 24 (Src.plain ((tckWrite tckEx).take ((tckWrite tckEx).length - 12))) = .error .trunc := by
  decide +kernel

/-! ### XML formats: through the expat contract only -/

/-- **xml_prefix.**  Under the expat contract written into `xmlRead` ("a document lacking its root end
    tag raises"), every strict prefix of a document that ends with its root end tag raises.
    NOTE: this only restates the `if bytes < rootEnd then error` of `xmlRead` — GIFTI / CIFTI-2 XML truncation
    safety is an ASSUMPTION about expat, not a result; what is proved about nibabel's side (the block loop with
    its closing final call) is `xml_driver_prefix` below. -/
theorem xml_prefix (doc : Bytes) (m : Nat) (st : Bool) (hm : m < doc.length) :
    ∃ e, xmlRead doc.length ⟨doc.take m, st⟩ = .error e := by
  unfold xmlRead Src.readAll
  cases st
  · simp only [Bool.false_eq_true, if_false, List.drop_zero, List.length_take]
    rw [if_pos (by omega)]; exact ⟨_, rfl⟩
  · exact ⟨_, rfl⟩

/-! ### per-read end-of-stream behaviour (a decompressor that hands out a short read once and raises later) -/

/-- **volume_prefix_per_read.**  `volume_prefix` with the end-of-stream behaviour decided PER READ: the opened
    file holds the first `m` bytes of the written file and every single request `seek; read(n)` of the reader
    (sniff, header block, extender, each extension head and content, data, footer) independently either
    delivers exactly the available part or raises (`ReadsOf`; it may raise at any time).  Loading + reading
    raises or returns exactly the written data, the latter only if the prefix contains all the data.
    (`readSingleG … s.bytes s.read = readSingle … s`: `readSingleG_inst`; the two pure behaviours of `Src` are
    the instances `raise never` / `raise whenever the request reaches beyond the end`.) -/
theorem volume_prefix_per_read (fmt : VolFmt) (img : Img) (wf : img.WF fmt) (um : Bool) (m : Nat)
    (rd : Nat → Nat → Except Err Bytes) (h : ReadsOf ((writeSingle fmt img).take m) rd) :
    let r := readSingleG fmt um ((writeSingle fmt img).take m) rd
    Safe r img.data ∧ (r = .ok img.data → img.data = [] ∨ singleOff fmt img + img.data.length ≤ m) := by
  intro r
  have hv := volume_prefix fmt img wf um m false
  rcases readSingleG_mono h fmt um with h1 | ⟨e, h1⟩
  · simp only [r, h1]; exact hv
  · simp only [r, h1]; exact ⟨Or.inr ⟨e, rfl⟩, fun hc => by cases hc⟩

/-- **pair_prefix_per_read.**  Pairs (any data offset) under per-read behaviour of BOTH file objects: header
    member cut anywhere (image intact): raises or returns exactly the written data; image member (≥ 1 voxel)
    cut before its end (header intact): always raises. -/
theorem pair_prefix_per_read (fmt : VolFmt) (img : Img) (hH : fmt.hdrSize = 16 + img.fill.length)
    (hd : img.data.length < 2 ^ 64) (hp : img.pad.length < 2 ^ 64) (hf : fmt.fixedOff = none) (um : Bool) (m : Nat)
    (hrd ird : Nat → Nat → Except Err Bytes) :
    (ReadsOf ((writeHdrFileAt fmt img).take m) hrd → ReadsOf (writeImgFileAt img) ird →
      Safe (readPairG fmt um ((writeHdrFileAt fmt img).take m) hrd (writeImgFileAt img) ird) img.data) ∧
    (ReadsOf (writeHdrFileAt fmt img) hrd → ReadsOf ((writeImgFileAt img).take m) ird → img.data ≠ [] →
      m < (writeImgFileAt img).length →
      ∃ e, readPairG fmt um (writeHdrFileAt fmt img) hrd ((writeImgFileAt img).take m) ird = .error e) := by
  constructor
  · intro hh hi
    rcases readPairG_mono hh hi fmt um with h1 | ⟨e, h1⟩
    · rw [h1]; exact pair_prefix_header_at fmt img hH hd hp hf um m false
    · rw [h1]; exact Or.inr ⟨e, rfl⟩
  · intro hh hi hne hm
    rcases readPairG_mono hh hi fmt um with h1 | ⟨e, h1⟩
    · rw [h1]; exact pair_prefix_image_at fmt img hH hd hp hf hne um m false hm
    · exact ⟨e, h1⟩

/-- **segments_prefix_per_read.**  `read_segments` under per-read behaviour: raises, or returns exactly the
    bytes of the complete file at the segments, every non-empty segment lying inside the prefix. -/
theorem segments_prefix_per_read (file : Bytes) (m : Nat) (segs : List (Nat × Nat))
    (rd : Nat → Nat → Except Err Bytes) (h : ReadsOf (file.take m) rd) :
    let r := readSegmentsG rd segs (segsTotal segs)
    Safe r (sliceBytes file segs) ∧
    (r = .ok (sliceBytes file segs) → ∀ sg ∈ segs, 0 < sg.2 → sg.1 + sg.2 ≤ m) := by
  intro r
  have hv := segments_prefix file m false segs
  rcases readSegmentsG_mono h segs (segsTotal segs) with h1 | ⟨e, h1⟩
  · simp only [r, h1]; exact hv
  · simp only [r, h1]; exact ⟨Or.inr ⟨e, rfl⟩, fun hc => by cases hc⟩

/-- a request function that hands out ONE short read (the header request) and raises on every later request
    reaching beyond the end: `ReadsOf` holds, the complete file loads, the cut file raises -/
example : let fmt : VolFmt := ⟨20, 0, false, none, 0⟩
    let img : Img := { fill := [1, 2, 3, 4], extender := [], exts := [], pad := [], data := [5, 6, 7, 8], footer := [] }
    let rdOf (b : Bytes) : Nat → Nat → Except Err Bytes := fun pos n =>
      if pos ≠ 0 ∧ b.length < pos + n then .error .trunc else .ok ((b.drop pos).take n)
    (∀ b, ReadsOf b (rdOf b)) ∧
    readSingleG fmt false (writeSingle fmt img) (rdOf (writeSingle fmt img)) = .ok [5, 6, 7, 8] ∧
    readSingleG fmt false ((writeSingle fmt img).take 22) (rdOf ((writeSingle fmt img).take 22)) = .error .trunc := by
  refine ⟨?_, by decide +kernel, by decide +kernel⟩
  intro b pos n
  by_cases hc : pos ≠ 0 ∧ b.length < pos + n
  · right; exact ⟨.trunc, by simp [hc]⟩
  · left; simp [hc]

/-! ### XML: the driver around expat -/

/-- **xml_driver_prefix.**  `XmlParser.parse` → `ParseFile`: blocks of any size `bs` are fed with `final = False`
    and, at EOF, one closing call `Parse(b'', True)` is made.  For EVERY expat satisfying the contract ("a final
    call on a document that lacks its root end tag raises" — the one ASSUMPTION about expat; nothing is assumed
    about non-final calls) every strict prefix of a document ending with its root end tag raises, plain or
    behind a decompressor.  This — not `xml_prefix`, which merely restates the contract built into `xmlRead` —
    is the statement about nibabel's side of GIFTI/CIFTI-2 XML truncation safety. -/
theorem xml_driver_prefix (E : Expat) (doc : Bytes) (hE : E.Contract doc.length) (bs m : Nat) (st : Bool)
    (hm : m < doc.length) : ∃ e, xmlParseFile E bs ⟨doc.take m, st⟩ = .error e := by
  unfold xmlParseFile
  exact xmlFeedLoop_final_prefix E doc.length hE (doc.take m) st bs
    (by rw [List.length_take]; omega) _ 0 [] rfl (Nat.zero_le _)

/-- **xml_driver_no_final_counterexample** (seeded change C08_6).  The same loop WITHOUT the closing final
    call: an expat that satisfies the contract accepts a strict prefix (5 of 8 bytes) without any error,
    whereas `ParseFile` refuses it and accepts the complete document. -/
theorem xml_driver_no_final_counterexample :
    (lazyExpat 8).Contract 8 ∧
    xmlParseNoFinal (lazyExpat 8) 3 (Src.plain ([1, 2, 3, 4, 5, 6, 7, 8].take 5)) = .ok [1, 2, 3, 4, 5] ∧
    xmlParseFile (lazyExpat 8) 3 (Src.plain ([1, 2, 3, 4, 5, 6, 7, 8].take 5)) = .error .trunc ∧
    xmlParseFile (lazyExpat 8) 3 (Src.plain [1, 2, 3, 4, 5, 6, 7, 8]) = .ok [1, 2, 3, 4, 5, 6, 7, 8] :=
  ⟨lazyExpat_contract 8, by decide, by decide, by decide⟩

example : (lazyExpat 8).Contract [1, 2, 3, 4, 5, 6, 7, 8].length ∧ 5 < [1, 2, 3, 4, 5, 6, 7, 8].length :=
  ⟨lazyExpat_contract 8, by decide⟩

/-! ### compressed access -/

/-- **codec_lift.**  Any reader that is safe on every prefix-source of a file (plain EOF or error at
    the end) stays safe when the file is stored through a codec satisfying the prefix contract and the
    compressed stream is cut anywhere. -/
theorem codec_lift {α} (c : Codec) (R : Src → Except Err α) (file : Bytes) (want : α)
    (hR : ∀ m st, Safe (R ⟨file.take m, st⟩) want) (k : Nat) (hk : k < (c.compress file).length) :
    Safe (R (c.decompress ((c.compress file).take k))) want := by
  obtain ⟨m, st, _, h⟩ := c.prefix_contract file k hk
  rw [h]; exact hR m st

/-- a codec with an end marker: lax before the marker … strict when it is missing -/
def markerCodec : Codec where
  compress x := x ++ [255]
  decompress b := if b.getLast? = some 255 then Src.plain b.dropLast else ⟨b, true⟩
  roundtrip x := by simp
  prefix_contract x k hk := by
    simp only [List.length_append, List.length_singleton] at hk
    have hk' : k ≤ x.length := by omega
    have : (x ++ [255]).take k = x.take k := by
      rw [List.take_append_of_le_length hk']
    rw [this]
    split
    · refine ⟨k - 1, false, by omega, ?_⟩
      simp only [Src.plain, List.dropLast_eq_take, List.length_take, List.take_take]
      congr 2; omega
    · exact ⟨k, true, hk', rfl⟩

/-- **codec_lift_volume.**  A truncated compressed single-file volume (`.nii.gz`, `.nii.bz2`, `.mgz`, …)
    raises or yields exactly the written data, for every codec satisfying the contract. -/
theorem codec_lift_volume (c : Codec) (fmt : VolFmt) (img : Img) (wf : img.WF fmt) (um : Bool) (k : Nat)
    (hk : k < (c.compress (writeSingle fmt img)).length) :
    Safe (readSingle fmt um (c.decompress ((c.compress (writeSingle fmt img)).take k))) img.data :=
  codec_lift c (readSingle fmt um) _ _ (fun m st => (volume_prefix fmt img wf um m st).1) k hk

example : 3 < (markerCodec.compress [1, 2, 3]).length := by decide

/-! ### constants regenerated from the source on every run -/

/-- **gen_constants_ok.**  The constants the model hard-codes are the ones the working tree of nibabel
    declares (TRK header size and field offsets/widths, TCK magic and delimiters, sniff size), the TCK
    delimiters are recognised as NaN / inf triples by the model's float classifier, and every writable
    volume class has a layout the volume theorems apply to (header block of at least 16 bytes, sniff
    within the header block; a format with a footer has a fixed data offset, no extension section and
    no sniff — the hypotheses of `mgh_prefix`); the measured TCK read buffer is a positive multiple of 12
    (the hypothesis of `tck_chunked_eq`). -/
theorem gen_constants_ok :
    Gen.trkHdrSize = trkHdrSize ∧ Gen.trkDtypeSize = trkHdrSize ∧ Gen.trkOffNsc = trkOffNsc ∧
    Gen.trkOffNpr = trkOffNpr ∧ Gen.trkOffCount = trkOffCount ∧ Gen.trkOffVersion = trkOffVersion ∧
    Gen.trkOffHdrSize = trkOffHdrSize ∧ Gen.trkWidths = [2, 2, 4, 4, 4] ∧
    Gen.tckMagic = tckMagic ∧ Gen.tckFiberDelim = nanTriple ∧ Gen.tckEofDelim = infTriple ∧
    tripleAll f32IsNaN nanTriple = true ∧ tripleAll f32IsInf infTriple = true ∧
    Gen.sniffMax = 1024 ∧ Gen.skipThresh = skipThresh ∧
    0 < Gen.tckBufferBytes ∧ Gen.tckBufferBytes % 12 = 0 ∧
    (∀ f ∈ Gen.volFmts, 16 ≤ f.hdrSize ∧ f.sniffLen ≤ f.hdrSize ∧ f.sniffLen ≤ Gen.sniffMax ∧
      (f.footer ≠ 0 → f.fixedOff.isSome ∧ f.exts = false ∧ f.sniffLen = 0)) := by
  decide

/-- **tck_prefix_shipped_buffer.**  `tck_prefix` for the chunked reader with the buffer size the working
    tree really uses (`Gen.tckBufferBytes`, measured by `regen()` on every run with a recording file
    object; the proof re-checks that it is a positive multiple of 12). -/
theorem tck_prefix_shipped_buffer (t : Tck) (hlines : ∀ l ∈ t.lines, GoodLine l) (hl : StreamsWF t.streams)
    (m : Nat) (st : Bool) (hm : m < (tckWrite t).length) :
    ∃ e, tckReadB Gen.tckBufferBytes ⟨(tckWrite t).take m, st⟩ = .error e :=
  tck_prefix_chunked Gen.tckBufferBytes (by decide) (by decide) t hlines hl m st hm

example : tckReadB Gen.tckBufferBytes (Src.plain (tckWrite tckEx)) = .ok tckEx.streams := by
  rw [tckReadB_eq _ (by decide) (by decide)]; decide +kernel

/-! ### phase 4: tractogram readers against ANY chunking / per-read behaviour; `buffer_size`; header refusal -/

/-- **tck_any_chunking.**  `TckFile._read` against ANY chunking of the byte stream.  The opened file holds the
    first `m` bytes of a written TCK file (`m` ≥ length: the complete file) and EVERY `readinto` of the data loop
    may independently deliver fewer bytes than are available — a raw / unbuffered stream, a pipe, a decompressor
    handing out what it has — or raise (`ShortReadsOf`); the file object may also raise during the header line
    scan (`hdrErr`).  `_read` takes `n_read != buffer_size` for end of file, so it may stop early — but then the
    closing `inf` triple is missing: for every buffer size that is a positive multiple of 12 the reader raises or
    returns EXACTLY the (non-empty) streamlines written, the latter only if the file is complete.  (Streamline
    points: 12-byte triples, none all-`inf`, none all-NaN.)  Proof: the chunks consumed are the first `L` bytes
    for some `L` (`chunkLoopG_short`), so the result is the whole-buffer result on a prefix, which
    `tck_data_prefix` refuses unless it is the whole body (`tck_complete_roundtrip`). -/
theorem tck_any_chunking (B : Nat) (hB0 : 0 < B) (hB : B % 12 = 0) (t : Tck) (hlines : ∀ l ∈ t.lines, GoodLine l)
    (hl : StreamsWF t.streams) (hn : NoNaN t.streams) (m : Nat) (rd : Nat → Nat → Except Err Bytes)
    (h : ShortReadsOf ((tckWrite t).take m) rd) (hdrErr : Option Err) :
    let r := tckReadBG B ((tckWrite t).take m) rd hdrErr
    Safe r (t.streams.filter (· ≠ [])) ∧ (r = .ok (t.streams.filter (· ≠ [])) → (tckWrite t).length ≤ m) := by
  intro r
  rcases tckReadBG_any B hB0 hB t hlines hl m rd h hdrErr with ⟨e, he⟩ | ⟨hm, hr⟩
  · simp only [r, he]; exact ⟨Or.inr ⟨e, rfl⟩, fun hc => by cases hc⟩
  · have hc : tckData (Src.plain (tckWrite t)) (tckHeader t).length = .ok (t.streams.filter (· ≠ [])) := by
      rw [tckWrite]; exact tckData_complete t.streams hl hn (tckHeader t)
    simp only [r, hr, hc]
    exact ⟨Or.inl rfl, fun _ => hm⟩

/-- a short-read schedule is a `ShortReadsOf` file object; the example file in 24-byte chunks: served in full it
    reads back, with the SECOND chunk delivered short (12 of 24 bytes, no EOF) `_read` stops early and raises -/
example : (∀ sched, ShortReadsOf (tckWrite tckEx) (schedRd (tckWrite tckEx) (tckHeader tckEx).length 24 sched)) ∧
    NoNaN tckEx.streams ∧
    tckReadBG 24 (tckWrite tckEx) (schedRd (tckWrite tckEx) (tckHeader tckEx).length 24 []) none = .ok tckEx.streams ∧
    tckReadBG 24 (tckWrite tckEx) (schedRd (tckWrite tckEx) (tckHeader tckEx).length 24 [some 24, some 12]) none
      = .error .trunc := by
  refine ⟨fun sched => schedRd_short _ _ _ sched, ?_, by decide +kernel, by decide +kernel⟩
  intro s hs t ht
  simp only [tckEx, List.mem_cons, List.not_mem_nil, or_false] at hs
  rcases hs with h | h <;> subst h <;> simp only [List.mem_cons, List.not_mem_nil, or_false] at ht
  · rcases ht with h | h <;> subst h <;> decide
  · subst ht; decide

/-- **tck_chunkedG_inst.**  Refinement link: with the request function of a `Src` the abstracted reader IS
    `tckReadB` (which `tck_chunked_eq` proves equal to the whole-buffer model). -/
theorem tck_chunkedG_inst (B : Nat) (s : Src) : tckReadBG B s.bytes s.read none = tckReadB B s := by
  simp only [tckReadBG, tckReadB, tckDataChunked, tckChunkLoopG_inst]
  rfl

/-- **tck_complete_roundtrip.**  The positive half: the data part of a COMPLETE written file (after any header
    bytes `pre`) reads back as exactly the non-empty streamlines written (`_read` skips empty ones). -/
theorem tck_complete_roundtrip (l : List (List Bytes)) (hl : StreamsWF l) (hn : NoNaN l) (pre : Bytes) :
    tckData (Src.plain (pre ++ tckBody l)) pre.length = .ok (l.filter (· ≠ [])) :=
  tckData_complete l hl hn pre

example : tckData (Src.plain (tckHeader tckEx ++ tckBody tckEx.streams)) (tckHeader tckEx).length
    = .ok tckEx.streams := by decide +kernel

/-- **trk_prefix_per_read.**  `trk_prefix` with the end-of-stream behaviour decided PER READ: every request of
    `TrkFile._read_header` / `_read` (header block, each record's point count, point rows, properties)
    independently delivers exactly the available part of the first `m` bytes or raises (`ReadsOf`): every strict
    prefix of a written TRK file (header count ≥ 1) raises.  (`trk_per_read_inst`: with the request function of
    a `Src` the abstracted reader is `trkReadGen`.) -/
theorem trk_prefix_per_read (t : Trk) (wf : t.WF) (h1 : 1 ≤ t.recs.length) (m : Nat)
    (hm : m < (trkWrite t).length) (rdf : Nat → Nat → Except Err Bytes)
    (h : ReadsOf ((trkWrite t).take m) rdf) :
    ∃ e, trkReadGenG true ((trkWrite t).take m) rdf = .error e := by
  rcases trkReadGenG_mono h true with h2 | he
  · rw [h2, trkReadGenG_lax]; exact trk_prefix t wf h1 m false hm
  · exact he

/-- **trk_per_read_inst.**  Refinement link for the TRK reader over a request function. -/
theorem trk_per_read_inst (check : Bool) (s : Src) : trkReadGenG check s.bytes s.read = trkReadGen check s :=
  trkReadGenG_inst check s

example : ReadsOf ((trkWrite trkEx).take 1016) (laxRd ((trkWrite trkEx).take 1016)) ∧
    trkReadGenG true (trkWrite trkEx) (laxRd (trkWrite trkEx)) = .ok (trkData trkEx) := by
  refine ⟨laxRd_readsOf _, ?_⟩
  rw [trkReadGenG_lax]; decide +kernel

/-- **tck_buffer_size_ok.**  The `buffer_size` arithmetic of `TckFile._read` (`buffer_size += coordinate_size -
    (buffer_size % coordinate_size)`), for EVERY requested size `n` and coordinate size `c > 0`: the result is a
    positive multiple of `c` in `(n, n + c]` — so the hypothesis "positive multiple of 12" of `tck_chunked_eq` /
    `tck_any_chunking` holds whatever `buffer_size` a caller passes — and the statement as TRANSLATED FROM THE
    AST of the working tree (`Gen.tckBufAdjust`, Python ints as `Int`) computes exactly this. -/
theorem tck_buffer_size_ok (n c : Nat) (hc : 0 < c) :
    tckBufferSize n c % c = 0 ∧ n < tckBufferSize n c ∧ tckBufferSize n c ≤ n + c ∧
    Gen.tckBufAdjust n c = (tckBufferSize n c : Int) := by
  have hr := Nat.mod_lt n hc
  have hd := Nat.div_add_mod n c
  have e : tckBufferSize n c = c * (n / c + 1) := by
    unfold tckBufferSize
    rw [Nat.mul_add]
    generalize c * (n / c) = q at hd ⊢
    omega
  refine ⟨by rw [e]; exact Nat.mul_mod_right _ _, by unfold tckBufferSize; omega,
    by unfold tckBufferSize; omega, ?_⟩
  unfold Gen.tckBufAdjust tckBufferSize
  rw [← Int.natCast_emod]
  omega

example : tckBufferSize 4194304 12 = 4194312 ∧ tckBufferSize 24 12 = 36 := by decide

/-- **tck_shipped_buffer_derived.**  The chunk size is now DERIVED, not only measured: `3 * itemsize = 12` (AST),
    and the number of bytes the running `_read` really requests per `readinto` (`Gen.tckBufferBytes`, recording
    file object) equals the AST-translated arithmetic applied to `int(default * MEGABYTE)`. -/
theorem tck_shipped_buffer_derived :
    Gen.tckCoordSize Gen.tckItemSize = 12 ∧
    Gen.tckBufferBytes = tckBufferSize Gen.tckBufRequested 12 ∧
    (Gen.tckBufferBytes : Int) = Gen.tckBufAdjust Gen.tckBufRequested (Gen.tckCoordSize Gen.tckItemSize) := by
  decide

/-- **header_refusal_total.**  Which loader refuses which short header — total over the regenerated class table
    (`Gen.volFmts`: header size and sniff length of every writable volume class, from the working tree), for
    `nib.load` (sniffing) and `Class.from_filename` (`noSniff`), single files and pair headers, plain files and
    decompressors alike: a header file holding fewer bytes than the class's binary block is ALWAYS refused by both
    entry points; and for the extension-less classes (Analyze / SPM99 / SPM2 / MGH) a plain file holding at least
    the binary block ALWAYS passes the header phase of both (so the cut point `hdrSize` is exact). -/
theorem header_refusal_total :
    ∀ f ∈ Gen.volFmts, ∀ (single : Bool) (s : Src),
      (s.bytes.length < f.hdrSize →
        (∃ e, readHeader f single s = .error e) ∧ (∃ e, readHeader f.noSniff single s = .error e)) ∧
      (f.exts = false → s.strict = false → f.hdrSize ≤ s.bytes.length →
        (∃ r, readHeader f single s = .ok r) ∧ (∃ r, readHeader f.noSniff single s = .ok r)) := by
  intro f hf single s
  have hsn : f.sniffLen ≤ f.hdrSize := (gen_constants_ok.2.2.2.2.2.2.2.2.2.2.2.2.2.2.2.2.2 f hf).2.1
  refine ⟨fun h => ⟨short_header_refused f single s h, short_header_refused f.noSniff single s h⟩, ?_⟩
  intro hx hst hlen
  obtain ⟨b, st⟩ := s
  simp only at hst hlen
  subst hst
  have h1 : hdrRefuses f b.length = false := by
    simp only [hdrRefuses, Bool.or_eq_false_iff, decide_eq_false_iff_not, Nat.not_lt]; omega
  have h2 : hdrRefuses f.noSniff b.length = false := by
    simp only [hdrRefuses, VolFmt.noSniff, Bool.or_eq_false_iff]
    exact ⟨decide_eq_false (by omega), decide_eq_false (by omega)⟩
  have d1 := plain_header_decision f hx single b
  have d2 := plain_header_decision f.noSniff hx single b
  constructor
  · cases hr : readHeader f single (Src.plain b) with
    | ok r => exact ⟨r, hr⟩
    | error e => have := d1.1 ⟨e, hr⟩; rw [h1] at this; cases this
  · cases hr : readHeader f.noSniff single (Src.plain b) with
    | ok r => exact ⟨r, hr⟩
    | error e => have := d2.1 ⟨e, hr⟩; rw [h2] at this; cases this

example : (⟨348, 348, false, none, 0⟩ : VolFmt) ∈ Gen.volFmts ∧
    (match readHeader ⟨348, 348, false, none, 0⟩ false (Src.plain (List.replicate 348 1)) with
      | .ok _ => true | .error _ => false) = true ∧
    readHeader ⟨348, 348, false, none, 0⟩ false (Src.plain (List.replicate 347 1)) = .error .bad ∧
    readHeader (VolFmt.noSniff ⟨348, 348, false, none, 0⟩) false (Src.plain (List.replicate 347 1)) = .error .trunc := by
  refine ⟨by decide, by decide +kernel, by decide +kernel, by decide +kernel⟩

/-- **load_vs_class_loader.**  The two entry points on ANY source: `nib.load` (sniff) gives what the class loader
    (no sniff) gives, or refuses ('Cannot work out file type') — it never accepts more. -/
theorem load_vs_class_loader (fmt : VolFmt) (single : Bool) (s : Src) :
    readHeader fmt single s = readHeader fmt.noSniff single s ∨ readHeader fmt single s = .error .bad :=
  load_refines_class_loader fmt single s

/-- **header_decision_plain.**  For an extension-less class and a plain header file the header phase is refused
    IFF the file is shorter than the binary block or than the sniff length (`hdrRefuses`) — nothing else in the
    header phase can fail. -/
theorem header_decision_plain (fmt : VolFmt) (hx : fmt.exts = false) (single : Bool) (b : Bytes) :
    (∃ e, readHeader fmt single (Src.plain b) = .error e) ↔ hdrRefuses fmt b.length = true :=
  plain_header_decision fmt hx single b

example : hdrRefuses ⟨348, 348, false, none, 0⟩ 347 = true ∧ hdrRefuses ⟨348, 348, false, none, 0⟩ 348 = false ∧
    hdrRefuses (VolFmt.noSniff ⟨90, 0, false, some 284, 20⟩) 90 = false := by decide

end Nb.C08
