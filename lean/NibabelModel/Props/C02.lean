import NibabelModel.Model.C02
import NibabelModel.Generated.C02Types
import NibabelModel.Lemmas.C02_Ideal
import NibabelModel.Lemmas.C02_Misc
import NibabelModel.Lemmas.C02_Tfm
import NibabelModel.Lemmas.C02_E2E
import NibabelModel.Lemmas.C02_More
import NibabelModel.Generated.C02Caps
import NibabelModel.Lemmas.C02_Route
import NibabelModel.Generated.C02Readers
/-! Props/C02 — rescaled integer storage: bounded error, no wrap-around, or a loud refusal.

All statements are about the executable model `Model/C02.lean` (exact `Rat`), for ALL values, slopes, intercepts,
ranges and integer types — nothing is bounded.  The stored slope / intercept `(s, b)` are free rationals (whatever
float32 rounding produced); `(ss, bs)` are the ideal ones (the writer run with `rnd = id`).
`rabs` is `|·|` on `Rat`; `applyReadScaling s b q = q·s + b`.
-/
namespace Nb.C02

/-! ## shared range -/

/-- `shared_range(flt, int_type)` lies inside the integer type, contains 0, and is not inverted
    (the contract `array_to_file` relies on), for every significand width and every integer type. -/
theorem shared_range_contract (p : Nat) (o : OutT) (h1 : o.omin ≤ 0) (h2 : 0 ≤ o.omax) :
    o.omin ≤ (sharedRange p o).1 ∧ (sharedRange p o).1 ≤ (sharedRange p o).2 ∧ (sharedRange p o).2 ≤ o.omax := by
  have := sharedRange_contract p o h1 h2
  omega

example : sharedRange 24 ⟨-2147483648, 2147483647⟩ = (-2147483648, 2147483520) := by decide +kernel

/-! ## no wrap-around -/

/-- NO WRAP (scaled path): whatever the stored slope `s`, intercept `b`, thresholds (finite or infinite), nan2zero
    flag and data (finite, NaN, ±inf), every integer the scaled path of `array_to_file` hands to the final cast lies
    in `[both_mn, both_mx]`. -/
theorem no_wrap (p : Nat) (s b : Rat) (dtMn dtMx : Option Rat) (bm : Int × Int) (n2z : Bool)
    (data : List Val) (raws : List Int) (hbm : bm.1 ≤ bm.2)
    (h : scaledWrite p s b dtMn dtMx bm n2z data = .ok raws) : ∀ q ∈ raws, bm.1 ≤ q ∧ q ≤ bm.2 :=
  scaledWrite_mem hbm h

example : scaledWrite 53 1 16777220 (some 16777219) (some 16777219) (0, 255) false [.fin 16777219, .pinf, .ninf]
    = .ok [0, 0, 0] := by decide +kernel

/-- NO WRAP (whole save, every class incl. MGH): if `save` succeeds, every stored raw integer lies inside the on-disk
    integer type `[omin, omax]` — so the final cast never wraps.  `DataInType`: integer data are values of their dtype. -/
theorem no_wrap_save (c : Cls) (rnd : Rat → Rat) (p32 : Nat) (i : InT) (o : OutT) (data : List Val)
    (s b : Rat) (raws : List Int) (ho1 : o.omin ≤ 0) (ho2 : 0 ≤ o.omax) (hd : DataInType i data)
    (h : save c rnd p32 i o data = .ok (s, b, raws)) : ∀ q ∈ raws, o.omin ≤ q ∧ q ≤ o.omax :=
  save_mem ho1 ho2 hd h

example : save .nifti id 24 (.flt 53) ⟨0, 255⟩ [.fin 0, .fin 255, .fin (5/2), .nan, .pinf]
    = .ok (1, 0, [0, 255, 2, 0, 255]) := by decide +kernel

/-- The ORIGINAL thresholds (`post_mn = max(post_mn, both_mn); post_mx = min(post_mx, both_mx)`, before fix 37e49301)
    let a value out of the shared range: constant 16777219.0 (float32 intercept 16777220) to uint8 gives −1, which the
    cast wraps to 255 (reload 16777475).  The current thresholds give 0. -/
theorem no_wrap_orig_counterexample :
    scaleFinOrig 1 16777220 16777219 16777219 0 255 16777219 = -1 ∧
    ¬ (0 ≤ scaleFinOrig 1 16777220 16777219 16777219 0 255 16777219) ∧
    scaleFin 1 16777220 16777219 16777219 0 255 16777219 = 0 := by
  decide +kernel

/-! ## error bound -/

/-- ERROR BOUND with a gap term.  `q = clip(rint((v − b)/s), L, H)` is what is stored for `v`;
    the ideal map `x ↦ ss·x + bs` reaches `v` at some `xs ∈ [L', H']` (the integer range the writer aimed at);
    `g ≥ 0` bounds how far `[L', H']` sticks out of the clip range `[L, H]`.  Then

      |q·s + b − v| ≤ |s|/2 + |b − bs| + |s − ss|·max(|L'|, |H'|) + |s|·g.

    Slope-only writers aim at the TYPE range while `array_to_file` clips to the SHARED range: there
    `g = max(omax − both_mx, both_mn − omin)` (127 steps for int32 through float32). -/
theorem error_bound_gap (s b ss bs v xs : Rat) (L H L' H' : Int) (g : Rat) (hs : s ≠ 0) (hLH : L ≤ H)
    (hv : v = ss * xs + bs) (hL' : (L' : Rat) ≤ xs) (hH' : xs ≤ (H' : Rat))
    (hg0 : 0 ≤ g) (hg1 : (H' : Rat) - H ≤ g) (hg2 : (L : Rat) - L' ≤ g) :
    rabs (applyReadScaling s b (clipI (rint ((v - b) / s)) L H) - v)
      ≤ rabs s / 2 + rabs (b - bs) + rabs (s - ss) * max (rabs L') (rabs H') + rabs s * g := by
  simp only [rabs_eq_abs, applyReadScaling]
  exact err_core hs hLH hv hL' hH' hg0 hg1 hg2

example : (5 : Rat) = 2 * (5/2) + 0 ∧ ((0 : Int) : Rat) ≤ 5/2 ∧ (5/2 : Rat) ≤ ((255 : Int) : Rat) := by
  refine ⟨by norm_num, by norm_num, by norm_num⟩

/-- ERROR BOUND (the property's formula): when the ideal scaled value lies inside the clip range,

      |q·s + b − v| ≤ |s|/2 + |b − bs| + |s − ss|·max(|L|, |H|)

    — half a stored step plus exactly the rounding error of the stored slope / intercept. -/
theorem error_bound (s b ss bs v xs : Rat) (L H : Int) (hs : s ≠ 0) (hLH : L ≤ H)
    (hv : v = ss * xs + bs) (hL : (L : Rat) ≤ xs) (hH : xs ≤ (H : Rat)) :
    rabs (applyReadScaling s b (clipI (rint ((v - b) / s)) L H) - v)
      ≤ rabs s / 2 + rabs (b - bs) + rabs (s - ss) * max (rabs L) (rabs H) := by
  have := error_bound_gap s b ss bs v xs L H L H 0 hs hLH hv hL hH (le_refl 0) (by linarith) (by linarith)
  simpa using this

/-- ERROR BOUND for what `array_to_file` really does: thresholds `rint((mn−b)/s)`, `rint((mx−b)/s)` (swapped for a
    negative slope), both clamped into the shared range, then the element clipped to them.  For every finite
    `v ∈ [mn, mx]` the bound of `error_bound_gap` holds with `[L, H] = [both_mn, both_mx]`. -/
theorem error_bound_write (s b ss bs mn mx v xs : Rat) (bmn bmx L' H' : Int) (g : Rat) (hs : s ≠ 0)
    (hb : bmn ≤ bmx) (h1 : mn ≤ v) (h2 : v ≤ mx)
    (hv : v = ss * xs + bs) (hL' : (L' : Rat) ≤ xs) (hH' : xs ≤ (H' : Rat))
    (hg0 : 0 ≤ g) (hg1 : (H' : Rat) - bmx ≤ g) (hg2 : (bmn : Rat) - L' ≤ g) :
    rabs (applyReadScaling s b (scaleFin s b mn mx bmn bmx v) - v)
      ≤ rabs s / 2 + rabs (b - bs) + rabs (s - ss) * max (rabs L') (rabs H') + rabs s * g := by
  rw [scaleFin_eq hs hb h1 h2]
  exact error_bound_gap s b ss bs v xs bmn bmx L' H' g hs hb hv hL' hH' hg0 hg1 hg2

/-- the ideal slope+intercept writer (NIfTI; `rnd = id`) sends the whole finite range into
    `shared_range(float32, out)`: every `v ∈ [inMin, inMax]` is `ss·xs + bs` for some `xs ∈ [sh.1, sh.2]`
    (both the plain and the sign-flipped uint variant) -/
theorem ideal_in_range_inter (o : OutT) (sh : Int × Int) (inMin inMax ss bs : Rat) (hsh : sh.1 < sh.2)
    (hne : inMin < inMax) (h : rangeScaleInter id o sh false inMin inMax = .ok (ss, bs)) :
    ss ≠ 0 ∧ ∀ v, inMin ≤ v → v ≤ inMax →
      ∃ xs : Rat, (sh.1 : Rat) ≤ xs ∧ xs ≤ (sh.2 : Rat) ∧ v = ss * xs + bs :=
  ideal_inter hsh hne h

example : rangeScaleInter id ⟨0, 255⟩ (0, 255) false (-510) 0 = .ok (-2, 0) := by decide +kernel

/-- the ideal slope-only writer (SPM; `rnd = id`) sends the finite range into the integer TYPE range -/
theorem ideal_in_range_slope (o : OutT) (inMin inMax ss : Rat) (ho1 : o.omin ≤ 0) (ho2 : 0 < o.omax)
    (hmm : inMin ≤ inMax) (hnz : ¬ (inMin = 0 ∧ inMax = 0)) (h : rangeScaleSlope o inMin inMax = .ok ss) :
    ss ≠ 0 ∧ ∀ v, inMin ≤ v → v ≤ inMax →
      ∃ xs : Rat, (o.omin : Rat) ≤ xs ∧ xs ≤ (o.omax : Rat) ∧ v = ss * xs + 0 :=
  ideal_slope ho1 ho2 (fun h0 => lt_of_le_of_ne ho1 h0) hmm hnz h

example : rangeScaleSlope ⟨-32768, 32767⟩ (-65536) 100 = .ok 2 := by decide +kernel

/-- `finite_range` (the source of `mn`, `mx`) brackets every finite element of the data -/
theorem finite_range_brackets (data : List Val) (mn mx : Rat) (hn : Bool)
    (h : finiteRange data = (some (mn, mx), hn)) : ∀ r, Val.fin r ∈ data → mn ≤ r ∧ r ≤ mx :=
  finiteRange_mem data mn mx hn h

example : finiteRange [.fin 3, .nan, .fin (-2), .pinf] = (some (-2, 3), true) := by decide +kernel

/-- ERROR BOUND, slope + intercept writer (NIfTI): `(ss, bs)` is what `SlopeInterArrayWriter._range_scale` computes in
    exact arithmetic for the finite range `[mn, mx]`; `(s, b)` is whatever was stored; `bm ⊇ sh`.  Every finite
    `v ∈ [mn, mx]` reloads within `|s|/2 + |b − bs| + |s − ss|·max(|sh.1|, |sh.2|)`. -/
theorem error_bound_inter (o : OutT) (sh bm : Int × Int) (mn mx s b ss bs v : Rat)
    (hsh : sh.1 < sh.2) (hbm1 : bm.1 ≤ sh.1) (hbm2 : sh.2 ≤ bm.2) (hne : mn < mx) (hs : s ≠ 0)
    (hideal : rangeScaleInter id o sh false mn mx = .ok (ss, bs)) (h1 : mn ≤ v) (h2 : v ≤ mx) :
    rabs (applyReadScaling s b (scaleFin s b mn mx bm.1 bm.2 v) - v)
      ≤ rabs s / 2 + rabs (b - bs) + rabs (s - ss) * max (rabs sh.1) (rabs sh.2) := by
  obtain ⟨_, hx⟩ := ideal_in_range_inter o sh mn mx ss bs hsh hne hideal
  obtain ⟨xs, hx1, hx2, hv⟩ := hx v h1 h2
  have hq1 : ((sh.2 : Int) : Rat) - (bm.2 : Rat) ≤ 0 := by
    have : ((sh.2 : Int) : Rat) ≤ (bm.2 : Rat) := by exact_mod_cast hbm2
    linarith
  have hq2 : ((bm.1 : Int) : Rat) - (sh.1 : Rat) ≤ 0 := by
    have : ((bm.1 : Int) : Rat) ≤ (sh.1 : Rat) := by exact_mod_cast hbm1
    linarith
  have := error_bound_write s b ss bs mn mx v xs bm.1 bm.2 sh.1 sh.2 0 hs (by omega) h1 h2 hv hx1 hx2
    (le_refl 0) hq1 hq2
  simpa using this

/-- ERROR BOUND, slope-only writer (SPM): the ideal slope aims at the integer TYPE range, `array_to_file` clips to the
    shared range `bm ⊆ [omin, omax]`; the bound carries the gap `g = max(omax − bm.2, bm.1 − omin)`. -/
theorem error_bound_slope (o : OutT) (bm : Int × Int) (mn mx s b ss v : Rat)
    (ho1 : o.omin ≤ 0) (ho2 : 0 < o.omax) (hb : bm.1 ≤ bm.2) (hb1 : o.omin ≤ bm.1) (hb2 : bm.2 ≤ o.omax)
    (hmm : mn ≤ mx) (hnz : ¬ (mn = 0 ∧ mx = 0)) (hs : s ≠ 0)
    (hideal : rangeScaleSlope o mn mx = .ok ss) (h1 : mn ≤ v) (h2 : v ≤ mx) :
    rabs (applyReadScaling s b (scaleFin s b mn mx bm.1 bm.2 v) - v)
      ≤ rabs s / 2 + rabs (b - 0) + rabs (s - ss) * max (rabs o.omin) (rabs o.omax)
        + rabs s * (((max (o.omax - bm.2) (bm.1 - o.omin) : Int)) : Rat) := by
  obtain ⟨_, hx⟩ := ideal_in_range_slope o mn mx ss ho1 ho2 hmm hnz hideal
  obtain ⟨xs, hx1, hx2, hv⟩ := hx v h1 h2
  have hg0 : (0 : Rat) ≤ ((max (o.omax - bm.2) (bm.1 - o.omin) : Int) : Rat) := by
    exact_mod_cast (show (0 : Int) ≤ max (o.omax - bm.2) (bm.1 - o.omin) by omega)
  have hg1 : ((o.omax : Int) : Rat) - (bm.2 : Rat) ≤ ((max (o.omax - bm.2) (bm.1 - o.omin) : Int) : Rat) := by
    have : o.omax - bm.2 ≤ max (o.omax - bm.2) (bm.1 - o.omin) := le_max_left _ _
    exact_mod_cast this
  have hg2 : ((bm.1 : Int) : Rat) - (o.omin : Rat) ≤ ((max (o.omax - bm.2) (bm.1 - o.omin) : Int) : Rat) := by
    have : bm.1 - o.omin ≤ max (o.omax - bm.2) (bm.1 - o.omin) := le_max_right _ _
    exact_mod_cast this
  exact error_bound_write s b ss 0 mn mx v xs bm.1 bm.2 o.omin o.omax _ hs hb h1 h2 hv hx1 hx2 hg0 hg1 hg2

example : rangeScaleInter id ⟨0, 255⟩ (0, 255) false 10 520 = .ok (2, 10) ∧
    rangeScaleSlope ⟨-2147483648, 2147483647⟩ 0 4294967294 = .ok 2 := by decide +kernel

/-- STAYS IN RANGE: a reloaded finite value leaves `[mn, mx]` by at most half a step plus the same rounding terms
    (hence by less than one step when the stored slope / intercept are the ideal ones and there is no gap). -/
theorem stays_in_range (s b ss bs mn mx v xs : Rat) (bmn bmx L' H' : Int) (g : Rat) (hs : s ≠ 0)
    (hb : bmn ≤ bmx) (h1 : mn ≤ v) (h2 : v ≤ mx)
    (hv : v = ss * xs + bs) (hL' : (L' : Rat) ≤ xs) (hH' : xs ≤ (H' : Rat))
    (hg0 : 0 ≤ g) (hg1 : (H' : Rat) - bmx ≤ g) (hg2 : (bmn : Rat) - L' ≤ g) :
    mn - (rabs s / 2 + rabs (b - bs) + rabs (s - ss) * max (rabs L') (rabs H') + rabs s * g)
        ≤ applyReadScaling s b (scaleFin s b mn mx bmn bmx v) ∧
      applyReadScaling s b (scaleFin s b mn mx bmn bmx v)
        ≤ mx + (rabs s / 2 + rabs (b - bs) + rabs (s - ss) * max (rabs L') (rabs H') + rabs s * g) := by
  have h := error_bound_write s b ss bs mn mx v xs bmn bmx L' H' g hs hb h1 h2 hv hL' hH' hg0 hg1 hg2
  rw [rabs_eq_abs (applyReadScaling s b (scaleFin s b mn mx bmn bmx v) - v), abs_le] at h
  constructor
  · linarith [h.1]
  · linarith [h.2]

/-! ## NaN and ±inf -/

/-- NAN / INF: in the scaled path with finite thresholds `mn ≤ mx` (the finite range of the data)
    * `+inf` is stored exactly as the largest finite input `mx` is, `−inf` exactly as `mn` is;
    * with nan2zero, NaN is stored as `clip(rint(−b/s), both_mn, both_mx)`, and when that is not clipped the reloaded
      value is within half a step of 0. -/
theorem nan_inf (p : Nat) (s b mn mx : Rat) (bm : Int × Int) (n2z : Bool) (hs : s ≠ 0) (hmm : mn ≤ mx)
    (hbm : bm.1 ≤ bm.2) :
    scaledWrite p s b (some mn) (some mx) bm n2z [.pinf] = scaledWrite p s b (some mn) (some mx) bm n2z [.fin mx] ∧
    scaledWrite p s b (some mn) (some mx) bm n2z [.ninf] = scaledWrite p s b (some mn) (some mx) bm n2z [.fin mn] ∧
    (∀ f, scaledWrite p s b (some mn) (some mx) bm true [.nan] = .ok [f] →
        f = clipI (rint ((0 - b) / s)) bm.1 bm.2 ∧
        (bm.1 ≤ rint ((0 - b) / s) ∧ rint ((0 - b) / s) ≤ bm.2 → rabs (applyReadScaling s b f - 0) ≤ rabs s / 2)) := by
  have hinf := fun nf => inf_as_extreme (b := b) hs hmm hbm nf rfl rfl
  refine ⟨?_, ?_, ?_⟩
  · simp only [scaledWrite_fin, List.mapM_cons, List.mapM_nil]
    congr 1; funext nf; rw [(hinf nf).1]
  · simp only [scaledWrite_fin, List.mapM_cons, List.mapM_nil]
    congr 1; funext nf; rw [(hinf nf).2]
  · intro f h
    simp only [scaledWrite_fin, if_true, List.mapM_cons, List.mapM_nil, bind, Except.bind, Except.map] at h
    cases hc : nanFillCheck p s b (rint ((0 - b) / s)) bm.1 bm.2 with
    | error e => rw [hc] at h; cases h
    | ok f' =>
      rw [hc] at h
      simp only [scaleVal, pure, Except.pure] at h
      injection h with h; injection h with h
      subst h
      have e := nanFillCheck_eq hc
      refine ⟨e, fun hin => ?_⟩
      have : f' = rint ((0 - b) / s) := by rw [e]; unfold clipI; omega
      rw [this, rabs_eq_abs, rabs_eq_abs]
      exact nan_reload hs

example : scaledWrite 53 (2/51) 0 (some 3) (some 10) (0, 255) true [.nan, .pinf, .ninf, .fin 10, .fin 3]
    = .ok [0, 255, 76, 255, 76] := by decide +kernel

/-! ## refusals -/

/-- REFUSAL (no scaling fields): Analyze has neither slope nor intercept; whenever scaling is needed
    (`ArrayWriter.scaling_needed`) `save` returns the writer error and no bytes; and its header accepts nothing but
    slope 1 / intercept 0. -/
theorem refusal (rnd : Rat → Rat) (p32 : Nat) (i : InT) (o : OutT) (data : List Val) :
    (awScalingNeeded i o data = true → save .analyze rnd p32 i o data = .error .writer) ∧
    (∀ s b, setSlopeInter .analyze s b = .ok () ↔ s = 1 ∧ b = 0) ∧
    (∀ s b, setSlopeInter .spm s b = .ok () ↔ s ≠ 0 ∧ b = 0) :=
  ⟨fun h => refusal_plain rfl h, fun _ _ => setSlopeInter_analyze, fun _ _ => setSlopeInter_spm⟩

example : awScalingNeeded (.flt 24) ⟨-32768, 32767⟩ [.fin (1/4), .fin 100000] = true := by decide +kernel

/-- REFUSAL (needed intercept missing): SPM stores a slope only; float data of mixed sign cannot go to an unsigned
    type without an intercept — `save` refuses (`WriterError`), whatever the rounding. -/
theorem refusal_uint_mixed (rnd : Rat → Rat) (p32 prec : Nat) (o : OutT) (data : List Val) (mn mx : Rat) (hn : Bool)
    (hu : o.omin = 0) (hfr : finiteRange data = (some (mn, mx), hn)) (h1 : mn < 0) (h2 : 0 < mx) :
    save .spm rnd p32 (.flt prec) o data = .error .writer :=
  refusal_mixed hu hfr h1 h2

example : finiteRange [.fin (-1), .nan, .fin 2] = (some (-1, 2), true) := by decide +kernel

/-- KNOWN FINDING (open): MGH has no scaling fields and no writer: `MGHImage._write_data` casts with clipping.
    The model reproduces it — scaling is needed, yet the save succeeds with clipped / rounded values. -/
theorem mgh_clips_known_finding :
    awScalingNeeded (.flt 24) ⟨-32768, 32767⟩ [.fin (1/4), .fin (3/2), .fin 100000, .fin (-70000)] = true ∧
    save .mgh id 24 (.flt 24) ⟨-32768, 32767⟩ [.fin (1/4), .fin (3/2), .fin 100000, .fin (-70000)]
      = .ok (1, 0, [0, 2, 32767, -32768]) := by
  decide +kernel

/-! ## exact integer → integer paths -/

/- FULL STATEMENT (true of the exact-arithmetic model, i.e. with `conv v = v` for every integer):
     integer → integer writes that use the intercept only, or the sign flip, reload EVERY `v ∈ [mn, mx]` exactly.
   The real code converts the integer data to the working float type first (`data - inter` in float64 for 32/64-bit
   input), so it needs the hypothesis carried below: the value is exactly representable in the working float.
   Without it the pinned code violates the statement — open finding `int64:beyond-float64-precision`
   ([2**62, 2**62+500, 2**62+1000] int64 → int16 stores [0, 0, 1024] with slope 1, intercept 2**62). -/

/-- IU2IU EXACT (`conv` = NumPy's conversion of the integer input to the working float type): when the slope+intercept
    writer takes its intercept-only branch (data range fits the shared type range) the stored `(1, inter)` reloads every
    integer `v ∈ [mn, mx]` WHOSE CONVERSION IS EXACT (`conv v = v`) exactly; likewise the sign-flip branch `(−1, 0)` of
    the slope writers for unsigned output.  (`sh = shared_range(float32, out)`, `bm ⊇ sh` the shared range of the
    working type.) -/
theorem iu2iu_exact (w : Writer) (rnd : Rat → Rat) (p32 : Nat) (o : OutT) (sh bm : Int × Int) (mn mx : Int)
    (conv : Int → Rat)
    (hmm : mn ≤ mx) (hbm1 : bm.1 ≤ sh.1) (hsh0 : sh.1 ≤ 0) (hbm2 : sh.2 ≤ bm.2) :
    (mx - mn ≤ sh.2 - sh.1 → (sh.1 = 0 ∨ sh.2 ≤ -sh.1) →
      let inter := if sh.1 = 0 then floorExact p32 (mn - sh.1) else floorExact p32 (mn + (mx - mn + 1) / 2)
      mx - inter ≤ sh.2 →
        iu2iuInter rnd p32 o sh mn mx = .ok (1, (inter : Rat)) ∧
        ∀ v : Int, mn ≤ v → v ≤ mx → conv v = (v : Rat) →
          applyReadScaling 1 inter (scaleFin 1 inter mn mx bm.1 bm.2 (conv v)) = v) ∧
    (o.isU = true → mx ≤ 0 → (mn.natAbs : Int) ≤ sh.2 →
        iu2iuSlope w rnd o sh mn mx = .ok (-1, 0) ∧
        ∀ v : Int, mn ≤ v → v ≤ mx → conv v = (v : Rat) →
          applyReadScaling (-1) 0 (scaleFin (-1) 0 mn mx bm.1 bm.2 (conv v)) = v) :=
  by
  refine ⟨?_, ?_⟩
  · intro hfit hsym inter htop
    have h := iu2iu_inter_exact (rnd := rnd) (p32 := p32) (o := o) hmm hfit hsym hbm1 hbm2 htop
    exact ⟨h.1, fun v h1 h2 hc => h.2 conv v h1 h2 hc⟩
  · intro hU hneg hfit
    have h := iu2iu_flip_exact (w := w) (rnd := rnd) hU hmm hneg hfit (by omega) hbm2
    exact ⟨h.1, fun v h1 h2 hc => h.2 conv v h1 h2 hc⟩

example : iu2iuInter id 24 ⟨0, 255⟩ (0, 255) 1000 1200 = .ok (1, 1000) ∧
    iu2iuSlope .slope id ⟨0, 255⟩ (0, 255) (-200) (-3) = .ok (-1, 0) := by decide +kernel

/-! ## the on-disk type chosen by the `dtype=` save argument; header bookkeeping; save histories

`toFileMap c rnd p32 i h arg data` models `img.to_file_map(fm, dtype=arg)` (also reached by `to_filename`, `nib.save`,
`to_bytes`, `to_stream`) of the Analyze family for an image whose header holds data type `h.dtype` and slope /
intercept `h.slope`, `h.inter` (`none` = NaN = "calculate").  The result is `some (observable, header afterwards)`. -/

/-- DTYPE ARGUMENT ≡ HEADER DTYPE.  For a fresh or loaded image (slope / intercept NaN wherever the class has the
    field), every class of the Analyze family, ANY data type the header held before, and either way of choosing the
    integer on-disk type `o`, `to_file_map` produces exactly `save c … o data` — so every theorem above about `save`
    (no wrap, error bound, NaN / inf, refusal) holds for the `dtype=` argument too — and leaves the header as it was. -/
theorem to_file_map_eq_save (c : Cls) (hc : c ≠ .mgh) (rnd : Rat → Rat) (p32 : Nat) (i : InT) (h : Hdr)
    (arg : Option DT) (o : OutT) (data : List Val)
    (hs : c.caps.hasSlope = true → h.slope = none) (hi : c.caps.hasInter = true → h.inter = none)
    (ho : effectiveOut h.dtype arg = some o) :
    toFileMap c rnd p32 i h arg data = some (save c rnd p32 i o data, h) :=
  toFileMap_eq_save hc rnd p32 i h arg o data hs hi ho

example : toFileMap .nifti id 24 (.flt 24) ⟨.flt 24, none, none⟩ (some (.int ⟨0, 255⟩)) [.fin 0, .fin 510, .fin 5]
    = some (.ok (2, 0, [0, 255, 2]), ⟨.flt 24, none, none⟩) := by decide +kernel

/-- THE PRE-OVERRIDE HEADER DTYPE IS IRRELEVANT (also with caller-fixed scaling): two saves whose effective on-disk
    type and slope / intercept fields agree produce the same result, whatever data type either header held and
    whichever of the two ways selected the on-disk type. -/
theorem to_file_map_indep_of_header_dtype (c : Cls) (rnd : Rat → Rat) (p32 : Nat) (i : InT) (h h' : Hdr)
    (arg arg' : Option DT) (data : List Val) (hs : h.slope = h'.slope) (hi : h.inter = h'.inter)
    (ho : effectiveOut h.dtype arg = effectiveOut h'.dtype arg') :
    (toFileMap c rnd p32 i h arg data).map Prod.fst = (toFileMap c rnd p32 i h' arg' data).map Prod.fst :=
  toFileMap_res_indep c rnd p32 i h h' arg arg' data hs hi ho

example : effectiveOut (.flt 53) (some (.int ⟨-32768, 32767⟩)) = effectiveOut (.int ⟨-32768, 32767⟩) none := by decide

/-- HEADER RESTORED: whatever happens inside `to_file_map` — success, writer refusal, header refusal, cast error —
    the header's data type, slope and intercept afterwards are those before the call (`finally:` block). -/
theorem to_file_map_restores_header (c : Cls) (rnd : Rat → Rat) (p32 : Nat) (i : InT) (h h' : Hdr) (arg : Option DT)
    (data : List Val) (res : Except Err (Rat × Rat × List Int))
    (e : toFileMap c rnd p32 i h arg data = some (res, h')) : h' = h :=
  toFileMap_restores e

example : toFileMap .analyze id 24 (.flt 24) ⟨.flt 24, none, none⟩ (some (.int ⟨0, 255⟩)) [.fin 0, .fin 510]
    = some (.error .writer, ⟨.flt 24, none, none⟩) := by decide +kernel

/-- SAVE HISTORIES: in any sequence of saves of one image (each with or without a `dtype=` override, failing or not)
    every save gives exactly what it would give as the first save, and the header ends as it began. -/
theorem save_history_independent (c : Cls) (rnd : Rat → Rat) (p32 : Nat) (i : InT) (data : List Val) (h : Hdr)
    (args : List (Option DT)) :
    (saveSeq c rnd p32 i data h args).2 = h ∧
    List.Forall₂ (fun a r => (toFileMap c rnd p32 i h a data).map Prod.fst = r ∧
                             ∀ x, toFileMap c rnd p32 i h a data = some x → x.2 = h)
      args (saveSeq c rnd p32 i data h args).1 :=
  saveSeq_spec c rnd p32 i data h args

example : (saveSeq .spm id 24 (.flt 24) [.fin 0, .fin 510] ⟨.flt 24, none, none⟩
      [some (.int ⟨0, 255⟩), none, some (.int ⟨0, 65535⟩)]).1.map (fun r => r.map Except.toOption)
      = [some (some (2, 0, [0, 255])), none, some (some (2/257, 0, [0, 65535]))] := by decide +kernel

/-- NO WRAP through `to_file_map`, every path — calculated scaling and caller-fixed scaling (slope / intercept preset
    in the header: the array is written as it is, clipped to the shared range) alike. -/
theorem no_wrap_to_file_map (c : Cls) (hc : c ≠ .mgh) (rnd : Rat → Rat) (p32 : Nat) (i : InT) (h h' : Hdr)
    (arg : Option DT) (o : OutT) (data : List Val) (s b : Rat) (raws : List Int)
    (ho : effectiveOut h.dtype arg = some o) (ho1 : o.omin ≤ 0) (ho2 : 0 ≤ o.omax) (hd : DataInType i data)
    (e : toFileMap c rnd p32 i h arg data = some (.ok (s, b, raws), h')) : ∀ q ∈ raws, o.omin ≤ q ∧ q ≤ o.omax :=
  toFileMap_mem hc ho ho1 ho2 hd e

example : toFileMap .nifti id 24 (.flt 24) ⟨.flt 24, some 2, some 0⟩ (some (.int ⟨0, 255⟩)) [.fin (1/4), .fin (3/2), .fin 1000]
    = some (.ok (2, 0, [0, 2, 255]), ⟨.flt 24, some 2, some 0⟩) := by decide +kernel

/-- REFUSAL through the `dtype=` argument: plain Analyze refuses (`WriterError`) whenever scaling is needed for the
    type given as the save argument, whatever the header held, and the header is left untouched. -/
theorem refusal_dtype_arg (rnd : Rat → Rat) (p32 : Nat) (i : InT) (h : Hdr) (o : OutT) (data : List Val)
    (hn : awScalingNeeded i o data = true) :
    toFileMap .analyze rnd p32 i h (some (.int o)) data = some (.error .writer, h) := by
  rw [toFileMap_eq_save (by decide) rnd p32 i h (some (.int o)) o data (by simp [Cls.caps]) (by simp [Cls.caps]) rfl]
  rw [refusal_plain rfl hn]

example : awScalingNeeded (.flt 24) ⟨-32768, 32767⟩ [.fin 0, .fin 70000] = true := by decide +kernel

/-- the writer class `make_array_writer` selects from the capability flags is the one the model of `save` uses -/
theorem make_writer_of_caps (c : Cls) : makeWriter c.caps = .ok c.writer := makeWriter_caps c

example : makeWriter ⟨false, true⟩ = .error .value := by decide

/-! ## end to end: the whole `save`, not a stand-alone element

The `error_bound*` theorems above speak about one element pushed through `scaleFin` with free `(s, b)`.  The theorems
below start from `save c rnd … = .ok (s, b, raws)` — the executable model of `img.to_file_map()` that the correspondence
streams compare with nibabel — and conclude about every element of `raws` against the element of `data` at the same
position (`List.Forall₂`). -/

/-- WHAT `save` STORES (NIfTI, SPM; float data whose finite range is not {0}): the stored slope is non-zero and every
    finite element `r` is stored as `clip(rint((r − b)/s), both_mn, both_mx)`. -/
theorem save_float_element (c : Cls) (hc : c = .nifti ∨ c = .spm) (rnd : Rat → Rat) (p32 prec : Nat) (o : OutT)
    (data : List Val) (s b : Rat) (raws : List Int) (mn mx : Rat) (hn : Bool) (ho1 : o.omin ≤ 0) (ho2 : 0 ≤ o.omax)
    (hsave : save c rnd p32 (.flt prec) o data = .ok (s, b, raws))
    (hfr : finiteRange data = (some (mn, mx), hn)) (hnz : ¬ (mn = 0 ∧ mx = 0)) :
    s ≠ 0 ∧ List.Forall₂ (fun v q => ∀ r, v = Val.fin r →
      q = clipI (rint ((r - b) / s)) (sharedRange (workingPrec (.flt prec)) o).1
            (sharedRange (workingPrec (.flt prec)) o).2) data raws :=
  save_flt_elem hc ho1 ho2 hsave hfr hnz

example : save .nifti id 24 (.flt 53) ⟨0, 255⟩ [.fin 10, .fin 520, .fin 15, .pinf]
    = .ok (2, 10, [0, 255, 2, 255]) := by decide +kernel

/-- END-TO-END ERROR BOUND, NIfTI (slope + intercept), float data, WITH OR WITHOUT NaN.  If the save succeeds having
    stored `(s, b)`, and `(ss, bs)` is what the same writer computes without rounding (`rnd = id`; with NaNs present the
    range is extended to 0 and the nan2zero re-fit is active), then every finite element reloads within

        |s|/2 + |b − bs| + |s − ss|·max(|sh.1|, |sh.2|),      sh = shared_range(float32, out).

    (`hsub*`: the shared range of the working float contains that of float32 — true for every real type pair, see the
    example; `hne`: the scaled range is not a single point — constant arrays are `error_bound_const`.) -/
theorem save_error_bound_nifti (rnd : Rat → Rat) (p32 prec : Nat) (o : OutT) (data : List Val) (s b ss bs : Rat)
    (raws : List Int) (mn mx : Rat) (hn : Bool) (ho1 : o.omin ≤ 0) (ho2 : 0 ≤ o.omax)
    (hsh : (sharedRange p32 o).1 < (sharedRange p32 o).2)
    (hsub1 : (sharedRange (workingPrec (.flt prec)) o).1 ≤ (sharedRange p32 o).1)
    (hsub2 : (sharedRange p32 o).2 ≤ (sharedRange (workingPrec (.flt prec)) o).2)
    (hsave : save .nifti rnd p32 (.flt prec) o data = .ok (s, b, raws))
    (hfr : finiteRange data = (some (mn, mx), hn))
    (hne : (if hn then min mn 0 else mn) < (if hn then max mx 0 else mx))
    (hideal : writerScale .slopeInter id p32 (.flt prec) o data = .ok (ss, bs)) :
    List.Forall₂ (fun v q => ∀ r, v = Val.fin r →
      rabs (applyReadScaling s b q - r) ≤ rabs s / 2 + rabs (b - bs)
        + rabs (s - ss) * max (rabs (sharedRange p32 o).1) (rabs (sharedRange p32 o).2)) data raws := by
  simp only [rabs_eq_abs]
  exact save_err_nifti ho1 ho2 hsh hsub1 hsub2 hsave hfr hne hideal

example : save .nifti id 24 (.flt 53) ⟨-32768, 32767⟩ [.fin 10, .nan, .fin 131070]
      = .ok (2, 65536, [-32763, -32768, 32767]) ∧
    writerScale .slopeInter id 24 (.flt 53) ⟨-32768, 32767⟩ [.fin 10, .nan, .fin 131070] = .ok (2, 65536) ∧
    finiteRange [.fin 10, .nan, .fin 131070] = (some (10, 131070), true) ∧
    (sharedRange 24 ⟨-32768, 32767⟩).1 < (sharedRange 24 ⟨-32768, 32767⟩).2 ∧
    (sharedRange 53 ⟨-2147483648, 2147483647⟩).1 ≤ (sharedRange 24 ⟨-2147483648, 2147483647⟩).1 ∧
    (sharedRange 24 ⟨-2147483648, 2147483647⟩).2 ≤ (sharedRange 53 ⟨-2147483648, 2147483647⟩).2 := by
  decide +kernel

/-- END-TO-END ERROR BOUND, SPM (slope only), float data: the ideal intercept is 0, and every finite element reloads
    within `|s|/2 + |b − 0| + |s − ss|·max(|omin|, |omax|) + |s|·max(omax − both_mx, both_mn − omin)`. -/
theorem save_error_bound_spm (rnd : Rat → Rat) (p32 prec : Nat) (o : OutT) (data : List Val) (s b ss bs : Rat)
    (raws : List Int) (mn mx : Rat) (hn : Bool) (ho1 : o.omin ≤ 0) (ho2 : 0 < o.omax)
    (hsave : save .spm rnd p32 (.flt prec) o data = .ok (s, b, raws))
    (hfr : finiteRange data = (some (mn, mx), hn)) (hnz : ¬ (mn = 0 ∧ mx = 0))
    (hideal : writerScale .slope id p32 (.flt prec) o data = .ok (ss, bs)) :
    bs = 0 ∧
    List.Forall₂ (fun v q => ∀ r, v = Val.fin r →
      rabs (applyReadScaling s b q - r) ≤ rabs s / 2 + rabs (b - bs)
        + rabs (s - ss) * max (rabs o.omin) (rabs o.omax)
        + rabs s * ((max (o.omax - (sharedRange (workingPrec (.flt prec)) o).2)
                      ((sharedRange (workingPrec (.flt prec)) o).1 - o.omin) : Int) : Rat)) data raws := by
  simp only [rabs_eq_abs]
  exact save_err_spm ho1 ho2 hsave hfr hnz hideal

example : save .spm id 24 (.flt 24) ⟨-32768, 32767⟩ [.fin (-65536), .fin 100, .fin 3]
      = .ok (2, 0, [-32768, 50, 2]) ∧
    writerScale .slope id 24 (.flt 24) ⟨-32768, 32767⟩ [.fin (-65536), .fin 100, .fin 3] = .ok (2, 0) := by
  decide +kernel

/-- CONSTANT ARRAYS (the 16777219 defect's configuration): a constant float array `c ≠ 0` without NaN is written by the
    slope + intercept writer with slope 1 and intercept `rnd c`; every element is stored as `clip(rint(c − rnd c))`; when
    that is not clipped the reload error is at most `|rnd c − c|` (the float32 rounding of the intercept) and at most
    1/2.  (With NaN present the range is extended to 0 and `save_error_bound_nifti` applies.) -/
theorem error_bound_const (rnd : Rat → Rat) (p32 prec : Nat) (o : OutT) (data : List Val) (s b c : Rat)
    (raws : List Int) (ho1 : o.omin ≤ 0) (ho2 : 0 ≤ o.omax)
    (hsave : save .nifti rnd p32 (.flt prec) o data = .ok (s, b, raws))
    (hfr : finiteRange data = (some (c, c), false)) (hc : c ≠ 0) :
    s = 1 ∧ b = rnd c ∧
    List.Forall₂ (fun v q => ∀ r, v = Val.fin r → r = c ∧
      q = clipI (rint (c - rnd c)) (sharedRange (workingPrec (.flt prec)) o).1
            (sharedRange (workingPrec (.flt prec)) o).2 ∧
      ((sharedRange (workingPrec (.flt prec)) o).1 ≤ rint (c - rnd c) →
       rint (c - rnd c) ≤ (sharedRange (workingPrec (.flt prec)) o).2 →
        rabs (applyReadScaling s b q - c) ≤ rabs (rnd c - c) ∧ rabs (applyReadScaling s b q - c) ≤ 1/2)) data raws := by
  simp only [rabs_eq_abs]
  exact save_const_nifti ho1 ho2 hsave hfr hc

example : save .nifti (fun _ => 16777220) 24 (.flt 53) ⟨0, 255⟩ [.fin 16777219, .fin 16777219]
    = .ok (1, 16777220, [0, 0]) ∧ finiteRange [.fin 16777219, .fin 16777219] = (some (16777219, 16777219), false) := by
  decide +kernel

/-- without rounding the nan2zero intercept re-fit is a no-op (the ideal NaN fill is exactly an end of the shared
    range), so the ideal `(ss, bs)` is the same with and without NaN handling -/
theorem nan_fit_ideal_noop (o : OutT) (sh : Int × Int) (a c : Rat) (hsh : sh.1 < sh.2) (h1 : o.omin ≤ sh.1)
    (h2 : sh.2 ≤ o.omax) (hne : a < c) :
    rangeScaleInter id o sh true a c = rangeScaleInter id o sh false a c :=
  rangeScaleInter_id_nanFit hsh h1 h2 hne

example : (rangeScaleInter id ⟨0, 255⟩ (0, 255) true 0 510).toOption = some (2, 0) ∧
    (rangeScaleInter id ⟨-128, 127⟩ (-128, 127) true (-510) 0).toOption = some (2, -254) := by decide +kernel

/-- STAYS IN RANGE, sharp, no ideal `(ss, bs)` and no gap term: whenever the clip range meets the interval spanned by
    the two scaled thresholds, every finite `v ∈ [mn, mx]` reloads inside `[mn − |s|/2, mx + |s|/2]` — for either sign
    of the stored slope and ANY stored intercept. -/
theorem stays_in_range_sharp (s b mn mx v : Rat) (bmn bmx : Int) (hs : s ≠ 0) (hb : bmn ≤ bmx) (h1 : mn ≤ v)
    (h2 : v ≤ mx) (ha : min (rint ((mn - b) / s)) (rint ((mx - b) / s)) ≤ bmx)
    (hc : bmn ≤ max (rint ((mn - b) / s)) (rint ((mx - b) / s))) :
    mn - rabs s / 2 ≤ applyReadScaling s b (scaleFin s b mn mx bmn bmx v) ∧
    applyReadScaling s b (scaleFin s b mn mx bmn bmx v) ≤ mx + rabs s / 2 := by
  simp only [rabs_eq_abs]
  exact stays_sharp hs hb h1 h2 ha hc

example : min (rint (((-510 : Rat) - 0) / (-2))) (rint (((0 : Rat) - 0) / (-2))) ≤ (255 : Int) ∧
    (0 : Int) ≤ max (rint (((-510 : Rat) - 0) / (-2))) (rint (((0 : Rat) - 0) / (-2))) := by decide +kernel

/-- THE HEADER ACCEPTED WHAT WAS STORED: a successful save of NIfTI / SPM / Analyze stored exactly what its writer
    computed, and the class's `set_slope_inter` accepted it; for plain Analyze this forces slope 1, intercept 0 and
    "no scaling needed" — i.e. whenever scaling IS needed, Analyze cannot have written anything. -/
theorem save_header_accepts (c : Cls) (hc : c ≠ .mgh) (rnd : Rat → Rat) (p32 : Nat) (i : InT) (o : OutT)
    (data : List Val) (s b : Rat) (raws : List Int) (h : save c rnd p32 i o data = .ok (s, b, raws)) :
    writerScale c.writer rnd p32 i o data = .ok (s, b) ∧ setSlopeInter c s b = .ok () ∧
    (c = .analyze → s = 1 ∧ b = 0 ∧ awScalingNeeded i o data = false) ∧
    (c = .spm → s ≠ 0 ∧ b = 0) := by
  obtain ⟨h1, h2⟩ := save_scale hc h
  refine ⟨h1, h2, fun e => ?_, fun e => ?_⟩
  · subst e; exact save_analyze_ok h
  · subst e; exact setSlopeInter_spm.mp h2

example : save .analyze id 24 (.int (-128) 127) ⟨0, 255⟩ [.fin 3, .fin 100] = .ok (1, 0, [3, 100]) := by
  decide +kernel

/-- NaN FILL, every accepted branch of the range test (`nan_inf` covers only the in-range one): the stored fill reloads
    within `|s|·(1/2 + estErr)` of zero, `estErr = rint(2·2^(1−p)·|b/s|)` being exactly the slack the test grants, and
    within `|s|/2` when the fill was inside the shared range. -/
theorem nan_fill_bound (p : Nat) (s b : Rat) (bmn bmx f : Int) (hs : s ≠ 0) (hb : bmn ≤ bmx)
    (h : nanFillCheck p s b (rint ((0 - b) / s)) bmn bmx = .ok f) :
    rabs (applyReadScaling s b f - 0) ≤ rabs s * (1/2 + (rint (2 * (2 : Rat) ^ (1 - (p : Int)) * rabs (b / s)) : Rat)) ∧
    (bmn ≤ rint ((0 - b) / s) ∧ rint ((0 - b) / s) ≤ bmx → rabs (applyReadScaling s b f - 0) ≤ rabs s / 2) := by
  have := nanFill_bound hs hb h
  simpa only [rabs_eq_abs] using this

example : nanFillCheck 24 1 (-(2 ^ 31)) (rint ((0 - (-(2 ^ 31) : Rat)) / 1)) (-2147483648) 2147483520 = .ok 2147483520 := by
  decide +kernel

/-- IU2IU EXACT without the `conv` decoration: for integer data (every value an exact rational) the intercept-only
    branch and the sign-flip branch reload every `v ∈ [mn, mx]` exactly. -/
theorem iu2iu_exact_int (w : Writer) (rnd : Rat → Rat) (p32 : Nat) (o : OutT) (sh bm : Int × Int) (mn mx : Int)
    (hmm : mn ≤ mx) (hbm1 : bm.1 ≤ sh.1) (hsh0 : sh.1 ≤ 0) (hbm2 : sh.2 ≤ bm.2) :
    (mx - mn ≤ sh.2 - sh.1 → (sh.1 = 0 ∨ sh.2 ≤ -sh.1) →
      let inter := if sh.1 = 0 then floorExact p32 (mn - sh.1) else floorExact p32 (mn + (mx - mn + 1) / 2)
      mx - inter ≤ sh.2 →
        iu2iuInter rnd p32 o sh mn mx = .ok (1, (inter : Rat)) ∧
        ∀ v : Int, mn ≤ v → v ≤ mx →
          applyReadScaling 1 inter (scaleFin 1 inter mn mx bm.1 bm.2 (v : Rat)) = v) ∧
    (o.isU = true → mx ≤ 0 → (mn.natAbs : Int) ≤ sh.2 →
        iu2iuSlope w rnd o sh mn mx = .ok (-1, 0) ∧
        ∀ v : Int, mn ≤ v → v ≤ mx →
          applyReadScaling (-1) 0 (scaleFin (-1) 0 mn mx bm.1 bm.2 (v : Rat)) = v) := by
  have h := iu2iu_exact w rnd p32 o sh bm mn mx (fun v => (v : Rat)) hmm hbm1 hsh0 hbm2
  constructor
  · intro a b inter c
    obtain ⟨e1, e2⟩ := h.1 a b c
    exact ⟨e1, fun v h1 h2 => e2 v h1 h2 rfl⟩
  · intro a b c
    obtain ⟨e1, e2⟩ := h.2 a b c
    exact ⟨e1, fun v h1 h2 => e2 v h1 h2 rfl⟩

example : iu2iuInter id 24 ⟨-32768, 32767⟩ (-32768, 32767) 100000 160000 = .ok (1, 130000) := by decide +kernel


/-! ## where the image comes from, what reaches the disk, what the reader makes of it  (Model/C02_Route)

`toFileMapF` is `toFileMap` together with the RAW header fields: those the call writes to disk and those it leaves in
the image header.  `proxySI k disk g` is what the array proxy of a reloaded image of class `k` uses as (slope,
intercept): `get_slope_inter` of the header class on the fields on disk. -/

/-- READER INVERTS WRITER.  For every header class, every data type, every data array and EVERY content of the header
    fields the class does not consume (an intercept left behind by a donor header, `funused` values, gl / cal fields):
    if the scaling is calculated (`scale_me`) and the save succeeds having chosen `(s, b)`, then the reader of that class
    gets exactly `(s, b)` back from the header on disk — so the `error_bound*` / `save_error_bound_*` theorems, which
    speak about `q·s + b`, speak about the values the reloaded image hands out. -/
theorem reader_inverts_writer (k : HK) (rnd : Rat → Rat) (p32 : Nat) (i : InT) (dt : DT) (f : Flds) (arg : Option DT)
    (data : List Val) (s b : Rat) (raws : List Int) (disk after : Flds) (g : GlCal)
    (hsm : scaleMeF k f = true)
    (e : toFileMapF k rnd p32 i dt f arg data = some (.ok (s, b, raws), disk, after)) :
    proxySI k disk g = .ok (s, b) :=
  reader_inverts g hsm e

example : toFileMapF .spm2 id 24 (.flt 53) (.int ⟨-32768, 32767⟩) ⟨.nan, .fin 150⟩ none [.fin 0, .fin 65534]
    = some (.ok (2, 0, [0, 32767]), ⟨.fin 2, .fin 0⟩, ⟨.nan, .fin 0⟩) := by decide +kernel

/-- the pinned SPM2 `set_slope_inter` (before `fix:` a029be1a) left `scl_inter` alone: the intercept of a NIfTI header
    handed to `Spm2AnalyzeImage(data, aff, header=…)` went to disk next to the new slope, and the reader adds it to
    every value: the save chose (1, 0) and the reloaded image uses (1, 150). -/
theorem spm2_stale_intercept_orig_counterexample :
    ∃ s b raws disk after,
      toFileMapFOrig .spm2 id 24 (.flt 53) (.int ⟨-32768, 32767⟩)
        (routeFldsOrig .hdrRaw .nifti .spm2 ⟨.fin 2, .fin 150⟩) none [.fin 0, .fin 32767]
        = some (.ok (s, b, raws), disk, after) ∧
      scaleMeF .spm2 (routeFldsOrig .hdrRaw .nifti .spm2 ⟨.fin 2, .fin 150⟩) = true ∧
      proxySI .spm2 disk .zero = .ok (s, b + 150) :=
  ⟨1, 0, [0, 32767], ⟨.fin 1, .fin 150⟩, ⟨.nan, .fin 150⟩, by decide +kernel, by decide, by decide +kernel⟩

/-- … while files written by that older code from an ordinary NIfTI image (`from_image`: the stale field is the NaN
    of the "calculate" state) or from a fresh SPM2 image (0) are read back as the writer meant: the SPM2 reader counts
    a non-finite intercept next to a valid slope as 0. -/
theorem reader_inverts_pre_fix_spm2_writer (rnd : Rat → Rat) (p32 : Nat) (i : InT) (dt : DT) (f : Flds)
    (arg : Option DT) (data : List Val) (s b : Rat) (raws : List Int) (disk after : Flds) (g : GlCal)
    (hsm : scaleMeF .spm2 f = true) (hst : ∀ r, f.inter = .fin r → r = 0)
    (e : toFileMapFOrig .spm2 rnd p32 i dt f arg data = some (.ok (s, b, raws), disk, after)) :
    proxySI .spm2 disk g = .ok (s, b) :=
  reader_inverts_orig_spm2 g hsm hst e

example : toFileMapFOrig .spm2 id 24 (.flt 53) (.int ⟨-32768, 32767⟩)
      (routeFldsOrig .fromImage .nifti .spm2 ⟨.fin 2, .fin 150⟩) none [.fin 0, .fin 65534]
    = some (.ok (2, 0, [0, 32767]), ⟨.fin 2, .nan⟩, ⟨.nan, .nan⟩) := by decide +kernel

/-- the "flattened" reader (one finiteness test over slope AND intercept) drops the slope of exactly those files:
    it reads (valid slope, NaN intercept) as "no scaling" -/
theorem reader_flat_counterexample :
    readSI .spm2 ⟨.fin 2, .nan⟩ .zero = .ok (some 2, some 0) ∧ readSIFlat ⟨.fin 2, .nan⟩ .zero = .ok (none, none) := by
  constructor <;> decide +kernel

/-- CONSTRUCTION ROUTES ARE INVISIBLE.  However the image was obtained — its own class's header with any field
    contents, a header of any other class (as read from a file, or taken from an image), `from_image` — the image
    constructor leaves the header in the "calculate" state with no stale SPM2 intercept, and `to_file_map` returns
    exactly `save` for the on-disk type of the call. -/
theorem route_invisible (r : Route) (dk k : HK) (F : Flds) (rnd : Rat → Rat) (p32 : Nat) (i : InT) (dt : DT)
    (arg : Option DT) (o : OutT) (data : List Val) (ho : effectiveOut dt arg = some o) :
    scaleMeF k (routeFlds r dk k F) = true ∧
    (k = .spm2 → (routeFlds r dk k F).inter = .fin 0) ∧
    ∃ disk after, toFileMapF k rnd p32 i dt (routeFlds r dk k F) arg data
                    = some (save k.cls rnd p32 i o data, disk, after) := by
  obtain ⟨h1, _, _, h4⟩ := routeFlds_scaleMe r dk k F
  exact ⟨h1, h4, toFileMapF_eq_save rnd p32 i dt arg o data h1 ho⟩

example : routeFlds .fromImage .spm2 .nifti ⟨.fin 2, .fin 7⟩ = ⟨.nan, .nan⟩ ∧
          routeFlds .hdrRaw .analyze .spm99 ⟨.fin 3, .fin 7⟩ = ⟨.nan, .fin 7⟩ := by decide

/-- WORKING COPIES ARE NOT THE IMAGE.  For a proxy image (loaded from a file), and for an array image of integer type
    that is not edited through `img.dataobj`, no sequence of `get_fdata(dtype, caching)`, in-place edits of the arrays
    it returned, and `uncache()` changes the data `to_file_map` writes — whatever the float conversion `cast` does. -/
theorem save_ignores_working_copies (isProxy : Bool) (arrFT : Option FT) (cast : FT → List Val → List Val)
    (data : List Val) (ops : List HOp)
    (hk : isProxy = true ∨ (arrFT = none ∧ ∀ op ∈ ops, ∀ e, op ≠ .editObj e)) :
    (runH isProxy arrFT cast (ImgSt.init data) ops).written = data :=
  runH_data isProxy arrFT cast ops (ImgSt.init data) hk ⟨by simp [ImgSt.init], by simp [ImgSt.init]⟩

example : (runH false (some .f64) (fun _ xs => xs) (ImgSt.init [.fin (-4), .fin 4]) [.fd .f64 true, .edit .clip0]).written
    = [.fin 0, .fin 4] := by decide +kernel       -- (an array image asked for its own dtype hands out ITS array)

/-- the seeded variant that writes `_fdata_cache` for scaled proxies writes the edited working copy -/
theorem save_from_cache_counterexample :
    (runH true none (fun _ xs => xs) (ImgSt.init [.fin (-4), .fin 4]) [.fd .f32 true, .edit .clip0]).written
      = [.fin (-4), .fin 4] ∧
    (runH true none (fun _ xs => xs) (ImgSt.init [.fin (-4), .fin 4]) [.fd .f32 true, .edit .clip0]).writtenFromCache
      true true = [.fin 0, .fin 4] := by
  constructor <;> decide +kernel

/-- RELOAD OF A FILE.  What an image loaded from a file of class `dk` holds is `raw·slope + inter` with the pair the
    reader of `dk` returns (total: it always returns a pair or refuses loudly), element by element. -/
theorem load_data_spec (dk : HK) (F : Flds) (g : GlCal) (lo hi : Int) (raws : List Int) (i : InT) (vals : List Val)
    (e : loadData dk F g lo hi raws = .ok (i, vals)) :
    ∃ s b, proxySI dk F g = .ok (s, b) ∧ vals = raws.map (fun (q : Int) => Val.fin ((q : Rat) * s + b)) ∧
      (dk = .analyze → s = 1 ∧ b = 0) ∧ (dk = .spm99 → b = 0) := by
  unfold loadData at e
  cases hp : proxySI dk F g with
  | error err => simp [hp, bind, Except.bind] at e
  | ok sb =>
    obtain ⟨s, b⟩ := sb
    simp only [hp, bind, Except.bind, Except.ok.injEq, Prod.mk.injEq] at e
    refine ⟨s, b, rfl, by rw [← e.2]; rfl, ?_, ?_⟩
    · intro hd; subst hd
      simp [proxySI, readSI, Except.map] at hp
      exact ⟨hp.1.symm, hp.2.symm⟩
    · intro hd; subst hd
      simp only [proxySI, readSI] at hp
      cases hF : F.slope with
      | fin r =>
        by_cases hr : r = 0 <;> simp [hF, hr, Except.map] at hp <;> exact hp.2.symm
      | nan => simp [hF, Except.map] at hp; exact hp.2.symm
      | pinf => simp [hF, Except.map] at hp; exact hp.2.symm
      | ninf => simp [hF, Except.map] at hp; exact hp.2.symm

example : loadData .spm2 ⟨.fin 2, .nan⟩ .zero (-32768) 32767 [100, 200] = .ok (.flt 53, [.fin 200, .fin 400]) := by
  decide +kernel

end Nb.C02
