import NibabelModel.Model.C02
/-! Props/C02 — the property theorems for C02 (statements + proofs; helper lemmas live in Lemmas/). -/
namespace Nb.C02

end Nb.C02
