import NibabelModel.Lemmas.C11
import NibabelModel.Lemmas.C11_State
/-! Props/C11 — NIfTI extensions are preserved and never collide with the voxel data.

  All statements are unbounded: every list of extensions, every content length and byte values, every int32
  code, both byte orders, NIfTI-1 and NIfTI-2 (through `FmtOK`, discharged for the two GENERATED constant sets
  by `formats_ok`), every data string and every explicit offset.  Guards are exactly the inputs the real writer
  accepts: `ExtOK x` (esize and ecode fit int32, else OverflowError) and, for single files, non-empty data.
  Generated from the source on every run and unfolded only in Lemmas (`size_ok`, `rules_ok`): the size formula
  of `get_sizeondisk` and the eleven one-line integer rules of reader and writer.
  The `vox_offset` header FIELD is modelled with its precision (float32 in NIfTI-1, int64 in NIfTI-2, flag
  generated from the dtype): theorems about an offset the LIBRARY chooses assume nothing about it (repaired
  fill-in rule), theorems about an EXPLICIT offset speak about the stored value or assume the request exactly
  representable (`offset_field_exact`).
  `codec_roundtrip`, `size_ok` and `ext_gap_fixed_example` re-export a lemma / are a concrete instance; they are
  kept as named obligations (the first two are what everything else rests on), not as independent claims. -/
namespace Nb.C11

/-! ## the generated items -/

/-- `get_sizeondisk` (generated from the source): a multiple of 16 that holds the 8-byte esize/ecode header and
    the content, with less than 16 bytes of padding — for EVERY content length. -/
theorem size_ok (n : Nat) :
    Nb.Gen.C11.getSizeondisk (n : Int) % 16 = 0 ∧
    (n : Int) + 8 ≤ Nb.Gen.C11.getSizeondisk (n : Int) ∧
    Nb.Gen.C11.getSizeondisk (n : Int) < (n : Int) + 24 :=
  sizeOnDisk_spec n

example : Nb.Gen.C11.getSizeondisk 9 = 32 := by decide

/-- The writer refuses exactly the records whose esize or ecode does not fit int32, and every content shorter
    than 2^31 - 24 bytes with an int32 code is accepted. -/
theorem size_ok_int32 (e : Endian) (x : Ext) :
    ((∃ bytes, serializeExt e x = .ok bytes) ↔ ExtOK x) ∧
    (inInt32 x.code → x.content.length + 24 ≤ 2147483648 → ExtOK x) := by
  refine ⟨⟨fun ⟨bytes, h⟩ => ?_, fun h => ⟨_, serializeExt_ok e x h⟩⟩, ExtOK_of_small x⟩
  by_cases hx : ExtOK x
  · exact hx
  · rw [serializeExt_err e x hx] at h; cases h

example : ExtOK ⟨-7, [1, 2, 0]⟩ := by decide

/-- constants of `Nifti1Header` / `Nifti2Header` as generated from the source: header block = `sizeof_hdr`,
    default single-file offset = multiple of 16 with room for block + extender -/
theorem formats_ok : FmtOK nifti1 ∧ FmtOK nifti2 := by decide

/-- the extension code table (generated): codes are distinct and fit the int32 ecode field -/
theorem codes_ok :
    (Nb.Gen.C11.extensionCodes.map (·.1)).Nodup ∧ ∀ c ∈ Nb.Gen.C11.extensionCodes.map (·.1), inInt32 c := by
  decide

/-- the one-line integer rules of the reader and the writer, GENERATED from the source AST on every run (loop
    condition, zero-size stop, read count, content-length check, `size -= esize`, `extsize`, `min_vox_offset`,
    the three offset tests, `pad`): each is equivalent to the rule every theorem below is proved from.  An
    equivalent rewrite of a source line keeps this provable; a different rule (`size > 16`, `<=`, a dropped
    `extstart`, …) breaks it. -/
theorem rules_ok :
    (∀ s, Nb.Gen.C11.readLoopCond s = true ↔ (s ≥ 16 ∨ s < 0)) ∧
    (∀ e, Nb.Gen.C11.zeroSizeStops e = true ↔ e = 0) ∧
    (∀ e, Nb.Gen.C11.readCount e = e - 8) ∧
    (∀ g e, Nb.Gen.C11.contentLenOk g e = true ↔ g = e - 8) ∧
    (∀ s e, Nb.Gen.C11.sizeAfter s e = s - e) ∧
    (∀ v t, Nb.Gen.C11.extSize v t = v - t) ∧
    (∀ a b, Nb.Gen.C11.minVoxOffset a b = a + b) ∧
    (∀ v, Nb.Gen.C11.offsetUnset v = true ↔ v = 0) ∧
    (∀ v m, Nb.Gen.C11.offsetTooSmall v m = true ↔ v < m) ∧
    (∀ v m, Nb.Gen.C11.storedBelow v m = true ↔ v < m) ∧
    (∀ x r t, Nb.Gen.C11.padBytes x r t = x + r - t) :=
  ⟨fun s => by rw [readLoopCond_eq], fun e => by rw [zeroSizeStops_eq], readCount_eq,
   fun g e => by rw [contentLenOk_eq], sizeAfter_eq, extSize_eq, minVoxOffset_eq,
   fun v => by rw [offsetUnset_eq], fun v m => by rw [offsetTooSmall_eq], fun v m => by rw [storedBelow_eq],
   padBytes_eq⟩

example : Nb.Gen.C11.readLoopCond 16 = true ∧ Nb.Gen.C11.readLoopCond 15 = false ∧ Nb.Gen.C11.readLoopCond (-1) = true := by
  decide

/-! ## byte level -/

/-- int32 codec used for esize / ecode: decoding the four bytes written gives the value back, both byte orders -/
theorem codec_roundtrip (e : Endian) (v : Int) (h : inInt32 v) :
    ∃ a b c d, encI32 e v = [a, b, c, d] ∧ decI32 e a b c d = v :=
  decI32_encI32 e v h

example : inInt32 (-2147483648) := by decide

/-- the writer's output for a list of records has exactly the length `get_sizeondisk` announces, a multiple of 16 -/
theorem serialize_length (e : Endian) (xs : List Ext) (hok : AllOK xs) :
    ∃ bytes, serializeExts e xs = .ok bytes ∧ (bytes.length : Int) = totalSize xs ∧ totalSize xs % 16 = 0 := by
  obtain ⟨bytes, h, hl⟩ := serializeExts_ok e xs hok
  exact ⟨bytes, h, hl, totalSize_mod16 xs⟩

example : AllOK [⟨6, [104, 105]⟩, ⟨9998, []⟩] := by decide

/-- the reader model is total for the right reason: on ANY bytes, `size` and byte order (pinned or repaired
    logic) the recursion budget `bs.length + 1` is never exhausted — the outcome is a list or a HeaderDataError -/
theorem reader_total (e : Endian) (bs : List Nat) (size : Int) :
    parseExts e bs size ≠ .error .fuel ∧ parseExtsOrig e bs size ≠ .error .fuel :=
  ⟨parse_no_fuel true e _ bs size (Nat.lt_succ_self _), parse_no_fuel false e _ bs size (Nat.lt_succ_self _)⟩

/-- `ext_roundtrip`.  Reader after writer, any list of records, either byte order:
    * single file: the records are followed by a zero gap of ANY length `g` (0 for a library-chosen offset)
      and then arbitrary bytes `d` (the data), and the reader is given `size = Σ sizes + g`
      (= `vox_offset - tell()`);
    * pair: the records run to the end of the header file and `size < 0`.
    The result is the list saved, each content stripped of trailing NULs (the pad bytes are indistinguishable
    from NULs the content ends in). -/
theorem ext_roundtrip (e : Endian) (xs : List Ext) (bytes : List Nat) (hok : AllOK xs)
    (hser : serializeExts e xs = .ok bytes) :
    (∀ (g : Nat) (d : List Nat),
        parseExts e (bytes ++ (zeros g ++ d)) (totalSize xs + (g : Int)) = .ok (xs.map Ext.strip)) ∧
    (∀ size : Int, size < 0 → parseExts e bytes size = .ok (xs.map Ext.strip)) :=
  ⟨fun g d => parseExts_gap e xs bytes d g hok hser, fun size h => parseExts_eof e xs bytes size h hok hser⟩

/-- contents that do not end in a NUL byte (in particular empty ones) come back exactly -/
theorem ext_roundtrip_exact (e : Endian) (xs : List Ext) (bytes : List Nat) (hok : AllOK xs)
    (hnt : ∀ x ∈ xs, NoTrailingNul x) (hser : serializeExts e xs = .ok bytes) :
    (∀ (g : Nat) (d : List Nat), parseExts e (bytes ++ (zeros g ++ d)) (totalSize xs + (g : Int)) = .ok xs) ∧
    (∀ size : Int, size < 0 → parseExts e bytes size = .ok xs) := by
  have h := ext_roundtrip e xs bytes hok hser
  rw [map_strip_of_noTrailing xs hnt] at h
  exact h

example : (∀ x ∈ [(⟨6, [104, 105]⟩ : Ext), ⟨-3, []⟩, ⟨40, [0, 0, 7]⟩], NoTrailingNul x) := by decide

/-- "up to trailing NULs" is a projection: what a load returns has no trailing NULs, so a second save/load cycle
    returns it exactly -/
theorem ext_roundtrip_idempotent (xs : List Ext) :
    (∀ x ∈ xs.map Ext.strip, NoTrailingNul x) ∧ (xs.map Ext.strip).map Ext.strip = xs.map Ext.strip := by
  constructor
  · intro x hx
    obtain ⟨y, _, rfl⟩ := List.mem_map.mp hx
    exact rstripNul_noTrailing y.content
  · rw [List.map_map]
    exact List.map_congr_left (fun x _ => strip_strip x)

/-! ## precision of the `vox_offset` field

  The header FIELD is float32 in NIfTI-1 and int64 in NIfTI-2 (`Fmt.voxF32`, regenerated from the header dtype);
  `Fmt.offRepr n` is the value read back after `n` was assigned, `Fmt.offFill m` what `write_to` leaves there
  when it fills in the minimum offset `m` itself (repaired logic: never below `m`).  Every file-level theorem
  below is about the STORED offset.  For an offset the library chooses nothing is assumed; for an explicit
  offset the theorems speak about the stored value or assume the request exactly representable
  (`fmt.Exact n`: every value of NIfTI-2; NIfTI-1 below 2^24 and multiples of 16 below 2^28 —
  `offset_field_exact`).  The logic before the repair let a minimum ≥ 2^28 round DOWN into the last extension
  (`offset_nifti1_f4_orig_counterexample`; reproduced on the real code with one 256 MiB extension). -/

/-- which offsets the field holds exactly (generated `voxF32` flags); the stored value is 0 only for 0 -/
theorem offset_field_exact :
    (∀ n, nifti2.Exact n) ∧
    (∀ n, n < 16777216 → nifti1.Exact n) ∧
    (∀ n, n % 16 = 0 → n < 268435456 → nifti1.Exact n) ∧
    (∀ (fmt : Fmt) n, fmt.offRepr n = 0 ↔ n = 0) :=
  ⟨exact_of_int nifti2 rfl, exact_small nifti1, exact_mul16 nifti1, offRepr_eq_zero⟩

example : nifti1.Exact 268435440 ∧ ¬ nifti1.Exact 268435856 ∧ nifti1.offRepr 16777217 = 16777216 := by decide

/-- the offset the library fills in, for EVERY wanted value `m` and either field type: not below `m`, equal to
    `m` when `m` is representable, a multiple of 16 when `m` is (float32 spacing is 1,2,4,8,16 below 2^28 and
    a multiple of 32 above). -/
theorem library_offset_ok (fmt : Fmt) (m : Nat) :
    m ≤ fmt.offFill m ∧ (fmt.Exact m → fmt.offFill m = m) ∧ (m % 16 = 0 → fmt.offFill m % 16 = 0) :=
  offFill_spec fmt m

example : nifti1.offFill 268435856 = 268435872 ∧ nifti1.offRepr 268435856 = 268435840 ∧
    nifti2.offFill 268435856 = 268435856 := by decide

/-- the hypotheses under which the requested offset is the stored one for the two shipped formats:
    NIfTI-2 — always; NIfTI-1 — requested offset below 2^24 or a multiple of 16 below 2^28, and (when the
    offset is left to the library) `single_vox_offset + Σ sizes < 2^28`. -/
theorem fits_shipped (xs : List Ext) (userOff : Nat) :
    ((userOff = 0 ∨ (nifti2.singleOff : Int) + totalSize xs ≤ (userOff : Int)) →
        Fits nifti2 xs userOff ∧
        chosenOffset nifti2 xs userOff = (if userOff = 0 then (minOffset nifti2 xs).toNat else userOff)) ∧
    ((userOff = 0 ∨ (nifti1.singleOff : Int) + totalSize xs ≤ (userOff : Int)) →
      (userOff < 16777216 ∨ (userOff % 16 = 0 ∧ userOff < 268435456)) →
      (userOff = 0 → (nifti1.singleOff : Int) + totalSize xs < 268435456) →
        Fits nifti1 xs userOff ∧
        chosenOffset nifti1 xs userOff = (if userOff = 0 then (minOffset nifti1 xs).toNat else userOff)) := by
  constructor
  · intro hoff
    exact fits_of_exact nifti2 xs userOff hoff (exact_of_int nifti2 rfl _) (fun _ => exact_of_int nifti2 rfl _)
  · intro hoff hu hm
    refine fits_of_exact nifti1 xs userOff hoff ?_ ?_
    · rcases hu with h | ⟨h16, h⟩
      · exact exact_small nifti1 _ h
      · exact exact_mul16 nifti1 _ h16 h
    · intro h0
      have hm' := hm h0
      have hmod := totalSize_mod16 xs
      have hnn := totalSize_nonneg xs
      have hmin : minOffset nifti1 xs = (nifti1.singleOff : Int) + totalSize xs := minOffset_eq nifti1 xs
      have h352 : nifti1.singleOff % 16 = 0 := by decide
      exact exact_mul16 nifti1 _ (by omega) (by omega)

example : (0 = 0 ∨ (nifti1.singleOff : Int) + totalSize [⟨6, [104, 105]⟩] ≤ ((0 : Nat) : Int)) ∧
    ((0 : Nat) < 16777216) ∧ ((nifti1.singleOff : Int) + totalSize [⟨6, [104, 105]⟩] < 268435456) := by decide

/-! ## file level: single file -/

/-- `offset_ok`.  With the offset left to the library (`vox_offset` field 0) a save succeeds for EVERY list of
    valid extensions, in either format; the offset written is not below `single_vox_offset + Σ get_sizeondisk`
    (and equal to it whenever that is representable in the field: always for NIfTI-2, below 2^28 for NIfTI-1
    — `offset_ok_shipped`), a multiple of 16, and not less than header block + 4-byte extender + the bytes of
    all extension records. -/
theorem offset_ok (fmt : Fmt) (e : Endian) (xs : List Ext) (data : List Nat) (hf : FmtOK fmt) (hok : AllOK xs)
    (hd : data ≠ []) :
    ∃ f bytes, writeSingle fmt e xs 0 data = .ok f ∧ serializeExts e xs = .ok bytes ∧
      (fmt.singleOff : Int) + totalSize xs ≤ (f.voxOffset : Int) ∧
      (fmt.Exact (minOffset fmt xs).toNat → (f.voxOffset : Int) = (fmt.singleOff : Int) + totalSize xs) ∧
      f.voxOffset % 16 = 0 ∧
      fmt.hdrSize + 4 + bytes.length ≤ f.voxOffset := by
  obtain ⟨bytes, hser, hl⟩ := serializeExts_ok e xs hok
  obtain ⟨hfit, hc⟩ := fits_of_request fmt xs 0 (Or.inl rfl)
  obtain ⟨hw, hroom⟩ := writeSingle_ok fmt e xs 0 bytes data hf hok hser hd hfit
  obtain ⟨hge, hex, h16⟩ := offFill_spec fmt (minOffset fmt xs).toNat
  have hnn := totalSize_nonneg xs
  have hm := totalSize_mod16 xs
  have hmin : minOffset fmt xs = (fmt.singleOff : Int) + totalSize xs := minOffset_eq fmt xs
  rw [if_pos rfl] at hc
  obtain ⟨_, hf2, hf3⟩ := hf
  refine ⟨_, bytes, hw, hser, ?_, ?_, ?_, hroom⟩
  · show _ ≤ ((chosenOffset fmt xs 0 : Nat) : Int)
    rw [hc]; omega
  · intro hx
    show ((chosenOffset fmt xs 0 : Nat) : Int) = _
    rw [hc, hex hx]; omega
  · show chosenOffset fmt xs 0 % 16 = 0
    rw [hc]; exact h16 (by omega)

example : FmtOK nifti1 ∧ AllOK [⟨6, [104, 105]⟩] ∧ ([7] : List Nat) ≠ [] ∧
    nifti1.Exact (minOffset nifti1 [⟨6, [104, 105]⟩]).toNat := by decide

/-- `offset_ok` with the EXACT offset for the two shipped formats: NIfTI-2 for EVERY list, NIfTI-1 for every
    list with `352 + Σ sizes < 2^28`. -/
theorem offset_ok_shipped (e : Endian) (xs : List Ext) (data : List Nat) (hok : AllOK xs) (hd : data ≠ []) :
    (∃ f bytes, writeSingle nifti2 e xs 0 data = .ok f ∧ serializeExts e xs = .ok bytes ∧
      (f.voxOffset : Int) = (nifti2.singleOff : Int) + totalSize xs ∧ f.voxOffset % 16 = 0 ∧
      nifti2.hdrSize + 4 + bytes.length ≤ f.voxOffset) ∧
    ((nifti1.singleOff : Int) + totalSize xs < 268435456 →
      ∃ f bytes, writeSingle nifti1 e xs 0 data = .ok f ∧ serializeExts e xs = .ok bytes ∧
      (f.voxOffset : Int) = (nifti1.singleOff : Int) + totalSize xs ∧ f.voxOffset % 16 = 0 ∧
      nifti1.hdrSize + 4 + bytes.length ≤ f.voxOffset) := by
  have hf : FmtOK nifti1 ∧ FmtOK nifti2 := by decide
  constructor
  · obtain ⟨f, bytes, hw, hs, _, hex, h16, hroom⟩ := offset_ok nifti2 e xs data hf.2 hok hd
    exact ⟨f, bytes, hw, hs, hex (exact_of_int nifti2 rfl _), h16, hroom⟩
  · intro hm
    have hmod := totalSize_mod16 xs
    have hnn := totalSize_nonneg xs
    have hmin : minOffset nifti1 xs = (nifti1.singleOff : Int) + totalSize xs := minOffset_eq nifti1 xs
    have h352 : nifti1.singleOff % 16 = 0 := by decide
    obtain ⟨f, bytes, hw, hs, _, hex, h16, hroom⟩ := offset_ok nifti1 e xs data hf.1 hok hd
    exact ⟨f, bytes, hw, hs, hex (exact_mul16 nifti1 _ (by omega) (by omega)), h16, hroom⟩

example : AllOK [⟨6, [104, 105]⟩] ∧ ([7] : List Nat) ≠ [] ∧
    ((nifti1.singleOff : Int) + totalSize [⟨6, [104, 105]⟩] < 268435456) := by decide

/-- The logic BEFORE the repair (`chooseOffsetTOrig`: assign the minimum to the field and use whatever it keeps)
    on one extension of 268435488 content bytes (esize 268435504): the offset needed is 352 + 268435504 =
    268435856, which is not a float32; the field kept 268435840, 16 bytes below the end of the extension
    record (on the real code the save succeeded and the data overwrote the tail of the extension).  The repaired
    rule stores 268435872, the next float32; NIfTI-2 stores the exact offset. -/
theorem offset_nifti1_f4_orig_counterexample :
    AllOK [⟨6, List.replicate 268435488 7⟩] ∧
    totalSize [⟨6, List.replicate 268435488 7⟩] = 268435504 ∧
    ¬ nifti1.Exact 268435856 ∧
    chooseOffsetTOrig nifti1 (totalSize [⟨6, List.replicate 268435488 7⟩]) 0 = .ok 268435840 ∧
    (268435840 : Int) < (nifti1.hdrSize : Int) + 4 + totalSize [⟨6, List.replicate 268435488 7⟩] ∧
    chooseOffset nifti1 [⟨6, List.replicate 268435488 7⟩] 0 = .ok 268435872 ∧
    chooseOffset nifti2 [⟨6, List.replicate 268435488 7⟩] 0 = .ok 268436048 := by
  have hlen : (List.replicate 268435488 7 : List Nat).length = 268435488 := List.length_replicate ..
  have hsz : sizeOnDisk 268435488 = 268435504 := by decide
  have htot : totalSize [⟨6, List.replicate 268435488 7⟩] = 268435504 := by
    simp only [totalSize, hlen, hsz]; decide
  refine ⟨?_, htot, by decide, by rw [htot]; decide, by rw [htot]; decide, ?_, ?_⟩
  · intro x hx
    simp only [List.mem_singleton] at hx
    subst hx
    exact ⟨by decide, by show inInt32 (sizeOnDisk (List.replicate 268435488 7).length); rw [hlen, hsz]; decide⟩
  · unfold chooseOffset; rw [htot]; decide
  · unfold chooseOffset; rw [htot]; decide

/-- The sizes-only form of the header writer used by the `voff` correspondence stream (totals up to 2^33 without
    the bytes) is the same rule as the full save: whenever a single-file save of `xs` succeeds, the sizes-only
    run on the content LENGTHS of `xs` reports the offset that save stored and the end of the extension block. -/
theorem sizes_only_agrees (fmt : Fmt) (e : Endian) (xs : List Ext) (userOff : Nat) (data : List Nat) (f : HFile)
    (hok : AllOK xs) (hw : writeSingle fmt e xs userOff data = .ok f) :
    headerWriteSizes true fmt (xs.map (·.content.length)) userOff =
      .ok (f.voxOffset, fmt.hdrSize + 4 + (totalSize xs).toNat) := by
  obtain ⟨hc, _⟩ := writeSingle_voxOffset fmt e xs userOff data f hw
  have hsum : ∀ ys : List Ext, ((ys.map (·.content.length)).map sizeOnDisk).sum = totalSize ys := by
    intro ys
    induction ys with
    | nil => rfl
    | cons y ys ih => simp only [List.map_cons, List.sum_cons, totalSize, ih]
  have hovf : (xs.map (·.content.length)).any (fun n => ¬ inInt32 (sizeOnDisk n)) = false := by
    rw [List.any_eq_false]
    intro n hn
    obtain ⟨x, hx, rfl⟩ := List.mem_map.mp hn
    have := (hok x hx).2
    simpa using this
  unfold headerWriteSizes
  simp only [if_true, hsum, hovf]
  unfold chooseOffset at hc
  rw [hc, bind_ok]
  simp

example : headerWriteSizes true nifti1 [268435488] 0 = .ok (268435872, 268435856) ∧
    headerWriteSizes true nifti2 [2, 0] 0 = .ok (576, 576) := by decide

/-- `small_offset_rejected`.  An explicit offset whose stored value is below `single_vox_offset + Σ sizes` is
    refused with HeaderDataError — for ANY extension list (no validity guard needed: the check comes first).
    For an exactly representable request (`fmt.Exact userOff`: all of NIfTI-2, NIfTI-1 below 2^24 …) the stored
    value is the requested one (second clause = the statement on the requested offset). -/
theorem small_offset_rejected (fmt : Fmt) (e : Endian) (xs : List Ext) (userOff : Nat) (data : List Nat) :
    (fmt.offRepr userOff ≠ 0 → (fmt.offRepr userOff : Int) < (fmt.singleOff : Int) + totalSize xs →
      writeSingle fmt e xs userOff data = .error .headerData) ∧
    (userOff ≠ 0 → fmt.Exact userOff → (userOff : Int) < (fmt.singleOff : Int) + totalSize xs →
      writeSingle fmt e xs userOff data = .error .headerData) := by
  refine ⟨fun h0 hs => writeSingle_small fmt e xs userOff data h0 hs, fun h0 hx hs => ?_⟩
  unfold Fmt.Exact at hx
  exact writeSingle_small fmt e xs userOff data (by rw [hx]; exact h0) (by rw [hx]; exact hs)

example : (367 : Nat) ≠ 0 ∧ nifti1.Exact 367 ∧
    ((367 : Nat) : Int) < (nifti1.singleOff : Int) + totalSize [⟨6, [104, 105]⟩] := by
  decide

/-- `no_overlap`.  WHATEVER offset the user asked for, EVERY list, either format: if a single-file save
    succeeds, the data start at or after the end of the last extension record, and the bytes after the header
    block are exactly extender ++ records ++ zero gap ++ data — no byte of an extension is overwritten by data.
    (`f.voxOffset` is the stored offset; for the pre-repair rule this failed — see
    `offset_nifti1_f4_orig_counterexample`.) -/
theorem no_overlap (fmt : Fmt) (e : Endian) (xs : List Ext) (userOff : Nat) (data : List Nat) (f : HFile)
    (hf : FmtOK fmt) (hok : AllOK xs) (hd : data ≠ []) (hw : writeSingle fmt e xs userOff data = .ok f) :
    ∃ bytes, serializeExts e xs = .ok bytes ∧
      fmt.hdrSize + 4 + bytes.length ≤ f.voxOffset ∧
      f.after = (if xs.isEmpty then [0, 0, 0, 0] else [1, 0, 0, 0]) ++ bytes ++
                  zeros (f.voxOffset - (fmt.hdrSize + 4 + bytes.length)) ++ data := by
  obtain ⟨bytes, hser, hl⟩ := serializeExts_ok e xs hok
  refine ⟨bytes, hser, ?_⟩
  by_cases hfit : Fits fmt xs userOff
  · obtain ⟨hw', hroom⟩ := writeSingle_ok fmt e xs userOff bytes data hf hok hser hd hfit
    rw [hw'] at hw
    cases hw
    exact ⟨hroom, rfl⟩
  · exfalso
    by_cases h0 : fmt.offRepr userOff = 0
    · exact hfit (fits_library fmt xs userOff h0)
    · have hs : (fmt.offRepr userOff : Int) < minOffset fmt xs := by
        unfold Fits chosenOffset at hfit
        rw [if_neg h0] at hfit
        omega
      rw [writeSingle_small fmt e xs userOff data h0 hs] at hw
      cases hw

example : writeSingle nifti1 .le [⟨6, [104, 105]⟩] 400 [7] =
    .ok ⟨400, [1, 0, 0, 0, 16, 0, 0, 0, 6, 0, 0, 0, 104, 105, 0, 0, 0, 0, 0, 0] ++ zeros 32 ++ [7]⟩ := by decide

example : writeSingle nifti2 .be [⟨6, [104, 105]⟩] 0 [7] =
    .ok ⟨560, [1, 0, 0, 0, 0, 0, 0, 16, 0, 0, 0, 6, 104, 105, 0, 0, 0, 0, 0, 0, 7]⟩ := by decide

/-- `single_roundtrip`, stated on the STORED offset.  Save then load of a single file whose stored offset leaves
    room (`Fits`: library-chosen or explicit, exact or rounded UP): the load returns the extensions saved
    (contents up to trailing NULs, same order, same codes), `dataobj.offset` is the offset stored, and the data
    bytes are the ones saved. -/
theorem single_roundtrip_stored (fmt : Fmt) (e : Endian) (xs : List Ext) (userOff : Nat) (data : List Nat)
    (hf : FmtOK fmt) (hok : AllOK xs) (hd : data ≠ []) (hfit : Fits fmt xs userOff) :
    ∃ f, writeSingle fmt e xs userOff data = .ok f ∧
      f.voxOffset = chosenOffset fmt xs userOff ∧
      readSingle fmt e f data.length = .ok ⟨xs.map Ext.strip, f.voxOffset, data⟩ := by
  obtain ⟨bytes, hser, hl⟩ := serializeExts_ok e xs hok
  obtain ⟨hw, hroom⟩ := writeSingle_ok fmt e xs userOff bytes data hf hok hser hd hfit
  exact ⟨_, hw, rfl, readSingle_layout fmt e xs bytes data _ hf hok hser hfit⟩

example : FmtOK nifti1 ∧ Fits nifti1 [⟨6, [104, 105]⟩] 16777217 ∧ chosenOffset nifti1 [⟨6, [104, 105]⟩] 16777217 = 16777216 := by
  decide

/-- `single_roundtrip`.  Offset left to the library (`userOff = 0`: EVERY list, either format) or an explicit,
    exactly representable offset not below the minimum: the offset written is what the library fills in
    (`library_offset_ok`: ≥ minimum, = minimum when representable) resp. the requested one, and the file loads
    with the extensions (up to trailing NULs), offset and data saved. -/
theorem single_roundtrip (fmt : Fmt) (e : Endian) (xs : List Ext) (userOff : Nat) (data : List Nat)
    (hf : FmtOK fmt) (hok : AllOK xs) (hd : data ≠ [])
    (hoff : userOff = 0 ∨ ((fmt.singleOff : Int) + totalSize xs ≤ (userOff : Int) ∧ fmt.Exact userOff)) :
    ∃ f, writeSingle fmt e xs userOff data = .ok f ∧
      f.voxOffset = (if userOff = 0 then fmt.offFill (minOffset fmt xs).toNat else userOff) ∧
      (fmt.singleOff : Int) + totalSize xs ≤ (f.voxOffset : Int) ∧
      readSingle fmt e f data.length = .ok ⟨xs.map Ext.strip, f.voxOffset, data⟩ := by
  obtain ⟨hfit, hc⟩ := fits_of_request fmt xs userOff hoff
  obtain ⟨f, hw, hv, hr⟩ := single_roundtrip_stored fmt e xs userOff data hf hok hd hfit
  refine ⟨f, hw, by rw [hv, hc], ?_, hr⟩
  rw [hv]; exact hfit

example : FmtOK nifti2 ∧ AllOK [⟨6, [104, 105, 0]⟩, ⟨-1, []⟩] ∧ ([7] : List Nat) ≠ [] ∧
    ((nifti2.singleOff : Int) + totalSize [⟨6, [104, 105, 0]⟩, ⟨-1, []⟩] ≤ ((624 : Nat) : Int)) ∧
    nifti2.Exact 624 := by decide

/-- `single_roundtrip` for the shipped formats in terms of the REQUESTED offset only: NIfTI-2 unconditionally,
    NIfTI-1 under the float32 bounds of `fits_shipped`. -/
theorem single_roundtrip_shipped (e : Endian) (xs : List Ext) (userOff : Nat) (data : List Nat)
    (hok : AllOK xs) (hd : data ≠ []) :
    ((userOff = 0 ∨ (nifti2.singleOff : Int) + totalSize xs ≤ (userOff : Int)) →
      ∃ f, writeSingle nifti2 e xs userOff data = .ok f ∧
        (f.voxOffset : Int) = (if userOff = 0 then (nifti2.singleOff : Int) + totalSize xs else (userOff : Int)) ∧
        readSingle nifti2 e f data.length = .ok ⟨xs.map Ext.strip, f.voxOffset, data⟩) ∧
    ((userOff = 0 ∨ (nifti1.singleOff : Int) + totalSize xs ≤ (userOff : Int)) →
      (userOff < 16777216 ∨ (userOff % 16 = 0 ∧ userOff < 268435456)) →
      (userOff = 0 → (nifti1.singleOff : Int) + totalSize xs < 268435456) →
      ∃ f, writeSingle nifti1 e xs userOff data = .ok f ∧
        (f.voxOffset : Int) = (if userOff = 0 then (nifti1.singleOff : Int) + totalSize xs else (userOff : Int)) ∧
        readSingle nifti1 e f data.length = .ok ⟨xs.map Ext.strip, f.voxOffset, data⟩) := by
  have hf : FmtOK nifti1 ∧ FmtOK nifti2 := by decide
  have hnn := totalSize_nonneg xs
  constructor
  · intro hoff
    obtain ⟨hfit, hc⟩ := (fits_shipped xs userOff).1 hoff
    obtain ⟨f, hw, hv, hr⟩ := single_roundtrip_stored nifti2 e xs userOff data hf.2 hok hd hfit
    have hmin : minOffset nifti2 xs = (nifti2.singleOff : Int) + totalSize xs := minOffset_eq nifti2 xs
    refine ⟨f, hw, ?_, hr⟩
    rw [hv, hc]
    split <;> omega
  · intro hoff hu hm
    obtain ⟨hfit, hc⟩ := (fits_shipped xs userOff).2 hoff hu hm
    obtain ⟨f, hw, hv, hr⟩ := single_roundtrip_stored nifti1 e xs userOff data hf.1 hok hd hfit
    have hmin : minOffset nifti1 xs = (nifti1.singleOff : Int) + totalSize xs := minOffset_eq nifti1 xs
    refine ⟨f, hw, ?_, hr⟩
    rw [hv, hc]
    split <;> omega

example : AllOK [⟨6, [104, 105, 0]⟩] ∧ ([7] : List Nat) ≠ [] ∧
    ((nifti1.singleOff : Int) + totalSize [⟨6, [104, 105, 0]⟩] ≤ ((400 : Nat) : Int)) ∧ (400 : Nat) < 16777216 := by
  decide

/-- `explicit_offset_roundtrip` (repaired logic).  At least one extension, explicit offset = minimum + a zero
    gap of ANY length `g` (16, 32, … as well as lengths that are not multiples of 16), exactly representable in
    the field: the file loads, with the extensions and the data saved.  The pinned reader failed here for every
    `g ≥ 16` (`ext_gap_orig_counterexample`). -/
theorem explicit_offset_roundtrip (fmt : Fmt) (e : Endian) (xs : List Ext) (g : Nat) (data : List Nat)
    (hf : FmtOK fmt) (hok : AllOK xs) (hne : xs ≠ []) (hd : data ≠ [])
    (hx : fmt.Exact (fmt.singleOff + (totalSize xs).toNat + g)) :
    ∃ f, writeSingle fmt e xs (fmt.singleOff + (totalSize xs).toNat + g) data = .ok f ∧
      f.voxOffset = fmt.singleOff + (totalSize xs).toNat + g ∧
      readSingle fmt e f data.length = .ok ⟨xs.map Ext.strip, fmt.singleOff + (totalSize xs).toNat + g, data⟩ := by
  have hnn := totalSize_nonneg xs
  have h16 : 16 ≤ totalSize xs := by
    cases xs with
    | nil => exact absurd rfl hne
    | cons x xs =>
        have := sizeOnDisk_ge16 x.content.length
        have := totalSize_nonneg xs
        simp only [totalSize]; omega
  obtain ⟨f, hw, hv, _, hr⟩ := single_roundtrip fmt e xs (fmt.singleOff + (totalSize xs).toNat + g) data hf hok hd
    (Or.inr ⟨by omega, hx⟩)
  rw [if_neg (by omega)] at hv
  exact ⟨f, hw, hv, by rw [hr, hv]⟩

example : FmtOK nifti1 ∧ AllOK [⟨6, [104, 105]⟩] ∧ [(⟨6, [104, 105]⟩ : Ext)] ≠ [] ∧
    nifti1.Exact (nifti1.singleOff + (totalSize [⟨6, [104, 105]⟩]).toNat + 21) := by decide

/-! ## file level: header/image pair -/

/-- `pair_roundtrip`.  Pair images: extensions live in the header file and are read to its end; the data offset
    the user sets is honoured as STORED in the field (`fmt.offRepr userOff`; `= userOff` whenever exact — all of
    NIfTI-2, NIfTI-1 below 2^24): the image file is that many zero bytes followed by the data; extensions and
    data read back.  No exactness hypothesis is needed: writer and reader use the same stored value. -/
theorem pair_roundtrip (fmt : Fmt) (e : Endian) (xs : List Ext) (userOff : Nat) (data : List Nat)
    (hok : AllOK xs) (hd : data ≠ []) :
    ∃ p, writePair fmt e xs userOff data = .ok p ∧ p.hdr.voxOffset = fmt.offRepr userOff ∧
      (fmt.Exact userOff → p.hdr.voxOffset = userOff) ∧
      p.img = zeros (fmt.offRepr userOff) ++ data ∧
      readPair fmt e p data.length = .ok ⟨xs.map Ext.strip, fmt.offRepr userOff, data⟩ := by
  obtain ⟨bytes, hser, hl⟩ := serializeExts_ok e xs hok
  generalize hu : fmt.offRepr userOff = u
  have himg : writeAt [] u data = zeros u ++ data := by
    rw [writeAt_past [] data u (by simp) hd]; simp
  have hdrop : List.drop u (zeros u ++ data) = data :=
    List.drop_left' (by simp [zeros])
  have hchk : chkOffset false fmt u = .ok () := by
    unfold chkOffset
    by_cases h0 : u = 0
    · rw [if_pos h0]
    · rw [if_neg h0, if_neg (by simp)]
  have hex : fmt.Exact userOff → u = userOff := fun h => by rw [← hu]; exact h
  unfold writePair extBlock
  rw [hu]
  cases xs with
  | nil =>
      simp only [List.isEmpty_nil, if_true, map_ok]
      refine ⟨_, rfl, rfl, hex, himg, ?_⟩
      unfold readPair
      simp only [hchk, bind_ok, himg, hdrop, readData_exact, map_ok]
      rfl
  | cons x xs =>
      simp only [List.isEmpty_cons, Bool.false_eq_true, if_false, hser, map_ok]
      refine ⟨_, rfl, rfl, hex, himg, ?_⟩
      unfold readPair
      have hexts : readExtsAfter false fmt e ⟨u, [1, 0, 0, 0] ++ bytes⟩ = .ok ((x :: xs).map Ext.strip) := by
        unfold readExtsAfter
        simp only [List.cons_append, List.nil_append, List.take_succ_cons, List.take_zero,
          List.drop_succ_cons, List.drop_zero]
        rw [if_neg (by omega)]
        simp only [Bool.false_eq_true, if_false]
        exact parseExts_eof e (x :: xs) bytes Nb.Gen.C11.pairExtSize (by decide) hok hser
      simp only [hchk, bind_ok, hexts, himg, hdrop, readData_exact, map_ok]

example : AllOK [⟨4, [1, 2, 3, 0, 0]⟩] ∧ ([9, 9] : List Nat) ≠ [] ∧ nifti1.Exact 20 := by decide

/-! ## independence of the data from the extensions -/

/-- `data_independent`.  Single files: whatever two extension lists are saved with the same data (offsets
    library-chosen — EVERY list — or explicit, exactly representable and large enough for the respective
    list), the bytes of the data region on disk (from `vox_offset` to the end of the file) and the data loaded
    are the same — namely the data saved. -/
theorem data_independent (fmt : Fmt) (e₁ e₂ : Endian) (xs ys : List Ext) (o₁ o₂ : Nat) (data : List Nat)
    (hf : FmtOK fmt) (hx : AllOK xs) (hy : AllOK ys) (hd : data ≠ [])
    (h₁ : o₁ = 0 ∨ ((fmt.singleOff : Int) + totalSize xs ≤ (o₁ : Int) ∧ fmt.Exact o₁))
    (h₂ : o₂ = 0 ∨ ((fmt.singleOff : Int) + totalSize ys ≤ (o₂ : Int) ∧ fmt.Exact o₂)) :
    ∃ f₁ f₂ l₁ l₂, writeSingle fmt e₁ xs o₁ data = .ok f₁ ∧ writeSingle fmt e₂ ys o₂ data = .ok f₂ ∧
      readSingle fmt e₁ f₁ data.length = .ok l₁ ∧ readSingle fmt e₂ f₂ data.length = .ok l₂ ∧
      l₁.data = data ∧ l₂.data = data ∧
      f₁.after.drop (f₁.voxOffset - fmt.hdrSize) = data ∧ f₂.after.drop (f₂.voxOffset - fmt.hdrSize) = data := by
  have h₁ := (fits_of_request fmt xs o₁ h₁).1
  have h₂ := (fits_of_request fmt ys o₂ h₂).1
  obtain ⟨f₁, hw₁, hv₁, hr₁⟩ := single_roundtrip_stored fmt e₁ xs o₁ data hf hx hd h₁
  obtain ⟨f₂, hw₂, hv₂, hr₂⟩ := single_roundtrip_stored fmt e₂ ys o₂ data hf hy hd h₂
  obtain ⟨b₁, hs₁, _⟩ := serializeExts_ok e₁ xs hx
  obtain ⟨b₂, hs₂, _⟩ := serializeExts_ok e₂ ys hy
  obtain ⟨hw₁', hroom₁⟩ := writeSingle_ok fmt e₁ xs o₁ b₁ data hf hx hs₁ hd h₁
  obtain ⟨hw₂', hroom₂⟩ := writeSingle_ok fmt e₂ ys o₂ b₂ data hf hy hs₂ hd h₂
  refine ⟨f₁, f₂, _, _, hw₁, hw₂, hr₁, hr₂, rfl, rfl, ?_, ?_⟩
  · rw [hw₁'] at hw₁; cases hw₁
    exact List.drop_left' (by simp [zeros, extender_length]; omega)
  · rw [hw₂'] at hw₂; cases hw₂
    exact List.drop_left' (by simp [zeros, extender_length]; omega)

example : FmtOK nifti1 ∧ AllOK [⟨6, [104, 105]⟩, ⟨32, [60, 0]⟩] ∧ AllOK [] ∧ ([1, 2] : List Nat) ≠ [] ∧
    ((nifti1.singleOff : Int) + totalSize [⟨6, [104, 105]⟩, ⟨32, [60, 0]⟩] ≤ ((400 : Nat) : Int)) ∧
    nifti1.Exact 400 := by decide

example : readSingle nifti1 .be ⟨400, [1, 0, 0, 0, 0, 0, 0, 16, 0, 0, 0, 6, 104, 105, 0, 0, 0, 0, 0, 0] ++ zeros 32 ++ [7]⟩ 1
    = .ok ⟨[⟨6, [104, 105]⟩], 400, [7]⟩ := by decide

/-- the same for pairs: the image file does not depend on the extension list at all -/
theorem data_independent_pair (fmt : Fmt) (e₁ e₂ : Endian) (xs ys : List Ext) (off : Nat) (data : List Nat)
    (hx : AllOK xs) (hy : AllOK ys) (hd : data ≠ []) :
    ∃ p₁ p₂, writePair fmt e₁ xs off data = .ok p₁ ∧ writePair fmt e₂ ys off data = .ok p₂ ∧ p₁.img = p₂.img ∧
      (readPair fmt e₁ p₁ data.length).map (·.data) = .ok data ∧
      (readPair fmt e₂ p₂ data.length).map (·.data) = .ok data := by
  obtain ⟨p₁, hw₁, _, _, hi₁, hr₁⟩ := pair_roundtrip fmt e₁ xs off data hx hd
  obtain ⟨p₂, hw₂, _, _, hi₂, hr₂⟩ := pair_roundtrip fmt e₂ ys off data hy hd
  exact ⟨p₁, p₂, hw₁, hw₂, by rw [hi₁, hi₂], by rw [hr₁]; rfl, by rw [hr₂]; rfl⟩

example : AllOK [⟨4, [1]⟩] ∧ AllOK [⟨4, [1]⟩, ⟨-5, [0]⟩] ∧ ([1, 2] : List Nat) ≠ [] := by decide

/-! ## the repaired defect -/

/-- The pinned reader (no stop at a zero-size record) on the smallest failing file layout: one `comment`
    extension "hi" (16 bytes on disk), a 16-byte zero gap, data; `size = 32`.  It raised
    `HeaderDataError('failed to read extension content')`. -/
theorem ext_gap_orig_counterexample :
    serializeExts .le [⟨6, [104, 105]⟩] = .ok [16, 0, 0, 0, 6, 0, 0, 0, 104, 105, 0, 0, 0, 0, 0, 0] ∧
    parseExtsOrig .le ([16, 0, 0, 0, 6, 0, 0, 0, 104, 105, 0, 0, 0, 0, 0, 0] ++ (zeros 16 ++ [1, 2, 3])) 32
      = .error .headerData := by
  decide

/-- the repaired reader on the same bytes (instance of `ext_roundtrip`, kept next to the counterexample) -/
theorem ext_gap_fixed_example :
    parseExts .le ([16, 0, 0, 0, 6, 0, 0, 0, 104, 105, 0, 0, 0, 0, 0, 0] ++ (zeros 16 ++ [1, 2, 3])) 32
      = .ok [⟨6, [104, 105]⟩] := by
  decide


/-! # PHASE 3 (wave 3): the object state of extensions and of the headers that carry them (Model/C11_State)

  An extension object serialises lazily (`_raw`, `_object`, `_sync`); headers hold LISTS OF REFERENCES to extension
  objects, and `copy` / `from_header` / image construction share the objects while the lists are independent.  The
  method bodies of `_sync`, `get_object`, `content` are GENERATED from the source AST (unfolded only in
  Lemmas/C11_State), `_mangle` / `_unmangle` are arbitrary functions (no inverse law is assumed), the class
  conversion table and the write plan of `write_to` are regenerated from the source.  All statements hold for EVERY
  world (heap + headers), hence after every history of operations (`history_save_load` says so explicitly). -/

namespace World
variable {Obj : Type}

/-- the operations that only READ extension contents or rearrange headers -/
def XOp.isRead : XOp Obj → Bool
  | .content .. | .size .. | .total .. | .del .. | .share .. | .copy .. | .byteswap .. | .fromHeader .. | .mkImg ..
  | .setOff .. | .saveHdr .. | .saveImg .. => true
  | _ => false

theorem step_read_shown (m : Endian) (w : World Obj) (op : XOp Obj) (hr : XOp.isRead op = true) (k : Nat) :
    (((w.step m op).1.heap[k]?).map XCell.shownExt) = (w.heap[k]?).map XCell.shownExt := by
  cases op with
  | newRaw => cases hr
  | newObj => cases hr
  | getObj => cases hr
  | edit => cases hr
  | content h i =>
    simp only [World.step]
    cases hc : w.cellAt h i with
    | none => rfl
    | some p =>
      obtain ⟨r, c⟩ := p
      simp only
      exact setCell_shownExt w r c _ (cellAt_heap w h i r c hc).1 (by rw [XCell.content_eq]; exact XCell.sync_shownExt c) k
  | size h i =>
    simp only [World.step]
    cases hc : w.cellAt h i with
    | none => rfl
    | some p =>
      obtain ⟨r, c⟩ := p
      simp only
      exact setCell_shownExt w r c _ (cellAt_heap w h i r c hc).1 (by rw [XCell.size_eq]; exact XCell.sync_shownExt c) k
  | total h =>
    simp only [World.step]
    cases w.hdrs[h]? with
    | none => rfl
    | some hd => exact syncRefs_shownExt w hd.refs k
  | del h i =>
    simp only [World.step]
    cases w.hdrs[h]? with
    | none => rfl
    | some hd => simp only; split <;> rfl
  | share h i h2 pos =>
    simp only [World.step]
    split
    · split <;> rfl
    · rfl
  | copy h =>
    simp only [World.step]
    cases w.hdrs[h]? <;> rfl
  | byteswap h target =>
    simp only [World.step]
    cases w.hdrs[h]? <;> rfl
  | fromHeader h cls fmt single =>
    simp only [World.step]
    cases w.hdrs[h]? with
    | none => rfl
    | some hd => simp only; cases convert m hd cls fmt single <;> rfl
  | mkImg h cls fmt single =>
    simp only [World.step]
    cases w.hdrs[h]? with
    | none => rfl
    | some hd => simp only; cases convert m hd cls fmt single <;> rfl
  | setOff h off =>
    simp only [World.step]
    cases w.hdrs[h]? <;> rfl
  | saveHdr h =>
    simp only [World.step]
    cases w.hdrs[h]? with
    | none => rfl
    | some hd =>
      simp only [World.saveHdrCore]
      have := syncRefs_shownExt w hd.refs k
      split
      · split
        · exact this
        · split <;> exact this
      · split <;> exact this
  | saveImg h data =>
    simp only [World.step]
    cases w.hdrs[h]? with
    | none => rfl
    | some hd =>
      simp only
      have := syncRefs_shownExt w hd.refs k
      split
      · simp only [World.saveImgCore]
        split
        · split <;> exact this
        · split <;> exact this
      · rfl

end World

open World

/-! ## extension objects: lazily serialised state (`_raw`, `_object`, `_sync`) -/

theorem ext_object_state {Obj : Type} (x : XCell Obj) (f : Obj → Obj) :
    (x.content.2 = x.shown ∧ x.size.2 = sizeOnDisk x.shown.length ∧ x.getObject.2 = x.toObj) ∧
    (x.content.1.shownExt = x.shownExt ∧ x.content.1.obj = x.obj ∧ x.content.1.raw = x.shown) ∧
    (x.size.1 = x.content.1) ∧
    (x.getObject.1.obj = some x.toObj ∧ x.getObject.1.raw = x.raw ∧ x.getObject.1.code = x.code ∧
      x.getObject.1.shown = x.codec.mangle x.toObj ∧ (x.obj ≠ none → x.getObject.1 = x)) ∧
    ((x.edit f).shown = x.codec.mangle (f x.toObj) ∧ (x.edit f).toObj = f x.toObj ∧ (x.edit f).code = x.code ∧
      (x.edit f).raw = x.raw) := by
  rw [XCell.content_eq, XCell.size_eq, XCell.getObject_eq, XCell.edit_eq, XCell.sync_shownExt]
  refine ⟨⟨rfl, rfl, rfl⟩, ⟨rfl, ?_, ?_⟩, rfl, ⟨rfl, rfl, rfl, rfl, ?_⟩, rfl, rfl, rfl, rfl⟩
  · rw [XCell.sync_eq]
  · rw [XCell.sync_eq]
  · intro h
    cases x with
    | mk c code raw obj =>
      cases obj with
      | none => exact absurd rfl h
      | some o => rfl

example : (XCell.ofRaw ⟨fun o => o ++ [10], fun b => b.filter (· != 32)⟩ 6 [65, 32, 66] : XCell (List Nat)).getObject.1.shown
    = [65, 66, 10] := by decide

theorem write_emits_shown {Obj : Type} (e : Endian) (x : XCell Obj) :
    (x.writeTo e).2 = serializeExt e x.shownExt ∧ (x.writeTo e).1.shownExt = x.shownExt ∧
    (∀ bytes, (x.writeTo e).2 = .ok bytes → (bytes.length : Int) = x.size.2 ∧ x.size.2 % 16 = 0) := by
  have h1 : (x.writeTo e).2 = serializeExt e x.shownExt := by
    unfold XCell.writeTo; rw [XCell.size_eq]; simp only [XCell.sync_toExt]
  refine ⟨h1, ?_, ?_⟩
  · unfold XCell.writeTo; rw [XCell.size_eq]; exact XCell.sync_shownExt x
  · intro bytes hb
    rw [h1] at hb
    rw [XCell.size_eq]
    have hok : ExtOK x.shownExt := by
      by_cases hx : ExtOK x.shownExt
      · exact hx
      · rw [serializeExt_err e _ hx] at hb; cases hb
    rw [serializeExt_ok e _ hok] at hb
    cases hb
    have hc : x.shownExt.content = x.shown := rfl
    have hb := body_length x.shownExt
    have hs := sizeOnDisk_spec x.shownExt.content.length
    rw [hc] at hb hs
    simp only [List.length_append, encI32_length, hc] at hb ⊢
    exact ⟨by omega, hs.1⟩

example : ((XCell.ofObj ⟨id, id⟩ 6 [104, 105] : XCell (List Nat)).writeTo .le).2 =
    .ok [16, 0, 0, 0, 6, 0, 0, 0, 104, 105, 0, 0, 0, 0, 0, 0] := by decide

/-! ## headers sharing extension objects: what a save emits -/

/-- what an image save does when the extension list is `exts` (the file-level model of Model/C11) -/
def saveImgSpec {Obj : Type} (hd : XHdr) (exts : List Ext) (data : List Nat) : XObs Obj :=
  if hd.single then
    match writeSingle hd.fmt hd.endian exts hd.req data with
    | .error e => .err e
    | .ok f => .imgSaved (.single f (readSingle hd.fmt hd.endian f data.length))
  else
    match writePair hd.fmt hd.endian exts hd.req data with
    | .error e => .err e
    | .ok p => .imgSaved (.pair p (readPair hd.fmt hd.endian p data.length))

/-- what `header.write_to` does when the extension list is `exts` -/
def saveHdrSpec {Obj : Type} (hd : XHdr) (exts : List Ext) : XObs Obj :=
  if hd.single then
    match chooseOffset hd.fmt exts hd.req with
    | .error e => .err e
    | .ok off =>
      match extBlock true hd.endian exts with
      | .error e => .err e
      | .ok blk => .hdrSaved off.toNat blk
  else
    match extBlock false hd.endian exts with
    | .error e => .err e
    | .ok blk => .hdrSaved (hd.fmt.offRepr hd.req) blk

theorem save_emits_shown {Obj : Type} (m : Endian) (w : World Obj) (h : Nat) (hd : XHdr) (data : List Nat)
    (hh : w.hdrs[h]? = some hd) :
    (w.step m (.saveHdr h)).2 = saveHdrSpec hd (w.shownExts hd.refs) ∧
    (hd.isImg = true → data ≠ [] → (w.step m (.saveImg h data)).2 = saveImgSpec hd (w.shownExts hd.refs) data) ∧
    (w.step m (.total h)).2 = .int (totalSize (w.shownExts hd.refs)) := by
  refine ⟨?_, ?_, ?_⟩
  · simp only [World.step, hh, World.saveHdrCore, rawExts_syncRefs, saveHdrSpec]
    cases hd.single
    · simp only [Bool.false_eq_true, if_false]
      cases extBlock false hd.endian (w.shownExts hd.refs) <;> rfl
    · simp only [if_true]
      cases chooseOffset hd.fmt (w.shownExts hd.refs) hd.req with
      | error e => rfl
      | ok off => cases extBlock true hd.endian (w.shownExts hd.refs) <;> rfl
  · intro hi hd0
    have hne : ¬ data.isEmpty = true := by
      cases data with
      | nil => exact absurd rfl hd0
      | cons a l => simp
    simp only [World.step, hh, hi, hne, World.saveImgCore, rawExts_syncRefs, saveImgSpec]
    cases hd.single
    · simp only [Bool.false_eq_true, if_false]
      cases writePair hd.fmt hd.endian (w.shownExts hd.refs) hd.req data <;> rfl
    · simp only [if_true]
      cases writeSingle hd.fmt hd.endian (w.shownExts hd.refs) hd.req data <;> rfl
  · simp only [World.step, hh, rawExts_syncRefs]


/-! ## any history, then a save -/

theorem history_save_load {Obj : Type} (m : Endian) (w0 : World Obj) (ops : List (XOp Obj)) (h : Nat) (hd : XHdr)
    (data : List Nat) (hh : (World.run m w0 ops).1.hdrs[h]? = some hd) (hi : hd.isImg = true) (hd0 : data ≠ [])
    (hf : FmtOK hd.fmt) (hok : AllOK ((World.run m w0 ops).1.shownExts hd.refs)) :
    (hd.single = true → (hd.req = 0 ∨ Fits hd.fmt ((World.run m w0 ops).1.shownExts hd.refs) hd.req) →
      ∃ f bytes, ((World.run m w0 ops).1.step m (.saveImg h data)).2 =
          .imgSaved (.single f (.ok ⟨((World.run m w0 ops).1.shownExts hd.refs).map Ext.strip, f.voxOffset, data⟩)) ∧
        serializeExts hd.endian ((World.run m w0 ops).1.shownExts hd.refs) = .ok bytes ∧
        hd.fmt.hdrSize + 4 + bytes.length ≤ f.voxOffset ∧
        f.after = (if ((World.run m w0 ops).1.shownExts hd.refs).isEmpty then [0, 0, 0, 0] else [1, 0, 0, 0]) ++ bytes ++
                  zeros (f.voxOffset - (hd.fmt.hdrSize + 4 + bytes.length)) ++ data) ∧
    (hd.single = false →
      ∃ p, ((World.run m w0 ops).1.step m (.saveImg h data)).2 =
          .imgSaved (.pair p (.ok ⟨((World.run m w0 ops).1.shownExts hd.refs).map Ext.strip, hd.fmt.offRepr hd.req, data⟩)) ∧
        p.img = zeros (hd.fmt.offRepr hd.req) ++ data) := by
  generalize (World.run m w0 ops).1 = w at hh hok ⊢
  generalize hxs : w.shownExts hd.refs = xs at hok ⊢
  have hs := (save_emits_shown m w h hd data hh).2.1 hi hd0
  rw [hxs] at hs
  constructor
  · intro hsing hfit
    have hfit' : Fits hd.fmt xs hd.req := by
      rcases hfit with h0 | h
      · exact fits_library hd.fmt xs hd.req (by rw [h0]; exact offRepr_zero hd.fmt)
      · exact h
    obtain ⟨f, hw, _, hr⟩ := single_roundtrip_stored hd.fmt hd.endian xs hd.req data hf hok hd0 hfit'
    obtain ⟨bytes, hser, hroom, hafter⟩ := no_overlap hd.fmt hd.endian xs hd.req data f hf hok hd0 hw
    refine ⟨f, bytes, ?_, hser, hroom, hafter⟩
    rw [hs]; unfold saveImgSpec; rw [if_pos hsing, hw]; simp only [hr]
  · intro hpair
    obtain ⟨p, hw, _, _, himg, hr⟩ := pair_roundtrip hd.fmt hd.endian xs hd.req data hok hd0
    refine ⟨p, ?_, himg⟩
    rw [hs]; unfold saveImgSpec; rw [if_neg (by rw [hpair]; simp), hw]; simp only [hr]

/-- an image save leaves every header as it was (the data offset is restored in `finally`) -/
theorem save_restores_header {Obj : Type} (m : Endian) (w : World Obj) (h : Nat) (data : List Nat) :
    (w.step m (.saveImg h data)).1.hdrs = w.hdrs := by
  simp only [World.step]
  cases w.hdrs[h]? with
  | none => rfl
  | some hd =>
    simp only
    split
    · simp only [World.saveImgCore]
      split
      · split <;> rfl
      · split <;> rfl
    · rfl

/-- `header.write_to` itself keeps the reference lists, classes and byte orders, but LEAVES the offset it chose in the
    field: (witness) growing an extension afterwards makes a second header-level write refuse, whereas an image
    (offset restored) saves again with a fresh offset. -/
theorem header_write_keeps_lists {Obj : Type} (m : Endian) (w : World Obj) (h k : Nat) :
    ((w.step m (.saveHdr h)).1.hdrs[k]?).map (fun x => (x.cls, x.fmt, x.single, x.endian, x.refs, x.isImg)) =
      (w.hdrs[k]?).map (fun x => (x.cls, x.fmt, x.single, x.endian, x.refs, x.isImg)) := by
  simp only [World.step]
  cases hh : w.hdrs[h]? with
  | none => rfl
  | some hd =>
    simp only [World.saveHdrCore]
    have hset : ∀ (w1 : World Obj) (off : Nat), w1.hdrs = w.hdrs →
        ((w1.setHdr h { hd with req := off }).hdrs[k]?).map (fun x => (x.cls, x.fmt, x.single, x.endian, x.refs, x.isImg)) =
          (w.hdrs[k]?).map (fun x => (x.cls, x.fmt, x.single, x.endian, x.refs, x.isImg)) := by
      intro w1 off h1
      unfold World.setHdr
      simp only [h1, List.getElem?_set]
      by_cases hk : h = k
      · subst hk
        have hlt : h < w.hdrs.length := (List.getElem?_eq_some_iff.mp hh).1
        rw [if_pos rfl, if_pos hlt, hh]; rfl
      · rw [if_neg hk]
    split
    · split
      · rfl
      · split
        · exact hset _ _ rfl
        · exact hset _ _ rfl
    · split <;> rfl

/-- an in-place edit is seen through EVERY header that references the object, and touches nothing else -/
theorem edit_shows {Obj : Type} (m : Endian) (w : World Obj) (h i r : Nat) (c : XCell Obj) (f : Obj → Obj)
    (hc : w.cellAt h i = some (r, c)) :
    (w.step m (.edit h i f)).1.hdrs = w.hdrs ∧
    ((w.step m (.edit h i f)).1.heap[r]?).map XCell.shownExt = some ⟨c.code, c.codec.mangle (f c.toObj)⟩ ∧
    (∀ k, k ≠ r → (w.step m (.edit h i f)).1.heap[k]? = w.heap[k]?) := by
  have hlt : r < w.heap.length := (List.getElem?_eq_some_iff.mp (cellAt_heap w h i r c hc).1).1
  have hstep : (w.step m (.edit h i f)).1 = w.setCell r (c.edit f) := by simp only [World.step, hc]
  rw [hstep]
  refine ⟨rfl, ?_, ?_⟩
  · show ((w.heap.set r (c.edit f))[r]?).map XCell.shownExt = _
    rw [List.getElem?_set, if_pos rfl, if_pos hlt, XCell.edit_eq]; rfl
  · intro k hk
    show (w.heap.set r (c.edit f))[k]? = _
    rw [List.getElem?_set, if_neg (fun e => hk e.symm)]

/-! ## header copies and class conversions carry the extension list -/

/-- the conversion table REGENERATED from the class hierarchy: every NIfTI header class converts to every other
    (and to itself: `copy`) with its extension list -/
theorem conversion_table_ok :
    (∀ s ∈ Nb.Gen.C11.State.headerClasses, ∀ d ∈ Nb.Gen.C11.State.headerClasses,
      Nb.Gen.C11.State.carriesExt.contains (s.1, d.1) = true) ∧
    (Nb.Gen.C11.State.headerClasses.map (·.1)).Nodup ∧
    (∀ c ∈ Nb.Gen.C11.State.headerClasses, c.2.1 = 1 ∨ c.2.1 = 2) ∧
    (∀ c ∈ Nb.Gen.C11.State.headerClasses, Nb.Gen.C11.State.byteswapCarries.contains c.1 = true) := by
  decide

/-- `copy`, `from_header`, and making an image from a header, between ANY two NIfTI header classes: the new header
    (appended to the world) references the same extension objects in the same order, so what a save of it emits is
    what a save of the source would emit (`save_emits_shown`); the two LISTS are independent afterwards
    (`lists_independent`). -/
theorem conversion_carries_extensions {Obj : Type} (m : Endian) (w : World Obj) (h : Nat) (hd : XHdr)
    (cls : String) (fmt : Fmt) (single : Bool) (hh : w.hdrs[h]? = some hd)
    (hs : hd.cls ∈ Nb.Gen.C11.State.headerClasses.map (·.1)) (hdst : cls ∈ Nb.Gen.C11.State.headerClasses.map (·.1)) :
    (∃ n, (w.step m (.copy h)).1.hdrs = w.hdrs ++ [n] ∧ n.refs = hd.refs ∧ n.endian = hd.endian ∧ n.req = hd.req) ∧
    (∀ n, convert m hd cls fmt single = .ok n → n.refs = hd.refs ∧
      (w.step m (.fromHeader h cls fmt single)).1.hdrs = w.hdrs ++ [n] ∧
      (w.step m (.mkImg h cls fmt single)).1.hdrs = w.hdrs ++ [{ n with req := 0, isImg := true }]) ∧
    (∀ op, op = XOp.copy h ∨ op = XOp.fromHeader h cls fmt single ∨ op = XOp.mkImg h cls fmt single →
      (w.step m op).1.heap = w.heap) := by
  refine ⟨⟨{ hd with isImg := false }, ?_, rfl, rfl, rfl⟩, ?_, ?_⟩
  · simp only [World.step, hh]
  · intro n hn
    have hcar : Nb.Gen.C11.State.carriesExt.contains (hd.cls, cls) = true := by
      obtain ⟨s, hs1, hs2⟩ := List.mem_map.mp hs
      obtain ⟨d, hd1, hd2⟩ := List.mem_map.mp hdst
      have := conversion_table_ok.1 s hs1 d hd1
      rw [hs2, hd2] at this
      exact this
    have hrefs : n.refs = hd.refs := by
      unfold convert at hn
      simp only [hcar, if_true] at hn
      split at hn
      · cases hn
      · cases hn; rfl
    refine ⟨hrefs, ?_, ?_⟩
    · simp only [World.step, hh, hn]
    · simp only [World.step, hh, hn]
  · intro op hop
    rcases hop with rfl | rfl | rfl
    · simp only [World.step, hh]
    · simp only [World.step, hh]; cases convert m hd cls fmt single <;> rfl
    · simp only [World.step, hh]; cases convert m hd cls fmt single <;> rfl

/-- list operations on one header (`insert`, `del`, sharing an object into it) leave every OTHER header alone -/
theorem lists_independent {Obj : Type} (m : Endian) (w : World Obj) (op : XOp Obj) (h k : Nat) (hk : k ≠ h)
    (hop : (∃ pos c code raw, op = .newRaw h pos c code raw) ∨ (∃ pos c code o, op = .newObj h pos c code o) ∨
           (∃ i, op = .del h i) ∨ (∃ h1 i pos, op = .share h1 i h pos) ∨ (∃ off, op = .setOff h off)) :
    (w.step m op).1.hdrs[k]? = w.hdrs[k]? := by
  have hset : ∀ (hd : XHdr), (w.setHdr h hd).hdrs[k]? = w.hdrs[k]? := by
    intro hd; unfold World.setHdr; simp only [List.getElem?_set]; rw [if_neg (fun e => hk e.symm)]
  have hadd : ∀ (pos : Nat) (c : XCell Obj), (w.addCell h pos c).1.hdrs[k]? = w.hdrs[k]? := by
    intro pos c
    unfold World.addCell
    cases w.hdrs[h]? with
    | none => rfl
    | some hd =>
      simp only
      split
      · rfl
      · simp only [List.getElem?_set]; rw [if_neg (fun e => hk e.symm)]
  rcases hop with ⟨pos, c, code, raw, rfl⟩ | ⟨pos, c, code, o, rfl⟩ | ⟨i, rfl⟩ | ⟨h1, i, pos, rfl⟩ | ⟨off, rfl⟩
  · exact hadd _ _
  · exact hadd _ _
  · simp only [World.step]
    cases w.hdrs[h]? with
    | none => rfl
    | some hd => simp only; split; exact hset _; rfl
  · simp only [World.step]
    split
    · split
      · rfl
      · exact hset _
    · rfl
  · simp only [World.step]
    cases w.hdrs[h]? with
    | none => rfl
    | some hd => exact hset _

/-- `NiftiExtension.write_to` (calls regenerated from the source): the size query (which syncs) comes first, then
    esize/ecode, then `self._raw`, then the pad — the order the model's `XCell.writeTo` / `serializeExt` assume -/
theorem write_plan_ok :
    Nb.Gen.C11.State.writeToPlan =
      ["self.get_sizeondisk()", "fileobj.write(extinfo.tobytes())", "fileobj.write(self._raw)", "fileobj.write(bytes(pad))"] := by
  decide


/-- `Nifti1Header.from_fileobj` for a detached header (`.hdr` of a pair): the `extsize` it passes (GENERATED from the
    `if not klass.is_single:` branch) is negative, so the extensions run to the END of the header file — for EVERY
    value of the `vox_offset` field (which is an offset into the `.img` file and says nothing about the `.hdr`; in
    particular values ≥ 352 / 544), either byte order, any number of extensions, both formats. -/
theorem pair_extensions_run_to_eof (fmt : Fmt) (e : Endian) (xs : List Ext) (bytes : List Nat) (off : Nat)
    (hok : AllOK xs) (hser : serializeExts e xs = .ok bytes) :
    Nb.Gen.C11.pairExtSize < 0 ∧
    readExtsAfter false fmt e ⟨off, if xs.isEmpty then [] else [1, 0, 0, 0] ++ bytes⟩ = .ok (xs.map Ext.strip) := by
  refine ⟨by decide, ?_⟩
  cases xs with
  | nil => rfl
  | cons x xs =>
    unfold readExtsAfter
    simp only [List.isEmpty_cons, Bool.false_eq_true, if_false, List.cons_append, List.nil_append,
      List.take_succ_cons, List.take_zero, List.drop_succ_cons, List.drop_zero]
    rw [if_neg (by omega)]
    exact parseExts_eof e (x :: xs) bytes Nb.Gen.C11.pairExtSize (by decide) hok hser

example : AllOK [⟨4, [1, 2, 3, 0, 0]⟩] ∧ readExtsAfter false nifti1 .be ⟨400, [1, 0, 0, 0, 0, 0, 0, 16, 0, 0, 0, 4, 1, 2, 3, 0, 0, 0, 0, 0]⟩
    = .ok [⟨4, [1, 2, 3]⟩] := by decide

/-! ### non-vacuity of the wave-3 theorems: one concrete history -/

/-- an image header of class Nifti1Header, little endian, no extensions yet -/
def exWorld : World (List Nat) := ⟨[], [⟨"Nifti1Header", nifti1, true, .le, 0, [], true⟩]⟩
/-- build an extension from a runtime object, then edit the object in place -/
def exOps : List (XOp (List Nat)) := [.newObj 0 0 ⟨id, id⟩ 6 [104, 105], .edit 0 0 (fun o => o ++ [33])]

example : World.XOp.isRead (XOp.saveHdr 0 : XOp (List Nat)) = true ∧ World.XOp.isRead (XOp.content 0 0 : XOp (List Nat)) = true := ⟨rfl, rfl⟩
example : (World.run .le exWorld exOps).1.hdrs[0]? = some ⟨"Nifti1Header", nifti1, true, .le, 0, [0], true⟩ := rfl
example : (World.run .le exWorld exOps).1.shownExts [0] = [⟨6, [104, 105, 33]⟩] := rfl
example : AllOK ((World.run .le exWorld exOps).1.shownExts [0]) := by
  show AllOK [⟨6, [104, 105, 33]⟩]
  decide
example : FmtOK nifti1 ∧ ([7] : List Nat) ≠ [] := by decide
example : (World.run .le exWorld exOps).1.cellAt 0 0 = some (0, ⟨⟨id, id⟩, 6, [], some [104, 105, 33]⟩) := rfl
example : "Nifti1Header" ∈ Nb.Gen.C11.State.headerClasses.map (·.1) ∧
    "Nifti2PairHeader" ∈ Nb.Gen.C11.State.headerClasses.map (·.1) := by decide
example : ∃ n, convert .le ⟨"Nifti1Header", nifti1, true, .be, 0, [0], false⟩ "Nifti2PairHeader" nifti2 false = .ok n ∧
    n.refs = [0] ∧ n.endian = .le := ⟨_, rfl, rfl, rfl⟩
/-- the witness announced in `header_write_keeps_lists`: after a header-level write the field holds 368; the
    extension grows to 32 bytes on disk; the minimum is now 384 and the second write is refused -/
example : ((World.run .le ⟨[], [⟨"Nifti1Header", nifti1, true, .le, 0, [], false⟩]⟩
    [.newObj 0 0 ⟨id, id⟩ 6 [104, 105], .saveHdr 0, .edit 0 0 (fun o => o ++ [1, 2, 3, 4, 5, 6, 7]), .saveHdr 0]).1.hdrs.map (·.req))
    = [368] := rfl


/-- `hdr.as_byteswapped(None | '<' | '>')` for every NIfTI header class (override table REGENERATED from the AST of
    `Nifti1Header.as_byteswapped`; repaired logic, fix 81fd2b72): the result is a new header of the same class with the
    byte order asked for (`None`: always the OTHER order), the same field values, and a NEW list referencing the SAME
    extension objects in the same order — whether the order changes or not; no extension object is touched.  Together
    with `conversion_carries_extensions` (image made from the swapped header), `lists_independent` and
    `history_save_load` this is the route "save the other byte order through a byte-swapped header". -/
theorem byteswap_carries_extensions {Obj : Type} (m : Endian) (w : World Obj) (h : Nat) (hd : XHdr)
    (target : Option Endian) (hh : w.hdrs[h]? = some hd)
    (hs : hd.cls ∈ Nb.Gen.C11.State.headerClasses.map (·.1)) :
    (w.step m (.byteswap h target)).1.hdrs =
        w.hdrs ++ [{ hd with endian := swapTarget m hd.endian target, isImg := false }] ∧
    (w.step m (.byteswap h target)).1.heap = w.heap ∧
    (w.step m (.byteswap h target)).1.shownExts hd.refs = w.shownExts hd.refs ∧
    swapTarget m hd.endian none ≠ hd.endian ∧ (∀ e, swapTarget m hd.endian (some e) = e) := by
  have hcar : Nb.Gen.C11.State.byteswapCarries.contains hd.cls = true := by
    obtain ⟨c, hc1, hc2⟩ := List.mem_map.mp hs
    have := conversion_table_ok.2.2.2 c hc1
    rw [hc2] at this
    exact this
  have hstep : (w.step m (.byteswap h target)).1 =
      { w with hdrs := w.hdrs ++ [{ hd with endian := swapTarget m hd.endian target, isImg := false }] } := by
    simp only [World.step, hh, hcar, or_true, if_true]
  rw [hstep]
  refine ⟨rfl, rfl, rfl, ?_, fun e => rfl⟩
  unfold swapTarget
  cases m <;> cases hd.endian <;> decide

/-- the pre-repair `Nifti1Header` had no override: `WrapStruct.as_byteswapped` built the other-order header from the
    bytes alone.  With an EMPTY override table the model drops the list exactly when the order changes. -/
theorem byteswap_orig_counterexample :
    (if (swapTarget .le .le none = .le ∨ ([] : List String).contains "Nifti1Header" = true) then [0, 1] else ([] : List Nat)) = [] ∧
    (if (swapTarget .le .le (some .le) = .le ∨ ([] : List String).contains "Nifti1Header" = true) then [0, 1] else ([] : List Nat)) = [0, 1] := by
  decide

example : (World.run .le exWorld exOps).1.hdrs[0]? = some ⟨"Nifti1Header", nifti1, true, .le, 0, [0], true⟩ ∧
    "Nifti1Header" ∈ Nb.Gen.C11.State.headerClasses.map (·.1) := ⟨rfl, by decide⟩
example : ((World.run .le exWorld (exOps ++ [.byteswap 0 none])).1.hdrs.map (fun x => (x.endian, x.refs, x.isImg))) =
    [(.le, [0], true), (.be, [0], false)] := rfl

end Nb.C11
