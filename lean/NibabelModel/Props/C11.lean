import NibabelModel.Lemmas.C11
/-! Props/C11 — NIfTI extensions are preserved and never collide with the voxel data.

  All statements are unbounded: every list of extensions, every content length and byte values, every int32
  code, both byte orders, NIfTI-1 and NIfTI-2 (through `FmtOK`, discharged for the two GENERATED constant sets
  by `formats_ok`), every data string and every explicit offset.  Guards are exactly the inputs the real writer
  accepts: `ExtOK x` (esize and ecode fit int32, else OverflowError) and, for single files, non-empty data.
  The size formula is the expression regenerated from `get_sizeondisk`; it is unfolded only in `size_ok`. -/
namespace Nb.C11

/-! ## the generated items -/

/-- `get_sizeondisk` (generated from the source): a multiple of 16 that holds the 8-byte esize/ecode header and
    the content, with less than 16 bytes of padding — for EVERY content length. -/
theorem size_ok (n : Nat) :
    Nb.Gen.C11.getSizeondisk (n : Int) % 16 = 0 ∧
    (n : Int) + 8 ≤ Nb.Gen.C11.getSizeondisk (n : Int) ∧
    Nb.Gen.C11.getSizeondisk (n : Int) < (n : Int) + 24 :=
  sizeOnDisk_spec n

example : Nb.Gen.C11.getSizeondisk 9 = 32 := by decide

/-- The writer refuses exactly the records whose esize or ecode does not fit int32, and every content shorter
    than 2^31 - 24 bytes with an int32 code is accepted. -/
theorem size_ok_int32 (e : Endian) (x : Ext) :
    ((∃ bytes, serializeExt e x = .ok bytes) ↔ ExtOK x) ∧
    (inInt32 x.code → x.content.length + 24 ≤ 2147483648 → ExtOK x) := by
  refine ⟨⟨fun ⟨bytes, h⟩ => ?_, fun h => ⟨_, serializeExt_ok e x h⟩⟩, ExtOK_of_small x⟩
  by_cases hx : ExtOK x
  · exact hx
  · rw [serializeExt_err e x hx] at h; cases h

example : ExtOK ⟨-7, [1, 2, 0]⟩ := by decide

/-- constants of `Nifti1Header` / `Nifti2Header` as generated from the source: header block = `sizeof_hdr`,
    default single-file offset = multiple of 16 with room for block + extender -/
theorem formats_ok : FmtOK nifti1 ∧ FmtOK nifti2 := by decide

/-- the extension code table (generated): codes are distinct and fit the int32 ecode field -/
theorem codes_ok :
    (Nb.Gen.C11.extensionCodes.map (·.1)).Nodup ∧ ∀ c ∈ Nb.Gen.C11.extensionCodes.map (·.1), inInt32 c := by
  decide

/-! ## byte level -/

/-- int32 codec used for esize / ecode: decoding the four bytes written gives the value back, both byte orders -/
theorem codec_roundtrip (e : Endian) (v : Int) (h : inInt32 v) :
    ∃ a b c d, encI32 e v = [a, b, c, d] ∧ decI32 e a b c d = v :=
  decI32_encI32 e v h

example : inInt32 (-2147483648) := by decide

/-- the writer's output for a list of records has exactly the length `get_sizeondisk` announces, a multiple of 16 -/
theorem serialize_length (e : Endian) (xs : List Ext) (hok : AllOK xs) :
    ∃ bytes, serializeExts e xs = .ok bytes ∧ (bytes.length : Int) = totalSize xs ∧ totalSize xs % 16 = 0 := by
  obtain ⟨bytes, h, hl⟩ := serializeExts_ok e xs hok
  exact ⟨bytes, h, hl, totalSize_mod16 xs⟩

example : AllOK [⟨6, [104, 105]⟩, ⟨9998, []⟩] := by decide

/-- the reader model is total for the right reason: on ANY bytes, `size` and byte order (pinned or repaired
    logic) the recursion budget `bs.length + 1` is never exhausted — the outcome is a list or a HeaderDataError -/
theorem reader_total (e : Endian) (bs : List Nat) (size : Int) :
    parseExts e bs size ≠ .error .fuel ∧ parseExtsOrig e bs size ≠ .error .fuel :=
  ⟨parse_no_fuel true e _ bs size (Nat.lt_succ_self _), parse_no_fuel false e _ bs size (Nat.lt_succ_self _)⟩

/-- `ext_roundtrip`.  Reader after writer, any list of records, either byte order:
    * single file: the records are followed by a zero gap of ANY length `g` (0 for a library-chosen offset)
      and then arbitrary bytes `d` (the data), and the reader is given `size = Σ sizes + g`
      (= `vox_offset - tell()`);
    * pair: the records run to the end of the header file and `size < 0`.
    The result is the list saved, each content stripped of trailing NULs (the pad bytes are indistinguishable
    from NULs the content ends in). -/
theorem ext_roundtrip (e : Endian) (xs : List Ext) (bytes : List Nat) (hok : AllOK xs)
    (hser : serializeExts e xs = .ok bytes) :
    (∀ (g : Nat) (d : List Nat),
        parseExts e (bytes ++ (zeros g ++ d)) (totalSize xs + (g : Int)) = .ok (xs.map Ext.strip)) ∧
    (∀ size : Int, size < 0 → parseExts e bytes size = .ok (xs.map Ext.strip)) :=
  ⟨fun g d => parseExts_gap e xs bytes d g hok hser, fun size h => parseExts_eof e xs bytes size h hok hser⟩

/-- contents that do not end in a NUL byte (in particular empty ones) come back exactly -/
theorem ext_roundtrip_exact (e : Endian) (xs : List Ext) (bytes : List Nat) (hok : AllOK xs)
    (hnt : ∀ x ∈ xs, NoTrailingNul x) (hser : serializeExts e xs = .ok bytes) :
    (∀ (g : Nat) (d : List Nat), parseExts e (bytes ++ (zeros g ++ d)) (totalSize xs + (g : Int)) = .ok xs) ∧
    (∀ size : Int, size < 0 → parseExts e bytes size = .ok xs) := by
  have h := ext_roundtrip e xs bytes hok hser
  rw [map_strip_of_noTrailing xs hnt] at h
  exact h

example : (∀ x ∈ [(⟨6, [104, 105]⟩ : Ext), ⟨-3, []⟩, ⟨40, [0, 0, 7]⟩], NoTrailingNul x) := by decide

/-- "up to trailing NULs" is a projection: what a load returns has no trailing NULs, so a second save/load cycle
    returns it exactly -/
theorem ext_roundtrip_idempotent (xs : List Ext) :
    (∀ x ∈ xs.map Ext.strip, NoTrailingNul x) ∧ (xs.map Ext.strip).map Ext.strip = xs.map Ext.strip := by
  constructor
  · intro x hx
    obtain ⟨y, _, rfl⟩ := List.mem_map.mp hx
    exact rstripNul_noTrailing y.content
  · rw [List.map_map]
    exact List.map_congr_left (fun x _ => strip_strip x)

/-! ## file level: single file -/

/-- `offset_ok`.  With the offset left to the library (`vox_offset` field 0) a save succeeds, the offset written
    is `single_vox_offset + Σ get_sizeondisk`, a multiple of 16, and not less than header block + 4-byte
    extender + the bytes of all extension records. -/
theorem offset_ok (fmt : Fmt) (e : Endian) (xs : List Ext) (data : List Nat) (hf : FmtOK fmt) (hok : AllOK xs)
    (hd : data ≠ []) :
    ∃ f bytes, writeSingle fmt e xs 0 data = .ok f ∧ serializeExts e xs = .ok bytes ∧
      (f.voxOffset : Int) = (fmt.singleOff : Int) + totalSize xs ∧
      f.voxOffset % 16 = 0 ∧
      fmt.hdrSize + 4 + bytes.length ≤ f.voxOffset := by
  obtain ⟨bytes, hser, hl⟩ := serializeExts_ok e xs hok
  obtain ⟨hw, _, hroom⟩ := writeSingle_ok fmt e xs 0 bytes data hf hok hser hd (Or.inl rfl)
  have hnn := totalSize_nonneg xs
  have hm := totalSize_mod16 xs
  have hc : chosenOffset fmt xs 0 = ((fmt.singleOff : Int) + totalSize xs).toNat := rfl
  obtain ⟨_, hf2, hf3⟩ := hf
  refine ⟨_, bytes, hw, hser, ?_, ?_, hroom⟩
  · show ((chosenOffset fmt xs 0 : Nat) : Int) = _
    rw [hc]; omega
  · show chosenOffset fmt xs 0 % 16 = 0
    rw [hc]; omega

example : FmtOK nifti1 ∧ AllOK [⟨6, [104, 105]⟩] ∧ ([7] : List Nat) ≠ [] := by decide

/-- `small_offset_rejected`.  An explicit offset below `single_vox_offset + Σ sizes` is refused with
    HeaderDataError — for ANY extension list (no validity guard needed: the check comes first). -/
theorem small_offset_rejected (fmt : Fmt) (e : Endian) (xs : List Ext) (userOff : Nat) (data : List Nat)
    (h0 : userOff ≠ 0) (hsmall : (userOff : Int) < (fmt.singleOff : Int) + totalSize xs) :
    writeSingle fmt e xs userOff data = .error .headerData :=
  writeSingle_small fmt e xs userOff data h0 hsmall

example : (367 : Nat) ≠ 0 ∧ ((367 : Nat) : Int) < (nifti1.singleOff : Int) + totalSize [⟨6, [104, 105]⟩] := by
  decide

/-- `no_overlap`.  WHATEVER offset the user asked for: if a single-file save succeeds, the data start at or
    after the end of the last extension record, and the bytes after the header block are exactly
    extender ++ records ++ zero gap ++ data — no byte of an extension is overwritten by data. -/
theorem no_overlap (fmt : Fmt) (e : Endian) (xs : List Ext) (userOff : Nat) (data : List Nat) (f : HFile)
    (hf : FmtOK fmt) (hok : AllOK xs) (hd : data ≠ []) (hw : writeSingle fmt e xs userOff data = .ok f) :
    ∃ bytes, serializeExts e xs = .ok bytes ∧
      fmt.hdrSize + 4 + bytes.length ≤ f.voxOffset ∧
      f.after = (if xs.isEmpty then [0, 0, 0, 0] else [1, 0, 0, 0]) ++ bytes ++
                  zeros (f.voxOffset - (fmt.hdrSize + 4 + bytes.length)) ++ data := by
  obtain ⟨bytes, hser, hl⟩ := serializeExts_ok e xs hok
  refine ⟨bytes, hser, ?_⟩
  by_cases hoff : userOff = 0 ∨ minOffset fmt xs ≤ (userOff : Int)
  · obtain ⟨hw', _, hroom⟩ := writeSingle_ok fmt e xs userOff bytes data hf hok hser hd hoff
    rw [hw'] at hw
    cases hw
    exact ⟨hroom, rfl⟩
  · have h0 : userOff ≠ 0 := fun h => hoff (Or.inl h)
    have hs : (userOff : Int) < minOffset fmt xs := by omega
    rw [writeSingle_small fmt e xs userOff data h0 hs] at hw
    cases hw

example : writeSingle nifti1 .le [⟨6, [104, 105]⟩] 400 [7] =
    .ok ⟨400, [1, 0, 0, 0, 16, 0, 0, 0, 6, 0, 0, 0, 104, 105, 0, 0, 0, 0, 0, 0] ++ zeros 32 ++ [7]⟩ := by decide

/-- `single_roundtrip`.  Save then load of a single file, offset chosen by the library (`userOff = 0`) or any
    explicit offset not below the minimum: the load returns the extensions saved (contents up to trailing
    NULs, same order, same codes), `dataobj.offset` is the offset written, and the data bytes are the ones saved. -/
theorem single_roundtrip (fmt : Fmt) (e : Endian) (xs : List Ext) (userOff : Nat) (data : List Nat)
    (hf : FmtOK fmt) (hok : AllOK xs) (hd : data ≠ [])
    (hoff : userOff = 0 ∨ (fmt.singleOff : Int) + totalSize xs ≤ (userOff : Int)) :
    ∃ f, writeSingle fmt e xs userOff data = .ok f ∧
      (f.voxOffset : Int) = (if userOff = 0 then (fmt.singleOff : Int) + totalSize xs else (userOff : Int)) ∧
      readSingle fmt e f data.length = .ok ⟨xs.map Ext.strip, f.voxOffset, data⟩ := by
  obtain ⟨bytes, hser, hl⟩ := serializeExts_ok e xs hok
  obtain ⟨hw, hmin, hroom⟩ := writeSingle_ok fmt e xs userOff bytes data hf hok hser hd hoff
  have hnn := totalSize_nonneg xs
  refine ⟨_, hw, ?_, ?_⟩
  · show ((chosenOffset fmt xs userOff : Nat) : Int) = _
    unfold chosenOffset minOffset
    split <;> omega
  · exact readSingle_layout fmt e xs bytes data _ hf hok hser hmin

example : FmtOK nifti2 ∧ AllOK [⟨6, [104, 105, 0]⟩, ⟨-1, []⟩] ∧ ([7] : List Nat) ≠ [] ∧
    ((nifti2.singleOff : Int) + totalSize [⟨6, [104, 105, 0]⟩, ⟨-1, []⟩] ≤ ((624 : Nat) : Int)) := by decide

/-- `explicit_offset_roundtrip` (repaired logic).  At least one extension, explicit offset = minimum + a zero
    gap of ANY length `g` (16, 32, … as well as lengths that are not multiples of 16): the file loads, with the
    extensions and the data saved.  The pinned reader failed here for every `g ≥ 16`
    (`ext_gap_orig_counterexample`). -/
theorem explicit_offset_roundtrip (fmt : Fmt) (e : Endian) (xs : List Ext) (g : Nat) (data : List Nat)
    (hf : FmtOK fmt) (hok : AllOK xs) (hne : xs ≠ []) (hd : data ≠ []) :
    ∃ f, writeSingle fmt e xs (fmt.singleOff + (totalSize xs).toNat + g) data = .ok f ∧
      f.voxOffset = fmt.singleOff + (totalSize xs).toNat + g ∧
      readSingle fmt e f data.length = .ok ⟨xs.map Ext.strip, fmt.singleOff + (totalSize xs).toNat + g, data⟩ := by
  have hnn := totalSize_nonneg xs
  have h16 : 16 ≤ totalSize xs := by
    cases xs with
    | nil => exact absurd rfl hne
    | cons x xs =>
        have := sizeOnDisk_ge16 x.content.length
        have := totalSize_nonneg xs
        simp only [totalSize]; omega
  obtain ⟨f, hw, hv, hr⟩ := single_roundtrip fmt e xs (fmt.singleOff + (totalSize xs).toNat + g) data hf hok hd
    (Or.inr (by omega))
  rw [if_neg (by omega)] at hv
  have hv' : f.voxOffset = fmt.singleOff + (totalSize xs).toNat + g := by omega
  exact ⟨f, hw, hv', by rw [hr, hv']⟩

example : FmtOK nifti1 ∧ AllOK [⟨6, [104, 105]⟩] ∧ [(⟨6, [104, 105]⟩ : Ext)] ≠ [] := by decide

/-! ## file level: header/image pair -/

/-- `pair_roundtrip`.  Pair images: extensions live in the header file and are read to its end; any data
    offset the user sets in the image file is honoured; extensions and data read back. -/
theorem pair_roundtrip (fmt : Fmt) (e : Endian) (xs : List Ext) (userOff : Nat) (data : List Nat)
    (hok : AllOK xs) (hd : data ≠ []) :
    ∃ p, writePair e xs userOff data = .ok p ∧ p.hdr.voxOffset = userOff ∧
      p.img = zeros userOff ++ data ∧
      readPair fmt e p data.length = .ok ⟨xs.map Ext.strip, userOff, data⟩ := by
  obtain ⟨bytes, hser, hl⟩ := serializeExts_ok e xs hok
  have himg : writeAt [] userOff data = zeros userOff ++ data := by
    rw [writeAt_past [] data userOff (by simp) hd]; simp
  have hdrop : List.drop userOff (zeros userOff ++ data) = data :=
    List.drop_left' (by simp [zeros])
  have hchk : chkOffset false fmt userOff = .ok () := by
    unfold chkOffset
    by_cases h0 : userOff = 0
    · rw [if_pos h0]
    · rw [if_neg h0, if_neg (by simp)]
  unfold writePair extBlock
  cases xs with
  | nil =>
      simp only [List.isEmpty_nil, if_true, map_ok]
      refine ⟨_, rfl, rfl, himg, ?_⟩
      unfold readPair
      simp only [hchk, bind_ok, himg, hdrop, readData_exact, map_ok]
      rfl
  | cons x xs =>
      simp only [List.isEmpty_cons, Bool.false_eq_true, if_false, hser, map_ok]
      refine ⟨_, rfl, rfl, himg, ?_⟩
      unfold readPair
      have hexts : readExtsAfter false fmt e ⟨userOff, [1, 0, 0, 0] ++ bytes⟩ = .ok ((x :: xs).map Ext.strip) := by
        unfold readExtsAfter
        simp only [List.cons_append, List.nil_append, List.take_succ_cons, List.take_zero,
          List.drop_succ_cons, List.drop_zero]
        rw [if_neg (by omega)]
        simp only [Bool.false_eq_true, if_false]
        exact parseExts_eof e (x :: xs) bytes (-1) (by omega) hok hser
      simp only [hchk, bind_ok, hexts, himg, hdrop, readData_exact, map_ok]

example : AllOK [⟨4, [1, 2, 3, 0, 0]⟩] ∧ ([9, 9] : List Nat) ≠ [] := by decide

/-! ## independence of the data from the extensions -/

/-- `data_independent`.  Single files: whatever two extension lists are saved with the same data (offsets
    library-chosen or explicit and large enough for the respective list), the bytes of the data region on disk
    (from `vox_offset` to the end of the file) and the data loaded are the same — namely the data saved. -/
theorem data_independent (fmt : Fmt) (e₁ e₂ : Endian) (xs ys : List Ext) (o₁ o₂ : Nat) (data : List Nat)
    (hf : FmtOK fmt) (hx : AllOK xs) (hy : AllOK ys) (hd : data ≠ [])
    (h₁ : o₁ = 0 ∨ (fmt.singleOff : Int) + totalSize xs ≤ (o₁ : Int))
    (h₂ : o₂ = 0 ∨ (fmt.singleOff : Int) + totalSize ys ≤ (o₂ : Int)) :
    ∃ f₁ f₂ l₁ l₂, writeSingle fmt e₁ xs o₁ data = .ok f₁ ∧ writeSingle fmt e₂ ys o₂ data = .ok f₂ ∧
      readSingle fmt e₁ f₁ data.length = .ok l₁ ∧ readSingle fmt e₂ f₂ data.length = .ok l₂ ∧
      l₁.data = data ∧ l₂.data = data ∧
      f₁.after.drop (f₁.voxOffset - fmt.hdrSize) = data ∧ f₂.after.drop (f₂.voxOffset - fmt.hdrSize) = data := by
  obtain ⟨f₁, hw₁, _, hr₁⟩ := single_roundtrip fmt e₁ xs o₁ data hf hx hd h₁
  obtain ⟨f₂, hw₂, _, hr₂⟩ := single_roundtrip fmt e₂ ys o₂ data hf hy hd h₂
  refine ⟨f₁, f₂, _, _, hw₁, hw₂, hr₁, hr₂, rfl, rfl, ?_, ?_⟩
  · obtain ⟨bytes, _, hle, hafter⟩ := no_overlap fmt e₁ xs o₁ data f₁ hf hx hd hw₁
    rw [hafter]
    exact List.drop_left' (by simp [zeros]; split <;> simp <;> omega)
  · obtain ⟨bytes, _, hle, hafter⟩ := no_overlap fmt e₂ ys o₂ data f₂ hf hy hd hw₂
    rw [hafter]
    exact List.drop_left' (by simp [zeros]; split <;> simp <;> omega)

example : FmtOK nifti1 ∧ AllOK [⟨6, [104, 105]⟩, ⟨32, [60, 0]⟩] ∧ AllOK [] ∧ ([1, 2] : List Nat) ≠ [] ∧
    ((nifti1.singleOff : Int) + totalSize [⟨6, [104, 105]⟩, ⟨32, [60, 0]⟩] ≤ ((400 : Nat) : Int)) := by decide

example : readSingle nifti1 .be ⟨400, [1, 0, 0, 0, 0, 0, 0, 16, 0, 0, 0, 6, 104, 105, 0, 0, 0, 0, 0, 0] ++ zeros 32 ++ [7]⟩ 1
    = .ok ⟨[⟨6, [104, 105]⟩], 400, [7]⟩ := by decide

/-- the same for pairs: the image file does not depend on the extension list at all -/
theorem data_independent_pair (fmt : Fmt) (e₁ e₂ : Endian) (xs ys : List Ext) (off : Nat) (data : List Nat)
    (hx : AllOK xs) (hy : AllOK ys) (hd : data ≠ []) :
    ∃ p₁ p₂, writePair e₁ xs off data = .ok p₁ ∧ writePair e₂ ys off data = .ok p₂ ∧ p₁.img = p₂.img ∧
      (readPair fmt e₁ p₁ data.length).map (·.data) = .ok data ∧
      (readPair fmt e₂ p₂ data.length).map (·.data) = .ok data := by
  obtain ⟨p₁, hw₁, _, hi₁, hr₁⟩ := pair_roundtrip fmt e₁ xs off data hx hd
  obtain ⟨p₂, hw₂, _, hi₂, hr₂⟩ := pair_roundtrip fmt e₂ ys off data hy hd
  exact ⟨p₁, p₂, hw₁, hw₂, by rw [hi₁, hi₂], by rw [hr₁]; rfl, by rw [hr₂]; rfl⟩

example : AllOK [⟨4, [1]⟩] ∧ AllOK [⟨4, [1]⟩, ⟨-5, [0]⟩] ∧ ([1, 2] : List Nat) ≠ [] := by decide

/-! ## the repaired defect -/

/-- The pinned reader (no stop at a zero-size record) on the smallest failing file layout: one `comment`
    extension "hi" (16 bytes on disk), a 16-byte zero gap, data; `size = 32`.  It raised
    `HeaderDataError('failed to read extension content')`. -/
theorem ext_gap_orig_counterexample :
    serializeExts .le [⟨6, [104, 105]⟩] = .ok [16, 0, 0, 0, 6, 0, 0, 0, 104, 105, 0, 0, 0, 0, 0, 0] ∧
    parseExtsOrig .le ([16, 0, 0, 0, 6, 0, 0, 0, 104, 105, 0, 0, 0, 0, 0, 0] ++ (zeros 16 ++ [1, 2, 3])) 32
      = .error .headerData := by
  decide

/-- the repaired reader on the same bytes (instance of `ext_roundtrip`, kept next to the counterexample) -/
theorem ext_gap_fixed_example :
    parseExts .le ([16, 0, 0, 0, 6, 0, 0, 0, 104, 105, 0, 0, 0, 0, 0, 0] ++ (zeros 16 ++ [1, 2, 3])) 32
      = .ok [⟨6, [104, 105]⟩] := by
  decide

end Nb.C11
