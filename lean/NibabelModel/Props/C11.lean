import NibabelModel.Model.C11
/-! Props/C11 — the property theorems for C11 (statements + proofs; helper lemmas live in Lemmas/). -/
namespace Nb.C11

end Nb.C11
