import NibabelModel.Model.C10
/-! Props/C10 — the property theorems for C10 (statements + proofs; helper lemmas live in Lemmas/). -/
namespace Nb.C10

end Nb.C10
