import NibabelModel.Lemmas.C10
import NibabelModel.Lemmas.C10_Checks
import NibabelModel.Lemmas.C10_Gen
import NibabelModel.Lemmas.C10_Glue5
import NibabelModel.Lemmas.C10_FromHdr
import NibabelModel.Lemmas.C10_Pub
import NibabelModel.Lemmas.C10_World
import NibabelModel.Lemmas.C10_Mem
import NibabelModel.Generated.C10Own
/-! Props/C10 — property theorems for C10 (binary headers are faithful to their bytes, byte order and
    repairs).  Part A: byte codec and record codec over EVERY tiling layout; part B: WrapStruct
    operations; part C: endianness guessing; part D: check batteries; part E: obligations over the
    tables regenerated from the source (Generated/C10Layouts, Generated/C10Codes). -/
namespace Nb.C10

/-! ### A. codec (`dec_enc`, `enc_dec`, `dec_swap_reverse` are in Lemmas/C10) -/

example : dec .be (enc .be 4 348) = 348 := by decide
example : enc .le 2 (dec .le [0x5C, 0x01]) = [0x5C, 0x01] := by decide

/-- A header built from bytes serialises to the same bytes: for every layout that tiles its block,
    every byte string of the block's length and both byte orders. -/
theorem bytes_roundtrip (L : Layout) (hwf : L.wf = true) (e : Endian) (bs : List Byte)
    (hl : bs.length = L.size) : serialize L e (parse L e bs) = bs := by
  have ht := tiles_total hwf
  unfold serialize parse
  rw [parseFs_eq_seq hwf, List.drop_zero, serializeFs_parseSeq _ _ _ (by omega),
    List.take_of_length_le (by omega)]

example : Gen.mghFooter.wf = true ∧ (List.replicate 20 (7 : Byte)).length = Gen.mghFooter.size := by decide +kernel

/-- Conversely, representable field values survive serialisation (what a setter stores is what a
    getter reads, in either byte order). -/
theorem fields_roundtrip (L : Layout) (hwf : L.wf = true) (e : Endian) (vals : List (List Nat))
    (hv : valsOk L.fields vals = true) : parse L e (serialize L e vals) = vals := by
  unfold serialize parse
  rw [parseFs_eq_seq hwf, List.drop_zero, parseSeq_serializeFs e hv]

example : valsOk Gen.mghFooter.fields [[1], [2], [3], [4], [0xFFFFFFFF]] = true := by decide

/-- Byte-swapping every item and reading in the other byte order gives identical field values. -/
theorem parse_swapped (L : Layout) (hwf : L.wf = true) (e : Endian) (bs : List Byte)
    (hl : bs.length = L.size) : parse L e.swap (swapFields L bs) = parse L e bs := by
  have ht := tiles_total hwf
  unfold parse swapFields
  rw [parseFs_eq_seq hwf, parseFs_eq_seq hwf, swapFs_eq_seq hwf, List.drop_zero, List.drop_zero,
    parseSeq_swapSeq _ _ _ (by omega)]

theorem swapFields_length (L : Layout) (hwf : L.wf = true) (bs : List Byte) (hl : bs.length = L.size) :
    (swapFields L bs).length = L.size := by
  have ht := tiles_total hwf
  unfold swapFields
  rw [swapFs_eq_seq hwf, List.drop_zero, swapSeq_length _ _ (by omega)]; omega

example : parse Gen.mghFooter .le (swapFields Gen.mghFooter ((List.range 20).map UInt8.ofNat))
    = parse Gen.mghFooter .be ((List.range 20).map UInt8.ofNat) := by decide +kernel

/-- `byteswap` twice is the identity on the bytes. -/
theorem swapFields_involutive (L : Layout) (hwf : L.wf = true) (bs : List Byte) (hl : bs.length = L.size) :
    swapFields L (swapFields L bs) = bs := by
  have ht := tiles_total hwf
  unfold swapFields
  rw [swapFs_eq_seq hwf, swapFs_eq_seq hwf, List.drop_zero, List.drop_zero,
    swapSeq_swapSeq _ _ (by omega), List.take_of_length_le (by omega)]

/-! ### B. WrapStruct -/

/-- `W(bytes, e).binaryblock == bytes` -/
theorem binaryblock_ofBytes (L : Layout) (hwf : L.wf = true) (e : Endian) (bs : List Byte)
    (hl : bs.length = L.size) : binaryblock L (ofBytes L e bs) = bs :=
  bytes_roundtrip L hwf e bs hl

theorem ofBytes_ok (L : Layout) (hwf : L.wf = true) (e : Endian) (bs : List Byte)
    (hl : bs.length = L.size) : (ofBytes L e bs).ok L = true := by
  have ht := tiles_total hwf
  unfold Hdr.ok ofBytes parse
  rw [parseFs_eq_seq hwf, List.drop_zero]
  exact valsOk_parseSeq _ _ _ (by omega)

theorem binaryblock_length (L : Layout) (hwf : L.wf = true) (h : Hdr) (hok : h.ok L = true) :
    (binaryblock L h).length = L.size := by
  have ht := tiles_total hwf
  unfold binaryblock serialize
  rw [serializeFs_length _ hok]; omega

theorem swapFields_binaryblock (L : Layout) (hwf : L.wf = true) (h : Hdr) (hok : h.ok L = true) :
    swapFields L (binaryblock L h) = serialize L h.e.swap h.vals := by
  unfold swapFields binaryblock serialize
  rw [swapFs_eq_seq hwf, List.drop_zero, swapSeq_serializeFs _ hok]

/-- The byte-swapped copy has the other endianness and exposes identical field values. -/
theorem asByteswapped_vals (L : Layout) (hwf : L.wf = true) (h : Hdr) (hok : h.ok L = true) :
    (asByteswapped L h).e = h.e.swap ∧ (asByteswapped L h).vals = h.vals := by
  refine ⟨rfl, ?_⟩
  show parse L h.e.swap (swapFields L (binaryblock L h)) = h.vals
  rw [swapFields_binaryblock L hwf h hok]
  exact fields_roundtrip L hwf _ _ hok

/-- its bytes are the item-wise reversal of the original bytes -/
theorem binaryblock_asByteswapped (L : Layout) (hwf : L.wf = true) (h : Hdr) (hok : h.ok L = true) :
    binaryblock L (asByteswapped L h) = swapFields L (binaryblock L h) := by
  have hl := binaryblock_length L hwf h hok
  exact bytes_roundtrip L hwf _ _ (swapFields_length L hwf _ hl)

/-- `as_byteswapped` twice is the identity. -/
theorem asByteswapped_twice (L : Layout) (hwf : L.wf = true) (h : Hdr) (hok : h.ok L = true) :
    asByteswapped L (asByteswapped L h) = h := by
  have h1 := asByteswapped_vals L hwf h hok
  have hok1 : (asByteswapped L h).ok L = true := by unfold Hdr.ok; rw [h1.2]; exact hok
  have h2 := asByteswapped_vals L hwf _ hok1
  cases h with
  | mk e vals =>
    have e2 : (asByteswapped L (asByteswapped L ⟨e, vals⟩)).e = e := by
      rw [h2.1, h1.1]; exact Endian.swap_swap e
    have v2 : (asByteswapped L (asByteswapped L ⟨e, vals⟩)).vals = vals := by rw [h2.2, h1.2]
    generalize asByteswapped L (asByteswapped L ⟨e, vals⟩) = r at e2 v2
    cases r; simp_all

theorem hdrEq_swap_aux (L : Layout) (hwf : L.wf = true) (a b : Hdr)
    (hb : b.ok L = true) : hdrEq L a b = (serialize L a.e a.vals == serialize L a.e b.vals) := by
  unfold hdrEq
  by_cases he : a.e = b.e
  · simp [he, binaryblock]
  · have : b.e.swap = a.e := by
      cases ha' : a.e <;> cases hb' : b.e <;> simp_all [Endian.swap]
    have hs : swapFields L (serialize L b.e b.vals) = serialize L b.e.swap b.vals :=
      swapFields_binaryblock L hwf b hb
    simp only [he, if_false, binaryblock, hs, this]

/-- `__eq__` is exactly equality of the field values, whatever the two byte orders are. -/
theorem hdrEq_iff_vals (L : Layout) (hwf : L.wf = true) (a b : Hdr) (ha : a.ok L = true)
    (hb : b.ok L = true) : hdrEq L a b = true ↔ a.vals = b.vals := by
  rw [hdrEq_swap_aux L hwf a b hb, beq_iff_eq]
  constructor
  · intro h
    have := congrArg (parse L a.e) h
    unfold serialize parse at this
    rwa [← serialize, ← parse, fields_roundtrip L hwf _ _ ha, ← serialize, ← parse,
      fields_roundtrip L hwf _ _ hb] at this
  · intro h; rw [h]

/-- A byte-swapped copy compares equal to the original (both ways round). -/
theorem eq_swapped (L : Layout) (hwf : L.wf = true) (h : Hdr) (hok : h.ok L = true) :
    hdrEq L h (asByteswapped L h) = true ∧ hdrEq L (asByteswapped L h) h = true := by
  have h1 := asByteswapped_vals L hwf h hok
  have hok1 : (asByteswapped L h).ok L = true := by unfold Hdr.ok; rw [h1.2]; exact hok
  exact ⟨(hdrEq_iff_vals L hwf _ _ hok hok1).mpr h1.2.symm, (hdrEq_iff_vals L hwf _ _ hok1 hok).mpr h1.2⟩

example : (ofBytes Gen.mghFooter .be (List.replicate 20 (3 : Byte))).ok Gen.mghFooter = true := by decide

/-- `copy()` yields the same header (same bytes, same byte order, same values). -/
theorem copy_eq (L : Layout) (hwf : L.wf = true) (h : Hdr) (hok : h.ok L = true) : copy L h = h := by
  cases h with
  | mk e vals =>
    show (⟨e, parse L e (serialize L e vals)⟩ : Hdr) = ⟨e, vals⟩
    rw [fields_roundtrip L hwf e vals hok]

/-- `as_byteswapped(code)` for EVERY target (none, the current order, the other order — however the
    code was spelled, once resolved by `endian_codes`): the result carries the requested order, exposes
    identical field values and compares equal to the original both ways round. -/
theorem asByteswappedTo_faithful (L : Layout) (hwf : L.wf = true) (h : Hdr) (hok : h.ok L = true)
    (t : Option Endian) :
    (asByteswappedTo L h t).e = t.getD h.e.swap ∧ (asByteswappedTo L h t).vals = h.vals ∧
    hdrEq L h (asByteswappedTo L h t) = true ∧ hdrEq L (asByteswappedTo L h t) h = true := by
  have hsw := asByteswapped_vals L hwf h hok
  have heq := eq_swapped L hwf h hok
  cases t with
  | none => exact ⟨hsw.1, hsw.2, heq.1, heq.2⟩
  | some t =>
    by_cases ht : t = h.e
    · have hc : asByteswappedTo L h (some t) = h := by
        simp only [asByteswappedTo, ht, if_true]; exact copy_eq L hwf h hok
      rw [hc]
      exact ⟨by simp [ht], rfl, (hdrEq_iff_vals L hwf h h hok hok).mpr rfl,
        (hdrEq_iff_vals L hwf h h hok hok).mpr rfl⟩
    · have hts : t = h.e.swap := by
        cases t <;> cases he : h.e <;> simp_all [Endian.swap]
      simp only [asByteswappedTo, ht, if_false, Option.getD_some]
      subst hts
      exact ⟨rfl, hsw.2, heq.1, heq.2⟩

example : asByteswappedTo Gen.mghFooter (ofBytes Gen.mghFooter .be (List.replicate 20 (3 : Byte))) (some .be)
    = ofBytes Gen.mghFooter .be (List.replicate 20 (3 : Byte)) := by decide +kernel

theorem setObj_length (L : Layout) (s : Heap) (j : Nat) (n : String) (v : List Nat) :
    (Heap.setObj L s j n v).length = s.length := by
  unfold Heap.setObj; split <;> simp

theorem setObj_other (L : Layout) (s : Heap) (i j : Nat) (hij : i ≠ j) (n : String) (v : List Nat) :
    (Heap.setObj L s j n v).getD i default = s.getD i default := by
  unfold Heap.setObj
  split
  · simp [List.getD_eq_getElem?_getD, Ne.symm hij]
  · rfl

theorem setMany_other (L : Layout) (s : Heap) (i j : Nat) (hij : i ≠ j) (ws : List (String × List Nat)) :
    (Heap.setMany L s j ws).getD i default = s.getD i default := by
  unfold Heap.setMany
  induction ws generalizing s with
  | nil => rfl
  | cons w ws ih => simp only [List.foldl_cons]; rw [ih, setObj_other L s i j hij]

/-- Copies are independent of the original: `copy` allocates a new object; any sequence of field
    writes to the copy leaves the original untouched, and any sequence of writes to the original
    leaves the copy equal to what was copied. -/
theorem copy_independent (L : Layout) (s : Heap) (i : Nat) (hi : i < s.length)
    (ws : List (String × List Nat)) :
    (Heap.copyObj L s i).2 ≠ i ∧
    (Heap.setMany L (Heap.copyObj L s i).1 (Heap.copyObj L s i).2 ws).getD i default = s.getD i default ∧
    (Heap.setMany L (Heap.copyObj L s i).1 i ws).getD (Heap.copyObj L s i).2 default
      = copy L (s.getD i default) := by
  have hne : s.length ≠ i := by omega
  simp only [Heap.copyObj]
  refine ⟨hne, ?_, ?_⟩
  · rw [setMany_other L _ i _ (Ne.symm hne)]
    simp [List.getD_eq_getElem?_getD, List.getElem?_append_left hi]
  · rw [setMany_other L _ _ i hne]
    simp [List.getD_eq_getElem?_getD]

example : (0 : Nat) < ([default] : Heap).length := by decide

/-! `copy_independent` above has fresh cells by construction; the statement below is about a state space in
    which objects CAN share a buffer. -/

/-- `copy()` cannot alias: in ANY world (objects may already share buffers), the copy of object `i` is a new
    object viewing a buffer NO existing object views; it denotes `copy L (hdr i)` (= `hdr i` by `copy_eq`);
    any sequence of writes through the copy leaves EVERY existing object as it was, and any sequence of writes
    through the original leaves the copy as it was made. -/
theorem copy_fresh_buffer (L : Layout) (w : World) (hw : w.wf) (i : Nat) (hi : i < w.objs.length)
    (ws : List (String × List Nat)) :
    let w' := (w.copyObj L i).1
    let j := (w.copyObj L i).2
    j ≠ i ∧ (∀ o ∈ w.objs, (w'.objs.getD j default).buf ≠ o.buf) ∧ w'.hdr j = copy L (w.hdr i) ∧
    (∀ k, k < w.objs.length → (w'.setMany L j ws).hdr k = w.hdr k) ∧
    (w'.setMany L i ws).hdr j = copy L (w.hdr i) := by
  intro w' j
  have hj : j = w.objs.length := rfl
  have hobj_j : w'.objs.getD j default = ⟨(copy L (w.hdr i)).e, w.bufs.length⟩ := by
    show (w.objs ++ [_]).getD w.objs.length default = _
    simp [List.getD_eq_getElem?_getD]
  have hobj_k : ∀ k, k < w.objs.length → w'.objs.getD k default = w.objs.getD k default := by
    intro k hk
    show (w.objs ++ [_]).getD k default = _
    simp [List.getD_eq_getElem?_getD, List.getElem?_append_left hk]
  have hbuf_k : ∀ b, b < w.bufs.length → w'.bufs.getD b [] = w.bufs.getD b [] := by
    intro b hb
    show (w.bufs ++ [_]).getD b [] = _
    simp [List.getD_eq_getElem?_getD, List.getElem?_append_left hb]
  have hmem : ∀ k, k < w.objs.length → (w.objs.getD k default).buf < w.bufs.length := by
    intro k hk
    apply hw
    simp [List.getD_eq_getElem?_getD, hk]
  have hhdr_k : ∀ k, k < w.objs.length → w'.hdr k = w.hdr k := by
    intro k hk
    unfold World.hdr
    rw [hobj_k k hk, hbuf_k _ (hmem k hk)]
  have hhdr_j : w'.hdr j = copy L (w.hdr i) := by
    unfold World.hdr
    rw [hobj_j]
    show (⟨_, (w.bufs ++ [(copy L (w.hdr i)).vals]).getD w.bufs.length []⟩ : Hdr) = _
    have : (w.bufs ++ [(copy L (w.hdr i)).vals]).getD w.bufs.length [] = (copy L (w.hdr i)).vals := by
      simp [List.getD_eq_getElem?_getD]
    rw [this]; rfl
  refine ⟨by omega, ?_, hhdr_j, ?_, ?_⟩
  · intro o ho
    rw [hobj_j]
    have := hw o ho
    show w.bufs.length ≠ o.buf
    omega
  · intro k hk
    rw [World.setMany_hdr_other L w' j k ws, hhdr_k k hk]
    rw [hobj_j, hobj_k k hk]
    have := hmem k hk
    show (w.objs.getD k default).buf ≠ w.bufs.length
    omega
  · rw [World.setMany_hdr_other L w' i j ws, hhdr_j]
    rw [hobj_j, hobj_k i hi]
    have := hmem i hi
    show w.bufs.length ≠ (w.objs.getD i default).buf
    omega

/-- The state space does allow aliasing: for the variant of `copy()` that hands out a second view of the same
    `_structarr`, one write through the "copy" changes the original — while the modelled `copy()` does not. -/
theorem copy_alias_counterexample :
    let w : World := ⟨[[[1], [2]]], [⟨.le, 0⟩]⟩
    let L : Layout := ⟨"toy", 2, [⟨"a", 0, 1, 1, .uint⟩, ⟨"b", 1, 1, 1, .uint⟩]⟩
    (((w.copyObjAlias 0).1.setObj L (w.copyObjAlias 0).2 "a" [9]).hdr 0 ≠ w.hdr 0) ∧
    (((w.copyObj L 0).1.setObj L (w.copyObj L 0).2 "a" [9]).hdr 0 = w.hdr 0) := by
  decide


example : (⟨[[[1], [2]]], [⟨.le, 0⟩, ⟨.be, 0⟩]⟩ : World).wf ∧
    (0 : Nat) < (⟨[[[1], [2]]], [⟨.le, 0⟩, ⟨.be, 0⟩]⟩ : World).objs.length := by
  constructor
  · intro o ho; simp at ho; rcases ho with rfl | rfl <;> decide
  · decide

/-! ### B2. who owns the bytes: headers, caller-side containers and histories of operations on both

    `Mem` (Model/C10_Mem) has memory cells, caller-side bytes-like containers and header objects that refer to
    cells; in that state space a header CAN view the caller's memory and two headers CAN share a cell.  The
    theorems are about `Mem.step` = the constructor that stores `wstr.copy()`, for every class instance `K`
    (layout, constructor normalisation, endianness guess, repair function) and every history. -/

/-- Whatever the history (containers of any kind created, viewed and overwritten; headers built from them with
    a given or guessed byte order, read from file objects, copied, byte-swapped, edited, repaired), no header ever
    views a caller's memory and no two headers view the same memory. -/
theorem mem_separation_invariant (K : Klass) (ops : List MOp) (m : Mem) (h : Mem.run K Mem.empty ops = some m) :
    m.Sep := Mem.run_sep K Mem.empty m ops Mem.sep_empty h

/-- Independence for ANY history: a header through which nobody writes (`hdr[...] = …`, `check_fix`) keeps its
    byte order and its bytes — whatever is done to the buffer it was built from, to other headers built from the
    same block, to its copies and to the headers it was copied from. -/
theorem mem_hdr_independent (K : Klass) (m m' : Mem) (ops : List MOp) (hs : m.Sep)
    (hrun : Mem.run K m ops = some m') (h : Nat) (hh : h < m.hdrs.length)
    (ht : ∀ op ∈ ops, op.touches h = false) :
    m'.hdrE h = m.hdrE h ∧ m'.hdrBytes h = m.hdrBytes h := by
  have r := Mem.run_hdr_frame K m m' ops hs hrun h hh ht
  exact ⟨by unfold Mem.hdrE; rw [r.2.1], r.2.2⟩

/-- Header operations never write into the caller's memory, and the caller's containers on OTHER memory do not
    matter either: over any history in which nobody writes through a container exposing the cell of `b`
    (`Mem.noPokeOn`, stated along the run because such containers can be created during the history), container `b`
    keeps its bytes — whatever else is overwritten, constructed, assigned, repaired or copied. -/
theorem mem_bufs_untouched (K : Klass) (m m' : Mem) (ops : List MOp) (hs : m.Sep)
    (hrun : Mem.run K m ops = some m') (b : Nat) (hb : b < m.bufs.length)
    (hp : Mem.noPokeOn K m ops (m.bufCell b)) : m'.bufBytes b = m.bufBytes b :=
  (Mem.run_buf_frame_cell K m m' ops hs hrun b hb hp).2.2

/-- the special case stated before the audit: a history without ANY write through a container -/
theorem mem_bufs_untouched_of_no_poke (K : Klass) (m m' : Mem) (ops : List MOp) (hs : m.Sep)
    (hrun : Mem.run K m ops = some m') (b : Nat) (hb : b < m.bufs.length)
    (hp : ∀ op ∈ ops, op.isPoke = false) : m'.bufBytes b = m.bufBytes b :=
  mem_bufs_untouched K m m' ops hs hrun b hb (Mem.noPokeOn_of_no_poke K m ops _ hp)

/-- A header built from a block stays faithful to the bytes it was built from: after `Klass(container, e)`
    (`e` given or guessed) and ANY later history that does not write through the new header, its byte order is the
    resolved one and its bytes are the normalisation of what the container held AT CONSTRUCTION. -/
theorem mem_ctor_faithful (K : Klass) (m m1 m2 : Mem) (b : Nat) (e? : Option Endian) (ops : List MOp)
    (hs : m.Sep) (hc : m.step K (.ctor b e?) = some m1) (hrun : Mem.run K m1 ops = some m2)
    (ht : ∀ op ∈ ops, op.touches m.hdrs.length = false) :
    ∃ e s, (match e? with | some e => some e | none => K.guess (m.bufBytes b)) = some e ∧
      K.norm e (m.bufBytes b) = some s ∧ m2.hdrE m.hdrs.length = e ∧ m2.hdrBytes m.hdrs.length = s := by
  have hs1 := Mem.step_sep K m m1 _ hs hc
  simp only [Mem.step] at hc
  split at hc
  · obtain ⟨e, s, he, hn, hl, hE, hB⟩ := Mem.newHdr_spec K m m1 e? _ hc
    have r := mem_hdr_independent K m1 m2 ops hs1 hrun m.hdrs.length (by omega) ht
    exact ⟨e, s, he, hn, by rw [r.1, hE], by rw [r.2, hB]⟩
  · cases hc

/-- the same for the plain classes (every class but MGH): the bytes are exactly the container's bytes -/
theorem mem_ctor_faithful_plain (K : Klass) (hK : K.norm = plainNorm K.L) (m m1 m2 : Mem) (b : Nat) (e : Endian)
    (ops : List MOp) (hs : m.Sep) (hc : m.step K (.ctor b (some e)) = some m1) (hrun : Mem.run K m1 ops = some m2)
    (ht : ∀ op ∈ ops, op.touches m.hdrs.length = false) :
    m2.hdrE m.hdrs.length = e ∧ m2.hdrBytes m.hdrs.length = m.bufBytes b := by
  obtain ⟨e', s, he, hn, hE, hB⟩ := mem_ctor_faithful K m m1 m2 b (some e) ops hs hc hrun ht
  cases he
  rw [hK] at hn
  unfold plainNorm at hn
  split at hn
  · cases hn; exact ⟨hE, hB⟩
  · cases hn

/-- `from_fileobj`: the byte order is the given one, or the one GUESSED from the bytes read, and the header holds
    (the normalisation of) the bytes the file object had at the read position at that moment — for ever after -/
theorem mem_fromFile_faithful (K : Klass) (m m1 m2 : Mem) (b off : Nat) (e? : Option Endian) (ops : List MOp)
    (hs : m.Sep) (hc : m.step K (.fromFile b off e?) = some m1) (hrun : Mem.run K m1 ops = some m2)
    (ht : ∀ op ∈ ops, op.touches m.hdrs.length = false) :
    ∃ e s, (match e? with | some e => some e | none => K.guess (((m.bufBytes b).drop off).take K.L.size)) = some e ∧
      K.norm e (((m.bufBytes b).drop off).take K.L.size) = some s ∧
      m2.hdrE m.hdrs.length = e ∧ m2.hdrBytes m.hdrs.length = s := by
  have hs1 := Mem.step_sep K m m1 _ hs hc
  simp only [Mem.step] at hc
  split at hc
  · obtain ⟨e, s, he, hn, hl, hE, hB⟩ := Mem.newHdr_spec K m m1 e? _ hc
    have r := mem_hdr_independent K m1 m2 ops hs1 hrun m.hdrs.length (by omega) ht
    exact ⟨e, s, he, hn, by rw [r.1, hE], by rw [r.2, hB]⟩
  · cases hc

/-- `copy()` and same-class `from_header` (the operation `.copy` itself, not `as_byteswapped(current order)`): a new
    header labelled with the source's byte order, holding the normalisation of the source's bytes at that moment
    (the bytes themselves for the plain classes), whatever happens afterwards to the source or to anything else. -/
theorem mem_copy_independent (K : Klass) (m m1 m2 : Mem) (h : Nat) (ops : List MOp)
    (hs : m.Sep) (hc : m.step K (.copy h) = some m1) (hrun : Mem.run K m1 ops = some m2)
    (ht : ∀ op ∈ ops, op.touches m.hdrs.length = false) :
    m.hdrs.length ≠ h ∧ m2.hdrE m.hdrs.length = m.hdrE h ∧
    K.norm (m.hdrE h) (m.hdrBytes h) = some (m2.hdrBytes m.hdrs.length) ∧
    (K.norm = plainNorm K.L → m2.hdrBytes m.hdrs.length = m.hdrBytes h) := by
  have hs1 := Mem.step_sep K m m1 _ hs hc
  simp only [Mem.step] at hc
  split at hc
  · rename_i hh
    obtain ⟨e, s, he, hn, hl, hE, hB⟩ := Mem.newHdr_spec K m m1 _ _ hc
    cases he
    have r := mem_hdr_independent K m1 m2 ops hs1 hrun m.hdrs.length (by omega) ht
    refine ⟨by omega, by rw [r.1, hE], by rw [r.2, hB]; exact hn, ?_⟩
    intro hK
    rw [r.2, hB]
    rw [hK] at hn
    unfold plainNorm at hn
    split at hn
    · exact (Option.some.inj hn).symm
    · cases hn
  · cases hc

/-- `as_byteswapped(current order)` IS `copy()` (wrapstruct.py: `if endianness == current: return self.copy()`) -/
theorem mem_swapTo_same_is_copy (K : Klass) (m : Mem) (h : Nat) :
    m.step K (.swapTo h (some (m.hdrE h))) = m.step K (.copy h) := by
  simp [Mem.step]

/-- `copy()`, same-class `from_header` and `as_byteswapped(code)` (also when `code` is the current order, where
    the code returns `self.copy()`): the result is a new header holding (the byte-swap of) the source's bytes at
    that moment, and it keeps them over any later history that does not write through it. -/
theorem mem_copy_swap_independent (K : Klass) (m m1 m2 : Mem) (h : Nat) (t : Option Endian) (ops : List MOp)
    (hs : m.Sep) (hc : m.step K (.swapTo h t) = some m1) (hrun : Mem.run K m1 ops = some m2)
    (ht : ∀ op ∈ ops, op.touches m.hdrs.length = false) :
    m2.hdrE m.hdrs.length = t.getD (m.hdrE h).swap ∧
    K.norm (t.getD (m.hdrE h).swap)
      (if t.getD (m.hdrE h).swap = m.hdrE h then m.hdrBytes h else swapFields K.L (m.hdrBytes h))
      = some (m2.hdrBytes m.hdrs.length) := by
  have hs1 := Mem.step_sep K m m1 _ hs hc
  have r := fun hl => mem_hdr_independent K m1 m2 ops hs1 hrun m.hdrs.length hl ht
  simp only [Mem.step] at hc
  split at hc
  · split at hc
    · rename_i heq
      obtain ⟨e, s, he, hn, hl, hE, hB⟩ := Mem.newHdr_spec K m m1 _ _ hc
      cases he
      have r := r (by omega)
      rw [if_pos heq, heq, r.1, r.2, hE, hB]
      exact ⟨rfl, hn⟩
    · rename_i hne
      obtain ⟨e, s, he, hn, hl, hE, hB⟩ := Mem.newHdr_spec K m m1 _ _ hc
      cases he
      have r := r (by omega)
      rw [if_neg hne, r.1, r.2, hE, hB]
      exact ⟨rfl, hn⟩
  · cases hc

/-- bridge to the record level: for a tiling layout and a right-sized cell, `binaryblock` of the header the
    object denotes is the cell -/
theorem mem_binaryblock (L : Layout) (hwf : L.wf = true) (m : Mem) (h : Nat)
    (hl : (m.hdrBytes h).length = L.size) : binaryblock L (m.hdr L h) = m.hdrBytes h :=
  binaryblock_ofBytes L hwf _ _ hl

/-- The ownership skeleton extracted from the AST of the working tree on this run is the one the model assumes:
    `_structarr` is assigned exactly twice, in `WrapStruct.__init__`, a fresh default record and `.copy()` of the array
    wrapping the block; `binaryblock` is `tobytes()`; every `copy()` / `as_byteswapped()` goes through the constructor
    on fresh bytes; `from_fileobj` passes what `read` returned — hence the step function the driver runs on the
    generated skeleton (`Mem.stepBy … Gen.ownSkel`) is `Mem.step`, the one every `mem_*` theorem is about. -/
theorem gen_ownership_skeleton_ok :
    Gen.ownSkel.ok = true ∧ ∀ K : Klass, Mem.stepBy K Gen.ownSkel = Mem.step K := by
  have h : Gen.ownSkel.ok = true := by decide
  exact ⟨h, fun K => Mem.stepBy_eq_step K _ h⟩

/-- a skeleton in which the constructor may store the wrapping array (the C10_8 kind of edit) fails the test and
    describes the aliasing constructor -/
example : (⟨[.fresh, .wrap], 0, true, [true], [true], [true]⟩ : OwnSkel).ok = false ∧
    ∀ K : Klass, Mem.stepBy K ⟨[.fresh, .wrap], 0, true, [true], [true], [true]⟩ = Mem.stepAlias K :=
  ⟨by decide, fun K => Mem.stepBy_wrap K _ (by decide)⟩

def toyL : Layout := ⟨"toy", 2, [⟨"a", 0, 1, 1, .uint⟩, ⟨"b", 1, 1, 1, .uint⟩]⟩
def toyK : Klass := ⟨toyL, plainNorm toyL, fun _ => some .le, fun _ bs => bs⟩

/-- The state space does allow sharing: with the constructor that keeps a writable wrapped array
    (`Mem.stepAlias`) the caller re-using its buffer changes the header, editing one of two headers built from
    one block edits the other and writes into the caller's buffer — none of which happens with `Mem.step`. -/
theorem mem_alias_counterexample :
    let pre := [MOp.alloc true [1, 2], .ctor 0 (some .le)]
    (Mem.runAlias toyK Mem.empty (pre ++ [.poke 0 0 [7, 8]])).map (·.hdrBytes 0) = some [7, 8] ∧
    (Mem.run toyK Mem.empty (pre ++ [.poke 0 0 [7, 8]])).map (·.hdrBytes 0) = some [1, 2] ∧
    (Mem.runAlias toyK Mem.empty (pre ++ [.ctor 0 (some .le), .setf 1 "a" [9]])).map
      (fun m => (m.hdrBytes 0, m.bufBytes 0)) = some ([9, 2], [9, 2]) ∧
    (Mem.run toyK Mem.empty (pre ++ [.ctor 0 (some .le), .setf 1 "a" [9]])).map
      (fun m => (m.hdrBytes 0, m.hdrBytes 1, m.bufBytes 0)) = some ([1, 2], [9, 2], [1, 2]) := by
  decide

/-- non-vacuity: a history with a writable container, a read-only view of it, two headers from the block (one
    guessed), a file-object read, an edit, a repair, a copy, a same-order `as_byteswapped` and a re-used buffer runs -/
example : (Mem.run toyK Mem.empty
    [.alloc true [1, 2], .view 0 true, .ctor 0 (some .be), .ctor 1 none, .fromFile 0 0 (some .le), .setf 0 "b" [5],
     .fix 1, .copy 0, .swapTo 0 (some .be), .swapTo 1 none, .snap 0, .poke 0 1 [9]]).map
    (fun m => (m.hdrs.length, m.bufBytes 1, m.hdrBytes 0, m.hdrBytes 1)) = some (6, [1, 9], [1, 5], [1, 2]) := by
  decide

example : toyK.norm = plainNorm toyK.L := rfl

/-- non-vacuity of `mem_bufs_untouched`: container 0 is never written through, container 1 (other memory) is -/
example : Mem.noPokeOn toyK Mem.empty [.alloc true [1, 2], .alloc true [3, 4], .ctor 0 (some .le), .poke 1 0 [9]] 0 ∧
    (Mem.run toyK Mem.empty [.alloc true [1, 2], .alloc true [3, 4], .ctor 0 (some .le), .poke 1 0 [9]]).isSome = true := by
  refine ⟨⟨(fun _ _ _ e => by cases e), fun m1 h1 => ?_⟩, by decide⟩
  cases h1
  refine ⟨(fun _ _ _ e => by cases e), fun m2 h2 => ?_⟩
  cases h2
  refine ⟨(fun _ _ _ e => by cases e), fun m3 h3 => ?_⟩
  have h : Mem.step toyK (Mem.newBuf (Mem.newBuf Mem.empty true [1, 2]) true [3, 4]) (.ctor 0 (some .le)) =
      some ⟨[[1, 2], [3, 4], [1, 2]], [⟨0, true⟩, ⟨1, true⟩], [⟨.le, 2⟩]⟩ := by decide
  rw [h] at h3
  cases h3
  refine ⟨fun b off bs e => ?_, fun _ _ => trivial⟩
  cases e
  decide


/-! ### C. endianness guessing -/

theorem toInt_zero (w : Nat) : toInt w 0 = 0 := by
  unfold toInt; simp [pow256_pos w]

theorem dec_swap_enc (e : Endian) (w v : Nat) : dec e.swap (enc e w v) = decLE (encLE w v).reverse := by
  cases e <;> simp [dec, enc, Endian.swap]

/-- `AnalyzeHeader.guessed_endian` (also used by SPM99/SPM2/NIfTI-1/NIfTI-2 with their `sizeof_hdr`):
    for EVERY byte string that is a valid header in byte order `e` — dim[0] in 1..7, or dim[0] = 0 and
    sizeof_hdr correct — the guess made on a machine of either native order returns `e`. -/
theorem endian_guess_correct (g : GuessSpec) (size : Nat) (hg : g.ok size = true)
    (native e : Endian) (bs : List Byte) (hl : bs.length = size)
    (hvalid : (1 ≤ toInt g.dimW (itemAt e g.dimOff g.dimW 0 bs) ∧ toInt g.dimW (itemAt e g.dimOff g.dimW 0 bs) ≤ 7) ∨
              (toInt g.dimW (itemAt e g.dimOff g.dimW 0 bs) = 0 ∧
               toInt g.szW (itemAt e g.szOff g.szW 0 bs) = (g.sizeofHdr : Int))) :
    guessAnalyze g native bs = e := by
  simp only [GuessSpec.ok, Bool.and_eq_true, decide_eq_true_eq] at hg
  obtain ⟨⟨⟨⟨hw2, hsz⟩, hpal⟩, hdl⟩, hsl⟩ := hg
  simp only [itemAt, Nat.mul_zero, Nat.add_zero] at hvalid
  simp only [guessAnalyze, itemAt, Nat.mul_zero, Nat.add_zero]
  obtain ⟨D, hD⟩ : ∃ D, (bs.drop g.dimOff).take g.dimW = D := ⟨_, rfl⟩
  obtain ⟨S, hS⟩ : ∃ S, (bs.drop g.szOff).take g.szW = S := ⟨_, rfl⟩
  simp only [hD, hS] at hvalid ⊢
  have hDl : D.length = g.dimW := by rw [← hD, List.length_take, List.length_drop]; omega
  have hSl : S.length = g.szW := by rw [← hS, List.length_take, List.length_drop]; omega
  have hDlt : dec e D < 256 ^ g.dimW := by have := dec_lt e D; rwa [hDl] at this
  have hSlt : dec e S < 256 ^ g.szW := by have := dec_lt e S; rwa [hSl] at this
  rcases Endian.eq_or_swap native e with rfl | ⟨hn, hns⟩
  · -- the machine's order is the header's order
    rcases hvalid with ⟨h1, h7⟩ | ⟨h0, hs⟩
    · have : ¬ toInt g.dimW (dec native D) = 0 := by omega
      simp [this, h1, h7]
    · have hSv : dec native S = g.sizeofHdr := by
        rcases toInt_cases g.szW _ hSlt with ⟨h, _⟩ | ⟨h, _⟩ <;> omega
      have hSe : S = enc native g.szW g.sizeofHdr := by
        have := enc_dec native S; rw [hSl, hSv] at this; exact this.symm
      have hne : ¬ toInt g.szW (dec native.swap S) = (g.sizeofHdr : Int) := by
        rw [hSe, dec_swap_enc]
        have hlt : decLE (encLE g.szW g.sizeofHdr).reverse < 256 ^ g.szW := by
          have := decLE_lt (encLE g.szW g.sizeofHdr).reverse
          rwa [List.length_reverse, encLE_length] at this
        rcases toInt_cases g.szW _ hlt with ⟨h, _⟩ | ⟨h, _⟩ <;> omega
      simp [h0, hne]
  · -- the header is in the other order
    subst hn
    rw [Endian.swap_swap]
    rcases hvalid with ⟨h1, h7⟩ | ⟨h0, hs⟩
    · have hv : toInt g.dimW (dec e D) = (dec e D : Int) := by
        rcases toInt_cases g.dimW _ hDlt with ⟨h, _⟩ | ⟨h, _⟩ <;> omega
      have := swapped_small_not_small e D (by omega) (dec e D) (by omega) (by omega) rfl
      rw [hDl] at this
      simp [this.1, this.2]
    · have hv : dec e D = 0 := by
        rcases toInt_cases g.dimW _ hDlt with ⟨h, _⟩ | ⟨h, _⟩ <;> omega
      simp [dec_swap_zero e D hv, toInt_zero, hs]

/- non-vacuity: a 6-byte toy header (sizeof_hdr i4 at 0, dim[0] i2 at 4) written big-endian with
   dim[0] = 3 satisfies `g.ok` and the validity hypothesis -/
example : (⟨0, 4, 4, 2, 348⟩ : GuessSpec).ok 6 = true ∧ (enc .be 4 348 ++ enc .be 2 3).length = 6 ∧
    (1 ≤ toInt 2 (itemAt .be 4 2 0 (enc .be 4 348 ++ enc .be 2 3)) ∧
     toInt 2 (itemAt .be 4 2 0 (enc .be 4 348 ++ enc .be 2 3)) ≤ 7) := by decide +kernel

example : Gen.nifti2.guessSpec? 540 = some ⟨0, 4, 16, 8, 540⟩ ∧ (⟨0, 4, 16, 8, 540⟩ : GuessSpec).ok 540 = true := by
  decide +kernel

/-- the side conditions hold for every class of the working tree that uses the Analyze guess, so the
    guess is right for every valid header of Analyze, SPM99, SPM2, NIfTI-1 and NIfTI-2 -/
theorem endian_guess_correct_generated (c : ClsSpec) (hc : c ∈ Gen.classes) (L : Layout)
    (hL : Gen.layoutOf? c.layout = some L) (sz : Nat) (hk : c.guess = .analyze sz)
    (g : GuessSpec) (hgs : L.guessSpec? sz = some g)
    (native e : Endian) (bs : List Byte) (hl : bs.length = L.size)
    (hvalid : (1 ≤ toInt g.dimW (itemAt e g.dimOff g.dimW 0 bs) ∧ toInt g.dimW (itemAt e g.dimOff g.dimW 0 bs) ≤ 7) ∨
              (toInt g.dimW (itemAt e g.dimOff g.dimW 0 bs) = 0 ∧
               toInt g.szW (itemAt e g.szOff g.szW 0 bs) = (g.sizeofHdr : Int))) :
    guessEndian L c.guess native bs = some e := by
  have hall : ∀ c ∈ Gen.classes, classGuessOk c = true := by decide +kernel
  have := hall c hc
  simp only [classGuessOk, hL, hk, hgs] at this
  simp only [guessEndian, hk, hgs, Option.map_some]
  exact congrArg some (endian_guess_correct g L.size this native e bs hl hvalid)

example : Gen.nifti1Cls ∈ Gen.classes ∧ Gen.layoutOf? Gen.nifti1Cls.layout = some Gen.nifti1 ∧
    Gen.nifti1Cls.guess = .analyze 348 := by decide +kernel

/-- `EcatHeader.guessed_endian`: a header whose `sw_version` is 74 in byte order `e` is guessed `e`. -/
theorem ecat_guess_correct (swOff : Nat) (native e : Endian) (bs : List Byte)
    (hl : swOff + 2 ≤ bs.length) (hvalid : itemAt e swOff 2 0 bs = 74) :
    guessEcat swOff native bs = e := by
  simp only [itemAt, Nat.mul_zero, Nat.add_zero] at hvalid
  simp only [guessEcat, itemAt, Nat.mul_zero, Nat.add_zero]
  obtain ⟨D, hD⟩ : ∃ D, (bs.drop swOff).take 2 = D := ⟨_, rfl⟩
  simp only [hD] at hvalid ⊢
  have hDl : D.length = 2 := by rw [← hD, List.length_take, List.length_drop]; omega
  rcases Endian.eq_or_swap native e with rfl | ⟨hn, hns⟩
  · simp [hvalid]
  · subst hn
    have := dec_swap_small e D 74 (by decide) hvalid (by omega)
    rw [hDl] at this
    simp [this, Endian.swap_swap]

example : (0 : Nat) + 2 ≤ (enc .le 2 74).length ∧ itemAt .le 0 2 0 (enc .le 2 74) = 74 := by decide +kernel

theorem ecat_guess_correct_generated (L : Layout) (hL : Gen.layoutOf? Gen.ecatCls.layout = some L)
    (f : Field) (hf : L.find? "sw_version" = some f)
    (native e : Endian) (bs : List Byte) (hl : bs.length = L.size)
    (hvalid : itemAt e f.offset 2 0 bs = 74) :
    guessEndian L Gen.ecatCls.guess native bs = some e := by
  have hok : classGuessOk Gen.ecatCls = true := by decide +kernel
  have hg : Gen.ecatCls.guess = .ecat := by decide +kernel
  simp only [classGuessOk, hL, hg, hf, Bool.and_eq_true, decide_eq_true_eq] at hok
  simp only [guessEndian, hg, hf, Option.map_some]
  exact congrArg some (ecat_guess_correct f.offset native e bs (by omega) hvalid)

example : Gen.layoutOf? Gen.ecatCls.layout = some Gen.ecat ∧ (Gen.ecat.find? "sw_version").isSome = true := by
  decide +kernel

/-! ### D. check batteries (`BatteryRunner.check_fix` over the `_chk_*` functions)

  Abstraction: the checks act on the record `CF` of the fields they read or write; integer fields are
  exact `Int`s, float fields (pixdim, qfac, NIfTI-1 vox_offset) are raw bit patterns over ALL patterns
  (NaN, infinities, signed zeros, denormals included); `dtItemsize` is the regenerated code table.
  `raises` marks the one input on which `_chk_offset` itself raises (vox_offset = -inf, single magic);
  the statements about a completed `check_fix` assume it did not raise. -/

set_option linter.unusedVariables false in
/-- Running the checks with repair is idempotent: a second `check_fix` leaves the header as the first
    one left it — for every class constant set with a sane float format, every battery (any order, any
    subset of the checks) and every field assignment. -/
theorem check_fix_idempotent (c : ClsSpec) (hF : c.pixFmt.ok = true) (ks : List CheckId) (h : CF)
    (hdef : raises c ks h = false) :
    (runFix c ks (runFix c ks h).1).1 = (runFix c ks h).1 := by
  rw [runFix_fst, runFix_fst, fixAll_idem c hF]

example : fmt32.ok = true ∧ fmt64.ok = true ∧
    raises Gen.nifti1Cls Gen.nifti1Cls.checks ⟨0, 3, 0, 0, [0, 0x80000000, 5], [], 0xFF800000, 9, 9, [], [], [], 0⟩ = false := by
  decide +kernel

set_option linter.unusedVariables false in
/-- A header for which no check reports a problem is not altered. -/
theorem check_fix_noop (c : ClsSpec) (ks : List CheckId) (h : CF) (hdef : raises c ks h = false)
    (hr : ∀ r ∈ (runFix c ks h).2, r.level = 0) : (runFix c ks h).1 = h := by
  rw [runFix_fst]; exact fixAll_noop c ks h hr

example : ∀ r ∈ (runFix Gen.analyzeCls Gen.analyzeCls.checks
    ⟨348, 16, 32, 0, [fmt32.one, fmt32.one, fmt32.one], [], 0, 0, 0, [], [], [], 0⟩).2, r.level = 0 := by
  decide +kernel

/-- The reports of `check_fix` are those of `check_only` on the untouched header (no check depends on
    a field another check repairs), for a battery without repeated checks. -/
theorem check_fix_reports_eq_check_only (c : ClsSpec) (ks : List CheckId) (hnd : ks.Nodup) (h : CF) :
    (runFix c ks h).2 = runOnly c ks h := runFix_snd c ks hnd h

example : Gen.nifti2Cls.checks.Nodup := by decide

/-- After `check_fix`, a second run reports only the documented unfixable items: every check that has
    a repair (sizeof_hdr, pixdims, qfac, xform codes, eol_check, MGH version) is silent. -/
theorem second_run_only_unfixable (c : ClsSpec) (hc : c.ok = true) (h : CF) :
    ∀ k ∈ c.checks, unfixable k = false → (reportOf c k (runFix c c.checks h).1).level = 0 := by
  intro k hk hu
  simp only [ClsSpec.ok, Bool.and_eq_true, Bool.or_eq_true, Bool.not_eq_true', List.contains_eq_mem,
    decide_eq_true_eq, Bool.or_eq_false_iff, decide_eq_false_iff_not] at hc
  obtain ⟨⟨hF, hx⟩, _⟩ := hc
  rw [runFix_fst]
  obtain ⟨h', hh'⟩ := fixAll_mem c k c.checks hk h
  rw [hh']
  apply reportOf_fixOf_clean c hF k _ hu
  intro hq
  rcases hx with hx | hx
  · exact hx
  · rcases hq with rfl | rfl
    · exact absurd hk hx.1
    · exact absurd hk hx.2

example : Gen.nifti1Cls.ok = true ∧ CheckId.qfac ∈ Gen.nifti1Cls.checks ∧ unfixable .qfac = false := by
  decide +kernel

/-- A `check_fix` that completed leaves a header on which the checks do not raise either. -/
theorem fix_preserves_defined (c : ClsSpec) (hc : c.ok = true) (ks : List CheckId) (h : CF)
    (hdef : raises c ks h = false) : raises c ks (runFix c ks h).1 = false := by
  simp only [ClsSpec.ok, Bool.and_eq_true] at hc
  have hP := hc.2
  rw [runFix_fst]
  obtain ⟨hm, hv | hv⟩ := fixAll_vox c ks h
  · unfold raises at hdef ⊢; rw [hm, hv]; exact hdef
  · unfold raises; rw [hv]
    cases hd : c.voxKind.decode c.singleVoxPattern <;> simp_all [OffVal.eqInt]

/-- Refinement for two checks counted as unfixable: after the repair `_chk_offset` never reports
    "too low" again (the single-file minimum it writes is itself acceptable) and `_chk_bitpix` never
    reports a mismatch again; what can remain is "not divisible by 16" and "no valid datatype". -/
theorem second_run_offset_bitpix (c : ClsSpec) (hc : c.ok = true) (h : CF) :
    (reportOf c .offset (fixOf c .offset h)).msg ≠ .offLow ∧
    (reportOf c .bitpix (fixOf c .bitpix h)).msg ≠ .bpMismatch := by
  simp only [ClsSpec.ok, Bool.and_eq_true] at hc
  have hP := hc.2
  cases h with
  | mk sz dt bp qf pd mg vo q s eol org dim ver =>
  constructor
  · simp only [fixOf, reportOf]
    by_cases h1 : (c.voxKind.decode vo).isZero = true
    · simp [h1, Report.clean]
    · by_cases h2 : stripNul mg = c.singleMagic ∧ (c.voxKind.decode vo).ltInt c.singleVoxOffset = true
      · simp only [h1, h2, and_self, if_true, Bool.false_eq_true, if_false]
        cases hd : c.voxKind.decode c.singleVoxPattern with
        | fin n k =>
          simp only [hd, OffVal.eqInt, beq_iff_eq] at hP
          have : OffVal.ltInt c.singleVoxOffset (.fin n k) = false := by
            simp [OffVal.ltInt, hP]
          simp only [this]
          split
          · simp [Report.clean]
          · split
            · simp_all
            · split <;> simp [Report.clean]
        | nan => simp [hd, OffVal.eqInt] at hP
        | pinf => simp [hd, OffVal.eqInt] at hP
        | ninf => simp [hd, OffVal.eqInt] at hP
      · simp only [h1, h2, Bool.false_eq_true, if_false]
        split <;> simp [Report.clean]
  · simp only [fixOf, reportOf]
    cases hd : dtItemsize c.dtTable dt with
    | none => simp
    | some n => simp only []; split <;> simp_all [Report.clean]

example : Gen.nifti2Cls.ok = true := by decide +kernel

/-! ### D''. the battery on the header BYTES (`checkFixBytes`: parse the checked fields out of the bytes
    with the layout, run the battery on the record, write the repaired fields back)

  Generic over every class `c` and layout `L` with `compat c L` (decidable: the layout tiles with distinct
  names, every check of the battery finds the field it repairs, checked fields have the expected item
  counts, every constant a repair writes is representable in its field); `compat` is then decided for
  every class of the working tree (`checkFixBytes_generated`). -/

/-- everything the byte-level statements need, in one place -/
theorem checkFixBytes_core (c : ClsSpec) (L : Layout) (hc : compat c L = true) (e : Endian)
    (bs : List Byte) (hl : bs.length = L.size) :
    valsOk L.fields (parse L e bs) = true ∧
    valsOk L.fields (writeCF L (parse L e bs) (fixAll c c.checks (readCF L (parse L e bs)))) = true ∧
    (checkFixBytes c L e bs).1 = serialize L e (writeCF L (parse L e bs) (fixAll c c.checks (readCF L (parse L e bs)))) ∧
    parse L e (checkFixBytes c L e bs).1 = writeCF L (parse L e bs) (fixAll c c.checks (readCF L (parse L e bs))) ∧
    ((checkFixBytes c L e bs).1).length = L.size ∧
    readCF L (parse L e (checkFixBytes c L e bs).1) = fixAll c c.checks (readCF L (parse L e bs)) := by
  have C := compat_spec hc
  have hv : valsOk L.fields (parse L e bs) = true := ofBytes_ok L C.wf e bs hl
  have hfit := fixAll_fits c L C c.checks (fun _ h => h) _ (readCF_fits c L C _ hv)
  have hW := valsOk_writeCF c L C _ hv _ hfit
  have hout : (checkFixBytes c L e bs).1 =
      serialize L e (writeCF L (parse L e bs) (fixAll c c.checks (readCF L (parse L e bs)))) := by
    simp only [checkFixBytes, runFix_fst]
  have hp := fields_roundtrip L C.wf e _ hW
  have hlen : ((checkFixBytes c L e bs).1).length = L.size := by
    rw [hout]; exact binaryblock_length L C.wf ⟨e, _⟩ hW
  refine ⟨hv, hW, hout, by rw [hout, hp], hlen, ?_⟩
  rw [hout, hp]
  exact readCF_writeCF L _ hv _ hfit (fixAll_agrees c L C _)

/-- Parsing the output of the byte-level battery yields `runFix` of the parsed record, and the reports
    are those of `runFix`: the record-level theorems of part D speak about the bytes. -/
theorem checkFixBytes_parse (c : ClsSpec) (L : Layout) (hc : compat c L = true) (e : Endian)
    (bs : List Byte) (hl : bs.length = L.size) :
    readCF L (parse L e (checkFixBytes c L e bs).1) = (runFix c c.checks (readCF L (parse L e bs))).1 ∧
    (checkFixBytes c L e bs).2 = (runFix c c.checks (readCF L (parse L e bs))).2 ∧
    ((checkFixBytes c L e bs).1).length = L.size := by
  have h := checkFixBytes_core c L hc e bs hl
  exact ⟨by rw [runFix_fst]; exact h.2.2.2.2.2, rfl, h.2.2.2.2.1⟩

set_option linter.unusedVariables false in
/-- `check_fix` twice gives the same BYTES as `check_fix` once (for a header on which the checks do
    not raise, see `raises`). -/
theorem checkFixBytes_idempotent (c : ClsSpec) (L : Layout) (hc : compat c L = true) (e : Endian)
    (bs : List Byte) (hl : bs.length = L.size) (hdef : raisesBytes c L e bs = false) :
    (checkFixBytes c L e (checkFixBytes c L e bs).1).1 = (checkFixBytes c L e bs).1 := by
  have C := compat_spec hc
  have h1 := checkFixBytes_core c L hc e bs hl
  have h2 := checkFixBytes_core c L hc e _ h1.2.2.2.2.1
  rw [h2.2.2.1, h1.2.2.2.2.2, fixAll_idem c C.fmt]
  -- writing back what was just read
  have hre : fixAll c c.checks (readCF L (parse L e bs)) = readCF L (parse L e (checkFixBytes c L e bs).1) :=
    h1.2.2.2.2.2.symm
  rw [hre, writeCF_readCF c L C _ h2.1]
  exact bytes_roundtrip L C.wf e _ h1.2.2.2.2.1

set_option linter.unusedVariables false in
/-- When no check reports a problem the BYTES are unchanged. -/
theorem checkFixBytes_noop (c : ClsSpec) (L : Layout) (hc : compat c L = true) (e : Endian)
    (bs : List Byte) (hl : bs.length = L.size) (hdef : raisesBytes c L e bs = false)
    (hr : ∀ r ∈ (checkFixBytes c L e bs).2, r.level = 0) : (checkFixBytes c L e bs).1 = bs := by
  have C := compat_spec hc
  have h1 := checkFixBytes_core c L hc e bs hl
  have hno : fixAll c c.checks (readCF L (parse L e bs)) = readCF L (parse L e bs) :=
    fixAll_noop c c.checks _ hr
  rw [h1.2.2.1, hno, writeCF_readCF c L C _ h1.1]
  exact bytes_roundtrip L C.wf e bs hl

/-- `check_fix` touches ONLY the bytes of the fields its battery may repair: every other field of the
    layout — whatever its name — has exactly the bytes it had. -/
theorem checkFixBytes_untouched (c : ClsSpec) (L : Layout) (hc : compat c L = true) (e : Endian)
    (bs : List Byte) (hl : bs.length = L.size) (f : Field) (hf : f ∈ L.fields)
    (hn : f.name ∉ repairable c) :
    ((checkFixBytes c L e bs).1.drop f.offset).take f.nbytes = (bs.drop f.offset).take f.nbytes := by
  have C := compat_spec hc
  have h1 := checkFixBytes_core c L hc e bs hl
  have hb := tiles_mem_bound C.wf f hf
  have hnd : (L.fields.map (·.name)).Nodup := by simpa [namesDistinct] using C.names
  apply field_bytes_eq f e _ _ (by rw [h1.2.2.2.2.1]; exact hb) (by rw [hl]; exact hb)
  have g1 := getRawFs_parseFs L.fields e (checkFixBytes c L e bs).1 f hf hnd
  have g2 := getRawFs_parseFs L.fields e bs f hf hnd
  rw [← g1, ← g2]
  show getRaw L (parse L e (checkFixBytes c L e bs).1) f.name = getRaw L (parse L e bs) f.name
  rw [h1.2.2.2.1]
  apply getRaw_writeCF_same c L C _ h1.1
  intro _
  apply slotView_fixAll
  intro k hk hks
  exact hn (List.mem_filterMap.mpr ⟨k, hk, hks⟩)

/-- `compat` holds for every header class of the working tree with its regenerated layout, so the four
    statements above hold for Analyze, SPM99, SPM2, NIfTI-1 (single/pair), NIfTI-2 (single/pair), MGH, ECAT. -/
theorem checkFixBytes_generated :
    ∀ c ∈ Gen.classes, ∃ L, Gen.layoutOf? c.layout = some L ∧ compat c L = true := by
  intro c hc
  have h : ∀ c ∈ Gen.classes, (match Gen.layoutOf? c.layout with
      | some L => compat c L
      | none => false) = true := by decide +kernel
  have := h c hc
  cases hL : Gen.layoutOf? c.layout with
  | none => simp [hL] at this
  | some L => exact ⟨L, rfl, by simpa [hL] using this⟩

example : raisesBytes Gen.nifti1Cls Gen.nifti1 .le (List.replicate 348 0) = false ∧
    (List.replicate 348 (0 : Byte)).length = Gen.nifti1.size := by decide +kernel

example : compat Gen.nifti2Cls Gen.nifti2 = true ∧ repairable Gen.nifti2Cls =
    ["sizeof_hdr", "bitpix", "pixdim", "pixdim", "vox_offset", "qform_code", "sform_code", "eol_check"] := by
  decide +kernel

/-! ### D-pub. the PUBLIC entry point `WrapStruct.check_fix(logger, error_level)` and the checking constructor

  `wrapCheckFix` = run the whole battery with repair on the bytes, THEN log the reports in order and raise at
  the first one with `problem_level and problem_level >= error_level` (`logRaise`; characterised by
  `logRaise_spec` / `logRaise_none_iff` / `logRaise_mono` in Lemmas/C10_Pub).  The bytes component is what the
  caller's object holds after the call — also when it raised. -/

/-- a check's own repair never raises the level it reports -/
theorem reportOf_fixOf_level_le (c : ClsSpec) (hc : c.ok = true) (k : CheckId)
    (hx : k = .qform ∨ k = .sform → (0 : Int) ∈ c.xformCodes) (h : CF) :
    (reportOf c k (fixOf c k h)).level ≤ (reportOf c k h).level := by
  have hF : c.pixFmt.ok = true := by
    simp only [ClsSpec.ok, Bool.and_eq_true] at hc; exact hc.1.1
  by_cases hu : unfixable k = false
  · rw [reportOf_fixOf_clean c hF k hx hu h]; exact Nat.zero_le _
  · cases k <;> simp [unfixable] at hu
    case datatype => exact Nat.le_refl _
    case magic => exact Nat.le_refl _
    case origin => exact Nat.le_refl _
    case bitpix =>
      cases h with
      | mk sz dt bp qf pd mg vo q s eol org dim ver =>
      simp only [fixOf, reportOf]
      cases hd : dtItemsize c.dtTable dt with
      | none => simp
      | some n => simp only []; split <;> simp_all [Report.clean]
    case offset =>
      have h2 := (second_run_offset_bitpix c hc h).1
      cases h with
      | mk sz dt bp qf pd mg vo q s eol org dim ver =>
      simp only [fixOf, reportOf] at h2 ⊢
      by_cases h1 : (c.voxKind.decode vo).isZero = true
      · simp [h1, Report.clean]
      · by_cases h3 : stripNul mg = c.singleMagic ∧ (c.voxKind.decode vo).ltInt c.singleVoxOffset = true
        · simp only [h1, h3, and_self, if_true, Bool.false_eq_true, if_false] at h2 ⊢
          split
          · simp [Report.clean]
          · split
            · simp_all
            · split <;> simp [Report.clean]
        · simp only [h1, h3, Bool.false_eq_true, if_false]
          exact Nat.le_refl _


/-- after the battery has run with repair, every check reports at most the level it reported before -/
theorem second_run_levels_le (c : ClsSpec) (hc : c.ok = true) (hnd : c.checks.Nodup) (h : CF) :
    ∀ k ∈ c.checks, (reportOf c k (fixAll c c.checks h)).level ≤ (reportOf c k h).level := by
  intro k hk
  rw [reportOf_fixAll_mem c k c.checks hnd hk]
  apply reportOf_fixOf_level_le c hc
  intro hq
  simp only [ClsSpec.ok, Bool.and_eq_true, Bool.or_eq_true, Bool.not_eq_true', List.contains_eq_mem,
    decide_eq_true_eq, Bool.or_eq_false_iff, decide_eq_false_iff_not] at hc
  rcases hc.1.2 with hx | hx
  · exact hx
  · rcases hq with rfl | rfl
    · exact absurd hk hx.1
    · exact absurd hk hx.2


set_option linter.unusedVariables false in
/-- The public `hdr.check_fix(error_level=l1)` followed by `hdr.check_fix(error_level=l2)` — for ANY two error
    levels, whether or not either call raised `HeaderDataError` — leaves the bytes the first call left: every
    repair is applied before anything is raised. -/
theorem wrapCheckFix_idempotent (c : ClsSpec) (L : Layout) (hc : compat c L = true) (e : Endian)
    (bs : List Byte) (hl : bs.length = L.size) (hdef : raisesBytes c L e bs = false) (l1 l2 : Int) :
    (wrapCheckFix c L e (wrapCheckFix c L e bs l1).bytes l2).bytes = (wrapCheckFix c L e bs l1).bytes :=
  checkFixBytes_idempotent c L hc e bs hl hdef

/-- …and so does every longer history of `check_fix` calls at arbitrary error levels on the same object. -/
theorem history_stable (c : ClsSpec) (L : Layout) (hc : compat c L = true) (e : Endian)
    (bs : List Byte) (hl : bs.length = L.size) (hdef : raisesBytes c L e bs = false) (l1 : Int)
    (ls : List Int) :
    ∀ r ∈ runHistory c L e (wrapCheckFix c L e bs l1).bytes ls, r.bytes = (wrapCheckFix c L e bs l1).bytes := by
  induction ls with
  | nil => intro r hr; cases hr
  | cons l ls ih =>
    intro r hr
    have hid := wrapCheckFix_idempotent c L hc e bs hl hdef l1 l
    simp only [runHistory, List.mem_cons] at hr
    rcases hr with rfl | hr
    · exact hid
    · rw [hid] at hr; exact ih r hr

/-- reports of a second run, as a map over the battery -/
theorem second_reports (c : ClsSpec) (L : Layout) (hc : compat c L = true) (hnd : c.checks.Nodup)
    (e : Endian) (bs : List Byte) (hl : bs.length = L.size) :
    (checkFixBytes c L e bs).2 = c.checks.map (fun k => reportOf c k (readCF L (parse L e bs))) ∧
    (checkFixBytes c L e (checkFixBytes c L e bs).1).2 =
      c.checks.map (fun k => reportOf c k (fixAll c c.checks (readCF L (parse L e bs)))) := by
  have h1 := checkFixBytes_parse c L hc e bs hl
  have h2 := checkFixBytes_parse c L hc e _ h1.2.2
  refine ⟨?_, ?_⟩
  · rw [h1.2.1, runFix_snd c _ hnd]; rfl
  · rw [h2.2.1, runFix_snd c _ hnd, h1.1, runFix_fst]; rfl

/-- After a public `check_fix` at any level (raised or not), a re-check at level `l2` can raise only from a
    check that has no repair (datatype, bitpix, magic, offset, origin); and if the first call did not raise,
    a re-check at the same or a higher error level does not raise either (levels never grow through a repair). -/
theorem wrapCheckFix_second_run (c : ClsSpec) (L : Layout) (hc : compat c L = true) (hcok : c.ok = true)
    (hnd : c.checks.Nodup) (e : Endian) (bs : List Byte) (hl : bs.length = L.size) (l1 l2 : Int) :
    (∀ i, (wrapCheckFix c L e (wrapCheckFix c L e bs l1).bytes l2).raised = some i →
        ∃ k, c.checks[i]? = some k ∧ unfixable k = true) ∧
    ((wrapCheckFix c L e bs l1).raised = none → l1 ≤ l2 →
        (wrapCheckFix c L e (wrapCheckFix c L e bs l1).bytes l2).raised = none) := by
  obtain ⟨hr1, hr2⟩ := second_reports c L hc hnd e bs hl
  constructor
  · intro i hi
    have hs := logRaise_spec l2 (checkFixBytes c L e (checkFixBytes c L e bs).1).2
    have hi' : (logRaise l2 (checkFixBytes c L e (checkFixBytes c L e bs).1).2).2 = some i := hi
    rw [hi'] at hs
    obtain ⟨hlt, hra, _, _⟩ := hs
    rw [hr2] at hlt hra
    simp only [List.length_map] at hlt
    refine ⟨c.checks[i], by simp [hlt], ?_⟩
    have hget : (c.checks.map (fun k => reportOf c k (fixAll c c.checks (readCF L (parse L e bs))))).getD i default
        = reportOf c c.checks[i] (fixAll c c.checks (readCF L (parse L e bs))) := by
      simp [List.getD_eq_getElem?_getD, hlt]
    rw [hget] at hra
    by_cases hu : unfixable c.checks[i] = true
    · exact hu
    · have := second_run_only_unfixable c hcok (readCF L (parse L e bs)) c.checks[i] (List.getElem_mem _)
        (by simpa using hu)
      rw [runFix_fst] at this
      simp [Report.raisesAt, this] at hra
  · intro hn hle
    have hn' : (logRaise l1 (checkFixBytes c L e bs).2).2 = none := hn
    show (logRaise l2 (checkFixBytes c L e (checkFixBytes c L e bs).1).2).2 = none
    rw [logRaise_none_iff] at hn' ⊢
    rw [hr1] at hn'
    rw [hr2]
    intro r hr
    obtain ⟨k, hk, rfl⟩ := List.mem_map.mp hr
    exact raisesAt_mono _ _ l1 l2 (second_run_levels_le c hcok hnd _ k hk) hle
      (hn' _ (List.mem_map.mpr ⟨k, hk, rfl⟩))

set_option linter.unusedVariables false in
/-- A header that `check_only` finds clean is never altered by the public `check_fix`, never makes it raise —
    at ANY error level, also 0 or negative — and the logger receives exactly the clean reports. -/
theorem wrapCheckFix_clean (c : ClsSpec) (L : Layout) (hc : compat c L = true) (hnd : c.checks.Nodup)
    (e : Endian) (bs : List Byte) (hl : bs.length = L.size) (hdef : raisesBytes c L e bs = false)
    (hclean : ∀ r ∈ checkOnlyBytes c L e bs, r.level = 0) (lvl : Int) :
    (wrapCheckFix c L e bs lvl).bytes = bs ∧ (wrapCheckFix c L e bs lvl).raised = none ∧
    (wrapCheckFix c L e bs lvl).logged = checkOnlyBytes c L e bs := by
  have hrep : (checkFixBytes c L e bs).2 = checkOnlyBytes c L e bs := by
    show (runFix c c.checks (readCF L (parse L e bs))).2 = _
    rw [runFix_snd c _ hnd]; rfl
  have hno : (logRaise lvl (checkFixBytes c L e bs).2).2 = none := by
    rw [logRaise_none_iff, hrep]
    intro r hr
    simp [Report.raisesAt, hclean r hr]
  refine ⟨checkFixBytes_noop c L hc e bs hl hdef (by rw [hrep]; exact hclean), hno, ?_⟩
  have hs := logRaise_spec lvl (checkFixBytes c L e bs).2
  rw [hno] at hs
  show (logRaise lvl (checkFixBytes c L e bs).2).1 = _
  rw [hs.2, hrep]

/-- The error level decides only WHEN the call raises, never what is repaired: the bytes are the same for all
    levels, and lowering the level can only move the raising report earlier in the battery. -/
theorem wrapCheckFix_level_monotone (c : ClsSpec) (L : Layout) (e : Endian) (bs : List Byte) (l1 l2 : Int)
    (h : l1 ≤ l2) :
    (wrapCheckFix c L e bs l1).bytes = (wrapCheckFix c L e bs l2).bytes ∧
    ∀ i, (wrapCheckFix c L e bs l2).raised = some i → ∃ j, j ≤ i ∧ (wrapCheckFix c L e bs l1).raised = some j :=
  ⟨rfl, fun i hi => logRaise_mono l1 l2 h _ i hi⟩

/-- `Klass(bytes, check=True)`: a header the checking constructor returns is a fixed point of the battery, and
    constructing again from its bytes with the same global error level succeeds with the same bytes. -/
theorem ctorChecked_fixed_point (c : ClsSpec) (L : Layout) (hc : compat c L = true) (hcok : c.ok = true)
    (hnd : c.checks.Nodup) (e : Endian) (bs : List Byte) (hl : bs.length = L.size)
    (hdef : raisesBytes c L e bs = false) (glob : Int) (bb : List Byte)
    (h : ctorChecked c L e bs glob = .ok bb) :
    (checkFixBytes c L e bb).1 = bb ∧ ctorChecked c L e bb glob = .ok bb := by
  unfold ctorChecked at h
  cases hr : (wrapCheckFix c L e bs glob).raised with
  | some i => simp [hr] at h
  | none =>
    simp only [hr, Except.ok.injEq] at h
    have hid := wrapCheckFix_idempotent c L hc e bs hl hdef glob glob
    have h2 := (wrapCheckFix_second_run c L hc hcok hnd e bs hl glob glob).2 hr (Int.le_refl _)
    rw [h] at hid h2
    refine ⟨hid, ?_⟩
    unfold ctorChecked
    rw [h2]; simp only []; exact congrArg _ hid

/-- Why the two-phase structure matters (witness about a REJECTED variant, not about the code): logging /
    raising each report as soon as its check has run stops at `_chk_offset` (battery index 6, level 40) for a
    single-file NIfTI-1 header with vox_offset 10 and qform_code -1, leaves qform_code unrepaired, and a second
    run changes the header again; the real two-phase battery is idempotent on the same record. -/
theorem check_fix_failfast_counterexample :
    let h : CF := ⟨348, 16, 32, fmt32.one, [fmt32.one, fmt32.one, fmt32.one], [110, 43, 49, 0], 0x41200000, -1, 0, [], [], [], 0⟩
    (runFixEager Gen.nifti1Cls 40 Gen.nifti1Cls.checks h).2 = some 6 ∧
    (runFixEager Gen.nifti1Cls 40 Gen.nifti1Cls.checks (runFixEager Gen.nifti1Cls 40 Gen.nifti1Cls.checks h).1).1
      ≠ (runFixEager Gen.nifti1Cls 40 Gen.nifti1Cls.checks h).1 ∧
    (runFix Gen.nifti1Cls Gen.nifti1Cls.checks (runFix Gen.nifti1Cls Gen.nifti1Cls.checks h).1).1
      = (runFix Gen.nifti1Cls Gen.nifti1Cls.checks h).1 := by
  decide +kernel


/- non-vacuity: a single-file NIfTI-1 header with vox_offset 10 (level 40, repaired), qform_code -1 (level
   30, repaired) and a stale bitpix (level 10, repaired): the call at error level 40 raises from battery index 6 with seven reports logged, both
   repairs are in the bytes, and a second call at any level leaves them alone and does not raise. -/
example :
    let bs : List Byte := (checkFixBytes Gen.nifti1Cls Gen.nifti1 .le (List.replicate 348 0)).1
    let bad := serialize Gen.nifti1 .le (setRaw Gen.nifti1 (setRaw Gen.nifti1 (setRaw Gen.nifti1 (setRaw Gen.nifti1
      (parse Gen.nifti1 .le bs) "datatype" [16]) "magic" [110, 43, 49, 0]) "vox_offset" [0x41200000]) "qform_code" [65535])
    bad.length = Gen.nifti1.size ∧ raisesBytes Gen.nifti1Cls Gen.nifti1 .le bad = false ∧
    (wrapCheckFix Gen.nifti1Cls Gen.nifti1 .le bad 40).raised = some 6 ∧
    ((wrapCheckFix Gen.nifti1Cls Gen.nifti1 .le bad 40).logged.map (·.level)) = [0, 0, 10, 0, 0, 0, 40] ∧
    (wrapCheckFix Gen.nifti1Cls Gen.nifti1 .le bad 40).bytes ≠ bad ∧
    (wrapCheckFix Gen.nifti1Cls Gen.nifti1 .le (wrapCheckFix Gen.nifti1Cls Gen.nifti1 .le bad 40).bytes 1).raised = none ∧
    (match ctorChecked Gen.nifti1Cls Gen.nifti1 .le bad 41 with | .ok _ => true | .error _ => false) = true := by
  decide +kernel

example : compat Gen.nifti1Cls Gen.nifti1 = true ∧ Gen.nifti1Cls.ok = true ∧ Gen.nifti1Cls.checks.Nodup ∧
    (∀ r ∈ checkOnlyBytes Gen.analyzeCls Gen.analyze .be
      (checkFixBytes Gen.analyzeCls Gen.analyze .be (serialize Gen.analyze .be (setRaw Gen.analyze
        (parse Gen.analyze .be (List.replicate 348 0)) "datatype" [16]))).1, r.level = 0) := by
  decide +kernel

/-! ### D'. from_header (dim / pixdim part only; the rest is checked by the oracle on the real code) -/

/-- `from_header` preserves the zooms (pixdim[1..ndim]) and qfac (pixdim[0]) bit for bit. -/
theorem from_header_preserves_zooms (F : FloatFmt) (nd : Nat) (pix : List Nat) (hl : pix.length = 8)
    (hnd : nd ≤ 7) :
    getZooms nd (fromHeaderPix F nd pix) = getZooms nd pix ∧
    (fromHeaderPix F nd pix).take 1 = pix.take 1 ∧ (fromHeaderPix F nd pix).length = 8 := by
  have hz : (getZooms nd pix).length = nd := by simp [getZooms]; omega
  refine ⟨?_, ?_, ?_⟩
  · simp only [fromHeaderPix, setZoomsPix, getZooms]
    have h1 : ((setShapePix F nd pix).take 1).length = 1 := by simp [setShapePix]; omega
    rw [List.append_assoc, List.drop_left' h1]
    have h2 : (((pix.drop 1).take nd).take nd).length = nd := by simp; omega
    rw [List.take_left' h2]; simp [List.take_take]
  · simp only [fromHeaderPix, setZoomsPix]
    have h1 : ((setShapePix F nd pix).take 1).length = 1 := by simp [setShapePix]; omega
    rw [List.append_assoc, List.take_left' h1]
    simp only [setShapePix]
    rw [List.take_append_of_le_length (by simp; omega)]; simp [List.take_take]
  · simp [fromHeaderPix, setZoomsPix, setShapePix, getZooms]; omega

example : ([5, 6, 7, 8, 1, 1, 1, 1] : List Nat).length = 8 ∧ (2 : Nat) ≤ 7 := by decide

/- OPEN FINDING `fromhdr:pixdim-beyond-ndim-reset` (not repaired in /repo): full statement that does
   NOT hold —  `fromHeaderPix F nd pix = pix`  (every same-named field, here pixdim, preserved).
   What holds is `from_header_preserves_zooms` above; the witness below shows the loss. -/
/-- A 2-D NIfTI header whose qform gave pixdim[3] = 3.25 (0x40500000) loses it in the conversion:
    the entries after `ndim` are reset to 1.0, which changes the qform affine. -/
theorem from_header_pixdim_beyond_ndim_counterexample :
    fromHeaderPix fmt32 2 [0x3F800000, 0x40000000, 0x3FC00000, 0x40500000, 0x3F800000, 0x3F800000, 0x3F800000, 0x3F800000]
      ≠ [0x3F800000, 0x40000000, 0x3FC00000, 0x40500000, 0x3F800000, 0x3F800000, 0x3F800000, 0x3F800000] := by
  decide

/-! ### D'''. from_header on ALL fields

  `fromHeaderVals` models `klass.from_header(src, check=False)` for a source of another class over
  arbitrary source/target layouts; `cast` (NumPy's assignment cast between two field types) and `g` (the
  values the setters compute) are arbitrary.  The theorem says EXACTLY where every target field comes from:
  * a field named in `overwrittenSlots` (datatype, bitpix, dim, pixdim; magic for NIfTI targets) holds
    what the setters wrote (`from_header_preserves_zooms` / the open finding describe pixdim);
  * any other field with a same-named, assignable source field holds the cast of the source value —
    preserved;
  * any other field keeps the target default. -/
theorem from_header_preserves (cast : Field → Field → List Nat → List Nat) (Ls Ld : Layout)
    (niftiTarget : Bool) (src dflt : List (List Nat)) (g : String → List Nat)
    (hnS : namesDistinct Ls = true) (hs : src.length = Ls.fields.length)
    (hd : dflt.length = Ld.fields.length) (fd : Field) (hfd : findFs Ld.fields fd.name = some fd) :
    match provOf Ls niftiTarget fd with
    | .overwritten => getRaw Ld (fromHeaderVals cast Ls Ld niftiTarget src dflt g) fd.name = g fd.name
    | .copied => ∃ fs, findFs Ls.fields fd.name = some fs ∧
        getRaw Ld (fromHeaderVals cast Ls Ld niftiTarget src dflt g) fd.name = cast fs fd (getRaw Ls src fd.name)
    | .default => getRaw Ld (fromHeaderVals cast Ls Ld niftiTarget src dflt g) fd.name = getRaw Ld dflt fd.name := by
  have hnd : (Ls.fields.map (·.name)).Nodup := by simpa [namesDistinct] using hnS
  have hov : (overwrittenSlots niftiTarget).Nodup := by cases niftiTarget <;> decide
  unfold provOf
  by_cases ho : fd.name ∈ overwrittenSlots niftiTarget
  · simp only [ho, if_true]
    exact getRaw_setSlots_in Ld _ _ g fd.name hov ho (by rw [copyFs_length]; exact hd) fd hfd
  · simp only [ho, if_false]
    have hget : getRaw Ld (fromHeaderVals cast Ls Ld niftiTarget src dflt g) fd.name
        = copiedVal cast Ld Ls.fields src dflt fd.name := by
      unfold fromHeaderVals
      rw [getRaw_setSlots_notin Ld _ _ g fd.name ho]
      exact copyFs_get cast Ld Ls.fields src dflt fd.name hnd hd hs
    cases hfs : findFs Ls.fields fd.name with
    | none => simp only []; rw [hget]; simp [copiedVal, hfs]
    | some fs =>
      simp only []
      by_cases hc : castable fs fd = true
      · simp only [hc, if_true]
        exact ⟨fs, rfl, by rw [hget]; simp [copiedVal, hfs, hfd, hc, getRaw]⟩
      · simp only [hc, if_false]
        rw [hget]; simp [copiedVal, hfs, hfd, hc]

example : provOf Gen.nifti1 true ⟨"descrip", 240, 80, 1, .bytes⟩ = .copied ∧
    provOf Gen.nifti1 true ⟨"eol_check", 8, 1, 4, .int⟩ = .default ∧
    provOf Gen.nifti1 true ⟨"pixdim", 104, 8, 8, .float⟩ = .overwritten := by decide +kernel

/-! #### dtype, shape and zooms: the setter values are computed from the source -/

/-- The values the setters of `from_header` write are COMPUTED FROM THE SOURCE (`fromHeaderG?`); then reading
    the converted header back gives the source's dtype (same kind and itemsize, found in the TARGET code
    table, with the matching bitpix), the source's shape, and — for the pixdims — the source's zooms as the
    copy loop cast them, with qfac untouched. -/
theorem from_header_preserves_dtype_shape_zooms
    (cast : Field → Field → List Nat → List Nat) (cs cd : ClsSpec) (Ls Ld : Layout)
    (src dflt : List (List Nat)) (g : String → List Nat)
    (hd : dflt.length = Ld.fields.length)
    (hg : fromHeaderG? cs cd Ls Ld src (copyFs cast Ld Ls.fields src dflt) = some g)
    (fdt fbp fdim fpix : Field) (h1 : findFs Ld.fields "datatype" = some fdt)
    (h2 : findFs Ld.fields "bitpix" = some fbp) (h3 : findFs Ld.fields "dim" = some fdim)
    (h4 : findFs Ld.fields "pixdim" = some fpix)
    (hdimlen : (getInts Ls src "dim").length = 8) (h7 : (getInts Ls src "dim").getD 0 0 ≤ 7)
    (hpixlen : (getRaw Ld (copyFs cast Ld Ls.fields src dflt) "pixdim").length = 8)
    (htab : dtTableOk cd.dtTable = true)
    (hcodes : ∀ r ∈ cd.dtTable, intFits (fieldW Ld "datatype") r.code ∧
      intFits (fieldW Ld "bitpix") ((8 * r.isz : Nat) : Int))
    (hdimw : intFits (fieldW Ld "dim") 7 ∧ intFits (fieldW Ld "dim") 1) :
    let R := fromHeaderVals cast Ls Ld (!cd.singleMagic.isEmpty) src dflt g
    let dim := getInts Ls src "dim"
    let cp := getRaw Ld (copyFs cast Ld Ls.fields src dflt) "pixdim"
    (∃ rs rd, dtFind cs.dtTable ((getInts Ls src "datatype").getD 0 0) = some rs ∧
        dtFind cd.dtTable ((getInts Ld R "datatype").getD 0 0) = some rd ∧
        rd.kind = rs.kind ∧ rd.isz = rs.isz ∧ rs.isz ≠ 0 ∧
        (getInts Ld R "bitpix").getD 0 0 = ((8 * rs.isz : Nat) : Int)) ∧
    getShape (getInts Ld R "dim") = getShape dim ∧
    getZooms (getShape dim).length (getRaw Ld R "pixdim") = srcZooms cd.pixFmt dim cp ∧
    (getRaw Ld R "pixdim").take 1 = cp.take 1 := by
  intro R dim cp
  have hov : (overwrittenSlots (!cd.singleMagic.isEmpty)).Nodup := by
    cases (!cd.singleMagic.isEmpty) <;> decide
  have hin : ∀ n ∈ ["datatype", "bitpix", "dim", "pixdim"], n ∈ overwrittenSlots (!cd.singleMagic.isEmpty) := by
    intro n hn; unfold overwrittenSlots; exact List.mem_append_left _ hn
  have hlen : (copyFs cast Ld Ls.fields src dflt).length = Ld.fields.length := by
    rw [copyFs_length]; exact hd
  obtain ⟨k, bp, hconv, hfit, gdt, gbp, gdim, gpix⟩ := fromHeaderG?_some cs cd Ls Ld src _ g hg
  have hRdt : getInts Ld R "datatype" = (g "datatype").map (toInt (fieldW Ld "datatype")) :=
    getInts_setSlots_in Ld _ _ g "datatype" hov (hin _ (by simp)) hlen fdt h1
  have hRbp : getInts Ld R "bitpix" = (g "bitpix").map (toInt (fieldW Ld "bitpix")) :=
    getInts_setSlots_in Ld _ _ g "bitpix" hov (hin _ (by simp)) hlen fbp h2
  have hRdim : getInts Ld R "dim" = (g "dim").map (toInt (fieldW Ld "dim")) :=
    getInts_setSlots_in Ld _ _ g "dim" hov (hin _ (by simp)) hlen fdim h3
  have hRpix : getRaw Ld R "pixdim" = g "pixdim" :=
    getRaw_setSlots_in Ld _ _ g "pixdim" hov (hin _ (by simp)) hlen fpix h4
  have hsl := getShape_length (getInts Ls src "dim") hdimlen h7
  have hcpl : cp.length = 8 := hpixlen
  have ha : ((setShapePix cd.pixFmt (getShape (getInts Ls src "dim")).length cp).take 1).length = 1 := by
    simp [setShapePix]; omega
  refine ⟨?_, ?_, ?_, ?_⟩
  · obtain ⟨rs, hrs, hz, hk, hbp⟩ := convDtype?_some _ _ _ _ _ hconv
    obtain ⟨rd, hrd, hkind, hisz, hmem⟩ := dtCodeOf_find cd.dtTable htab _ _ _ hk
    have hc := hcodes rd hmem
    have hcode : rd.code = k := by
      simp only [dtFind] at hrd
      have := List.find?_some hrd
      simpa using this
    refine ⟨rs, rd, hrs, ?_, hkind, hisz, hz, ?_⟩
    · rw [hRdt, gdt]
      simp only [List.map_cons, List.map_nil, List.getD_cons_zero]
      rw [toInt_ofInt _ _ (hcode ▸ hc.1)]; exact hrd
    · rw [hRbp, gbp]
      simp only [List.map_cons, List.map_nil, List.getD_cons_zero]
      rw [hbp, toInt_ofInt _ _ (hisz ▸ hc.2)]
  · rw [hRdim, gdim, List.map_map]
    have hall : ∀ x ∈ setShapeDim (getShape (getInts Ls src "dim")), intFits (fieldW Ld "dim") x := by
      intro x hx
      simp only [setShapeDim, List.mem_cons, List.mem_append, List.mem_replicate] at hx
      rcases hx with (rfl | hx) | ⟨_, rfl⟩
      · have := hdimw.1
        unfold intFits at this ⊢
        constructor <;> omega
      · exact (fitsInt_iff _ _).mp (hfit x hx)
      · exact hdimw.2
    have hid : (setShapeDim (getShape (getInts Ls src "dim"))).map
        (toInt (fieldW Ld "dim") ∘ ofInt (fieldW Ld "dim")) = setShapeDim (getShape (getInts Ls src "dim")) := by
      conv => rhs; rw [← List.map_id (setShapeDim _)]
      apply List.map_congr_left
      intro x hx
      exact toInt_ofInt _ _ (hall x hx)
    rw [hid, getShape_setShapeDim _ hsl.1 hsl.2]
  · rw [hRpix, gpix]
    have hzl : (srcZooms cd.pixFmt (getInts Ls src "dim") cp).length = (getShape (getInts Ls src "dim")).length := by
      unfold srcZooms
      split
      · rename_i h0
        have : getShape (getInts Ls src "dim") = [0] := by unfold getShape; rw [h0]; rfl
        rw [this]; rfl
      · simp only [getZooms, List.length_take, List.length_drop]; omega
    show getZooms _ (fromHeaderPixG cd.pixFmt (getInts Ls src "dim") cp) = _
    simp only [fromHeaderPixG, setZoomsPix, getZooms]
    rw [List.append_assoc, List.drop_left' ha]
    have hz2 : ((srcZooms cd.pixFmt (getInts Ls src "dim") cp).take (getShape (getInts Ls src "dim")).length).length
        = (getShape (getInts Ls src "dim")).length := by simp [hzl]
    rw [List.take_left' hz2, List.take_of_length_le (by omega)]
  · rw [hRpix, gpix]
    show (fromHeaderPixG cd.pixFmt (getInts Ls src "dim") cp).take 1 = _
    simp only [fromHeaderPixG, setZoomsPix]
    rw [List.append_assoc, List.take_left' ha]
    simp only [setShapePix]
    rw [List.take_append_of_le_length (by simp; omega)]; simp [List.take_take]


/-- `g "pixdim"` of `fromHeaderG?` IS the `fromHeaderPix` of `from_header_preserves_zooms` and of the open-finding
    witness whenever the source has at least one dimension (for a 0-d source `get_zooms()` is `(1.0,)`). -/
theorem fromHeaderPixG_eq_fromHeaderPix (F : FloatFmt) (dim : List Int) (cp : List Nat)
    (h0 : dim.getD 0 0 ≠ 0) : fromHeaderPixG F dim cp = fromHeaderPix F (getShape dim).length cp := by
  unfold fromHeaderPixG fromHeaderPix srcZooms
  rw [if_neg h0]

example : ([3, 5, 6, 7, 1, 1, 1, 1] : List Int).getD 0 0 ≠ 0 := by decide

/- non-vacuity: NIfTI-1 -> NIfTI-2 for a 3-D int16 header with zooms (2, 1.5, 3.25) -/
example :
    let src := setRaw Gen.nifti1 (setRaw Gen.nifti1 (setRaw Gen.nifti1 (parse Gen.nifti1 .le (List.replicate 348 0))
      "datatype" [4]) "dim" [3, 5, 6, 7, 1, 1, 1, 1]) "pixdim" [0x3F800000, 0x40000000, 0x3FC00000, 0x40500000, 0, 0, 0, 0]
    let dflt := parse Gen.nifti2 .le (List.replicate 540 0)
    let cast : Field → Field → List Nat → List Nat := fun _ _ v => v
    (fromHeaderG? Gen.nifti1Cls Gen.nifti2Cls Gen.nifti1 Gen.nifti2 src (copyFs cast Gen.nifti2 Gen.nifti1.fields src dflt)).isSome = true ∧
    dflt.length = Gen.nifti2.fields.length ∧ (getInts Gen.nifti1 src "dim").length = 8 ∧
    (getRaw Gen.nifti2 (copyFs cast Gen.nifti2 Gen.nifti1.fields src dflt) "pixdim").length = 8 ∧
    dtTableOk Gen.nifti2Cls.dtTable = true ∧
    (∀ r ∈ Gen.nifti2Cls.dtTable, intFits (fieldW Gen.nifti2 "datatype") r.code ∧
      intFits (fieldW Gen.nifti2 "bitpix") ((8 * r.isz : Nat) : Int)) := by
  decide +kernel

/-- the side conditions of `from_header_preserves_dtype_shape_zooms` that concern the TARGET class hold for every
    Analyze-family class of the working tree: its layout has datatype / bitpix / dim / pixdim, its code table is
    consistent, every code and bitpix of the table is representable in its field, 7 and 1 fit a `dim` item -/
theorem from_header_targets_ok :
    ∀ c ∈ Gen.classes, c.guess = .bigEndian ∨ c.guess = .ecat ∨ ∃ L, Gen.layoutOf? c.layout = some L ∧
      (findFs L.fields "datatype").isSome ∧ (findFs L.fields "bitpix").isSome ∧
      (findFs L.fields "dim").isSome ∧ (findFs L.fields "pixdim").isSome ∧ dtTableOk c.dtTable = true ∧
      (∀ r ∈ c.dtTable, intFits (fieldW L "datatype") r.code ∧ intFits (fieldW L "bitpix") ((8 * r.isz : Nat) : Int)) ∧
      intFits (fieldW L "dim") 7 ∧ intFits (fieldW L "dim") 1 := by
  decide +kernel

/-- Over the regenerated layouts of the Analyze family: every same-named pair of fields is assignable
    (same bytes/numeric class and item count), so between any two classes EVERY same-named field other
    than the overwritten ones is `copied`; and the names are distinct as the theorem requires. -/
theorem from_header_fields_castable :
    ∀ s ∈ familyLayouts, ∀ d ∈ familyLayouts, allCastable s.1 d.1 = true ∧ namesDistinct s.1 = true := by
  decide +kernel

/-! ### E. obligations over the regenerated tables -/

/-- every header layout of the working tree tiles its block exactly: no gap, no overlap -/
theorem layouts_wf : ∀ L ∈ Gen.layouts, L.wf = true := by decide +kernel

/-- and has the size the source declares (sizeof_hdr 348 / 540, ECAT block 512, TRK 1000); the MGH
    record is header followed by footer and fits before the data offset 284 -/
theorem layouts_declared_sizes :
    (∀ p ∈ Gen.declared, p.1.size = p.2) ∧
    Gen.mgh.size = Gen.mghHeader.size + Gen.mghFooter.size ∧
    Gen.mgh.fields.map (·.name) = Gen.mghHeader.fields.map (·.name) ++ Gen.mghFooter.fields.map (·.name) ∧
    Gen.mghHeader.size ≤ Gen.mghDataOffset := by decide +kernel

theorem layouts_names_distinct : ∀ L ∈ Gen.layouts, namesDistinct L = true := by decide +kernel

/-- `make_dt_codes` tables: codes distinct, swapped dtype of the same kind and size with the opposite
    byte order exactly for multi-byte numeric types, dtype → code is the inverse of code → dtype on the
    non-void rows; the NIfTI-1 table extends the Analyze table; MGH types are big-endian with the
    declared bytes per voxel. -/
theorem dtcodes_consistent :
    dtTableOk Gen.analyzeCodes = true ∧ dtTableOk Gen.nifti1Codes = true ∧
    (∀ r ∈ Gen.analyzeCodes, dtFind Gen.nifti1Codes r.code = some r) ∧
    (Gen.mghCodes.map (·.1)).Nodup ∧ (∀ r ∈ Gen.mghCodes, r.2.2.1 = r.2.2.2.1 ∧ r.2.2.2.2 = true) := by
  decide +kernel

/-- `endian_codes`: spellings distinct; '<' / '>' mean themselves; 'native' / 'swapped' follow the
    machine order the table was generated on; both orders have at least three spellings -/
theorem endian_aliases_consistent :
    (Gen.endianAliases.map (·.1)).Nodup ∧
    endianOf? Gen.endianAliases "<" = some .le ∧ endianOf? Gen.endianAliases ">" = some .be ∧
    endianOf? Gen.endianAliases "native" = some Gen.nativeCode ∧
    endianOf? Gen.endianAliases "swapped" = some Gen.nativeCode.swap ∧
    3 ≤ (Gen.endianAliases.filter (·.2 == .le)).length ∧ 3 ≤ (Gen.endianAliases.filter (·.2 == .be)).length := by
  decide +kernel

/-- every header class: sane float format, 0 is a valid xform code, the single-file offset constant
    is the exact value of its stored pattern, battery without repeats, guess side conditions, layout
    exists and tiles -/
theorem classes_consistent : ∀ c ∈ Gen.classes, classOk c = true := by decide +kernel

end Nb.C10
