import NibabelModel.Model.C14
/-! Props/C14 — the property theorems for C14 (statements + proofs; helper lemmas live in Lemmas/). -/
namespace Nb.C14

end Nb.C14
