import NibabelModel.Model.C14
import NibabelModel.Lemmas.C14
import NibabelModel.Lemmas.C14_Progress
import NibabelModel.Lemmas.C14_Topo
import NibabelModel.Lemmas.C14_Handles
import NibabelModel.Lemmas.C14_Private
import NibabelModel.Generated.C14Src
import NibabelModel.Generated.C14Lock
import NibabelModel.Generated.C14Handle
import NibabelModel.Props.C06
/-! Props/C14 — the property theorems for C14 "concurrent reads through a shared file handle never mix up
    data" (statements + short proofs; the work is in Lemmas/C14.lean).

    Everything is UNBOUNDED: `State.threads : Tid → Thread` gives every natural number a thread (any number
    of them may have a non-empty program), programs are arbitrary lists of the locked shape `wf`, schedules
    are arbitrary lists of thread ids (any interleaving, any number of pre-emptions, grants to blocked or
    finished threads included). -/
namespace Nb.C14

/-- states reachable from an initial state (no lock held) whose programs all have the locked shape w.r.t.
    lock `L` -/
def Reachable (L : Nat) (file : List Byte) (s : State) : Prop :=
  ∃ (progs : Tid → List Action) (nh : Nat) (slot0 : Nat → Option Nat) (p0 : Nat → Nat) (sched : List Tid),
    (∀ t, wf L 0 false (progs t) = true) ∧ s = runS file (State.initS progs nh slot0 p0) sched

theorem inv_init (L : Nat) (progs : Tid → List Action) (nh : Nat) (slot0 : Nat → Option Nat) (p0 : Nat → Nat)
    (h : ∀ t, wf L 0 false (progs t) = true) : Inv L (State.initS progs nh slot0 p0) :=
  ⟨fun u => by simpa [State.initS, dep] using h u, fun u hu => by simp [State.initS] at hu⟩

/-- The lock-discipline invariant holds in every reachable state. -/
theorem inv_reachable (L : Nat) (file : List Byte) (s : State) (h : Reachable L file s) : Inv L s := by
  obtain ⟨progs, nh, slot0, p0, sched, hwf, rfl⟩ := h
  exact inv_runS L file sched _ (inv_init L progs nh slot0 p0 hwf)

def Action.isFileOp : Action → Bool
  | .seek _ => true | .seekEnd => true | .tell => true | .read _ => true | _ => false

/-- In every reachable state a thread whose NEXT action touches the file holds the lock (so at most one
    thread is ever inside a `seek … read` window). -/
theorem file_op_holds_lock (L : Nat) (file : List Byte) (s : State) (h : Reachable L file s)
    (u : Tid) (a : Action) (rest : List Action) (hp : (s.threads u).prog = a :: rest)
    (ha : a.isFileOp = true) : s.owner L = some u ∧ 1 ≤ s.count L := by
  have hi := inv_reachable L file s h
  have hu := hi.wf u
  rw [hp] at hu
  by_cases ho : s.owner L = some u
  · exact ⟨ho, hi.cnt u ho⟩
  · exfalso
    cases a <;> simp [Action.isFileOp] at ha <;> simp [wf, dep, ho] at hu

/-- `mutex_invariant`: thread `t` is about to `seek o` and then `read n`.  After its seek, let the OTHER
    threads run for as long and in whatever order they like (`others`: any list of thread ids ≠ t).
    Then `t` still holds the lock, the position of its handle is still `o`, none of the others' steps was a
    file operation, and `t`'s read returns exactly `file[o, o+n)`. -/
theorem mutex_invariant (L : Nat) (file : List Byte) (s : State) (h : Reachable L file s)
    (t : Tid) (o n : Nat) (rest : List Action)
    (hp : (s.threads t).prog = .seek o :: .read n :: rest)
    (others : List Tid) (hoth : ∀ u ∈ others, u ≠ t) :
    let s1 := (step file s t).1
    let s2 := runS file s1 others
    s2.owner L = some t ∧ s2.pos (s2.threads t).cur = o ∧
    (∀ x ∈ trace file s1 others, x.2.data = none) ∧
    (step file s2 t).2 = .read (s.threads t).cur n (slice file o n) := by
  intro s1 s2
  have hi := inv_reachable L file s h
  have hown := (file_op_holds_lock L file s h t _ _ hp rfl).1
  have hi1 : Inv L s1 := inv_step L file s hi t
  have e1 : s1 = { s with pos := upd s.pos (s.threads t).cur o,
                          threads := upd s.threads t { (s.threads t) with prog := .read n :: rest } } := by
    simp only [s1, step, hp]
  have hown1 : s1.owner L = some t := by rw [e1]; exact hown
  have f := frame_run L file t others s1 hi1 hown1 hoth
  have hth : s2.threads t = { (s.threads t) with prog := .read n :: rest } := by
    show (runS file s1 others).threads t = _
    rw [f.2.2.2.1, e1]; simp
  have hpos : s2.pos = upd s.pos (s.threads t).cur o := by
    show (runS file s1 others).pos = _
    rw [f.2.2.1, e1]
  refine ⟨f.1, ?_, f.2.2.2.2, ?_⟩
  · rw [hth, hpos]; simp
  · simp only [step, hth, hpos]; simp

/-- `reads_decompose` (the core of `reads_correct`): for EVERY schedule, the file events thread `t` has seen
    so far, followed by the single-threaded meaning of what `t` still has to do, equal the single-threaded
    meaning of `t`'s whole program. -/
theorem reads_decompose (L : Nat) (file : List Byte) (s : State) (h : Reachable L file s)
    (sched : List Tid) (t : Tid) :
    dataProj t (trace file s sched) ++
      solo file ((runS file s sched).pos ((runS file s sched).threads t).cur) ((runS file s sched).threads t).prog
    = solo file (s.pos (s.threads t).cur) (s.threads t).prog :=
  run_solo L file t sched s (inv_reachable L file s h)

/-- `reads_correct`: under any schedule and any number of threads, the sequence of seeks and reads (with the
    DATA each read returned) that thread `t` observes is a prefix of what it observes running alone. -/
theorem reads_correct (L : Nat) (file : List Byte) (s : State) (h : Reachable L file s)
    (sched : List Tid) (t : Tid) :
    dataProj t (trace file s sched) <+: solo file (s.pos (s.threads t).cur) (s.threads t).prog :=
  ⟨_, reads_decompose L file s h sched t⟩

/-- … and once `t` has finished it has observed exactly its single-threaded events. -/
theorem reads_complete (L : Nat) (file : List Byte) (s : State) (h : Reachable L file s)
    (sched : List Tid) (t : Tid) (hfin : ((runS file s sched).threads t).prog = []) :
    dataProj t (trace file s sched) = solo file (s.pos (s.threads t).cur) (s.threads t).prog := by
  have := reads_decompose L file s h sched t
  rw [hfin] at this
  simpa [solo] using this

/-- Each thread's result equals its single-threaded result: run the threads concurrently under ANY schedule
    `sched`, and run thread `t` entirely alone (all other programs empty) under any schedule `sched1`; if `t`
    finishes in both, it saw the same seeks and the same data in both. -/
theorem concurrent_eq_single_threaded (L : Nat) (file : List Byte) (progs : Tid → List Action) (nh : Nat)
    (p0 : Nat → Nat) (hwf : ∀ t, wf L 0 false (progs t) = true) (t : Tid) (sched sched1 : List Tid)
    (hfin : ((runS file (State.init progs nh p0) sched).threads t).prog = [])
    (hfin1 : ((runS file (State.init (fun u => if u = t then progs t else []) nh p0) sched1).threads t).prog = []) :
    dataProj t (trace file (State.init progs nh p0) sched) =
    dataProj t (trace file (State.init (fun u => if u = t then progs t else []) nh p0) sched1) := by
  have hwf1 : ∀ u, wf L 0 false ((fun u => if u = t then progs t else []) u) = true := by
    intro u; by_cases hu : u = t <;> simp [hu, hwf t, wf]
  have a := reads_complete L file (State.init progs nh p0) ⟨progs, nh, fun _ => none, p0, [], hwf, rfl⟩ sched t hfin
  have b := reads_complete L file (State.init (fun u => if u = t then progs t else []) nh p0)
    ⟨_, nh, fun _ => none, p0, [], hwf1, rfl⟩ sched1 t hfin1
  rw [a, b]
  simp [State.init, State.initS]

/-! ### the programs nibabel produces have the locked shape, and their single-threaded meaning is
    "every read returns `file[o, o+n)`" -/

/-- (glue lemma: simp-unfolding of the program shape `lockedSegs`; used by `wf_pieces`) -/
theorem wf_lockedSegs (L : Nat) (segs : List (Nat × Nat)) (p : List Action) :
    wf L 0 false (lockedSegs L segs ++ p) = wf L 0 false p := by
  induction segs with
  | nil => simp [lockedSegs]
  | cons sg r ih =>
    have : lockedSegs L (sg :: r) = [.acquire L, .seek sg.1, .read sg.2, .release L] ++ lockedSegs L r := by
      simp [lockedSegs]
    rw [this]
    simp only [lockedSegs] at ih
    simp [wf, lockedSegs, ih]

/-- (glue lemma: simp-unfolding of the program shape `lockedWhole`) -/
theorem wf_lockedWhole (L : Nat) (m r : Bool) (off n : Nat) (p : List Action) :
    wf L 0 false (lockedWhole L m r off n ++ p) = wf L 0 false p := by
  cases m <;> cases r <;> simp [lockedWhole, wf]

/-- (glue lemma: simp-unfolding of the program shape `getFileobjPersist`) -/
theorem wf_getFileobjPersist (L q : Nat) (p : List Action) :
    wf L 0 false (getFileobjPersist q ++ p) = wf L 0 false p := by
  simp [getFileobjPersist, wf, Action.slotOnly]

/-- (glue lemma) a per-read opener: the thread's fresh private handle must be positioned before it is read -/
theorem wf_getFileobjPerRead (L : Nat) (p : List Action) :
    wf L 0 false (getFileobjPerRead ++ p) = wf L 0 false p := by
  simp [getFileobjPerRead, wf]

/-- expected events of `read_segments`: for each segment a seek to its offset and a read that returns
    exactly that segment of the file -/
def segEvents (file : List Byte) (segs : List (Nat × Nat)) : List DEv :=
  segs.flatMap (fun sg => [.seek sg.1, .read sg.2 (slice file sg.1 sg.2)])

def segEnd (file : List Byte) (x : Nat) (segs : List (Nat × Nat)) : Nat :=
  segs.foldl (fun _ sg => sg.1 + (slice file sg.1 sg.2).length) x

/-- (glue lemma: the single-threaded meaning of `lockedSegs`, by unfolding `solo`) -/
theorem solo_lockedSegs (file : List Byte) (l : Nat) (segs : List (Nat × Nat)) (p : List Action) :
    ∀ x, solo file x (lockedSegs l segs ++ p) = segEvents file segs ++ solo file (segEnd file x segs) p := by
  induction segs with
  | nil => intro x; simp [lockedSegs, segEvents, segEnd]
  | cons sg r ih =>
    intro x
    have e : lockedSegs l (sg :: r) = [.acquire l, .seek sg.1, .read sg.2, .release l] ++ lockedSegs l r := by
      simp [lockedSegs]
    rw [e]
    simp only [List.cons_append, List.nil_append, solo]
    rw [ih]
    simp [segEvents, segEnd]

/-- expected events of the whole-array path -/
def wholeEvents (file : List Byte) (m r : Bool) (off n : Nat) : List DEv :=
  (if m then [.seekEnd, .tell file.length] else []) ++
  (if r then [.seek off, .read n (slice file off n)] else [])

/-- (glue lemma: the single-threaded meaning of `lockedWhole`, by unfolding `solo`) -/
theorem solo_lockedWhole (file : List Byte) (l : Nat) (m r : Bool) (off n : Nat) (p : List Action)
    (hp : wf l 0 false p = true) (x : Nat) :
    solo file x (lockedWhole l m r off n ++ p) = wholeEvents file m r off n ++ solo file 0 p := by
  cases m <;> cases r <;> simp [lockedWhole, wholeEvents, solo] <;> exact solo_indep l file p 0 _ _ hp

/-- one read request as nibabel executes it on a proxy whose lock is `L` over an open handle:
    through the proxy itself or through a `copy()` (whose `__init__` made the fresh lock `fresh`) -/
inductive Piece where
  | segs (viaCopy : Bool) (fresh : Nat) (segs : List (Nat × Nat))
  | whole (viaCopy : Bool) (fresh : Nat) (memmapTry reads : Bool) (off n : Nat)
  | openPersist (q : Nat)      -- `_get_fileobj` of proxy `q` (persistent opener slot `q`)
  | openPerRead                -- `_get_fileobj` of a name proxy without persistent opener: a private handle

def Piece.lock (L : Nat) (viaCopy : Bool) (fresh : Nat) : Nat := if viaCopy then copyLock true L fresh else L

def Piece.prog (L : Nat) : Piece → List Action
  | .segs c f sg => lockedSegs (Piece.lock L c f) sg
  | .whole c f m r off n => lockedWhole (Piece.lock L c f) m r off n
  | .openPersist q => getFileobjPersist q
  | .openPerRead => getFileobjPerRead

def Piece.events (file : List Byte) : Piece → List DEv
  | .segs _ _ sg => segEvents file sg
  | .whole _ _ m r off n => wholeEvents file m r off n
  | .openPersist _ => []
  | .openPerRead => []

/-- (definitional glue: `Piece.lock` hard-codes `copyLock true`; the statement about `copyLock` itself, for both
    values of `_has_fh()`, is `copyLock_cases`, and the statement about whole derivation histories is
    `same_lock_iff_copy_connected`.)  `copy()` of a proxy over an open handle uses the source's lock, whatever
    lock its constructor made -/
theorem copy_shares_lock (L fresh : Nat) (c : Bool) : Piece.lock L c fresh = L := by
  cases c <;> simp [Piece.lock, copyLock]

theorem wf_pieces (L : Nat) (ps : List Piece) : wf L 0 false (ps.flatMap (Piece.prog L)) = true := by
  induction ps with
  | nil => simp [wf]
  | cons a r ih =>
    simp only [List.flatMap_cons]
    cases a <;> simp only [Piece.prog, copy_shares_lock]
    · rw [wf_lockedSegs]; exact ih
    · rw [wf_lockedWhole]; exact ih
    · rw [wf_getFileobjPersist]; exact ih
    · rw [wf_getFileobjPerRead]; exact ih

theorem solo_pieces (L : Nat) (file : List Byte) (ps : List Piece) :
    ∀ x, solo file x (ps.flatMap (Piece.prog L)) = ps.flatMap (Piece.events file) := by
  induction ps with
  | nil => intro x; simp [solo]
  | cons a r ih =>
    intro x
    simp only [List.flatMap_cons]
    cases a <;> simp only [Piece.prog, Piece.events, copy_shares_lock]
    · rw [solo_lockedSegs, ih]
    · rw [solo_lockedWhole _ _ _ _ _ _ _ (wf_pieces L r), ih]
    · simp [getFileobjPersist, solo, ih]
    · simp [getFileobjPerRead, solo, ih]

/-- `nibabel_reads_correct`: ANY number of threads, each performing ANY list of read requests (sliced reads
    with any segment lists, whole-array reads, with or without the lazily opened persistent opener, through
    the proxy or through its `copy()`), under ANY schedule: every thread's seeks and reads are a prefix of
    "seek o; read n ↦ file[o, o+n)" for its own segments in its own order, and all of it once it finished. -/
theorem nibabel_reads_correct (L : Nat) (file : List Byte) (pieces : Tid → List Piece) (nh : Nat)
    (p0 : Nat → Nat) (sched : List Tid) (t : Tid) :
    let s0 := State.init (fun u => (pieces u).flatMap (Piece.prog L)) nh p0
    dataProj t (trace file s0 sched) <+: (pieces t).flatMap (Piece.events file) ∧
    (((runS file s0 sched).threads t).prog = [] →
      dataProj t (trace file s0 sched) = (pieces t).flatMap (Piece.events file)) := by
  intro s0
  have hr : Reachable L file s0 := ⟨_, nh, fun _ => none, p0, [], fun u => wf_pieces L (pieces u), rfl⟩
  have e : solo file (s0.pos (s0.threads t).cur) (s0.threads t).prog = (pieces t).flatMap (Piece.events file) := by
    simp only [s0, State.init]; exact solo_pieces L file (pieces t) _
  refine ⟨?_, fun hfin => ?_⟩
  · rw [← e]; exact reads_correct L file s0 hr sched t
  · rw [← e]; exact reads_complete L file s0 hr sched t hfin

/-! ### deadlock freedom and completion (progress) -/

theorem pinv_init (L Q : Nat) (progs : Tid → List Action) (nh : Nat) (p0 : Nat → Nat)
    (h : ∀ t, good L Q 0 false (progs t) = true) : PInv L Q (State.init progs nh p0) :=
  ⟨fun u => by simpa [State.init, State.initS, dep] using h u, fun u hu => by simp [State.init, State.initS] at hu⟩

/-- `no_deadlock`: programs that take only lock `L`, properly nested (RLock re-entrancy allowed), and read the
    opener slot `Q` (of the one proxy they go through; any `Q`) only after testing/filling it: in EVERY state reachable under ANY schedule, if some thread has
    not finished then some unfinished thread is enabled — its next step consumes one of its actions (it is not
    blocked on the lock, does not release a lock it does not own, does not find `_opener` missing).  A thread
    blocked on `acquire L` implies `L` is owned by a thread that is inside its critical section and can itself
    always step. -/
theorem no_deadlock (L Q : Nat) (file : List Byte) (progs : Tid → List Action) (nh : Nat) (p0 : Nat → Nat)
    (hg : ∀ t, good L Q 0 false (progs t) = true) (sched : List Tid) (u : Tid)
    (hu : ((runS file (State.init progs nh p0) sched).threads u).prog ≠ []) :
    ∃ v, ((runS file (State.init progs nh p0) sched).threads v).prog ≠ [] ∧
      Progresses file (runS file (State.init progs nh p0) sched) v :=
  progress L Q file _ (pinv_runS L Q file sched _ (pinv_init L Q progs nh p0 hg)) u hu

/-- `all_threads_complete`: `n` threads (all other programs empty); a schedule made of blocks, each block
    granting every thread `< n` at least one step (any order, any repetitions, other ids allowed), with at
    least as many blocks as there are actions in total: every thread finishes. -/
theorem all_threads_complete (L Q : Nat) (file : List Byte) (progs : Tid → List Action) (nh : Nat) (p0 : Nat → Nat)
    (n : Nat) (hg : ∀ t, good L Q 0 false (progs t) = true) (hb : ∀ t, n ≤ t → progs t = [])
    (blocks : List (List Tid)) (hfair : ∀ b ∈ blocks, ∀ t, t < n → t ∈ b)
    (hlen : work n (State.init progs nh p0) ≤ blocks.length) (t : Tid) :
    ((runS file (State.init progs nh p0) blocks.flatten).threads t).prog = [] := by
  have hb0 : Bounded n (State.init progs nh p0) := fun t ht => by simpa [State.init, State.initS] using hb t ht
  have h0 := fair_completes L Q file n blocks _ (pinv_init L Q progs nh p0 hg) hb0 hfair hlen
  by_cases ht : t < n
  · exact work_zero n _ h0 t ht
  · exact bounded_runS file n _ _ hb0 t (Nat.le_of_not_lt ht)

/-- round-robin `0,1,…,n-1` repeated `k ≥ total number of actions` times finishes every thread -/
theorem round_robin_completes (L Q : Nat) (file : List Byte) (progs : Tid → List Action) (nh : Nat)
    (p0 : Nat → Nat) (n k : Nat) (hg : ∀ t, good L Q 0 false (progs t) = true) (hb : ∀ t, n ≤ t → progs t = [])
    (hk : work n (State.init progs nh p0) ≤ k) (t : Tid) :
    ((runS file (State.init progs nh p0) (List.replicate k (List.range n)).flatten).threads t).prog = [] := by
  apply all_threads_complete L Q file progs nh p0 n hg hb
  · intro b hb' t ht; rw [List.eq_of_mem_replicate hb']; exact List.mem_range.mpr ht
  · simpa using hk

/-- completion AND correctness: under a fair schedule every thread finishes having seen exactly its
    single-threaded file events -/
theorem fair_run_correct (L Q : Nat) (file : List Byte) (progs : Tid → List Action) (nh : Nat) (p0 : Nat → Nat)
    (n : Nat) (hwf : ∀ t, wf L 0 false (progs t) = true) (hg : ∀ t, good L Q 0 false (progs t) = true)
    (hb : ∀ t, n ≤ t → progs t = [])
    (blocks : List (List Tid)) (hfair : ∀ b ∈ blocks, ∀ t, t < n → t ∈ b)
    (hlen : work n (State.init progs nh p0) ≤ blocks.length) (t : Tid) :
    dataProj t (trace file (State.init progs nh p0) blocks.flatten) = solo file (p0 0) (progs t) := by
  have hfin := all_threads_complete L Q file progs nh p0 n hg hb blocks hfair hlen t
  have := reads_complete L file (State.init progs nh p0) ⟨progs, nh, fun _ => none, p0, [], hwf, rfl⟩ blocks.flatten t hfin
  simpa [State.init, State.initS] using this

theorem good_lockedSegs (L Q : Nat) (ss : Bool) (segs : List (Nat × Nat)) (p : List Action) :
    good L Q 0 ss (lockedSegs L segs ++ p) = good L Q 0 ss p := by
  induction segs with
  | nil => simp [lockedSegs]
  | cons sg r ih =>
    have : lockedSegs L (sg :: r) = [.acquire L, .seek sg.1, .read sg.2, .release L] ++ lockedSegs L r := by
      simp [lockedSegs]
    rw [this]
    simp only [lockedSegs] at ih
    simp [good, lockedSegs, ih]

theorem good_lockedWhole (L Q : Nat) (ss m r : Bool) (off n : Nat) (p : List Action) :
    good L Q 0 ss (lockedWhole L m r off n ++ p) = good L Q 0 ss p := by
  cases m <;> cases r <;> simp [lockedWhole, good]

theorem good_getFileobjPersist (L Q : Nat) (ss : Bool) (p : List Action) :
    good L Q 0 ss (getFileobjPersist Q ++ p) = good L Q 0 true p := by
  simp [getFileobjPersist, good, Action.slotOnly]

theorem good_getFileobjPerRead (L Q : Nat) (ss : Bool) (p : List Action) :
    good L Q 0 ss (getFileobjPerRead ++ p) = good L Q 0 ss p := by
  simp [getFileobjPerRead, good]

/-- the persistent-opener pieces of a request list all use the opener slot `Q` (requests through ONE proxy) -/
def Piece.slotOk (Q : Nat) : Piece → Bool
  | .openPersist q => q == Q
  | _ => true

/-- (glue lemma: the `good` shape of the nibabel programs, by unfolding) -/
theorem good_pieces (L Q : Nat) (ps : List Piece) (hq : ∀ p ∈ ps, p.slotOk Q = true) :
    ∀ ss, good L Q 0 ss (ps.flatMap (Piece.prog L)) = true := by
  induction ps with
  | nil => intro ss; simp [good]
  | cons a r ih =>
    intro ss
    have ih := ih (fun p hp => hq p (by simp [hp]))
    have ha := hq a (by simp)
    simp only [List.flatMap_cons]
    cases a <;> simp only [Piece.prog, copy_shares_lock]
    · rw [good_lockedSegs]; exact ih ss
    · rw [good_lockedWhole]; exact ih ss
    · simp only [Piece.slotOk, beq_iff_eq] at ha
      subst ha
      rw [good_getFileobjPersist]; exact ih true
    · rw [good_getFileobjPerRead]; exact ih ss

/-- `nibabel_all_complete`: `n` threads performing any lists of nibabel read requests (sliced, whole-array,
    lazily opened persistent opener, through the proxy or its `copy()`): no deadlock is possible, and under
    every fair schedule with enough blocks every thread finishes, having read exactly `file[o, o+n)` for each
    of its segments, in order. -/
theorem nibabel_all_complete (L Q : Nat) (file : List Byte) (pieces : Tid → List Piece) (nh : Nat)
    (p0 : Nat → Nat) (n : Nat) (hb : ∀ t, n ≤ t → pieces t = []) (hq : ∀ t, ∀ p ∈ pieces t, p.slotOk Q = true)
    (blocks : List (List Tid)) (hfair : ∀ b ∈ blocks, ∀ t, t < n → t ∈ b)
    (hlen : work n (State.init (fun u => (pieces u).flatMap (Piece.prog L)) nh p0) ≤ blocks.length) (t : Tid) :
    let s0 := State.init (fun u => (pieces u).flatMap (Piece.prog L)) nh p0
    ((runS file s0 blocks.flatten).threads t).prog = [] ∧
    dataProj t (trace file s0 blocks.flatten) = (pieces t).flatMap (Piece.events file) := by
  intro s0
  have hfin := all_threads_complete L Q file (fun u => (pieces u).flatMap (Piece.prog L)) nh p0 n
    (fun u => good_pieces L Q (pieces u) (hq u) false) (fun u hu => by simp [hb u hu]) blocks hfair hlen t
  exact ⟨hfin, (nibabel_reads_correct L file pieces nh p0 blocks.flatten t).2 hfin⟩

/-! ### end to end: the arrays assembled from the reads a thread actually performed -/

def DEv.readData : DEv → Option (List Byte)
  | .read _ d => some d
  | _ => none

theorem readsOf_eq (t : Tid) (tr : List (Tid × Ev)) :
    readsOf t tr = (dataProj t tr).filterMap DEv.readData := by
  unfold readsOf dataProj
  rw [List.filterMap_filterMap]
  congr 1
  funext x
  by_cases hx : x.1 = t
  · simp only [hx, if_true]
    cases x.2 <;> simp [Ev.data, DEv.readData]
  · simp [hx]

/-- the read data a piece delivers single-threaded: `file[o, o+n)` per segment -/
def Piece.reads (file : List Byte) (p : Piece) : List (List Byte) := (p.events file).filterMap DEv.readData

theorem segEvents_reads (file : List Byte) (segs : List (Nat × Nat)) :
    (segEvents file segs).filterMap DEv.readData = segs.map (fun sg => slice file sg.1 sg.2) := by
  induction segs with
  | nil => simp [segEvents]
  | cons sg r ih =>
    simp only [segEvents, List.flatMap_cons] at ih ⊢
    simp only [List.cons_append, List.nil_append, List.filterMap_cons, DEv.readData, List.map_cons, ih]

theorem wholeEvents_reads (file : List Byte) (m r : Bool) (off n : Nat) :
    (wholeEvents file m r off n).filterMap DEv.readData = if r then [slice file off n] else [] := by
  cases m <;> cases r <;> simp [wholeEvents, List.filterMap_cons, DEv.readData]

theorem filterMap_flatMap_reads (file : List Byte) (ps : List Piece) :
    (ps.flatMap (Piece.events file)).filterMap DEv.readData = ps.flatMap (Piece.reads file) := by
  induction ps with
  | nil => rfl
  | cons a r ih => simp only [List.flatMap_cons, List.filterMap_append, ih, Piece.reads]

/-- a request as executed: its program pieces, the number of reads it performs and its decoder -/
structure Job where
  pieces : List Piece
  finish : List Byte → Res

def Job.reads (file : List Byte) (j : Job) : List (List Byte) := j.pieces.flatMap (Piece.reads file)

def Job.plan (L : Nat) (file : List Byte) (j : Job) : Plan :=
  ⟨j.pieces.flatMap (Piece.prog L), (j.reads file).length, j.finish⟩

/-- `results` hands every request exactly its own reads: when a thread delivered the single-threaded reads of
    its jobs, each job's decoder is applied to that job's own bytes -/
theorem results_jobs (L : Nat) (file : List Byte) (jobs : List Job) (extra : List (List Byte)) :
    results (jobs.map (Job.plan L file)) (jobs.flatMap (Job.reads file) ++ extra)
      = jobs.map (fun j => j.finish (j.reads file).flatten) := by
  induction jobs with
  | nil => simp [results]
  | cons j r ih =>
    simp only [List.map_cons, List.flatMap_cons, results, Job.plan, List.append_assoc]
    have h1 : ¬ ((j.reads file ++ (r.flatMap (Job.reads file) ++ extra)).length < (j.reads file).length) := by
      rw [List.length_append]; omega
    rw [if_neg h1, List.take_left', List.drop_left']
    · rw [ih]
    · rfl
    · rfl

/-- END-TO-END (concurrency part): any number of threads, thread `t` executes the jobs `jobs t`; under ANY
    schedule after which `t` has finished, the results assembled from the reads `t` actually performed are
    the decoders applied to the single-threaded bytes `file[o, o+n)` of each job's own segments. -/
theorem results_eq_single_threaded (L : Nat) (file : List Byte) (jobs : Tid → List Job) (nh : Nat)
    (p0 : Nat → Nat) (sched : List Tid) (t : Tid) :
    let s0 := State.init (fun u => (jobs u).flatMap (fun j => j.pieces.flatMap (Piece.prog L))) nh p0
    ((runS file s0 sched).threads t).prog = [] →
    results ((jobs t).map (Job.plan L file)) (readsOf t (trace file s0 sched))
      = (jobs t).map (fun j => j.finish (j.reads file).flatten) := by
  intro s0 hfin
  have hflat : ∀ u, (jobs u).flatMap (fun j => j.pieces.flatMap (Piece.prog L))
      = ((jobs u).flatMap (·.pieces)).flatMap (Piece.prog L) := by
    intro u; rw [List.flatMap_assoc]
  have h := (nibabel_reads_correct L file (fun u => (jobs u).flatMap (·.pieces)) nh p0 sched t).2
  simp only [← hflat] at h
  have h2 := h hfin
  rw [readsOf_eq, h2, filterMap_flatMap_reads, List.flatMap_assoc]
  have := results_jobs L file (jobs t) []
  rw [List.append_nil] at this
  exact this
/-- value of stored element `q` as `decodeLE` reads it back from the test file (`q mod 256^isz`) -/
def elemVal (isz q : Nat) : Nat :=
  ((List.range isz).map (fun b => (q / 256 ^ b) % 256 * 256 ^ b)).foldl (· + ·) 0

theorem foldl_add_zeros (l : List Nat) (h : ∀ x ∈ l, x = 0) : l.foldl (· + ·) 0 = 0 := by
  induction l with
  | nil => rfl
  | cons a r ih =>
    have ha : a = 0 := h a (by simp)
    subst ha
    simpa using ih (fun x hx => h x (by simp [hx]))

theorem elemVal_zero (isz : Nat) : elemVal isz 0 = 0 := by
  unfold elemVal
  apply foldl_add_zeros
  intro x hx
  simp only [List.mem_map] at hx
  obtain ⟨b, _, rfl⟩ := hx
  simp

/-- the bytes a sliced read delivers single-threaded -/
def segBytes (file : List Byte) (segs : List (Nat × Nat)) : List Byte :=
  (segs.map (fun sg => slice file sg.1 sg.2)).flatten

theorem plan_sliced (c : Cfg) (L : Nat) (idx : List Nb.C06.IdxItem) (d : Nb.C06.SliceDefs)
    (hw : isWhole idx c.shape = some false)
    (hcalc : Nb.C06.calcSlicedefs (Nb.C06.thresholdHeuristic Gen.skipThresh) idx c.shape c.isz c.off c.order = .ok d) :
    plan c ⟨L, false, some idx⟩ =
      ⟨openActs c ++ lockedSegs L (natSegs d), (natSegs d).length,
        finishSliced c d⟩ := by
  unfold plan
  simp only [hw, hcalc, wrapOuter]
  simp

theorem index_map {α β} [Inhabited α] [Inhabited β] (f : α → β) (hf : f default = default)
    (a : Nb.C06.NdArr α) (sels : List Nb.C06.Sel) :
    (Nb.C06.NdArr.index ⟨a.shape, a.data.map f⟩ sels) =
      ⟨(a.index sels).shape, (a.index sels).data.map f⟩ := by
  simp only [Nb.C06.NdArr.index, List.map_map]
  congr 1
  apply List.map_congr_left
  intro q _
  simp only [Function.comp, List.getD_eq_getElem?_getD, List.getElem?_map]
  cases a.data[q]? <;> simp [hf]

/-- END-TO-END (slicing part) — PARTIAL: the byte layer (how the file stores the elements and that
    `decodeLE` reads them back) enters as the two hypotheses `hbytes`/`hdec`; everything else — segments,
    read shape, post-slicing, C/F reordering, agreement with NumPy basic indexing — is proved by composing with
    C06 (`fileslice_threshold_eq_numpy`).  If NumPy indexing of the stored array gives shape `sh` and element
    numbers `l`, the decoder applied to the single-threaded bytes of the request's segments returns shape `sh`
    and the VALUES of exactly those elements. -/
theorem sliced_result_eq_numpy_partial (c : Cfg) (file : List Byte) (idx : List Nb.C06.IdxItem)
    (d : Nb.C06.SliceDefs) (k : Nat) (sh l : List Nat)
    (hv : ∀ s, Nb.C06.IdxItem.slice s ∈ idx → s.Valid) (hisz : 0 < c.isz)
    (hlen : c.off + c.isz * c.shape.prod ≤ c.flen)
    (hcalc : Nb.C06.calcSlicedefs (Nb.C06.thresholdHeuristic k) idx c.shape c.isz c.off c.order = .ok d)
    (hnp : Nb.C06.npIndex idx c.shape c.order = .ok (sh, l))
    (hbytes : (segBytes file (natSegs d)).length = d.readShape.foldl (· * ·) 1 * c.isz)
    (hdec : decodeLE c.isz (segBytes file (natSegs d))
              = (Nb.C06.segElems c.off c.isz d.segments).map (fun q => elemVal c.isz q.toNat)) :
    finishSliced c d (segBytes file (natSegs d)) = .ok sh (l.map (elemVal c.isz)) := by
  have hfs := Nb.C06.fileslice_threshold_eq_numpy k idx c.shape hv c.order c.isz c.off c.flen hisz hlen
  rw [hnp] at hfs
  unfold Nb.C06.fileslice at hfs
  rw [hcalc] at hfs
  simp only [bind, Except.bind, Except.map, pure, Except.pure] at hfs
  unfold finishSliced
  rw [if_neg (by simpa using hbytes), hdec]
  split at hfs
  · cases hfs
  · split at hfs
    · cases hfs
    · cases hps : Nb.C06.postSels d.post d.readShape with
      | error e => rw [hps] at hfs; cases hfs
      | ok sels =>
        rw [hps] at hfs
        simp only [Except.ok.injEq, Prod.mk.injEq] at hfs
        simp only []
        have hm := index_map (fun (q : Int) => elemVal c.isz q.toNat) (by simp [elemVal_zero])
          ⟨d.readShape, Nb.C06.segElems c.off c.isz d.segments⟩ sels
        simp only [] at hm
        rw [hm]
        simp only [hfs.1, hfs.2, List.map_map]
        congr 1

/-- a sliced read request as nibabel executes it (proxy lock `L`, optionally the lazily opened opener) -/
def slicedJob (c : Cfg) (d : Nb.C06.SliceDefs) : Job :=
  ⟨(if c.persist then [Piece.openPersist c.slotIx] else if c.perRead then [Piece.openPerRead] else [])
    ++ [Piece.segs false 0 (natSegs d)], finishSliced c d⟩

/-- (glue lemma, by unfolding `plan`) the job is exactly what the executable `plan` (the one the driver runs
    against the real code) produces -/
theorem slicedJob_plan (c : Cfg) (L : Nat) (file : List Byte) (idx : List Nb.C06.IdxItem) (d : Nb.C06.SliceDefs)
    (hw : isWhole idx c.shape = some false)
    (hcalc : Nb.C06.calcSlicedefs (Nb.C06.thresholdHeuristic Gen.skipThresh) idx c.shape c.isz c.off c.order = .ok d) :
    Job.plan L file (slicedJob c d) = plan c ⟨L, false, some idx⟩ := by
  rw [plan_sliced c L idx d hw hcalc]
  unfold Job.plan slicedJob Job.reads
  unfold openActs
  cases c.persist <;> cases c.perRead <;>
    simp [Piece.prog, Piece.lock, Piece.reads, Piece.events, segEvents_reads, natSegs]

theorem slicedJob_bytes (c : Cfg) (file : List Byte) (d : Nb.C06.SliceDefs) :
    ((slicedJob c d).reads file).flatten = segBytes file (natSegs d) := by
  unfold slicedJob Job.reads segBytes
  cases c.persist <;> cases c.perRead <;> simp [Piece.reads, Piece.events, segEvents_reads]

/-- a sliced request together with what NumPy indexing of the stored array gives for it -/
structure SReq where
  idx : List Nb.C06.IdxItem
  d   : Nb.C06.SliceDefs
  sh  : List Nat
  l   : List Nat

/-- the request is well-formed for configuration `c`; `hbytes`/`hdec` are the byte-layer hypotheses -/
structure SReq.OK (c : Cfg) (file : List Byte) (r : SReq) : Prop where
  hv : ∀ s, Nb.C06.IdxItem.slice s ∈ r.idx → s.Valid
  hw : isWhole r.idx c.shape = some false
  hcalc : Nb.C06.calcSlicedefs (Nb.C06.thresholdHeuristic Gen.skipThresh) r.idx c.shape c.isz c.off c.order = .ok r.d
  hnp : Nb.C06.npIndex r.idx c.shape c.order = .ok (r.sh, r.l)
  hbytes : (segBytes file (natSegs r.d)).length = r.d.readShape.foldl (· * ·) 1 * c.isz
  hdec : decodeLE c.isz (segBytes file (natSegs r.d))
          = (Nb.C06.segElems c.off c.isz r.d.segments).map (fun q => elemVal c.isz q.toNat)

/-- END-TO-END — PARTIAL (byte layer assumed, see `SReq.OK.hbytes/hdec`): ANY number of threads, each issuing
    ANY list of sliced read requests on one proxy (lock `L`) or its `copy()`, under ANY schedule: once thread
    `t` has finished, the arrays the driver's `results` assembles from the reads `t` ACTUALLY performed are,
    request by request, NumPy basic indexing of the stored array: shape `sh`, element values `elemVal (l[i])`.
    Composition of `nibabel_reads_correct` (C14) with `fileslice_threshold_eq_numpy` (C06). -/
theorem thread_results_eq_numpy_partial (c : Cfg) (L : Nat) (file : List Byte) (hisz : 0 < c.isz)
    (hlen : c.off + c.isz * c.shape.prod ≤ c.flen)
    (reqs : Tid → List SReq) (hok : ∀ u, ∀ r ∈ reqs u, r.OK c file) (nh : Nat) (p0 : Nat → Nat)
    (sched : List Tid) (t : Tid) :
    let s0 := State.init (fun u => ((reqs u).map (fun r => plan c ⟨L, false, some r.idx⟩)).flatMap (·.prog)) nh p0
    ((runS file s0 sched).threads t).prog = [] →
    results ((reqs t).map (fun r => plan c ⟨L, false, some r.idx⟩)) (readsOf t (trace file s0 sched))
      = (reqs t).map (fun r => Res.ok r.sh (r.l.map (elemVal c.isz))) := by
  intro s0 hfin
  have hplan : ∀ u, (reqs u).map (fun r => plan c ⟨L, false, some r.idx⟩)
      = ((reqs u).map (fun r => slicedJob c r.d)).map (Job.plan L file) := by
    intro u
    rw [List.map_map]
    apply List.map_congr_left
    intro r hr
    exact (slicedJob_plan c L file r.idx r.d (hok u r hr).hw (hok u r hr).hcalc).symm
  have hprog : (fun u => ((reqs u).map (fun r => plan c ⟨L, false, some r.idx⟩)).flatMap (·.prog))
      = (fun u => ((reqs u).map (fun r => slicedJob c r.d)).flatMap (fun j => j.pieces.flatMap (Piece.prog L))) := by
    funext u
    rw [hplan u, List.flatMap_map]
    rfl
  have key := results_eq_single_threaded L file (fun u => (reqs u).map (fun r => slicedJob c r.d)) nh p0 sched t
  simp only [← hprog] at key
  rw [hplan t, key hfin, List.map_map]
  apply List.map_congr_left
  intro r hr
  have o := hok t r hr
  simp only [Function.comp, slicedJob_bytes]
  show finishSliced c r.d (segBytes file (natSegs r.d)) = _
  exact sliced_result_eq_numpy_partial c file r.idx r.d Gen.skipThresh r.sh r.l o.hv hisz hlen o.hcalc o.hnp
    o.hbytes o.hdec


/-! ### what the lock buys: counterexamples for the broken disciplines (concrete 2-thread schedules) -/

def cexFile : List Byte := [10, 11, 12, 13, 14, 15, 16, 17]
/-- two threads over ONE open handle (handle 0) -/
def cexInit (p0 p1 : List Action) : State := State.init (fun t => [p0, p1].getD t []) 1

/-- `_NullLock` (acquire/release removed): thread 0 finishes, but its read at offset 0 returned the bytes at
    offset 4 — thread 1's seek slipped in between thread 0's seek and read. -/
theorem no_lock_counterexample :
    let p0 := unlocked (lockedSegs 0 [(0, 2)])
    let p1 := unlocked (lockedSegs 0 [(4, 2)])
    let s0 := cexInit p0 p1
    ((runS cexFile s0 [0, 1, 0, 1]).threads 0).prog = [] ∧
    dataProj 0 (trace cexFile s0 [0, 1, 0, 1]) = [.seek 0, .read 2 [14, 15]] ∧
    solo cexFile 0 p0 = [.seek 0, .read 2 [10, 11]] := by decide

/-- lock released between seek and read (seek and read in DIFFERENT critical sections): same failure -/
theorem split_lock_counterexample :
    let p0 := splitSegs 0 [(0, 2)]
    let p1 := splitSegs 0 [(4, 2)]
    let s0 := cexInit p0 p1
    ((runS cexFile s0 [0, 0, 0, 1, 1, 1, 0, 0, 0]).threads 0).prog = [] ∧
    dataProj 0 (trace cexFile s0 [0, 0, 0, 1, 1, 1, 0, 0, 0]) = [.seek 0, .read 2 [14, 15]] ∧
    solo cexFile 0 p0 = [.seek 0, .read 2 [10, 11]] ∧
    wf 0 0 false p0 = false := by decide

/-- `copy()` keeping the fresh lock of its constructor although it shares the handle (what `copyLock` would
    give with `hasFh = false`): the two proxies no longer exclude each other -/
theorem copy_new_lock_counterexample :
    let p0 := lockedSegs 0 [(0, 2)]
    let p1 := lockedSegs (copyLock false 0 1) [(4, 2)]
    let s0 := cexInit p0 p1
    ((runS cexFile s0 [0, 0, 1, 1, 0, 0]).threads 0).prog = [] ∧
    dataProj 0 (trace cexFile s0 [0, 0, 1, 1, 0, 0]) = [.seek 0, .read 2 [14, 15]] ∧
    solo cexFile 0 p0 = [.seek 0, .read 2 [10, 11]] := by decide

/-- OBSERVATION (outside property C14, which speaks of `copy()` only): `ArrayProxy.reshape()` builds a new
    proxy over the SAME `file_like` that keeps the fresh lock of its constructor (`reshapeLock`).  Modelled as
    a second lock on the same handle, a proxy and its reshaped twin do not exclude each other: thread 0
    (through the proxy, lock 0) seeks to 0, thread 1 (through the reshaped proxy, lock 1) seeks to 4, thread 0
    reads the bytes at 4. -/
theorem reshape_new_lock_counterexample :
    let p0 := lockedSegs 0 [(0, 2)]
    let p1 := lockedSegs (reshapeLock 0 1) [(4, 2)]
    let s0 := cexInit p0 p1
    ((runS cexFile s0 [0, 0, 1, 1, 0, 0]).threads 0).prog = [] ∧
    dataProj 0 (trace cexFile s0 [0, 0, 1, 1, 0, 0]) = [.seek 0, .read 2 [14, 15]] ∧
    solo cexFile 0 p0 = [.seek 0, .read 2 [10, 11]] ∧
    wf 0 0 false p1 = false := by decide

/-! ### non-vacuity: the hypotheses of the theorems above are satisfiable by concrete, non-trivial values -/

/-- a sliced read of two segments against a whole-array read through the copy, plus a thread that nests the
    lock (RLock re-entrancy) and uses the lazily opened persistent opener -/
def exProgs : Tid → List Action := fun t =>
  [lockedSegs 0 [(0, 2), (4, 2)],
   lockedWhole (copyLock true 0 1) true true 2 4,
   [.acquire 0] ++ getFileobjPersist 3 ++ lockedSegs 0 [(1, 3)] ++ [.release 0]].getD t []

theorem exProgs_wf : ∀ t, wf 0 0 false (exProgs t) = true := by
  intro t
  match t with
  | 0 => decide
  | 1 => decide
  | 2 => decide
  | _ + 3 => rfl

/-- a reachable state in the middle of a run: thread 0 holds the lock and is about to `seek 0; read 2`,
    thread 1 has already been blocked once -/
def exState : State := runS cexFile (State.init exProgs 1) [0, 1]

theorem exState_reachable : Reachable 0 cexFile exState := ⟨exProgs, 1, fun _ => none, fun _ => 0, [0, 1], exProgs_wf, rfl⟩

-- inv_reachable / file_op_holds_lock: hypotheses hold for `exState`, thread 0, whose next action is a seek
theorem exState_prog :
    (exState.threads 0).prog = .seek 0 :: .read 2 :: (.release 0 :: lockedSegs 0 [(4, 2)]) := by decide
example : exState.owner 0 = some 0 ∧ 1 ≤ exState.count 0 :=
  file_op_holds_lock 0 cexFile exState exState_reachable 0 _ _ exState_prog rfl

-- mutex_invariant: the other threads (1 and 2) run 5 steps between thread 0's seek and read
example : (step cexFile (runS cexFile (step cexFile exState 0).1 [1, 2, 1, 2, 2]) 0).2 = .read 0 2 [10, 11] :=
  (mutex_invariant 0 cexFile exState exState_reachable 0 0 2 _ exState_prog [1, 2, 1, 2, 2] (by decide)).2.2.2

-- reads_decompose / reads_correct / reads_complete: a schedule with pre-emptions and blocked grants after
-- which thread 0 has finished and has seen exactly its two segments
example : ((runS cexFile (State.init exProgs 1) [0, 0, 1, 2, 0, 1, 0, 0, 1, 0, 2, 0, 0]).threads 0).prog = [] ∧
    dataProj 0 (trace cexFile (State.init exProgs 1) [0, 0, 1, 2, 0, 1, 0, 0, 1, 0, 2, 0, 0]) =
      [.seek 0, .read 2 [10, 11], .seek 4, .read 2 [14, 15]] := by decide

-- concurrent_eq_single_threaded: its hypotheses hold for `exProgs`, t = 0, the schedule above and the
-- sequential schedule of thread 0 alone
example : ((runS cexFile (State.init (fun u => if u = 0 then exProgs 0 else []) 1)
    [0, 0, 0, 0, 0, 0, 0, 0]).threads 0).prog = [] := by decide

-- nibabel_reads_correct: pieces incl. a copy() read and the persistent opener
example : (([Piece.openPersist 3, .openPerRead, .segs true 5 [(0, 2), (4, 2)], .whole false 0 true true 2 4] : List Piece).flatMap
    (Piece.events cexFile)) =
    [.seek 0, .read 2 [10, 11], .seek 4, .read 2 [14, 15], .seekEnd, .tell 8, .seek 2, .read 4 [12, 13, 14, 15]] := by
  decide

-- solo_lockedWhole: its shape hypothesis on the continuation holds for a real continuation
example : wf 0 0 false (lockedSegs 0 [(1, 3)]) = true := by decide

-- with the lock in place the schedule of `no_lock_counterexample` is harmless: thread 1 is blocked
example : dataProj 0 (trace cexFile (cexInit (lockedSegs 0 [(0, 2)]) (lockedSegs 0 [(4, 2)]))
    [0, 0, 1, 0, 1, 0, 1, 1, 1, 1]) = [.seek 0, .read 2 [10, 11]] := by decide

-- progress theorems: `exProgs` (3 threads incl. nested lock + persistent opener) is `good`, bounded by 3
theorem exProgs_good : ∀ t, good 0 3 0 false (exProgs t) = true := by
  intro t
  match t with
  | 0 => decide
  | 1 => decide
  | 2 => decide
  | _ + 3 => rfl

theorem exProgs_bounded : ∀ t, 3 ≤ t → exProgs t = [] := by
  intro t ht
  match t, ht with
  | t + 3, _ => rfl

-- no_deadlock: a state in which thread 1 is blocked and thread 2 unfinished; thread 0 can step
example : ((runS cexFile (State.init exProgs 1) [0, 1, 1]).threads 1).prog ≠ [] := by decide
-- all_threads_complete / round_robin_completes / fair_run_correct: 24 actions in total, 24 rounds suffice
example : work 3 (State.init exProgs 1) = 24 := by decide
example : ∀ t, ((runS cexFile (State.init exProgs 1) (List.replicate 24 (List.range 3)).flatten).threads t).prog = [] :=
  round_robin_completes 0 3 cexFile exProgs 1 (fun _ => 0) 3 24 exProgs_good exProgs_bounded (by decide)
-- a fair block need not be round-robin
example : ∀ t, t < 3 → t ∈ [2, 7, 0, 0, 1] := by decide

-- end-to-end theorems: a concrete request satisfying every hypothesis (incl. the byte-layer ones) on the
-- driver's own test file `mkFile`: 3x2 little-endian u2 array at offset 4, request `[1:, 1]`
def exCfg : Cfg := { persist := false, mmap := false, order := .F, isz := 2, off := 4, flen := 18, shape := [3, 2] }
def exReq : SReq :=
  ⟨[.slice ⟨some 1, none, none⟩, .int 1],
   ⟨[⟨10, 6⟩], [3], [.slice ⟨some 1, some 3, some 1⟩]⟩, [2], [4, 5]⟩

theorem exReq_ok : exReq.OK exCfg (mkFile exCfg) := by
  refine ⟨?_, by decide, rfl, by decide, by decide, by decide⟩
  intro s hs
  simp only [exReq, List.mem_cons, Nb.C06.IdxItem.slice.injEq, reduceCtorEq, List.not_mem_nil, or_false] at hs
  subst hs; decide

example : (0 < exCfg.isz ∧ exCfg.off + exCfg.isz * exCfg.shape.prod ≤ exCfg.flen) ∧
    finishSliced exCfg exReq.d (segBytes (mkFile exCfg) (natSegs exReq.d)) = .ok [2] [4, 5] ∧
    [4, 5].map (elemVal exCfg.isz) = [4, 5] := by decide

/-! ### lock topology after sequences of copy() / reshape() / copy.copy() -/

/-- `copy()` (arrayproxy.py `copy`): the new proxy uses the SOURCE's lock iff `file_like` is an open handle
    (`_has_fh()`), else the lock its own constructor made — both cases. -/
theorem copyLock_cases (L fresh : Nat) : copyLock true L fresh = L ∧ copyLock false L fresh = fresh := by
  simp [copyLock]

/-- LOCK TOPOLOGY, any history: proxies are derived from one another by ANY sequence of `copy()`, `reshape()`
    and `copy.copy()`/unpickling over one open handle (each step from any already existing proxy).  Two of them
    use the same lock IF AND ONLY IF they are connected by `copy()` edges. -/
theorem same_lock_iff_copy_connected (ops : List POp) (hv : validOps 1 ops = true) (i j : Nat)
    (hi : i ≤ ops.length) (hj : j ≤ ops.length) :
    (proxyLocks true ops).getD i 0 = (proxyLocks true ops).getD j 0 ↔ CopyConn ops i j := by
  constructor
  · intro h
    have a := conn_to_lock ops hv i hi
    have b := conn_to_lock ops hv j hj
    rw [h] at a
    exact .trans a (.symm b)
  · exact lock_eq_of_conn ops hv

/-- a proxy made by `reshape()` or `copy.copy()`/unpickling shares its lock with NO proxy that existed before
    (whatever happens later in the history) — although it reads through the same handle -/
theorem noncopy_takes_new_lock (pre post : List POp) (op : POp) (hop : ∀ s, op ≠ .copy s) (i : Nat)
    (hi : i ≤ pre.length) :
    (proxyLocks true (pre ++ [op] ++ post)).getD i 0 ≠ (proxyLocks true (pre ++ [op] ++ post)).getD (pre.length + 1) 0 := by
  rw [proxyLocks_getD_prefix true (pre ++ [op]) i (by rw [List.length_append]; omega) post,
      proxyLocks_getD_prefix true (pre ++ [op]) (pre.length + 1) (by rw [List.length_append]; simp) post,
      proxyLocks_getD_snoc true pre op i hi, proxyLocks_getD_new]
  have hlt := proxyLocks_lt true pre i
  cases op with
  | copy s => exact absurd rfl (hop s)
  | reshape s => simp only [reshapeLock]; omega
  | setstate s => simp only [setstateLock]; omega

theorem flatMap_congr' {α β : Type} (l : List α) (f g : α → List β) (h : ∀ a ∈ l, f a = g a) :
    l.flatMap f = l.flatMap g := by
  induction l with
  | nil => rfl
  | cons a r ih =>
    simp only [List.flatMap_cons]
    rw [h a (by simp), ih (fun x hx => h x (by simp [hx]))]

/-- a read request through proxy number `who` of a derivation history -/
inductive RPiece where
  | segs (who : Nat) (segs : List (Nat × Nat))
  | whole (who : Nat) (memmapTry reads : Bool) (off n : Nat)

def RPiece.who : RPiece → Nat
  | .segs w _ => w
  | .whole w _ _ _ _ => w

/-- the program nibabel executes for it: the lock is the one `proxyLocks` assigns to that proxy -/
def RPiece.prog (locks : List Nat) : RPiece → List Action
  | .segs w sg => lockedSegs (locks.getD w 0) sg
  | .whole w m r off n => lockedWhole (locks.getD w 0) m r off n

def RPiece.events (file : List Byte) : RPiece → List DEv
  | .segs _ sg => segEvents file sg
  | .whole _ m r off n => wholeEvents file m r off n

def RPiece.toPiece : RPiece → Piece
  | .segs _ sg => .segs false 0 sg
  | .whole _ m r off n => .whole false 0 m r off n

theorem RPiece.prog_eq (locks : List Nat) (L : Nat) (p : RPiece) (h : locks.getD p.who 0 = L) :
    p.prog locks = Piece.prog L p.toPiece := by
  subst h
  cases p <;> simp [RPiece.prog, RPiece.toPiece, Piece.prog, Piece.lock, RPiece.who]

theorem RPiece.events_eq (file : List Byte) (p : RPiece) : p.events file = Piece.events file p.toPiece := by
  cases p <;> rfl

/-- `family_reads_correct`: ANY derivation history over one open handle, ANY number of threads, each performing
    ANY list of sliced / whole-array reads through ANY proxies of ONE copy()-family (all copy-connected to
    proxy `root`), under ANY schedule: every thread's seeks and reads are a prefix of — and once it finished,
    exactly — "seek o; read n ↦ file[o, o+n)" for its own segments in its own order. -/
theorem family_reads_correct (file : List Byte) (ops : List POp) (hv : validOps 1 ops = true) (root : Nat)
    (pieces : Tid → List RPiece)
    (hfam : ∀ u, ∀ p ∈ pieces u, CopyConn ops p.who root)
    (nh : Nat) (p0 : Nat → Nat) (sched : List Tid) (t : Tid) :
    let s0 := State.init (fun u => (pieces u).flatMap (RPiece.prog (proxyLocks true ops))) nh p0
    dataProj t (trace file s0 sched) <+: (pieces t).flatMap (RPiece.events file) ∧
    (((runS file s0 sched).threads t).prog = [] →
      dataProj t (trace file s0 sched) = (pieces t).flatMap (RPiece.events file)) := by
  intro s0
  have hprog : (fun u => (pieces u).flatMap (RPiece.prog (proxyLocks true ops)))
      = (fun u => ((pieces u).map RPiece.toPiece).flatMap (Piece.prog ((proxyLocks true ops).getD root 0))) := by
    funext u
    rw [List.flatMap_map]
    apply flatMap_congr'
    intro p hp
    exact RPiece.prog_eq _ _ p (lock_eq_of_conn ops hv (hfam u p hp))
  have hev : (pieces t).flatMap (RPiece.events file)
      = ((pieces t).map RPiece.toPiece).flatMap (Piece.events file) := by
    rw [List.flatMap_map]
    apply flatMap_congr'
    intro p _
    exact RPiece.events_eq file p
  have key := nibabel_reads_correct ((proxyLocks true ops).getD root 0) file
    (fun u => (pieces u).map RPiece.toPiece) nh p0 sched t
  simp only [← hprog] at key
  rw [hev]
  exact key

/-- `copy_family_reads_correct` (the property as stated): the proxies are the original and proxies obtained by
    ANY sequence of `copy()` calls (two copies of one proxy, a copy of a copy, …) over one open handle; reads
    through ANY of them, from any number of threads, under any schedule, are correct — no side condition. -/
theorem copy_family_reads_correct (file : List Byte) (ops : List POp)
    (hall : ∀ op ∈ ops, ∃ s, op = .copy s) (pieces : Tid → List RPiece)
    (nh : Nat) (p0 : Nat → Nat) (sched : List Tid) (t : Tid) :
    let s0 := State.init (fun u => (pieces u).flatMap (RPiece.prog (proxyLocks true ops))) nh p0
    dataProj t (trace file s0 sched) <+: (pieces t).flatMap (RPiece.events file) ∧
    (((runS file s0 sched).threads t).prog = [] →
      dataProj t (trace file s0 sched) = (pieces t).flatMap (RPiece.events file)) := by
  intro s0
  have hprog : (fun u => (pieces u).flatMap (RPiece.prog (proxyLocks true ops)))
      = (fun u => ((pieces u).map RPiece.toPiece).flatMap (Piece.prog 0)) := by
    funext u
    rw [List.flatMap_map]
    apply flatMap_congr'
    intro p _
    exact RPiece.prog_eq _ _ p (copy_only_lock_zero ops hall p.who)
  have hev : (pieces t).flatMap (RPiece.events file)
      = ((pieces t).map RPiece.toPiece).flatMap (Piece.events file) := by
    rw [List.flatMap_map]
    apply flatMap_congr'
    intro p _
    exact RPiece.events_eq file p
  have key := nibabel_reads_correct 0 file (fun u => (pieces u).map RPiece.toPiece) nh p0 sched t
  simp only [← hprog] at key
  rw [hev]
  exact key

/-- OBSERVATION (outside property C14): `copy.copy(proxy)` and unpickling go through `__setstate__`, which
    installs a NEW `RLock()` while the state dict — for `copy.copy` the very same handle object — is taken
    over (`setstateLock`).  Same failure as `reshape_new_lock_counterexample`: thread 0 (through the proxy,
    lock 0) seeks to 0, thread 1 (through the shallow copy, lock 1) seeks to 4, thread 0 reads the bytes
    at 4.  The correspondence streams `topo`/`random-topo` reproduce exactly this on the real code. -/
theorem setstate_new_lock_counterexample :
    let p0 := lockedSegs 0 [(0, 2)]
    let p1 := lockedSegs (setstateLock 0 1) [(4, 2)]
    let s0 := cexInit p0 p1
    ((runS cexFile s0 [0, 0, 1, 1, 0, 0]).threads 0).prog = [] ∧
    dataProj 0 (trace cexFile s0 [0, 0, 1, 1, 0, 0]) = [.seek 0, .read 2 [14, 15]] ∧
    solo cexFile 0 p0 = [.seek 0, .read 2 [10, 11]] ∧
    wf 0 0 false p1 = false := by decide

-- non-vacuity: a history with two copies, a copy of a copy, a reshape of a copy, a copy of the reshaped proxy
-- and a shallow copy; families {0,1,2,3}, {4,5}, {6}
def exOps : List POp := [.copy 0, .copy 0, .copy 1, .reshape 3, .copy 4, .setstate 0]
example : validOps 1 exOps = true ∧ proxyLocks true exOps = [0, 0, 0, 0, 4, 4, 6] ∧
    proxyLocks false exOps = [0, 1, 2, 3, 4, 5, 6] := by decide
-- same_lock_iff_copy_connected: proxies 3 and 2 are connected (3 -copy- 1 -copy- 0 -copy- 2) …
example : CopyConn exOps 3 2 :=
  .trans (.edge 2 1 rfl) (.trans (.edge 0 0 rfl) (.symm (.edge 1 0 rfl)))
-- … and proxies 5 and 0 are not (different locks)
example : ¬ CopyConn exOps 5 0 := fun h =>
  absurd ((same_lock_iff_copy_connected exOps (by decide) 5 0 (by decide) (by decide)).mpr h) (by decide)
-- noncopy_takes_new_lock: the reshape in `exOps` (pre = first three steps)
example : (proxyLocks true ([POp.copy 0, .copy 0, .copy 1] ++ [.reshape 3] ++ [.copy 4, .setstate 0])).getD 3 0 ≠
    (proxyLocks true ([POp.copy 0, .copy 0, .copy 1] ++ [.reshape 3] ++ [.copy 4, .setstate 0])).getD 4 0 :=
  noncopy_takes_new_lock _ _ _ (by intro s h; cases h) 3 (by decide)
-- family_reads_correct: reads through proxies 4 and 5 (the reshaped proxy and its copy), root 4
example : ∀ p ∈ [RPiece.segs 5 [(0, 2), (4, 2)], .whole 4 true true 2 4], CopyConn exOps p.who 4 := by
  intro p hp
  simp only [List.mem_cons, List.not_mem_nil, or_false] at hp
  rcases hp with rfl | rfl
  · exact .edge 4 4 rfl
  · exact .refl 4
-- copy_family_reads_correct: an all-copy history
example : ∀ op ∈ [POp.copy 0, .copy 0, .copy 1, .copy 3], ∃ s, op = .copy s := by
  intro op h
  simp only [List.mem_cons, List.not_mem_nil, or_false] at h
  rcases h with rfl | rfl | rfl | rfl <;> exact ⟨_, rfl⟩

/-! ### tie to the source: skeletons regenerated from the AST of the working tree -/

/-- SOURCE TIE: the lock/seek/read skeleton extracted from the AST of the current `fileslice.read_segments`
    (`Gen.readSegments`, regenerated on every run) IS the model's `lockedSegs`, for every segment list (the
    empty-list, single-segment and multi-segment branches of the source all collapse to it) … -/
theorem gen_readSegments_eq (l : Nat) (segs : List (Nat × Nat)) :
    Gen.readSegments (some l) segs = lockedSegs l segs := by
  unfold Gen.readSegments lockedSegs
  match segs with
  | [] => simp
  | [a] => simp [Gen.lockAcq, Gen.lockRel]
  | a :: b :: r => simp [Gen.lockAcq, Gen.lockRel]

/-- … and without a lock (`lock=None` → `_NullLock`) it is the `unlocked` program of
    `no_lock_counterexample`. -/
theorem gen_readSegments_nolock_eq (l : Nat) (segs : List (Nat × Nat)) :
    Gen.readSegments none segs = unlocked (lockedSegs l segs) := by
  have h : ∀ s : List (Nat × Nat), unlocked (lockedSegs l s) = s.flatMap (fun sg => [.seek sg.1, .read sg.2]) := by
    intro s
    induction s with
    | nil => rfl
    | cons a r ih =>
      have e : lockedSegs l (a :: r) = [.acquire l, .seek a.1, .read a.2, .release l] ++ lockedSegs l r := by
        simp [lockedSegs]
      rw [e]
      simp only [unlocked, List.filter_append] at ih ⊢
      rw [ih]
      simp [List.filter]
  rw [h]
  unfold Gen.readSegments
  match segs with
  | [] => simp
  | [a] => simp [Gen.lockAcq, Gen.lockRel]
  | a :: b :: r => simp [Gen.lockAcq, Gen.lockRel]

/-- SOURCE TIE: the lock rules extracted from `ArrayProxy.copy` / `__getstate__`+`__setstate__` / `reshape`
    are the model's `copyLock` / `setstateLock` / `reshapeLock` (on which the topology theorems rest). -/
theorem gen_lock_rules_eq :
    (∀ h s f, Gen.copyLock h s f = copyLock h s f) ∧ (∀ s f, Gen.setstateLock s f = setstateLock s f) ∧
    (∀ s f, Gen.reshapeLock s f = reshapeLock s f) := by
  refine ⟨fun h s f => ?_, fun s f => ?_, fun s f => ?_⟩
  · cases h <;> simp [Gen.copyLock, copyLock]
  · simp [Gen.setstateLock, setstateLock]
  · simp [Gen.reshapeLock, reshapeLock]

/-- the actions of `array_from_file` (hand model; `np.memmap` attempt, then `seek; readinto`) -/
def arrayFromFileActs (memmapTry reads : Bool) (off n : Nat) : List Action :=
  (if memmapTry then [.seekEnd, .tell] else []) ++ (if reads then [.seek off, .read n] else [])

/-- SOURCE TIE: the two branches of the current `ArrayProxy._get_unscaled` — whole-array: `_get_fileobj()`
    entered first, then the proxy lock around ALL of `array_from_file`; sliced: the proxy lock is handed to
    `fileslice`, which hands it to `read_segments` — compose to exactly the programs `plan` uses. -/
theorem gen_getUnscaled_eq (l : Nat) (pre : List Action) (m r : Bool) (off n : Nat) (segs : List (Nat × Nat)) :
    Gen.getUnscaledWhole l pre (arrayFromFileActs m r off n) = pre ++ lockedWhole l m r off n ∧
    Gen.getUnscaledSliced l pre (fun lk => Gen.readSegments (Gen.filesliceLock lk) segs) = pre ++ lockedSegs l segs := by
  constructor
  · simp [Gen.getUnscaledWhole, arrayFromFileActs, lockedWhole]
  · simp only [Gen.getUnscaledSliced, Gen.filesliceLock, gen_readSegments_eq]

example : Gen.readSegments (some 3) [(0, 2), (4, 2)] = lockedSegs 3 [(0, 2), (4, 2)] ∧
    Gen.readSegments (some 3) [(5, 1)] = [.acquire 3, .seek 5, .read 1, .release 3] := by decide


/-- SOURCE TIE (lexical lock discipline, regenerated from the working tree on every run).  The record
    extracted from the AST of `fileslice.py` / `arrayproxy.py` is EXACTLY the one the model and the theorems
    of this file assume:
    * `read_segments`: every `fileobj.seek/read` sits inside a `with lock:` block, each block is
      `seek` FOLLOWED by its `read` (single- and multi-segment branch), nothing outside a block;
    * the only other function of `fileslice.py` touching a file object is `_simple_fileslice` (unlocked; it is
      not called anywhere in the two modules — a benchmark helper); `arrayproxy.py` itself calls no file method;
    * `fileslice` hands its `lock` to `read_segments`; `_get_unscaled` calls `array_from_file` inside
      `with …, self._lock` and passes `lock=self._lock` to `fileslice` — and these are the only calls of the
      reading functions;
    * `copy()` builds a proxy over `self.file_like` whose lock is the source's iff `_has_fh()`; `reshape()`
      builds one over `self.file_like` with a fresh lock; `__init__`/`__setstate__` install a fresh lock; no other
      method constructs a proxy or assigns a lock.
    (The PROGRAM-level tie — that these blocks mean `lockedSegs`/`lockedWhole`/`copyLock` — is
    `gen_readSegments_eq`, `gen_getUnscaled_eq`, `gen_lock_rules_eq`.) -/
theorem lock_discipline_record :
    GenLock.filesliceSites =
      [("read_segments", "fileobj", "seek", true), ("read_segments", "fileobj", "read", true),
       ("read_segments", "fileobj", "seek", true), ("read_segments", "bytes", "write", true),
       ("read_segments", "fileobj", "read", true), ("read_segments", "bytes", "tell", false),
       ("_simple_fileslice", "fileobj", "seek", false), ("_simple_fileslice", "fileobj", "read", false)] ∧
    GenLock.arrayproxySites = [] ∧
    GenLock.readSegmentsBlocks = [["seek", "read"], ["seek", "read"]] ∧
    GenLock.readSegmentsOutside = [] ∧
    GenLock.filesliceCalls = [("fileslice", "read_segments", false, "lock")] ∧
    GenLock.arrayproxyCalls =
      [("ArrayProxy._get_unscaled", "array_from_file", true, "-"),
       ("ArrayProxy._get_unscaled", "fileslice", false, "self._lock")] ∧
    GenLock.lockAssigners =
      [("__init__", "-", "fresh"), ("copy", "self.file_like", "(if hasFh then src else fresh)"),
       ("__setstate__", "-", "fresh"), ("reshape", "self.file_like", "fresh")] := by
  decide
/-! ### byte layer: the length hypothesis discharged on the driver's test file -/

theorem foldl_mul_prod (l : List Nat) : ∀ a, l.foldl (· * ·) a = a * l.prod := by
  induction l with
  | nil => intro a; simp
  | cons x r ih => intro a; simp only [List.foldl_cons, List.prod_cons, ih]; rw [Nat.mul_assoc]

theorem body_length (isz : Nat) (f : Nat → Nat → Nat) : ∀ n,
    ((List.range n).flatMap (fun q => (List.range isz).map (fun b => f q b))).length = n * isz := by
  intro n
  induction n with
  | zero => simp
  | succ n ih =>
    rw [List.range_succ, List.flatMap_append, List.length_append, ih]
    simp [Nat.succ_mul]

theorem mkFile_length (c : Cfg) (hlen : c.off + c.isz * c.shape.prod ≤ c.flen) : (mkFile c).length = c.flen := by
  unfold mkFile
  simp only [List.length_append, List.length_map, List.length_range, body_length, foldl_mul_prod, Nat.one_mul]
  have : c.shape.prod * c.isz = c.isz * c.shape.prod := Nat.mul_comm _ _
  omega

theorem slice_length (file : List Byte) (o n : Nat) (h : o + n ≤ file.length) : (slice file o n).length = n := by
  unfold slice
  simp only [List.length_take, List.length_drop]
  omega

theorem slice_length_zero (file : List Byte) (o : Nat) : (slice file o 0).length = 0 := by
  unfold slice; simp

/-- BYTE LAYER, length half (`SReq.OK.hbytes` discharged): on the driver's test file, the bytes a sliced read
    delivers single-threaded are exactly `∏ read_shape · itemsize` long — every segment lies inside the file
    (C06 `reads_within_extent`), so no read is short. -/
theorem hbytes_mkFile (c : Cfg) (h : Nb.C06.Heuristic) (idx : List Nb.C06.IdxItem) (d : Nb.C06.SliceDefs)
    (hv : ∀ s, Nb.C06.IdxItem.slice s ∈ idx → s.Valid)
    (hlen : c.off + c.isz * c.shape.prod ≤ c.flen)
    (hcalc : Nb.C06.calcSlicedefs h idx c.shape c.isz c.off c.order = .ok d) :
    (segBytes (mkFile c) (natSegs d)).length = d.readShape.foldl (· * ·) 1 * c.isz := by
  have hw := Nb.C06.reads_within_extent h idx c.shape hv c.order c.isz c.off d hcalc
  have hfl := mkFile_length c hlen
  rw [foldl_mul_prod, Nat.one_mul, Nat.mul_comm, ← hw.2]
  unfold segBytes natSegs
  rw [List.length_flatten, List.map_map, List.map_map]
  congr 1
  apply List.map_congr_left
  intro sg hsg
  simp only [Function.comp]
  by_cases hz : sg.length = 0
  · rw [hz]; exact slice_length_zero _ _
  · have := hw.1 sg hsg hz
    apply slice_length
    rw [hfl]
    omega

/-- well-formedness of a sliced request on the driver's test file `mkFile c`; the ONLY byte-layer hypothesis left
    is `hdec` (that `decodeLE` reads the stored element numbers back from the segment bytes) — the length
    hypothesis `SReq.OK.hbytes` is now a theorem (`hbytes_mkFile`). -/
structure SReq.OKd (c : Cfg) (r : SReq) : Prop where
  hv : ∀ s, Nb.C06.IdxItem.slice s ∈ r.idx → s.Valid
  hw : isWhole r.idx c.shape = some false
  hcalc : Nb.C06.calcSlicedefs (Nb.C06.thresholdHeuristic Gen.skipThresh) r.idx c.shape c.isz c.off c.order = .ok r.d
  hnp : Nb.C06.npIndex r.idx c.shape c.order = .ok (r.sh, r.l)
  hdec : decodeLE c.isz (segBytes (mkFile c) (natSegs r.d))
          = (Nb.C06.segElems c.off c.isz r.d.segments).map (fun q => elemVal c.isz q.toNat)

theorem SReq.OKd.toOK (c : Cfg) (r : SReq) (hlen : c.off + c.isz * c.shape.prod ≤ c.flen) (h : r.OKd c) :
    r.OK c (mkFile c) :=
  ⟨h.hv, h.hw, h.hcalc, h.hnp, hbytes_mkFile c _ r.idx r.d h.hv hlen h.hcalc, h.hdec⟩

/-- END-TO-END on the driver's test file — PARTIAL, one byte-layer hypothesis fewer than
    `thread_results_eq_numpy_partial`: the file is the concrete `mkFile c` the driver and the harness use, the
    length of the bytes read is PROVED (`hbytes_mkFile`, from C06 `reads_within_extent`); what remains assumed is
    `SReq.OKd.hdec` (decoding the little-endian element bytes). -/
theorem thread_results_eq_numpy_mkFile_partial (c : Cfg) (L : Nat) (hisz : 0 < c.isz)
    (hlen : c.off + c.isz * c.shape.prod ≤ c.flen)
    (reqs : Tid → List SReq) (hok : ∀ u, ∀ r ∈ reqs u, r.OKd c) (nh : Nat) (p0 : Nat → Nat)
    (sched : List Tid) (t : Tid) :
    let s0 := State.init (fun u => ((reqs u).map (fun r => plan c ⟨L, false, some r.idx⟩)).flatMap (·.prog)) nh p0
    ((runS (mkFile c) s0 sched).threads t).prog = [] →
    results ((reqs t).map (fun r => plan c ⟨L, false, some r.idx⟩)) (readsOf t (trace (mkFile c) s0 sched))
      = (reqs t).map (fun r => Res.ok r.sh (r.l.map (elemVal c.isz))) :=
  thread_results_eq_numpy_partial c L (mkFile c) hisz hlen reqs
    (fun u r hr => (hok u r hr).toOK c r hlen) nh p0 sched t

-- non-vacuity: the example request satisfies `OKd` on `mkFile exCfg`
example : exReq.OKd exCfg := ⟨exReq_ok.hv, exReq_ok.hw, exReq_ok.hcalc, exReq_ok.hnp, exReq_ok.hdec⟩
example : exCfg.off + exCfg.isz * exCfg.shape.prod ≤ exCfg.flen := by decide

/-! ### handle / lock topology of families: "same handle ⇒ same lock" -/

/-- the family after a history, from the way the ORIGINAL proxy was made (`k`: over a caller-supplied handle
    object / a file name with / without persistent opener; `igz`: `.gz` name with indexed gzip) -/
def famOf (k : HKind) (igz : Bool) (ops : List HOp) : Fam := (Fam.root k).run igz ops

/-- HANDLE TOPOLOGY, any history (`copy()`, `reshape()`, `copy.copy()`/unpickling, further constructions on the
    same `file_like`, completed reads — each from any existing proxy, from any way of making the original):
    two proxies of ONE copy()-family whose reads can go through the same OS-level handle use the same lock. -/
theorem shared_handle_implies_shared_lock_family (k : HKind) (igz : Bool) (ops : List HOp)
    (hv : validHist igz (Fam.root k) ops = true) (i j : Nat)
    (hi : i < (famOf k igz ops).n) (hj : j < (famOf k igz ops).n)
    (hfam : (famOf k igz ops).fam i = (famOf k igz ops).fam j)
    (hh : (famOf k igz ops).handleOf i = (famOf k igz ops).handleOf j) :
    (famOf k igz ops).lock i = (famOf k igz ops).lock j :=
  finv_shared _ (finv_run igz ops _ (finv_root k) hv) i j hi hj hfam hh

/-- `shared_handle_implies_shared_lock`: every family reachable by `copy()` (of any existing proxy, any number
    of times, copies of copies), with reads in between (the state a proxy is in when copied) and — over a file
    name — further constructions: ANY two proxies whose reads can go through the same OS-level handle use the
    same lock.  This is the hypothesis the exclusion theorems (`Inv`: every file operation on the handle happens
    under ONE lock) need. -/
theorem shared_handle_implies_shared_lock (k : HKind) (igz : Bool) (ops : List HOp)
    (hv : validHist igz (Fam.root k) ops = true) (hc : ∀ op ∈ ops, op.copyLike k = true) (i j : Nat)
    (hi : i < (famOf k igz ops).n) (hj : j < (famOf k igz ops).n)
    (hh : (famOf k igz ops).handleOf i = (famOf k igz ops).handleOf j) :
    (famOf k igz ops).lock i = (famOf k igz ops).lock j := by
  unfold famOf at *
  have hI := finv_run igz ops _ (finv_root k) hv
  have hz := copyLike_fam_zero igz k ops (Fam.root k) (by simp [Fam.root])
    (fun _ i hi => by simp [Fam.root]) hv (by simp [Fam.root]) hc
  by_cases hk : k = .handle
  · exact finv_shared _ hI i j hi hj (by rw [hz.2 hk i hi, hz.2 hk j hj]) hh
  · have hki : (famOf k igz ops).kind i ≠ .handle := fun e => hk (by rw [← hz.1]; exact (hI.kindU i hi).1 e)
    have hkj : (famOf k igz ops).kind j ≠ .handle := fun e => hk (by rw [← hz.1]; exact (hI.kindU j hj).1 e)
    rw [hI.lockN i hi hki, hI.lockN j hj hkj]
    rcases handleOf_eq_name _ i j hki hkj hh with e | ⟨x, hoi, hoj⟩
    · exact e
    · exact oinj_run igz k ops _ (finv_root k) (oinj_root k) hv hc i j x hi hj hoi hoj

/-- over a file NAME the proxies of such a family never share a handle at all: different proxies, different
    OS-level handles (and every proxy has its own lock) -/
theorem name_family_handles_private (k : HKind) (igz : Bool) (ops : List HOp) (hk : k ≠ .handle)
    (hv : validHist igz (Fam.root k) ops = true) (hc : ∀ op ∈ ops, op.copyLike k = true) (i j : Nat)
    (hi : i < (famOf k igz ops).n) (hj : j < (famOf k igz ops).n)
    (hh : (famOf k igz ops).handleOf i = (famOf k igz ops).handleOf j) : i = j := by
  unfold famOf at *
  have hI := finv_run igz ops _ (finv_root k) hv
  have hz := copyLike_fam_zero igz k ops (Fam.root k) (by simp [Fam.root])
    (fun _ i hi => by simp [Fam.root]) hv (by simp [Fam.root]) hc
  have hki : (famOf k igz ops).kind i ≠ .handle := fun e => hk (by rw [← hz.1]; exact (hI.kindU i hi).1 e)
  have hkj : (famOf k igz ops).kind j ≠ .handle := fun e => hk (by rw [← hz.1]; exact (hI.kindU j hj).1 e)
  rcases handleOf_eq_name _ i j hki hkj hh with e | ⟨x, hoi, hoj⟩
  · exact e
  · exact oinj_run igz k ops _ (finv_root k) (oinj_root k) hv hc i j x hi hj hoi hoj

/-- what the other derivations do (observation, outside the property): `copy.copy()` of a keep_file_open proxy
    that has already been read from takes over the opener OBJECT under a NEW lock -/
theorem setstate_used_shares_handle_counterexample :
    let f := famOf .persist false [.use 0, .derive (.setstate 0)]
    f.handleOf 0 = f.handleOf 1 ∧ f.lock 0 ≠ f.lock 1 := by decide

/-- the copy()-families of the family model are the `CopyConn` classes of the derivation history -/
theorem family_iff_copy_connected (k : HKind) (igz : Bool) (ops : List POp) (hv : validOps 1 ops = true) (i j : Nat)
    (hi : i ≤ ops.length) (hj : j ≤ ops.length) :
    (famOf k igz (ops.map .derive)).fam i = (famOf k igz (ops.map .derive)).fam j ↔ CopyConn ops i j := by
  have h := fam_eq_proxyLocks igz k ops hv
  simp only at h
  unfold famOf
  rw [h.2.1 i hi, h.2.1 j hj]
  exact same_lock_iff_copy_connected ops hv i j hi hj

/-- HANDLE DISCIPLINE — a lexical fact about the CURRENT source of `arrayproxy.py`, re-extracted on every run
    (Generated/C14Handle.lean).  It is what the rules of the family model `Fam.step` are read off:
    * the ONLY place an `_opener` is created is `_get_fileobj` (`self._opener = ImageOpener(self.file_like, …)`,
      guarded by `hasattr(self, '_opener')`; `__del__` resets it): `copy()` and `reshape()` store no opener on the
      proxy they build (`Fam.step`: `opener := none`), so a persistent opener belongs to the proxy that created it;
    * `__getstate__` copies `self.__dict__` and drops `_lock` ONLY, `__setstate__` updates `__dict__` with it: an
      existing `_opener` is taken over by `copy.copy()`/unpickling (`Fam.step`: `opener := opener src`);
    * `copy()` constructs over `self.file_like` with `keep_file_open=self._keep_file_open` (same handle kind);
      `reshape()` constructs over `self.file_like` WITHOUT `keep_file_open` (`reshapeKind`);
    * `_should_keep_file_open`: a file-like never persists an opener; a name does iff `keep_file_open or
      (HAVE_INDEXED_GZIP and name ends with .gz)` (`HKind`, `igz`);
    * `_get_fileobj`: persistent → probe / create / yield `self._opener` (`getFileobjPersist`), else one
      `ImageOpener` per call inside a `with` (`getFileobjPerRead`). -/
theorem handle_discipline_record :
    GenHandle.openerStores =
      [("ArrayProxy.__del__", "self", "None"),
       ("ArrayProxy._get_fileobj", "self", "openers.ImageOpener(self.file_like, keep_open=self._keep_file_open)")] ∧
    GenHandle.openerLoads =
      [("ArrayProxy.__del__", "self"), ("ArrayProxy.__del__", "self"), ("ArrayProxy._get_fileobj", "self")] ∧
    GenHandle.dictUses =
      [("ArrayProxy.__getstate__", "self.__dict__"), ("ArrayProxy.__setstate__", "self.__dict__")] ∧
    GenHandle.attrCalls =
      [("ArrayProxy.__del__", "hasattr(self, '_opener')"), ("ArrayProxy._get_fileobj", "hasattr(self, '_opener')")] ∧
    GenHandle.statePops = ["_lock"] ∧
    GenHandle.ctorCalls =
      [("ArrayProxy.copy", ["self.file_like", "spec"],
        [("mmap", "self._mmap"), ("order", "self.order"), ("keep_file_open", "self._keep_file_open")]),
       ("ArrayProxy.reshape", [],
        [("file_like", "self.file_like"), ("spec", "(shape, self._dtype, self._offset, self._slope, self._inter)"),
         ("mmap", "self._mmap"), ("order", "self.order")])] ∧
    GenHandle.keepRule =
      ["if self._has_fh(): return (False, False)",
       "have_igzip = openers.HAVE_INDEXED_GZIP and self.file_like.endswith('.gz')",
       "persist_opener = keep_file_open or have_igzip",
       "return (keep_file_open, persist_opener)"] ∧
    GenHandle.initFlags =
      ["self.file_like = file_like",
       "self._keep_file_open, self._persist_opener = self._should_keep_file_open(keep_file_open)"] ∧
    GenHandle.getFileobj =
      ["if self._persist_opener: if not hasattr(self, '_opener'): self._opener = openers.ImageOpener(self.file_like, keep_open=self._keep_file_open) yield self._opener else: with openers.ImageOpener(self.file_like, keep_open=False) as opener: yield opener"] :=
  ⟨rfl, rfl, rfl, rfl, rfl, rfl, rfl, rfl, rfl⟩

/-! ### run time: the persistent openers stay private -/

theorem setOk_lockedSegs (L : Nat) (segs : List (Nat × Nat)) (p : List Action) :
    setOk false (lockedSegs L segs ++ p) = setOk false p := by
  induction segs with
  | nil => simp [lockedSegs]
  | cons sg r ih =>
    have : lockedSegs L (sg :: r) = [.acquire L, .seek sg.1, .read sg.2, .release L] ++ lockedSegs L r := by
      simp [lockedSegs]
    rw [this]
    simp only [lockedSegs] at ih
    simp [setOk, lockedSegs, ih]

theorem setOk_lockedWhole (L : Nat) (m r : Bool) (off n : Nat) (p : List Action) :
    setOk false (lockedWhole L m r off n ++ p) = setOk false p := by
  cases m <;> cases r <;> simp [lockedWhole, setOk]

/-- the programs of nibabel's read requests publish only handles they have just opened -/
theorem setOk_pieces (L : Nat) (ps : List Piece) : setOk false (ps.flatMap (Piece.prog L)) = true := by
  induction ps with
  | nil => simp [setOk]
  | cons a r ih =>
    simp only [List.flatMap_cons]
    cases a <;> simp only [Piece.prog]
    · rw [setOk_lockedSegs]; exact ih
    · rw [setOk_lockedWhole]; exact ih
    · simp [getFileobjPersist, setOk, headNotSet]
      cases hr : List.flatMap (Piece.prog L) r with
      | nil => simp [setOk]
      | cons b t => rw [hr] at ih; cases b <;> simp [setOk] at ih ⊢ <;> exact ih
    · simp only [getFileobjPerRead, List.cons_append, List.nil_append, setOk]; exact setOk_mono _ ih

/-- `no_new_handle_sharing`: ANY number of threads, ANY programs that publish only handles they have just opened
    (`setOk`), ANY schedule, from any initial contents `slot0` of the opener slots: whenever two different proxies
    hold the same persistent handle, they already held it when the threads started. -/
theorem no_new_handle_sharing (file : List Byte) (progs : Tid → List Action) (nh : Nat)
    (slot0 : Nat → Option Nat) (p0 : Nat → Nat) (hs : ∀ q h, slot0 q = some h → h < nh)
    (hp : ∀ t, setOk false (progs t) = true) (sched : List Tid) (p q h : Nat) (hpq : p ≠ q)
    (h1 : (runS file (State.initS progs nh slot0 p0) sched).slot p = some h)
    (h2 : (runS file (State.initS progs nh slot0 p0) sched).slot q = some h) :
    slot0 p = some h ∧ slot0 q = some h := by
  have hI := hinv_runS nh slot0 file sched _ (hinv_init progs nh slot0 p0 hs hp)
  rcases hI.priv p h h1 with ⟨a, b⟩ | ⟨a, b⟩
  · rcases hI.priv q h h2 with ⟨_, d⟩ | ⟨c, _⟩
    · exact ⟨b, d⟩
    · omega
  · exact absurd (b q h2) (fun e => hpq e.symm)

/-- `family_openers_stay_private`: topology + run time.  A family over a file name made by `copy()` (any
    number, copies of copies), reads in between and further constructions; any number of threads performing any
    read requests through any of its proxies; any schedule: in EVERY reachable state no two different proxies
    hold the same persistent handle. -/
theorem family_openers_stay_private (k : HKind) (igz : Bool) (ops : List HOp)
    (hv : validHist igz (Fam.root k) ops = true) (hc : ∀ op ∈ ops, op.copyLike k = true)
    (file : List Byte) (L : Tid → Nat) (pieces : Tid → List Piece) (p0 : Nat → Nat) (sched : List Tid)
    (p q h : Nat)
    (h1 : (runS file (State.initS (fun u => (pieces u).flatMap (Piece.prog (L u))) (famOf k igz ops).nopen
            (famOf k igz ops).opener p0) sched).slot p = some h)
    (h2 : (runS file (State.initS (fun u => (pieces u).flatMap (Piece.prog (L u))) (famOf k igz ops).nopen
            (famOf k igz ops).opener p0) sched).slot q = some h) : p = q := by
  unfold famOf at *
  have hI := finv_run igz ops _ (finv_root k) hv
  have hO := oinj_run igz k ops _ (finv_root k) (oinj_root k) hv hc
  by_cases hpq : p = q
  · exact hpq
  · have hs : ∀ x y, (famOf k igz ops).opener x = some y → y < (famOf k igz ops).nopen := by
      intro x y hx
      by_cases hx' : x < (famOf k igz ops).n
      · exact hI.openLt x y hx' hx
      · have := hI.openDom x (Nat.le_of_not_lt hx'); unfold famOf at hx; rw [this] at hx; cases hx
    have := no_new_handle_sharing file _ _ _ p0 hs (fun u => setOk_pieces (L u) (pieces u)) sched p q h hpq h1 h2
    have hpn : p < (famOf k igz ops).n := by
      by_cases hx' : p < (famOf k igz ops).n
      · exact hx'
      · have e := hI.openDom p (Nat.le_of_not_lt hx'); unfold famOf at this; rw [e] at this; cases this.1
    have hqn : q < (famOf k igz ops).n := by
      by_cases hx' : q < (famOf k igz ops).n
      · exact hx'
      · have e := hI.openDom q (Nat.le_of_not_lt hx'); unfold famOf at this; rw [e] at this; cases this.2
    exact hO p q h hpn hqn this.1 this.2

/-! non-vacuity -/
def exHist : List HOp := [.use 0, .derive (.copy 0), .derive (.copy 1), .use 2, .ctor, .derive (.copy 3)]
example : validHist false (Fam.root .persist) exHist = true ∧ (∀ op ∈ exHist, op.copyLike .persist = true) ∧
    (famOf .persist false exHist).n = 5 ∧
    (List.range 5).map (famOf .persist false exHist).lock = [0, 1, 2, 3, 4] ∧
    (List.range 5).map (famOf .persist false exHist).handleOf = [.opener 0, .priv 1, .opener 1, .priv 3, .priv 4] := by
  decide
-- over a handle object: one handle, one lock
example : validHist false (Fam.root .handle) [.use 0, .derive (.copy 0), .derive (.copy 1)] = true ∧
    (List.range 3).map (famOf .handle false [.use 0, .derive (.copy 0), .derive (.copy 1)]).lock = [0, 0, 0] ∧
    (famOf .handle false [.use 0, .derive (.copy 0), .derive (.copy 1)]).handleOf 0 =
      (famOf .handle false [.use 0, .derive (.copy 0), .derive (.copy 1)]).handleOf 2 := by decide
-- shared_handle_implies_shared_lock_family: a history with reshape / copy.copy in which proxies 2 and 3 are one family
example : let f := famOf .handle false [.derive (.reshape 0), .derive (.copy 1), .derive (.setstate 0), .derive (.copy 1)]
    f.fam 2 = f.fam 4 ∧ f.handleOf 2 = f.handleOf 4 ∧ f.lock 2 = f.lock 4 ∧ f.lock 0 ≠ f.lock 2 := by decide
-- no_new_handle_sharing / family_openers_stay_private: two threads through a keep_file_open proxy and its copy,
-- the double-open race included; the slots end up holding different handles
example : let s := runS cexFile (State.initS (fun t => [getFileobjPersist 0 ++ lockedSegs 0 [(0, 2)],
      getFileobjPersist 1 ++ lockedSegs 1 [(4, 2)], getFileobjPersist 0 ++ lockedSegs 0 [(2, 2)]].getD t []) 0
      (fun _ => none)) [0, 2, 0, 2, 1, 1, 1, 0, 2, 2, 0]
    s.slot 0 = some 1 ∧ s.slot 1 = some 2 := by decide
example : setOk false (getFileobjPersist 0 ++ lockedSegs 0 [(0, 2)]) = true := by decide
/-! ### proxies over a file NAME without a persistent opener (the default `keep_file_open=False`): every read has
    a handle of its own, so NO lock is needed at all -/

/-- `private_handle_reads_correct`: ANY number of threads, programs in which every file operation is on a handle the
    thread opened itself (`wfO`; they may take and release ANY locks, in any way, or none), ANY schedule: what
    thread `t` sees is a prefix of what it sees running alone, and all of it once it has finished. -/
theorem private_handle_reads_correct (file : List Byte) (progs : Tid → List Action) (nh : Nat)
    (slot0 : Nat → Option Nat) (p0 : Nat → Nat) (h : ∀ t, wfO false false (progs t) = true)
    (sched : List Tid) (t : Tid) :
    let s0 := State.initS progs nh slot0 p0
    dataProj t (trace file s0 sched) <+: solo file (p0 0) (progs t) ∧
    (((runS file s0 sched).threads t).prog = [] → dataProj t (trace file s0 sched) = solo file (p0 0) (progs t)) := by
  intro s0
  have key := run_solo_O file t sched s0 (oinv_init progs nh slot0 p0 h)
  have e : solo file (s0.pos (s0.threads t).cur) (s0.threads t).prog = solo file (p0 0) (progs t) := by
    simp [s0, State.initS]
  rw [e] at key
  refine ⟨⟨_, key⟩, fun hfin => ?_⟩
  rw [hfin] at key
  simpa [solo] using key

/-- one read request through a proxy on a file name without persistent opener, whose lock is `l` (any proxy of
    any family: the original, a `copy()`, a `reshape()`, a second construction — each has its own lock) -/
inductive NPiece where
  | segs (l : Nat) (segs : List (Nat × Nat))
  | whole (l : Nat) (memmapTry reads : Bool) (off n : Nat)

def NPiece.prog : NPiece → List Action
  | .segs l sg => getFileobjPerRead ++ lockedSegs l sg
  | .whole l m r off n => getFileobjPerRead ++ lockedWhole l m r off n

def NPiece.events (file : List Byte) : NPiece → List DEv
  | .segs _ sg => segEvents file sg
  | .whole _ m r off n => wholeEvents file m r off n

theorem wfO_lockedSegs (l : Nat) (segs : List (Nat × Nat)) (p : List Action) :
    ∀ e, wfO true e (lockedSegs l segs ++ p) = true ↔ wfO true (e || !segs.isEmpty) p = true := by
  induction segs with
  | nil => intro e; simp [lockedSegs]
  | cons sg r ih =>
    intro e
    have : lockedSegs l (sg :: r) = [.acquire l, .seek sg.1, .read sg.2, .release l] ++ lockedSegs l r := by
      simp [lockedSegs]
    rw [this]
    simp only [lockedSegs] at ih
    simp [wfO, lockedSegs, ih]

theorem wfO_npieces (ps : List NPiece) : ∀ b e, wfO b e (ps.flatMap NPiece.prog) = true := by
  induction ps with
  | nil => intro b e; simp [wfO]
  | cons a r ih =>
    intro b e
    simp only [List.flatMap_cons]
    cases a with
    | segs l sg =>
      simp only [NPiece.prog, getFileobjPerRead, List.cons_append, List.nil_append, wfO]
      rw [wfO_lockedSegs]; exact ih _ _
    | whole l m rd off n =>
      simp only [NPiece.prog, getFileobjPerRead, List.cons_append, List.nil_append, wfO]
      cases m <;> cases rd <;> simp [lockedWhole, wfO, ih]

theorem solo_npieces (file : List Byte) (ps : List NPiece) :
    ∀ x, solo file x (ps.flatMap NPiece.prog) = ps.flatMap (NPiece.events file) := by
  induction ps with
  | nil => intro x; simp [solo]
  | cons a r ih =>
    intro x
    simp only [List.flatMap_cons]
    cases a with
    | segs l sg =>
      simp only [NPiece.prog, NPiece.events, getFileobjPerRead, List.cons_append, List.nil_append, solo]
      rw [solo_lockedSegs, ih]
    | whole l m rd off n =>
      simp only [NPiece.prog, NPiece.events, getFileobjPerRead, List.cons_append, List.nil_append, solo]
      cases m <;> cases rd <;> simp [lockedWhole, wholeEvents, solo, ih]

/-- `name_family_reads_correct`: ANY number of threads, each performing ANY list of read requests (sliced or
    whole-array) through ANY proxies of ANY family over a file name without persistent opener — whatever lock each
    of these proxies uses — under ANY schedule: every thread's seeks and reads are a prefix of "seek o; read n ↦
    file[o, o+n)" for its own segments in its own order, and all of them once it has finished. -/
theorem name_family_reads_correct (file : List Byte) (pieces : Tid → List NPiece) (nh : Nat)
    (slot0 : Nat → Option Nat) (p0 : Nat → Nat) (sched : List Tid) (t : Tid) :
    let s0 := State.initS (fun u => (pieces u).flatMap NPiece.prog) nh slot0 p0
    dataProj t (trace file s0 sched) <+: (pieces t).flatMap (NPiece.events file) ∧
    (((runS file s0 sched).threads t).prog = [] →
      dataProj t (trace file s0 sched) = (pieces t).flatMap (NPiece.events file)) := by
  intro s0
  have h := private_handle_reads_correct file (fun u => (pieces u).flatMap NPiece.prog) nh slot0 p0
    (fun u => wfO_npieces (pieces u) false false) sched t
  simp only [solo_npieces] at h
  exact h

/-- the sliced plan of the executable model for such a proxy is one of these requests -/
theorem plan_perRead_sliced (c : Cfg) (L : Nat) (idx : List Nb.C06.IdxItem) (d : Nb.C06.SliceDefs)
    (hp : c.persist = false) (hr : c.perRead = true)
    (hw : isWhole idx c.shape = some false)
    (hcalc : Nb.C06.calcSlicedefs (Nb.C06.thresholdHeuristic Gen.skipThresh) idx c.shape c.isz c.off c.order = .ok d) :
    (plan c ⟨L, false, some idx⟩).prog = (NPiece.segs L (natSegs d)).prog := by
  rw [plan_sliced c L idx d hw hcalc]
  simp [openActs, hp, hr, NPiece.prog]

-- non-vacuity: three threads reading through three proxies with three DIFFERENT locks (and a thread that takes no
-- lock at all would do as well); thread 1 is pre-empted between its seek and its read by a seek of thread 0
example : let ps : Tid → List NPiece := fun t => [[NPiece.segs 0 [(0, 2), (4, 2)]], [.whole 1 true true 2 4],
      [.segs 2 [(1, 3)]]].getD t []
    let s0 := State.initS (fun u => (ps u).flatMap NPiece.prog) 0 (fun _ => none)
    dataProj 1 (trace cexFile s0 [1, 1, 1, 1, 1, 0, 0, 0, 2, 2, 2, 2, 2, 0, 1, 1]) =
      [.seekEnd, .tell 8, .seek 2, .read 4 [12, 13, 14, 15]] ∧
    ((runS cexFile s0 [1, 1, 1, 1, 1, 0, 0, 0, 2, 2, 2, 2, 2, 0, 1, 1]).threads 1).prog = [] := by decide
example : wfO false false ([Action.opn, .seek 3, .read 2]) = true ∧ wfO false false [Action.seek 3] = false := by decide
end Nb.C14
