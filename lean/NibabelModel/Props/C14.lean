import NibabelModel.Model.C14
import NibabelModel.Lemmas.C14
/-! Props/C14 — the property theorems for C14 "concurrent reads through a shared file handle never mix up
    data" (statements + short proofs; the work is in Lemmas/C14.lean).

    Everything is UNBOUNDED: `State.threads : Tid → Thread` gives every natural number a thread (any number
    of them may have a non-empty program), programs are arbitrary lists of the locked shape `wf`, schedules
    are arbitrary lists of thread ids (any interleaving, any number of pre-emptions, grants to blocked or
    finished threads included). -/
namespace Nb.C14

/-- states reachable from an initial state (no lock held) whose programs all have the locked shape w.r.t.
    lock `L` -/
def Reachable (L : Nat) (file : List Byte) (s : State) : Prop :=
  ∃ (progs : Tid → List Action) (nh : Nat) (p0 : Nat → Nat) (sched : List Tid),
    (∀ t, wf L 0 false (progs t) = true) ∧ s = runS file (State.init progs nh p0) sched

theorem inv_init (L : Nat) (progs : Tid → List Action) (nh : Nat) (p0 : Nat → Nat)
    (h : ∀ t, wf L 0 false (progs t) = true) : Inv L (State.init progs nh p0) :=
  ⟨fun u => by simpa [State.init, dep] using h u, fun u hu => by simp [State.init] at hu⟩

/-- The lock-discipline invariant holds in every reachable state. -/
theorem inv_reachable (L : Nat) (file : List Byte) (s : State) (h : Reachable L file s) : Inv L s := by
  obtain ⟨progs, nh, p0, sched, hwf, rfl⟩ := h
  exact inv_runS L file sched _ (inv_init L progs nh p0 hwf)

def Action.isFileOp : Action → Bool
  | .seek _ => true | .seekEnd => true | .tell => true | .read _ => true | _ => false

/-- In every reachable state a thread whose NEXT action touches the file holds the lock (so at most one
    thread is ever inside a `seek … read` window). -/
theorem file_op_holds_lock (L : Nat) (file : List Byte) (s : State) (h : Reachable L file s)
    (u : Tid) (a : Action) (rest : List Action) (hp : (s.threads u).prog = a :: rest)
    (ha : a.isFileOp = true) : s.owner L = some u ∧ 1 ≤ s.count L := by
  have hi := inv_reachable L file s h
  have hu := hi.wf u
  rw [hp] at hu
  by_cases ho : s.owner L = some u
  · exact ⟨ho, hi.cnt u ho⟩
  · exfalso
    cases a <;> simp [Action.isFileOp] at ha <;> simp [wf, dep, ho] at hu

/-- `mutex_invariant`: thread `t` is about to `seek o` and then `read n`.  After its seek, let the OTHER
    threads run for as long and in whatever order they like (`others`: any list of thread ids ≠ t).
    Then `t` still holds the lock, the position of its handle is still `o`, none of the others' steps was a
    file operation, and `t`'s read returns exactly `file[o, o+n)`. -/
theorem mutex_invariant (L : Nat) (file : List Byte) (s : State) (h : Reachable L file s)
    (t : Tid) (o n : Nat) (rest : List Action)
    (hp : (s.threads t).prog = .seek o :: .read n :: rest)
    (others : List Tid) (hoth : ∀ u ∈ others, u ≠ t) :
    let s1 := (step file s t).1
    let s2 := runS file s1 others
    s2.owner L = some t ∧ s2.pos (s2.threads t).cur = o ∧
    (∀ x ∈ trace file s1 others, x.2.data = none) ∧
    (step file s2 t).2 = .read (s.threads t).cur n (slice file o n) := by
  intro s1 s2
  have hi := inv_reachable L file s h
  have hown := (file_op_holds_lock L file s h t _ _ hp rfl).1
  have hi1 : Inv L s1 := inv_step L file s hi t
  have e1 : s1 = { s with pos := upd s.pos (s.threads t).cur o,
                          threads := upd s.threads t { (s.threads t) with prog := .read n :: rest } } := by
    simp only [s1, step, hp]
  have hown1 : s1.owner L = some t := by rw [e1]; exact hown
  have f := frame_run L file t others s1 hi1 hown1 hoth
  have hth : s2.threads t = { (s.threads t) with prog := .read n :: rest } := by
    show (runS file s1 others).threads t = _
    rw [f.2.2.2.1, e1]; simp
  have hpos : s2.pos = upd s.pos (s.threads t).cur o := by
    show (runS file s1 others).pos = _
    rw [f.2.2.1, e1]
  refine ⟨f.1, ?_, f.2.2.2.2, ?_⟩
  · rw [hth, hpos]; simp
  · simp only [step, hth, hpos]; simp

/-- `reads_decompose` (the core of `reads_correct`): for EVERY schedule, the file events thread `t` has seen
    so far, followed by the single-threaded meaning of what `t` still has to do, equal the single-threaded
    meaning of `t`'s whole program. -/
theorem reads_decompose (L : Nat) (file : List Byte) (s : State) (h : Reachable L file s)
    (sched : List Tid) (t : Tid) :
    dataProj t (trace file s sched) ++
      solo file ((runS file s sched).pos ((runS file s sched).threads t).cur) ((runS file s sched).threads t).prog
    = solo file (s.pos (s.threads t).cur) (s.threads t).prog :=
  run_solo L file t sched s (inv_reachable L file s h)

/-- `reads_correct`: under any schedule and any number of threads, the sequence of seeks and reads (with the
    DATA each read returned) that thread `t` observes is a prefix of what it observes running alone. -/
theorem reads_correct (L : Nat) (file : List Byte) (s : State) (h : Reachable L file s)
    (sched : List Tid) (t : Tid) :
    dataProj t (trace file s sched) <+: solo file (s.pos (s.threads t).cur) (s.threads t).prog :=
  ⟨_, reads_decompose L file s h sched t⟩

/-- … and once `t` has finished it has observed exactly its single-threaded events. -/
theorem reads_complete (L : Nat) (file : List Byte) (s : State) (h : Reachable L file s)
    (sched : List Tid) (t : Tid) (hfin : ((runS file s sched).threads t).prog = []) :
    dataProj t (trace file s sched) = solo file (s.pos (s.threads t).cur) (s.threads t).prog := by
  have := reads_decompose L file s h sched t
  rw [hfin] at this
  simpa [solo] using this

/-- Each thread's result equals its single-threaded result: run the threads concurrently under ANY schedule
    `sched`, and run thread `t` entirely alone (all other programs empty) under any schedule `sched1`; if `t`
    finishes in both, it saw the same seeks and the same data in both. -/
theorem concurrent_eq_single_threaded (L : Nat) (file : List Byte) (progs : Tid → List Action) (nh : Nat)
    (p0 : Nat → Nat) (hwf : ∀ t, wf L 0 false (progs t) = true) (t : Tid) (sched sched1 : List Tid)
    (hfin : ((runS file (State.init progs nh p0) sched).threads t).prog = [])
    (hfin1 : ((runS file (State.init (fun u => if u = t then progs t else []) nh p0) sched1).threads t).prog = []) :
    dataProj t (trace file (State.init progs nh p0) sched) =
    dataProj t (trace file (State.init (fun u => if u = t then progs t else []) nh p0) sched1) := by
  have hwf1 : ∀ u, wf L 0 false ((fun u => if u = t then progs t else []) u) = true := by
    intro u; by_cases hu : u = t <;> simp [hu, hwf t, wf]
  have a := reads_complete L file (State.init progs nh p0) ⟨progs, nh, p0, [], hwf, rfl⟩ sched t hfin
  have b := reads_complete L file (State.init (fun u => if u = t then progs t else []) nh p0)
    ⟨_, nh, p0, [], hwf1, rfl⟩ sched1 t hfin1
  rw [a, b]
  simp [State.init]

/-! ### the programs nibabel produces have the locked shape, and their single-threaded meaning is
    "every read returns `file[o, o+n)`" -/

theorem wf_lockedSegs (L : Nat) (segs : List (Nat × Nat)) (p : List Action) :
    wf L 0 false (lockedSegs L segs ++ p) = wf L 0 false p := by
  induction segs with
  | nil => simp [lockedSegs]
  | cons sg r ih =>
    have : lockedSegs L (sg :: r) = [.acquire L, .seek sg.1, .read sg.2, .release L] ++ lockedSegs L r := by
      simp [lockedSegs]
    rw [this]
    simp only [lockedSegs] at ih
    simp [wf, lockedSegs, ih]

theorem wf_lockedWhole (L : Nat) (m r : Bool) (off n : Nat) (p : List Action) :
    wf L 0 false (lockedWhole L m r off n ++ p) = wf L 0 false p := by
  cases m <;> cases r <;> simp [lockedWhole, wf]

theorem wf_getFileobjPersist (L : Nat) (p : List Action) :
    wf L 0 false (getFileobjPersist ++ p) = wf L 0 false p := by
  simp [getFileobjPersist, wf, Action.slotOnly]

/-- expected events of `read_segments`: for each segment a seek to its offset and a read that returns
    exactly that segment of the file -/
def segEvents (file : List Byte) (segs : List (Nat × Nat)) : List DEv :=
  segs.flatMap (fun sg => [.seek sg.1, .read sg.2 (slice file sg.1 sg.2)])

def segEnd (file : List Byte) (x : Nat) (segs : List (Nat × Nat)) : Nat :=
  segs.foldl (fun _ sg => sg.1 + (slice file sg.1 sg.2).length) x

theorem solo_lockedSegs (file : List Byte) (l : Nat) (segs : List (Nat × Nat)) (p : List Action) :
    ∀ x, solo file x (lockedSegs l segs ++ p) = segEvents file segs ++ solo file (segEnd file x segs) p := by
  induction segs with
  | nil => intro x; simp [lockedSegs, segEvents, segEnd]
  | cons sg r ih =>
    intro x
    have e : lockedSegs l (sg :: r) = [.acquire l, .seek sg.1, .read sg.2, .release l] ++ lockedSegs l r := by
      simp [lockedSegs]
    rw [e]
    simp only [List.cons_append, List.nil_append, solo]
    rw [ih]
    simp [segEvents, segEnd]

/-- expected events of the whole-array path -/
def wholeEvents (file : List Byte) (m r : Bool) (off n : Nat) : List DEv :=
  (if m then [.seekEnd, .tell file.length] else []) ++
  (if r then [.seek off, .read n (slice file off n)] else [])

theorem solo_lockedWhole (file : List Byte) (l : Nat) (m r : Bool) (off n : Nat) (p : List Action)
    (hp : wf l 0 false p = true) (x : Nat) :
    solo file x (lockedWhole l m r off n ++ p) = wholeEvents file m r off n ++ solo file 0 p := by
  cases m <;> cases r <;> simp [lockedWhole, wholeEvents, solo] <;> exact solo_indep l file p 0 _ _ hp

/-- one read request as nibabel executes it on a proxy whose lock is `L` over an open handle:
    through the proxy itself or through a `copy()` (whose `__init__` made the fresh lock `fresh`) -/
inductive Piece where
  | segs (viaCopy : Bool) (fresh : Nat) (segs : List (Nat × Nat))
  | whole (viaCopy : Bool) (fresh : Nat) (memmapTry reads : Bool) (off n : Nat)
  | openPersist

def Piece.lock (L : Nat) (viaCopy : Bool) (fresh : Nat) : Nat := if viaCopy then copyLock true L fresh else L

def Piece.prog (L : Nat) : Piece → List Action
  | .segs c f sg => lockedSegs (Piece.lock L c f) sg
  | .whole c f m r off n => lockedWhole (Piece.lock L c f) m r off n
  | .openPersist => getFileobjPersist

def Piece.events (file : List Byte) : Piece → List DEv
  | .segs _ _ sg => segEvents file sg
  | .whole _ _ m r off n => wholeEvents file m r off n
  | .openPersist => []

/-- `copy()` of a proxy over an open handle uses the source's lock, whatever lock its constructor made -/
theorem copy_shares_lock (L fresh : Nat) (c : Bool) : Piece.lock L c fresh = L := by
  cases c <;> simp [Piece.lock, copyLock]

theorem wf_pieces (L : Nat) (ps : List Piece) : wf L 0 false (ps.flatMap (Piece.prog L)) = true := by
  induction ps with
  | nil => simp [wf]
  | cons a r ih =>
    simp only [List.flatMap_cons]
    cases a <;> simp only [Piece.prog, copy_shares_lock]
    · rw [wf_lockedSegs]; exact ih
    · rw [wf_lockedWhole]; exact ih
    · rw [wf_getFileobjPersist]; exact ih

theorem solo_pieces (L : Nat) (file : List Byte) (ps : List Piece) :
    ∀ x, solo file x (ps.flatMap (Piece.prog L)) = ps.flatMap (Piece.events file) := by
  induction ps with
  | nil => intro x; simp [solo]
  | cons a r ih =>
    intro x
    simp only [List.flatMap_cons]
    cases a <;> simp only [Piece.prog, Piece.events, copy_shares_lock]
    · rw [solo_lockedSegs, ih]
    · rw [solo_lockedWhole _ _ _ _ _ _ _ (wf_pieces L r), ih]
    · simp [getFileobjPersist, solo, ih]

/-- `nibabel_reads_correct`: ANY number of threads, each performing ANY list of read requests (sliced reads
    with any segment lists, whole-array reads, with or without the lazily opened persistent opener, through
    the proxy or through its `copy()`), under ANY schedule: every thread's seeks and reads are a prefix of
    "seek o; read n ↦ file[o, o+n)" for its own segments in its own order, and all of it once it finished. -/
theorem nibabel_reads_correct (L : Nat) (file : List Byte) (pieces : Tid → List Piece) (nh : Nat)
    (p0 : Nat → Nat) (sched : List Tid) (t : Tid) :
    let s0 := State.init (fun u => (pieces u).flatMap (Piece.prog L)) nh p0
    dataProj t (trace file s0 sched) <+: (pieces t).flatMap (Piece.events file) ∧
    (((runS file s0 sched).threads t).prog = [] →
      dataProj t (trace file s0 sched) = (pieces t).flatMap (Piece.events file)) := by
  intro s0
  have hr : Reachable L file s0 := ⟨_, nh, p0, [], fun u => wf_pieces L (pieces u), rfl⟩
  have e : solo file (s0.pos (s0.threads t).cur) (s0.threads t).prog = (pieces t).flatMap (Piece.events file) := by
    simp only [s0, State.init]; exact solo_pieces L file (pieces t) _
  refine ⟨?_, fun hfin => ?_⟩
  · rw [← e]; exact reads_correct L file s0 hr sched t
  · rw [← e]; exact reads_complete L file s0 hr sched t hfin

/-! ### what the lock buys: counterexamples for the broken disciplines (concrete 2-thread schedules) -/

def cexFile : List Byte := [10, 11, 12, 13, 14, 15, 16, 17]
/-- two threads over ONE open handle (handle 0) -/
def cexInit (p0 p1 : List Action) : State := State.init (fun t => [p0, p1].getD t []) 1

/-- `_NullLock` (acquire/release removed): thread 0 finishes, but its read at offset 0 returned the bytes at
    offset 4 — thread 1's seek slipped in between thread 0's seek and read. -/
theorem no_lock_counterexample :
    let p0 := unlocked (lockedSegs 0 [(0, 2)])
    let p1 := unlocked (lockedSegs 0 [(4, 2)])
    let s0 := cexInit p0 p1
    ((runS cexFile s0 [0, 1, 0, 1]).threads 0).prog = [] ∧
    dataProj 0 (trace cexFile s0 [0, 1, 0, 1]) = [.seek 0, .read 2 [14, 15]] ∧
    solo cexFile 0 p0 = [.seek 0, .read 2 [10, 11]] := by decide

/-- lock released between seek and read (seek and read in DIFFERENT critical sections): same failure -/
theorem split_lock_counterexample :
    let p0 := splitSegs 0 [(0, 2)]
    let p1 := splitSegs 0 [(4, 2)]
    let s0 := cexInit p0 p1
    ((runS cexFile s0 [0, 0, 0, 1, 1, 1, 0, 0, 0]).threads 0).prog = [] ∧
    dataProj 0 (trace cexFile s0 [0, 0, 0, 1, 1, 1, 0, 0, 0]) = [.seek 0, .read 2 [14, 15]] ∧
    solo cexFile 0 p0 = [.seek 0, .read 2 [10, 11]] ∧
    wf 0 0 false p0 = false := by decide

/-- `copy()` keeping the fresh lock of its constructor although it shares the handle (what `copyLock` would
    give with `hasFh = false`): the two proxies no longer exclude each other -/
theorem copy_new_lock_counterexample :
    let p0 := lockedSegs 0 [(0, 2)]
    let p1 := lockedSegs (copyLock false 0 1) [(4, 2)]
    let s0 := cexInit p0 p1
    ((runS cexFile s0 [0, 0, 1, 1, 0, 0]).threads 0).prog = [] ∧
    dataProj 0 (trace cexFile s0 [0, 0, 1, 1, 0, 0]) = [.seek 0, .read 2 [14, 15]] ∧
    solo cexFile 0 p0 = [.seek 0, .read 2 [10, 11]] := by decide

/-! ### non-vacuity: the hypotheses of the theorems above are satisfiable by concrete, non-trivial values -/

/-- a sliced read of two segments against a whole-array read through the copy, plus a thread that nests the
    lock (RLock re-entrancy) and uses the lazily opened persistent opener -/
def exProgs : Tid → List Action := fun t =>
  [lockedSegs 0 [(0, 2), (4, 2)],
   lockedWhole (copyLock true 0 1) true true 2 4,
   [.acquire 0] ++ getFileobjPersist ++ lockedSegs 0 [(1, 3)] ++ [.release 0]].getD t []

theorem exProgs_wf : ∀ t, wf 0 0 false (exProgs t) = true := by
  intro t
  match t with
  | 0 => decide
  | 1 => decide
  | 2 => decide
  | _ + 3 => rfl

/-- a reachable state in the middle of a run: thread 0 holds the lock and is about to `seek 0; read 2`,
    thread 1 has already been blocked once -/
def exState : State := runS cexFile (State.init exProgs 1) [0, 1]

theorem exState_reachable : Reachable 0 cexFile exState := ⟨exProgs, 1, fun _ => 0, [0, 1], exProgs_wf, rfl⟩

-- inv_reachable / file_op_holds_lock: hypotheses hold for `exState`, thread 0, whose next action is a seek
theorem exState_prog :
    (exState.threads 0).prog = .seek 0 :: .read 2 :: (.release 0 :: lockedSegs 0 [(4, 2)]) := by decide
example : exState.owner 0 = some 0 ∧ 1 ≤ exState.count 0 :=
  file_op_holds_lock 0 cexFile exState exState_reachable 0 _ _ exState_prog rfl

-- mutex_invariant: the other threads (1 and 2) run 5 steps between thread 0's seek and read
example : (step cexFile (runS cexFile (step cexFile exState 0).1 [1, 2, 1, 2, 2]) 0).2 = .read 0 2 [10, 11] :=
  (mutex_invariant 0 cexFile exState exState_reachable 0 0 2 _ exState_prog [1, 2, 1, 2, 2] (by decide)).2.2.2

-- reads_decompose / reads_correct / reads_complete: a schedule with pre-emptions and blocked grants after
-- which thread 0 has finished and has seen exactly its two segments
example : ((runS cexFile (State.init exProgs 1) [0, 0, 1, 2, 0, 1, 0, 0, 1, 0, 2, 0, 0]).threads 0).prog = [] ∧
    dataProj 0 (trace cexFile (State.init exProgs 1) [0, 0, 1, 2, 0, 1, 0, 0, 1, 0, 2, 0, 0]) =
      [.seek 0, .read 2 [10, 11], .seek 4, .read 2 [14, 15]] := by decide

-- concurrent_eq_single_threaded: its hypotheses hold for `exProgs`, t = 0, the schedule above and the
-- sequential schedule of thread 0 alone
example : ((runS cexFile (State.init (fun u => if u = 0 then exProgs 0 else []) 1)
    [0, 0, 0, 0, 0, 0, 0, 0]).threads 0).prog = [] := by decide

-- nibabel_reads_correct: pieces incl. a copy() read and the persistent opener
example : (([Piece.openPersist, .segs true 5 [(0, 2), (4, 2)], .whole false 0 true true 2 4] : List Piece).flatMap
    (Piece.events cexFile)) =
    [.seek 0, .read 2 [10, 11], .seek 4, .read 2 [14, 15], .seekEnd, .tell 8, .seek 2, .read 4 [12, 13, 14, 15]] := by
  decide

-- solo_lockedWhole: its shape hypothesis on the continuation holds for a real continuation
example : wf 0 0 false (lockedSegs 0 [(1, 3)]) = true := by decide

-- with the lock in place the schedule of `no_lock_counterexample` is harmless: thread 1 is blocked
example : dataProj 0 (trace cexFile (cexInit (lockedSegs 0 [(0, 2)]) (lockedSegs 0 [(4, 2)]))
    [0, 0, 1, 0, 1, 0, 1, 1, 1, 1]) = [.seek 0, .read 2 [10, 11]] := by decide

end Nb.C14
