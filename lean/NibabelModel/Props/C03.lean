import NibabelModel.Model.C03
import NibabelModel.Lemmas.C03
import NibabelModel.Lemmas.C03_EcatMain
import NibabelModel.Lemmas.C03_Minc
import NibabelModel.Lemmas.C03_Parrec
import NibabelModel.Lemmas.C03_Afni
import NibabelModel.Lemmas.C03_EcatRows
import NibabelModel.Generated.C03Parrec
import NibabelModel.Generated.C03Ecat
import NibabelModel.Props.C06
import NibabelModel.Model.C03_Hist
import NibabelModel.Lemmas.C03_Hist
/-! Props/C03 — array proxies: scaling applied pointwise; partial reads equal slicing.
    (statements + short proofs; helper lemmas live in Lemmas/C03*.lean) -/
namespace Nb.C03
open Nb Nb.C06

/-! ### scaling is pointwise, so it commutes with every gather -/

/-- (DEFINITIONAL GLUE: `List.map`/`zipWith` bookkeeping, used by the theorems below; no content of its
    own about the code.)
    Indexing commutes with pointwise scaling by (broadcast) per-element parameters: gathering the
    elements `src` of the scaled array is the same as scaling the gathered raw elements with the
    parameters gathered BY THE SAME INDEX.  (`A`, `S`, `I`: raw array, slope array, intercept array
    as functions of the element number; `f` arbitrary.) -/
theorem pointwise_commutes_with_gather {ρ σ β} (f : ρ → σ → σ → β) (A : Nat → ρ) (S I : Nat → σ)
    (src : List Nat) :
    src.map (fun q => f (A q) (S q) (I q)) =
      List.zipWith (fun x (p : σ × σ) => f x p.1 p.2) (src.map A) (List.zip (src.map S) (src.map I)) := by
  induction src with
  | nil => rfl
  | cons q qs ih => simp [ih]

example : [2, 0].map (fun q => (fun (x s i : Nat) => x * s + i) (q + 10) (q + 1) 7) =
    List.zipWith (fun x (p : Nat × Nat) => x * p.1 + p.2) [12, 10] (List.zip [3, 1] [7, 7]) := by decide

/-! ### generic `ArrayProxy` -/

/-- the scaled value of stored element `q` -/
def scaledElem {σ ρ β} (f : ρ → σ → σ → β) (raw : Int → ρ) (p : Params σ) (q : Nat) : β :=
  f (raw (q : Int)) p.slope p.inter

/-- (DEFINITIONAL GLUE: unfolds the model of the whole-array path; it fixes the numbering the other
    theorems speak in.)
    `np.asarray(proxy)` holds, at element number `q`, the scaled stored element `q` — the whole
    array path, unconditional. -/
theorem proxyArray_eq {σ ρ β} (f : ρ → σ → σ → β) (raw : Int → ρ) (h : Heuristic) (p : Params σ) :
    proxyArray f raw h p = .ok (p.shape, (List.range p.shape.prod).map (scaledElem f raw p)) := by
  simp [proxyArray, getScaled, getUnscaled, canonLoop, allFull, Except.map, scaledElem, Function.comp_def]

/-- WHOLE-ARRAY PATH, unconditional: for every index whose canonical form is "everything"
    (`()`, `...`, `[:, :]`, `[0:n, ...]`, …) `proxy[idx]` is NumPy's `np.asarray(proxy)[idx]`:
    same shape, and output element `k` is the scaled stored element `src[k]`. -/
theorem getitem_whole_eq_index_of_array {σ ρ β} (f : ρ → σ → σ → β) (raw : Int → ρ) (h : Heuristic)
    (p : Params σ) (idx : List IdxItem) (hw : canonLoop false idx p.shape = .ok (allFull p.shape)) :
    getScaled f raw h p idx =
      (npIndex idx p.shape p.order).map (fun r => (r.1, r.2.map (scaledElem f raw p))) := by
  rw [npIndex_whole idx p.shape p.order hw]
  simp [getScaled, getUnscaled, hw, Except.map, scaledElem, Function.comp_def]

example : canonLoop false [.ellipsis, .slice ⟨some 0, some 3, none⟩] [2, 3] = .ok (allFull [2, 3]) := by decide

/-- `proxy[idx] = np.asarray(proxy)[idx]` for EVERY basic index accepted by `canonical_slicers`
    (hypothesis `hc`: excluded are only two Ellipses / more indices than axes, for which Python
    raises before anything is read).  The whole-array path is unconditional; the `fileslice` path is
    stated relative to property C06 (`hfs`: "fileslice reads the elements NumPy indexing selects").
    Whatever the pointwise scaling `f`, slope and intercept are. -/
theorem getitem_eq_index_of_array {σ ρ β} (f : ρ → σ → σ → β) (raw : Int → ρ) (h : Heuristic)
    (p : Params σ) (idx : List IdxItem) (items : List Item)
    (hc : canonLoop false idx p.shape = .ok items)
    (hfs : items ≠ allFull p.shape →
      fileslice h idx p.shape p.isz p.off p.flen p.order =
        (npIndex idx p.shape p.order).map (fun r => (r.1, r.2.map Int.ofNat))) :
    getScaled f raw h p idx =
      (npIndex idx p.shape p.order).map (fun r => (r.1, r.2.map (scaledElem f raw p))) := by
  by_cases hw : items = allFull p.shape
  · subst hw; exact getitem_whole_eq_index_of_array f raw h p idx hc
  · simp only [getScaled, getUnscaled, hc, hw, if_false, hfs hw]
    cases npIndex idx p.shape p.order with
    | error e => rfl
    | ok r => simp [Except.map, scaledElem, Function.comp_def]

example : ∃ items, canonLoop false [.int 1, .slice ⟨none, none, some (-1)⟩] [2, 3] = .ok items ∧
    items ≠ allFull [2, 3] := ⟨_, rfl, by decide⟩

/-! ### reshape -/

/-- A reshaped proxy reads the SAME stored elements in the same (storage) order with the same
    offset, item size, memory order, slope and intercept: `np.asarray(proxy.reshape(s))` enumerates
    exactly what `np.asarray(proxy)` enumerates; only the shape differs (same number of elements). -/
theorem reshape_same_elements {σ ρ β} (f : ρ → σ → σ → β) (raw : Int → ρ) (h : Heuristic)
    (p p' : Params σ) (shape : List Int) (hr : reshape p shape = .ok p') :
    p'.shape.prod = p.shape.prod ∧ p'.off = p.off ∧ p'.isz = p.isz ∧ p'.order = p.order ∧
    (proxyArray f raw h p').map (·.2) = (proxyArray f raw h p).map (·.2) := by
  unfold reshape at hr
  cases hs : reshapeShape p.shape.prod shape with
  | error e => simp [hs, bind, Except.bind] at hr
  | ok s =>
      simp only [hs, bind, Except.bind, pure, Except.pure, Except.ok.injEq] at hr
      subst hr
      have hp := reshapeShape_prod hs
      refine ⟨hp, rfl, rfl, rfl, ?_⟩
      rw [proxyArray_eq, proxyArray_eq]
      simp [Except.map, hp, scaledElem]

example : reshape (⟨[1, 1, 1, 1, 2, 3], 2, 544, .F, 2, 1⟩ : Params Int) [-1, 3] =
    .ok ⟨[2, 3], 2, 544, .F, 2, 1⟩ := by decide

/-- The pinned `reshape` dropped the memory order: a C-order `(2, 3)` proxy reshaped to `(3, 2)`
    came back as an F-order proxy, so its first row `[0]` showed stored elements 0 and 3 instead of
    0 and 1 (the repaired code keeps C order). `copy()` had the same defect. -/
theorem reshape_orig_counterexample :
    (reshapeOrig .F (⟨[2, 3], 2, 0, .C, (), ()⟩ : Params Unit) [3, 2]).toOption.map
        (fun p' => getUnscaled (thresholdHeuristic 256) p' [.int 0]) = some (.ok ([2], [0, 3])) ∧
    (reshape (⟨[2, 3], 2, 0, .C, (), ()⟩ : Params Unit) [3, 2]).toOption.map
        (fun p' => getUnscaled (thresholdHeuristic 256) p' [.int 0]) = some (.ok ([2], [0, 1])) ∧
    (copyOrig .F (⟨[2, 3], 2, 0, .C, (), ()⟩ : Params Unit)).order ≠ Order.C := by
  decide

/-! ### frozen parameters -/

/-- The proxy holds copies: no sequence of later header operations changes what the proxy reads
    with (shape, item size, offset, slope, intercept), although the header itself changes. -/
theorem frozen_params (o : Order) (h : Hdr) (ops : List HdrOp) :
    ((World.mk h (proxyOfHdr o h)).run ops).proxy = proxyOfHdr o h := by
  suffices ∀ w : World, (w.run ops).proxy = w.proxy from this _
  induction ops with
  | nil => intro w; rfl
  | cons op ops ih => intro w; simp only [World.run, List.foldl_cons] at ih ⊢; rw [ih]; rfl

example : ((World.mk ⟨[2, 3], 2, 352, some 2, none⟩ (proxyOfHdr .F ⟨[2, 3], 2, 352, some 2, none⟩)).run
    [.setShape [3, 3], .setSlopeInter (some 5) (some 5)]).hdr ≠ ⟨[2, 3], 2, 352, some 2, none⟩ := by decide

/-! ### frozen parameters with header aliasing expressed -/

theorem Heap.run_proxy (w : Heap) (ops : List (Nat × HdrOp)) : (w.run ops).proxy = w.proxy := by
  induction ops generalizing w with
  | nil => rfl
  | cons op ops ih => simp only [Heap.run, List.foldl_cons] at ih ⊢; rw [ih]; rfl

/-- READS USE THE COPIES.  Whatever header operations (set_data_shape / set_data_dtype / set_data_offset /
    set_slope_inter) are applied afterwards to ANY header object — in particular to the very object the
    proxy was built from, which the proxy still references — every read `proxy[idx]` (any index, any
    scaling function) returns what it returned right after construction, namely the read with the
    parameters the header had at construction time. -/
theorem frozen_reads {ρ β} (f : ρ → Int → Int → β) (raw : Int → ρ) (h : Heuristic) (o : Order)
    (hdrs : List Hdr) (ref : Nat) (ops : List (Nat × HdrOp)) (idx : List IdxItem) :
    ((newProxy o hdrs ref).run ops).read f raw h idx = (newProxy o hdrs ref).read f raw h idx ∧
    (newProxy o hdrs ref).read f raw h idx = getScaled f raw h (proxyOfHdr o (hdrs.getD ref default)) idx ∧
    ((newProxy o hdrs ref).run ops).proxy.hdrRef = ref := by
  refine ⟨?_, rfl, ?_⟩
  · simp only [Heap.read, Heap.readParams, Heap.run_proxy]
  · rw [Heap.run_proxy]; rfl

/-- example world: two equal header objects, the proxy built from the first -/
def exHdr : Hdr := ⟨[2, 3], 2, 352, some 2, some 1⟩
def exW : Heap := newProxy .F [exHdr, exHdr] 0
def exF : Int → Int → Int → Int := fun x s i => x * s + i

/-- The ALIASING VARIANT (keep the reference, ask the header when reading) is observably different:
    after `set_slope_inter` / `set_data_shape` / `set_data_offset`+`set_data_dtype` on the header the
    proxy was built from, its reads / read parameters change, while the code's do not. -/
theorem frozen_alias_counterexample :
    -- editing the header the proxy was built from: the aliasing variant changes its answer …
    (exW.run [(0, .setSlopeInter (some 5) (some 0))]).readAlias .F exF id (thresholdHeuristic 256) [.int 1]
      ≠ exW.readAlias .F exF id (thresholdHeuristic 256) [.int 1] ∧
    (exW.run [(0, .setShape [3, 2])]).readAlias .F exF id (thresholdHeuristic 256) [.int 1]
      ≠ exW.readAlias .F exF id (thresholdHeuristic 256) [.int 1] ∧
    (exW.run [(0, .setOff 360), (0, .setIsz 4)]).readParamsAlias .F ≠ exW.readParamsAlias .F ∧
    (exW.run [(0, .setOff 360), (0, .setIsz 4)]).readParams = exW.readParams ∧
    -- … the code (copies) does not, and before any edit both agree
    (exW.run [(0, .setSlopeInter (some 5) (some 0)), (0, .setShape [3, 2]), (0, .setOff 360), (0, .setIsz 4)]).read
        exF id (thresholdHeuristic 256) [.int 1] = .ok ([3], [3, 7, 11]) ∧
    exW.readAlias .F exF id (thresholdHeuristic 256) [.int 1] = exW.read exF id (thresholdHeuristic 256) [.int 1] ∧
    -- editing ANOTHER (equal) header object changes nothing even for the aliasing variant
    (exW.run [(1, .setShape [3, 2])]).readAlias .F exF id (thresholdHeuristic 256) [.int 1]
      = exW.readAlias .F exF id (thresholdHeuristic 256) [.int 1] := by
  decide

/-! ### AFNI -/

/-- (ARITHMETIC CORE of `afni_scale_alongside`, which states the pairing through the model for every index.)
    Per-sub-brick scaling: in a `(…, T)` array stored in F order with `P` elements per sub-brick,
    element `e` of sub-brick `t` is paired by `scaling[slicer]` with factor slot `t`; hence
    (`afniScaleSlots`) every output element of `proxy[idx]` is paired with the factor of the
    sub-brick its source element lies in. -/
theorem afni_scaling_per_subbrick (P e t : Nat) (he : e < P) : (e + P * t) / P = t :=
  slot_of_block P e t he

example : (3 + 4 * 2) / 4 = 2 := by decide

/-- (DEFINITIONAL GLUE: restates the model `afniScaling` of `AFNIHeader.get_data_scaling`, which is tied
    to the code by the `afni` correspondence stream; the theorem with content is `afni_scale_alongside`.)
    A zero `BRICK_FLOAT_FACS` entry means "this sub-brick is not scaled" (factor one), a non-zero
    entry is used as is — provided at least one entry is non-zero; when all are zero (or the
    attribute is absent) there is no scaling at all. -/
theorem afni_zero_factor_means_one {σ} (isZero : σ → Bool) (one : σ) (nvol : Nat) (fs : List σ)
    (hnz : fs.all isZero = false) (t : Nat) (ht : t < nvol) (v : σ) (hv : fs[t]? = some v) :
    ∃ sc, afniScaling isZero one nvol (some fs) = some sc ∧
      sc[t]? = some (if isZero v then one else v) := by
  refine ⟨(List.range nvol).map (fun t => match fs[t]? with
      | some v => if isZero v then one else v
      | none => one), by simp [afniScaling, hnz]; intro a _; rfl, ?_⟩
  simp [ht, hv]

/-- (DEFINITIONAL GLUE, see `afni_zero_factor_means_one`.) All factors zero: no scaling at all. -/
theorem afni_all_zero_no_scaling {σ} (isZero : σ → Bool) (one : σ) (nvol : Nat) (fs : List σ)
    (hz : fs.all isZero = true) : afniScaling isZero one nvol (some fs) = none := by
  simp [afniScaling, hz]

example : afniScaling (· == 0) 1 3 (some [0, 5, 0]) = some [1, 5, 1] := by decide

/-- SUB-BRICK FACTORS ARE SLICED ALONGSIDE THE DATA.  `AFNIArrayProxy._get_scaled` broadcasts the
    factor vector to the data shape and indexes it with the same index as the data (`afniScaleSlotsB`,
    NumPy indexing of the structurally built broadcast array `afniBroadcast`).  For every basic index
    on which NumPy indexing succeeds — ints and slices of any sign on every axis incl. the sub-brick
    axis, Ellipsis, new axes anywhere, also AFTER the sub-brick axis — output element `k`, whose source
    voxel is stored element `src[k]`, is multiplied by the factor of sub-brick `src[k] / P`
    (`P = ∏ shape[:-1]` voxels per sub-brick), which is a real sub-brick; and the arithmetic short form
    `afniScaleSlots` used before is the same function. -/
theorem afni_scale_alongside (shape : List Nat) (idx : List IdxItem) (hne : shape ≠ [])
    (hv : ∀ s, IdxItem.slice s ∈ idx → s.Valid) (r : List Nat × List Nat)
    (hnp : npIndex idx shape .F = .ok r) :
    afniScaleSlotsB shape idx = .ok (r.1, r.2.map (· / shape.dropLast.prod)) ∧
    afniScaleSlots shape idx = afniScaleSlotsB shape idx ∧
    ∀ q ∈ r.2, q / shape.dropLast.prod < shape.getLast?.getD 0 :=
  afni_scale_alongside' shape idx hne hv r hnp

example : npIndex [.int 1, .ellipsis, .slice ⟨none, none, some (-2)⟩, .newaxis] [2, 1, 1, 3] .F = .ok ([1, 1, 2, 1], [5, 1]) ∧
    afniScaleSlotsB [2, 1, 1, 3] [.int 1, .ellipsis, .slice ⟨none, none, some (-2)⟩, .newaxis] = .ok ([1, 1, 2, 1], [2, 0]) ∧
    afniScaleSlotsB [2, 1, 1, 3] [.ellipsis, .int 1, .newaxis] = .ok ([2, 1, 1, 1], [1, 1]) := by decide

/-! ### PAR/REC -/

/-- With sequential slice indices `[0, 1, …, K-1]` the reordered whole array IS the REC file prefix:
    element `q` of `rec[..., indices].reshape(shape, order='F')` is REC element `q`. -/
theorem parrec_whole_sequential (S K : Nat) : parrecWhole S (List.range K) = List.range (S * K) :=
  parrecWhole_range S K

/-- NumPy basic indexing never selects an element outside the array (F order; every slice has a
    non-zero step, as Python demands): the numbers in `npIndex` name real stored elements. -/
theorem npIndex_lt (idx : List IdxItem) (shape : List Nat) (r : List Nat × List Nat)
    (hv : ∀ s, IdxItem.slice s ∈ idx → s.Valid) (h : npIndex idx shape .F = .ok r) :
    ∀ q ∈ r.2, q < shape.prod := npIndex_lt_F idx shape r hv h

example : npIndex [.slice ⟨some (-9), none, some 2⟩, .int (-1)] [3, 2] .F = .ok ([2], [3, 5]) := by decide

/-- `rec[..., indices].reshape(shape, 'F')[idx]` (the slow path, taken when the slice indices are
    not sequential) returns REC elements `S*indices[q / S] + q % S`; when the indices ARE
    `[0, 1, …, K-1]` these are the elements `q` themselves — i.e. exactly what the fast path
    (`fileslice` on the REC file with the logical shape, C06: `= npIndex`) returns.  Hence both
    paths agree.  The slope/intercept arrays are indexed with the SAME `idx` (`parrecScaleSlots`
    is `npIndex` followed by `q ↦ q / S`, the slice the element lies in). -/
theorem parrec_indices (S K : Nat) (shape : List Nat) (idx : List IdxItem) (r : List Nat × List Nat)
    (hshape : shape.prod = S * K) (hv : ∀ s, IdxItem.slice s ∈ idx → s.Valid)
    (hnp : npIndex idx shape .F = .ok r) :
    r.2.map (fun q => (parrecWhole S (List.range K)).getD q 0) = r.2 ∧
    parrecScaleSlots shape S idx = .ok (r.1, r.2.map (· / S)) := by
  constructor
  · rw [parrecWhole_range]
    have hlt := npIndex_lt idx shape r hv hnp
    conv => rhs; rw [← List.map_id r.2]
    apply List.map_congr_left
    intro q hq
    have : q < S * K := by rw [← hshape]; exact hlt q hq
    simp [List.getD_eq_getElem?_getD, this]
  · simp [parrecScaleSlots, hnp, bind, Except.bind, pure, Except.pure]

example : npIndex [.ellipsis, .int 1] [2, 1, 3] .F = .ok ([2, 1], [2, 3]) := by decide

/-! ### ECAT -/

/-- `np.asarray(proxy)` stacks the frames: frame `i` occupies elements `V*i … V*i+V-1` of the F-order
    4-D array, so the stacked array's element number `q` IS "element `q`" of the numbering used by
    `ecatGetitem` and `npIndex`. -/
theorem ecat_array_frames (shape3 : List Nat) (T : Nat) :
    ecatArray shape3 T = (shape3 ++ [T], List.range (shape3.prod * T)) := by
  have hfe : ∀ i, frameElem shape3 i = (fun e => e + shape3.prod * i) := fun i => rfl
  simp only [ecatArray, hfe]
  rw [range_flatMap]

/-- FRAME ASSEMBLY = NUMPY INDEXING.  For every basic index (ints, slices of any sign on every
    axis incl. the frame axis, Ellipsis, new axes anywhere) on which NumPy indexing of the stacked
    `(x, y, z, T)` array succeeds, the repaired `EcatImageArrayProxy.__getitem__` returns the same
    shape and the same elements in the same order, and leaves no element of its `np.empty` buffer
    unwritten.  In particular output position `k` on the frame axis holds source frame
    `(slice3.sel T)[k]` (that is what `npIndex` says).  Unbounded in shape, frame count and index. -/
theorem ecat_frames (shape3 : List Nat) (T : Nat) (idx : List IdxItem) (r : List Nat × List Nat)
    (hv : ∀ s, IdxItem.slice s ∈ idx → s.Valid)
    (hnp : npIndex idx (shape3 ++ [T]) .F = .ok r) :
    ecatGetitem shape3 T idx = .ok (r.1, r.2.map some) := by
  unfold npIndex at hnp
  cases hc : canonicalSlicers idx (shape3 ++ [T]) with
  | error e => simp [hc, bind, Except.bind] at hnp
  | ok items =>
      simp only [hc, bind, Except.bind, orient] at hnp
      cases hs : itemsSels items (shape3 ++ [T]) with
      | error e => simp [hs] at hnp
      | ok sels =>
          simp only [hs, pure, Except.pure, Except.ok.injEq] at hnp
          subst hnp
          exact ecat_frames_sels shape3 T idx items sels hc hv hs

example : npIndex [.slice ⟨none, none, none⟩, .int 1, .newaxis, .ellipsis, .slice ⟨none, none, some (-2)⟩]
    ([2, 2, 1] ++ [3]) .F = .ok ([2, 1, 1, 2], [10, 11, 2, 3]) := by decide

/-- The pinned code wrote frame `i` to output position `i` (the SOURCE index): `[..., 1:]` on three
    frames writes positions 1, 2 of a length-2 output — NumPy's `IndexError`. -/
theorem ecat_frames_orig_counterexample :
    ecatGetitemOrig [1, 1, 1] 3 [.ellipsis, .slice ⟨some 1, none, none⟩] = .error .index ∧
    ecatGetitem [1, 1, 1] 3 [.ellipsis, .slice ⟨some 1, none, none⟩] = .ok ([1, 1, 1, 2], [some 1, some 2]) := by
  decide

/-- … and `[..., ::-1]` returned the frames UN-reversed. -/
theorem ecat_frames_orig_reversed_counterexample :
    ecatGetitemOrig [1, 1, 1] 3 [.ellipsis, .slice ⟨none, none, some (-1)⟩] =
      .ok ([1, 1, 1, 3], [some 0, some 1, some 2]) ∧
    npIndex [.ellipsis, .slice ⟨none, none, some (-1)⟩] [1, 1, 1, 3] .F = .ok ([1, 1, 1, 3], [2, 1, 0]) := by
  decide

/-! ### ECAT: frames located through the matrix list, each voxel scaled with the factor of ITS frame -/

/-- `get_frame_order`: the rows it returns are real matrix-list rows and their (effective) matrix ids
    ascend — frame `i` of the image is the row with the `i`-th smallest id, whatever the order of the
    directory entries in the file. -/
theorem ecat_frame_order_sorted (ids : List Int) :
    (frameOrder ids).Pairwise (fun r1 r2 => (effIds ids).getD r1 0 ≤ (effIds ids).getD r2 0) ∧
    ∀ r ∈ frameOrder ids, r < ids.length := frameOrder_sorted ids

example : frameOrder [16842755, 16842753, 16842756, 16842754] = [1, 3, 0, 2] := by decide

/-- FRAME LOOKUP AND PER-FRAME SCALING.  With frames read through ANY frame→row mapping `rowOf`
    (`frame_mapping[i][0]`; in particular `get_frame_order` of a matrix list whose ids do not ascend),
    for every basic index on which NumPy indexing of the stacked `(x, y, z, T)` array succeeds, output
    element `k` — whose source is stacked element `q = src[k]`, i.e. voxel `q % V` of frame `q / V` —
    shows FILE element `rowElem rowOf V q`: the same voxel position (`% V`) of the volume stored in row
    `rowOf (q / V)`, and therefore carries the `scale_factor` of sub-header `rowOf (q / V)`: the factor
    of ITS OWN frame, for integer and slice indices on the frame axis alike.  The whole array
    (`__array__`) is the same function of `q`, so `proxy[idx] = np.asarray(proxy)[idx]` also at the
    level of file rows and scale factors. -/
theorem ecat_frames_by_row (rowOf : Nat → Nat) (shape3 : List Nat) (T : Nat) (idx : List IdxItem)
    (r : List Nat × List Nat) (hv : ∀ s, IdxItem.slice s ∈ idx → s.Valid)
    (hnp : npIndex idx (shape3 ++ [T]) .F = .ok r) :
    ecatGetitemRows rowOf shape3 T idx = .ok (r.1, r.2.map (fun q => some (rowElem rowOf shape3.prod q))) ∧
    ecatArrayRows rowOf shape3 T = (shape3 ++ [T], (List.range (shape3.prod * T)).map (rowElem rowOf shape3.prod)) ∧
    ∀ q ∈ r.2, rowElem rowOf shape3.prod q / shape3.prod = rowOf (q / shape3.prod) ∧
      rowElem rowOf shape3.prod q % shape3.prod = q % shape3.prod := by
  refine ⟨?_, ?_, ?_⟩
  · unfold npIndex at hnp
    cases hc : canonicalSlicers idx (shape3 ++ [T]) with
    | error e => simp [hc, bind, Except.bind] at hnp
    | ok items =>
        simp only [hc, bind, Except.bind, orient] at hnp
        cases hs : itemsSels items (shape3 ++ [T]) with
        | error e => simp [hs] at hnp
        | ok sels =>
            simp only [hs, pure, Except.pure, Except.ok.injEq] at hnp
            subst hnp
            exact ecat_rows_sels rowOf shape3 T idx items sels hc hv hs
  · simp only [ecatArrayRows, Prod.mk.injEq, true_and]
    rw [← range_flatMap shape3.prod T, List.map_flatMap]
    congr 1
    funext i
    rw [List.map_map]
    apply List.map_congr_left
    intro e he
    simp only [Function.comp, frameElem]
    rw [rowElem_frame rowOf _ _ _ (by simpa using he)]
  · intro q hq
    have hlt := npIndex_lt idx (shape3 ++ [T]) r hv hnp q hq
    have hV : 0 < shape3.prod := by
      rcases Nat.eq_zero_or_pos shape3.prod with h0 | h0
      · simp [h0] at hlt
      · exact h0
    simp only [rowElem]
    constructor
    · rw [Nat.add_mul_div_left _ _ hV, Nat.div_eq_of_lt (Nat.mod_lt _ hV), Nat.zero_add]
    · rw [Nat.add_mul_mod_self_left, Nat.mod_mod]

example : ecatGetitemRows (fun i => (frameOrder [16842755, 16842753, 16842754]).getD i 0) [2, 1, 1] 3
      [.ellipsis, .int (-1), .newaxis] = .ok ([2, 1, 1, 1], [some 0, some 1]) ∧
    ecatGetitemRows (fun i => (frameOrder [16842755, 16842753, 16842754]).getD i 0) [2, 1, 1] 3
      [.int 1, .ellipsis, .slice ⟨none, none, some (-1)⟩] = .ok ([1, 1, 3], [some 1, some 5, some 3]) := by decide

/-! ### generic `ArrayProxy`, unconditional (C06 discharged) -/

theorem fileslice_default_eq (k : Nat) {σ} (p : Params σ) (idx : List IdxItem) (hisz : 0 < p.isz)
    (hv : ∀ s, IdxItem.slice s ∈ idx → s.Valid) :
    fileslice (thresholdHeuristic k) idx p.shape p.isz p.off p.flen p.order =
      (npIndex idx p.shape p.order).map (fun r => (r.1, r.2.map Int.ofNat)) := by
  rw [fileslice_threshold_eq_numpy k idx p.shape hv p.order p.isz p.off p.flen hisz (Nat.le_refl _)]

/-- `proxy[idx] = np.asarray(proxy)[idx]`, UNCONDITIONALLY for the shipped read heuristic
    (`threshold_heuristic`, any `skip_thresh`): every shape, both memory orders, every item size ≥ 1,
    offset, every pointwise scaling, every basic index whose slices have non-zero step and which
    `canonical_slicers` accepts (`hc`).  Uses C06's `fileslice_threshold_eq_numpy`. -/
theorem getitem_eq_index_of_array_default {σ ρ β} (f : ρ → σ → σ → β) (raw : Int → ρ) (k : Nat)
    (p : Params σ) (idx : List IdxItem) (items : List Item) (hisz : 0 < p.isz)
    (hv : ∀ s, IdxItem.slice s ∈ idx → s.Valid)
    (hc : canonLoop false idx p.shape = .ok items) :
    getScaled f raw (thresholdHeuristic k) p idx =
      (npIndex idx p.shape p.order).map (fun r => (r.1, r.2.map (scaledElem f raw p))) :=
  getitem_eq_index_of_array f raw _ p idx items hc (fun _ => fileslice_default_eq k p idx hisz hv)

/-- … and without `hc`, up to the KIND of exception: whenever NumPy indexing of the loaded array
    succeeds the proxy returns exactly that, and whenever it raises the proxy raises too. -/
theorem getitem_eq_index_of_array_total {σ ρ β} (f : ρ → σ → σ → β) (raw : Int → ρ) (k : Nat)
    (p : Params σ) (idx : List IdxItem) (hisz : 0 < p.isz)
    (hv : ∀ s, IdxItem.slice s ∈ idx → s.Valid) :
    (getScaled f raw (thresholdHeuristic k) p idx).toOption =
      ((npIndex idx p.shape p.order).map (fun r => (r.1, r.2.map (scaledElem f raw p)))).toOption := by
  cases hc : canonLoop false idx p.shape with
  | ok items => rw [getitem_eq_index_of_array_default f raw k p idx items hisz hv hc]
  | error e =>
      have hl : getScaled f raw (thresholdHeuristic k) p idx = .error e := by
        simp [getScaled, getUnscaled, hc, Except.map]
      rw [hl]
      cases hn : npIndex idx p.shape p.order with
      | error e' => rfl
      | ok r =>
          exfalso
          unfold npIndex at hn
          cases ht : canonicalSlicers idx p.shape with
          | error e'' => simp [ht, bind, Except.bind] at hn
          | ok its =>
              obtain ⟨its', h'⟩ := canonLoop_false_ok idx p.shape its ht
              rw [hc] at h'; cases h'

example : getScaled (fun (x s i : Int) => x * s + i) id (thresholdHeuristic 256)
    (⟨[2, 3], 2, 352, .F, 2, 1⟩ : Params Int) [.int 1, .slice ⟨none, none, some (-1)⟩] =
    .ok ([3], [11, 7, 3]) := by decide

/-! ### reshape, index level -/

/-- `proxy.reshape(s)[idx] = np.asarray(proxy).reshape(s, order=proxy.order)[idx]` for EVERY basic index
    (non-zero slice steps), up to the kind of exception.  Right-hand side: NumPy indexing of an array
    of shape `s` whose element number `q` (in the proxy's memory order) is element number `q` of
    `np.asarray(proxy)` — `scaledElem f raw p q` by `proxyArray_eq` — which is what NumPy's
    `reshape(order=…)` means.  The reshaped proxy scales with the ORIGINAL slope and intercept
    (`scaledElem … p`, not `p'`), reads from the original offset with the original item size and
    memory order; and the whole arrays enumerate the same elements. -/
theorem reshape_getitem_eq_reshaped_array {σ ρ β} (f : ρ → σ → σ → β) (raw : Int → ρ) (k : Nat)
    (p p' : Params σ) (shape : List Int) (hr : reshape p shape = .ok p') (hisz : 0 < p.isz) :
    (proxyArray f raw (thresholdHeuristic k) p').map (·.2) = (proxyArray f raw (thresholdHeuristic k) p).map (·.2) ∧
    ∀ idx : List IdxItem, (∀ s, IdxItem.slice s ∈ idx → s.Valid) →
      (getScaled f raw (thresholdHeuristic k) p' idx).toOption =
        ((npIndex idx p'.shape p.order).map (fun r => (r.1, r.2.map (scaledElem f raw p)))).toOption := by
  obtain ⟨_, _, hi, ho, ha⟩ := reshape_same_elements f raw (thresholdHeuristic k) p p' shape hr
  refine ⟨ha, fun idx hv => ?_⟩
  have := getitem_eq_index_of_array_total f raw k p' idx (by omega) hv
  rw [this, ho]
  have hs : scaledElem f raw p' = scaledElem f raw p := by
    unfold reshape at hr
    cases hs : reshapeShape p.shape.prod shape with
    | error e => simp [hs, bind, Except.bind] at hr
    | ok s =>
        simp only [hs, bind, Except.bind, pure, Except.pure, Except.ok.injEq] at hr
        subst hr; rfl
  rw [hs]

example : (reshape (⟨[2, 3], 2, 352, .C, 2, 1⟩ : Params Int) [3, -1]).toOption.map
    (fun p' => getScaled (fun (x s i : Int) => x * s + i) id (thresholdHeuristic 256) p' [.int (-1), .slice ⟨none, none, some (-1)⟩])
    = some (.ok ([2], [11, 9])) := by decide

/-- `reshape` is refused (`ValueError`) exactly when more than one dimension is `-1`, or the
    (completed) shape has a negative entry or another number of elements — NumPy's rule for
    `ndarray.reshape`. -/
theorem reshape_fails_iff {σ} (p : Params σ) (shape : List Int) :
    (∃ e, reshape p shape = .error e) ↔
      (nUnknown shape > 1 ∨ ¬((resolveShape p.shape.prod shape).foldl (· * ·) 1 = (p.shape.prod : Int) ∧
        (resolveShape p.shape.prod shape).all (0 ≤ ·))) := by
  unfold reshape reshapeShape
  by_cases h1 : nUnknown shape > 1
  · simp [h1, bind, Except.bind]
  · by_cases h2 : ((resolveShape p.shape.prod shape).foldl (· * ·) 1 = (p.shape.prod : Int) ∧
        (resolveShape p.shape.prod shape).all (0 ≤ ·))
    · simp only [h1, if_false, h2, and_self, if_true, bind, Except.bind, pure, Except.pure]
      simp
    · simp only [h1, if_false, h2, bind, Except.bind]
      simp

example : (∃ e, reshape (⟨[2, 3], 2, 0, .F, (), ()⟩ : Params Unit) [4, -1] = .error e) ∧
    (∃ e, reshape (⟨[2, 3], 2, 0, .F, (), ()⟩ : Params Unit) [-1, -1] = .error e) ∧
    reshape (⟨[2, 3], 2, 0, .F, (), ()⟩ : Params Unit) [-1, 2] = .ok ⟨[3, 2], 2, 0, .F, (), ()⟩ := by
  refine ⟨⟨.value, by decide⟩, ⟨.value, by decide⟩, by decide⟩

/-! ### PAR/REC, every slice order -/

/-- `PARRECArrayProxy._get_unscaled(idx)` for EVERY list of sorted slice indices (sequential or
    not, i.e. fast `fileslice` path or slow "reorder everything, then index" path) and every basic
    index: output element `k` is REC element `recElem S indices src[k]` = in-slice position
    `src[k] % S` of REC slice `indices[src[k] / S]`, where `src = npIndex idx shape`.  So both paths
    are "gather by the index list, then index", and they agree where both apply. -/
theorem parrec_unscaled_eq (k S isz : Nat) (indices : List Nat) (shape : List Nat) (idx : List IdxItem)
    (hisz : 0 < isz) (hshape : shape.prod = S * indices.length)
    (hv : ∀ s, IdxItem.slice s ∈ idx → s.Valid) :
    parrecUnscaled (thresholdHeuristic k) shape isz S indices idx =
      (npIndex idx shape .F).map (fun r => (r.1, r.2.map (fun q => Int.ofNat (recElem S indices q)))) := by
  unfold parrecUnscaled
  by_cases h0 : idx = []
  · subst h0
    rw [npIndex_whole [] shape .F rfl]
    simp only [if_true, Except.map, parrecWhole_eq, hshape, List.map_map]
    rfl
  · simp only [h0, if_false]
    by_cases hseq : parrecFallback indices = false
    · simp only [hseq, Bool.false_eq_true, if_false]
      have hi : indices = List.range indices.length := ((parrecFallback_false_iff indices).mp hseq).2
      have := fileslice_threshold_eq_numpy k idx shape hv .F isz 0 (isz * shape.prod) hisz (by omega)
      rw [this]
      cases hn : npIndex idx shape .F with
      | error e => rfl
      | ok r =>
          simp only [Except.map, Except.ok.injEq, Prod.mk.injEq, true_and]
          apply List.map_congr_left
          intro q hq
          have hlt := npIndex_lt idx shape r hv hn q hq
          rw [hi, recElem_range S indices.length q (by rw [← hshape]; exact hlt)]
    · have hseq' : parrecFallback indices = true := by simpa using hseq
      simp only [hseq', if_true, bind, Except.bind]
      cases hn : npIndex idx shape .F with
      | error e => rfl
      | ok r =>
          simp only [pure, Except.pure, Except.map, Except.ok.injEq, Prod.mk.injEq, true_and]
          apply List.map_congr_left
          intro q hq
          have hlt := npIndex_lt idx shape r hv hn q hq
          rw [parrecWhole_getD S indices q (by rw [← hshape]; exact hlt)]

example : parrecUnscaled (thresholdHeuristic 256) [2, 1, 3] 2 2 [2, 0, 1] [.ellipsis, .int 0] =
    .ok ([2, 1], [4, 5]) := by decide

/-! ### PAR/REC: the fast-path guard, as found in the source -/

/-- SOURCE TIE.  The test of the `elif` in `PARRECArrayProxy._get_unscaled`, translated by `regen()` from
    the working tree (`Generated/C03Parrec.lean`), IS the guard of the model (`parrecFallback`, used by
    `parrecUnscaled` and therefore by `parrec_unscaled_eq`) on every non-empty index vector, and the
    fast path calls `fileslice` with offset 0 in Fortran order, as the model does. -/
theorem parrec_guard_from_source (indices : List Nat) (hne : indices ≠ []) :
    Nb.Gen.C03.parrecFallback (indices.map Int.ofNat) = parrecFallback indices ∧
    Nb.Gen.C03.parrecFastOffset = 0 ∧ Nb.Gen.C03.parrecFastOrder = Order.F := by
  refine ⟨?_, rfl, rfl⟩
  cases indices with
  | nil => exact absurd rfl hne
  | cons a rest =>
      have hd := Np.diff_ofNat (a :: rest)
      have hi := Np.item_zero_ofNat a rest
      simp only [Nb.Gen.C03.parrecFallback, parrecFallback, hd, hi, Np.any, List.any_map, List.head?_cons]
      congr 1
      cases a with
      | zero => simp
      | succ n =>
          have h1 : (((n : Int) + 1) != 0) = true := by simp; omega
          have h2 : (some (n + 1) != some 0) = true := by simp
          simp only [Int.natCast_add, Int.cast_ofNat_Int] at *
          rw [h1, h2]

example : Nb.Gen.C03.parrecFallback ([0, 1, 2, 5].map Int.ofNat) = true ∧
    Nb.Gen.C03.parrecFallback ([0, 1, 2, 3].map Int.ofNat) = false := by decide

/-- The guard is EXACT: the direct read is chosen precisely for the index vector `[0, 1, …, K-1]`.
    In particular an ascending vector with a hole (`[0,1,2,5]`: a truncated recording whose lost slice
    is not at the end of the REC file), a rotated or an interleaved one all fall back. -/
theorem parrec_guard_exact (indices : List Nat) (hne : indices ≠ []) :
    parrecFallback indices = false ↔ indices = List.range indices.length := by
  rw [parrecFallback_false_iff]
  exact ⟨fun h => h.2, fun h => ⟨hne, h⟩⟩

example : parrecFallback [0, 1, 2, 5] = true ∧ parrecFallback [0, 1, 2, 3] = false ∧
    parrecFallback [1, 2, 3] = true ∧ parrecFallback [0, 2, 1, 3] = true := by decide

/-- … and that is the ONLY case in which the direct read is right: addressing the REC file as a dense
    array of the logical shape (logical element `q` ↦ REC element `q`, what `fileslice` does) agrees
    with the reordered whole array (`recElem S indices q`, theorem `parrec_unscaled_eq`) on every
    element iff the guard chose the fast path.  So the guard can be neither relaxed nor tightened
    without either breaking "partial read = slicing" or giving up direct reads that are correct. -/
theorem parrec_fast_path_taken_iff_correct (S : Nat) (hS : 0 < S) (indices : List Nat) (hne : indices ≠ []) :
    parrecFallback indices = false ↔ ∀ q, q < S * indices.length → recElem S indices q = q := by
  rw [parrec_guard_exact indices hne, direct_read_iff S hS indices]

example : recElem 2 [0, 1, 2, 5] 6 = 10 ∧ recElem 2 [0, 1, 2, 5] 5 = 5 := by decide

/-! ### MINC -/

/-- `Minc1File._normalize` slices `image-min`/`image-max` alongside the data: for every basic index
    (ints and slices of any sign on every axis incl. the scaled leading axes, Ellipsis, new axes
    anywhere) on which NumPy indexing succeeds, the entry NumPy broadcasting pairs with output voxel
    `k` is entry `src[k] / ∏ shape[nscales:]` — the leading (slice, or frame+slice) index of the
    voxel's SOURCE voxel — and the shape checks of the model (= broadcasting being legal) pass.
    C order; `nscales` = number of leading axes `image-max` varies over (the code admits 0, 1, 2). -/
theorem minc_scale_alongside (nscales : Nat) (shape : List Nat) (idx : List IdxItem)
    (hn : nscales ≤ shape.length) (hv : ∀ s, IdxItem.slice s ∈ idx → s.Valid)
    (r : List Nat × List Nat) (hnp : npIndex idx shape .C = .ok r) :
    mincScaleSlots nscales shape idx = .ok (r.1, r.2.map (· / (shape.drop nscales).prod)) :=
  minc_scale_alongside' nscales shape idx hn hv r hnp

example : npIndex [.int 1, .newaxis, .slice ⟨none, none, some (-1)⟩] [2, 2, 2] .C = .ok ([1, 2, 2], [6, 7, 4, 5]) ∧
    mincScaleSlots 2 [2, 2, 2] [.int 1, .newaxis, .slice ⟨none, none, some (-1)⟩] = .ok ([1, 2, 2], [3, 3, 2, 2]) := by
  decide

/-! ### histories of reads on one proxy; the general heuristic -/


/-- HISTORIES OF READS ON ONE PROXY OBJECT (every proxy class: `p` is any pair of read functions of the file).
    For every history — conversions `np.asarray(proxy)`, partial reads `proxy[idx]` (failing ones included) and
    in-place edits of ANY array a previous read handed out, in any order and number —
    (1) the value each read returns is the value of that read ALONE on the file (`readOf`): it depends neither on
        the reads before it nor on what the caller did to their results;
    (2) every read returns a NEW array object (`refs = [0, 1, 2, …]`), one per read;
    (3) an array the caller never edited still holds, at the end of the history, what it held when it was
        returned — later reads and edits of OTHER results do not reach it.
    The model of the code is `histStep` (a fresh array per read, no reference kept); `hist_cache_counterexample`
    shows that (1)–(3) fail for a proxy that keeps and hands out its assembled array. -/
theorem hist_reads_independent {I R} (p : ProxyFns I R) (steps : List (HStep I R)) :
    (runHist p steps).snaps = steps.filterMap (HStep.readOf p) ∧
    (runHist p steps).refs = List.range (runHist p steps).cells.length ∧
    (runHist p steps).cells.length = (steps.filterMap (HStep.readOf p)).length ∧
    ∀ k, (∀ s ∈ steps, s.isMutOf k = false) → k < (runHist p steps).cells.length →
      (runHist p steps).cells[k]? = (runHist p steps).snaps[k]? := by
  have hinit : HInv (HState.init : HState R) := ⟨rfl, rfl⟩
  have hinv : HInv (runHist p steps) := foldl_inv p steps HState.init hinit
  have hsn : (runHist p steps).snaps = steps.filterMap (HStep.readOf p) := by
    have := foldl_snaps p steps HState.init
    simpa [runHist, HState.init] using this
  refine ⟨hsn, hinv.refs, ?_, fun k hk => ?_⟩
  · rw [← hinv.len, hsn]
  · exact foldl_kept p k steps HState.init hinit (fun h => absurd h (Nat.not_lt_zero _)) hk

example : (runHist (⟨fun i => i + 10, 7⟩ : ProxyFns Nat Nat) [.arr, .edit 0 (· * 100), .get 5, .arr]).snaps = [7, 15, 7] ∧
    (runHist (⟨fun i => i + 10, 7⟩ : ProxyFns Nat Nat) [.arr, .edit 0 (· * 100), .get 5, .arr]).cells = [700, 15, 7] := by
  decide

/-- the specification of one read of a generic proxy: NumPy indexing of the loaded array -/
def genericSpec {σ ρ β} (f : ρ → σ → σ → β) (raw : Int → ρ) (p : Params σ) :
    HStep (List IdxItem) (Except Err (List Nat × List β)) → Option (Option (List Nat × List β))
  | .arr => some (some (p.shape, (List.range p.shape.prod).map (scaledElem f raw p)))
  | .get idx => some ((npIndex idx p.shape p.order).map (fun r => (r.1, r.2.map (scaledElem f raw p)))).toOption
  | .edit _ _ => none

/-- GENERIC `ArrayProxy` (NIfTI, Analyze, SPM, MGH, AFNI data part, CIFTI-2 …), shipped heuristic: in every history
    every conversion returns the whole scaled array and every partial read returns NumPy's indexing of it (or fails
    where NumPy fails) — whatever was read, refused or edited before. -/
theorem hist_generic_eq_numpy {σ ρ β} (f : ρ → σ → σ → β) (raw : Int → ρ) (k : Nat) (p : Params σ) (hisz : 0 < p.isz)
    (steps : List (HStep (List IdxItem) (Except Err (List Nat × List β))))
    (hv : ∀ idx, HStep.get idx ∈ steps → ∀ s, IdxItem.slice s ∈ idx → s.Valid) :
    (runHist (genericFns f raw (thresholdHeuristic k) p) steps).snaps.map Except.toOption =
      steps.filterMap (genericSpec f raw p) := by
  rw [(hist_reads_independent _ steps).1, List.map_filterMap]
  apply filterMap_congr_mem
  intro s hs
  cases s with
  | arr => simp [HStep.readOf, genericSpec, genericFns, proxyArray_eq, Except.toOption]
  | get idx =>
      simp only [HStep.readOf, genericSpec, genericFns, Option.map_some]
      rw [getitem_eq_index_of_array_total f raw k p idx hisz (hv idx hs)]
  | edit j g => rfl

/-- `proxy[idx] = np.asarray(proxy)[idx]` for EVERY read heuristic that `optimize_slicer` accepts (one that never
    answers `contiguous` for an integer index — otherwise `optimize_slicer` raises `ValueError`, C06
    `optimizeSlicer_error_iff`): the hypothesis "fileslice = npIndex" of `getitem_eq_index_of_array` is DISCHARGED by
    C06's `fileslice_eq_numpy`.  Up to the kind of exception, as `getitem_eq_index_of_array_total`. -/
theorem getitem_eq_index_of_array_heuristic {σ ρ β} (f : ρ → σ → σ → β) (raw : Int → ρ) (h : Heuristic)
    (hh : ∀ i n st, h (.int i) n st ≠ .contiguous)
    (p : Params σ) (idx : List IdxItem) (hisz : 0 < p.isz)
    (hv : ∀ s, IdxItem.slice s ∈ idx → s.Valid) :
    (getScaled f raw h p idx).toOption =
      ((npIndex idx p.shape p.order).map (fun r => (r.1, r.2.map (scaledElem f raw p)))).toOption := by
  cases hc : canonLoop false idx p.shape with
  | ok items =>
      rw [getitem_eq_index_of_array f raw h p idx items hc
        (fun _ => fileslice_eq_numpy h hh idx p.shape hv p.order p.isz p.off p.flen hisz (Nat.le_refl _))]
  | error e =>
      have hl : getScaled f raw h p idx = .error e := by
        simp [getScaled, getUnscaled, hc, Except.map]
      rw [hl]
      cases hn : npIndex idx p.shape p.order with
      | error e' => rfl
      | ok r =>
          exfalso
          unfold npIndex at hn
          cases ht : canonicalSlicers idx p.shape with
          | error e'' => simp [ht, bind, Except.bind] at hn
          | ok its =>
              obtain ⟨its', h'⟩ := canonLoop_false_ok idx p.shape its ht
              rw [hc] at h'; cases h'


example : (runHist (genericFns (fun (x s i : Int) => x * s + i) id (thresholdHeuristic 256)
      (⟨[2, 3], 2, 352, .F, 2, 1⟩ : Params Int))
    [.get [.int 9], .arr, .edit 1 (Except.map (fun r => (r.1, r.2.map (· * 0)))), .get [.int 1, .slice ⟨none, none, some (-1)⟩]]).snaps
    = [.error .index, .ok ([2, 3], [1, 3, 5, 7, 9, 11]), .ok ([3], [11, 7, 3])] := by decide

example : (∀ i n st, (fun _ _ _ => Action.skip : Heuristic) (.int i) n st ≠ .contiguous) ∧
    getScaled (fun (x s i : Int) => x * s + i) id (fun _ _ _ => Action.skip) (⟨[2, 3], 2, 352, .F, 2, 1⟩ : Params Int)
      [.int 1, .slice ⟨none, none, some (-1)⟩] = .ok ([3], [11, 7, 3]) :=
  ⟨fun _ _ _ h => Action.noConfusion h, by decide⟩


/-- ECAT: in every history every conversion is the frames stacked through the matrix list and every partial read is
    NumPy's indexing of that stack, each voxel with the scale factor of its own frame (`ecat_frames_by_row`) —
    whatever was read or edited before on the same proxy. -/
theorem hist_ecat_eq_numpy (rowOf : Nat → Nat) (shape3 : List Nat) (T : Nat)
    (steps : List (HStep (List IdxItem) (Except Err (List Nat × List (Option Nat))))) :
    (runHist (ecatFns rowOf shape3 T) steps).snaps = steps.filterMap (HStep.readOf (ecatFns rowOf shape3 T)) ∧
    (ecatFns rowOf shape3 T).array =
      .ok (shape3 ++ [T], (List.range (shape3.prod * T)).map (fun q => some (rowElem rowOf shape3.prod q))) ∧
    ∀ idx r, (∀ s, IdxItem.slice s ∈ idx → s.Valid) → npIndex idx (shape3 ++ [T]) .F = .ok r →
      (ecatFns rowOf shape3 T).getitem idx = .ok (r.1, r.2.map (fun q => some (rowElem rowOf shape3.prod q))) := by
  refine ⟨?_, ?_, fun idx r hv hnp => (ecat_frames_by_row rowOf shape3 T idx r hv hnp).1⟩
  · have hinit : HInv (HState.init : HState (Except Err (List Nat × List (Option Nat)))) := ⟨rfl, rfl⟩
    have := foldl_snaps (ecatFns rowOf shape3 T) steps HState.init
    simpa [runHist, HState.init] using this
  · have h2 := (ecat_frames_by_row rowOf shape3 T [] (shape3 ++ [T], List.range (shape3 ++ [T]).prod)
      (by intro s hs; cases hs) (npIndex_whole [] _ .F rfl)).2.1
    simp only [ecatFns, h2, List.map_map]
    rfl

def exEdit : Except Err (List Nat × List (Option Nat)) → Except Err (List Nat × List (Option Nat)) :=
  Except.map (fun r => (r.1, r.2.map (fun o => o.map (· + 100))))

/-- THE CACHING VARIANT IS OBSERVABLY DIFFERENT (the class of defect: `__array__` keeps the assembled volume in
    `self._data`, returns that object, `__getitem__` answers from it).  `a = np.asarray(proxy); a += 100`:
    the next partial read and the next conversion show the edited numbers; two conversions return the SAME object, so
    editing the second changes the first; the code's model shows the file's numbers and keeps results apart.
    Without a conversion first the variant behaves like the code — a single read cannot tell them apart. -/
theorem hist_cache_counterexample :
    (runHistCached (indexCached none) (ecatFns id [2, 1, 1] 2) [.arr, .edit 0 exEdit, .get [.ellipsis, .int 1]]).snaps[1]?
      = some (.ok ([2, 1, 1], [some 102, some 103])) ∧
    (runHist (ecatFns id [2, 1, 1] 2) [.arr, .edit 0 exEdit, .get [.ellipsis, .int 1]]).snaps[1]?
      = some (.ok ([2, 1, 1], [some 2, some 3])) ∧
    (runHistCached (indexCached none) (ecatFns id [2, 1, 1] 2) [.arr, .edit 0 exEdit, .arr]).snaps[1]?
      = some (.ok ([2, 1, 1, 2], [some 100, some 101, some 102, some 103])) ∧
    (runHistCached (indexCached none) (ecatFns id [2, 1, 1] 2) [.arr, .arr, .edit 1 exEdit]).refs = [0, 0] ∧
    (runHistCached (indexCached none) (ecatFns id [2, 1, 1] 2) [.arr, .arr, .edit 1 exEdit]).unchanged = [false, false] ∧
    (runHist (ecatFns id [2, 1, 1] 2) [.arr, .arr, .edit 1 exEdit]).unchanged = [true, false] ∧
    (runHistCached (indexCached none) (ecatFns id [2, 1, 1] 2) [.get [.ellipsis, .int 1], .arr]).snaps
      = (runHist (ecatFns id [2, 1, 1] 2) [.get [.ellipsis, .int 1], .arr]).snaps := by
  refine ⟨by decide, by decide, by decide, by decide, by decide, by decide, by decide⟩


example : (runHist (ecatFns (fun i => (frameOrder [16842755, 16842753, 16842754]).getD i 0) [2, 1, 1] 3)
    [.arr, .edit 0 exEdit, .get [.ellipsis, .int (-1), .newaxis]]).snaps[1]? = some (.ok ([2, 1, 1, 1], [some 0, some 1])) := by
  decide

/-! ### ECAT: `get_frame_order` as found in the source -/

/-- SOURCE TIE (ECAT).  The pieces of `get_frame_order` that decide which directory row is frame `i` — the id column,
    the validity test (`ids > 0`), the replacement of invalid ids (`ids[ids <= 0] = ids.max() + 1`), the cut at
    `n_valid` — and the field of a `frame_mapping` entry that all three `data_from_fileobj` call sites of the proxy use,
    translated by `regen()` from the working tree (`Generated/C03Ecat.lean`), ARE those of the model `frameOrder`
    (which `ecat_frame_order_sorted` and, through `rowOf`, `ecat_frames_by_row` / `hist_ecat_eq_numpy` speak about).
    (`np.argsort` itself stays modelled as a stable insertion sort; for a directory whose VALID ids are distinct the
    tie-breaking among the equal replaced invalid ids is cut off by `n_valid`.) -/
theorem ecat_frame_order_from_source (ids : List Int) :
    Nb.Gen.C03.ecatEffIds ids = effIds ids ∧
    Nb.Gen.C03.ecatNValid ids = (ids.filter (fun v => decide (0 < v))).length ∧
    frameOrder ids = ((isort idLe (Nb.Gen.C03.ecatEffIds ids).zipIdx).map (·.2)).take (Nb.Gen.C03.ecatNValid ids) ∧
    Nb.Gen.C03.ecatIdColumn = 0 ∧ Nb.Gen.C03.ecatRowField = 0 :=
  ⟨rfl, rfl, rfl, rfl, rfl⟩

example : Nb.Gen.C03.ecatEffIds [16842755, 0, 16842753, -4] = [16842755, 16842756, 16842753, 16842756] ∧
    Nb.Gen.C03.ecatNValid [16842755, 0, 16842753, -4] = 2 ∧ frameOrder [16842755, 0, 16842753, -4] = [2, 0] := by decide

end Nb.C03
