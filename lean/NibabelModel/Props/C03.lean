import NibabelModel.Model.C03
/-! Props/C03 — the property theorems for C03 (statements + proofs; helper lemmas live in Lemmas/). -/
namespace Nb.C03

end Nb.C03
