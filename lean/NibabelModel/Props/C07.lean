import NibabelModel.Lemmas.C07
/-! Props/C07 — "saving never changes the image, even when the write fails part-way".

  All theorems are about the step machine of Model/C07.lean (the control flow of `to_file_map` of the nine
  writable volume classes after the two `fix:` commits) and hold for EVERY class, initial state, fault
  (`Fault.none`, the k-th I/O call for every k, every byte budget), dtype override, alias, and every
  external behaviour `Env` (writer raising or not, any computed slope/inter, any number of writes, any
  extension / .mat sizes, owned or caller-provided file objects).

  Guards (what the real code needs, stated as hypotheses):
  * `Img.wf`  — the header's dtype code is one the header class supports (true of every image nibabel
    builds: `set_data_dtype` refuses anything else; `gen_tables_ok` shows such a code survives
    `hdr.set_data_dtype(hdr.get_data_dtype())`, which is what the `finally:` blocks execute);
  * `Env.ok`  — a dtype alias resolves to a dtype the NIfTI header supports (uint8/int16/int32/float32);
  * `Img.harmonised` (only where stated) — `update_header()` would not change the header, i.e. affine, shape
    and header have not been edited in place since the image was built / loaded / last saved. The general
    statements (`save_harmonises`, `histories_harmonise`, `retry_correct`, `repeat_identical`) do not need it.

  `save_congr`, `save_congr_harm`, `retry_correct`, `repeat_identical`, `second_save_preserves`,
  `saves_erasable`, `histories_preserve`, `histories_harmonise`, `byname_harmonises` are corollaries of
  `save_harmonises` (+ the fact that `save` is a function of the observable state).
-/
namespace Nb.C07

/-- Leg T: for every class, every supported dtype code survives code → dtype → code (regenerated table) -/
theorem gen_tables_ok : ∀ cls : Cls, ∀ c ∈ cls.traits.codes, cls.traits.roundtrip.lookup c = some c := by
  intro cls; cases cls <;> decide

theorem rtCode_id (cls : Cls) (c : Nat) (h : c ∈ cls.traits.codes) : rtCode cls.traits c = c := by
  unfold rtCode; rw [gen_tables_ok cls c h]

def Core.wf (cls : Cls) (k : Core) : Prop := k.hdr.dtype ∈ cls.traits.codes
def Img.wf (cls : Cls) (img : Img) : Prop := Core.wf cls img.core
def Env.ok (cls : Cls) (env : Env) : Prop := ∀ a c, env.resolve a = some c → c ∈ cls.traits.codes

/-- the image is harmonised: `update_header()` would not change its header (true after any successful
    save, and of every image that has not been edited since it was built or loaded and harmonised) -/
def Img.harmonised (img : Img) : Prop := img.core.pending = none

theorem saveWorld_img (cls : Cls) (env : Env) (dt : DtReq) (fault : Fault) (k : Core)
    (hwf : Core.wf cls k) (henv : env.ok cls) :
    HarmOut (saveWorld cls env dt fault { img := k }) k := by
  cases cls <;> simp only [saveWorld]
  · exact HarmOut.of_harm (analyzeSave_img _ env dt fault _ (rtCode_id .analyze _ hwf))
  · exact HarmOut.of_harm (spmSave_img _ env dt fault _ (rtCode_id .spm99 _ hwf))
  · exact HarmOut.of_harm (spmSave_img _ env dt fault _ (rtCode_id .spm2 _ hwf))
  · exact niftiSave_img _ env dt fault _ (rtCode_id .n1pair) hwf henv
  · exact niftiSave_img _ env dt fault _ (rtCode_id .n1single) hwf henv
  · exact niftiSave_img _ env dt fault _ (rtCode_id .n2pair) hwf henv
  · exact niftiSave_img _ env dt fault _ (rtCode_id .n2single) hwf henv
  · exact mghSave_img _ env dt fault _
  · exact HarmOut.of_harm (ciftiSave_img env dt fault _ (rtCode_id .n2single) hwf henv)

/-- **save_harmonises** (the general form, for images that may have been edited since they were last
    harmonised — `img.affine[...] = …`, a header edit): for every class, state, data source (array, proxy,
    memory map) and destination identity, fault point (none / any k / any byte budget), dtype override,
    alias and external behaviour (writer raising WriterError, `set_slope_inter` raising HeaderDataError, …),
    the image after `to_file_map` is either EXACTLY the one before or the one before with
    `update_header()` applied — the latter whenever the save succeeds. Nothing else ever changes: consumable
    header fields, dtype code, alias, data, affine, default_x_flip, data source, header object. -/
theorem save_harmonises (cls : Cls) (env : Env) (req : SaveReq) (img : Img)
    (hwf : img.wf cls) (henv : env.ok cls) :
    ((save cls env req img).img.core = img.core ∨ (save cls env req img).img.core = harmonise img.core) ∧
    ((save cls env req img).err = none → (save cls env req img).img.core = harmonise img.core) := by
  unfold save finish
  exact saveWorld_img cls env req.dtype req.fault img.core hwf henv

/-- `update_header()` changes the header at most once: a second application is the identity, and on a
    harmonised image it is the identity -/
theorem harmonise_once (k : Core) : harmonise (harmonise k) = harmonise k ∧ (harmonise k).pending = none ∧
    (k.pending = none → harmonise k = k) :=
  ⟨rfl, rfl, harmonise_of_none⟩

/-- **save_preserves_state**: for every class, harmonised state, fault point (none / any k / any byte
    budget), dtype override, alias and external behaviour, the observable image (consumable header fields,
    dtype code, alias, data, affine, flip flag, header bytes, header object) after `to_file_map` equals the
    one before — whether the save succeeded or raised anything anywhere. (The hypothesis `harmonised` was
    an unstated modelling assumption before `update_header()` became a step of the model;
    `save_harmonises` is the statement without it.) -/
theorem save_preserves_state (cls : Cls) (env : Env) (req : SaveReq) (img : Img)
    (hwf : img.wf cls) (henv : env.ok cls) (hh : img.harmonised) :
    (save cls env req img).img.core = img.core := by
  have h := (save_harmonises cls env req img hwf henv).1
  rw [harmonise_of_none hh, or_self] at h
  exact h

/-- the first save after an edit harmonises, every later one changes nothing: state preservation relative to
    the harmonised state -/
theorem second_save_preserves (cls : Cls) (env1 env2 : Env) (req1 req2 : SaveReq) (img : Img)
    (hwf : img.wf cls) (h1 : env1.ok cls) (h2 : env2.ok cls) (hok : (save cls env1 req1 img).err = none) :
    (save cls env2 req2 (save cls env1 req1 img).img).img.core = (save cls env1 req1 img).img.core := by
  have hc := (save_harmonises cls env1 req1 img hwf h1).2 hok
  refine save_preserves_state cls env2 req2 _ ?_ h2 ?_
  · unfold Img.wf Core.wf; rw [hc]; exact hwf
  · unfold Img.harmonised; rw [hc]; rfl

/-- a concrete faulted save satisfying the guards (non-vacuity): float data stored as int16 in a NIfTI-1
    single file with the alias `compat`, OSError at the 10th I/O call (the first data write) -/
def exEnv : Env :=
  { owned := false, exts := [(11, 13)], mat := [], resolve := fun _ => some 4,
    writer := fun _ => ⟨true, some 1000, some 2000, 3, 40⟩ }
def exAff : M4 := ⟨⟨2, 0, 1, -10⟩, ⟨0, 3, 0, -20⟩, ⟨-1, 0, 4, -30⟩, ⟨0, 0, 0, 1⟩⟩
def exImg : Img :=
  { core := { hdr := ⟨0, 64, none, none⟩, alias := some .compat, data := 1, affine := some exAff, hdrObj := 0 },
    fileMap := 0 }
def exReq (k : Nat) : SaveReq := { dtype := .none, fileMap := some 7, fault := .call k }

example : exImg.wf .n1single ∧ exEnv.ok .n1single ∧ exImg.harmonised ∧
    (save .n1single exEnv (exReq 10) exImg).err = some .os ∧
    (save .n1single exEnv (exReq 10) exImg).calls = 10 := by
  refine ⟨by unfold Img.wf Core.wf; decide, ?_, rfl, by decide, by decide⟩
  intro a c h; cases h; decide

/-- an image whose affine was edited in place (pending header update 7): the first save — here one that
    FAILS at its 10th I/O call — harmonises the header, a second one leaves everything alone -/
def exEdited : Img := { exImg with core := { exImg.core with pending := some 7 } }
example : (save .n1single exEnv (exReq 10) exEdited).err = some .os ∧
    (save .n1single exEnv (exReq 10) exEdited).img.core = harmonise exEdited.core ∧
    (save .n1single exEnv (exReq 10) exEdited).img.core ≠ exEdited.core ∧
    (save .n1single exEnv ⟨.none, some 8, .none⟩ (save .n1single exEnv (exReq 10) exEdited).img).img.core
      = harmonise exEdited.core := by decide

/-- `set_slope_inter` raising HeaderDataError inside the `try:` (after the files were opened): the `finally`
    still restores everything -/
def exEnvSlopeBad : Env := { exEnv with slopeRaises := fun _ => true }
example : (save .n1single exEnvSlopeBad ⟨.none, some 8, .none⟩ exImg).err = some .headerData ∧
    (save .n1single exEnvSlopeBad ⟨.none, some 8, .none⟩ exImg).calls = 1 ∧
    (save .n1single exEnvSlopeBad ⟨.none, some 8, .none⟩ exImg).img.core = exImg.core := by decide

/-- the outcome of a save (error, I/O trace, abstract bytes, resulting image) depends on the image only
    through its observable state — not on which file_map it is bound to. (Holds because `save` is a
    function of `img.core`; it is what turns `save_harmonises` into `retry_correct` / `repeat_identical`.) -/
theorem save_congr (cls : Cls) (env : Env) (req : SaveReq) (a b : Img) (h : a.core = b.core) :
    (save cls env req a).err = (save cls env req b).err ∧
    (save cls env req a).out = (save cls env req b).out ∧
    (save cls env req a).log = (save cls env req b).log ∧
    (save cls env req a).calls = (save cls env req b).calls ∧
    (save cls env req a).img.core = (save cls env req b).img.core := by
  unfold save finish
  simp [h]

/-- a save cannot tell an image from its harmonised copy (it harmonises first): same result, bytes, I/O -/
theorem save_congr_harm (cls : Cls) (env : Env) (req : SaveReq) (a b : Img) (h : a.core = harmonise b.core) :
    (save cls env req a).err = (save cls env req b).err ∧
    (save cls env req a).out = (save cls env req b).out ∧
    (save cls env req a).log = (save cls env req b).log ∧
    (save cls env req a).calls = (save cls env req b).calls := by
  have hs := saveWorld_harm cls env req.dtype req.fault b.core
  unfold save finish
  simp only [h]
  unfold Res.obs at hs
  simp only [Prod.mk.injEq] at hs
  exact ⟨hs.1, by rw [hs.2.1], by rw [hs.2.2.1], hs.2.2.2.1⟩

/-- **retry_correct** (a corollary of `save_harmonises` + `save_congr`/`save_congr_harm`; no
    `harmonised` hypothesis): after ANY save attempt (any fault point, any override, any external behaviour —
    failed or not), a following save behaves exactly as it would have on the untouched image: same
    result, same I/O calls, same bytes (as a function of the state they are computed from). In
    particular a healthy retry after a failure writes what a first healthy save writes. -/
theorem retry_correct (cls : Cls) (env1 env2 : Env) (req1 req2 : SaveReq) (img : Img)
    (hwf : img.wf cls) (henv : env1.ok cls) :
    let img' := (save cls env1 req1 img).img
    (save cls env2 req2 img').err = (save cls env2 req2 img).err ∧
    (save cls env2 req2 img').out = (save cls env2 req2 img).out ∧
    (save cls env2 req2 img').log = (save cls env2 req2 img).log := by
  intro img'
  rcases (save_harmonises cls env1 req1 img hwf henv).1 with h | h
  · have h := save_congr cls env2 req2 img' img h
    exact ⟨h.1, h.2.1, h.2.2.1⟩
  · have h := save_congr_harm cls env2 req2 img' img h
    exact ⟨h.1, h.2.1, h.2.2.1⟩

example : (save .n1single exEnv (exReq 10) exImg).err = some .os ∧
    (save .n1single exEnv ⟨.none, some 8, .none⟩ (save .n1single exEnv (exReq 10) exImg).img).err = none := by
  decide

/-- the image after `n` saves with the same request -/
def saves (cls : Cls) (env : Env) (req : SaveReq) : Nat → Img → Img
  | 0, img => img
  | n + 1, img => saves cls env req n (save cls env req img).img

theorem saves_core (cls : Cls) (env : Env) (req : SaveReq) (n : Nat) (img : Img)
    (hwf : img.wf cls) (henv : env.ok cls) :
    (saves cls env req n img).core = img.core ∨ (saves cls env req n img).core = harmonise img.core := by
  induction n generalizing img with
  | zero => exact Or.inl rfl
  | succ n ih =>
      unfold saves
      rcases (save_harmonises cls env req img hwf henv).1 with hp | hp
      · have := ih (save cls env req img).img (by unfold Img.wf; rw [hp]; exact hwf)
        rw [hp] at this; exact this
      · have := ih (save cls env req img).img (by unfold Img.wf; rw [hp]; exact hwf)
        rw [hp, harmonise_idem, or_self] at this
        exact Or.inr this

/-- **repeat_identical** (a corollary of `save_harmonises`, by induction on n; no `harmonised` hypothesis;
    the compressed-file form with clock and file name is `repeat_identical_gz`): for every n, the (n+1)-th save of an otherwise unchanged image gives the
    same result, I/O trace and bytes as the first -/
theorem repeat_identical (cls : Cls) (env : Env) (req : SaveReq) (n : Nat) (img : Img)
    (hwf : img.wf cls) (henv : env.ok cls) :
    (save cls env req (saves cls env req n img)).err = (save cls env req img).err ∧
    (save cls env req (saves cls env req n img)).out = (save cls env req img).out ∧
    (save cls env req (saves cls env req n img)).log = (save cls env req img).log := by
  rcases saves_core cls env req n img hwf henv with h | h
  · have h := save_congr cls env req _ img h
    exact ⟨h.1, h.2.1, h.2.2.1⟩
  · have h := save_congr_harm cls env req _ img h
    exact ⟨h.1, h.2.1, h.2.2.1⟩

/-! ### the file_map binding -/

/-- **failed_save_bindings**: for every class without a `.mat` file, a save that raises ANYTHING (OSError
    at any I/O call or byte budget, WriterError, HeaderDataError, ValueError, TypeError) leaves the image
    bound to the file_map it had (`self.file_map = file_map` is the last statement of the `try:` body). -/
theorem failed_save_bindings (cls : Cls) (env : Env) (req : SaveReq) (img : Img)
    (hmat : cls.traits.hasMat = false) (herr : (save cls env req img).err ≠ none) :
    (save cls env req img).img.fileMap = img.fileMap := by
  unfold save finish at herr ⊢
  simp only [] at herr ⊢
  suffices h : (saveWorld cls env req.dtype req.fault { img := img.core }).2.bound = false by rw [h]; rfl
  cases cls <;> simp only [saveWorld] at herr ⊢
  · exact (analyzeSave_binds _ env _ _ _).2 herr
  · cases hmat
  · cases hmat
  · exact (niftiSave_binds _ env _ _ _).2 herr
  · exact (niftiSave_binds _ env _ _ _).2 herr
  · exact (niftiSave_binds _ env _ _ _).2 herr
  · exact (niftiSave_binds _ env _ _ _).2 herr
  · exact (mghSave_binds _ env _ _ _).2 herr
  · exact ciftiSave_bound env _ _ _

example : Cls.n1single.traits.hasMat = false ∧ (save .n1single exEnv (exReq 10) exImg).err ≠ none := by decide

/-- **successful_save_binds_target**: a save that completes binds the image to the file_map written
    (all classes but CIFTI-2, which never rebinds). For the SPM classes this already holds once the
    Analyze part is complete: a later failure of the `.mat` write leaves the image bound to the new map
    (`spmSave_binds_of_ok` is used only for err = none here). -/
theorem successful_save_binds_target (cls : Cls) (env : Env) (req : SaveReq) (img : Img)
    (hc : cls ≠ .cifti2) (hok : (save cls env req img).err = none) :
    (save cls env req img).img.fileMap = req.fileMap.getD img.fileMap := by
  unfold save finish at hok ⊢
  simp only [] at hok ⊢
  suffices h : (saveWorld cls env req.dtype req.fault { img := img.core }).2.bound = true by rw [h]; rfl
  cases cls <;> simp only [saveWorld] at hok ⊢
  · exact (analyzeSave_binds _ env _ _ _).1 hok
  · exact spmSave_binds_of_ok _ env _ _ _ hok
  · exact spmSave_binds_of_ok _ env _ _ _ hok
  · exact (niftiSave_binds _ env _ _ _).1 hok
  · exact (niftiSave_binds _ env _ _ _).1 hok
  · exact (niftiSave_binds _ env _ _ _).1 hok
  · exact (niftiSave_binds _ env _ _ _).1 hok
  · exact (mghSave_binds _ env _ _ _).1 hok
  · exact absurd rfl hc

example : (save .n1single exEnv ⟨.none, some 8, .none⟩ exImg).err = none ∧
    (save .n1single exEnv ⟨.none, some 8, .none⟩ exImg).img.fileMap = 8 := by decide

/-! ### histories -/

def Op.ok (cls : Cls) : Op → Prop
  | .save env _ => env.ok cls
  | _ => True

theorem setDtypeOp_wf (cls : Cls) (c : Nat) (k : Core) (h : Core.wf cls k) :
    Core.wf cls (setDtypeOp cls c k).2 := by
  unfold setDtypeOp Core.wf
  simp only []
  split
  · rename_i hc; exact hc
  · split <;> exact h

theorem setAliasOp_wf (cls : Cls) (a : Alias) (k : Core) (h : Core.wf cls k) :
    Core.wf cls (setAliasOp cls a k).2 := by
  unfold setAliasOp Core.wf
  split <;> exact h

theorem setDtypeOp_pending (cls : Cls) (c : Nat) (k : Core) : (setDtypeOp cls c k).2.pending = k.pending := by
  unfold setDtypeOp
  simp only []
  split <;> split <;> rfl

theorem setAliasOp_pending (cls : Cls) (a : Alias) (k : Core) : (setAliasOp cls a k).2.pending = k.pending := by
  unfold setAliasOp
  split <;> rfl

theorem run_erase (cls : Cls) (ops : List Op) (a b : Img) (hc : a.core = b.core) (hwf : a.wf cls)
    (hh : a.harmonised) (hok : ∀ op ∈ ops, op.ok cls) :
    (run cls a ops).core = (run cls b (ops.filter fun op => !op.isSave)).core := by
  induction ops generalizing a b with
  | nil => exact hc
  | cons op ops ih =>
      have hok' : ∀ op ∈ ops, op.ok cls := fun o ho => hok o (by simp [ho])
      cases op with
      | save env req =>
          have henv : env.ok cls := hok (.save env req) (by simp)
          have hp := save_preserves_state cls env req a hwf henv hh
          simp only [run, step, List.filter, Op.isSave, Bool.not_true]
          exact ih _ b (by rw [hp, hc]) (by unfold Img.wf; rw [hp]; exact hwf)
            (by unfold Img.harmonised; rw [hp]; exact hh) hok'
      | setDtype c =>
          simp only [run, step, List.filter, Op.isSave, Bool.not_false]
          exact ih _ _ (by simp [hc]) (setDtypeOp_wf cls c a.core hwf)
            (by unfold Img.harmonised; simp only []; rw [setDtypeOp_pending]; exact hh) hok'
      | setAlias al =>
          simp only [run, step, List.filter, Op.isSave, Bool.not_false]
          exact ih _ _ (by simp [hc]) (setAliasOp_wf cls al a.core hwf)
            (by unfold Img.harmonised; simp only []; rw [setAliasOp_pending]; exact hh) hok'

/-- **saves_erasable**: in ANY history of saves (arbitrary faults, overrides, destinations, external
    behaviour) interleaved with `set_data_dtype` calls (dtypes or aliases), the final observable image is
    the one obtained by the `set_data_dtype` calls alone — every save is observationally a no-op. -/
theorem saves_erasable (cls : Cls) (ops : List Op) (img : Img) (hwf : img.wf cls) (hh : img.harmonised)
    (hok : ∀ op ∈ ops, op.ok cls) :
    (run cls img ops).core = (run cls img (ops.filter fun op => !op.isSave)).core :=
  run_erase cls ops img img rfl hwf hh hok

/-- **histories_preserve**: any list of save requests leaves the observable image unchanged -/
theorem histories_preserve (cls : Cls) (reqs : List (Env × SaveReq)) (img : Img) (hwf : img.wf cls)
    (hh : img.harmonised) (hok : ∀ r ∈ reqs, r.1.ok cls) :
    (run cls img (reqs.map fun r => Op.save r.1 r.2)).core = img.core := by
  have h := saves_erasable cls (reqs.map fun r => Op.save r.1 r.2) img hwf hh
    (by intro op hop; simp at hop; obtain ⟨e, r, hr, rfl⟩ := hop; exact hok (e, r) hr)
  rw [h]
  have : ((reqs.map fun r => Op.save r.1 r.2).filter fun op => !op.isSave) = [] := by
    simp only [List.filter_eq_nil_iff, List.mem_map]
    rintro a ⟨r, _, rfl⟩; simp [Op.isSave]
  rw [this]; rfl

/-- **histories_harmonise**: any list of save requests on ANY image (edited or not) leaves it either
    untouched or harmonised — nothing else -/
theorem histories_harmonise (cls : Cls) (reqs : List (Env × SaveReq)) (img : Img) (hwf : img.wf cls)
    (hok : ∀ r ∈ reqs, r.1.ok cls) :
    (run cls img (reqs.map fun r => Op.save r.1 r.2)).core = img.core ∨
    (run cls img (reqs.map fun r => Op.save r.1 r.2)).core = harmonise img.core := by
  induction reqs generalizing img with
  | nil => exact Or.inl rfl
  | cons r rs ih =>
      have hr : r.1.ok cls := hok r (by simp)
      have hrs : ∀ r ∈ rs, r.1.ok cls := fun x hx => hok x (by simp [hx])
      simp only [List.map, run, step]
      rcases (save_harmonises cls r.1 r.2 img hwf hr).1 with hp | hp
      · have := ih (save cls r.1 r.2 img).img (by unfold Img.wf; rw [hp]; exact hwf) hrs
        rw [hp] at this; exact this
      · have := ih (save cls r.1 r.2 img).img (by unfold Img.wf; rw [hp]; exact hwf) hrs
        rw [hp, harmonise_idem, or_self] at this
        exact Or.inr this

example : (run .n1single exEdited [.save exEnv (exReq 3), .save exEnv ⟨.none, some 8, .none⟩]).core
    = harmonise exEdited.core := by decide

example : (run .n1single exImg [.save exEnv (exReq 3), .setDtype 4, .save exEnv (exReq 30), .setAlias .smallest,
    .save exEnv (exReq 6)]).core = (run .n1single exImg [.setDtype 4, .setAlias .smallest]).core := by decide

/-! ### witnesses for the ORIGINAL control flow of the pinned tree -/

/-- ORIGINAL logic: an OSError at a data write (after `set_slope_inter`, before the restore at the end)
    leaves the computed slope, intercept and offset in the header -/
theorem orig_fault_leaves_slope_orig_counterexample :
    let img : Img := { core := { hdr := ⟨0, 4, none, none⟩, alias := none, data := 1, affine := some exAff, hdrObj := 0 }, fileMap := 0 }
    let o := saveOrig .n1single exEnv ⟨.none, some 1, .call 10⟩ img
    o.err = some .os ∧ o.img.core.hdr = ⟨384, 4, some 1000, some 2000⟩ ∧ o.img.core ≠ img.core ∧
    -- and the retry then writes UNSCALED data under that slope (scaled flag false in the data chunk)
    (saveOrig .n1single exEnv ⟨.none, some 2, .none⟩ o.img).out ≠ (saveOrig .n1single exEnv ⟨.none, some 2, .none⟩ img).out := by
  decide

/-- ORIGINAL logic: a successful save with a dtype alias restores the alias but leaves the header
    dtype at the resolved code (64 → 4) -/
theorem orig_alias_changes_header_dtype_orig_counterexample :
    let o := saveOrig .n1single exEnv ⟨.none, some 1, .none⟩ exImg
    o.err = none ∧ o.img.core.alias = some .compat ∧ o.img.core.hdr.dtype = 4 ∧ exImg.core.hdr.dtype = 64 := by
  decide


/-! ### by-name saves, data sources -/

/-- **byname_harmonises**: `img.to_filename(name)` (rebinding first, then `to_file_map()`) changes the
    image no more than `to_file_map` does -/
theorem byname_harmonises (cls : Cls) (env : Env) (req : SaveReq) (img : Img)
    (hwf : img.wf cls) (henv : env.ok cls) :
    ((saveByName cls env req img).img.core = img.core ∨ (saveByName cls env req img).img.core = harmonise img.core) ∧
    ((saveByName cls env req img).err = none → (saveByName cls env req img).img.core = harmonise img.core) :=
  save_harmonises cls env { req with fileMap := none } { img with fileMap := req.fileMap.getD img.fileMap } hwf henv

/-- an image lazily loaded with a memory map (file identity 1), saved by name onto its own source -/
def exMapped : Img := { exImg with core := { exImg.core with alias := none, src := .proxy 1 true } }
def exEnvSelf : Env := { exEnv with owned := true, destImage := 1 }

example : exMapped.wf .n1single ∧ (saveByName .n1single exEnvSelf ⟨.none, some 3, .none⟩ exMapped).err = none ∧
    (saveByName .n1single exEnvSelf ⟨.none, some 3, .none⟩ exMapped).img.core.data = 1 := by
  refine ⟨by unfold Img.wf Core.wf; decide, by decide, by decide⟩

/-- the pinned logic (no copy of a memory-mapped volume before the destination is opened): saving a
    memory-mapped image onto its own source file destroys the image's data (data id 0 = garbage) and writes
    garbage; saving it anywhere else is fine -/
theorem orig_self_overwrite_loses_data_orig_counterexample :
    let o := saveOrig .n1single exEnvSelf ⟨.none, some 3, .none⟩ exMapped
    o.err = none ∧ o.img.core.data = 0 ∧ exMapped.core.data = 1 ∧
    (o.out.any fun c => match c with | .data _ d _ _ _ _ => d == 0 | _ => false) = true ∧
    (saveOrig .n1single { exEnvSelf with destImage := 2 } ⟨.none, some 3, .none⟩ exMapped).img.core.data = 1 := by
  decide

/-! ### the SPM `.mat` file -/

/-- **mat_roundtrip**: for EVERY integer affine and BOTH values of `default_x_flip` of the writer and of the
    reader, the `.mat` file `to_file_map` writes (variables `M` and `mat`) is read back by `from_file_map` as
    exactly the affine of the image -/
theorem mat_roundtrip (a : M4) (flipW flipR : Bool) :
    loadMat flipR (some (spmMat a)) (some (spmM flipW a)) = some a := by
  simp only [loadMat, spmMat, from111_to111]

/-- **mat_roundtrip_M_only**: a `.mat` file that only has `M` (as SPM itself wrote them) loads back to the
    affine when reader and writer agree on `default_x_flip`; and `M` differs from `mat` exactly by the flip -/
theorem mat_roundtrip_M_only (a : M4) (flip : Bool) :
    loadMat flip none (some (spmM flip a)) = some a ∧
    spmM flip a = (if flip then xflipM.mul (spmMat a) else spmMat a) := by
  cases flip
  · refine ⟨?_, rfl⟩
    show some ((a.mul from111).mul to111) = some a
    rw [from111_to111]
  · refine ⟨?_, M4.mul_assoc _ _ _⟩
    show some ((xflipR.mul ((xflipM.mul a).mul from111)).mul to111) = some a
    rw [← M4.mul_assoc xflipR, xflip_xflip, from111_to111]

example : loadMat false (some (spmMat exAff)) (some (spmM false exAff)) = some exAff ∧
    spmM false exAff ≠ spmM true exAff ∧ loadMat true none (some (spmM false exAff)) ≠ some exAff := by decide

/-- **spm_save_writes_mat**: every SPM99 / SPM2 save that completes — whatever history of saves, failed or
    not, preceded it (by `save_harmonises` the affine and the flip flag are still the image's) — has written
    a `.mat` file whose variables are `M = [flip] · affine · from_111` and `mat = affine · from_111`, computed
    from the image's affine and its header's `default_x_flip`; and (`mat_roundtrip`) that file loads back to
    exactly the image's affine under either reader convention -/
theorem spm_save_writes_mat (cls : Cls) (hc : cls = .spm99 ∨ cls = .spm2) (env : Env) (req : SaveReq) (img : Img)
    (a : M4) (hwf : img.wf cls) (ha : img.core.affine = some a) (hok : (save cls env req img).err = none) :
    Chunk.mat (spmM img.core.xflip a) (spmMat a) ∈ (save cls env req img).out ∧
    ∀ flipR, loadMat flipR (some (spmMat a)) (some (spmM img.core.xflip a)) = img.core.affine := by
  refine ⟨?_, fun flipR => by rw [ha]; exact mat_roundtrip a _ flipR⟩
  unfold save finish at hok ⊢
  simp only [List.mem_reverse] at hok ⊢
  rcases hc with rfl | rfl
  · exact spmSave_mat _ env req.dtype req.fault { img := img.core } a (rtCode_id .spm99 _ hwf) ha hok
  · exact spmSave_mat _ env req.dtype req.fault { img := img.core } a (rtCode_id .spm2 _ hwf) ha hok

def exSpm : Img :=
  { core := { hdr := ⟨0, 4, none, none⟩, alias := none, data := 1, affine := some exAff, xflip := false, hdrObj := 0 },
    fileMap := 0 }
example : exSpm.wf .spm99 ∧ (save .spm99 exEnv ⟨.none, some 1, .none⟩ exSpm).err = none ∧
    Chunk.mat (spmM false exAff) (spmMat exAff) ∈ (save .spm99 exEnv ⟨.none, some 1, .none⟩ exSpm).out := by
  refine ⟨by unfold Img.wf Core.wf; decide, by decide, by decide⟩

/-! ### the source still has the shape the step machine is written for -/

/-- **skeleton_agrees**: the skeletons extracted from the AST of the working tree (ordered header mutations,
    I/O, bindings, restores of the `finally:` blocks with their conditions, aliases of `self._affine` and in-place
    stores, the memmap copy with its condition) are the ones the model is written for; and the copy of a
    memory-mapped volume precedes the first open-for-write in both writers that have it -/
theorem skeleton_agrees :
    Gen.skelAnalyze = expectedSkelAnalyze ∧ Gen.skelNifti = expectedSkelNifti ∧ Gen.skelSpm = expectedSkelSpm ∧
    Gen.skelMgh = expectedSkelMgh ∧ Gen.skelCifti = expectedSkelCifti ∧ Gen.skelToFilename = expectedSkelToFilename ∧
    Gen.copyBeforeOpenAnalyze = true ∧ Gen.copyBeforeOpenMgh = true ∧ Gen.inplaceOnAffineAlias = [] := by
  decide

/-- **analyze_try_order**: the events of the `try:` body of `AnalyzeImage.to_file_map`, in source order, are
    exactly the steps of the model's `coreBody`, in order -/
theorem analyze_try_order :
    Gen.skelAnalyze.filterMap srcToken = (coreBody skelCtx).filterMap stepToken := by
  decide

/-- **analyze_finally_is_restore**: the `finally:` block of the source consists of exactly the statements
    `restore` models, in that order (nothing that can raise in between) -/
theorem analyze_finally_is_restore :
    (Gen.skelAnalyze.filter (fun t => t.1 = "finally: ")).map (·.2) = restoreTokens := by
  decide

/-! ### gzip destinations -/

/-- **nib_gzip_independent**: the gzip stream nibabel produces (`DeterministicGzipFile`: `filename=''`,
    `mtime=0`) for given data and level is the same whatever the wall clock reads and whatever the path of
    the destination is — for every deflate / CRC function -/
theorem nib_gzip_independent (deflate : Nat → List Nat → List Nat) (crc : List Nat → Nat)
    (path path' : List Nat) (clock clock' level : Nat) (data : List Nat) :
    gzStream deflate crc (nibSink path level) clock data = gzStream deflate crc (nibSink path' level) clock' data := by
  rfl

/-- **repeat_identical_gz**: the (n+1)-th save of an otherwise unchanged image, made at ANOTHER time under
    ANOTHER file name through nibabel's gzip sink, produces the byte-identical compressed stream — for every
    serialisation `enc` of the abstract output, deflate and CRC function -/
theorem repeat_identical_gz (cls : Cls) (env : Env) (req : SaveReq) (n : Nat) (img : Img)
    (hwf : img.wf cls) (henv : env.ok cls)
    (enc : List Chunk → List Nat) (deflate : Nat → List Nat → List Nat) (crc : List Nat → Nat)
    (path path' : List Nat) (clock clock' level : Nat) :
    gzStream deflate crc (nibSink path' level) clock' (enc (save cls env req (saves cls env req n img)).out) =
    gzStream deflate crc (nibSink path level) clock (enc (save cls env req img).out) := by
  rw [(repeat_identical cls env req n img hwf henv).2.1]
  rfl

/-- a sink that embeds the clock or the file name (plain `gzip.GzipFile(path, 'wb')`, what nibabel does NOT
    use): the same data written a second later, or under another name, give different bytes -/
theorem plain_gzip_embeds_clock_counterexample :
    let deflate : Nat → List Nat → List Nat := fun _ d => d
    let crc : List Nat → Nat := fun d => d.sum
    gzStream deflate crc (plainSink [97, 46, 103, 122] 9) 1000 [1, 2, 3] ≠
      gzStream deflate crc (plainSink [97, 46, 103, 122] 9) 1001 [1, 2, 3] ∧
    gzStream deflate crc (plainSink [97, 46, 103, 122] 9) 1000 [1, 2, 3] ≠
      gzStream deflate crc (plainSink [98, 46, 103, 122] 9) 1000 [1, 2, 3] ∧
    gzHeader (plainSink [47, 116, 47, 97, 46, 103, 122] 9) 1000 = [31, 139, 8, 8, 232, 3, 0, 0, 2, 255, 97, 0] ∧
    gzHeader (nibSink [47, 116, 47, 97, 46, 103, 122] 9) 1000 = [31, 139, 8, 0, 0, 0, 0, 0, 2, 255] := by
  decide

/-! ### the memory-map test `maps_file` and images that hold a VIEW of a memory map -/

/-- **maps_file_detects_every_map**: on every chain of owners (ndarray bases, memoryviews, array-interface
    holders, anything else, in any order and of any length) `maps_file` answers True exactly when some owner is an
    `np.memmap` or an `mmap.mmap` — so the copy in `to_file_map` is made for EVERY array that reads from a live map -/
theorem maps_file_detects_every_map (ch : List Owner) :
    mapsFile ch = true ↔ ∃ o ∈ ch, o = Owner.memmap ∨ o = Owner.mmap := by
  rw [mapsFile_eq_any, List.any_eq_true]
  constructor
  · rintro ⟨o, ho, h⟩; exact ⟨o, ho, by cases o <;> simp_all [Owner.isMap]⟩
  · rintro ⟨o, ho, h | h⟩ <;> exact ⟨o, ho, by subst h; rfl⟩

/-- the source skeleton of `maps_file` (every statement, from the AST of volumeutils.py) is the one `mapsFile` is
    written for -/
theorem maps_file_skeleton_agrees : Gen.skelMapsFile = expectedSkelMapsFile := by decide

/-- **view_self_overwrite_keeps_data**: an image that HOLDS an array viewing a memory map of file `f` through any
    chain of owners, saved (by name: the destination is opened, and truncated, by nibabel) onto that very file —
    with any fault, override, alias and external behaviour — still has its data, and nothing but `update_header()`
    has happened to it. (Holds for EVERY destination; `env.destImage = f ∧ env.owned` is the dangerous one, see the
    example and `maps_file_orig_misses_views_orig_counterexample`.) -/
theorem view_self_overwrite_keeps_data (cls : Cls) (env : Env) (req : SaveReq) (img : Img) (f : Nat) (ch : List Owner)
    (hsrc : img.core.src = .view f ch) (hwf : img.wf cls) (henv : env.ok cls) :
    (saveByName cls env req img).img.core.data = img.core.data ∧
    (saveByName cls env req img).img.core.src = .view f ch := by
  rcases (byname_harmonises cls env req img hwf henv).1 with h | h
  · rw [h]; exact ⟨rfl, hsrc⟩
  · rw [h]; exact ⟨rfl, hsrc⟩

/-- an image holding `np.frombuffer(mmap)`-style data (ndarray → memoryview → mmap) of file 1 -/
def exView : Img := { exImg with core := { exImg.core with alias := none, src := .view 1 [.ndarray, .memoryview, .mmap] } }

example : exView.wf .n1single ∧ exEnvSelf.destImage = 1 ∧ exEnvSelf.owned = true ∧
    (saveByName .n1single exEnvSelf ⟨.none, some 3, .none⟩ exView).err = none ∧
    (saveByName .n1single exEnvSelf ⟨.none, some 3, .none⟩ exView).img.core.data = 1 ∧
    mapsFile [.ndarray, .memoryview, .mmap] = true := by
  refine ⟨by unfold Img.wf Core.wf; decide, rfl, rfl, by decide, by decide, by decide⟩

/-- the two EARLIER tests miss maps that the current one sees: `isinstance(data, np.memmap)` (fae418e9) misses
    `np.asarray(memmap)`; the first `maps_file` (ae98171b) stops at a memoryview / array-interface holder, so an
    image holding `np.frombuffer(mmap)` saved onto the mapped file had the file truncated under its data
    (data id 0 = garbage / SIGBUS) -/
theorem maps_file_orig_misses_views_orig_counterexample :
    isMemmapOrig [.ndarray, .memmap, .mmap] = false ∧ mapsFile [.ndarray, .memmap, .mmap] = true ∧
    mapsFileOrig [.ndarray, .memmap, .mmap] = true ∧
    mapsFileOrig [.ndarray, .memoryview, .mmap] = false ∧ mapsFile [.ndarray, .memoryview, .mmap] = true ∧
    mapsFileOrig [.ndarray, .other, .memmap, .mmap] = false ∧ mapsFile [.ndarray, .other, .memmap, .mmap] = true ∧
    (let w := materializeWith mapsFileOrig { img := exView.core }
     let c : Ctx := { skelCtx with env := { skelEnv with destImage := 1 } }
     w.live = some 1 ∧ (exec c (.openW .image) w).2.img.data = 0 ∧ exView.core.data = 1) := by
  decide

/-! ### by-name saves: binding and retry -/

/-- **byname_binds_first**: `to_filename` / `nibabel.save` / `set_filename` + `to_file_map()` bind the image to the
    new names BEFORE anything is written — so after ANY outcome (success, OSError at any call, WriterError, …), for
    every class, the image is bound to the requested names -/
theorem byname_binds_first (cls : Cls) (env : Env) (req : SaveReq) (img : Img) :
    (saveByName cls env req img).img.fileMap = req.fileMap.getD img.fileMap := by
  unfold saveByName save finish
  simp only [Option.getD_none]
  split <;> rfl

/-- **byname_retry_correct**: after ANY by-name save attempt (any fault point of the files nibabel opened itself,
    any override, any external behaviour) a following save — by name or to a file_map — behaves exactly as it would
    have on the untouched image: same result, same I/O calls, same bytes -/
theorem byname_retry_correct (cls : Cls) (env1 env2 : Env) (req1 req2 : SaveReq) (img : Img)
    (hwf : img.wf cls) (henv : env1.ok cls) :
    let img' := (saveByName cls env1 req1 img).img
    ((saveByName cls env2 req2 img').err = (saveByName cls env2 req2 img).err ∧
     (saveByName cls env2 req2 img').out = (saveByName cls env2 req2 img).out ∧
     (saveByName cls env2 req2 img').log = (saveByName cls env2 req2 img).log) ∧
    ((save cls env2 req2 img').err = (save cls env2 req2 img).err ∧
     (save cls env2 req2 img').out = (save cls env2 req2 img).out ∧
     (save cls env2 req2 img').log = (save cls env2 req2 img).log) := by
  intro img'
  have key : img'.core = img.core ∨ img'.core = harmonise img.core :=
    (byname_harmonises cls env1 req1 img hwf henv).1
  constructor
  · unfold saveByName
    rcases key with h | h
    · have h := save_congr cls env2 { req2 with fileMap := none } { img' with fileMap := req2.fileMap.getD img'.fileMap }
        { img with fileMap := req2.fileMap.getD img.fileMap } h
      exact ⟨h.1, h.2.1, h.2.2.1⟩
    · have h := save_congr_harm cls env2 { req2 with fileMap := none } { img' with fileMap := req2.fileMap.getD img'.fileMap }
        { img with fileMap := req2.fileMap.getD img.fileMap } h
      exact ⟨h.1, h.2.1, h.2.2.1⟩
  · rcases key with h | h
    · have h := save_congr cls env2 req2 img' img h
      exact ⟨h.1, h.2.1, h.2.2.1⟩
    · have h := save_congr_harm cls env2 req2 img' img h
      exact ⟨h.1, h.2.1, h.2.2.1⟩

example : (saveByName .n1single exEnv (exReq 2) exImg).err = some .os ∧
    (saveByName .n1single exEnv (exReq 2) exImg).img.fileMap = 7 ∧ exImg.fileMap = 0 ∧
    (saveByName .n1single exEnv ⟨.none, some 8, .none⟩ (saveByName .n1single exEnv (exReq 2) exImg).img).err = none := by
  decide

/-! ### the writer never stores into the image's array -/

/-- **write_data_never_stores_into_input**: whichever of its eight branches one iteration of the slice loop of
    `_write_data` takes, it never stores into memory it shares with the array it was given (the image's own array):
    the only in-place store (`dslice[nans] = nan_fill`) is reached either after a step that rebound `dslice` to a
    new array or after the `nan_need_copy` copy -/
theorem write_data_never_stores_into_input (f : WFlags) : sliceLoopStoresIntoInput f = false := by
  cases f with
  | mk a b c d e g h i =>
    cases a <;> cases b <;> cases c <;> cases d <;> cases e <;> cases g <;> cases h <;> cases i <;> rfl

/-- the source still has the statements `sliceBody` is written for -/
theorem write_data_skeleton_agrees : Gen.skelWriteData = expectedSkelWriteData := by decide

/-- a loop that gathers with `np.ascontiguousarray` and then scales in place (the change class of a seeded bug) does
    store into the input exactly when the slice needed no copy (F-ordered array of the working type) -/
theorem inplace_scaling_stores_into_input_counterexample :
    (runSlice (sliceBodyInplace true ⟨false, false, true, true, false, false, false, true⟩) (true, false)).2 = true ∧
    (runSlice (sliceBodyInplace false ⟨false, false, true, true, false, false, false, true⟩) (true, false)).2 = false := by
  decide

example : sliceLoopStoresIntoInput ⟨false, false, false, false, false, true, true, false⟩ = false ∧
    nanNeedCopy ⟨false, false, false, false, false, true, true, false⟩ = true := by decide

end Nb.C07
