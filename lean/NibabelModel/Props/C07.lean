import NibabelModel.Model.C07
/-! Props/C07 — the property theorems for C07 (statements + proofs; helper lemmas live in Lemmas/). -/
namespace Nb.C07

end Nb.C07
