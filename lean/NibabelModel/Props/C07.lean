import NibabelModel.Lemmas.C07
/-! Props/C07 — "saving never changes the image, even when the write fails part-way".

  All theorems are about the step machine of Model/C07.lean (the control flow of `to_file_map` of the nine
  writable volume classes after the two `fix:` commits) and hold for EVERY class, initial state, fault
  (`Fault.none`, the k-th I/O call for every k, every byte budget), dtype override, alias, and every
  external behaviour `Env` (writer raising or not, any computed slope/inter, any number of writes, any
  extension / .mat sizes, owned or caller-provided file objects).

  Guards (what the real code needs, stated as hypotheses):
  * `Img.wf`  — the header's dtype code is one the header class supports (true of every image nibabel
    builds: `set_data_dtype` refuses anything else; `gen_tables_ok` shows such a code survives
    `hdr.set_data_dtype(hdr.get_data_dtype())`, which is what the `finally:` blocks execute);
  * `Env.ok`  — a dtype alias resolves to a dtype the NIfTI header supports (uint8/int16/int32/float32).
-/
namespace Nb.C07

/-- Leg T: for every class, every supported dtype code survives code → dtype → code (regenerated table) -/
theorem gen_tables_ok : ∀ cls : Cls, ∀ c ∈ cls.traits.codes, cls.traits.roundtrip.lookup c = some c := by
  intro cls; cases cls <;> decide

theorem rtCode_id (cls : Cls) (c : Nat) (h : c ∈ cls.traits.codes) : rtCode cls.traits c = c := by
  unfold rtCode; rw [gen_tables_ok cls c h]

def Core.wf (cls : Cls) (k : Core) : Prop := k.hdr.dtype ∈ cls.traits.codes
def Img.wf (cls : Cls) (img : Img) : Prop := Core.wf cls img.core
def Env.ok (cls : Cls) (env : Env) : Prop := ∀ a c, env.resolve a = some c → c ∈ cls.traits.codes

theorem saveWorld_img (cls : Cls) (env : Env) (dt : DtReq) (fault : Fault) (k : Core)
    (hwf : Core.wf cls k) (henv : env.ok cls) :
    (saveWorld cls env dt fault { img := k }).2.img = k := by
  cases cls <;> simp only [saveWorld]
  · exact analyzeSave_img _ env dt fault _ (rtCode_id .analyze _ hwf)
  · exact spmSave_img _ env dt fault _ (rtCode_id .spm99 _ hwf)
  · exact spmSave_img _ env dt fault _ (rtCode_id .spm2 _ hwf)
  · exact niftiSave_img _ env dt fault _ (rtCode_id .n1pair) hwf henv
  · exact niftiSave_img _ env dt fault _ (rtCode_id .n1single) hwf henv
  · exact niftiSave_img _ env dt fault _ (rtCode_id .n2pair) hwf henv
  · exact niftiSave_img _ env dt fault _ (rtCode_id .n2single) hwf henv
  · exact mghSave_img _ env dt fault _
  · exact ciftiSave_img env dt fault _ (rtCode_id .n2single) hwf henv

/-- **save_preserves_state**: for every class, state, fault point (none / any k / any byte budget), dtype
    override, alias and external behaviour, the observable image (consumable header fields, dtype code,
    alias, data, affine, header object) after `to_file_map` equals the one before — whether the save
    succeeded or raised anything anywhere. -/
theorem save_preserves_state (cls : Cls) (env : Env) (req : SaveReq) (img : Img)
    (hwf : img.wf cls) (henv : env.ok cls) :
    (save cls env req img).img.core = img.core := by
  unfold save finish
  exact saveWorld_img cls env req.dtype req.fault img.core hwf henv

/-- a concrete faulted save satisfying the guards (non-vacuity): float data stored as int16 in a NIfTI-1
    single file with the alias `compat`, OSError at the 10th I/O call (the first data write) -/
def exEnv : Env :=
  { owned := false, exts := [(11, 13)], mat := [], resolve := fun _ => some 4,
    writer := fun _ => ⟨true, some 1000, some 2000, 3, 40⟩ }
def exAff : M4 := ⟨⟨2, 0, 1, -10⟩, ⟨0, 3, 0, -20⟩, ⟨-1, 0, 4, -30⟩, ⟨0, 0, 0, 1⟩⟩
def exImg : Img :=
  { core := { hdr := ⟨0, 64, none, none⟩, alias := some .compat, data := 1, affine := some exAff, hdrObj := 0 },
    fileMap := 0 }
def exReq (k : Nat) : SaveReq := { dtype := .none, fileMap := some 7, fault := .call k }

example : exImg.wf .n1single ∧ exEnv.ok .n1single ∧ (save .n1single exEnv (exReq 10) exImg).err = some .os ∧
    (save .n1single exEnv (exReq 10) exImg).calls = 10 := by
  refine ⟨by unfold Img.wf Core.wf; decide, ?_, by decide, by decide⟩
  intro a c h; cases h; decide

/-- the outcome of a save (error, I/O trace, abstract bytes, resulting image) depends on the image only
    through its observable state — not on which file_map it is bound to -/
theorem save_congr (cls : Cls) (env : Env) (req : SaveReq) (a b : Img) (h : a.core = b.core) :
    (save cls env req a).err = (save cls env req b).err ∧
    (save cls env req a).out = (save cls env req b).out ∧
    (save cls env req a).log = (save cls env req b).log ∧
    (save cls env req a).calls = (save cls env req b).calls ∧
    (save cls env req a).img.core = (save cls env req b).img.core := by
  unfold save finish
  simp [h]

/-- **retry_correct**: after ANY save attempt (any fault point, any override, any external behaviour —
    failed or not), a following save behaves exactly as it would have on the untouched image: same
    result, same I/O calls, same bytes (as a function of the state they are computed from). In
    particular a healthy retry after a failure writes what a first healthy save writes. -/
theorem retry_correct (cls : Cls) (env1 env2 : Env) (req1 req2 : SaveReq) (img : Img)
    (hwf : img.wf cls) (henv : env1.ok cls) :
    let img' := (save cls env1 req1 img).img
    (save cls env2 req2 img').err = (save cls env2 req2 img).err ∧
    (save cls env2 req2 img').out = (save cls env2 req2 img).out ∧
    (save cls env2 req2 img').log = (save cls env2 req2 img).log := by
  intro img'
  have h := save_congr cls env2 req2 img' img (save_preserves_state cls env1 req1 img hwf henv)
  exact ⟨h.1, h.2.1, h.2.2.1⟩

example : (save .n1single exEnv (exReq 10) exImg).err = some .os ∧
    (save .n1single exEnv ⟨.none, some 8, .none⟩ (save .n1single exEnv (exReq 10) exImg).img).err = none := by
  decide

/-- the image after `n` saves with the same request -/
def saves (cls : Cls) (env : Env) (req : SaveReq) : Nat → Img → Img
  | 0, img => img
  | n + 1, img => saves cls env req n (save cls env req img).img

theorem saves_core (cls : Cls) (env : Env) (req : SaveReq) (n : Nat) (img : Img)
    (hwf : img.wf cls) (henv : env.ok cls) : (saves cls env req n img).core = img.core := by
  induction n generalizing img with
  | zero => rfl
  | succ n ih =>
      have hp := save_preserves_state cls env req img hwf henv
      unfold saves
      rw [ih _ (by unfold Img.wf; rw [hp]; exact hwf), hp]

/-- **repeat_identical**: for every n, the (n+1)-th save of an otherwise unchanged image gives the
    same result, I/O trace and bytes as the first -/
theorem repeat_identical (cls : Cls) (env : Env) (req : SaveReq) (n : Nat) (img : Img)
    (hwf : img.wf cls) (henv : env.ok cls) :
    (save cls env req (saves cls env req n img)).err = (save cls env req img).err ∧
    (save cls env req (saves cls env req n img)).out = (save cls env req img).out ∧
    (save cls env req (saves cls env req n img)).log = (save cls env req img).log := by
  have h := save_congr cls env req _ img (saves_core cls env req n img hwf henv)
  exact ⟨h.1, h.2.1, h.2.2.1⟩

/-! ### the file_map binding -/

/-- **failed_save_bindings**: for every class without a `.mat` file, a save that raises ANYTHING (OSError
    at any I/O call or byte budget, WriterError, HeaderDataError, ValueError, TypeError) leaves the image
    bound to the file_map it had (`self.file_map = file_map` is the last statement of the `try:` body). -/
theorem failed_save_bindings (cls : Cls) (env : Env) (req : SaveReq) (img : Img)
    (hmat : cls.traits.hasMat = false) (herr : (save cls env req img).err ≠ none) :
    (save cls env req img).img.fileMap = img.fileMap := by
  unfold save finish at herr ⊢
  simp only [] at herr ⊢
  suffices h : (saveWorld cls env req.dtype req.fault { img := img.core }).2.bound = false by rw [h]; rfl
  cases cls <;> simp only [saveWorld] at herr ⊢
  · exact (analyzeSave_binds _ env _ _ _).2 herr
  · cases hmat
  · cases hmat
  · exact (niftiSave_binds _ env _ _ _).2 herr
  · exact (niftiSave_binds _ env _ _ _).2 herr
  · exact (niftiSave_binds _ env _ _ _).2 herr
  · exact (niftiSave_binds _ env _ _ _).2 herr
  · exact (mghSave_binds _ env _ _ _).2 herr
  · exact ciftiSave_bound env _ _ _

example : Cls.n1single.traits.hasMat = false ∧ (save .n1single exEnv (exReq 10) exImg).err ≠ none := by decide

/-- **successful_save_binds_target**: a save that completes binds the image to the file_map written
    (all classes but CIFTI-2, which never rebinds). For the SPM classes this already holds once the
    Analyze part is complete: a later failure of the `.mat` write leaves the image bound to the new map
    (`spmSave_binds_of_ok` is used only for err = none here). -/
theorem successful_save_binds_target (cls : Cls) (env : Env) (req : SaveReq) (img : Img)
    (hc : cls ≠ .cifti2) (hok : (save cls env req img).err = none) :
    (save cls env req img).img.fileMap = req.fileMap.getD img.fileMap := by
  unfold save finish at hok ⊢
  simp only [] at hok ⊢
  suffices h : (saveWorld cls env req.dtype req.fault { img := img.core }).2.bound = true by rw [h]; rfl
  cases cls <;> simp only [saveWorld] at hok ⊢
  · exact (analyzeSave_binds _ env _ _ _).1 hok
  · exact spmSave_binds_of_ok _ env _ _ _ hok
  · exact spmSave_binds_of_ok _ env _ _ _ hok
  · exact (niftiSave_binds _ env _ _ _).1 hok
  · exact (niftiSave_binds _ env _ _ _).1 hok
  · exact (niftiSave_binds _ env _ _ _).1 hok
  · exact (niftiSave_binds _ env _ _ _).1 hok
  · exact (mghSave_binds _ env _ _ _).1 hok
  · exact absurd rfl hc

example : (save .n1single exEnv ⟨.none, some 8, .none⟩ exImg).err = none ∧
    (save .n1single exEnv ⟨.none, some 8, .none⟩ exImg).img.fileMap = 8 := by decide

/-! ### histories -/

def Op.ok (cls : Cls) : Op → Prop
  | .save env _ => env.ok cls
  | _ => True

theorem setDtypeOp_wf (cls : Cls) (c : Nat) (k : Core) (h : Core.wf cls k) :
    Core.wf cls (setDtypeOp cls c k).2 := by
  unfold setDtypeOp Core.wf
  simp only []
  split
  · rename_i hc; exact hc
  · split <;> exact h

theorem setAliasOp_wf (cls : Cls) (a : Alias) (k : Core) (h : Core.wf cls k) :
    Core.wf cls (setAliasOp cls a k).2 := by
  unfold setAliasOp Core.wf
  split <;> exact h

theorem run_erase (cls : Cls) (ops : List Op) (a b : Img) (hc : a.core = b.core) (hwf : a.wf cls)
    (hok : ∀ op ∈ ops, op.ok cls) :
    (run cls a ops).core = (run cls b (ops.filter fun op => !op.isSave)).core := by
  induction ops generalizing a b with
  | nil => exact hc
  | cons op ops ih =>
      have hok' : ∀ op ∈ ops, op.ok cls := fun o ho => hok o (by simp [ho])
      cases op with
      | save env req =>
          have henv : env.ok cls := hok (.save env req) (by simp)
          have hp := save_preserves_state cls env req a hwf henv
          simp only [run, step, List.filter, Op.isSave, Bool.not_true]
          exact ih _ b (by rw [hp, hc]) (by unfold Img.wf; rw [hp]; exact hwf) hok'
      | setDtype c =>
          simp only [run, step, List.filter, Op.isSave, Bool.not_false]
          exact ih _ _ (by simp [hc]) (setDtypeOp_wf cls c a.core hwf) hok'
      | setAlias al =>
          simp only [run, step, List.filter, Op.isSave, Bool.not_false]
          exact ih _ _ (by simp [hc]) (setAliasOp_wf cls al a.core hwf) hok'

/-- **saves_erasable**: in ANY history of saves (arbitrary faults, overrides, destinations, external
    behaviour) interleaved with `set_data_dtype` calls (dtypes or aliases), the final observable image is
    the one obtained by the `set_data_dtype` calls alone — every save is observationally a no-op. -/
theorem saves_erasable (cls : Cls) (ops : List Op) (img : Img) (hwf : img.wf cls)
    (hok : ∀ op ∈ ops, op.ok cls) :
    (run cls img ops).core = (run cls img (ops.filter fun op => !op.isSave)).core :=
  run_erase cls ops img img rfl hwf hok

/-- **histories_preserve**: any list of save requests leaves the observable image unchanged -/
theorem histories_preserve (cls : Cls) (reqs : List (Env × SaveReq)) (img : Img) (hwf : img.wf cls)
    (hok : ∀ r ∈ reqs, r.1.ok cls) :
    (run cls img (reqs.map fun r => Op.save r.1 r.2)).core = img.core := by
  have h := saves_erasable cls (reqs.map fun r => Op.save r.1 r.2) img hwf
    (by intro op hop; simp at hop; obtain ⟨e, r, hr, rfl⟩ := hop; exact hok (e, r) hr)
  rw [h]
  have : ((reqs.map fun r => Op.save r.1 r.2).filter fun op => !op.isSave) = [] := by
    simp only [List.filter_eq_nil_iff, List.mem_map]
    rintro a ⟨r, _, rfl⟩; simp [Op.isSave]
  rw [this]; rfl

example : (run .n1single exImg [.save exEnv (exReq 3), .setDtype 4, .save exEnv (exReq 30), .setAlias .smallest,
    .save exEnv (exReq 6)]).core = (run .n1single exImg [.setDtype 4, .setAlias .smallest]).core := by decide

/-! ### witnesses for the ORIGINAL control flow of the pinned tree -/

/-- ORIGINAL logic: an OSError at a data write (after `set_slope_inter`, before the restore at the end)
    leaves the computed slope, intercept and offset in the header -/
theorem orig_fault_leaves_slope_orig_counterexample :
    let img : Img := { core := { hdr := ⟨0, 4, none, none⟩, alias := none, data := 1, affine := some exAff, hdrObj := 0 }, fileMap := 0 }
    let o := saveOrig .n1single exEnv ⟨.none, some 1, .call 10⟩ img
    o.err = some .os ∧ o.img.core.hdr = ⟨384, 4, some 1000, some 2000⟩ ∧ o.img.core ≠ img.core ∧
    -- and the retry then writes UNSCALED data under that slope (scaled flag false in the data chunk)
    (saveOrig .n1single exEnv ⟨.none, some 2, .none⟩ o.img).out ≠ (saveOrig .n1single exEnv ⟨.none, some 2, .none⟩ img).out := by
  decide

/-- ORIGINAL logic: a successful save with a dtype alias restores the alias but leaves the header
    dtype at the resolved code (64 → 4) -/
theorem orig_alias_changes_header_dtype_orig_counterexample :
    let o := saveOrig .n1single exEnv ⟨.none, some 1, .none⟩ exImg
    o.err = none ∧ o.img.core.alias = some .compat ∧ o.img.core.hdr.dtype = 4 ∧ exImg.core.hdr.dtype = 64 := by
  decide

end Nb.C07
