import NibabelModel.Model.C20
/-! Props/C20 — the property theorems for C20 (statements + proofs; helper lemmas live in Lemmas/). -/
namespace Nb.C20

end Nb.C20
